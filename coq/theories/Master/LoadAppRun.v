(** Loader glue: correspondence runner.  [loadapp_tables] is assembled here from the plain definitions that
    harness/tables_loadapp.py regenerates into Gen/Tables.v on every run; [run_case] flattens the model's
    observables to [list Z] exactly like harness/props/loadapp.py flattens the implementation's.
    Model file: no proofs. *)
From Coq Require Import ZArith List Bool.
From TM Require Import Codec.BaseN Codec.Dec Codec.Units Codec.UnitsRun Master.LoadApp Gen.Tables.
Import ListNotations.
Open Scope Z_scope.

Definition loadapp_tables : ltables := {|
  lt_time_scale := loadapp_time_scale;
  lt_default_partition := loadapp_default_partition;
  lt_prio_unset := loadapp_prio_unset;
  lt_default_prio := loadapp_default_prio;
  lt_lease_default := loadapp_lease_default;
  lt_invalid := loadapp_invalid;
  lt_app_flow := loadapp_app_flow;
  lt_app_refresh := loadapp_app_refresh;
  lt_app_after := loadapp_app_after;
  lt_app_encode := loadapp_app_encode;
  lt_app_init := loadapp_app_init;
  lt_app_defaults := loadapp_app_defaults;
  lt_aff_init := loadapp_aff_init;
  lt_srv_flow := loadapp_srv_flow;
  lt_srv_encode := loadapp_srv_encode;
  lt_srv_init := loadapp_srv_init;
  lt_srv_defaults := loadapp_srv_defaults;
  lt_load_server := loadapp_load_server
|}.

(** * Flattening.  An outcome starts with 0 (returned) or the exception code 1 ValueError 2 IndexError
      3 Exception (also KeyError / TypeError, see LoadApp.v); the harness maps anything else to 4. *)
Definition fstr (s : str) : list Z := Z.of_nat (length s) :: s.
Definition fostr (o : option str) : list Z := match o with None => [0] | Some s => 1 :: fstr s end.
Definition foz (o : option Z) : list Z := match o with None => [0] | Some z => [1; z] end.
Definition fb (b : bool) : Z := if b then 1 else 0.
Definition fzl (l : list Z) : list Z := Z.of_nat (length l) :: l.
Definition ftval (v : tval) : list Z :=
  match v with TNone => [0] | TBool b => [1; fb b] | TInt z => [2; z] | TStr s => 3 :: fstr s end.
Definition flimits (l : list (str * Z)) : list Z :=
  Z.of_nat (length l) :: flat_map (fun kv => fstr (fst kv) ++ [snd kv]) l.
Definition fcodes (c : tcodes) : list Z :=
  Z.of_nat (length c) :: flat_map (fun kv => fstr (fst kv) ++ [snd kv]) c.

Definition fapp (o : app_obj) : list Z :=
  fstr (ao_name o) ++ [ao_prio o] ++ fzl (ao_demand o) ++ fostr (ao_aff o) ++ flimits (ao_limits o)
  ++ foz (ao_drt o) ++ [ao_lease o] ++ fostr (ao_group o) ++ foz (ao_identity o) ++ [ao_traits o]
  ++ ftval (ao_once o) ++ [fb (truthy (ao_once o)); fb (ao_blacklisted o); fb (ao_evicted o);
                           fb (ao_unschedule o); fb (ao_renew o)]
  ++ fostr (ao_server o) ++ foz (ao_expiry o).

Definition fsrv (s : srv_obj) : list Z :=
  fstr (so_name s) ++ fstr (so_label s) ++ fzl (so_cap s) ++ fzl (so_free s)
  ++ [so_traits s; so_up_since s; so_valid_until s] ++ fostr (so_parent s).

Definition fout {A} (f : A -> list Z) (r : ures A) : list Z :=
  match r with UOk a => 0 :: f a | UValueError => [1] | UIndexError => [2] | UException => [3] end.

Definition fload (r : ures load_result) : list Z :=
  fout (fun x => match x with LRemove => [0] | LLoaded o => 1 :: fapp o end) r.

(** [limits_probe]: levels looked up in affinity.limits after the load (None = inf is 0, Some v is 1 v) *)
Definition fprobe (r : ures load_result) (levels : list str) : list Z :=
  match r with
  | UOk (LLoaded o) => flat_map (fun lv => foz (limit_at o lv)) levels
  | _ => []
  end.

Inductive lcase :=
  | CSeconds (v : pyval)                                   (* utils.to_seconds *)
  | CCodes (ts : list str)                                 (* traits.create_code *)
  | CApp (cfg : option (list str)) (name : str) (mo : option manifest) (asg : option Z) (bl : bool)
         (levels : list str)
      (* a Loader whose trait codes are create_code cfg (None: load_traits never ran, the empty dict);
         load_app on an instance that is not in cell.apps *)
  | CRefresh (cfg : option (list str)) (name : str) (m1 : manifest) (asg1 : option Z) (bl1 : bool)
             (mo2 : option manifest) (asg2 : option Z) (bl2 : bool)
      (* load_app twice: the second call finds the instance of the first *)
  | CCreate (cfg : option (list str)) (now : Z) (name : str) (r : srv_rec)
      (* create_server alone; the trait codes afterwards *)
  | CSrv (cfg : option (list str)) (now : Z) (buckets : list str) (name : str) (ro : option srv_rec).
      (* load_server (create_server + attach); the trait codes afterwards *)

Definition codes_of (T : ltables) (cfg : option (list str)) : tcodes :=
  match cfg with Some ts => create_code T ts | None => [] end.

Definition run_case (T : ltables) (U : utables) (c : lcase) : list Z :=
  match c with
  | CSeconds v => fout (fun z => [z]) (to_seconds T v)
  | CCodes ts => fcodes (create_code T ts)
  | CApp cfg name mo asg bl levels =>
      let r := load_app T U (codes_of T cfg) None name mo asg bl in
      fload r ++ fprobe r levels
  | CRefresh cfg name m1 asg1 bl1 mo2 asg2 bl2 =>
      let r1 := load_app T U (codes_of T cfg) None name (Some m1) asg1 bl1 in
      match r1 with
      | UOk (LLoaded o) => fload r1 ++ fload (load_app T U (codes_of T cfg) (Some o) name mo2 asg2 bl2)
      | _ => fload r1
      end
  | CCreate cfg now name r =>
      let '(e, codes') := create_server T U (codes_of T cfg) now name r in
      fout fsrv e ++ fcodes codes'
  | CSrv cfg now buckets name ro =>
      let '(r, codes') := load_server T U (codes_of T cfg) now buckets name ro in
      (match r with
       | LSNoData => [10]
       | LSRaised e => 11 :: fout fsrv e
       | LSAssertion => [12]
       | LSNoParent => [13]
       | LSAttached s => 14 :: fsrv s
       end) ++ fcodes codes'
  end.
