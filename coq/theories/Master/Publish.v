(** Executable model of the *publication* step of treadmill.scheduler.master.Master
    and of the two runtime self-checks of treadmill.scheduler.loader.Loader that look at it.

      Master.reschedule        (master.py:476-532)   -> [reschedule_writes]
      Master._unschedule_evicted (master.py:534-553) -> tail of [reschedule_writes]
      Master.init_schedule     (master.py:447-474)   -> [init_writes]
      Loader.check_placement_integrity (loader.py:644-695) -> [integrity]
      Loader.restore_placements, duplicate pass (loader.py:516-525) -> [dedup_writes]

    A publication is a pure function from what the scheduling cycle returned (the placement
    tuples of Cell.schedule, as in Sched.Cycle.schedule) and the per-instance placement data
    to the ORDERED list of storage writes.  The store is the set of /placement/<server>/<app>
    nodes with their data; backend.put = create-or-overwrite, backend.delete = delete-if-exists
    (zkbackend.ZkBackend.put/delete -> zkutils.put / ensure_deleted).

    The order of the phases of the two functions, the "changed" filter, whether init_schedule runs
    two passes over all servers / reconciles node content, and whether check_placement_integrity
    updates its app2server map after a repair are NOT written here: they are the parameter [cfg], instantiated from Gen.Tables (the c10_ definitions), which
    harness/tables_c10.py extracts from the Python AST of master.py on every run.

    Names are Z identifiers (harness keeps the bijection).  Model file: no proofs. *)
From Coq Require Import ZArith List Bool.
Import ListNotations.
Open Scope Z_scope.

(** * Data *)
Definition oeqb (a b : option Z) : bool :=
  match a, b with
  | None, None => true
  | Some x, Some y => Z.eqb x y
  | _, _ => false
  end.

(** Master._placement_data: {'identity', 'identity_count', 'expires'} *)
Record pdata := mkPD { pd_identity : option Z; pd_count : option Z; pd_expires : option Z }.
Definition pdata_eqb (a b : pdata) : bool :=
  oeqb (pd_identity a) (pd_identity b) && oeqb (pd_count a) (pd_count b) && oeqb (pd_expires a) (pd_expires b).
Definition no_pdata : pdata := mkPD None None None.

(** placement tuple of Cell.schedule: (name, server before, expiry before, server after, expiry after) *)
Definition ptuple := (Z * option Z * option Z * option Z * option Z)%type.
Definition t_name (t : ptuple) : Z := let '(n, _, _, _, _) := t in n.
Definition t_sb (t : ptuple) : option Z := let '(_, sb, _, _, _) := t in sb.
Definition t_eb (t : ptuple) : option Z := let '(_, _, eb, _, _) := t in eb.
Definition t_sa (t : ptuple) : option Z := let '(_, _, _, sa, _) := t in sa.
Definition t_ea (t : ptuple) : option Z := let '(_, _, _, _, ea) := t in ea.

(** per-instance data the publication reads from cell.apps after the cycle *)
Definition info := list (Z * pdata).
Fixpoint get_info (i : info) (a : Z) : pdata :=
  match i with
  | [] => no_pdata
  | (n, d) :: r => if Z.eqb n a then d else get_info r a
  end.

(** * Storage writes *)
Inductive write :=
| WDel (server app : Z)                 (* backend.delete(/placement/<server>/<app>) *)
| WPut (server app : Z) (d : pdata)     (* backend.put(/placement/<server>/<app>, data) *)
| WEnsure (server : Z)                  (* backend.ensure_exists(/placement/<server>) *)
| WFinished (app : Z)                   (* backend.put(/finished/<app>, ...)   [_unschedule_evicted] *)
| WUnsched (app : Z)                    (* backend.delete(/scheduled/<app>)    [_unschedule_evicted] *)
| WSave.                                (* backend.put(/placement, compressed tuples)  [_save_placement] *)

(** * Store: the /placement/<server>/<app> nodes *)
Definition entry := (Z * Z * pdata)%type.          (* server, app, data *)
Definition store := list entry.
Definition e_server (e : entry) : Z := fst (fst e).
Definition e_app (e : entry) : Z := snd (fst e).
Definition e_data (e : entry) : pdata := snd e.
Definition key_is (s a : Z) (e : entry) : bool := Z.eqb (e_server e) s && Z.eqb (e_app e) a.

Definition has (st : store) (s a : Z) : bool := existsb (key_is s a) st.
Fixpoint lookup (st : store) (s a : Z) : option pdata :=
  match st with
  | [] => None
  | e :: r => if key_is s a e then Some (e_data e) else lookup r s a
  end.

(** delete-if-exists *)
Definition sdel (s a : Z) (st : store) : store := filter (fun e => negb (key_is s a e)) st.
(** create-or-overwrite.  The store is a set of nodes keyed by (server, app): ZooKeeper children are unordered
    and every comparison sorts, so the position of the (re)written node is irrelevant. *)
Definition sput (s a : Z) (d : pdata) (st : store) : store := (s, a, d) :: sdel s a st.

Definition apply_write (st : store) (w : write) : store :=
  match w with
  | WDel s a => sdel s a st
  | WPut s a d => sput s a d st
  | WEnsure _ | WFinished _ | WUnsched _ | WSave => st
  end.
Definition apply_writes (st : store) (ws : list write) : store := fold_left apply_write ws st.

(** servers under which instance [a] has an entry *)
Definition servers_of (st : store) (a : Z) : list Z :=
  map e_server (filter (fun e => Z.eqb (e_app e) a) st).
(** children of /placement/<s> *)
Definition listing (st : store) (s : Z) : list Z :=
  map e_app (filter (fun e => Z.eqb (e_server e) s) st).

Definition zmem (x : Z) (l : list Z) : bool := existsb (Z.eqb x) l.

(** "no instance has placement records under two servers" *)
Definition no_double (st : store) : Prop :=
  forall a s1 s2, has st s1 a = true -> has st s2 a = true -> s1 = s2.
(** executable version: every entry's instance appears under that entry's server only *)
Definition no_doubleb (st : store) : bool :=
  forallb (fun e => forallb (fun e' => negb (Z.eqb (e_app e') (e_app e)) || Z.eqb (e_server e') (e_server e)) st) st.
Definition count_doubles (st : store) : Z :=
  Z.of_nat (length (filter (fun e => negb (forallb (fun e' => negb (Z.eqb (e_app e') (e_app e))
                                                        || Z.eqb (e_server e') (e_server e)) st)) st)).

(** executable versions of the hypotheses of the publication theorems (PublishP proves them sound) *)
Definition within_beforeb (tuples : list ptuple) (st : store) : bool :=
  forallb (fun t => forallb (fun e => negb (Z.eqb (e_app e) (t_name t)) || oeqb (t_sb t) (Some (e_server e))) st) tuples.
Fixpoint nodupb (l : list Z) : bool :=
  match l with [] => true | x :: r => negb (zmem x r) && nodupb r end.

(** * Configuration extracted from master.py (Gen.Tables, the c10_ definitions) *)
Inductive phase := PhDel | PhPut | PhEvicted | PhSave | PhUnknown.
Definition phase_of_z (z : Z) : phase :=
  if Z.eqb z 1 then PhDel else if Z.eqb z 2 then PhPut else if Z.eqb z 3 then PhEvicted
  else if Z.eqb z 4 then PhSave else PhUnknown.
Definition phase_eqb (a b : phase) : bool :=
  match a, b with
  | PhDel, PhDel | PhPut, PhPut | PhEvicted, PhEvicted | PhSave, PhSave | PhUnknown, PhUnknown => true
  | _, _ => false
  end.

Record cfg := mkCfg {
  cf_phases : list phase;        (* top-level statement order of Master.reschedule *)
  cf_cmp_server : bool;          (* changed_placement filter contains  before != after          *)
  cf_cmp_expiry : bool;          (* changed_placement filter contains  exp_before != exp_after  *)
  cf_init_phases : list phase;   (* statement order of Master.init_schedule (per server, or of its passes) *)
  cf_init_two_pass : bool;       (* init_schedule: one loop over ALL servers per phase (else all phases per server) *)
  cf_init_content : bool;        (* init_schedule rewrites a node whose data differs from _placement_data(app) *)
  cf_integ_update : bool         (* check_placement_integrity: app2server[app] = correct_placement after a repair *)
}.
Definition cfg_of_tables (phases filt init_phases init_flags integ_flags : list Z) : cfg :=
  mkCfg (map phase_of_z phases) (zmem 1 filt) (zmem 2 filt) (map phase_of_z init_phases)
        (zmem 1 init_flags) (zmem 2 init_flags) (zmem 1 integ_flags).
Definition canonical_cfg : cfg := mkCfg [PhDel; PhPut; PhEvicted; PhSave] true true [PhDel; PhPut] true true true.
Fixpoint phases_eqb (a b : list phase) : bool :=
  match a, b with
  | [], [] => true
  | x :: a', y :: b' => phase_eqb x y && phases_eqb a' b'
  | _, _ => false
  end.
Definition cfg_canonical (c : cfg) : bool :=
  phases_eqb (cf_phases c) (cf_phases canonical_cfg) && cf_cmp_server c && cf_cmp_expiry c
  && phases_eqb (cf_init_phases c) (cf_init_phases canonical_cfg)
  && cf_init_two_pass c && cf_init_content c && cf_integ_update c.

(** * Master.reschedule *)
Definition changed (c : cfg) (t : ptuple) : bool :=
  (cf_cmp_server c && negb (oeqb (t_sb t) (t_sa t))) || (cf_cmp_expiry c && negb (oeqb (t_eb t) (t_ea t))).

(** first loop:  if before and before != after: backend.delete(placement(before, app)) *)
Definition del_of (t : ptuple) : list write :=
  match t_sb t with
  | Some s => if oeqb (t_sb t) (t_sa t) then [] else [WDel s (t_name t)]
  | None => []
  end.
(** second loop:  if after: backend.put(placement(after, app), _placement_data(app)) *)
Definition put_of (i : info) (t : ptuple) : list write :=
  match t_sa t with
  | Some s => [WPut s (t_name t) (get_info i (t_name t))]
  | None => []
  end.
(** _unschedule_evicted: for every schedule_once and evicted instance, in cell.apps order *)
Definition evicted_writes (once : list Z) : list write := flat_map (fun a => [WFinished a; WUnsched a]) once.

Definition phase_writes (c : cfg) (tuples : list ptuple) (i : info) (once : list Z) (p : phase) : list write :=
  let ch := filter (changed c) tuples in
  match p with
  | PhDel => flat_map del_of ch
  | PhPut => flat_map (put_of i) ch
  | PhEvicted => evicted_writes once
  | PhSave => [WSave]
  | PhUnknown => []
  end.

Definition reschedule_writes (c : cfg) (tuples : list ptuple) (i : info) (once : list Z) : list write :=
  flat_map (phase_writes c tuples i once) (cf_phases c).

(** the store already holds the current data of every listed instance the cycle left alone *)
Definition unchanged_publishedb (c : cfg) (tuples : list ptuple) (i : info) (st : store) : bool :=
  forallb (fun t => changed c t ||
                    match t_sb t with
                    | Some s => match lookup st s (t_name t) with
                                | Some d => pdata_eqb d (get_info i (t_name t))
                                | None => false
                                end
                    | None => true
                    end) tuples.

(** * Master.init_schedule
    members: cell.members() in order, each with the names of server.apps (the "correct" set).
    [current] of a server is read from the store when its turn comes; the writes of the other
    servers do not touch it, so it is the listing in the initial store.  The order inside
    "current - correct" / "correct - current" / "correct & current" (Python set iteration) is the order of the listing /
    of server.apps here; the harness feeds the order it observed through these two orders, and the
    theorems of PublishP hold for every order. *)
Definition stale_data (st : store) (i : info) (s a : Z) : bool :=
  match lookup st s a with Some d => negb (pdata_eqb d (get_info i a)) | None => false end.
Definition init_phase_writes (c : cfg) (st : store) (i : info) (s : Z) (correct : list Z) (p : phase) : list write :=
  let current := listing st s in
  match p with
  | PhDel => map (WDel s) (filter (fun a => negb (zmem a correct)) current)
  | PhPut => map (fun a => WPut s a (get_info i a))
                 (filter (fun a => negb (zmem a current) || (cf_init_content c && stale_data st i s a)) correct)
  | _ => []
  end.
(** one-loop form (all phases of a server, then the next server) *)
Definition init_server_writes (c : cfg) (st : store) (i : info) (m : Z * list Z) : list write :=
  WEnsure (fst m) :: flat_map (init_phase_writes c st i (fst m) (snd m)) (cf_init_phases c).
(** two-pass form: the first phase for ALL servers (with ensure_exists), then the next phase for all servers.
    The second pass lists the server again; the first pass removed only names outside server.apps, so for the
    names the second pass looks at the listing and the data are those of the initial store. *)
Definition init_pass_writes (c : cfg) (st : store) (i : info) (members : list (Z * list Z)) (first : bool) (p : phase)
  : list write :=
  flat_map (fun m => (if first then [WEnsure (fst m)] else []) ++ init_phase_writes c st i (fst m) (snd m) p) members.
Definition init_passes (c : cfg) (st : store) (i : info) (members : list (Z * list Z)) : list write :=
  match cf_init_phases c with
  | [] => []
  | p :: ps => init_pass_writes c st i members true p ++ flat_map (init_pass_writes c st i members false) ps
  end.
Definition init_writes (c : cfg) (st : store) (i : info) (members : list (Z * list Z)) : list write :=
  (if cf_init_two_pass c then init_passes c st i members else flat_map (init_server_writes c st i) members)
  ++ [WSave].

(** what the model holds: one entry per placed instance *)
Definition model_entries (i : info) (tuples : list ptuple) : store :=
  flat_map (fun t => match t_sa t with Some s => [(s, t_name t, get_info i (t_name t))] | None => [] end) tuples.
Definition members_entries (i : info) (members : list (Z * list Z)) : store :=
  flat_map (fun m => map (fun a => (fst m, a, get_info i a)) (snd m)) members.

(** * Loader.check_placement_integrity
    [pairs]: the (server, app) pairs in the order the function meets them (backend.list(/placement),
    then backend.list(/placement/<server>)); [where a] = cell.apps[a].server, None when the instance is
    not in cell.apps (the Python raises KeyError there); [placed] = the (app, server) pairs of cell.apps
    with a server, in cell.apps order. *)
Inductive ioutcome :=
| IOk                 (* returns normally *)
| IKeyError           (* cell.apps[app] fails: entry of an instance the model does not know, seen twice *)
| IAssertNeither      (* assert correct_placement in [app2server[app], server] fails *)
| IAssertFailed.      (* assert success, 'Placement integrity failed.' *)

Fixpoint amap_get (m : list (Z * Z)) (a : Z) : option Z :=
  match m with [] => None | (k, v) :: r => if Z.eqb k a then Some v else amap_get r a end.

Fixpoint amap_set (m : list (Z * Z)) (a v : Z) : list (Z * Z) :=
  match m with [] => [(a, v)] | (k, w) :: r => if Z.eqb k a then (k, v) :: r else (k, w) :: amap_set r a v end.

Definition integ_next (upd : bool) (a2s : list (Z * Z)) (a first : Z) (correct : option Z) : list (Z * Z) :=
  if oeqb correct (Some first) then a2s
  else if upd then match correct with Some cv => amap_set a2s a cv | None => a2s end
  else a2s.

(** first pass; [upd] = the map is brought up to date after the first-seen entry has been removed (otherwise it
    keeps the FIRST server seen for an instance for ever) *)
Fixpoint integrity_scan (upd : bool) (where_ : Z -> option (option Z)) (pairs : list (Z * Z)) (a2s : list (Z * Z))
  : list (Z * Z) * list write * option ioutcome :=
  match pairs with
  | [] => (a2s, [], None)
  | (s, a) :: r =>
      match amap_get a2s a with
      | None => integrity_scan upd where_ r (a2s ++ [(a, s)])
      | Some first =>
          match where_ a with
          | None => (a2s, [], Some IKeyError)
          | Some correct =>
              if oeqb correct (Some first) || oeqb correct (Some s) then
                let w1 := if oeqb correct (Some s) then [] else [WDel s a] in
                let w2 := if oeqb correct (Some first) then [] else [WDel first a] in
                let '(m, ws, o) := integrity_scan upd where_ r (integ_next upd a2s a first correct) in
                (m, w1 ++ w2 ++ ws, o)
              else (a2s, [], Some IAssertNeither)
          end
      end
  end.

Definition integrity_cross (a2s : list (Z * Z)) (placed : list (Z * Z)) : bool :=
  forallb (fun p => match amap_get a2s (fst p) with Some s => Z.eqb s (snd p) | None => false end) placed.

Definition integrity (upd : bool) (where_ : Z -> option (option Z)) (placed : list (Z * Z)) (pairs : list (Z * Z))
  : list write * ioutcome :=
  let '(a2s, ws, o) := integrity_scan upd where_ pairs [] in
  match o with
  | Some e => (ws, e)
  | None => (ws, if integrity_cross a2s placed then IOk else IAssertFailed)
  end.

(** pairs of a store in listing order of the given servers *)
Definition store_pairs (st : store) (servers : list Z) : list (Z * Z) :=
  flat_map (fun s => map (fun a => (s, a)) (listing st s)) servers.
Definition where_of (placed : list (Z * Z)) (known : list Z) (a : Z) : option (option Z) :=
  if zmem a known then Some (amap_get placed a) else None.

(** * Loader.restore_placements, second loop: an instance restored under more than one server is
    removed from all of them.  [restored]: per server (in Loader.servers order) the restored names. *)
Definition restored_on (restored : list (Z * list Z)) (a : Z) : list Z :=
  flat_map (fun r => if zmem a (snd r) then [fst r] else []) restored.
Fixpoint nodup_z (l : list Z) : list Z :=
  match l with [] => [] | x :: r => x :: filter (fun y => negb (Z.eqb x y)) (nodup_z r) end.
Definition dedup_writes (restored : list (Z * list Z)) : list write :=
  flat_map (fun a => let ss := restored_on restored a in
                     match ss with
                     | _ :: _ :: _ => map (fun s => WDel s a) ss
                     | _ => []
                     end)
           (nodup_z (flat_map snd restored)).

(** * Flattening for the correspondence check *)
Definition zopt (o : option Z) : list Z := match o with None => [-1] | Some z => [1; z] end.
Definition flat_pdata (d : pdata) : list Z := zopt (pd_identity d) ++ zopt (pd_count d) ++ zopt (pd_expires d).
Definition flat_write (w : write) : list Z :=
  match w with
  | WDel s a => [1; s; a]
  | WPut s a d => [2; s; a] ++ flat_pdata d
  | WEnsure s => [3; s]
  | WFinished a => [4; a]
  | WUnsched a => [5; a]
  | WSave => [6]
  end.
Definition flat_writes (ws : list write) : list Z := Z.of_nat (length ws) :: flat_map flat_write ws.
Definition flat_entry (e : entry) : list Z := [e_server e; e_app e] ++ flat_pdata (e_data e).

Fixpoint insert_e (x : entry) (l : store) : store :=
  match l with
  | [] => [x]
  | y :: r => if Z.ltb (e_server x) (e_server y) || (Z.eqb (e_server x) (e_server y) && Z.leb (e_app x) (e_app y))
              then x :: y :: r else y :: insert_e x r
  end.
Definition sort_store (st : store) : store := fold_left (fun acc x => insert_e x acc) st [].
Definition flat_store (st : store) : list Z := Z.of_nat (length st) :: flat_map flat_entry (sort_store st).

(** number of doubly placed entries after each prefix of the write list (k = 0 .. length) *)
Fixpoint doubles_at_cuts (st : store) (ws : list write) : list Z :=
  count_doubles st :: match ws with [] => [] | w :: r => doubles_at_cuts (apply_write st w) r end.

Definition ioutcome_z (o : ioutcome) : Z :=
  match o with IOk => 0 | IKeyError => 1 | IAssertNeither => 2 | IAssertFailed => 3 end.

(** one observed step of the real master *)
Inductive obs :=
| OReschedule (st : store) (tuples : list ptuple) (i : info) (once : list Z)
| OInit (st : store) (i : info) (members : list (Z * list Z))
| OIntegrity (pairs : list (Z * Z)) (known : list Z) (placed : list (Z * Z))
| ODedup (restored : list (Z * list Z)).

Definition run_obs (c : cfg) (o : obs) : list Z :=
  match o with
  | OReschedule st tuples i once =>
      let ws := reschedule_writes c tuples i once in
      flat_writes ws ++ doubles_at_cuts st ws ++ flat_store (apply_writes st ws)
  | OInit st i members =>
      let ws := init_writes c st i members in
      flat_writes ws ++ doubles_at_cuts st ws ++ flat_store (apply_writes st ws)
  | OIntegrity pairs known placed =>
      let '(ws, o) := integrity (cf_integ_update c) (where_of placed known) placed pairs in
      flat_writes ws ++ [ioutcome_z o]
  | ODedup restored => flat_writes (dedup_writes restored)
  end.
Definition run_case (c : cfg) (l : list obs) : list Z := flat_map (run_obs c) l.
