(** C11, part (c) proper: an instance recorded under TWO servers of Loader.servers.
    Python (and, since [clear_server], Master/RestoreSched.v) restores it under both: the second server lists it too
    and app.server names the second, the first still lists it with its demand deducted.  The duplicate pass of
    restore_placements ([dedup_cell] + [dedup_writes], Master/RestoreAll.v / Master/Publish.v) then removes it from both.
    Proved here: it is listed by [restored_on] under both; afterwards it names no server, neither server lists it, both
    of its nodes are deleted, and - accounting - every server's free capacity is its capacity minus the demands of the
    instances it still lists and its affinity counters are the counts over the instances it still lists. *)
From Coq Require Import ZArith QArith List Bool Lia.
From RecordUpdate Require Import RecordSet.
From TM Require Import Sched.Vec Sched.Types Sched.Queue Sched.Tree Sched.Cycle Sched.Events.
From TM Require Import Sched.Steps Sched.MapsP Sched.FrameP Sched.InvAcct Sched.InvAff.
From TM Require Import Master.Publish Master.PublishP Master.Restore Master.RestoreP Master.RestoreSched Master.RestoreSchedP.
From TM Require Import Master.RestoreAll Master.RestoreAllP.
Import ListNotations.
Open Scope Z_scope.

(** * What the servers list *)
Definition listed (c : cell) (s a : Z) : Prop :=
  exists sv, get_srv s (c_servers c) = Some sv /\ In a (s_apps sv).
Definition apps_nodup (c : cell) : Prop :=
  forall s sv, get_srv s (c_servers c) = Some sv -> NoDup (s_apps sv).

Lemma listed_ext c c' s a : c_servers c' = c_servers c -> listed c s a <-> listed c' s a.
Proof. intros E. unfold listed. rewrite E. tauto. Qed.
Lemma apps_nodup_ext c c' : c_servers c' = c_servers c -> apps_nodup c -> apps_nodup c'.
Proof. intros E H s sv G. rewrite E in G. exact (H s sv G). Qed.

(** ** Server.put *)
Definition put_srv (a : Z) (x : app) : server -> server :=
  fun sv => sv <| s_free := vsub (s_free sv) (a_demand x) |> <| s_apps ::= (fun l => l ++ [a]) |>
               <| s_counters ::= cadd (a_aff x) 1 |>.

Lemma srv_put_lease_inv c s a lease c' :
  srv_put_lease c s a lease = Some c' ->
  exists sv x, get_srv s (c_servers c) = Some sv /\ get_app a (c_apps c) = Some x /\ put_guard c sv x lease = true /\
               same_core (prim_put c s a x lease) c'.
Proof.
  unfold srv_put_lease. destruct (get_srv s (c_servers c)) as [sv|]; [|discriminate].
  destruct (get_app a (c_apps c)) as [x|]; [|discriminate]. destruct (put_guard c sv x lease) eqn:PG; [|discriminate].
  intros H. inversion H; subst c'. exists sv, x. split; [reflexivity|]. split; [reflexivity|]. split; [exact PG|].
  eapply same_core_trans; [apply bump_from_sc|apply adjust_down_from_sc].
Qed.

Lemma servers_srv_put_lease c s a lease c' :
  srv_put_lease c s a lease = Some c' ->
  exists sv x, get_srv s (c_servers c) = Some sv /\ get_app a (c_apps c) = Some x /\ ~ In a (s_apps sv) /\
               c_servers c' = upd_srv s (put_srv a x) (c_servers c).
Proof.
  intros P. destruct (srv_put_lease_inv _ _ _ _ _ P) as (sv & x & GS & GA & PG & SC).
  exists sv, x. split; [exact GS|]. split; [exact GA|]. split.
  - unfold put_guard in PG. repeat (apply andb_true_iff in PG as [PG ?]). apply negb_true_iff in PG.
    apply MapsP.zmem_false in PG. rewrite (get_app_name _ _ _ GA) in PG. exact PG.
  - destruct SC as (_ & _ & H3 & _). rewrite H3. reflexivity.
Qed.

Lemma put_srv_name a x sv : s_name (put_srv a x sv) = s_name sv.
Proof. reflexivity. Qed.

Lemma listed_put c s a lease c' :
  srv_put_lease c s a lease = Some c' ->
  listed c' s a /\ (forall s' b, listed c s' b -> listed c' s' b) /\
  (forall s' b, listed c' s' b -> listed c s' b \/ (s' = s /\ b = a)) /\
  (apps_nodup c -> apps_nodup c').
Proof.
  intros P. destruct (servers_srv_put_lease _ _ _ _ _ P) as (sv & x & GS & GA & NI & E).
  pose proof (get_upd_srv_same s (put_srv a x) (c_servers c) sv (put_srv_name a x) GS) as Gs.
  assert (Go : forall s', s' <> s -> get_srv s' (c_servers c') = get_srv s' (c_servers c)).
  { intros s' NE. rewrite E. apply get_upd_srv_other; [apply put_srv_name|exact NE]. }
  rewrite <- E in Gs. split; [|split; [|split]].
  - exists (put_srv a x sv). split; [exact Gs|]. cbn. apply in_or_app. right. left. reflexivity.
  - intros s' b (sv' & G' & I'). destruct (Z.eq_dec s' s) as [->|NE].
    + rewrite GS in G'. inversion G'; subst sv'. exists (put_srv a x sv). split; [exact Gs|]. cbn. apply in_or_app. left. exact I'.
    + exists sv'. rewrite (Go s' NE). auto.
  - intros s' b (sv' & G' & I'). destruct (Z.eq_dec s' s) as [->|NE].
    + rewrite Gs in G'. inversion G'; subst sv'. cbn in I'. apply in_app_or in I' as [I'|[<-|[]]].
      * left. exists sv. auto.
      * right. auto.
    + left. exists sv'. rewrite <- (Go s' NE). auto.
  - intros ND s' sv' G'. destruct (Z.eq_dec s' s) as [->|NE].
    + rewrite Gs in G'. inversion G'; subst sv'. cbn. apply NoDup_snoc; [exact (ND s sv GS)|exact NI].
    + rewrite (Go s' NE) in G'. exact (ND s' sv' G').
Qed.

(** ** Server.remove *)
Definition rem_srv (a : Z) (x : app) : server -> server :=
  fun sv => sv <| s_free := vadd (s_free sv) (a_demand x) |> <| s_apps ::= zremove a |>
               <| s_counters ::= cadd (a_aff x) (-1) |>.
Definition rem_app : app -> app :=
  fun x => x <| a_server := None |> <| a_evicted := true |> <| a_unschedule := false |> <| a_expiry := None |>.

Lemma srv_remove_inv c s a :
  (exists sv x, get_srv s (c_servers c) = Some sv /\ get_app a (c_apps c) = Some x /\ In a (s_apps sv) /\
                same_core (prim_remove c s a x) (srv_remove c s a)) \/
  (srv_remove c s a = c /\ (~ listed c s a \/ get_app a (c_apps c) = None)).
Proof.
  unfold srv_remove. destruct (get_srv s (c_servers c)) as [sv|] eqn:GS.
  2: { right. split; [reflexivity|]. left. intros (sv & G & _). rewrite GS in G. discriminate. }
  destruct (get_app a (c_apps c)) as [x|] eqn:GA; [|right; auto].
  destruct (Vec.zmem a (s_apps sv)) eqn:Z; cbn [negb].
  - left. exists sv, x. apply MapsP.zmem_In in Z. split; [reflexivity|]. split; [reflexivity|]. split; [exact Z|].
    eapply same_core_trans; [apply bump_from_sc|apply adjust_up_from_sc].
  - right. split; [reflexivity|]. left. intros (sv' & G & I). rewrite GS in G. inversion G; subst sv'.
    apply MapsP.zmem_false in Z. contradiction.
Qed.

Lemma rem_srv_name a x sv : s_name (rem_srv a x sv) = s_name sv.
Proof. reflexivity. Qed.

Lemma In_zremove_other (a b : Z) l : b <> a -> In b l -> In b (zremove a l).
Proof. intros NE H. apply zremove_keep; assumption. Qed.

Lemma listed_remove c s a :
  (forall s' b, b <> a -> listed c s' b -> listed (srv_remove c s a) s' b) /\
  (forall s' b, listed (srv_remove c s a) s' b -> listed c s' b) /\
  (apps_nodup c -> apps_nodup (srv_remove c s a)) /\
  (forall s', s' <> s -> get_srv s' (c_servers (srv_remove c s a)) = get_srv s' (c_servers c)).
Proof.
  destruct (srv_remove_inv c s a) as [(sv & x & GS & GA & I & SC)|[E _]].
  2: { rewrite E. repeat split; auto. }
  destruct SC as (_ & _ & H3 & _).
  assert (E : c_servers (srv_remove c s a) = upd_srv s (rem_srv a x) (c_servers c)) by (rewrite H3; reflexivity).
  pose proof (get_upd_srv_same s (rem_srv a x) (c_servers c) sv (rem_srv_name a x) GS) as Gs. rewrite <- E in Gs.
  assert (Go : forall s', s' <> s -> get_srv s' (c_servers (srv_remove c s a)) = get_srv s' (c_servers c)).
  { intros s' NE. rewrite E. apply get_upd_srv_other; [apply rem_srv_name|exact NE]. }
  split; [|split; [|split]].
  - intros s' b NE (sv' & G' & I'). destruct (Z.eq_dec s' s) as [->|NS].
    + rewrite GS in G'. inversion G'; subst sv'. exists (rem_srv a x sv). split; [exact Gs|]. cbn.
      apply In_zremove_other; assumption.
    + exists sv'. rewrite (Go s' NS). auto.
  - intros s' b (sv' & G' & I'). destruct (Z.eq_dec s' s) as [->|NS].
    + rewrite Gs in G'. inversion G'; subst sv'. cbn in I'. apply zremove_In in I'. exists sv. auto.
    + exists sv'. rewrite <- (Go s' NS). auto.
  - intros ND s' sv' G'. destruct (Z.eq_dec s' s) as [->|NS].
    + rewrite Gs in G'. inversion G'; subst sv'. cbn. apply zremove_NoDup. exact (ND s sv GS).
    + rewrite (Go s' NS) in G'. exact (ND s' sv' G').
  - exact Go.
Qed.

(** Server.remove of an instance the server lists: gone from that server's list, and the instance names no server *)
Lemma srv_remove_listed c s a x :
  apps_nodup c -> listed c s a -> get_app a (c_apps c) = Some x ->
  ~ listed (srv_remove c s a) s a /\ get_app a (c_apps (srv_remove c s a)) = Some (rem_app x).
Proof.
  intros ND L GA. destruct (srv_remove_inv c s a) as [(sv & x' & GS & GA' & I & SC)|[_ [NL|GN]]];
    [|contradiction|rewrite GA in GN; discriminate].
  rewrite GA in GA'. inversion GA'; subst x'. destruct SC as (_ & _ & H3 & H4 & _). split.
  - intros (sv' & G' & I'). rewrite H3 in G'.
    change (c_servers (prim_remove c s a x)) with (upd_srv s (rem_srv a x) (c_servers c)) in G'.
    rewrite (get_upd_srv_same s _ (c_servers c) sv (rem_srv_name a x) GS) in G'. inversion G'; subst sv'. cbn in I'.
    exact (zremove_not_in a (s_apps sv) (ND s sv GS) I').
  - rewrite H4. change (c_apps (prim_remove c s a x)) with (upd_app a rem_app (c_apps c)).
    apply get_upd_app_same; [reflexivity|exact GA].
Qed.

(** ** Cell.remove_app *)
Lemma servers_remove_app c m :
  c_servers (remove_app c m) = c_servers c \/
  exists sn, c_servers (remove_app c m) = c_servers (srv_remove c sn m).
Proof.
  unfold remove_app. destruct (get_app m (c_apps c)) as [a|]; [|left; reflexivity].
  cbn [c_servers set]. rewrite servers_release.
  assert (E : forall c1, c_servers (match a_alloc a with
                                    | Some (l0, p0) => upd_alloc c1 l0 p0 (alloc_del_app m)
                                    | None => c1 end) = c_servers c1).
  { intros c1. destruct (a_alloc a) as [[l0 p0]|]; [apply servers_upd_alloc|reflexivity]. }
  rewrite E. destruct (a_server a) as [sn|]; [|left; reflexivity].
  destruct (is_member c sn); [right; exists sn; reflexivity|left; reflexivity].
Qed.

Lemma listed_remove_app c m :
  (forall s' b, b <> m -> listed c s' b -> listed (remove_app c m) s' b) /\
  (forall s' b, listed (remove_app c m) s' b -> listed c s' b) /\
  (apps_nodup c -> apps_nodup (remove_app c m)).
Proof.
  destruct (servers_remove_app c m) as [E|[sn E]].
  - split; [|split].
    + intros s' b _ H. apply (listed_ext c _ s' b E). exact H.
    + intros s' b H. apply (listed_ext c _ s' b E). exact H.
    + apply apps_nodup_ext. exact E.
  - destruct (listed_remove c sn m) as (H1 & H2 & H3 & _). split; [|split].
    + intros s' b NE H. apply (listed_ext _ _ s' b E). apply H1; assumption.
    + intros s' b H. apply H2. apply (listed_ext _ _ s' b E). exact H.
    + intros ND. eapply apps_nodup_ext; [exact E|]. apply H3. exact ND.
Qed.

(** ** one node *)
Definition put_upd (c : cell) (s lease : Z) : app -> app :=
  fun x => (match a_expiry x with None => x <| a_expiry := Some (c_now c + lease) |> | Some _ => x end)
             <| a_server := Some s |>.
Lemma put_upd_name c s l x : a_name (put_upd c s l x) = a_name x.
Proof. unfold put_upd. destruct (a_expiry x); reflexivity. Qed.
Lemma put_upd_server c s l x : a_server (put_upd c s l x) = Some s.
Proof. unfold put_upd. destruct (a_expiry x); reflexivity. Qed.

Lemma apps_srv_put_lease c s a lease c' :
  srv_put_lease c s a lease = Some c' -> c_apps c' = upd_app a (put_upd c s lease) (c_apps c).
Proof.
  intros P. destruct (srv_put_lease_inv _ _ _ _ _ P) as (sv & x & _ & _ & _ & SC).
  destruct SC as (_ & _ & _ & H4 & _). rewrite H4. reflexivity.
Qed.

Lemma placed_force c a o y s :
  get_app a (c_apps c) = Some y -> a_server y = Some s ->
  exists z, get_app a (c_apps (match o with Some i => force_identity c a i | None => c end)) = Some z /\ a_server z = Some s.
Proof.
  intros G S. destruct o as [i|]; [|exists y; auto].
  destruct (force_identity_spec c a i y G) as [[z [Gz [_ [Sz _]]]] _]. exists z. split; [exact Gz|congruence].
Qed.

Section OneNode.
  Variables (s : Z) (p : option Z) (ri : bool) (c : cell) (n : snode).
  Let c' := fst (restore_node s p ri c n).
  Let act := snd (restore_node s p ri c n).

  (** the put went through: [cs] is the cell Server.put returned, [cr] the result after the field updates *)
  Lemma put_path lease cs cr :
    srv_put_lease (clear_server c (sn_app n)) s (sn_app n) lease = Some cs ->
    c_servers cr = c_servers cs ->
    (exists y, get_app (sn_app n) (c_apps cr) = Some y /\ a_server y = Some s) ->
    ((forall s' b, b <> sn_app n -> listed c s' b -> listed cr s' b) /\
     (forall s' b, listed cr s' b -> listed c s' b \/ (s' = s /\ b = sn_app n)) /\
     (apps_nodup c -> apps_nodup cr)) /\
    (listed cr s (sn_app n) /\ (forall s' b, listed c s' b -> listed cr s' b) /\
     exists y, get_app (sn_app n) (c_apps cr) = Some y /\ a_server y = Some s).
  Proof.
    intros P E Y. destruct (listed_put _ _ _ _ _ P) as (H1 & H2 & H3 & H4).
    pose proof (clear_server_servers c (sn_app n)) as E0.
    assert (MONO : forall s' b, listed c s' b -> listed cr s' b).
    { intros s' b H. apply (listed_ext cs cr s' b E). apply H2. apply (listed_ext c _ s' b E0). exact H. }
    split; [split; [|split]|split; [|split]].
    - intros s' b _. apply MONO.
    - intros s' b H. apply (listed_ext cs cr s' b E) in H. destruct (H3 s' b H) as [H'|H']; [left|right; exact H'].
      apply (listed_ext c _ s' b E0). exact H'.
    - intros ND. eapply apps_nodup_ext; [exact E|]. apply H4. eapply apps_nodup_ext; [exact E0|exact ND].
    - apply (listed_ext cs cr _ _ E). exact H1.
    - exact MONO.
    - exact Y.
  Qed.

  Lemma cleared_put_get lease cs x :
    get_app (sn_app n) (c_apps c) = Some x ->
    srv_put_lease (clear_server c (sn_app n)) s (sn_app n) lease = Some cs ->
    exists y, get_app (sn_app n) (c_apps cs) = Some y /\ a_server y = Some s.
  Proof.
    intros G P. rewrite (apps_srv_put_lease _ _ _ _ _ P).
    exists (put_upd (clear_server c (sn_app n)) s lease (x <| a_server := None |>)). split; [|apply put_upd_server].
    apply get_upd_app_same; [apply put_upd_name|]. apply clear_server_get. exact G.
  Qed.

  Theorem listed_restore_node :
    ((forall s' b, b <> sn_app n -> listed c s' b -> listed c' s' b) /\
     (forall s' b, listed c' s' b -> listed c s' b \/ (s' = s /\ b = sn_app n)) /\
     (apps_nodup c -> apps_nodup c')) /\
    (restored act = true ->
     listed c' s (sn_app n) /\ (forall s' b, listed c s' b -> listed c' s' b) /\
     exists y, get_app (sn_app n) (c_apps c') = Some y /\ a_server y = Some s).
  Proof.
    assert (SAME : forall cr, c_servers cr = c_servers c ->
              (forall s' b, b <> sn_app n -> listed c s' b -> listed cr s' b) /\
              (forall s' b, listed cr s' b -> listed c s' b \/ (s' = s /\ b = sn_app n)) /\
              (apps_nodup c -> apps_nodup cr)).
    { intros cr E. split; [|split].
      - intros s' b _ H. apply (listed_ext c cr s' b E). exact H.
      - intros s' b H. left. apply (listed_ext c cr s' b E). exact H.
      - apply apps_nodup_ext. exact E. }
    assert (GONE : forall cr, c_servers cr = c_servers c ->
              (forall s' b, b <> sn_app n -> listed c s' b -> listed (remove_app cr (sn_app n)) s' b) /\
              (forall s' b, listed (remove_app cr (sn_app n)) s' b -> listed c s' b \/ (s' = s /\ b = sn_app n)) /\
              (apps_nodup c -> apps_nodup (remove_app cr (sn_app n)))).
    { intros cr E. destruct (listed_remove_app cr (sn_app n)) as (H1 & H2 & H3). split; [|split].
      - intros s' b NE H. apply H1; [exact NE|]. apply (listed_ext c cr s' b E). exact H.
      - intros s' b H. left. apply (listed_ext c cr s' b E). apply H2. exact H.
      - intros ND. apply H3. eapply apps_nodup_ext; [exact E|exact ND]. }
    subst c' act. unfold restore_node.
    destruct (get_app (sn_app n) (c_apps c)) as [a|] eqn:G.
    2: { split; [apply SAME; reflexivity|cbn; discriminate]. }
    pose proof (clear_server_get c (sn_app n) a G) as G0.
    destruct (sched_verbatim p n).
    - unfold srv_restore. rewrite G0.
      destruct (srv_put_lease (clear_server c (sn_app n)) s (sn_app n) 0) as [cs|] eqn:P; cbn [fst snd].
      + set (ce := c_upd_app (sn_app n) (fun x : app => x <| a_expiry := Some (sn_expires n) |>) cs).
        set (o := if ri then sn_identity n else None).
        assert (Y : exists y, get_app (sn_app n) (c_apps (match o with Some i => force_identity ce (sn_app n) i | None => ce end))
                              = Some y /\ a_server y = Some s).
        { destruct (cleared_put_get 0 cs a G P) as (y & Gy & Sy).
          apply (placed_force ce (sn_app n) o (y <| a_expiry := Some (sn_expires n) |>) s); [|exact Sy].
          unfold ce, c_upd_app. cbn. apply (get_upd_app_same (sn_app n) _ (c_apps cs) y); [reflexivity|exact Gy]. }
        assert (E : c_servers (match o with Some i => force_identity ce (sn_app n) i | None => ce end) = c_servers cs).
        { destruct o; [rewrite servers_force|]; reflexivity. }
        destruct (put_path 0 cs _ P E Y) as [H1 H2]. split; [exact H1|intros _; exact H2].
      + destruct (a_once a); cbn [fst snd]; (split; [|cbn; discriminate]).
        * apply GONE. reflexivity.
        * apply SAME. reflexivity.
    - destruct (a_once a); cbn [fst snd].
      + split; [apply GONE; reflexivity|cbn; discriminate].
      + unfold srv_put. rewrite G0. cbn [a_lease set].
        destruct (srv_put_lease (clear_server c (sn_app n)) s (sn_app n) _) as [cs|] eqn:P; cbn [fst snd].
        * set (o := if ri then sn_identity n else None).
          assert (Y : exists y, get_app (sn_app n) (c_apps (match o with Some i => force_identity cs (sn_app n) i | None => cs end))
                                = Some y /\ a_server y = Some s).
          { destruct (cleared_put_get _ cs a G P) as (y & Gy & Sy). apply (placed_force cs (sn_app n) o y s Gy Sy). }
          assert (E : c_servers (match o with Some i => force_identity cs (sn_app n) i | None => cs end) = c_servers cs).
          { destruct o; [rewrite servers_force|]; reflexivity. }
          destruct (put_path _ cs _ P E Y) as [H1 H2]. split; [exact H1|intros _; exact H2].
        * split; [apply SAME; reflexivity|cbn; discriminate].
  Qed.
End OneNode.

(** ** one server, all servers *)
Lemma listed_restore_nodes s p ri ns : forall c,
  (forall s' b, ~ In b (map sn_app ns) -> listed c s' b -> listed (restore_nodes s p ri c ns) s' b) /\
  (forall s' b, listed (restore_nodes s p ri c ns) s' b -> listed c s' b \/ (s' = s /\ In b (map sn_app ns))) /\
  (apps_nodup c -> apps_nodup (restore_nodes s p ri c ns)).
Proof.
  induction ns as [|n ns IH]; intros c; [cbn; auto|].
  change (restore_nodes s p ri c (n :: ns)) with (restore_nodes s p ri (fst (restore_node s p ri c n)) ns).
  destruct (listed_restore_node s p ri c n) as [(H1 & H2 & H3) _].
  destruct (IH (fst (restore_node s p ri c n))) as (I1 & I2 & I3). split; [|split].
  - intros s' b NI H. apply I1; [intros C; apply NI; right; exact C|]. apply H1; [|exact H].
    intros E. apply NI. left. congruence.
  - intros s' b H. destruct (I2 s' b H) as [H'|[E I]]; [|right; split; [exact E|right; exact I]].
    destruct (H2 s' b H') as [H''|[E ->]]; [left; exact H''|right; split; [exact E|left; reflexivity]].
  - intros ND. apply I3. apply H3. exact ND.
Qed.

Lemma listed_restore_all ri servers : forall c,
  (forall s' b, (forall sr, In sr servers -> ~ In b (map sn_app (sr_nodes sr))) ->
                listed c s' b -> listed (fst (restore_all ri c servers)) s' b) /\
  (forall s' b, listed (fst (restore_all ri c servers)) s' b ->
                listed c s' b \/ exists sr, In sr servers /\ sr_name sr = s' /\ In b (map sn_app (sr_nodes sr))) /\
  (apps_nodup c -> apps_nodup (fst (restore_all ri c servers))).
Proof.
  induction servers as [|sr l IH]; intros c; [cbn; auto|].
  rewrite ra_cons. cbn zeta. cbn [fst]. rewrite rnn_fst.
  destruct (listed_restore_nodes (sr_name sr) (sr_presence sr) ri (sr_nodes sr) c) as (H1 & H2 & H3).
  destruct (IH (restore_nodes (sr_name sr) (sr_presence sr) ri c (sr_nodes sr))) as (I1 & I2 & I3). split; [|split].
  - intros s' b NI H. apply I1; [intros sr' Hin; apply NI; right; exact Hin|]. apply H1; [apply NI; left; reflexivity|exact H].
  - intros s' b H. destruct (I2 s' b H) as [H'|(sr' & Hin & E & I)]; [|right; exists sr'; split; [right; exact Hin|auto]].
    destruct (H2 s' b H') as [H''|[E I]]; [left; exact H''|]. right. exists sr. split; [left; reflexivity|auto].
  - intros ND. apply I3. apply H3. exact ND.
Qed.

(** the turn of a server one of whose nodes is restored *)
Lemma restored_turn s p ri pre n post c :
  NoDup (map sn_app (pre ++ n :: post)) ->
  restored (snd (restore_node s p ri (restore_nodes s p ri c pre) n)) = true ->
  let c1 := restore_nodes s p ri c (pre ++ n :: post) in
  listed c1 s (sn_app n) /\ (forall s', listed c s' (sn_app n) -> listed c1 s' (sn_app n)) /\
  exists y, get_app (sn_app n) (c_apps c1) = Some y /\ a_server y = Some s.
Proof.
  intros ND R c1. rewrite map_app in ND. cbn [map] in ND.
  assert (NPRE : ~ In (sn_app n) (map sn_app pre)).
  { apply NoDup_remove_2 in ND. intros C. apply ND. apply in_or_app. left. exact C. }
  assert (NPOST : ~ In (sn_app n) (map sn_app post)).
  { apply NoDup_remove_2 in ND. intros C. apply ND. apply in_or_app. right. exact C. }
  set (cpre := restore_nodes s p ri c pre) in *.
  assert (E1 : c1 = restore_nodes s p ri (fst (restore_node s p ri cpre n)) post).
  { unfold c1. rewrite restore_nodes_app. reflexivity. }
  destruct (listed_restore_nodes s p ri pre c) as (P1 & _ & _).
  destruct (listed_restore_node s p ri cpre n) as [_ HR]. destruct (HR R) as (L & MONO & y & Gy & Sy).
  destruct (listed_restore_nodes s p ri post (fst (restore_node s p ri cpre n))) as (Q1 & _ & _).
  rewrite E1. split; [|split].
  - apply Q1; assumption.
  - intros s' H. apply Q1; [exact NPOST|]. apply MONO. apply P1; assumption.
  - exists y. split; [|exact Sy]. rewrite frame_restore_nodes by exact NPOST. exact Gy.
Qed.

(** * The duplicate pass on the cell *)
Lemma srv_remove_unlisted c s a : ~ listed c s a -> srv_remove c s a = c.
Proof.
  intros NL. destruct (srv_remove_inv c s a) as [(sv & x & GS & _ & I & _)|[E _]]; [|exact E].
  exfalso. apply NL. exists sv. auto.
Qed.

Definition dedup_step (restored : list (Z * list Z)) (acc : cell) (a : Z) : cell :=
  match restored_on restored a with
  | s1 :: s2 :: r => fold_left (fun acc' s => srv_remove acc' s a) (s1 :: s2 :: r) acc
  | _ => acc
  end.
Lemma dedup_cell_fold c restored :
  dedup_cell c restored = fold_left (dedup_step restored) (nodup_z (flat_map snd restored)) c.
Proof. reflexivity. Qed.

Lemma remove_many c a' ss : forall c0, c0 = c ->
  let cf := fold_left (fun acc' s => srv_remove acc' s a') ss c in
  (forall s' b, b <> a' -> listed c s' b -> listed cf s' b) /\
  (forall s' b, listed cf s' b -> listed c s' b) /\
  (apps_nodup c -> apps_nodup cf) /\
  (forall b, b <> a' -> get_app b (c_apps cf) = get_app b (c_apps c)).
Proof.
  intros c0 _. revert c. induction ss as [|s ss IH]; intros c; [cbn; auto|]. cbn [fold_left].
  destruct (listed_remove c s a') as (H1 & H2 & H3 & _). destruct (IH (srv_remove c s a')) as (I1 & I2 & I3 & I4).
  split; [|split; [|split]].
  - intros s' b NE H. apply I1; [exact NE|]. apply H1; assumption.
  - intros s' b H. apply H2. apply I2. exact H.
  - intros ND. apply I3. apply H3. exact ND.
  - intros b NE. rewrite I4 by exact NE. apply frame_srv_remove. exact NE.
Qed.

Lemma dedup_step_other restored c a a' :
  a' <> a ->
  let cf := dedup_step restored c a' in
  (forall s', listed c s' a <-> listed cf s' a) /\
  (apps_nodup c -> apps_nodup cf) /\
  get_app a (c_apps cf) = get_app a (c_apps c).
Proof.
  intros NE cf. unfold cf, dedup_step. destruct (restored_on restored a') as [|s1 [|s2 r]]; try (split; [tauto|split; [tauto|reflexivity]]).
  destruct (remove_many c a' (s1 :: s2 :: r) c eq_refl) as (H1 & H2 & H3 & H4). split; [|split].
  - intros s'. split; [apply H1; congruence|apply H2].
  - exact H3.
  - apply H4. congruence.
Qed.

Section Dup.
  Variables (restored : list (Z * list Z)) (a A B : Z).
  Hypothesis AB : A <> B.
  Hypothesis RON : restored_on restored a = [A; B].

  Definition dupQ (c : cell) : Prop :=
    apps_nodup c /\ listed c A a /\ listed c B a /\ exists y, get_app a (c_apps c) = Some y.
  Definition dupP (c : cell) : Prop :=
    apps_nodup c /\ ~ listed c A a /\ ~ listed c B a /\
    exists y, get_app a (c_apps c) = Some y /\ a_server y = None /\ a_expiry y = None /\ a_evicted y = true.

  Lemma dedup_step_self_Q c : dupQ c -> dupP (dedup_step restored c a).
  Proof.
    intros (ND & LA & LB & y & Gy). unfold dedup_step. rewrite RON. cbn [fold_left].
    destruct (srv_remove_listed c A a y ND LA Gy) as [NA G1].
    destruct (listed_remove c A a) as (_ & _ & ND1 & Go). specialize (ND1 ND).
    assert (LB1 : listed (srv_remove c A a) B a).
    { destruct LB as (sv & G & I). exists sv. rewrite Go by congruence. auto. }
    destruct (srv_remove_listed _ B a _ ND1 LB1 G1) as [NB G2].
    destruct (listed_remove (srv_remove c A a) B a) as (_ & BACK & ND2 & _).
    split; [apply ND2; exact ND1|]. split; [intros H; apply NA; apply BACK; exact H|]. split; [exact NB|].
    eexists. split; [exact G2|]. repeat split.
  Qed.

  Lemma dedup_step_self_P c : dupP c -> dupP (dedup_step restored c a).
  Proof.
    intros H. unfold dedup_step. rewrite RON. cbn [fold_left]. destruct H as (ND & NA & NB & Y).
    rewrite (srv_remove_unlisted c A a NA), (srv_remove_unlisted c B a NB). repeat split; assumption.
  Qed.

  Lemma dedup_step_other_Q c a' : a' <> a -> dupQ c -> dupQ (dedup_step restored c a').
  Proof.
    intros NE (ND & LA & LB & y & Gy). destruct (dedup_step_other restored c a a' NE) as (H1 & H2 & H3).
    split; [apply H2; exact ND|]. split; [apply H1; exact LA|]. split; [apply H1; exact LB|].
    exists y. rewrite H3. exact Gy.
  Qed.

  Lemma dedup_step_other_P c a' : a' <> a -> dupP c -> dupP (dedup_step restored c a').
  Proof.
    intros NE (ND & NA & NB & y & Gy & Y). destruct (dedup_step_other restored c a a' NE) as (H1 & H2 & H3).
    split; [apply H2; exact ND|].
    split; [intros H; apply NA; apply H1; exact H|]. split; [intros H; apply NB; apply H1; exact H|].
    exists y. rewrite H3. auto.
  Qed.

  Lemma dedup_fold_P L : forall c, dupP c -> dupP (fold_left (dedup_step restored) L c).
  Proof.
    induction L as [|a' L IH]; intros c H; [exact H|]. cbn [fold_left]. apply IH.
    destruct (Z.eq_dec a' a) as [->|NE]; [apply dedup_step_self_P|apply dedup_step_other_P]; assumption.
  Qed.

  Lemma dedup_fold_Q L : forall c, In a L -> dupQ c -> dupP (fold_left (dedup_step restored) L c).
  Proof.
    induction L as [|a' L IH]; intros c Hin H; [contradiction|]. cbn [fold_left].
    destruct (Z.eq_dec a' a) as [->|NE].
    - apply dedup_fold_P. apply dedup_step_self_Q. exact H.
    - destruct Hin as [E|Hin]; [contradiction|]. apply IH; [exact Hin|]. apply dedup_step_other_Q; assumption.
  Qed.
End Dup.

(** the duplicate pass only removes: what a server lists afterwards it listed before *)
Lemma dedup_cell_listed_back restored : forall c s b, listed (dedup_cell c restored) s b -> listed c s b.
Proof.
  intros c. rewrite dedup_cell_fold. generalize (nodup_z (flat_map snd restored)) as L. intros L. revert c.
  induction L as [|a' L IH]; intros c s b H; [exact H|]. cbn [fold_left] in H. apply IH in H.
  unfold dedup_step in H. destruct (restored_on restored a') as [|s1 [|s2 r]]; try exact H.
  destruct (remove_many c a' (s1 :: s2 :: r) c eq_refl) as (_ & H2 & _). apply H2. exact H.
Qed.

Lemma restored_on_cons s l rest a :
  restored_on ((s, l) :: rest) a = (if zmem a l then [s] else []) ++ restored_on rest a.
Proof. reflexivity. Qed.

(** * The instance recorded under two servers
    Side conditions: node names under one /placement/<server> are distinct (children of one ZooKeeper node); the two
    servers have different names (keys of the dict Loader.servers); no server lists an instance twice when
    restore_placements starts (Server.apps is a dict; Sched/InvAcct.v [ac_nodup]). *)
Lemma restore_placements_duplicate_let ri c s1 srA s2 srB s3 preA nA postA preB nB postB :
  let A := sr_name srA in
  let B := sr_name srB in
  let a := sn_app nA in
  sr_nodes srA = preA ++ nA :: postA -> sr_nodes srB = preB ++ nB :: postB -> sn_app nB = a ->
  NoDup (map sn_app (sr_nodes srA)) -> NoDup (map sn_app (sr_nodes srB)) ->
  A <> B ->
  (forall sr, In sr (s1 ++ s2 ++ s3) -> ~ In a (map sn_app (sr_nodes sr))) ->
  apps_nodup c ->
  let cA := restore_nodes A (sr_presence srA) ri (fst (restore_all ri c s1)) preA in
  let cB := restore_nodes B (sr_presence srB) ri (fst (restore_all ri c (s1 ++ srA :: s2))) preB in
  restored (snd (restore_node A (sr_presence srA) ri cA nA)) = true ->
  restored (snd (restore_node B (sr_presence srB) ri cB nB)) = true ->
  let '(cf, restored, ws) := restore_placements ri c (s1 ++ srA :: s2 ++ srB :: s3) in
  restored_on restored a = [A; B] /\
  (exists x, get_app a (c_apps cf) = Some x /\ a_server x = None /\ a_expiry x = None /\ a_evicted x = true) /\
  ~ listed cf A a /\ ~ listed cf B a /\
  (forall s, listed cf s a -> listed c s a) /\
  In (WDel A a) ws /\ In (WDel B a) ws.
Proof.
  intros A B a EA EB EnB NDA NDB AB UNREC ND0 cA cB RA RB.
  assert (U1 : forall sr, In sr s1 -> ~ In a (map sn_app (sr_nodes sr)))
    by (intros sr H; apply UNREC; apply in_or_app; left; exact H).
  assert (U2 : forall sr, In sr s2 -> ~ In a (map sn_app (sr_nodes sr)))
    by (intros sr H; apply UNREC; apply in_or_app; right; apply in_or_app; left; exact H).
  assert (U3 : forall sr, In sr s3 -> ~ In a (map sn_app (sr_nodes sr)))
    by (intros sr H; apply UNREC; apply in_or_app; right; apply in_or_app; right; exact H).
  set (pA := sr_presence srA) in *. set (pB := sr_presence srB) in *.
  set (c1 := fst (restore_all ri c s1)) in *.
  set (cA1 := restore_nodes A pA ri c1 (sr_nodes srA)).
  set (c2 := fst (restore_all ri cA1 s2)).
  set (cB1 := restore_nodes B pB ri c2 (sr_nodes srB)).
  set (c3 := fst (restore_all ri cB1 s3)).
  set (namesA := snd (restore_nodes_names A pA ri c1 (sr_nodes srA))).
  set (namesB := snd (restore_nodes_names B pB ri c2 (sr_nodes srB))).
  assert (E2 : fst (restore_all ri c (s1 ++ srA :: s2)) = c2).
  { rewrite ra_app. cbn [fst]. rewrite ra_cons. cbn zeta. cbn [fst]. rewrite rnn_fst. reflexivity. }
  assert (Er : restore_all ri c (s1 ++ srA :: s2 ++ srB :: s3) =
               (c3, snd (restore_all ri c s1) ++ (A, namesA) :: snd (restore_all ri cA1 s2)
                                               ++ (B, namesB) :: snd (restore_all ri cB1 s3))).
  { rewrite ra_app, ra_cons. cbn zeta. cbn [fst snd]. fold c1. rewrite rnn_fst. fold A pA cA1.
    rewrite ra_app, ra_cons. cbn zeta. cbn [fst snd]. fold c2. rewrite rnn_fst. fold B pB cB1. reflexivity. }
  unfold cB in RB. rewrite E2 in RB.
  (* membership in the collected names *)
  assert (INA : In a namesA).
  { apply restored_names_spec. exists preA, nA, postA. auto. }
  assert (INB : In a namesB).
  { apply restored_names_spec. exists preB, nB, postB. auto. }
  (* the first loop *)
  rewrite EA in NDA. rewrite EB in NDB.
  destruct (restored_turn A pA ri preA nA postA c1 NDA RA) as (LA1 & _ & _).
  rewrite <- EA in LA1. fold cA1 a in LA1.
  destruct (listed_restore_all ri s2 cA1) as (F2 & B2 & N2).
  assert (LA2 : listed c2 A a) by (apply F2; assumption).
  pose proof (restored_turn B pB ri preB nB postB c2 NDB RB) as TB. rewrite <- EB, EnB in TB. fold cB1 in TB.
  destruct TB as (LB3 & MONO3 & y & Gy & _).
  assert (LA3 : listed cB1 A a) by (apply MONO3; exact LA2).
  destruct (listed_restore_all ri s3 cB1) as (F3 & B3 & N3).
  assert (Q : dupQ a A B c3).
  { split; [|split; [|split]].
    - apply N3. apply (listed_restore_nodes B pB ri (sr_nodes srB) c2). apply N2.
      apply (listed_restore_nodes A pA ri (sr_nodes srA) c1). apply (listed_restore_all ri s1 c). exact ND0.
    - apply F3; assumption.
    - apply F3; assumption.
    - exists y. unfold c3. rewrite restore_all_frame by exact U3. exact Gy. }
  (* what integrity collected *)
  unfold restore_placements. rewrite Er.
  set (restored := snd (restore_all ri c s1) ++ (A, namesA) :: snd (restore_all ri cA1 s2)
                                             ++ (B, namesB) :: snd (restore_all ri cB1 s3)).
  assert (RON : restored_on restored a = [A; B]).
  { unfold restored. rewrite restored_on_app, restored_on_cons, restored_on_app, restored_on_cons.
    rewrite (restored_on_unrecorded ri c s1 a U1), (restored_on_unrecorded ri cA1 s2 a U2),
            (restored_on_unrecorded ri cB1 s3 a U3).
    apply zmem_In in INA. apply zmem_In in INB. rewrite INA, INB. reflexivity. }
  assert (INL : In a (nodup_z (flat_map snd restored))).
  { apply in_nodup_z. apply in_flat_map. exists (A, namesA). split; [|exact INA].
    unfold restored. apply in_or_app. right. left. reflexivity. }
  pose proof (dedup_fold_Q restored a A B AB RON _ c3 INL Q) as P. rewrite <- dedup_cell_fold in P.
  destruct P as (_ & NA & NB & Y).
  split; [exact RON|]. split; [exact Y|]. split; [exact NA|]. split; [exact NB|]. split; [|split].
  - intros s H. pose proof (dedup_cell_listed_back restored c3 s a H) as H3.
    assert (SA : s = A -> False) by (intros ->; exact (NA H)).
    assert (SB : s = B -> False) by (intros ->; exact (NB H)).
    destruct (B3 s a H3) as [H4|(sr & Hin & _ & I)]; [|exfalso; exact (U3 sr Hin I)].
    destruct (listed_restore_nodes B pB ri (sr_nodes srB) c2) as (_ & BB & _).
    destruct (BB s a H4) as [H5|[E _]]; [|exfalso; exact (SB E)].
    destruct (B2 s a H5) as [H6|(sr & Hin & _ & I)]; [|exfalso; exact (U2 sr Hin I)].
    destruct (listed_restore_nodes A pA ri (sr_nodes srA) c1) as (_ & BA & _).
    destruct (BA s a H6) as [H7|[E _]]; [|exfalso; exact (SA E)].
    destruct (listed_restore_all ri s1 c) as (_ & B1 & _).
    destruct (B1 s a H7) as [H8|(sr & Hin & _ & I)]; [exact H8|exfalso; exact (U1 sr Hin I)].
  - unfold dedup_writes. apply in_flat_map. exists a. split; [exact INL|]. rewrite RON. left. reflexivity.
  - unfold dedup_writes. apply in_flat_map. exists a. split; [exact INL|]. rewrite RON. right. left. reflexivity.
Qed.

(** * Accounting
    The two-views invariant Sched/InvAcct.v [Acct] does not hold while an instance sits on two servers (the first
    lists it, the instance names the second); what does hold throughout, and what part (c) needs, is its accounting
    half [WAcct] (free + demands of the listed instances = capacity) together with Sched/InvAff.v [Aff] (the stored
    server-level affinity counters are the true counts over the listed instances), neither of which reads app.server.
    Side condition: none of the recorded instances is schedule_once ([once_free_on]): a schedule-once instance that
    cannot be put back is removed with Cell.remove_app, which takes it off app.server only - if it is also listed by an
    earlier server (recorded under three servers, refused by the third) Python itself leaves that server's books wrong
    and then fails the assertion in Server.remove during the duplicate pass. *)
Record WAcct (c : cell) : Prop := {
  w_srv_dims : forall n s, get_srv n (c_servers c) = Some s ->
                           length (s_cap s) = c_dim c /\ length (s_free s) = c_dim c /\ nonneg (s_free s);
  w_app_dims : forall n a, get_app n (c_apps c) = Some a -> length (a_demand a) = c_dim c /\ nonneg (a_demand a);
  w_acct : forall n s, get_srv n (c_servers c) = Some s ->
                       vadd (s_free s) (total (c_apps c) (c_dim c) (s_apps s)) = s_cap s
}.

Lemma Acct_WAcct c : Acct c -> WAcct c.
Proof. intros [A1 A2 A3 A4 A5 A6 A7 A8]. constructor; assumption. Qed.

Definition once_free_on (S : Z -> Prop) (c : cell) : Prop :=
  forall m x, S m -> get_app m (c_apps c) = Some x -> a_once x = false.

Definition app_soft (x y : app) : Prop :=
  a_name x = a_name y /\ a_demand x = a_demand y /\ a_aff x = a_aff y /\ a_limits x = a_limits y /\ a_once x = a_once y.

Lemma get_app_soft l l' : Forall2 app_soft l l' -> forall n,
  match get_app n l, get_app n l' with
  | Some a, Some b => app_soft a b
  | None, None => True
  | _, _ => False
  end.
Proof.
  induction 1 as [|a b l l' Hab Hl IH]; intros n; cbn; [exact I|].
  destruct Hab as (H1 & H2). rewrite <- H1. destruct (Z.eqb (a_name a) n); [split; assumption|apply IH].
Qed.

Lemma total_soft l l' dim names : Forall2 app_soft l l' -> total l dim names = total l' dim names.
Proof.
  intros Hf. induction names as [|n r IH]; cbn; [reflexivity|]. rewrite IH. f_equal.
  unfold demand_of. pose proof (get_app_soft _ _ Hf n) as H.
  destruct (get_app n l), (get_app n l'); try contradiction; [destruct H as (_ & H & _); exact H|reflexivity].
Qed.

Definition WA (S : Z -> Prop) (c : cell) : Prop := WAcct c /\ Aff c /\ once_free_on S c.

Lemma WAcct_soft c c' :
  c_dim c' = c_dim c -> c_servers c' = c_servers c -> Forall2 app_soft (c_apps c) (c_apps c') -> WAcct c -> WAcct c'.
Proof.
  intros Hd Hs Hf [W1 W2 W3]. constructor; rewrite ?Hd, ?Hs.
  - exact W1.
  - intros n b Hb. pose proof (get_app_soft _ _ Hf n) as H. rewrite Hb in H.
    destruct (get_app n (c_apps c)) as [a0|] eqn:E; [|contradiction]. destruct H as (_ & H & _). rewrite <- H.
    eapply W2; exact E.
  - intros n s Hg. rewrite <- (total_soft _ _ _ _ Hf). eapply W3; exact Hg.
Qed.

Lemma once_free_on_soft S c c' : Forall2 app_soft (c_apps c) (c_apps c') -> once_free_on S c -> once_free_on S c'.
Proof.
  intros Hf HO m y HS Hy. pose proof (get_app_soft _ _ Hf m) as H. rewrite Hy in H.
  destruct (get_app m (c_apps c)) as [x|] eqn:E; [|contradiction]. destruct H as (_ & _ & _ & _ & H). rewrite <- H.
  eapply HO; eassumption.
Qed.

Lemma WA_soft S c c' :
  c_dim c' = c_dim c -> c_servers c' = c_servers c -> Forall2 app_soft (c_apps c) (c_apps c') -> WA S c -> WA S c'.
Proof.
  intros Hd Hs Hf (HW & HA & HO). split; [|split].
  - eapply WAcct_soft; eassumption.
  - revert HA. apply Aff_eqa; [exact Hs|]. clear -Hf.
    induction Hf as [|x y l l' (H1 & _ & H3 & H4 & _) _ IH]; constructor; [repeat split; assumption|exact IH].
  - eapply once_free_on_soft; eassumption.
Qed.

Lemma Forall2_soft_refl l : Forall2 app_soft l l.
Proof. induction l; constructor; [repeat split|assumption]. Qed.
Lemma Forall2_soft_upd n f l : (forall x, app_soft x (f x)) -> Forall2 app_soft l (upd_app n f l).
Proof.
  intros Hf. induction l as [|x t IH]; cbn; [constructor|].
  destruct (Z.eqb (a_name x) n); constructor; [apply Hf|apply Forall2_soft_refl|repeat split|exact IH].
Qed.

Lemma WA_upd_app S c n f : (forall x, app_soft x (f x)) -> WA S c -> WA S (c_upd_app n f c).
Proof. intros Hf. apply WA_soft; [reflexivity|reflexivity|apply Forall2_soft_upd; exact Hf]. Qed.
Lemma WA_same_core S c c' : same_core c c' -> WA S c -> WA S c'.
Proof. intros (H1 & _ & H3 & H4 & _). apply WA_soft; [exact H1|exact H3|rewrite H4; apply Forall2_soft_refl]. Qed.

Lemma WA_clear_server S c a : WA S c -> WA S (clear_server c a).
Proof.
  intros H. unfold clear_server. destruct (get_app a (c_apps c)) as [x|]; [|exact H].
  destruct (a_server x); [|exact H]. apply WA_upd_app; [|exact H]. intros y. repeat split.
Qed.

Lemma WA_force S c a o : WA S c -> WA S (match o with Some i => force_identity c a i | None => c end).
Proof.
  intros H. destruct o as [i|]; [|exact H]. unfold force_identity. destruct (get_app a (c_apps c)) as [x|]; [|exact H].
  apply WA_upd_app; [intros y; repeat split|]. revert H. apply WA_soft.
  - destruct (group_of c x) as [[g grp]|]; reflexivity.
  - destruct (group_of c x) as [[g grp]|]; reflexivity.
  - destruct (group_of c x) as [[g grp]|]; apply Forall2_soft_refl.
Qed.

(** Server.put, the server's books *)
Lemma WAcct_put_srv c sn an s a lease :
  get_srv sn (c_servers c) = Some s -> get_app an (c_apps c) = Some a -> put_guard c s a lease = true ->
  WAcct c -> WAcct (c_upd_srv sn (put_srv an a) c).
Proof.
  intros Hs Ha Hg [W1 W2 W3].
  unfold put_guard in Hg. repeat (apply andb_true_iff in Hg as [Hg ?]).
  match goal with H : check_constraints _ _ _ _ _ _ _ = true |- _ => rename H into Hcc end.
  unfold check_constraints in Hcc. apply andb_true_iff in Hcc as [_ Hcap]. apply negb_true_iff in Hcap.
  destruct (W1 _ _ Hs) as (Hlc & Hlf & Hnf). destruct (W2 _ _ Ha) as (Hld & Hnd).
  assert (Hdlen : forall n0 a0, get_app n0 (c_apps c) = Some a0 -> length (a_demand a0) = c_dim c)
    by (intros n0 a0 Hq; apply (W2 n0 a0 Hq)).
  constructor; cbn [c_upd_srv c_servers c_apps c_dim set].
  - intros n s' Hg'. destruct (Z.eq_dec n sn) as [->|Hne].
    + rewrite (get_upd_srv_same _ _ _ _ (put_srv_name an a) Hs) in Hg'. inversion Hg'; subst s'. cbn.
      split; [exact Hlc|]. split.
      * unfold vsub. rewrite vmap2_length; lia.
      * apply not_any_gt_sub_nonneg; [lia|exact Hcap].
    + rewrite get_upd_srv_other in Hg' by (try apply put_srv_name; assumption). eapply W1; exact Hg'.
  - exact W2.
  - intros n s' Hg'. destruct (Z.eq_dec n sn) as [->|Hne].
    + rewrite (get_upd_srv_same _ _ _ _ (put_srv_name an a) Hs) in Hg'. inversion Hg'; subst s'. cbn.
      rewrite total_app by exact Hdlen. cbn [total]. unfold demand_of. rewrite Ha.
      rewrite (vadd_zero_r (a_demand a) (c_dim c) Hld).
      rewrite vsub_vadd; [apply (W3 _ _ Hs)|lia|rewrite total_length by exact Hdlen; lia].
    + rewrite get_upd_srv_other in Hg' by (try apply put_srv_name; assumption). eapply W3; exact Hg'.
Qed.

Lemma put_upd_soft c s l x : app_soft x (put_upd c s l x).
Proof. unfold put_upd. destruct (a_expiry x); repeat split. Qed.

Lemma WA_prim_put S c sn an s a lease :
  get_srv sn (c_servers c) = Some s -> get_app an (c_apps c) = Some a -> put_guard c s a lease = true ->
  WA S c -> WA S (prim_put c sn an a lease).
Proof.
  intros Hs Ha Hg (HW & HA & HO).
  assert (SOFT : Forall2 app_soft (c_apps c) (c_apps (prim_put c sn an a lease))).
  { change (c_apps (prim_put c sn an a lease)) with (upd_app an (put_upd c sn lease) (c_apps c)).
    apply Forall2_soft_upd. apply put_upd_soft. }
  split; [|split].
  - apply (WAcct_soft (c_upd_srv sn (put_srv an a) c)); [reflexivity|reflexivity|exact SOFT|].
    eapply WAcct_put_srv; eassumption.
  - eapply Aff_put; eassumption.
  - eapply once_free_on_soft; [exact SOFT|exact HO].
Qed.

(** Server.remove, the server's books *)
Lemma WAcct_rem_srv c sn an s a :
  get_srv sn (c_servers c) = Some s -> get_app an (c_apps c) = Some a -> In an (s_apps s) ->
  WAcct c -> WAcct (c_upd_srv sn (rem_srv an a) c).
Proof.
  intros Hs Ha Hm [W1 W2 W3].
  destruct (W1 _ _ Hs) as (Hlc & Hlf & Hnf). destruct (W2 _ _ Ha) as (Hld & Hnd).
  assert (Hdlen : forall n0 a0, get_app n0 (c_apps c) = Some a0 -> length (a_demand a0) = c_dim c)
    by (intros n0 a0 Hq; apply (W2 n0 a0 Hq)).
  constructor; cbn [c_upd_srv c_servers c_apps c_dim set].
  - intros n s' Hg'. destruct (Z.eq_dec n sn) as [->|Hne].
    + rewrite (get_upd_srv_same _ _ _ _ (rem_srv_name an a) Hs) in Hg'. inversion Hg'; subst s'. cbn.
      split; [exact Hlc|]. split.
      * unfold vadd. rewrite vmap2_length; lia.
      * apply nonneg_vadd; assumption.
    + rewrite get_upd_srv_other in Hg' by (try apply rem_srv_name; assumption). eapply W1; exact Hg'.
  - exact W2.
  - intros n s' Hg'. destruct (Z.eq_dec n sn) as [->|Hne].
    + rewrite (get_upd_srv_same _ _ _ _ (rem_srv_name an a) Hs) in Hg'. inversion Hg'; subst s'. cbn.
      rewrite <- (W3 _ _ Hs). rewrite (total_zremove _ _ an (s_apps s) Hdlen Hm).
      unfold demand_of. rewrite Ha. apply vadd_assoc.
    + rewrite get_upd_srv_other in Hg' by (try apply rem_srv_name; assumption). eapply W3; exact Hg'.
Qed.

Lemma WA_srv_remove S c s a : WA S c -> WA S (srv_remove c s a).
Proof.
  intros H. destruct (srv_remove_inv c s a) as [(sv & x & GS & GA & I & SC)|[E _]]; [|rewrite E; exact H].
  apply (WA_same_core S _ _ SC). destruct H as (HW & HA & HO).
  assert (SOFT : Forall2 app_soft (c_apps c) (c_apps (prim_remove c s a x))).
  { change (c_apps (prim_remove c s a x)) with (upd_app a rem_app (c_apps c)).
    apply Forall2_soft_upd. intros y. repeat split. }
  split; [|split].
  - apply (WAcct_soft (c_upd_srv s (rem_srv a x) c)); [reflexivity|reflexivity|exact SOFT|].
    eapply WAcct_rem_srv; eassumption.
  - eapply Aff_remove; [exact GS|exact GA|apply MapsP.zmem_In; exact I|exact HA].
  - eapply once_free_on_soft; [exact SOFT|exact HO].
Qed.

Lemma WA_srv_put_lease S c s a lease c' : srv_put_lease c s a lease = Some c' -> WA S c -> WA S c'.
Proof.
  intros P H. destruct (srv_put_lease_inv _ _ _ _ _ P) as (sv & x & GS & GA & PG & SC).
  apply (WA_same_core S _ _ SC). eapply WA_prim_put; eassumption.
Qed.

(** one node of a recorded instance that is not schedule_once *)
Lemma WA_restore_node (S : Z -> Prop) s p ri c n : S (sn_app n) -> WA S c -> WA S (fst (restore_node s p ri c n)).
Proof.
  intros HS H. unfold restore_node. destruct (get_app (sn_app n) (c_apps c)) as [a|] eqn:G; [|exact H].
  assert (ONCE : a_once a = false) by (destruct H as (_ & _ & HO); exact (HO _ _ HS G)).
  rewrite ONCE.
  pose proof (clear_server_get c (sn_app n) a G) as G0.
  pose proof (WA_clear_server S c (sn_app n) H) as H0.
  assert (EXP : forall cx, WA S cx -> WA S (c_upd_app (sn_app n) (fun x => x <| a_expiry := Some (sn_expires n) |>) cx)).
  { intros cx Hx. apply WA_upd_app; [intros y; repeat split|exact Hx]. }
  destruct (sched_verbatim p n).
  - unfold srv_restore. rewrite G0.
    destruct (srv_put_lease (clear_server c (sn_app n)) s (sn_app n) 0) as [cs|] eqn:P; cbn [fst snd].
    + apply WA_force. apply EXP. eapply WA_srv_put_lease; eassumption.
    + apply EXP. exact H.
  - unfold srv_put. rewrite G0.
    destruct (srv_put_lease (clear_server c (sn_app n)) s (sn_app n) _) as [cs|] eqn:P; cbn [fst].
    + apply WA_force. eapply WA_srv_put_lease; eassumption.
    + exact H.
Qed.

Lemma WA_restore_nodes (S : Z -> Prop) s p ri ns : forall c,
  (forall n, In n ns -> S (sn_app n)) -> WA S c -> WA S (restore_nodes s p ri c ns).
Proof.
  induction ns as [|n ns IH]; intros c HS H; [exact H|]. cbn. apply IH; [intros m Hm; apply HS; right; exact Hm|].
  apply WA_restore_node; [apply HS; left; reflexivity|exact H].
Qed.

Lemma WA_restore_all (S : Z -> Prop) ri servers : forall c,
  (forall sr n, In sr servers -> In n (sr_nodes sr) -> S (sn_app n)) -> WA S c -> WA S (fst (restore_all ri c servers)).
Proof.
  induction servers as [|sr l IH]; intros c HS H; [exact H|]. rewrite ra_cons. cbn zeta. cbn [fst]. rewrite rnn_fst.
  apply IH; [intros sr' n Hs Hn; eapply HS; [right; exact Hs|exact Hn]|].
  apply WA_restore_nodes; [intros n Hn; eapply HS; [left; reflexivity|exact Hn]|exact H].
Qed.

Lemma WA_dedup_cell S restored : forall c, WA S c -> WA S (dedup_cell c restored).
Proof.
  intros c. rewrite dedup_cell_fold. generalize (nodup_z (flat_map snd restored)) as L. intros L. revert c.
  induction L as [|a' L IH]; intros c H; [exact H|]. cbn [fold_left]. apply IH.
  unfold dedup_step. destruct (restored_on restored a') as [|s1 [|s2 r]]; try exact H.
  generalize (s1 :: s2 :: r) as ss. intros ss. revert c H.
  induction ss as [|s ss IHs]; intros c H; [exact H|]. cbn [fold_left]. apply IHs. apply WA_srv_remove. exact H.
Qed.

Definition recorded (servers : list srec) (m : Z) : Prop :=
  exists sr n, In sr servers /\ In n (sr_nodes sr) /\ m = sn_app n.

(** after restore_placements - both loops, any number of instances recorded under several servers - every server's
    free capacity is its capacity minus the demands of the instances it (still) lists, it is non-negative, and its
    affinity counters are the counts over the instances it (still) lists *)
Lemma restore_placements_accounting_let ri c servers :
  Acct c -> Aff c -> once_free_on (recorded servers) c ->
  let '(cf, _, _) := restore_placements ri c servers in
  forall s sv, get_srv s (c_servers cf) = Some sv ->
    vadd (s_free sv) (total (c_apps cf) (c_dim cf) (s_apps sv)) = s_cap sv /\
    nonneg (s_free sv) /\
    forall aff, cget aff (s_counters sv) = count_aff (c_apps cf) aff (s_apps sv).
Proof.
  intros HA HF HO. unfold restore_placements.
  assert (H : WA (recorded servers) (fst (restore_all ri c servers))).
  { apply WA_restore_all.
    - intros sr n Hs Hn. exists sr, n. auto.
    - split; [apply Acct_WAcct; exact HA|]. split; assumption. }
  destruct (restore_all ri c servers) as [c' restored]. cbn [fst] in H.
  apply (WA_dedup_cell _ restored) in H. destruct H as ([W1 W2 W3] & [A1 _ _] & _).
  intros s sv G. split; [exact (W3 s sv G)|]. split; [apply (W1 s sv G)|]. intros aff. exact (A1 s sv aff G).
Qed.

(** "healthy in both at its turns": a healthy node is a restored node *)
Lemma healthy_restored s p c n x0 c1 :
  get_app (sn_app n) (c_apps c) = Some x0 -> sched_verbatim p n = true ->
  srv_restore (clear_server c (sn_app n)) s (sn_app n) (Some (sn_expires n)) = (c1, true) ->
  restored (snd (restore_node s p true c n)) = true.
Proof.
  intros G V R. pose proof (restore_node_restore s p c n x0 c1 G V R) as H.
  destruct (restore_node s p true c n) as [c' act]. destruct H as [-> _]. reflexivity.
Qed.

Lemma restore_placements_duplicate_healthy_let c s1 srA s2 srB s3 preA nA postA preB nB postB xA cA1 xB cB1 :
  let A := sr_name srA in
  let B := sr_name srB in
  let a := sn_app nA in
  sr_nodes srA = preA ++ nA :: postA -> sr_nodes srB = preB ++ nB :: postB -> sn_app nB = a ->
  NoDup (map sn_app (sr_nodes srA)) -> NoDup (map sn_app (sr_nodes srB)) ->
  A <> B ->
  (forall sr, In sr (s1 ++ s2 ++ s3) -> ~ In a (map sn_app (sr_nodes sr))) ->
  apps_nodup c ->
  let cA := restore_nodes A (sr_presence srA) true (fst (restore_all true c s1)) preA in
  let cB := restore_nodes B (sr_presence srB) true (fst (restore_all true c (s1 ++ srA :: s2))) preB in
  get_app a (c_apps cA) = Some xA -> sched_verbatim (sr_presence srA) nA = true ->
  srv_restore (clear_server cA a) A a (Some (sn_expires nA)) = (cA1, true) ->
  get_app a (c_apps cB) = Some xB -> sched_verbatim (sr_presence srB) nB = true ->
  srv_restore (clear_server cB a) B a (Some (sn_expires nB)) = (cB1, true) ->
  let '(cf, restored, ws) := restore_placements true c (s1 ++ srA :: s2 ++ srB :: s3) in
  restored_on restored a = [A; B] /\
  (exists x, get_app a (c_apps cf) = Some x /\ a_server x = None /\ a_expiry x = None /\ a_evicted x = true) /\
  ~ listed cf A a /\ ~ listed cf B a /\
  (forall s, listed cf s a -> listed c s a) /\
  In (WDel A a) ws /\ In (WDel B a) ws.
Proof.
  intros A B a EA EB EnB NDA NDB AB UNREC ND0 cA cB GA VA RA GB VB RB.
  apply (restore_placements_duplicate_let true c s1 srA s2 srB s3 preA nA postA preB nB postB EA EB EnB NDA NDB AB UNREC ND0).
  - exact (healthy_restored A (sr_presence srA) cA nA xA cA1 GA VA RA).
  - fold B. fold cB. rewrite <- EnB in GB, RB. exact (healthy_restored B (sr_presence srB) cB nB xB cB1 GB VB RB).
Qed.


(** the same statements with the result of restore_placements named by an equation *)
Theorem restore_placements_duplicate ri c s1 srA s2 srB s3 preA nA postA preB nB postB :
  let A := sr_name srA in
  let B := sr_name srB in
  let a := sn_app nA in
  sr_nodes srA = preA ++ nA :: postA -> sr_nodes srB = preB ++ nB :: postB -> sn_app nB = a ->
  NoDup (map sn_app (sr_nodes srA)) -> NoDup (map sn_app (sr_nodes srB)) ->
  A <> B ->
  (forall sr, In sr (s1 ++ s2 ++ s3) -> ~ In a (map sn_app (sr_nodes sr))) ->
  apps_nodup c ->
  let cA := restore_nodes A (sr_presence srA) ri (fst (restore_all ri c s1)) preA in
  let cB := restore_nodes B (sr_presence srB) ri (fst (restore_all ri c (s1 ++ srA :: s2))) preB in
  restored (snd (restore_node A (sr_presence srA) ri cA nA)) = true ->
  restored (snd (restore_node B (sr_presence srB) ri cB nB)) = true ->
  forall cf rs ws, restore_placements ri c (s1 ++ srA :: s2 ++ srB :: s3) = (cf, rs, ws) ->
  restored_on rs a = [A; B] /\
  (exists x, get_app a (c_apps cf) = Some x /\ a_server x = None /\ a_expiry x = None /\ a_evicted x = true) /\
  ~ listed cf A a /\ ~ listed cf B a /\
  (forall s, listed cf s a -> listed c s a) /\
  In (WDel A a) ws /\ In (WDel B a) ws.
Proof.
  intros A B a EA EB EnB NDA NDB AB UNREC ND0 cA cB RA RB cf rs ws EQ.
  pose proof (restore_placements_duplicate_let ri c s1 srA s2 srB s3 preA nA postA preB nB postB
                EA EB EnB NDA NDB AB UNREC ND0 RA RB) as H.
  rewrite EQ in H. exact H.
Qed.

Theorem restore_placements_duplicate_healthy c s1 srA s2 srB s3 preA nA postA preB nB postB xA cA1 xB cB1 :
  let A := sr_name srA in
  let B := sr_name srB in
  let a := sn_app nA in
  sr_nodes srA = preA ++ nA :: postA -> sr_nodes srB = preB ++ nB :: postB -> sn_app nB = a ->
  NoDup (map sn_app (sr_nodes srA)) -> NoDup (map sn_app (sr_nodes srB)) ->
  A <> B ->
  (forall sr, In sr (s1 ++ s2 ++ s3) -> ~ In a (map sn_app (sr_nodes sr))) ->
  apps_nodup c ->
  let cA := restore_nodes A (sr_presence srA) true (fst (restore_all true c s1)) preA in
  let cB := restore_nodes B (sr_presence srB) true (fst (restore_all true c (s1 ++ srA :: s2))) preB in
  get_app a (c_apps cA) = Some xA -> sched_verbatim (sr_presence srA) nA = true ->
  srv_restore (clear_server cA a) A a (Some (sn_expires nA)) = (cA1, true) ->
  get_app a (c_apps cB) = Some xB -> sched_verbatim (sr_presence srB) nB = true ->
  srv_restore (clear_server cB a) B a (Some (sn_expires nB)) = (cB1, true) ->
  forall cf rs ws, restore_placements true c (s1 ++ srA :: s2 ++ srB :: s3) = (cf, rs, ws) ->
  restored_on rs a = [A; B] /\
  (exists x, get_app a (c_apps cf) = Some x /\ a_server x = None /\ a_expiry x = None /\ a_evicted x = true) /\
  ~ listed cf A a /\ ~ listed cf B a /\
  (forall s, listed cf s a -> listed c s a) /\
  In (WDel A a) ws /\ In (WDel B a) ws.
Proof.
  intros A B a EA EB EnB NDA NDB AB UNREC ND0 cA cB GA VA RA GB VB RB cf rs ws EQ.
  pose proof (restore_placements_duplicate_healthy_let c s1 srA s2 srB s3 preA nA postA preB nB postB xA cA1 xB cB1
                EA EB EnB NDA NDB AB UNREC ND0 GA VA RA GB VB RB) as H.
  rewrite EQ in H. exact H.
Qed.

Theorem restore_placements_accounting ri c servers :
  Acct c -> Aff c -> once_free_on (recorded servers) c ->
  forall cf rs ws, restore_placements ri c servers = (cf, rs, ws) ->
  forall s sv, get_srv s (c_servers cf) = Some sv ->
    vadd (s_free sv) (total (c_apps cf) (c_dim cf) (s_apps sv)) = s_cap sv /\
    nonneg (s_free sv) /\
    forall aff, cget aff (s_counters sv) = count_aff (c_apps cf) aff (s_apps sv).
Proof.
  intros HA HF HO cf rs ws EQ. pose proof (restore_placements_accounting_let ri c servers HA HF HO) as H.
  rewrite EQ in H. exact H.
Qed.
(** * The two-server data of Master/RestoreAllP.v: instance 2 is recorded under 1000 (expires 888) and 1001
    (expires 999).  Both nodes are restored; after the first loop both servers list it, the instance names 1001 with
    expiry 999, and each server has its demand deducted (free 100 = 300 - 2 x 100) and counts it (affinity counter 2;
    4 in the bucket above).  The duplicate pass deletes both nodes and takes it off both servers: it names no server,
    is marked evicted, and servers AND buckets are exactly what processing the same two servers without the two nodes
    of instance 2 gives.  (The same run on the real scheduler classes of /repo gives the same numbers.) *)
Example ax_duplicate_on_data :
  let c0 := fst (restore_all true ax_cell [ax_s0]) in
  let r := restore_all true ax_cell [ax_s0; ax_s1] in
  let '(cf, rs, ws) := restore_placements true ax_cell [ax_s0; ax_s1] in
  let '(cf', _, ws') := restore_placements true ax_cell [mkSR 1000 (Some 5) [mkSN 1 (Some 2) 777 9];
                                                         mkSR 1001 (Some 5) [mkSN 3 None 555 9]] in
  snd (restore_node 1000 (Some 5) true (restore_nodes 1000 (Some 5) true ax_cell [mkSN 1 (Some 2) 777 9])
                    (mkSN 2 None 888 9)) = RRestore 888 None /\
  ax_view c0 2 = Some (Some 1000, Some 888, None, false) /\
  snd (restore_node 1001 (Some 5) true c0 (mkSN 2 None 999 9)) = RRestore 999 None /\
  ax_view (fst r) 2 = Some (Some 1001, Some 999, None, false) /\
  ax_on (fst r) 1000 = Some ([1; 2], [100; 100; 100], [(3000, 2)]) /\
  ax_on (fst r) 1001 = Some ([2; 3], [100; 100; 100], [(3000, 2)]) /\
  map (fun b => (b_name b, b_free b, b_counters b)) (c_buckets (fst r)) = [(2000, [100; 100; 100], [(3000, 4)])] /\
  rs = snd r /\ restored_on rs 2 = [1000; 1001] /\
  ws = [WDel 1000 2; WDel 1001 2] /\
  ax_view cf 2 = Some (None, None, None, true) /\
  ax_on cf 1000 = Some ([1], [200; 200; 200], [(3000, 1)]) /\
  ax_on cf 1001 = Some ([3], [200; 200; 200], [(3000, 1)]) /\
  map (fun b => (b_name b, b_free b, b_counters b)) (c_buckets cf) = [(2000, [200; 200; 200], [(3000, 2)])] /\
  c_servers cf = c_servers cf' /\ c_buckets cf = c_buckets cf' /\ ws' = [] /\
  ax_view cf 1 = ax_view cf' 1 /\ ax_view cf 3 = ax_view cf' 3.
Proof. vm_compute. repeat split. Qed.

(** the theorems applied to the data (their hypotheses are satisfiable) *)
Lemma ax_AA : Acct ax_cell /\ Aff ax_cell.
Proof.
  apply (AA_run ax_ops (init_cell 3 2000 1)); [|apply AA_init]. apply wf_ops_affb_sound. vm_compute. reflexivity.
Qed.

Example ax_duplicate_applied :
  forall cf rs ws,
    restore_placements true ax_cell [ax_s0; ax_s1] = (cf, rs, ws) ->
    restored_on rs 2 = [1000; 1001] /\
    (exists x, get_app 2 (c_apps cf) = Some x /\ a_server x = None /\ a_expiry x = None /\ a_evicted x = true) /\
    ~ listed cf 1000 2 /\ ~ listed cf 1001 2 /\ In (WDel 1000 2) ws /\ In (WDel 1001 2) ws /\
    forall s sv, get_srv s (c_servers cf) = Some sv ->
      vadd (s_free sv) (total (c_apps cf) (c_dim cf) (s_apps sv)) = s_cap sv /\
      forall aff, cget aff (s_counters sv) = count_aff (c_apps cf) aff (s_apps sv).
Proof.
  intros cf rs ws EQ. destruct ax_AA as [HA HF].
  assert (ND0 : apps_nodup ax_cell) by (intros s sv G; exact (ac_nodup _ HA s sv G)).
  assert (NDA : NoDup (map sn_app (sr_nodes ax_s0))) by (change (NoDup [1; 2]); repeat constructor; cbn; intuition congruence).
  assert (NDB : NoDup (map sn_app (sr_nodes ax_s1))) by (change (NoDup [2; 3]); repeat constructor; cbn; intuition congruence).
  assert (AB : sr_name ax_s0 <> sr_name ax_s1) by (cbn; congruence).
  assert (UNREC : forall sr, In sr ([] ++ [] ++ []) -> ~ In (sn_app (mkSN 2 None 888 9)) (map sn_app (sr_nodes sr)))
    by (intros sr []).
  assert (RA : restored (snd (restore_node (sr_name ax_s0) (sr_presence ax_s0) true
                                (restore_nodes (sr_name ax_s0) (sr_presence ax_s0) true
                                               (fst (restore_all true ax_cell [])) [mkSN 1 (Some 2) 777 9])
                                (mkSN 2 None 888 9))) = true) by (vm_compute; reflexivity).
  assert (RB : restored (snd (restore_node (sr_name ax_s1) (sr_presence ax_s1) true
                                (restore_nodes (sr_name ax_s1) (sr_presence ax_s1) true
                                               (fst (restore_all true ax_cell ([] ++ ax_s0 :: []))) [])
                                (mkSN 2 None 999 9))) = true) by (vm_compute; reflexivity).
  assert (ONCE : once_free_on (recorded [ax_s0; ax_s1]) ax_cell).
  { intros m x _ G. assert (E : forallb (fun y => negb (a_once y)) (c_apps ax_cell) = true) by (vm_compute; reflexivity).
    rewrite forallb_forall in E. apply negb_true_iff. apply E. eapply get_app_In. exact G. }
  destruct (restore_placements_duplicate true ax_cell [] ax_s0 [] ax_s1 []
              [mkSN 1 (Some 2) 777 9] (mkSN 2 None 888 9) [] [] (mkSN 2 None 999 9) [mkSN 3 None 555 9]
              eq_refl eq_refl eq_refl NDA NDB AB UNREC ND0 RA RB cf rs ws EQ) as (H1 & H2 & H3 & H4 & _ & H6 & H7).
  pose proof (restore_placements_accounting true ax_cell [ax_s0; ax_s1] HA HF ONCE cf rs ws EQ) as K.
  split; [exact H1|]. split; [exact H2|]. split; [exact H3|]. split; [exact H4|]. split; [exact H6|]. split; [exact H7|].
  intros s sv G. destruct (K s sv G) as (K1 & _ & K3). split; assumption.
Qed.
