(** Proofs about Master/Handlers.v: the invariant "the store is the model" between publications.

    [PubInv m st]: every /placement/<s>/<a> node is the node the model stands for ([expected]: the instance is placed
    on <s>, data equal up to [psim m]) and every placed instance has its node.  It is kept by every hop that is
    well-formed and sound ([ok_op]); a restart establishes it from any store; it yields the two hypotheses of the
    publication theorems of PublishP at the next cycle; hence the published store equals the model after every cycle of
    every history of sound hops. *)
From Coq Require Import ZArith List Bool Lia.
From TM Require Import Master.Publish Master.PublishP Master.Handlers.
Import ListNotations.
Open Scope Z_scope.

(** * Similarity of node data *)
Lemma oeqb_refl o : oeqb o o = true.
Proof. destruct o; cbn; [apply Z.eqb_refl|reflexivity]. Qed.

Lemma psim_spec m d d' :
  psim m d d' = true <->
  match m with
  | Full => d = d'
  | Core => pd_identity d = pd_identity d' /\ pd_expires d = pd_expires d'
  end.
Proof.
  destruct m; cbn [psim].
  - split; [apply pdata_eqb_eq|intros ->; apply pdata_eqb_refl'].
  - rewrite andb_true_iff, !oeqb_eq. tauto.
Qed.

Lemma psim_refl m d : psim m d d = true.
Proof. apply psim_spec. destruct m; auto. Qed.

Lemma psim_trans m a b c : psim m a b = true -> psim m b c = true -> psim m a c = true.
Proof.
  rewrite !psim_spec. destruct m; [congruence|]. intros [H1 H2] [H3 H4]. split; congruence.
Qed.

Lemma psim_full_eq d d' : psim Full d d' = true -> d = d'.
Proof. intros H. apply (psim_spec Full) in H. exact H. Qed.

(** the node's data against the model's data with the node's own expiry put in *)
Lemma psim_own_expiry m sd d e :
  psim m sd d = true -> e = pd_expires sd -> psim m sd (set_expires d e) = true.
Proof.
  intros H ->. apply psim_spec in H. apply psim_spec. destruct m.
  - subst d. destruct sd; reflexivity.
  - destruct H as [H1 _]. cbn. auto.
Qed.

Lemma psim_set_count_core sd d n : psim Core sd (set_count d n) = psim Core sd d.
Proof. reflexivity. Qed.

Lemma osim_refl m x : osim m x x = true.
Proof. destruct x; cbn; [apply psim_refl|reflexivity]. Qed.

Lemma osim_none_r m x : osim m x None = true -> x = None.
Proof. destruct x; cbn; [discriminate|reflexivity]. Qed.

Lemma osim_some_r m x d : osim m x (Some d) = true -> exists sd, x = Some sd /\ psim m sd d = true.
Proof. destruct x as [sd|]; cbn; [|discriminate]. intros H. exists sd. auto. Qed.

(** * The instance table *)
Lemma view_amap g l a : view (amap g l) a = option_map (g a) (view l a).
Proof.
  unfold amap. induction l as [|[n v] l IH]; cbn [map view fst snd]; [reflexivity|].
  destruct (Z.eqb n a) eqn:E; [|exact IH]. apply Z.eqb_eq in E. subst. reflexivity.
Qed.

Lemma view_adrop a l a' : view (adrop a l) a' = if Z.eqb a a' then None else view l a'.
Proof.
  unfold adrop. induction l as [|[n v] l IH]; cbn [filter view fst].
  - destruct (Z.eqb a a'); reflexivity.
  - destruct (Z.eqb n a) eqn:E; cbn [negb].
    + rewrite IH. apply Z.eqb_eq in E. subst n. destruct (Z.eqb a a'); reflexivity.
    + cbn [view]. rewrite IH. destruct (Z.eqb n a') eqn:E2; [|reflexivity].
      apply Z.eqb_eq in E2. subst n. rewrite Z.eqb_sym, E. reflexivity.
Qed.

Lemma view_app l1 l2 a : view (l1 ++ l2) a = match view l1 a with Some v => Some v | None => view l2 a end.
Proof.
  induction l1 as [|[n v] l1 IH]; cbn [app view]; [reflexivity|]. destruct (Z.eqb n a); [reflexivity|exact IH].
Qed.

Lemma view_aset a v l a' :
  view (aset a v l) a' = match view l a' with Some v0 => Some (if Z.eqb a' a then v else v0) | None => None end.
Proof. unfold aset. rewrite view_amap. destruct (view l a'); reflexivity. Qed.

Lemma view_In l a v : view l a = Some v -> In (a, v) l.
Proof.
  induction l as [|[n v0] l IH]; cbn [view]; [discriminate|]. destruct (Z.eqb n a) eqn:E.
  - apply Z.eqb_eq in E. subst. intros H. inversion H. left. reflexivity.
  - intros H. right. apply IH. exact H.
Qed.

Lemma view_NoDup_In l a v : NoDup (map fst l) -> In (a, v) l -> view l a = Some v.
Proof.
  induction l as [|[n v0] l IH]; intros ND H; [contradiction|].
  cbn in ND. inversion ND as [|? ? Hn ND']; subst. cbn [view]. destruct H as [H|H].
  - inversion H; subst. rewrite Z.eqb_refl. reflexivity.
  - destruct (Z.eqb n a) eqn:E; [|apply IH; assumption].
    apply Z.eqb_eq in E. subst n. exfalso. apply Hn. change a with (fst (a, v)). apply in_map. exact H.
Qed.

(** * The invariant *)
Definition PubInv (m : mode) (st : hstate) : Prop :=
  forall s a, osim m (lookup (h_store st) s a) (expected (h_apps st) s a) = true.

(** per instance, on a table and a store *)
Definition G (m : mode) (l : apps) (st : store) (a : Z) : Prop :=
  forall s, osim m (lookup st s a) (expected l s a) = true.

Lemma PubInv_G m st : PubInv m st <-> forall a, G m (h_apps st) (h_store st) a.
Proof. unfold PubInv, G. split; intros H; [intros a s|intros s a]; apply H. Qed.

Lemma expected_view l l' a : view l' a = view l a -> forall s, expected l' s a = expected l s a.
Proof. intros H s. unfold expected. rewrite H. reflexivity. Qed.

Lemma G_ext m l st l' st' a :
  view l' a = view l a -> (forall s, lookup st' s a = lookup st s a) -> G m l st a -> G m l' st' a.
Proof. intros V L H s. rewrite L, (expected_view l l' a V). apply H. Qed.

Lemma PubInv_same m st st' :
  h_apps st' = h_apps st -> h_store st' = h_store st -> PubInv m st -> PubInv m st'.
Proof. intros A S H s a. rewrite A, S. apply H. Qed.

Lemma expected_placed l s a d : expected l s a = Some d -> view l a = Some (Some s, d).
Proof.
  unfold expected. destruct (view l a) as [[[s'|] d']|]; try discriminate.
  destruct (Z.eqb s' s) eqn:E; [|discriminate]. apply Z.eqb_eq in E. subst. intros H. inversion H. reflexivity.
Qed.

Lemma expected_of_view l s a sv d :
  view l a = Some (sv, d) -> expected l s a = if oeqb sv (Some s) then Some d else None.
Proof. unfold expected. intros ->. destruct sv as [s'|]; reflexivity. Qed.

Lemma expected_none_view l s a : view l a = None -> expected l s a = None.
Proof. unfold expected. intros ->. reflexivity. Qed.

Lemma has_placed m st s a : PubInv m st -> has (h_store st) s a = true -> exists d, view (h_apps st) a = Some (Some s, d).
Proof.
  intros I H. specialize (I s a). rewrite has_lookup in H.
  destruct (lookup (h_store st) s a) as [sd|]; [|discriminate].
  destruct (expected (h_apps st) s a) as [d|] eqn:E; [|discriminate]. exists d. apply expected_placed. exact E.
Qed.

(** soundness of the executable form *)
Lemma lookup_In st s a d : lookup st s a = Some d -> exists e, In e st /\ e_server e = s /\ e_app e = a /\ e_data e = d.
Proof.
  induction st as [|e st IH]; cbn [lookup]; [discriminate|]. destruct (key_is s a e) eqn:K.
  - intros H. inversion H. apply key_is_true in K as [K1 K2]. exists e. cbn. auto.
  - intros H. destruct (IH H) as [e' [I R]]. exists e'. split; [right; exact I|exact R].
Qed.

Lemma pubinvb_sound m st : pubinvb m st = true -> PubInv m st.
Proof.
  unfold pubinvb. intros H. apply andb_true_iff in H as [H1 H2]. rewrite forallb_forall in H1, H2. intros s a.
  destruct (lookup (h_store st) s a) as [sd|] eqn:L.
  - destruct (lookup_In _ _ _ _ L) as [e [I [E1 [E2 _]]]]. specialize (H1 e I). rewrite E1, E2, L in H1. exact H1.
  - destruct (expected (h_apps st) s a) as [d|] eqn:E; [|reflexivity].
    apply expected_placed in E. pose proof (view_In _ _ _ E) as I. specialize (H2 _ I). cbn [fst] in H2.
    rewrite E, L in H2. exact H2.
Qed.

(** * Store edits *)
Lemma lookup_sdel_other s a st s' a' : a <> a' -> lookup (sdel s a st) s' a' = lookup st s' a'.
Proof.
  intros N. rewrite lookup_sdel. destruct (same_key s a s' a') eqn:K; [|reflexivity].
  apply same_key_true in K as [_ K]. contradiction.
Qed.

Lemma lookup_sdel_same s a st s' :
  lookup (sdel s a st) s' a = if Z.eqb s s' then None else lookup st s' a.
Proof. rewrite lookup_sdel. unfold same_key. rewrite Z.eqb_refl, andb_true_r. reflexivity. Qed.

Lemma lookup_drop_server s st s' a :
  lookup (filter (fun e => negb (Z.eqb (e_server e) s)) st) s' a = if Z.eqb s s' then None else lookup st s' a.
Proof.
  induction st as [|e st IH]; cbn [filter lookup].
  - destruct (Z.eqb s s'); reflexivity.
  - destruct (Z.eqb (e_server e) s) eqn:E; cbn [negb].
    + rewrite IH. apply Z.eqb_eq in E. destruct (Z.eqb s s') eqn:E2; [reflexivity|].
      unfold key_is. rewrite E, (Z.eqb_sym s s') in *. rewrite E2. reflexivity.
    + cbn [lookup]. rewrite IH. destruct (key_is s' a e) eqn:K; [|reflexivity].
      apply key_is_true in K as [K _]. rewrite K in E. rewrite (Z.eqb_sym s s'), E. reflexivity.
Qed.

Lemma no_entries_lookup s st a : no_entries_under s st = true -> lookup st s a = None.
Proof.
  unfold no_entries_under. induction st as [|e st IH]; cbn [forallb lookup]; [reflexivity|].
  intros H. apply andb_true_iff in H as [H1 H2]. destruct (key_is s a e) eqn:K; [|apply IH; exact H2].
  apply key_is_true in K as [K _]. rewrite K, Z.eqb_refl in H1. discriminate.
Qed.

Lemma lookup_dels_none dels : forall st s a,
  lookup st s a = None -> lookup (fold_left (fun acc p => sdel (fst p) (snd p) acc) dels st) s a = None.
Proof.
  induction dels as [|p dels IH]; intros st s a H; cbn [fold_left]; [exact H|].
  apply IH. rewrite lookup_sdel. destruct (same_key _ _ _ _); [reflexivity|exact H].
Qed.

(** * Server.remove of every instance of a server *)
Lemma expected_unplace s l s' a :
  expected (amap (unplace s) l) s' a =
  match view l a with
  | Some (Some s0, d) => if Z.eqb s0 s then None else if Z.eqb s0 s' then Some d else None
  | _ => None
  end.
Proof.
  unfold expected. rewrite view_amap. destruct (view l a) as [[[s0|] d]|]; cbn [option_map]; try reflexivity.
  unfold unplace. cbn [fst snd oeqb]. destruct (Z.eqb s0 s); reflexivity.
Qed.

Lemma view_unplace_twice s l a : view (amap (unplace s) (amap (unplace s) l)) a = view (amap (unplace s) l) a.
Proof.
  rewrite !view_amap. destruct (view l a) as [v|]; [|reflexivity]. cbn [option_map]. f_equal.
  unfold unplace. destruct (oeqb (fst v) (Some s)) eqn:E; cbn [fst oeqb]; [reflexivity|]. rewrite E. reflexivity.
Qed.

Lemma placed_any_view s l a d : view l a = Some (Some s, d) -> placed_any s l = true.
Proof.
  intros H. apply view_In in H. unfold placed_any. apply existsb_exists. exists (a, (Some s, d)).
  split; [exact H|]. cbn. apply Z.eqb_refl.
Qed.

(** what Loader.restore_placement finds for an instance that sat on the server: no server, its node under <s> (and
    nowhere else) with data similar to the model's once the node's own expiry is put back, and a decision that does not
    invent a new expiry *)
Definition P (m : mode) (s : Z) (outs : list (Z * rout)) (l : apps) (st : store) (a : Z) : Prop :=
  exists d sd,
    view l a = Some (None, d) /\ lookup st s a = Some sd /\
    psim m sd (set_expires d (pd_expires sd)) = true /\
    (forall s', s' <> s -> lookup st s' a = None) /\
    match decide outs a with RPlaced ex => ex = pd_expires sd | _ => True end.

Lemma P_ext m s outs l st l' st' a :
  view l' a = view l a -> (forall s', lookup st' s' a = lookup st s' a) -> P m s outs l st a -> P m s outs l' st' a.
Proof.
  intros V L [d [sd [H1 [H2 [H3 [H4 H5]]]]]]. exists d, sd. rewrite V, !L. repeat split; try assumption.
  intros s' N. rewrite L. apply H4. exact N.
Qed.

Definition reload_sound (s : Z) (outs : list (Z * rout)) (st : store) : bool :=
  forallb (fun e => negb (Z.eqb (e_server e) s)
                    || match decide outs (e_app e) with
                       | RPlaced ex => oeqb ex (pd_expires (e_data e))
                       | _ => true
                       end) st.

Lemma unplace_cases m s outs st a :
  PubInv m st -> reload_sound s outs (h_store st) = true ->
  (lookup (h_store st) s a = None /\ G m (amap (unplace s) (h_apps st)) (h_store st) a) \/
  ((exists d, view (h_apps st) a = Some (Some s, d)) /\ P m s outs (amap (unplace s) (h_apps st)) (h_store st) a).
Proof.
  intros I S.
  destruct (view (h_apps st) a) as [[[s0|] d]|] eqn:V.
  - destruct (Z.eqb s0 s) eqn:E.
    + apply Z.eqb_eq in E. subst s0. right. split; [exists d; reflexivity|].
      pose proof (I s a) as Is. rewrite (expected_of_view _ s a _ _ V) in Is. cbn [oeqb] in Is. rewrite Z.eqb_refl in Is.
      apply osim_some_r in Is as [sd [L Ps]].
      exists (set_expires d None), sd. split.
      { rewrite view_amap, V. cbn [option_map]. unfold unplace. cbn [fst snd oeqb]. rewrite Z.eqb_refl. reflexivity. }
      split; [exact L|]. split.
      { apply (psim_own_expiry m sd d (pd_expires sd) Ps eq_refl). }
      split.
      { intros s' N. pose proof (I s' a) as Is'. rewrite (expected_of_view _ s' a _ _ V) in Is'. cbn [oeqb] in Is'.
        destruct (Z.eqb s s') eqn:E; [apply Z.eqb_eq in E; congruence|]. apply osim_none_r in Is'. exact Is'. }
      { destruct (decide outs a) as [|ex|] eqn:D; try exact Logic.I.
        destruct (lookup_In _ _ _ _ L) as [e [Ie [E1 [E2 E3]]]].
        unfold reload_sound in S. rewrite forallb_forall in S. specialize (S e Ie).
        rewrite E1, E2, E3, Z.eqb_refl, D in S. cbn in S. apply oeqb_eq in S. exact S. }
    + left. split.
      * pose proof (I s a) as Is. rewrite (expected_of_view _ s a _ _ V) in Is. cbn [oeqb] in Is. rewrite E in Is.
        apply osim_none_r in Is. exact Is.
      * intros s'. rewrite expected_unplace, V, E. pose proof (I s' a) as Is'.
        rewrite (expected_of_view _ s' a _ _ V) in Is'. exact Is'.
  - left. split.
    + pose proof (I s a) as Is. rewrite (expected_of_view _ s a _ _ V) in Is. apply osim_none_r in Is. exact Is.
    + intros s'. rewrite expected_unplace, V. pose proof (I s' a) as Is'.
      rewrite (expected_of_view _ s' a _ _ V) in Is'. exact Is'.
  - left. split.
    + pose proof (I s a) as Is. rewrite (expected_none_view _ s a V) in Is. apply osim_none_r in Is. exact Is.
    + intros s'. rewrite expected_unplace, V. pose proof (I s' a) as Is'.
      rewrite (expected_none_view _ s' a V) in Is'. exact Is'.
Qed.

(** * One child of /placement/<s> *)
Lemma remove_app_frame a st a' :
  a <> a' ->
  view (h_apps (remove_app a st)) a' = view (h_apps st) a' /\
  forall s', lookup (h_store (remove_app a st)) s' a' = lookup (h_store st) s' a'.
Proof.
  intros N. unfold remove_app. destruct (view (h_apps st) a) as [[sv d]|]; [|split; reflexivity].
  cbn [h_apps h_store]. split.
  - rewrite view_adrop. apply Z.eqb_neq in N. rewrite N. reflexivity.
  - intros s'. destruct sv as [s|]; [apply lookup_sdel_other; exact N|reflexivity].
Qed.

Lemma restore_one_frame s outs st a a' :
  a <> a' ->
  view (h_apps (restore_one s outs st a)) a' = view (h_apps st) a' /\
  forall s', lookup (h_store (restore_one s outs st a)) s' a' = lookup (h_store st) s' a'.
Proof.
  intros N. assert (N' : Z.eqb a' a = false) by (apply Z.eqb_neq; congruence).
  unfold restore_one. destruct (view (h_apps st) a) as [[sv d]|].
  - destruct (lookup (h_store st) s a) as [sd|]; [|split; reflexivity].
    assert (VS : forall v, view (aset a v (h_apps st)) a' = view (h_apps st) a').
    { intros v. rewrite view_aset, N'. destruct (view (h_apps st) a'); reflexivity. }
    destruct (decide outs a) as [|ex|kept once]; cbn [h_apps h_store].
    + split; [apply VS|reflexivity].
    + split; [apply VS|reflexivity].
    + set (st1 := mkH _ _ _).
      assert (F1 : view (h_apps st1) a' = view (h_apps st) a' /\
                   forall s', lookup (h_store st1) s' a' = lookup (h_store st) s' a').
      { unfold st1. cbn [h_apps h_store]. split; [apply VS|]. intros s'. apply lookup_sdel_other. exact N. }
      destruct once; [|exact F1].
      destruct (remove_app_frame a st1 a' N) as [R1 R2]. destruct F1 as [F1 F2]. split; [congruence|].
      intros s'. rewrite R2. apply F2.
  - cbn [h_apps h_store]. split; [reflexivity|]. intros s'. apply lookup_sdel_other. exact N.
Qed.

Lemma restore_one_establishes m s outs st a :
  P m s outs (h_apps st) (h_store st) a ->
  G m (h_apps (restore_one s outs st a)) (h_store (restore_one s outs st a)) a.
Proof.
  intros [d [sd [V [L [Ps [Others D]]]]]]. unfold restore_one. rewrite V, L.
  assert (OK : forall e, e = pd_expires sd ->
               G m (aset a (Some s, set_expires d e) (h_apps st)) (h_store st) a).
  { intros e -> s'. rewrite (expected_of_view _ s' a (Some s) (set_expires d (pd_expires sd))).
    2:{ rewrite view_aset, V, Z.eqb_refl. reflexivity. }
    cbn [oeqb]. destruct (Z.eqb s s') eqn:E.
    - apply Z.eqb_eq in E. subst s'. rewrite L. exact Ps.
    - rewrite Others; [reflexivity|]. apply Z.eqb_neq in E. congruence. }
  destruct (decide outs a) as [|ex|kept once]; cbn [h_apps h_store].
  - apply OK. reflexivity.
  - apply OK. exact D.
  - set (d1 := set_expires d (if kept then pd_expires sd else pd_expires d)).
    set (st1 := mkH (aset a (None, d1) (h_apps st)) (h_servers st) (sdel s a (h_store st))).
    assert (V1 : view (h_apps st1) a = Some (None, d1)).
    { unfold st1. cbn [h_apps]. rewrite view_aset, V, Z.eqb_refl. reflexivity. }
    assert (L1 : forall s', lookup (h_store st1) s' a = None).
    { intros s'. unfold st1. cbn [h_store]. rewrite lookup_sdel_same. destruct (Z.eqb s s') eqn:E; [reflexivity|].
      apply Others. apply Z.eqb_neq in E. congruence. }
    destruct once.
    + unfold remove_app. rewrite V1. cbn [h_apps h_store]. intros s'. rewrite L1.
      rewrite expected_none_view; [reflexivity|]. rewrite view_adrop, Z.eqb_refl. reflexivity.
    + intros s'. rewrite L1, (expected_of_view _ s' a _ _ V1). reflexivity.
Qed.

Lemma NoDup_nodup_z l : NoDup (nodup_z l).
Proof.
  induction l as [|x l IH]; cbn [nodup_z]; constructor.
  - intros H. apply filter_In in H as [_ H]. rewrite Z.eqb_refl in H. discriminate.
  - apply NoDup_filter. exact IH.
Qed.

Lemma restore_loop m s outs todo : forall st,
  NoDup todo ->
  (forall a, In a todo -> P m s outs (h_apps st) (h_store st) a) ->
  (forall a, ~ In a todo -> G m (h_apps st) (h_store st) a) ->
  forall a, G m (h_apps (fold_left (restore_one s outs) todo st)) (h_store (fold_left (restore_one s outs) todo st)) a.
Proof.
  induction todo as [|a0 r IH]; intros st ND HP HG a; cbn [fold_left].
  - apply HG. intros [].
  - inversion ND as [|? ? Hn ND']; subst. apply IH; [exact ND'| |].
    + intros a1 H1. assert (N : a0 <> a1) by (intros ->; contradiction).
      destruct (restore_one_frame s outs st a0 a1 N) as [F1 F2].
      apply (P_ext m s outs (h_apps st) (h_store st)); [exact F1|exact F2|]. apply HP. right. exact H1.
    + intros a1 H1. destruct (Z.eq_dec a0 a1) as [->|N].
      * apply restore_one_establishes. apply HP. left. reflexivity.
      * destruct (restore_one_frame s outs st a0 a1 N) as [F1 F2].
        apply (G_ext m (h_apps st) (h_store st)); [exact F1|exact F2|]. apply HG. intros [H|H]; [contradiction|contradiction].
Qed.

Lemma load_server_apps s st : h_apps (load_server s st) = h_apps st.
Proof. unfold load_server. destruct (zmem s (h_servers st)); reflexivity. Qed.
Lemma load_server_store s st : h_store (load_server s st) = h_store st.
Proof. unfold load_server. destruct (zmem s (h_servers st)); reflexivity. Qed.

Lemma in_listing st s a : In a (listing st s) <-> has st s a = true.
Proof. rewrite <- zmem_listing. symmetry. apply zmem_In. Qed.

Lemma reload_server_keeps m s outs st :
  PubInv m st -> reload_sound s outs (h_store st) = true -> PubInv m (reload_server s outs st).
Proof.
  intros I S. unfold reload_server. destruct (zmem s (h_servers st)) eqn:Z.
  2:{ apply (PubInv_same m st); [apply load_server_apps|apply load_server_store|exact I]. }
  unfold remove_server. rewrite Z.
  set (st0 := mkH (amap (unplace s) (h_apps st)) (filter (fun x => negb (Z.eqb x s)) (h_servers st)) (h_store st)).
  assert (A1 : h_apps (load_server s st0) = amap (unplace s) (h_apps st)) by (rewrite load_server_apps; reflexivity).
  assert (S1 : h_store (load_server s st0) = h_store st) by (rewrite load_server_store; reflexivity).
  destruct (placed_any s (h_apps st)) eqn:HA.
  - apply PubInv_G. unfold restore_placement. rewrite A1, S1.
    apply restore_loop; [apply NoDup_nodup_z| |].
    + intros a H. apply in_nodup_z, in_listing in H. cbn [h_apps h_store].
      destruct (unplace_cases m s outs st a I S) as [[L _]|[_ HP]].
      * rewrite has_lookup, L in H. discriminate.
      * apply (P_ext m s outs (amap (unplace s) (h_apps st)) (h_store st)); [apply view_unplace_twice|reflexivity|exact HP].
    + intros a H. cbn [h_apps h_store].
      destruct (unplace_cases m s outs st a I S) as [[_ HG]|[_ HP]].
      * apply (G_ext m (amap (unplace s) (h_apps st)) (h_store st)); [apply view_unplace_twice|reflexivity|exact HG].
      * exfalso. apply H. apply in_nodup_z, in_listing. destruct HP as [d [sd [_ [L _]]]]. rewrite has_lookup, L. reflexivity.
  - apply PubInv_G. rewrite A1, S1. intros a.
    destruct (unplace_cases m s outs st a I S) as [[_ HG]|[[d V] _]]; [exact HG|].
    rewrite (placed_any_view s _ a d V) in HA. discriminate.
Qed.

(** * The other handlers *)
Lemma load_app_keeps m a st : PubInv m st -> PubInv m (load_app a st).
Proof.
  intros I. unfold load_app. destruct (view (h_apps st) a) eqn:V; [exact I|].
  intros s a'. cbn [h_apps h_store]. specialize (I s a').
  replace (expected (h_apps st ++ [(a, (None, no_pdata))]) s a') with (expected (h_apps st) s a'); [exact I|].
  unfold expected. rewrite view_app. destruct (view (h_apps st) a') as [v|]; [reflexivity|].
  cbn [view]. destruct (Z.eqb a a'); reflexivity.
Qed.

Lemma remove_app_keeps m a st : PubInv m st -> PubInv m (remove_app a st).
Proof.
  intros I. apply PubInv_G. intros a'. destruct (Z.eq_dec a a') as [<-|N].
  - unfold remove_app. destruct (view (h_apps st) a) as [[sv d]|] eqn:V; [|apply PubInv_G; exact I].
    cbn [h_apps h_store]. intros s'. rewrite expected_none_view by (rewrite view_adrop, Z.eqb_refl; reflexivity).
    assert (O : forall s1, sv <> Some s1 -> lookup (h_store st) s1 a = None).
    { intros s1 N1. pose proof (I s1 a) as I1. rewrite (expected_of_view _ s1 a _ _ V) in I1.
      destruct (oeqb sv (Some s1)) eqn:E; [apply oeqb_eq in E; contradiction|]. apply osim_none_r in I1. exact I1. }
    destruct sv as [s|].
    + rewrite lookup_sdel_same. destruct (Z.eqb s s') eqn:E; [reflexivity|].
      rewrite O; [reflexivity|]. apply Z.eqb_neq in E. congruence.
    + rewrite O; [reflexivity|discriminate].
  - destruct (remove_app_frame a st a' N) as [F1 F2].
    apply (G_ext m (h_apps st) (h_store st)); [exact F1|exact F2|]. apply PubInv_G. exact I.
Qed.

Lemma server_deleted_keeps m s st :
  PubInv m st -> zmem s (h_servers st) || no_entries_under s (h_store st) = true ->
  PubInv m (remove_server s (api_delete s st)).
Proof.
  intros I S. unfold remove_server, api_delete. cbn [h_servers h_apps h_store].
  destruct (zmem s (h_servers st)).
  - intros s' a. cbn [h_apps h_store]. rewrite lookup_drop_server, expected_unplace. specialize (I s' a).
    destruct (view (h_apps st) a) as [[[s0|] d]|] eqn:V.
    + rewrite (expected_of_view _ s' a _ _ V) in I. cbn [oeqb] in I.
      destruct (Z.eqb s0 s) eqn:E0.
      * apply Z.eqb_eq in E0. subst s0. destruct (Z.eqb s s') eqn:E; [reflexivity|]. exact I.
      * destruct (Z.eqb s s') eqn:E; [|exact I]. apply Z.eqb_eq in E. subst s'. rewrite E0. reflexivity.
    + rewrite (expected_of_view _ s' a _ _ V) in I. cbn [oeqb] in I. apply osim_none_r in I. rewrite I.
      destruct (Z.eqb s s'); reflexivity.
    + rewrite (expected_none_view _ s' a V) in I. apply osim_none_r in I. rewrite I. destruct (Z.eqb s s'); reflexivity.
  - cbn [orb] in S. intros s' a. cbn [h_apps h_store]. rewrite lookup_drop_server. specialize (I s' a).
    destruct (Z.eqb s s') eqn:E; [|exact I]. apply Z.eqb_eq in E. subst s'.
    rewrite (no_entries_lookup s _ a S) in I. exact I.
Qed.

Lemma remove_server_keeps m s st :
  PubInv m st -> no_entries_under s (h_store st) = true -> PubInv m (remove_server s st).
Proof.
  intros I S. unfold remove_server. destruct (zmem s (h_servers st)); [|exact I].
  intros s' a. cbn [h_apps h_store]. rewrite expected_unplace. pose proof (I s' a) as I'.
  destruct (view (h_apps st) a) as [[[s0|] d]|] eqn:V.
  - rewrite (expected_of_view _ s' a _ _ V) in I'. cbn [oeqb] in I'. destruct (Z.eqb s0 s) eqn:E; [|exact I'].
    apply Z.eqb_eq in E. subst s0. exfalso.
    pose proof (I s a) as Is. rewrite (expected_of_view _ s a _ _ V) in Is. cbn [oeqb] in Is.
    rewrite Z.eqb_refl, (no_entries_lookup s _ a S) in Is. discriminate.
  - rewrite (expected_of_view _ s' a _ _ V) in I'. exact I'.
  - rewrite (expected_none_view _ s' a V) in I'. exact I'.
Qed.

Lemma api_delete_keeps m s st :
  PubInv m st -> no_entries_under s (h_store st) = true -> PubInv m (api_delete s st).
Proof.
  intros I S s' a. unfold api_delete. cbn [h_apps h_store]. rewrite lookup_drop_server. specialize (I s' a).
  destruct (Z.eqb s s') eqn:E; [|exact I]. apply Z.eqb_eq in E. subst s'.
  rewrite (no_entries_lookup s _ a S) in I. exact I.
Qed.

Definition group_sound (m : mode) (members : list Z) (n : Z) (l : apps) : bool :=
  match m with
  | Core => true
  | Full => forallb (fun p => negb (zmem (fst p) members && is_some (pd_identity (snd (snd p)))
                                     && is_some (fst (snd p)))
                              || oeqb (pd_count (snd (snd p))) (Some n)) l
  end.

Lemma group_count_keeps m members n st :
  PubInv m st -> group_sound m members n (h_apps st) = true -> PubInv m (group_count members n st).
Proof.
  intros I S s a. unfold group_count. cbn [h_apps h_store]. specialize (I s a).
  unfold expected in *. rewrite view_amap. destruct (view (h_apps st) a) as [[sv d]|] eqn:V; [|exact I].
  cbn [option_map fst snd]. destruct (zmem a members && is_some (pd_identity d)) eqn:C; [|exact I].
  destruct sv as [s0|]; [|exact I]. destruct (Z.eqb s0 s); [|exact I].
  destruct (lookup (h_store st) s a) as [sd|]; [|exact I]. cbn [osim] in *.
  destruct m; [|exact I].
  cbn [group_sound] in S. rewrite forallb_forall in S. specialize (S _ (view_In _ _ _ V)). cbn [fst snd] in S.
  rewrite C in S. cbn in S. apply oeqb_eq in S.
  replace (set_count d (Some n)) with d; [exact I|]. destruct d; cbn in *. subst. reflexivity.
Qed.

(** * A cycle *)
Lemma filter_idem {A} (f : A -> bool) l : filter f (filter f l) = filter f l.
Proof.
  induction l as [|x l IH]; cbn; [reflexivity|]. destruct (f x) eqn:E; cbn; [rewrite E, IH; reflexivity|exact IH].
Qed.

Lemma reschedule_writes_changed_only c tuples i once :
  reschedule_writes c (filter (changed c) tuples) i once = reschedule_writes c tuples i once.
Proof.
  unfold reschedule_writes. apply flat_map_ext. intros p. destruct p; cbn [phase_writes]; try reflexivity;
    rewrite filter_idem; reflexivity.
Qed.

Lemma NoDup_map_filter {A} (g : A -> Z) (f : A -> bool) l : NoDup (map g l) -> NoDup (map g (filter f l)).
Proof.
  induction l as [|x l IH]; cbn; intros H; [constructor|]. inversion H as [|? ? Hn ND]; subst.
  destruct (f x); [|apply IH; exact ND]. cbn. constructor; [|apply IH; exact ND].
  intros C. apply Hn. apply in_map_iff in C as [y [E Hy]]. apply filter_In in Hy as [Hy _].
  rewrite <- E. apply in_map. exact Hy.
Qed.

(** Master.reschedule touches the nodes of the instances the cycle reports as changed and nothing else
    (PublishP.resched_final applied to the changed tuples alone: its hypothesis about unchanged instances is void) *)
Theorem resched_frame c tuples i once st :
  cfg_canonical c = true ->
  NoDup (map t_name tuples) ->
  within_before tuples st ->
  let final := apply_writes st (reschedule_writes c tuples i once) in
  (forall t, In t tuples -> changed canonical_cfg t = true -> forall s,
     lookup final s (t_name t) = if oeqb (t_sa t) (Some s) then Some (get_info i (t_name t)) else None) /\
  (forall t, In t tuples -> changed canonical_cfg t = false -> forall s,
     lookup final s (t_name t) = lookup st s (t_name t)) /\
  (forall a, ~ In a (map t_name tuples) -> forall s, lookup final s a = lookup st s a).
Proof.
  intros C ND WB final. pose proof (cfg_canonical_eq c C) as Cq.
  set (ch := filter (changed c) tuples).
  assert (ND' : NoDup (map t_name ch)) by (apply NoDup_map_filter; exact ND).
  assert (WB' : within_before ch st).
  { intros t Ht. apply filter_In in Ht as [Ht _]. apply WB. exact Ht. }
  assert (UP' : unchanged_published ch i st).
  { intros t Ht Hc. apply filter_In in Ht as [_ Ht]. rewrite Cq in Ht. congruence. }
  destruct (resched_final c ch i once st C ND' WB' UP') as [F1 F2].
  unfold ch in F1, F2. rewrite reschedule_writes_changed_only in F1, F2. fold final in F1, F2.
  assert (Out : forall t, In t tuples -> changed canonical_cfg t = false -> ~ In (t_name t) (map t_name (filter (changed c) tuples))).
  { intros t Ht Hc Hin. apply in_map_iff in Hin as [t' [E Ht']]. apply filter_In in Ht' as [Ht' Hc'].
    assert (t' = t) by (exact (NoDup_map_inj t_name tuples t' t ND Ht' Ht E)). subst t'. rewrite Cq in Hc'. congruence. }
  split; [|split].
  - intros t Ht Hc s. apply F1. apply filter_In. split; [exact Ht|]. rewrite Cq. exact Hc.
  - intros t Ht Hc s. apply F2. apply Out; assumption.
  - intros a Ha s. apply F2. intros Hin. apply Ha. apply in_map_iff in Hin as [t [E Ht]].
    apply filter_In in Ht as [Ht _]. rewrite <- E. apply in_map. exact Ht.
Qed.

Lemma view_cycle_apps_none tuples i a : ~ In a (map t_name tuples) -> view (cycle_apps tuples i) a = None.
Proof.
  unfold cycle_apps. induction tuples as [|t r IH]; cbn [map view]; intros H; [reflexivity|].
  destruct (Z.eqb (t_name t) a) eqn:E.
  - apply Z.eqb_eq in E. exfalso. apply H. left. exact E.
  - apply IH. intros C. apply H. right. exact C.
Qed.

Lemma view_cycle_apps tuples i t :
  NoDup (map t_name tuples) -> In t tuples ->
  view (cycle_apps tuples i) (t_name t) = Some (t_sa t, get_info i (t_name t)).
Proof.
  intros ND Ht. apply view_NoDup_In.
  - unfold cycle_apps. rewrite map_map. cbn [fst]. exact ND.
  - unfold cycle_apps. apply in_map_iff. exists t. auto.
Qed.

Record cycle_facts (st : hstate) (tuples : list ptuple) (i : info) : Prop := mkCF {
  cf_nodup : NoDup (map t_name tuples);
  cf_before : forall t, In t tuples -> exists d,
      view (h_apps st) (t_name t) = Some (t_sb t, d) /\ pd_expires d = t_eb t /\
      (changed canonical_cfg t = false -> forall s, t_sb t = Some s -> d = get_info i (t_name t));
  cf_all : forall a v, view (h_apps st) a = Some v -> In a (map t_name tuples)
}.

Lemma cycle_wf_facts st tuples i : cycle_wf st tuples i = true -> cycle_facts st tuples i.
Proof.
  unfold cycle_wf. intros H. apply andb_true_iff in H as [H H3]. apply andb_true_iff in H as [H1 H2].
  rewrite forallb_forall in H2, H3. split.
  - apply nodupb_sound. exact H1.
  - intros t Ht. specialize (H2 t Ht). destruct (view (h_apps st) (t_name t)) as [[sv d]|]; [|discriminate].
    apply andb_true_iff in H2 as [H2 Hd]. apply andb_true_iff in H2 as [Hs He].
    apply oeqb_eq in Hs, He. subst sv. exists d. split; [reflexivity|]. split; [exact He|].
    intros Hc s SB. rewrite Hc, SB in Hd. cbn in Hd. apply pdata_eqb_eq. exact Hd.
  - intros a v V. apply view_In in V. specialize (H3 _ V). cbn [fst] in H3. apply zmem_In. exact H3.
Qed.

Lemma unchanged_same_server t : changed canonical_cfg t = false -> t_sb t = t_sa t.
Proof.
  unfold changed. cbn [cf_cmp_server cf_cmp_expiry canonical_cfg andb]. intros H.
  apply orb_false_iff in H as [H _]. apply negb_false_iff in H. apply oeqb_eq. exact H.
Qed.

(** the first hypothesis of the publication theorems *)
Lemma inv_within_before m st tuples i :
  PubInv m st -> cycle_facts st tuples i -> within_before tuples (h_store st).
Proof.
  intros I F t Ht s H. destruct (has_placed m st s (t_name t) I H) as [d V].
  destruct (cf_before _ _ _ F t Ht) as [d' [V' _]]. congruence.
Qed.

(** the second one *)
Lemma inv_unchanged_published st tuples i :
  PubInv Full st -> cycle_facts st tuples i -> unchanged_published tuples i (h_store st).
Proof.
  intros I F t Ht Hc s SB. destruct (cf_before _ _ _ F t Ht) as [d [V [_ D]]].
  specialize (I s (t_name t)). rewrite (expected_of_view _ s _ _ _ V), SB in I. cbn [oeqb] in I. rewrite Z.eqb_refl in I.
  apply osim_some_r in I as [sd [L Ps]]. apply psim_full_eq in Ps. rewrite L, Ps, (D Hc s SB). reflexivity.
Qed.

(** and the side condition of PublishP.resched_equals_model *)
Lemma inv_only_listed m st tuples i :
  PubInv m st -> cycle_facts st tuples i ->
  forall s a, has (h_store st) s a = true -> In a (map t_name tuples).
Proof. intros I F s a H. destruct (has_placed m st s a I H) as [d V]. exact (cf_all _ _ _ F a _ V). Qed.

Lemma cycle_keeps m c tuples i once st :
  cfg_canonical c = true -> PubInv m st -> cycle_wf st tuples i = true -> PubInv m (cycle c tuples i once st).
Proof.
  intros C I W. apply cycle_wf_facts in W. pose proof (cf_nodup _ _ _ W) as ND.
  destruct (resched_frame c tuples i once (h_store st) C ND (inv_within_before m st tuples i I W)) as [F1 [F2 F3]].
  intros s a. unfold cycle. cbn [h_apps h_store].
  destruct (in_dec Z.eq_dec a (map t_name tuples)) as [Hin|Hn].
  - apply in_map_iff in Hin as [t [<- Ht]].
    rewrite (expected_of_view _ s _ _ _ (view_cycle_apps tuples i t ND Ht)).
    destruct (changed canonical_cfg t) eqn:Hc.
    + rewrite (F1 t Ht Hc s). apply osim_refl.
    + rewrite (F2 t Ht Hc s). destruct (cf_before _ _ _ W t Ht) as [d [V [_ D]]].
      pose proof (I s (t_name t)) as Is. rewrite (expected_of_view _ s _ _ _ V) in Is.
      rewrite <- (unchanged_same_server t Hc). destruct (oeqb (t_sb t) (Some s)) eqn:E; [|exact Is].
      apply oeqb_eq in E. rewrite <- (D Hc s E). exact Is.
  - rewrite (F3 a Hn s), (expected_none_view _ s a (view_cycle_apps_none tuples i a Hn)).
    pose proof (I s a) as Is. destruct (view (h_apps st) a) as [v|] eqn:V.
    + exfalso. apply Hn. exact (cf_all _ _ _ W a v V).
    + rewrite (expected_none_view _ s a V) in Is. exact Is.
Qed.

(** the model's placement as a store *)
Lemma expected_cycle_model tuples i s a :
  NoDup (map t_name tuples) -> expected (cycle_apps tuples i) s a = lookup (model_entries i tuples) s a.
Proof.
  intros ND. destruct (in_dec Z.eq_dec a (map t_name tuples)) as [Hin|Hn].
  - apply in_map_iff in Hin as [t [<- Ht]].
    rewrite (expected_of_view _ s _ _ _ (view_cycle_apps tuples i t ND Ht)), (lookup_model_entries i tuples s t ND Ht).
    reflexivity.
  - rewrite (expected_none_view _ s a (view_cycle_apps_none tuples i a Hn)), (lookup_model_entries_none i tuples s a Hn).
    reflexivity.
Qed.

(** * check_placement_integrity writes nothing *)
Lemma nodup_pairs_snd m st pairs :
  PubInv m st -> nodup_pairs pairs = true -> forallb (fun p => has (h_store st) (fst p) (snd p)) pairs = true ->
  NoDup (map snd pairs).
Proof.
  intros I. induction pairs as [|p r IH]; cbn [nodup_pairs forallb map]; intros N H; [constructor|].
  apply andb_true_iff in N as [N1 N2]. apply andb_true_iff in H as [H1 H2]. constructor; [|apply IH; assumption].
  intros C. apply in_map_iff in C as [q [E Hq]].
  rewrite forallb_forall in H2. specialize (H2 q Hq).
  destruct (has_placed m st _ _ I H1) as [d1 V1]. destruct (has_placed m st _ _ I H2) as [d2 V2].
  rewrite E in V2. rewrite V1 in V2. inversion V2 as [[E1 E2]].
  apply negb_true_iff in N1. assert (X : existsb (fun q0 => Z.eqb (fst p) (fst q0) && Z.eqb (snd p) (snd q0)) r = true).
  { apply existsb_exists. exists q. split; [exact Hq|]. rewrite E1, E, !Z.eqb_refl. reflexivity. }
  congruence.
Qed.

Lemma integrity_keeps m c pairs st :
  PubInv m st -> wf_op st (HIntegrity pairs) = true -> integrity_step c pairs st = mkH (h_apps st) (h_servers st) (h_store st).
Proof.
  intros I W. cbn [wf_op] in W. apply andb_true_iff in W as [W1 W2].
  unfold integrity_step, integrity_writes.
  destruct (integrity_nodup (cf_integ_update c) (where_view (h_apps st)) (placed_pairs (h_apps st)) pairs
                            (nodup_pairs_snd m st pairs I W1 W2)) as [E _].
  rewrite E. reflexivity.
Qed.

(** * A restart establishes the invariant, whatever the store was *)
Lemma get_info_of l a : get_info (info_of l) a = match view l a with Some v => snd v | None => no_pdata end.
Proof.
  unfold info_of. induction l as [|[n v] l IH]; cbn [map get_info view fst snd]; [reflexivity|].
  destruct (Z.eqb n a); [reflexivity|exact IH].
Qed.

Lemma zmem_placed_on l s a :
  NoDup (map fst l) -> (zmem a (placed_on l s) = true <-> exists d, view l a = Some (Some s, d)).
Proof.
  intros ND. rewrite zmem_In. unfold placed_on. rewrite in_map_iff. split.
  - intros [[n [sv d]] [E H]]. cbn [fst] in E. subst n. apply filter_In in H as [H Hs]. cbn [fst snd] in Hs.
    apply oeqb_eq in Hs. subst sv. exists d. apply view_NoDup_In; assumption.
  - intros [d V]. exists (a, (Some s, d)). split; [reflexivity|]. apply filter_In. split; [apply view_In; exact V|].
    cbn. apply Z.eqb_refl.
Qed.

Lemma restart_establishes m c dels servers l st :
  cfg_canonical c = true ->
  wf_op st (HRestart dels servers l) = true ->
  forallb (fun e => zmem (e_server e) servers) (h_store st) = true ->
  PubInv m (restart c dels servers l st).
Proof.
  intros C W S. cbn [wf_op] in W. apply andb_true_iff in W as [W W3]. apply andb_true_iff in W as [W1 W2].
  apply nodupb_sound in W1, W2. rewrite forallb_forall in W3, S.
  unfold restart. set (st1 := fold_left _ dels (h_store st)).
  assert (NDm : NoDup (map fst (members_of servers l))).
  { unfold members_of. rewrite map_map. cbn [fst]. rewrite map_id. exact W1. }
  destruct (init_final c st1 (info_of l) (members_of servers l) C NDm) as [F1 F2].
  intros s a. cbn [h_apps h_store].
  destruct (in_dec Z.eq_dec s servers) as [Hs|Hs].
  - assert (Hm : In (s, placed_on l s) (members_of servers l)).
    { unfold members_of. apply in_map_iff. exists s. auto. }
    rewrite (F1 s _ Hm a). destruct (zmem a (placed_on l s)) eqn:Z.
    + apply (zmem_placed_on l s a W2) in Z as [d V]. rewrite get_info_of, V, (expected_of_view _ s a _ _ V).
      cbn [oeqb snd]. rewrite Z.eqb_refl. apply osim_refl.
    + destruct (expected l s a) as [d|] eqn:X; [|reflexivity]. apply expected_placed in X.
      assert (zmem a (placed_on l s) = true) by (apply (zmem_placed_on l s a W2); exists d; exact X). congruence.
  - assert (Hm : ~ In s (map fst (members_of servers l))).
    { unfold members_of. rewrite map_map. cbn [fst]. rewrite map_id. exact Hs. }
    rewrite (F2 s Hm a).
    assert (L : lookup st1 s a = None).
    { apply lookup_dels_none. destruct (lookup (h_store st) s a) as [sd|] eqn:L; [|reflexivity]. exfalso.
      destruct (lookup_In _ _ _ _ L) as [e [Ie [E1 _]]]. specialize (S e Ie). rewrite E1 in S.
      apply zmem_In in S. contradiction. }
    rewrite L. destruct (expected l s a) as [d|] eqn:X; [|reflexivity]. exfalso. apply expected_placed in X.
    specialize (W3 _ (view_In _ _ _ X)). cbn [fst snd] in W3. apply zmem_In in W3. contradiction.
Qed.

(** * Every sound hop keeps the invariant *)
Theorem hstep_keeps m c st op :
  cfg_canonical c = true -> PubInv m st -> ok_op m st op = true -> PubInv m (hstep c op st).
Proof.
  intros C I O. unfold ok_op in O. apply andb_true_iff in O as [W S].
  destruct op as [a|a|s|s|s|s|s|s outs|members n|tag|tuples i once|pairs|dels servers l]; cbn [hstep].
  - apply load_app_keeps. exact I.
  - apply remove_app_keeps. exact I.
  - apply (PubInv_same m st); [apply load_server_apps|apply load_server_store|exact I].
  - exact I.
  - apply remove_server_keeps; [exact I|exact S].
  - apply api_delete_keeps; [exact I|exact S].
  - apply server_deleted_keeps; [exact I|exact S].
  - apply reload_server_keeps; [exact I|exact S].
  - apply group_count_keeps; [exact I|]. cbn [sound_op] in S. destruct m; exact S.
  - exact I.
  - apply cycle_keeps; [exact C|exact I|exact W].
  - rewrite (integrity_keeps m c pairs st I W). intros s a. apply I.
  - apply restart_establishes; [exact C|exact W|exact S].
Qed.

Theorem restart_from_any_store m c dels servers l st :
  cfg_canonical c = true -> ok_op m st (HRestart dels servers l) = true -> PubInv m (hstep c (HRestart dels servers l) st).
Proof.
  intros C O. unfold ok_op in O. apply andb_true_iff in O as [W S]. apply restart_establishes; assumption.
Qed.

Lemma hrun_app c l1 l2 st : hrun c (l1 ++ l2) st = hrun c l2 (hrun c l1 st).
Proof. unfold hrun. apply fold_left_app. Qed.

Lemma all_ok_app m c l1 : forall l2 st, all_ok m c (l1 ++ l2) st = all_ok m c l1 st && all_ok m c l2 (hrun c l1 st).
Proof.
  induction l1 as [|op l1 IH]; intros l2 st; cbn [app all_ok]; [reflexivity|].
  rewrite IH, andb_assoc. reflexivity.
Qed.

(** all histories *)
Theorem hrun_keeps m c ops : forall st,
  cfg_canonical c = true -> PubInv m st -> all_ok m c ops st = true -> PubInv m (hrun c ops st).
Proof.
  induction ops as [|op ops IH]; intros st C I O; [exact I|].
  cbn [all_ok] in O. apply andb_true_iff in O as [O1 O2].
  change (hrun c (op :: ops) st) with (hrun c ops (hstep c op st)).
  apply IH; [exact C| |exact O2]. apply hstep_keeps; assumption.
Qed.

Theorem hrun_keeps_every_prefix m c pre post st :
  cfg_canonical c = true -> PubInv m st -> all_ok m c (pre ++ post) st = true -> PubInv m (hrun c pre st).
Proof.
  intros C I O. rewrite all_ok_app in O. apply andb_true_iff in O as [O _]. apply hrun_keeps; assumption.
Qed.

Lemma PubInv_h0 m : PubInv m h0.
Proof. intros s a. reflexivity. Qed.

(** a master's life starts with a restart: no assumption on the store it finds *)
Theorem hrun_from_restart m c dels servers l ops st :
  cfg_canonical c = true -> all_ok m c (HRestart dels servers l :: ops) st = true ->
  PubInv m (hrun c (HRestart dels servers l :: ops) st).
Proof.
  intros C O. cbn [all_ok] in O. apply andb_true_iff in O as [O1 O2].
  change (hrun c (HRestart dels servers l :: ops) st) with (hrun c ops (hstep c (HRestart dels servers l) st)).
  apply hrun_keeps; [exact C| |exact O2]. apply restart_from_any_store; assumption.
Qed.

(** the hypotheses of the publication theorems hold at the next cycle *)
Theorem next_cycle_hypotheses c pre tuples i once post st :
  cfg_canonical c = true -> PubInv Full st -> all_ok Full c (pre ++ HCycle tuples i once :: post) st = true ->
  let before := h_store (hrun c pre st) in
  NoDup (map t_name tuples) /\ within_before tuples before /\ unchanged_published tuples i before /\
  (forall s a, has before s a = true -> In a (map t_name tuples)).
Proof.
  intros C I O before. rewrite all_ok_app in O. apply andb_true_iff in O as [O1 O2].
  cbn [all_ok] in O2. apply andb_true_iff in O2 as [O2 _]. unfold ok_op in O2. apply andb_true_iff in O2 as [W _].
  cbn [wf_op] in W. apply cycle_wf_facts in W.
  pose proof (hrun_keeps Full c pre st C I O1) as I'.
  split; [exact (cf_nodup _ _ _ W)|]. split; [exact (inv_within_before Full _ _ _ I' W)|].
  split; [exact (inv_unchanged_published _ _ _ I' W)|exact (inv_only_listed Full _ _ _ I' W)].
Qed.

(** published = model after every cycle of every history of sound hops: node by node, all three fields *)
Theorem published_equals_model_full c pre tuples i once post st :
  cfg_canonical c = true -> PubInv Full st -> all_ok Full c (pre ++ HCycle tuples i once :: post) st = true ->
  forall s a, lookup (h_store (hrun c (pre ++ [HCycle tuples i once]) st)) s a = lookup (model_entries i tuples) s a.
Proof.
  intros C I O s a.
  destruct (next_cycle_hypotheses c pre tuples i once post st C I O) as [ND [WB [UP Only]]].
  rewrite hrun_app. cbn [hrun fold_left hstep cycle h_store].
  apply resched_equals_model; assumption.
Qed.

(** the same for the fields the statement names, with identity-group resizes in the history *)
Theorem published_equals_model_core c pre tuples i once post st :
  cfg_canonical c = true -> PubInv Core st -> all_ok Core c (pre ++ HCycle tuples i once :: post) st = true ->
  forall s a, osim Core (lookup (h_store (hrun c (pre ++ [HCycle tuples i once]) st)) s a)
                        (lookup (model_entries i tuples) s a) = true.
Proof.
  intros C I O s a.
  assert (O' : all_ok Core c ((pre ++ [HCycle tuples i once]) ++ post) st = true) by (rewrite <- app_assoc; exact O).
  pose proof (hrun_keeps_every_prefix Core c _ post st C I O' s a) as H.
  rewrite all_ok_app in O. apply andb_true_iff in O as [_ O2]. cbn [all_ok] in O2. apply andb_true_iff in O2 as [O2 _].
  unfold ok_op in O2. apply andb_true_iff in O2 as [W _]. cbn [wf_op] in W. apply cycle_wf_facts in W.
  rewrite hrun_app in H |- *. cbn [hrun fold_left hstep cycle h_store h_apps] in H |- *.
  rewrite (expected_cycle_model tuples i s a (cf_nodup _ _ _ W)) in H. exact H.
Qed.

(** * What a defective hop leaves alone: an instance that does not sit on the server keeps its nodes and its data *)
Theorem remove_server_frame m s st a :
  PubInv m st -> (forall d, view (h_apps st) a <> Some (Some s, d)) ->
  G m (h_apps (remove_server s st)) (h_store (remove_server s st)) a.
Proof.
  intros I N. unfold remove_server. destruct (zmem s (h_servers st)); [|apply PubInv_G; exact I].
  cbn [h_apps h_store]. intros s'. rewrite expected_unplace. pose proof (I s' a) as I'.
  destruct (view (h_apps st) a) as [[[s0|] d]|] eqn:V.
  - rewrite (expected_of_view _ s' a _ _ V) in I'. cbn [oeqb] in I'. destruct (Z.eqb s0 s) eqn:E; [|exact I'].
    apply Z.eqb_eq in E. subst s0. exfalso. exact (N d eq_refl).
  - rewrite (expected_of_view _ s' a _ _ V) in I'. exact I'.
  - rewrite (expected_none_view _ s' a V) in I'. exact I'.
Qed.
