(** Proofs about Master/RestoreAll.v: the composition of the per-server reload (Master/RestoreSchedP.v) over
    Loader.servers (the part of C11 that used to be covered by the oracle only).

    PROVED (all cells, all server lists, all node contents; exported by Props/C11.v under the names C11_...):
      C11_reload_all_servers          (a) a node healthy at its turn whose instance has no node under another server of
                                      the list is, after ALL servers, on its server with the recorded expiry and
                                      identity, and that server is the only one [integrity] lists for it;
                                      (b) an instance without any node is as before and listed nowhere;
                                      (c) [integrity] = one entry per server, listing exactly the restored nodes
      C11_reload_all_servers_later    (a) needs only that no LATER server records the instance
      C11_restore_all_is_fold, C11_restored_names_companion   restore_all / restore_nodes_names ARE the folds of
                                      restore_nodes / restore_node
      C11_restore_placements_healthy, C11_restore_placements_nothing_unrecorded   the same through the duplicate pass
                                      (in-memory Server.remove and the deletions)
      C11_reload_all_then_dedup       C11_duplicates_dropped applied to what the loop collected
      C11_remove_all_idle             the remove_all() opening restore_placement changes nothing during load_model
    The instance recorded under two servers (part (c) proper) is in Master/RestoreDupP.v. *)
From Coq Require Import ZArith QArith List Bool Lia.
From RecordUpdate Require Import RecordSet.
From TM Require Import Sched.Vec Sched.Types Sched.Queue Sched.Tree Sched.Cycle Sched.Events.
From TM Require Import Sched.Steps Sched.MapsP Sched.FrameP.
From TM Require Import Master.Publish Master.PublishP Master.Restore Master.RestoreP Master.RestoreSched Master.RestoreSchedP.
From TM Require Import Master.RestoreAll.
Import ListNotations.
Open Scope Z_scope.

(** * The companion that collects the restored names *)
Lemma rnn_acc s p ri ns : forall acc,
  fold_left (restore_node_step s p ri) ns acc =
  (fst (fold_left (restore_node_step s p ri) ns (fst acc, [])),
   snd acc ++ snd (fold_left (restore_node_step s p ri) ns (fst acc, []))).
Proof.
  induction ns as [|n ns IH]; intros [c l]; cbn [fold_left fst snd]; [rewrite app_nil_r; reflexivity|].
  unfold restore_node_step at 2 4 6. cbn [fst snd].
  destruct (restore_node s p ri c n) as [c' act]. rewrite IH. cbn [fst snd].
  rewrite (IH (c', [] ++ _)). cbn [fst snd Datatypes.app]. rewrite app_assoc. reflexivity.
Qed.

Lemma rnn_nil s p ri c : restore_nodes_names s p ri c [] = (c, []).
Proof. reflexivity. Qed.

Lemma rnn_cons s p ri c n ns :
  restore_nodes_names s p ri c (n :: ns) =
  let ca := restore_node s p ri c n in
  let r := restore_nodes_names s p ri (fst ca) ns in
  (fst r, (if restored (snd ca) then [sn_app n] else []) ++ snd r).
Proof.
  unfold restore_nodes_names. cbn [fold_left]. unfold restore_node_step at 2. cbn [fst snd].
  destruct (restore_node s p ri c n) as [c' act]. rewrite rnn_acc. cbn [fst snd Datatypes.app]. reflexivity.
Qed.

(** the cell component IS restore_nodes *)
Lemma rnn_fst s p ri ns : forall c, fst (restore_nodes_names s p ri c ns) = restore_nodes s p ri c ns.
Proof.
  induction ns as [|n ns IH]; intros c; [reflexivity|]. rewrite rnn_cons. cbn [fst]. rewrite IH. reflexivity.
Qed.

Lemma restore_nodes_app s p ri c l1 l2 :
  restore_nodes s p ri c (l1 ++ l2) = restore_nodes s p ri (restore_nodes s p ri c l1) l2.
Proof. unfold restore_nodes. apply fold_left_app. Qed.

Lemma rnn_app s p ri l1 : forall c l2,
  restore_nodes_names s p ri c (l1 ++ l2) =
  (fst (restore_nodes_names s p ri (restore_nodes s p ri c l1) l2),
   snd (restore_nodes_names s p ri c l1) ++ snd (restore_nodes_names s p ri (restore_nodes s p ri c l1) l2)).
Proof.
  induction l1 as [|n l1 IH]; intros c l2.
  - cbn [Datatypes.app]. rewrite rnn_nil. cbn. destruct (restore_nodes_names s p ri c l2); reflexivity.
  - cbn [Datatypes.app]. rewrite !rnn_cons. cbn zeta. rewrite IH. cbn [fst snd]. rewrite app_assoc. reflexivity.
Qed.

(** restored = the node's action, on the cell as it is at the node's turn, is a restoring one *)
Theorem restored_names_spec s p ri ns : forall c a,
  In a (snd (restore_nodes_names s p ri c ns)) <->
  exists pre n post, ns = pre ++ n :: post /\ a = sn_app n /\
                     restored (snd (restore_node s p ri (restore_nodes s p ri c pre) n)) = true.
Proof.
  induction ns as [|m ns IH]; intros c a.
  - cbn. split; [contradiction|]. intros (pre & n & post & E & _). destruct pre; discriminate.
  - rewrite rnn_cons. cbn zeta. cbn [snd]. rewrite in_app_iff, IH. split.
    + intros [H|(pre & n & post & E & Ea & R)].
      * destruct (restored (snd (restore_node s p ri c m))) eqn:R; [|contradiction]. destruct H as [<-|[]].
        exists [], m, ns. auto.
      * exists (m :: pre), n, post. subst ns. auto.
    + intros (pre & n & post & E & Ea & R). destruct pre as [|m' pre].
      * cbn in E. inversion E; subst m ns. left. cbn in R. rewrite R. left. auto.
      * cbn in E. inversion E; subst m' ns. right. exists pre, n, post. auto.
Qed.

Lemma restored_iff act : restored act = true <-> (exists e id, act = RRestore e id) \/ (exists id, act = RPutFresh id).
Proof.
  destruct act; cbn; split; try discriminate; eauto; intros [(e & id & H)|(id & H)]; discriminate.
Qed.

Lemma restored_names_recorded_sched s p ri c ns a :
  In a (snd (restore_nodes_names s p ri c ns)) -> In a (map sn_app ns).
Proof.
  intros H. apply restored_names_spec in H as (pre & n & post & -> & -> & _).
  rewrite map_app. apply in_or_app. right. left. reflexivity.
Qed.

(** * The loop over the servers *)
Lemma ra_acc ri l : forall acc,
  fold_left (restore_server_step ri) l acc =
  (fst (fold_left (restore_server_step ri) l (fst acc, [])),
   snd acc ++ snd (fold_left (restore_server_step ri) l (fst acc, []))).
Proof.
  induction l as [|sr l IH]; intros [c r]; cbn [fold_left fst snd]; [rewrite app_nil_r; reflexivity|].
  unfold restore_server_step at 2 4 6. cbn [fst snd].
  destruct (restore_nodes_names (sr_name sr) (sr_presence sr) ri c (sr_nodes sr)) as [c' names]. rewrite IH. cbn [fst snd].
  rewrite (IH (c', [] ++ _)). cbn [fst snd Datatypes.app]. rewrite <- app_assoc. reflexivity.
Qed.

Lemma ra_cons ri c sr l :
  restore_all ri c (sr :: l) =
  let r1 := restore_nodes_names (sr_name sr) (sr_presence sr) ri c (sr_nodes sr) in
  let r := restore_all ri (fst r1) l in
  (fst r, (sr_name sr, snd r1) :: snd r).
Proof.
  unfold restore_all. cbn [fold_left]. unfold restore_server_step at 2. cbn [fst snd].
  destruct (restore_nodes_names (sr_name sr) (sr_presence sr) ri c (sr_nodes sr)) as [c' names].
  rewrite ra_acc. cbn [fst snd Datatypes.app]. reflexivity.
Qed.

Lemma ra_app ri l1 : forall c l2,
  restore_all ri c (l1 ++ l2) =
  (fst (restore_all ri (fst (restore_all ri c l1)) l2),
   snd (restore_all ri c l1) ++ snd (restore_all ri (fst (restore_all ri c l1)) l2)).
Proof.
  induction l1 as [|sr l1 IH]; intros c l2.
  - cbn [Datatypes.app]. change (restore_all ri c []) with (c, @nil (Z * list Z)). cbn [fst snd Datatypes.app].
    destruct (restore_all ri c l2); reflexivity.
  - cbn [Datatypes.app]. rewrite !ra_cons. cbn zeta. rewrite IH. cbn [fst snd]. reflexivity.
Qed.

(** the cell component IS the fold of restore_nodes over the servers *)
Theorem restore_all_is_fold ri servers : forall c,
  fst (restore_all ri c servers) =
  fold_left (fun acc sr => restore_nodes (sr_name sr) (sr_presence sr) ri acc (sr_nodes sr)) servers c.
Proof.
  induction servers as [|sr l IH]; intros c; [reflexivity|]. rewrite ra_cons. cbn zeta. cbn [fst fold_left].
  rewrite IH, rnn_fst. reflexivity.
Qed.

(** one entry per server, in the order of the servers *)
Theorem restored_servers ri servers : forall c, map fst (snd (restore_all ri c servers)) = map sr_name servers.
Proof.
  induction servers as [|sr l IH]; intros c; [reflexivity|]. rewrite ra_cons. cbn zeta. cbn [snd map fst].
  rewrite IH. reflexivity.
Qed.

(** (b) an instance without a node under any server of the list is exactly as before *)
Theorem restore_all_frame ri servers : forall c b,
  (forall sr, In sr servers -> ~ In b (map sn_app (sr_nodes sr))) ->
  get_app b (c_apps (fst (restore_all ri c servers))) = get_app b (c_apps c).
Proof.
  induction servers as [|sr l IH]; intros c b H; [reflexivity|]. rewrite ra_cons. cbn zeta. cbn [fst].
  rewrite IH by (intros sr' Hs; apply H; right; exact Hs). rewrite rnn_fst.
  apply frame_restore_nodes. apply H. left. reflexivity.
Qed.

Lemma restored_on_app r1 r2 a : restored_on (r1 ++ r2) a = restored_on r1 a ++ restored_on r2 a.
Proof. unfold restored_on. apply flat_map_app. Qed.

Lemma restored_on_in restored a s :
  In s (restored_on restored a) <-> exists l, In (s, l) restored /\ In a l.
Proof.
  unfold restored_on. rewrite in_flat_map. split.
  - intros ([s' l] & Hin & H). cbn [fst snd] in H. destruct (zmem a l) eqn:Z; [|contradiction].
    destruct H as [<-|[]]. exists l. split; [exact Hin|]. apply zmem_In. exact Z.
  - intros (l & Hin & Ha). exists (s, l). split; [exact Hin|]. cbn [fst snd].
    apply zmem_In in Ha. rewrite Ha. left. reflexivity.
Qed.

Lemma restore_all_in ri servers : forall c s l,
  In (s, l) (snd (restore_all ri c servers)) ->
  exists spre sr spost, servers = spre ++ sr :: spost /\ s = sr_name sr /\
    l = snd (restore_nodes_names s (sr_presence sr) ri (fst (restore_all ri c spre)) (sr_nodes sr)).
Proof.
  induction servers as [|sr0 rest IH]; intros c s l H; [contradiction|].
  rewrite ra_cons in H. cbn zeta in H. cbn [snd] in H. destruct H as [H|H].
  - inversion H; subst s l. exists [], sr0, rest. auto.
  - apply IH in H as (spre & sr & spost & -> & -> & ->). exists (sr0 :: spre), sr, spost.
    split; [reflexivity|]. split; [reflexivity|]. rewrite ra_cons. cbn zeta. cbn [fst]. reflexivity.
Qed.

Lemma restore_all_in_rev ri c spre sr spost :
  In (sr_name sr, snd (restore_nodes_names (sr_name sr) (sr_presence sr) ri (fst (restore_all ri c spre)) (sr_nodes sr)))
     (snd (restore_all ri c (spre ++ sr :: spost))).
Proof.
  rewrite ra_app. cbn [snd]. apply in_or_app. right. rewrite ra_cons. cbn zeta. cbn [snd]. left. reflexivity.
Qed.

(** (c) what [integrity] collects: [s] is listed for instance [a] exactly when some node of [a] under some
    occurrence of [s] in Loader.servers was restored (RRestore / RPutFresh) on the cell as it was at that node's turn *)
Theorem integrity_exact ri c servers a s :
  In s (restored_on (snd (restore_all ri c servers)) a) <->
  exists spre sr spost pre n post,
    servers = spre ++ sr :: spost /\ sr_nodes sr = pre ++ n :: post /\ s = sr_name sr /\ a = sn_app n /\
    restored (snd (restore_node s (sr_presence sr) ri
                     (restore_nodes s (sr_presence sr) ri (fst (restore_all ri c spre)) pre) n)) = true.
Proof.
  rewrite restored_on_in. split.
  - intros (l & Hin & Ha). apply restore_all_in in Hin as (spre & sr & spost & E & Es & El). subst l.
    apply restored_names_spec in Ha as (pre & n & post & En & Ea & R).
    exists spre, sr, spost, pre, n, post. auto.
  - intros (spre & sr & spost & pre & n & post & E & En & Es & Ea & R). subst servers s.
    eexists. split; [apply restore_all_in_rev|]. apply restored_names_spec. exists pre, n, post. auto.
Qed.

(** nothing unrecorded is collected *)
Theorem integrity_recorded ri c servers a s :
  In s (restored_on (snd (restore_all ri c servers)) a) ->
  exists sr, In sr servers /\ s = sr_name sr /\ In a (map sn_app (sr_nodes sr)).
Proof.
  intros H. apply integrity_exact in H as (spre & sr & spost & pre & n & post & -> & En & -> & -> & _).
  exists sr. split; [apply in_or_app; right; left; reflexivity|]. split; [reflexivity|].
  rewrite En, map_app. apply in_or_app. right. left. reflexivity.
Qed.

Lemma restored_on_unrecorded ri c servers a :
  (forall sr, In sr servers -> ~ In a (map sn_app (sr_nodes sr))) ->
  restored_on (snd (restore_all ri c servers)) a = [].
Proof.
  intros H. destruct (restored_on _ a) as [|s r] eqn:E; [reflexivity|exfalso].
  assert (Hs : In s (restored_on (snd (restore_all ri c servers)) a)) by (rewrite E; left; reflexivity).
  apply integrity_recorded in Hs as (sr & Hin & _ & Ha). exact (H sr Hin Ha).
Qed.

(** * (a) the healthy nodes, after ALL servers *)
Lemma restored_on_single s names a : In a names -> restored_on [(s, names)] a = [s].
Proof. intros H. apply zmem_In in H. unfold restored_on. cbn [flat_map fst snd]. rewrite H. reflexivity. Qed.

(** A node that is healthy when its turn comes (instance known, presence node not younger than the placement node,
    Server.restore accepts it on the cell as it then is - evaluated, as Python does, without looking at app.server:
    [clear_server], the identity when the instance names no server) and whose instance has no node under any LATER server of the
    list is, after all servers have been processed, on its server with the recorded expiry and identity, and the
    server is listed for it in [integrity]; if no EARLIER server records it either, the server is the only one listed,
    and "known" can be read off the cell before the loop.
    Side condition: the children of one ZooKeeper node /placement/<server> have distinct names. *)
Theorem restore_all_healthy c spre sr spost pre n post x0 c1 :
  sr_nodes sr = pre ++ n :: post ->
  NoDup (map sn_app (sr_nodes sr)) ->
  (forall sr', In sr' spost -> ~ In (sn_app n) (map sn_app (sr_nodes sr'))) ->
  let s := sr_name sr in
  let p := sr_presence sr in
  let cs := fst (restore_all true c spre) in
  let cpre := restore_nodes s p true cs pre in
  get_app (sn_app n) (c_apps cpre) = Some x0 ->
  sched_verbatim p n = true ->
  srv_restore (clear_server cpre (sn_app n)) s (sn_app n) (Some (sn_expires n)) = (c1, true) ->
  let r := restore_all true c (spre ++ sr :: spost) in
  (exists x, get_app (sn_app n) (c_apps (fst r)) = Some x /\
             a_server x = Some s /\ a_expiry x = Some (sn_expires n) /\
             a_identity x = match sn_identity n with Some i => Some i | None => a_identity x0 end) /\
  In s (restored_on (snd r) (sn_app n)) /\
  ((forall sr', In sr' spre -> ~ In (sn_app n) (map sn_app (sr_nodes sr'))) ->
   restored_on (snd r) (sn_app n) = [s] /\ get_app (sn_app n) (c_apps c) = Some x0).
Proof.
  intros En ND Hpost s p cs cpre G V R r.
  assert (Hnames : In (sn_app n) (snd (restore_nodes_names s p true cs (sr_nodes sr)))).
  { apply restored_names_spec. exists pre, n, post. split; [exact En|]. split; [reflexivity|].
    pose proof (restore_node_restore s p cpre n x0 c1 G V R) as H. fold cpre.
    destruct (restore_node s p true cpre n) as [c' act]. destruct H as [-> _]. reflexivity. }
  assert (Er : r = (fst (restore_all true (restore_nodes s p true cs (sr_nodes sr)) spost),
                    snd (restore_all true c spre)
                    ++ (s, snd (restore_nodes_names s p true cs (sr_nodes sr)))
                       :: snd (restore_all true (restore_nodes s p true cs (sr_nodes sr)) spost))).
  { unfold r. rewrite ra_app, ra_cons. cbn zeta. cbn [fst snd]. fold cs. fold s. fold p. rewrite rnn_fst. reflexivity. }
  rewrite Er. cbn [fst snd]. split; [|split].
  - rewrite restore_all_frame by exact Hpost. rewrite En.
    rewrite En in ND. exact (restore_nodes_restore s p pre n post cs x0 c1 ND G V R).
  - apply restored_on_in. eexists. split; [|exact Hnames]. apply in_or_app. right. left. reflexivity.
  - intros Hpre. split.
    + rewrite restored_on_app. change (?x :: ?l) with ([x] ++ l). rewrite restored_on_app.
      rewrite (restored_on_unrecorded true c spre _ Hpre).
      rewrite (restored_on_unrecorded true _ spost _ Hpost).
      rewrite (restored_on_single s _ _ Hnames). reflexivity.
    + rewrite <- G. unfold cpre. rewrite frame_restore_nodes.
      * unfold cs. symmetry. apply restore_all_frame. exact Hpre.
      * rewrite En, map_app in ND. cbn in ND. apply NoDup_remove_2 in ND. intros C. apply ND. apply in_or_app. left. exact C.
Qed.

(** * The in-memory duplicate pass leaves alone every instance listed under at most one server *)
Lemma dedup_inner_frame a a' ss : a <> a' -> forall c,
  get_app a (c_apps (fold_left (fun acc' s => srv_remove acc' s a') ss c)) = get_app a (c_apps c).
Proof.
  intros NE. induction ss as [|s ss IH]; intros c; [reflexivity|]. cbn [fold_left]. rewrite IH.
  apply frame_srv_remove. exact NE.
Qed.

Theorem dedup_cell_frame restored a :
  (length (restored_on restored a) <= 1)%nat ->
  forall c, get_app a (c_apps (dedup_cell c restored)) = get_app a (c_apps c).
Proof.
  intros Hlen. unfold dedup_cell. generalize (nodup_z (flat_map snd restored)) as L.
  induction L as [|a' L IH]; intros c; [reflexivity|]. cbn [fold_left]. rewrite IH.
  destruct (restored_on restored a') as [|s1 [|s2 r]] eqn:E; try reflexivity.
  apply (dedup_inner_frame a a' (s1 :: s2 :: r)). intros ->. rewrite E in Hlen. cbn in Hlen. lia.
Qed.

(** no duplicates collected: the duplicate pass does nothing at all *)
Theorem dedup_nothing restored c :
  (forall a, (length (restored_on restored a) <= 1)%nat) ->
  dedup_cell c restored = c /\ dedup_writes restored = [].
Proof.
  intros H. split.
  - unfold dedup_cell. generalize (nodup_z (flat_map snd restored)) as L.
    induction L as [|a' L IH]; [reflexivity|]. cbn [fold_left].
    specialize (H a'). destruct (restored_on restored a') as [|s1 [|s2 r]]; try exact IH. cbn in H. lia.
  - destruct (dedup_writes restored) as [|w ws] eqn:E; [reflexivity|exfalso].
    assert (Hw : In w (dedup_writes restored)) by (rewrite E; left; reflexivity).
    apply dedup_write_in in Hw as (s & a & x & y & r & _ & R & _). specialize (H a). rewrite R in H. cbn in H. lia.
Qed.

(** the whole of restore_placements: a healthy node whose instance is recorded under no other server of the list
    survives both loops, and the duplicate pass does not delete its node *)
Theorem restore_placements_healthy c spre sr spost pre n post x0 c1 :
  sr_nodes sr = pre ++ n :: post ->
  NoDup (map sn_app (sr_nodes sr)) ->
  (forall sr', In sr' (spre ++ spost) -> ~ In (sn_app n) (map sn_app (sr_nodes sr'))) ->
  let s := sr_name sr in
  let p := sr_presence sr in
  let cpre := restore_nodes s p true (fst (restore_all true c spre)) pre in
  get_app (sn_app n) (c_apps cpre) = Some x0 ->
  sched_verbatim p n = true ->
  srv_restore (clear_server cpre (sn_app n)) s (sn_app n) (Some (sn_expires n)) = (c1, true) ->
  let '(cf, restored, ws) := restore_placements true c (spre ++ sr :: spost) in
  (exists x, get_app (sn_app n) (c_apps cf) = Some x /\
             a_server x = Some s /\ a_expiry x = Some (sn_expires n) /\
             a_identity x = match sn_identity n with Some i => Some i | None => a_identity x0 end) /\
  restored_on restored (sn_app n) = [s] /\
  (forall s', ~ In (WDel s' (sn_app n)) ws).
Proof.
  intros En ND Hoth s p cpre G V R.
  assert (Hpost : forall sr', In sr' spost -> ~ In (sn_app n) (map sn_app (sr_nodes sr')))
    by (intros sr' H; apply Hoth; apply in_or_app; right; exact H).
  assert (Hpre : forall sr', In sr' spre -> ~ In (sn_app n) (map sn_app (sr_nodes sr')))
    by (intros sr' H; apply Hoth; apply in_or_app; left; exact H).
  destruct (restore_all_healthy c spre sr spost pre n post x0 c1 En ND Hpost G V R) as [Hx [_ H3]].
  destruct (H3 Hpre) as [Hone _]. unfold restore_placements.
  destruct (restore_all true c (spre ++ sr :: spost)) as [c' restored] eqn:E. cbn [fst snd] in *.
  split; [|split].
  - rewrite dedup_cell_frame; [exact Hx|]. fold s in Hone. rewrite Hone. cbn. lia.
  - exact Hone.
  - intros s' Hw. apply dedup_write_in in Hw as (s2 & a & x & y & r & Ew & Ron & _). inversion Ew; subst s2 a.
    fold s in Hone. rewrite Hone in Ron. discriminate.
Qed.

(** nothing unrecorded is placed, after both loops *)
Theorem restore_placements_frame ri c servers b :
  (forall sr, In sr servers -> ~ In b (map sn_app (sr_nodes sr))) ->
  let '(cf, restored, ws) := restore_placements ri c servers in
  get_app b (c_apps cf) = get_app b (c_apps c) /\ restored_on restored b = [] /\ (forall s, ~ In (WDel s b) ws).
Proof.
  intros H. unfold restore_placements.
  pose proof (restore_all_frame ri servers c b H) as F. pose proof (restored_on_unrecorded ri c servers b H) as U.
  destruct (restore_all ri c servers) as [c' restored]. cbn [fst snd] in *. split; [|split].
  - rewrite dedup_cell_frame; [exact F|]. rewrite U. cbn. lia.
  - exact U.
  - intros s Hw. apply dedup_write_in in Hw as (s2 & a & x & y & r & Ew & Ron & _). inversion Ew; subst s2 a.
    rewrite U in Ron. discriminate.
Qed.

(** the same two statements with the result of restore_placements named by an equation *)
Theorem restore_placements_healthy_eq c spre sr spost pre n post x0 c1 :
  sr_nodes sr = pre ++ n :: post ->
  NoDup (map sn_app (sr_nodes sr)) ->
  (forall sr', In sr' (spre ++ spost) -> ~ In (sn_app n) (map sn_app (sr_nodes sr'))) ->
  let s := sr_name sr in
  let p := sr_presence sr in
  let cpre := restore_nodes s p true (fst (restore_all true c spre)) pre in
  get_app (sn_app n) (c_apps cpre) = Some x0 ->
  sched_verbatim p n = true ->
  srv_restore (clear_server cpre (sn_app n)) s (sn_app n) (Some (sn_expires n)) = (c1, true) ->
  forall cf rs ws, restore_placements true c (spre ++ sr :: spost) = (cf, rs, ws) ->
  (exists x, get_app (sn_app n) (c_apps cf) = Some x /\
             a_server x = Some s /\ a_expiry x = Some (sn_expires n) /\
             a_identity x = match sn_identity n with Some i => Some i | None => a_identity x0 end) /\
  restored_on rs (sn_app n) = [s] /\
  (forall s', ~ In (WDel s' (sn_app n)) ws).
Proof.
  intros En ND Hoth s p cpre G V R cf rs ws EQ.
  pose proof (restore_placements_healthy c spre sr spost pre n post x0 c1 En ND Hoth G V R) as H.
  rewrite EQ in H. exact H.
Qed.

Theorem restore_placements_frame_eq ri c servers b :
  (forall sr, In sr servers -> ~ In b (map sn_app (sr_nodes sr))) ->
  forall cf rs ws, restore_placements ri c servers = (cf, rs, ws) ->
  get_app b (c_apps cf) = get_app b (c_apps c) /\ restored_on rs b = [] /\ (forall s, ~ In (WDel s b) ws).
Proof.
  intros Hb cf rs ws EQ. pose proof (restore_placements_frame ri c servers b Hb) as H. rewrite EQ in H. exact H.
Qed.

(** * The [server.remove_all()] that opens restore_placement does nothing during load_model
    (the servers were created empty by load_servers, and processing one server never adds an instance to another) *)
Lemma srv_remove_all_empty c s : srv_empty c s -> srv_remove_all c s = c.
Proof.
  unfold srv_empty, srv_remove_all. intros H. destruct (get_srv s (c_servers c)) as [sv|]; [|reflexivity].
  rewrite (H sv eq_refl). reflexivity.
Qed.

Lemma srv_empty_frame s' c c' :
  get_srv s' (c_servers c') = get_srv s' (c_servers c) -> srv_empty c s' -> srv_empty c' s'.
Proof. intros E H sv G. rewrite E in G. exact (H sv G). Qed.

Lemma srv_empty_srv_remove c sn n s' : srv_empty c s' -> srv_empty (srv_remove c sn n) s'.
Proof.
  intros H. destruct (Z.eq_dec s' sn) as [->|NE].
  - unfold srv_remove. destruct (get_srv sn (c_servers c)) as [sv|] eqn:GS; [|exact H].
    destruct (get_app n (c_apps c)); [|exact H]. rewrite (H sv GS). exact H.
  - eapply srv_empty_frame; [|exact H]. apply (srv_remove_frame c sn n). exact NE.
Qed.

Lemma servers_release c n : c_servers (release_identity c n) = c_servers c.
Proof.
  unfold release_identity. destruct (get_app n (c_apps c)) as [a|]; [|reflexivity].
  destruct (group_of c a) as [[g grp]|]; [|reflexivity]. destruct (a_identity a); reflexivity.
Qed.
Lemma servers_upd_alloc c l p f : c_servers (upd_alloc c l p f) = c_servers c.
Proof. unfold upd_alloc, ensure_part. destruct (aget l (c_parts c)); reflexivity. Qed.
Lemma servers_force c a i : c_servers (force_identity c a i) = c_servers c.
Proof.
  unfold force_identity. destruct (get_app a (c_apps c)) as [x|]; [|reflexivity].
  destruct (group_of c x) as [[g grp]|]; reflexivity.
Qed.

Lemma srv_empty_remove_app c n s' : srv_empty c s' -> srv_empty (remove_app c n) s'.
Proof.
  intros H. unfold remove_app. destruct (get_app n (c_apps c)) as [a|]; [|exact H].
  set (c1 := match a_server a with Some sn => if is_member c sn then srv_remove c sn n else c | None => c end).
  assert (H1 : srv_empty c1 s').
  { unfold c1. destruct (a_server a); [|exact H]. destruct (is_member c z); [apply srv_empty_srv_remove|]; exact H. }
  eapply srv_empty_frame; [|exact H1]. cbn [c_servers set]. rewrite servers_release.
  destruct (a_alloc a) as [[l0 p0]|]; [rewrite servers_upd_alloc|]; reflexivity.
Qed.

Lemma srv_empty_restore_node s p ri c n s' :
  s' <> s -> srv_empty c s' -> srv_empty (fst (restore_node s p ri c n)) s'.
Proof.
  intros NE H. unfold restore_node. destruct (get_app (sn_app n) (c_apps c)) as [a|] eqn:G; [|exact H].
  assert (FF : forall c' (o : option Z), srv_empty c' s' ->
             srv_empty (match o with Some i => force_identity c' (sn_app n) i | None => c' end) s').
  { intros c' [i|] H'; [|exact H']. eapply srv_empty_frame; [|exact H']. rewrite servers_force. reflexivity. }
  pose proof (clear_server_get c (sn_app n) a G) as G0.
  assert (H0 : srv_empty (clear_server c (sn_app n)) s')
    by (eapply srv_empty_frame; [|exact H]; rewrite clear_server_servers; reflexivity).
  set (c0 := clear_server c (sn_app n)) in *.
  assert (PUT : forall l c', srv_put_lease c0 s (sn_app n) l = Some c' -> srv_empty c' s').
  { intros l c' P. eapply srv_empty_frame; [|exact H0]. apply (srv_put_lease_frame _ _ _ _ _ P). exact NE. }
  destruct (sched_verbatim p n).
  - unfold srv_restore. rewrite G0.
    destruct (srv_put_lease c0 s (sn_app n) 0) as [c'|] eqn:P; cbn [fst snd].
    + apply FF. eapply srv_empty_frame; [|exact (PUT _ _ P)]. reflexivity.
    + assert (E : srv_empty (c_upd_app (sn_app n) (fun x => x <| a_expiry := Some (sn_expires n) |>) c) s')
        by (eapply srv_empty_frame; [|exact H]; reflexivity).
      destruct (a_once a); cbn [fst]; [apply srv_empty_remove_app|]; exact E.
  - destruct (a_once a); cbn [fst]; [apply srv_empty_remove_app; exact H|].
    unfold srv_put. rewrite G0. destruct (srv_put_lease c0 s (sn_app n) _) as [c'|] eqn:P; cbn [fst].
    + apply FF. exact (PUT _ _ P).
    + exact H.
Qed.

Lemma srv_empty_restore_nodes s p ri s' ns : forall c,
  s' <> s -> srv_empty c s' -> srv_empty (restore_nodes s p ri c ns) s'.
Proof.
  induction ns as [|n ns IH]; intros c NE H; [exact H|]. cbn. apply IH; [exact NE|].
  apply srv_empty_restore_node; assumption.
Qed.

(** Side conditions: the names in Loader.servers are the keys of a dict (distinct), and every listed server that is
    attached to the cell is empty when restore_placements starts (load_servers has just created it). *)
Theorem restore_all_ra_eq ri servers : forall c,
  NoDup (map sr_name servers) -> (forall sr, In sr servers -> srv_empty c (sr_name sr)) ->
  restore_all_ra ri c servers = restore_all ri c servers.
Proof.
  unfold restore_all_ra, restore_all. intros c. generalize (@nil (Z * list Z)) as acc. revert c.
  induction servers as [|sr l IH]; intros c acc ND H; [reflexivity|]. cbn [fold_left].
  assert (E : restore_server_step_ra ri (c, acc) sr = restore_server_step ri (c, acc) sr).
  { unfold restore_server_step_ra, restore_server_step. cbn [fst snd].
    rewrite srv_remove_all_empty by (apply H; left; reflexivity). reflexivity. }
  assert (E2 : restore_server_step ri (c, acc) sr =
               (restore_nodes (sr_name sr) (sr_presence sr) ri c (sr_nodes sr),
                acc ++ [(sr_name sr, snd (restore_nodes_names (sr_name sr) (sr_presence sr) ri c (sr_nodes sr)))])).
  { unfold restore_server_step. cbn [fst snd]. rewrite <- rnn_fst.
    destruct (restore_nodes_names (sr_name sr) (sr_presence sr) ri c (sr_nodes sr)); reflexivity. }
  rewrite E, E2. cbn [map] in ND. inversion ND as [|? ? Hni ND']; subst. apply IH; [exact ND'|].
  intros sr' Hin. apply srv_empty_restore_nodes.
  - intros Eq. apply Hni. rewrite <- Eq. apply in_map. exact Hin.
  - apply H. right. exact Hin.
Qed.

(** * C11: the composition over Loader.servers (exported by Props/C11.v) *)

(** All servers of Loader.servers, in order; [r] = (cell after the first loop of restore_placements, what
    [integrity] collected as one entry (server, restored names) per server).
    (a) a node that is healthy when its turn comes - the hypothesis of C11_reload_one_server, evaluated on the cell as
        it is at that moment - and whose instance has no node under any other server of the list: the instance is on
        that server with the recorded expiry and identity in the final cell, that server is the only one listed for it,
        and "the instance is scheduled" can be read off the cell before the loop;
    (b) an instance without a node under any server of the list is exactly as before and is listed under no server;
    (c) [integrity] has one entry per server in the order of Loader.servers, and lists [s] for [a] exactly when a node
        of [a] under [s] was restored (action RRestore / RPutFresh on the cell as it was at that node's turn).
    Side condition of (a): the node names under one /placement/<server> are distinct (children of one ZooKeeper node). *)
Theorem reload_all_servers : forall c servers,
  let r := restore_all true c servers in
  (forall spre sr spost pre n post x0 c1,
     servers = spre ++ sr :: spost ->
     sr_nodes sr = pre ++ n :: post ->
     NoDup (map sn_app (sr_nodes sr)) ->
     (forall sr', In sr' (spre ++ spost) -> ~ In (sn_app n) (map sn_app (sr_nodes sr'))) ->
     let cpre := restore_nodes (sr_name sr) (sr_presence sr) true (fst (restore_all true c spre)) pre in
     get_app (sn_app n) (c_apps cpre) = Some x0 ->
     sched_verbatim (sr_presence sr) n = true ->
     srv_restore (clear_server cpre (sn_app n)) (sr_name sr) (sn_app n) (Some (sn_expires n)) = (c1, true) ->
     (exists x, get_app (sn_app n) (c_apps (fst r)) = Some x /\
                a_server x = Some (sr_name sr) /\ a_expiry x = Some (sn_expires n) /\
                a_identity x = match sn_identity n with Some i => Some i | None => a_identity x0 end) /\
     restored_on (snd r) (sn_app n) = [sr_name sr] /\
     get_app (sn_app n) (c_apps c) = Some x0) /\
  (forall b, (forall sr, In sr servers -> ~ In b (map sn_app (sr_nodes sr))) ->
     get_app b (c_apps (fst r)) = get_app b (c_apps c) /\ restored_on (snd r) b = []) /\
  (map fst (snd r) = map sr_name servers /\
   forall a s, In s (restored_on (snd r) a) <->
     exists spre sr spost pre n post,
       servers = spre ++ sr :: spost /\ sr_nodes sr = pre ++ n :: post /\ s = sr_name sr /\ a = sn_app n /\
       restored (snd (restore_node s (sr_presence sr) true
                        (restore_nodes s (sr_presence sr) true (fst (restore_all true c spre)) pre) n)) = true).
Proof.
  intros c servers r. split; [|split].
  - intros spre sr spost pre n post x0 c1 Es En ND Hoth cpre G V R.
    assert (Hpost : forall sr', In sr' spost -> ~ In (sn_app n) (map sn_app (sr_nodes sr')))
      by (intros sr' H; apply Hoth; apply in_or_app; right; exact H).
    assert (Hpre : forall sr', In sr' spre -> ~ In (sn_app n) (map sn_app (sr_nodes sr')))
      by (intros sr' H; apply Hoth; apply in_or_app; left; exact H).
    destruct (restore_all_healthy c spre sr spost pre n post x0 c1 En ND Hpost G V R) as [Hx [_ H3]].
    destruct (H3 Hpre) as [Hone Hx0]. unfold r. rewrite Es. auto.
  - intros b H. split; [apply restore_all_frame; exact H|apply restored_on_unrecorded; exact H].
  - split; [apply restored_servers|]. intros a s. apply integrity_exact.
Qed.

(** (a) with the weaker hypothesis: only the LATER servers must not record the instance *)
Theorem reload_all_servers_later : forall c spre sr spost pre n post x0 c1,
  sr_nodes sr = pre ++ n :: post ->
  NoDup (map sn_app (sr_nodes sr)) ->
  (forall sr', In sr' spost -> ~ In (sn_app n) (map sn_app (sr_nodes sr'))) ->
  let cpre := restore_nodes (sr_name sr) (sr_presence sr) true (fst (restore_all true c spre)) pre in
  get_app (sn_app n) (c_apps cpre) = Some x0 ->
  sched_verbatim (sr_presence sr) n = true ->
  srv_restore (clear_server cpre (sn_app n)) (sr_name sr) (sn_app n) (Some (sn_expires n)) = (c1, true) ->
  let r := restore_all true c (spre ++ sr :: spost) in
  (exists x, get_app (sn_app n) (c_apps (fst r)) = Some x /\
             a_server x = Some (sr_name sr) /\ a_expiry x = Some (sn_expires n) /\
             a_identity x = match sn_identity n with Some i => Some i | None => a_identity x0 end) /\
  In (sr_name sr) (restored_on (snd r) (sn_app n)).
Proof.
  intros c spre sr spost pre n post x0 c1 En ND Hpost cpre G V R r.
  destruct (restore_all_healthy c spre sr spost pre n post x0 c1 En ND Hpost G V R) as [Hx [Hin _]]. auto.
Qed.

(** the restored names are a companion of restore_nodes *)
Theorem restored_names_companion : forall s p ri ns c,
  fst (restore_nodes_names s p ri c ns) = restore_nodes s p ri c ns /\
  forall a, In a (snd (restore_nodes_names s p ri c ns)) <->
            exists pre n post, ns = pre ++ n :: post /\ a = sn_app n /\
                               restored (snd (restore_node s p ri (restore_nodes s p ri c pre) n)) = true.
Proof. intros s p ri ns c. split; [apply rnn_fst|]. intros a. apply restored_names_spec. Qed.

(** (c) continued: what [integrity] collected is what the duplicate pass consumes; with C11_duplicates_dropped
    (Master/PublishP.v dedup_no_double): if every node left in the store was restored, then after the duplicate pass no
    instance has a node under two servers, and the node of an instance listed under exactly one server - in
    particular of every healthy instance of (a) - is untouched *)
Theorem reload_all_then_dedup : forall ri c servers st,
  let restored := snd (restore_all ri c servers) in
  (forall s a, has st s a = true -> exists l, In (s, l) restored /\ zmem a l = true) ->
  let final := apply_writes st (dedup_writes restored) in
  no_double final /\
  (forall s a, restored_on restored a = [s] -> lookup final s a = lookup st s a).
Proof. intros ri c servers st restored H. exact (dedup_no_double restored st H). Qed.

(** * Non-vacuity on data
    Two servers 1000 and 1001 (capacity 300 each), identity group 5000 of 3, three instances of demand 100.
    /placement/1000: instance 1 (identity 2, expires 777), instance 2 (expires 888);
    /placement/1001: instance 2 (expires 999), instance 3 (expires 555).  Presence nodes (ctime 5) older than the
    placement nodes (ctime 9).  (Instance 2, recorded under both: Master/RestoreDupP.v.) *)
Definition ax_app (n : Z) (g : option Z) :=
  mkApp n 50 [100; 100; 100] 3000 [] 0 0 None g false n None None None None false false false false (-1).
Definition ax_ops : list op :=
  [OAddServer 1000 2000 [300; 300; 300] 4000 0 100000; OAddServer 1001 2000 [300; 300; 300] 4000 0 100000;
   OConfigGroup 5000 3; OAddApp 4000 [] (ax_app 1 (Some 5000));
   OAddApp 4000 [] (ax_app 2 None); OAddApp 4000 [] (ax_app 3 None); OTick 50].
Definition ax_cell := run (init_cell 3 2000 1) ax_ops.
Definition ax_view (c : cell) (n : Z) :=
  option_map (fun a => (a_server a, a_expiry a, a_identity a, a_evicted a)) (get_app n (c_apps c)).
Definition ax_on (c : cell) (s : Z) :=
  option_map (fun sv => (s_apps sv, s_free sv, s_counters sv)) (get_srv s (c_servers c)).
Definition ax_s0 := mkSR 1000 (Some 5) [mkSN 1 (Some 2) 777 9; mkSN 2 None 888 9].
Definition ax_s1 := mkSR 1001 (Some 5) [mkSN 2 None 999 9; mkSN 3 None 555 9].

(** the hypotheses of (a) hold for instance 1 (first node of the first server) and instance 3 (second node of the
    second server); the cell after the first loop; what integrity collected; the side conditions of the other theorems *)
Example ax_nonvacuous_all :
  let r := restore_all true ax_cell [ax_s0; ax_s1] in
  let c0 := fst (restore_all true ax_cell [ax_s0]) in
  snd (srv_restore ax_cell 1000 1 (Some 777)) = true /\
  snd (srv_restore (restore_nodes 1001 (Some 5) true c0 [mkSN 2 None 999 9]) 1001 3 (Some 555)) = true /\
  snd r = [(1000, [1; 2]); (1001, [2; 3])] /\
  ax_view (fst r) 1 = Some (Some 1000, Some 777, Some 2, false) /\
  ax_view (fst r) 3 = Some (Some 1001, Some 555, None, false) /\
  ax_on (fst r) 1000 = Some ([1; 2], [100; 100; 100], [(3000, 2)]) /\
  ax_on (fst r) 1001 = Some ([2; 3], [100; 100; 100], [(3000, 2)]) /\
  map a_name (c_apps ax_cell) = [1; 2; 3] /\
  ax_on ax_cell 1000 = Some ([], [300; 300; 300], []) /\ ax_on ax_cell 1001 = Some ([], [300; 300; 300], []) /\
  restore_all_ra true ax_cell [ax_s0; ax_s1] = r.
Proof. vm_compute. repeat split. Qed.

(** the composition theorem applied to the data: instance 3, recorded under the second server only *)
Example ax_all_applied :
  exists x, get_app 3 (c_apps (fst (restore_all true ax_cell [ax_s0; ax_s1]))) = Some x /\
            a_server x = Some 1001 /\ a_expiry x = Some 555 /\ a_identity x = None.
Proof.
  set (cpre := restore_nodes 1001 (Some 5) true (fst (restore_all true ax_cell [ax_s0])) [mkSN 2 None 999 9]).
  destruct (get_app 3 (c_apps cpre)) as [x0|] eqn:G; [|vm_compute in G; discriminate].
  assert (I0 : a_identity x0 = None) by (vm_compute in G; inversion G; reflexivity).
  destruct (srv_restore (clear_server cpre 3) 1001 3 (Some 555)) as [c1 ok] eqn:R.
  assert (OK : ok = true) by (apply (f_equal snd) in R; vm_compute in R; congruence). subst ok.
  assert (ND : NoDup (map sn_app (sr_nodes ax_s1))).
  { change (NoDup [2; 3]). repeat constructor; cbn; intuition congruence. }
  assert (Hoth : forall sr', In sr' ([ax_s0] ++ []) -> ~ In (sn_app (mkSN 3 None 555 9)) (map sn_app (sr_nodes sr'))).
  { intros sr' [<-|[]]. change (~ In 3 [1; 2]). cbn. intuition congruence. }
  destruct (reload_all_servers ax_cell [ax_s0; ax_s1]) as [A _].
  destruct (A [ax_s0] ax_s1 [] [mkSN 2 None 999 9] (mkSN 3 None 555 9) [] x0 c1 eq_refl eq_refl ND Hoth G eq_refl R)
    as [[x [H1 [H2 [H3 H4]]]] _].
  exists x. change (a_identity x = a_identity x0) in H4. rewrite I0 in H4.
  split; [exact H1|]. split; [exact H2|]. split; [exact H3|exact H4].
Qed.
