(** Loader.load_model (scheduler/loader.py:93-106) of a freshly started master, from an abstract STORE SNAPSHOT to a
    list of operations of the scheduler model's alphabet (Sched/Events.v), composed with the master-level restore
    (Master/RestoreAll.v [restore_all] / [restore_placements]).  Model file: no proofs (they are in LoadModelP.v).

    What is read from the store, in the order load_model reads it, and what it becomes:

      load_traits            /traits                         LoadApp.create_code -> Loader.trait_codes
      load_partitions        '_default', then /partitions/*  one [part_op] each (PartitionDict entry with a fresh
                                                             top allocation; rendered as an update of the top
                                                             allocation with the constructor's values)
      load_buckets           /buckets/* (level, parent)      [load_bucket]: the recursion with its "do not load twice"
                                                             guard; one OAddBucket per parent link, in the order
                                                             parent.add_node is called
      load_cell              /cell/*                         one OAddBucket under the root per top-level bucket
      load_servers           /servers/* in listing order     LoadApp.load_server (create_server grows the trait codes;
                                                             falsy record / unknown parent: skipped), then
                                                             OAddServer; adjust_server_state = OSetState (recorded
                                                             state) ; OSetState (adjusted to presence);
                                                             set_server_valid_until = [part_op] of the server's label;
                                                             OSetValidUntil (only with a presence node)
      load_allocations       /allocations                    OUpdateAlloc per record (capacity through
                                                             Units.resources, traits through LoadApp.encode without
                                                             flags); the assignments are kept for find_assignment
      load_apps              /scheduled/*                    LoadApp.load_app on an instance that is not in cell.apps
                                                             (falsy manifest: ORemoveApp), then LoadApp.load_app_ops
                                                             = OAddApp into the allocation find_assignment returned
      load_identity_groups   /identity-groups/*              ORemoveGroup for groups instances name but the store
                                                             does not list; OConfigGroup per listed group with data
      restore_placements     /placement/<server>/*           Master/RestoreAll.v over Loader.servers (the attached
                                                             servers in load order) = one ORestore per node

    INPUTS rather than modelled (documented in harness/props/c11load.py):
      - find_assignment's fnmatch: per instance the position (allocation record, assignment) of the first matching
        pattern, or None; _is_blacklisted's fnmatch: per instance a flag (as in LoadApp.v);
      - the valid_until Partition.add assigns to a server with a presence node (reboot calendar);
      - time.time() during the load ([st_now]) and the next value of scheduler._global_order ([st_order]);
      - the bijection [id] between Python strings and the model's identifiers ([id "server"] must be LEVEL_SERVER = 0).
    ORDER: load_cell runs after load_buckets, so Python links sub-buckets to their parents BEFORE the top-level
    buckets are hooked to the cell; the model's OAddBucket needs the parent in the tree, so the top-level links come
    first here.  All buckets are empty at that point: only the per-parent order of children is observable, and that is
    kept.  load_identity_groups iterates Python sets; the model uses listing order (the operations on different
    groups commute, the canonical dump sorts groups). *)
From Coq Require Import ZArith QArith List Bool.
From TM Require Import Codec.BaseN Codec.Dec Codec.Units.
From TM Require Import Sched.Vec Sched.Types Sched.Queue Sched.Tree Sched.Cycle Sched.Events.
From TM Require Import Master.LoadApp Master.Publish Master.Restore Master.RestoreSched Master.RestoreAll.
Import ListNotations.
Open Scope Z_scope.

(** * The store snapshot *)
(** /buckets/<name>: data.get('level', name.split(':')[0]), data.get('parent') *)
Record bkt_ent := mkBE { be_name : str; be_level : option str; be_parent : option str }.

(** /placement/<server>/<instance>: data.get('identity'), data.get('expires', 0), ctime *)
Record pnode := mkPN { pn_app : str; pn_identity : option Z; pn_expires : Z; pn_ctime : Z }.

(** /servers/<name> with what load_server reads next to it *)
Record srv_ent := mkSE {
  se_name : str;
  se_rec : option srv_rec;              (* None: the falsy record ('No capacity detected') *)
  se_presence : option Z;               (* ctime of /server.presence/<name>; None: no such node *)
  se_valid_until : Z;                   (* INPUT: what Partition.add assigns (read only with a presence node) *)
  se_state : option (sstate * Z);       (* data of /placement/<name>: state, since; None: falsy data *)
  se_nodes : list pnode                 (* children of /placement/<name>, listing order *)
}.

(** one object of /allocations *)
Record alloc_ent := mkAE {
  ae_part : str;                        (* obj.get('partition') *)
  ae_name : str;                        (* obj['name'], split at '/' and ':' *)
  ae_res : rspec;                       (* memory, cpu, disk *)
  ae_rank : option Z;                   (* obj['rank']; None = null: DEFAULT_RANK *)
  ae_adj : option Z;                    (* obj.get('rank_adjustment'); None: the allocation keeps what it has *)
  ae_maxu : option Q;                   (* obj.get('max_utilization') *)
  ae_traits : option (list str);        (* obj.get('traits', []) *)
  ae_asg : list Z                       (* priorities of obj.get('assignments', []), in order *)
}.

(** /scheduled/<name> *)
Record app_ent := mkAP {
  ap_name : str;
  ap_manifest : option manifest;        (* None: the falsy manifest *)
  ap_asg : option (nat * nat);          (* INPUT: first matching assignment (allocation record, assignment) *)
  ap_bl : bool                          (* INPUT: _is_blacklisted *)
}.

(** /identity-groups/<name>: None = falsy data; Some None = no 'count' key *)
Record grp_ent := mkGE { ge_name : str; ge_data : option (option Z) }.

Record store := mkStore {
  st_cell : str;                        (* the cell's name (root bucket) *)
  st_now : Z;                           (* time.time() while loading *)
  st_order : Z;                         (* the value scheduler._global_order() returns next *)
  st_traits : list str;                 (* /traits *)
  st_partitions : list str;             (* /partitions/* *)
  st_buckets : list bkt_ent;            (* /buckets/* *)
  st_top : list str;                    (* /cell/* *)
  st_servers : list srv_ent;            (* /servers/* *)
  st_allocs : list alloc_ent;           (* /allocations ([]: absent or empty) *)
  st_apps : list app_ent;               (* /scheduled/* *)
  st_groups : list grp_ent              (* /identity-groups/* *)
}.

(** * strings *)
Definition CELL_LEVEL : str := [99; 101; 108; 108].                          (* "cell": Cell.__init__ level='cell' *)
Definition SERVER_LEVEL : str := [115; 101; 114; 118; 101; 114].             (* "server": Server.__init__ *)
Definition DEFAULT_TENANT : str := [95; 100; 101; 102; 97; 117; 108; 116].   (* loader._DEFAULT_TENANT *)
Definition DEFAULT_RANK : Z := 100.                                          (* scheduler.DEFAULT_RANK *)

(** s.split(c)[0] *)
Fixpoint take_until (c : Z) (s : str) : str :=
  match s with [] => [] | x :: r => if x =? c then [] else x :: take_until c r end.
(** re.split('[<seps>]', s): [cur] is the current piece, reversed *)
Fixpoint split_on (seps : list Z) (s : str) (cur : str) : list str :=
  match s with
  | [] => [rev cur]
  | x :: r => if Vec.zmem x seps then rev cur :: split_on seps r [] else split_on seps r (x :: cur)
  end.
(** proid, _rest = name.split('.', 1): None = the ValueError of a name without a dot *)
Definition proid_of (name : str) : option str := if Vec.zmem 46 name then Some (take_until 46 name) else None.

Fixpoint str_mem (s : str) (l : list str) : bool :=
  match l with [] => false | x :: r => str_eqb x s || str_mem s r end.
Fixpoint str_nodup (l : list str) (seen : list str) : list str :=
  match l with
  | [] => []
  | x :: r => if str_mem x seen then str_nodup r seen else x :: str_nodup r (x :: seen)
  end.

Section Load.
  Variable T : ltables.
  Variable U : utables.
  Variable id : str -> Z.
  Variable none_aff : Z.

  Definition DIM : nat := 3.             (* loader.resources: memory, cpu, disk *)

  (** cell.partitions[label] of a label not seen before: Partition(label) with a fresh top Allocation
      (reserved 0, DEFAULT_RANK, adjustment 0, no traits, unbounded utilisation); idempotent on an existing
      partition because the loader never updates a top allocation (re.split yields at least one path element) *)
  Definition part_op (label : str) : op := OUpdateAlloc (id label) [] (vzero DIM) DEFAULT_RANK 0 None 0.

  (** ** load_buckets / load_cell *)
  Definition bkt_level (b : bkt_ent) : str :=
    match be_level b with Some l => l | None => take_until 58 (be_name b) end.
  Fixpoint find_bkt (n : str) (l : list bkt_ent) : option bkt_ent :=
    match l with [] => None | b :: r => if str_eqb (be_name b) n then Some b else find_bkt n r end.
  (** [if parent_name:] *)
  Definition bkt_parent (b : bkt_ent) : option str :=
    match be_parent b with Some (c :: s) => Some (c :: s) | _ => None end.

  (** Loader.load_bucket: (names in Loader.buckets afterwards, the parent links made, in add_node order).
      A name that is not listed is loaded from the default {} (no parent); [store_shape_ok] excludes it because its
      level would be derived from the name. *)
  Fixpoint load_bucket (fuel : nat) (bs : list bkt_ent) (loaded : list str) (name : str) : list str * list op :=
    match fuel with
    | O => (loaded, [])
    | S f =>
        if str_mem name loaded then (loaded, [])
        else
          let loaded1 := loaded ++ [name] in
          match find_bkt name bs with
          | None => (loaded1, [])
          | Some b =>
              match bkt_parent b with
              | None => (loaded1, [])
              | Some p =>
                  let '(l2, ops) := load_bucket f bs loaded1 p in
                  (l2, ops ++ [OAddBucket (id name) (id (bkt_level b)) (id p)])
              end
          end
    end.
  Fixpoint load_buckets_from (all : list bkt_ent) (loaded : list str) (bs : list bkt_ent) : list str * list op :=
    match bs with
    | [] => (loaded, [])
    | b :: r =>
        let '(l1, ops1) := load_bucket (S (length all)) all loaded (be_name b) in
        let '(l2, ops2) := load_buckets_from all l1 r in
        (l2, ops1 ++ ops2)
    end.
  Definition load_buckets (bs : list bkt_ent) : list str * list op := load_buckets_from bs [] bs.
  (** load_cell: cell.add_node(self.buckets[name]) per name of /cell *)
  Definition top_ops (bs : list bkt_ent) (root : Z) (top : list str) : list op :=
    flat_map (fun n => match find_bkt n bs with
                       | Some b => [OAddBucket (id n) (id (bkt_level b)) root]
                       | None => []
                       end) top.

  (** ** load_servers *)
  (** adjust_server_state after server.set_state(recorded state, since): down without a presence node, otherwise up
      unless frozen *)
  Definition adjusted_state (present : bool) (st : sstate) : sstate :=
    if present then match st with Frozen => Frozen | _ => Up end else Down.
  Definition is_some {A} (o : option A) : bool := match o with Some _ => true | None => false end.

  Definition server_ops (now : Z) (se : srv_ent) (s : srv_obj) : list op :=
    match load_server_op id s with
    | None => []
    | Some o =>
        let n := id (so_name s) in
        let '(st0, since0) := match se_state se with Some p => p | None => (Down, now) end in
        [o; OSetState n st0 since0; OSetState n (adjusted_state (is_some (se_presence se)) st0) now]
        ++ (if is_some (se_presence se)
            then [part_op (so_label s); OSetValidUntil n (se_valid_until se)] else [])
    end.

  Record sload := mkSL { sl_ops : list op; sl_codes : tcodes; sl_att : list (srv_ent * srv_obj); sl_ok : bool }.
  Definition sl_fail (r : sload) : sload := mkSL (sl_ops r) (sl_codes r) (sl_att r) false.
  (** the loop of load_servers; [codes] = Loader.trait_codes, grown by every create_server.  A record on which
      load_server raises ends load_model: the flag is cleared (the rest is still listed, it is never used) *)
  Fixpoint load_servers (now : Z) (buckets : list str) (codes : tcodes) (ses : list srv_ent) : sload :=
    match ses with
    | [] => mkSL [] codes [] true
    | se :: r =>
        let '(res, codes') := load_server T U codes now buckets (se_name se) (se_rec se) in
        let rest := load_servers now buckets codes' r in
        match res with
        | LSAttached s =>
            mkSL (server_ops now se s ++ sl_ops rest) (sl_codes rest) ((se, s) :: sl_att rest) (sl_ok rest)
        | LSNoData => rest
        | LSNoParent => rest
        | LSRaised _ => sl_fail rest
        | LSAssertion => sl_fail rest
        end
    end.

  (** ** load_allocations *)
  Definition alloc_path (name : str) : list Z := map id (split_on [47; 58] name []).
  (** rank_adjustment None: Allocation.update leaves the attribute alone - the value an earlier record of the same
      allocation gave it, else the constructor's 0 *)
  Fixpoint prev_adj (earlier : list alloc_ent) (ae : alloc_ent) : Z :=
    match earlier with
    | [] => 0
    | e :: r =>
        (* [earlier] is in reverse order: the head is the latest *)
        if (id (ae_part e) =? id (ae_part ae)) && zl_eqb (alloc_path (ae_name e)) (alloc_path (ae_name ae))
        then match ae_adj e with Some a => a | None => prev_adj r e end
        else prev_adj r ae
    end.
  Definition alloc_op (codes : tcodes) (earlier : list alloc_ent) (ae : alloc_ent) : ures op :=
    ubind (resources U (ae_res ae)) (fun res =>
    ubind (encode T [0; 0] codes (match ae_traits ae with Some l => l | None => [] end)) (fun tz =>
    UOk (OUpdateAlloc (id (ae_part ae)) (alloc_path (ae_name ae)) res
                      (match ae_rank ae with Some r => r | None => DEFAULT_RANK end)
                      (match ae_adj ae with Some a => a | None => prev_adj earlier ae end)
                      (ae_maxu ae) (fst tz)))).
  Fixpoint alloc_ops (codes : tcodes) (earlier : list alloc_ent) (l : list alloc_ent) : list op * bool :=
    match l with
    | [] => ([], true)
    | ae :: r =>
        let '(ops, ok) := alloc_ops codes (ae :: earlier) r in
        match alloc_op codes earlier ae with
        | UOk o => (o :: ops, ok)
        | _ => (ops, false)
        end
    end.

  (** ** load_apps *)
  (** find_assignment: (priority of the matching assignment or None for the default, partition label, path) *)
  Definition assignment_of (allocs : list alloc_ent) (name : str) (asg : option (nat * nat))
    : option (option Z * Z * list Z) :=
    match asg with
    | Some (k, j) =>
        match nth_error allocs k with
        | Some ae => match nth_error (ae_asg ae) j with
                     | Some p => Some (Some p, id (ae_part ae), alloc_path (ae_name ae))
                     | None => None
                     end
        | None => None
        end
    | None =>
        (* find_default_assignment: partitions[_DEFAULT_PARTITION].allocation / _DEFAULT_TENANT / proid *)
        match proid_of name with
        | Some pr => Some (None, id (lt_default_partition T), [id DEFAULT_TENANT; id pr])
        | None => None
        end
    end.

  (** [al_recs]: the instance records as Cell.add_app leaves them in cell.apps *)
  Record aload := mkAL { al_ops : list op; al_apps : list (app_ent * app_obj); al_recs : list app; al_ok : bool }.
  Definition al_fail (r : aload) : aload := mkAL (al_ops r) (al_apps r) (al_recs r) false.
  Definition placed_rec (label : Z) (path : list Z) (order : Z) (o : app_obj) : app :=
    let a := sched_app id none_aff order o in
    mkApp (a_name a) (a_prio a) (a_demand a) (a_aff a) (a_limits a) (a_traits a) (a_lease a) (a_drt a) (a_group a)
          (a_once a) (a_order a) (Some (label, path)) (a_server a) (a_identity a) (a_expiry a) (a_evicted a)
          (a_unschedule a) (a_renew a) (a_blacklisted a) (a_rank a).
  (** the loop of load_apps; [order] = what scheduler._global_order() returns next (one call per Application) *)
  Fixpoint load_apps (allocs : list alloc_ent) (codes : tcodes) (order : Z) (aps : list app_ent) : aload :=
    match aps with
    | [] => mkAL [] [] [] true
    | ap :: r =>
        match ap_manifest ap with
        | None =>
            let rest := load_apps allocs codes order r in
            mkAL (ORemoveApp (id (ap_name ap)) :: al_ops rest) (al_apps rest) (al_recs rest) (al_ok rest)
        | Some _ =>
            match assignment_of allocs (ap_name ap) (ap_asg ap) with
            | None => al_fail (load_apps allocs codes order r)
            | Some (prio, label, path) =>
                match load_app T U codes None (ap_name ap) (ap_manifest ap) prio (ap_bl ap) with
                | UOk (LLoaded o) =>
                    let rest := load_apps allocs codes (order + 1) r in
                    mkAL (load_app_ops id none_aff label path order false o ++ al_ops rest)
                         ((ap, o) :: al_apps rest) (placed_rec label path order o :: al_recs rest) (al_ok rest)
                | _ => al_fail (load_apps allocs codes order r)
                end
            end
        end
    end.

  (** ** load_identity_groups *)
  Definition app_groups (objs : list app_obj) : list str :=
    str_nodup (flat_map (fun o => match ao_group o with Some g => [g] | None => [] end) objs) [].
  Definition group_ops (objs : list app_obj) (gs : list grp_ent) : list op :=
    map (fun g => ORemoveGroup (id g))
        (filter (fun g => negb (str_mem g (map ge_name gs))) (app_groups objs))
    ++ flat_map (fun ge => match ge_data ge with
                           | None => []
                           | Some c => [OConfigGroup (id (ge_name ge)) (match c with Some n => n | None => 0 end)]
                           end) gs.

  (** ** restore_placements: Loader.servers with their placement nodes *)
  Definition snode_of (p : pnode) : snode := mkSN (id (pn_app p)) (pn_identity p) (pn_expires p) (pn_ctime p).
  Definition srec_of (se : srv_ent) : srec := mkSR (id (se_name se)) (se_presence se) (map snode_of (se_nodes se)).

  (** the operation a placement node stands for (= Master/RestoreBridge.v [op_of_node] with restore_identity) *)
  Definition node_op (s : Z) (presence : option Z) (n : snode) : op :=
    ORestore s (sn_app n) (sched_verbatim presence n) (sn_expires n) (sn_identity n).
  Definition restore_ops (servers : list srec) : list op :=
    flat_map (fun sr => map (node_op (sr_name sr) (sr_presence sr)) (sr_nodes sr)) servers.

  (** ** load_model up to restore_placements *)
  Record loaded := mkLD {
    ld_ops : list op;                     (* everything before restore_placements *)
    ld_servers : list (srv_ent * srv_obj);(* Loader.servers, load order *)
    ld_apps : list (app_ent * app_obj);   (* the instances created, load order *)
    ld_recs : list app;                   (* ... as they sit in cell.apps before restore_placements *)
    ld_ok : bool                          (* no record made load_model raise; the assignment inputs are in range *)
  }.
  Definition root_of (st : store) : Z := id (st_cell st).
  Definition load_pre (st : store) : loaded :=
    let codes0 := create_code T (st_traits st) in
    let parts := part_op (lt_default_partition T) :: map part_op (st_partitions st) in
    let '(bnames, links) := load_buckets (st_buckets st) in
    let tops := top_ops (st_buckets st) (root_of st) (st_top st) in
    let sl := load_servers (st_now st) bnames codes0 (st_servers st) in
    let '(aops, aok) := alloc_ops (sl_codes sl) [] (st_allocs st) in
    let al := load_apps (st_allocs st) (sl_codes sl) (st_order st) (st_apps st) in
    let gops := group_ops (map snd (al_apps al)) (st_groups st) in
    mkLD ([OTick (st_now st)] ++ parts ++ tops ++ links ++ sl_ops sl ++ aops ++ al_ops al ++ gops)
         (sl_att sl) (al_apps al) (al_recs al) (sl_ok sl && aok && al_ok al).

  Definition pre_ops (st : store) : list op := ld_ops (load_pre st).
  Definition store_srecs (st : store) : list srec := map (fun p => srec_of (fst p)) (ld_servers (load_pre st)).
  Definition load_model_ops (st : store) : list op := pre_ops st ++ restore_ops (store_srecs st).

  Definition init_of (st : store) : cell := init_cell DIM (root_of st) (id CELL_LEVEL).

  (** the cell before restore_placements, and after its first loop / after both loops with the master-level model
      of the restore (Server.restore / put without looking at app.server, the duplicate pass) *)
  Definition loaded_cell (st : store) : cell := run (init_of st) (pre_ops st).
  Definition load_model_cell (st : store) : cell := fst (restore_all true (loaded_cell st) (store_srecs st)).
  Definition load_model_full (st : store) : cell :=
    let '(cf, _, _) := restore_placements true (loaded_cell st) (store_srecs st) in cf.
  (** ... with the server.remove_all() that opens every restore_placement *)
  Definition load_model_full_ra (st : store) : cell :=
    let '(c', restored) := restore_all_ra true (loaded_cell st) (store_srecs st) in dedup_cell c' restored.

  (** * Side conditions on the snapshot (decidable) *)
  (** shape of the bucket records: distinct names; a bucket has a parent exactly when /cell does not list it; every
      parent is listed; /cell lists only listed buckets, each once *)
  Fixpoint str_distinct (l : list str) : bool :=
    match l with [] => true | x :: r => negb (str_mem x r) && str_distinct r end.
  Definition store_shape_ok (st : store) : bool :=
    let bs := st_buckets st in
    str_distinct (map be_name bs) && str_distinct (st_top st) &&
    forallb (fun n => is_some (find_bkt n bs)) (st_top st) &&
    forallb (fun b => match bkt_parent b with
                      | Some p => negb (str_mem (be_name b) (st_top st)) && is_some (find_bkt p bs)
                      | None => str_mem (be_name b) (st_top st)
                      end) bs &&
    (id SERVER_LEVEL =? LEVEL_SERVER).
End Load.

(** * Attributes the canonical dump of Sched/Events.v leaves out (compared by the correspondence stage as well) *)
Definition dpairs (m : list (Z * Z)) : list Z :=
  Z.of_nat (length m) :: flat_map (fun kv => [fst kv; snd kv]) (sort_kv m).
Definition dump_app_static (a : app) : list Z :=
  [a_name a] ++ dlist (a_demand a) ++ [a_aff a] ++ dpairs (a_limits a) ++ [a_traits a; a_lease a] ++ dopt (a_drt a)
  ++ dopt (a_group a) ++ [dbool (a_once a); a_order a].
Definition dump_server_static (s : server) : list Z :=
  [s_name s] ++ dopt (s_parent s) ++ dlist (s_cap s) ++ [s_label s; s_traits s].
Definition dump_bucket_static (b : bucket) : list Z := [b_name b; b_level b] ++ dopt (b_parent b).
Definition dump_static (c : cell) : list Z :=
  flat_map dump_app_static (c_apps c)
  ++ flat_map dump_server_static (sort_by s_name (c_servers c))
  ++ flat_map dump_bucket_static (sort_by b_name (c_buckets c)).
