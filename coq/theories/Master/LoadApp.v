(** The Loader glue between what is DECLARED in ZooKeeper records and the scheduler objects:
    scheduler/loader.py  Loader.load_app (new-instance and existing-instance branch), _get_data_retention,
    _get_lease, Loader.create_server, the attaching part of Loader.load_server, Loader.find_default_assignment;
    scheduler/__init__.py Application.__init__, Affinity.__init__, Server.__init__, TraitSet.__init__ as far as they
    normalise their arguments; utils.to_seconds; traits.create_code / traits.encode.

    Executable model ONLY (no proofs here; see LoadAppP.v), for ONE instance manifest and ONE server record.

    Strings (names, labels, trait names, levels) are [str] = lists of code points; size / cpu spellings are parsed
    by the string-level model of Codec/Units.v ([resources], tables [utables]); a Python exception is a constructor
    of [Units.ures] (UValueError: int() of a malformed numeral; UIndexError: norm[-1] of an empty string;
    UException: the generic Exception of to_seconds / kilobytes, and - documented at each use - a KeyError /
    TypeError raised by a lookup the translator excludes).

    The manifest keys, the getter defaults, the constants (-1, the default assignment priority, '_default', '0s',
    'invalid', utils._TIME_SCALE) and the flags of traits.encode are NOT written here: they are fields of
    [ltables], instantiated in LoadAppRun.v from the definitions harness/tables_loadapp.py regenerates from the
    Python AST on every run; the model FOLLOWS the table (another key / default / constant in the source gives
    another model), the theorems carry the premise [ltables_ok T = true].

    A [manifest] / [srv_rec] stands for a NON-EMPTY dict (real records always carry further keys); the falsy
    record (absent node, None, {}) is the [None] argument of [load_app] / [load_server].
    Values: str or int scalars for priority / lease / data_retention_timeout / memory / cpu / disk ([pyval]);
    None | bool | int | str for schedule_once ([tval]); a dict level -> int for affinity_limits; a list of str for
    traits.  A field that is [None] is an absent key; for the keys read with .get(k) / .get(k, None) (affinity,
    affinity_limits, identity_group, data_retention_timeout) an explicit null is the same [None]. *)
From Coq Require Import ZArith List Bool.
From TM Require Import Codec.BaseN Codec.Dec Codec.Units Sched.Vec Sched.Types Sched.Events.
Import ListNotations.
Open Scope Z_scope.

(** * Identifiers of the field-mapping table *)
(** manifest / server-record keys (1 memory 2 cpu 3 disk are Units.K_MEMORY K_CPU K_DISK) *)
Definition K_PRIORITY : Z := 4.
Definition K_AFFINITY : Z := 5.
Definition K_AFFINITY_LIMITS : Z := 6.
Definition K_IDENTITY_GROUP : Z := 7.
Definition K_SCHEDULE_ONCE : Z := 8.
Definition K_DATA_RETENTION : Z := 9.
Definition K_LEASE : Z := 10.
Definition K_TRAITS : Z := 11.
Definition K_PARTITION : Z := 12.
Definition K_UP_SINCE : Z := 13.
Definition K_PARENT : Z := 14.

(** attributes of scheduler.Application (= the parameters of its constructor where both exist) *)
Definition A_NAME : Z := 1.
Definition A_PRIORITY : Z := 2.
Definition A_DEMAND : Z := 3.
Definition A_AFFINITY : Z := 4.
Definition A_AFFINITY_LIMITS : Z := 5.
Definition A_DRT : Z := 6.
Definition A_LEASE : Z := 7.
Definition A_IDENTITY_GROUP : Z := 8.
Definition A_IDENTITY : Z := 9.
Definition A_TRAITS : Z := 10.
Definition A_SCHEDULE_ONCE : Z := 11.
Definition A_BLACKLISTED : Z := 12.
Definition A_EVICTED : Z := 13.
Definition A_UNSCHEDULE : Z := 14.
Definition A_RENEW : Z := 15.
Definition A_SERVER : Z := 16.
Definition A_PLACEMENT_EXPIRY : Z := 17.
Definition A_ALLOCATION : Z := 18.
Definition A_IDENTITY_GROUP_REF : Z := 19.
Definition A_GLOBAL_ORDER : Z := 20.
(** attributes / constructor parameters of scheduler.Server *)
Definition S_NAME : Z := 31.
Definition S_CAPACITY : Z := 32.
Definition S_UP_SINCE : Z := 33.
Definition S_LABEL : Z := 34.
Definition S_TRAITS : Z := 35.
Definition S_VALID_UNTIL : Z := 36.
Definition S_PRESENCE_ID : Z := 37.
Definition S_FREE : Z := 38.
Definition S_APPS : Z := 39.

(** how a constructor argument is computed from the record (column 2 of a flow row) *)
Definition F_GET : Z := 1.         (* record.get(key [, default]) handed over as it is *)
Definition F_RESOURCES : Z := 2.   (* resources(record): keys and order are Units.utables *)
Definition F_RETENTION : Z := 3.   (* _get_data_retention: to_seconds(record.get(key)) unless None *)
Definition F_LEASE : Z := 4.       (* _get_lease: to_seconds(record.get(key, '<default>')) *)
Definition F_ENCODE : Z := 5.      (* traits.encode(self.trait_codes, record.get(key, default), flags)[0] *)
Definition F_PRIORITY : Z := 6.    (* the priority rule on record[key] and find_assignment *)
Definition F_ARG : Z := 7.         (* the loader method's own name argument *)
Definition F_BLACKLIST : Z := 8.   (* self._is_blacklisted(appname) *)
Definition F_LABEL : Z := 9.       (* record.get(key), replaced by _DEFAULT_PARTITION when falsy *)
(** the default of the getter (column 4) *)
Definition D_NOKEY : Z := 0.       (* .get(key): None *)
Definition D_NONE : Z := 1.        (* .get(key, None) *)
Definition D_EMPTY_LIST : Z := 2.  (* .get(key, []) *)
Definition D_STR : Z := 3.         (* .get(key, '<string>'): the string is [lt_lease_default] *)
Definition D_NOW : Z := 4.         (* .get(key, int(time.time())) *)

(** * Tables regenerated from the source.  A flow row is [attribute; how; key; default]. *)
Record ltables := {
  lt_time_scale : list (Z * Z);     (* utils._TIME_SCALE: suffix code point -> seconds *)
  lt_default_partition : str;       (* loader._DEFAULT_PARTITION *)
  lt_prio_unset : Z;                (* load_app: int(manifest['priority']) != -1 *)
  lt_default_prio : Z;              (* find_default_assignment: return 1, alloc *)
  lt_lease_default : str;           (* _get_lease: data.get('lease', '0s') *)
  lt_invalid : str;                 (* traits.INVALID *)
  lt_app_flow : list (list Z);      (* load_app, new instance: one row per argument of scheduler.Application(...) *)
  lt_app_refresh : list Z;          (* load_app, existing instance: the attributes assigned, each from the SAME
                                       local variable as the constructor argument of that name *)
  lt_app_after : list Z;            (* load_app, both branches, after the if: attributes assigned on the object *)
  lt_app_encode : list Z;           (* load_app: traits.encode flags [use_invalid; add_new] *)
  lt_app_init : list (list Z);      (* Application.__init__: [attribute; source; what] per assignment
                                       source 1 parameter (what = its attribute id)  2 constant (0 None 1 False
                                       2 True)  3 np.array(parameter, dtype=float)  4 Affinity(name, limits)
                                       5 _global_order() *)
  lt_app_defaults : list (list Z);  (* Application.__init__ signature: [parameter; default] 0 None 1 False 2 True
                                       10+n the int n *)
  lt_aff_init : list Z;             (* Affinity.__init__: [1] = limits default to float('inf'), updated with the
                                       argument only when it is truthy (shape pinned by template) *)
  lt_srv_flow : list (list Z);      (* create_server: one row per argument of scheduler.Server(...) *)
  lt_srv_encode : list Z;           (* create_server: traits.encode flags [use_invalid; add_new] *)
  lt_srv_init : list (list Z);      (* Server.__init__ / Node.__init__: [attribute; source; what]; source 6 =
                                       set([parameter]), 7 = TraitSet(parameter), 8 = copy of init_capacity,
                                       9 = dict() *)
  lt_srv_defaults : list (list Z);  (* Server.__init__ signature *)
  lt_load_server : list Z           (* load_server: [1] = shape pinned by template (falsy record skipped; assert
                                       'parent' in data; unknown parent skipped; add_node; self.servers[name]) *)
}.

(** the row of attribute [a] computed the way [how]: Some (key, default) *)
Definition key_of (flow : list (list Z)) (a how : Z) : option (Z * Z) :=
  match find (fun r => hd 0 r =? a) flow with
  | Some [_; h; key; d] => if h =? how then Some (key, d) else None
  | _ => None
  end.

Definition flag (l : list Z) (i : nat) : bool := negb (nth i l 0 =? 0).

(** * Python values *)
(** schedule_once: None | bool | int | str; [truthy] is bool(v) *)
Inductive tval := TNone | TBool (b : bool) | TInt (z : Z) | TStr (s : str).
Definition truthy (v : tval) : bool :=
  match v with
  | TNone => false
  | TBool b => b
  | TInt z => negb (z =? 0)
  | TStr s => match s with [] => false | _ => true end
  end.

(** int(v) for a str / int *)
Definition intv (v : pyval) : ures Z := match v with VInt z => UOk z | VStr s => uint s end.

(** * utils.to_seconds *)
Definition to_seconds (T : ltables) (v : pyval) : ures Z :=
  let norm := pstrip (upper (py_str v)) in
  match unsnoc norm with
  | None => UIndexError                                          (* norm[-1] *)
  | Some (init, lastc) =>
      match assoc lastc (lt_time_scale T) with
      | None => UException                                       (* 'Invalid (unitless) interval' *)
      | Some k => ubind (uint init) (fun z => UOk (z * k))       (* int(norm[0:-1]) * _TIME_SCALE[norm[-1]] *)
      end
  end.

(** * traits.create_code / traits.encode: trait name -> bit, as a dict in insertion order *)
Definition tcodes := list (str * Z).
Fixpoint tfind (k : str) (c : tcodes) : option Z :=
  match c with
  | [] => None
  | (a, v) :: r => if str_eqb a k then Some v else tfind k r
  end.
Fixpoint tset (k : str) (v : Z) (c : tcodes) : tcodes :=
  match c with
  | [] => [(k, v)]
  | (a, w) :: r => if str_eqb a k then (a, v) :: r else (a, w) :: tset k v r
  end.

Fixpoint create_loop (ts : list str) (code : Z) (res : tcodes) : tcodes :=
  match ts with
  | [] => res
  | t :: r => let c := 2 * code in create_loop r c (tset t c res)      (* code = code << 1; result[trait] = code *)
  end.
Definition create_code (T : ltables) (ts : list str) : tcodes := create_loop ts 1 [(lt_invalid T, 1)].

(** max(code.values(), default=1) *)
Definition max_code (c : tcodes) : Z :=
  match c with
  | [] => 1
  | (_, v) :: r => fold_left Z.max (map snd r) v
  end.

(** the loop of traits.encode; the dict [code] is mutated in place when add_new.  UException = the KeyError of
    code[INVALID] on a code without the invalid trait (a Loader whose load_traits never ran) *)
Fixpoint encode_loop (inv : str) (use_invalid add_new : bool) (ts : list str) (code : tcodes) (result next : Z)
  : ures (Z * tcodes) :=
  match ts with
  | [] => UOk (result, code)
  | t :: r =>
      match tfind t code with
      | Some v => encode_loop inv use_invalid add_new r code (Z.lor result v) next
      | None =>
          if add_new then
            let next' := 2 * next in
            encode_loop inv use_invalid add_new r (code ++ [(t, next')]) (Z.lor result next') next'
          else if use_invalid then
            match tfind inv code with
            | Some v => encode_loop inv use_invalid add_new r code (Z.lor result v) next
            | None => UException
            end
          else encode_loop inv use_invalid add_new r code result next
      end
  end.
Definition encode (T : ltables) (flags : list Z) (code : tcodes) (ts : list str) : ures (Z * tcodes) :=
  encode_loop (lt_invalid T) (flag flags 0) (flag flags 1) ts code 0 (max_code code).

(** * The declared records *)
Record manifest := {
  m_priority : option pyval;
  m_res : rspec;                          (* memory, cpu, disk *)
  m_affinity : option str;
  m_limits : option (list (str * Z));     (* affinity_limits: level -> limit, a dict (distinct keys) *)
  m_group : option str;                   (* identity_group *)
  m_once : option tval;                   (* schedule_once *)
  m_drt : option pyval;                   (* data_retention_timeout *)
  m_lease : option pyval;
  m_traits : option (list str)
}.

Record srv_rec := {
  sr_partition : option str;              (* None: absent or null; Some []: the empty string *)
  sr_res : rspec;
  sr_traits : option (list str);
  sr_up_since : option Z;
  sr_parent : option str
}.

(** typed readers by key id: None = the model has no field of that type under that key *)
Definition mget_val (m : manifest) (k : Z) : option (option pyval) :=
  if k =? K_PRIORITY then Some (m_priority m)
  else if k =? K_DATA_RETENTION then Some (m_drt m)
  else if k =? K_LEASE then Some (m_lease m)
  else if k =? K_MEMORY then Some (r_memory (m_res m))
  else if k =? K_CPU then Some (r_cpu (m_res m))
  else if k =? K_DISK then Some (r_disk (m_res m))
  else None.
Definition mget_str (m : manifest) (k : Z) : option (option str) :=
  if k =? K_AFFINITY then Some (m_affinity m)
  else if k =? K_IDENTITY_GROUP then Some (m_group m)
  else None.
Definition mget_limits (m : manifest) (k : Z) : option (option (list (str * Z))) :=
  if k =? K_AFFINITY_LIMITS then Some (m_limits m) else None.
Definition mget_once (m : manifest) (k : Z) : option (option tval) :=
  if k =? K_SCHEDULE_ONCE then Some (m_once m) else None.
Definition mget_traits (m : manifest) (k : Z) : option (option (list str)) :=
  if k =? K_TRAITS then Some (m_traits m) else None.

(** * The objects: the attributes of scheduler.Application / scheduler.Server the scheduler model reads *)
Record app_obj := mkAO {
  ao_name : str;
  ao_prio : Z;
  ao_demand : list Z;                     (* np.array(demand, dtype=float) of three ints *)
  ao_aff : option str;                    (* affinity.name (None when the manifest names none) *)
  ao_limits : list (str * Z);             (* affinity.limits: the explicit entries; every other level: inf *)
  ao_drt : option Z;                      (* data_retention_timeout *)
  ao_lease : Z;
  ao_group : option str;                  (* identity_group *)
  ao_identity : option Z;
  ao_traits : Z;                          (* _traits *)
  ao_once : tval;                         (* schedule_once: the RAW manifest value; the scheduler tests bool() *)
  ao_blacklisted : bool;
  ao_evicted : bool;
  ao_unschedule : bool;
  ao_renew : bool;
  ao_server : option str;
  ao_expiry : option Z                    (* placement_expiry *)
}.

Definition set_prio (p : Z) (o : app_obj) : app_obj :=
  mkAO (ao_name o) p (ao_demand o) (ao_aff o) (ao_limits o) (ao_drt o) (ao_lease o) (ao_group o) (ao_identity o)
       (ao_traits o) (ao_once o) (ao_blacklisted o) (ao_evicted o) (ao_unschedule o) (ao_renew o) (ao_server o)
       (ao_expiry o).
Definition set_drt (d : option Z) (o : app_obj) : app_obj :=
  mkAO (ao_name o) (ao_prio o) (ao_demand o) (ao_aff o) (ao_limits o) d (ao_lease o) (ao_group o) (ao_identity o)
       (ao_traits o) (ao_once o) (ao_blacklisted o) (ao_evicted o) (ao_unschedule o) (ao_renew o) (ao_server o)
       (ao_expiry o).
Definition set_blacklisted (b : bool) (o : app_obj) : app_obj :=
  mkAO (ao_name o) (ao_prio o) (ao_demand o) (ao_aff o) (ao_limits o) (ao_drt o) (ao_lease o) (ao_group o)
       (ao_identity o) (ao_traits o) (ao_once o) b (ao_evicted o) (ao_unschedule o) (ao_renew o) (ao_server o)
       (ao_expiry o).

(** affinity.limits[level]: None = float('inf') (the defaultdict's factory) *)
Fixpoint sfind (k : str) (l : list (str * Z)) : option Z :=
  match l with
  | [] => None
  | (a, v) :: r => if str_eqb a k then Some v else sfind k r
  end.
Definition limit_at (o : app_obj) (level : str) : option Z := sfind level (ao_limits o).

Record srv_obj := mkSO {
  so_name : str;
  so_label : str;                         (* labels = {label} *)
  so_cap : list Z;                        (* init_capacity *)
  so_free : list Z;                       (* free_capacity = init_capacity.copy() *)
  so_traits : Z;                          (* traits.self_traits = traits.traits *)
  so_up_since : Z;
  so_valid_until : Z;
  so_parent : option str                  (* None until load_server attaches it *)
}.

(** * Loader.load_app *)
(** find_assignment: Some p = an assignment pattern of an allocation matches the instance name;
    None = find_default_assignment *)
Definition base_prio (T : ltables) (asg : option Z) : Z :=
  match asg with Some p => p | None => lt_default_prio T end.

(** if 'priority' in manifest and int(manifest['priority']) != -1: priority = int(manifest['priority']) *)
Definition prio_of (T : ltables) (m : manifest) (asg : option Z) : ures Z :=
  match key_of (lt_app_flow T) A_PRIORITY F_PRIORITY with
  | None => UException
  | Some (key, _) =>
      match mget_val m key with
      | None => UException
      | Some None => UOk (base_prio T asg)
      | Some (Some v) =>
          ubind (intv v) (fun p => if p =? lt_prio_unset T then UOk (base_prio T asg) else UOk p)
      end
  end.

(** _get_data_retention(manifest) *)
Definition drt_of (T : ltables) (m : manifest) : ures (option Z) :=
  match key_of (lt_app_flow T) A_DRT F_RETENTION with
  | None => UException
  | Some (key, d) =>
      if (d =? D_NOKEY) || (d =? D_NONE) then
        match mget_val m key with
        | None => UException
        | Some None => UOk None
        | Some (Some v) => ubind (to_seconds T v) (fun s => UOk (Some s))
        end
      else UException
  end.

(** _get_lease(manifest) *)
Definition lease_of (T : ltables) (m : manifest) : ures Z :=
  match key_of (lt_app_flow T) A_LEASE F_LEASE with
  | None => UException
  | Some (key, d) =>
      if d =? D_STR then
        match mget_val m key with
        | None => UException
        | Some None => to_seconds T (VStr (lt_lease_default T))
        | Some (Some v) => to_seconds T v
        end
      else UException
  end.

(** manifest.get(key) / manifest.get(key, None) handed to the constructor as it is *)
Definition direct_key (T : ltables) (a : Z) : option Z :=
  match key_of (lt_app_flow T) a F_GET with
  | Some (key, d) => if (d =? D_NOKEY) || (d =? D_NONE) then Some key else None
  | None => None
  end.
Definition ulift {A} (o : option A) : ures A := match o with Some a => UOk a | None => UException end.
Definition aff_of (T : ltables) (m : manifest) : ures (option str) :=
  ubind (ulift (direct_key T A_AFFINITY)) (fun k => ulift (mget_str m k)).
Definition grp_of (T : ltables) (m : manifest) : ures (option str) :=
  ubind (ulift (direct_key T A_IDENTITY_GROUP)) (fun k => ulift (mget_str m k)).
Definition limits_of (T : ltables) (m : manifest) : ures (option (list (str * Z))) :=
  ubind (ulift (direct_key T A_AFFINITY_LIMITS)) (fun k => ulift (mget_limits m k)).
Definition once_of (T : ltables) (m : manifest) : ures (option tval) :=
  ubind (ulift (direct_key T A_SCHEDULE_ONCE)) (fun k => ulift (mget_once m k)).

(** trait_list = manifest.get('traits', []); UException = the TypeError of iterating None when the getter had no
    list default *)
Definition trait_list_of (T : ltables) (m : manifest) : ures (list str) :=
  match key_of (lt_app_flow T) A_TRAITS F_ENCODE with
  | None => UException
  | Some (key, d) =>
      match mget_traits m key with
      | None => UException
      | Some (Some l) => UOk l
      | Some None => if d =? D_EMPTY_LIST then UOk [] else UException
      end
  end.

(** the constants Application.__init__ assigns: 2 = True, anything else falsy *)
Definition init_true (T : ltables) (a : Z) : bool :=
  match find (fun r => hd 0 r =? a) (lt_app_init T) with
  | Some [_; 2; 2] => true
  | _ => false
  end.

(** attributes assigned after the if/else on the object of either branch *)
Definition apply_after (T : ltables) (bl : bool) (o : app_obj) : app_obj :=
  if existsb (Z.eqb A_BLACKLISTED) (lt_app_after T) then set_blacklisted bl o else o.

(** Affinity(name, limits): limits = defaultdict(inf); if limits: self.limits.update(limits) *)
Definition aff_limits (l : option (list (str * Z))) : list (str * Z) :=
  match l with Some d => d | None => [] end.

(** the else-branch: a new scheduler.Application.  [codes] = Loader.trait_codes, [name] = the instance name,
    [asg] = find_assignment's pattern match, [bl] = _is_blacklisted(appname).
    Evaluation order as in the source: priority, data retention, lease, resources (memory, cpu, disk), the plain
    getters, traits.encode. *)
Definition load_new_app (T : ltables) (U : utables) (codes : tcodes) (name : str) (m : manifest)
           (asg : option Z) (bl : bool) : ures app_obj :=
  ubind (prio_of T m asg) (fun p =>
  ubind (drt_of T m) (fun d =>
  ubind (lease_of T m) (fun l =>
  ubind (match key_of (lt_app_flow T) A_DEMAND F_RESOURCES with
         | Some _ => resources U (m_res m) | None => UException end) (fun dem =>
  ubind (aff_of T m) (fun af =>
  ubind (limits_of T m) (fun lim =>
  ubind (grp_of T m) (fun g =>
  ubind (once_of T m) (fun on =>
  ubind (trait_list_of T m) (fun tl =>
  ubind (encode T (lt_app_encode T) codes tl) (fun tz =>
  UOk (apply_after T bl
        (mkAO name p dem af (aff_limits lim) d l g None (fst tz)
              (match on with Some v => v | None => TNone end)
              (init_true T A_BLACKLISTED) (init_true T A_EVICTED) (init_true T A_UNSCHEDULE)
              (init_true T A_RENEW) None None)))))))))))).

(** the if-branch: the instance is already in cell.apps.  priority, data retention AND lease are evaluated (a
    malformed lease raises although the lease is not assigned); only the attributes of [lt_app_refresh] are
    assigned *)
Definition set_attr (a : Z) (p : Z) (d : option Z) (o : app_obj) : app_obj :=
  if a =? A_PRIORITY then set_prio p o else if a =? A_DRT then set_drt d o else o.
Definition refresh_app (T : ltables) (m : manifest) (asg : option Z) (bl : bool) (o : app_obj) : ures app_obj :=
  ubind (prio_of T m asg) (fun p =>
  ubind (drt_of T m) (fun d =>
  ubind (lease_of T m) (fun _ =>
  if forallb (fun a => (a =? A_PRIORITY) || (a =? A_DRT)) (lt_app_refresh T)
  then UOk (apply_after T bl (fold_left (fun acc a => set_attr a p d acc) (lt_app_refresh T) o))
  else UException))).                    (* an attribute the model cannot refresh: excluded by [ltables_ok] *)

(** Loader.load_app on one instance: [existing] = cell.apps.get(appname); [mo] = None: the falsy manifest
    (absent node / {}), the instance is removed from the scheduler *)
Inductive load_result := LRemove | LLoaded (o : app_obj).
Definition load_app (T : ltables) (U : utables) (codes : tcodes) (existing : option app_obj) (name : str)
           (mo : option manifest) (asg : option Z) (bl : bool) : ures load_result :=
  match mo with
  | None => UOk LRemove
  | Some m =>
      match existing with
      | Some o => ubind (refresh_app T m asg bl o) (fun o' => UOk (LLoaded o'))
      | None => ubind (load_new_app T U codes name m asg bl) (fun o' => UOk (LLoaded o'))
      end
  end.

(** * Loader.create_server / load_server *)
Definition label_of (T : ltables) (r : srv_rec) : ures str :=
  match key_of (lt_srv_flow T) S_LABEL F_LABEL with
  | Some (key, d) =>
      if (key =? K_PARTITION) && ((d =? D_NOKEY) || (d =? D_NONE)) then
        match sr_partition r with
        | Some (c :: s) => UOk (c :: s)
        | _ => UOk (lt_default_partition T)         (* if not label: label = _DEFAULT_PARTITION *)
        end
      else UException
  | None => UException
  end.
Definition up_since_of (T : ltables) (now : Z) (r : srv_rec) : ures Z :=
  match key_of (lt_srv_flow T) S_UP_SINCE F_GET with
  | Some (key, d) =>
      if (key =? K_UP_SINCE) && (d =? D_NOW) then
        UOk (match sr_up_since r with Some t => t | None => now end)
      else UException
  | None => UException
  end.
Definition srv_trait_list_of (T : ltables) (r : srv_rec) : ures (list str) :=
  match key_of (lt_srv_flow T) S_TRAITS F_ENCODE with
  | Some (key, d) =>
      if key =? K_TRAITS then
        match sr_traits r with
        | Some l => UOk l
        | None => if d =? D_EMPTY_LIST then UOk [] else UException
        end
      else UException
  | None => UException
  end.

(** The dict Loader.trait_codes is mutated by traits.encode(add_new=True) BEFORE resources(data) is evaluated:
    the new codes survive an exception of the capacity parsers.  Result: (server or exception, trait_codes after) *)
Definition ucast {A B} (e : ures A) : ures B :=
  match e with UOk _ => UException | UValueError => UValueError | UIndexError => UIndexError
             | UException => UException end.
(** the int default of a parameter of Server.__init__ (10 + n in the table) *)
Definition srv_default_int (T : ltables) (a : Z) : Z :=
  match find (fun r => hd 0 r =? a) (lt_srv_defaults T) with
  | Some [_; d] => if 10 <=? d then d - 10 else 0
  | _ => 0
  end.
Definition create_server (T : ltables) (U : utables) (codes : tcodes) (now : Z) (name : str) (r : srv_rec)
  : ures srv_obj * tcodes :=
  match label_of T r with
  | UOk label =>
      match up_since_of T now r with
      | UOk up =>
          match srv_trait_list_of T r with
          | UOk tl =>
              match encode T (lt_srv_encode T) codes tl with
              | UOk (tz, codes') =>
                  (ubind (match key_of (lt_srv_flow T) S_CAPACITY F_RESOURCES with
                          | Some _ => resources U (sr_res r) | None => UException end) (fun cap =>
                   UOk (mkSO name label cap cap tz up (srv_default_int T S_VALID_UNTIL) None)), codes')
              | e => (ucast e, codes)
              end
          | e => (ucast e, codes)
          end
      | e => (ucast e, codes)
      end
  | e => (ucast e, codes)
  end.

(** Loader.load_server up to self.servers[servername] = server ([buckets] = the names in Loader.buckets).
    The state / valid_until adjustments that follow are the scheduler model's OSetState / OSetValidUntil. *)
Inductive ls_result :=
  | LSNoData                       (* falsy record: 'No capacity detected', nothing happens *)
  | LSRaised (e : ures srv_obj)    (* create_server raised *)
  | LSAssertion                    (* assert 'parent' in data *)
  | LSNoParent                     (* the named bucket does not exist: the server is dropped *)
  | LSAttached (s : srv_obj).      (* buckets[parent].add_node(server); self.servers[name] = server *)
Definition load_server (T : ltables) (U : utables) (codes : tcodes) (now : Z) (buckets : list str) (name : str)
           (ro : option srv_rec) : ls_result * tcodes :=
  match ro with
  | None => (LSNoData, codes)
  | Some r =>
      match create_server T U codes now name r with
      | (UOk s, codes') =>
          match sr_parent r with
          | None => (LSAssertion, codes')
          | Some p =>
              if existsb (str_eqb p) buckets
              then (LSAttached (mkSO (so_name s) (so_label s) (so_cap s) (so_free s) (so_traits s)
                                     (so_up_since s) (so_valid_until s) (Some p)), codes')
              else (LSNoParent, codes')
          end
      | (e, codes') => (LSRaised e, codes')
      end
  end.

(** * What the tables must be (checked by vm_compute on the generated tables) *)
Fixpoint zl_eqb (a b : list Z) : bool :=
  match a, b with
  | [], [] => true
  | x :: a', y :: b' => (x =? y) && zl_eqb a' b'
  | _, _ => false
  end.
Fixpoint zll_eqb (a b : list (list Z)) : bool :=
  match a, b with
  | [], [] => true
  | x :: a', y :: b' => zl_eqb x y && zll_eqb a' b'
  | _, _ => false
  end.

(** S M H D, by code point *)
Definition canon_time_scale : list (Z * Z) := [(68, 86400); (72, 3600); (77, 60); (83, 1)].

Definition ltables_canon : ltables := {|
  lt_time_scale := canon_time_scale;
  lt_default_partition := [95; 100; 101; 102; 97; 117; 108; 116];     (* "_default" *)
  lt_prio_unset := -1;
  lt_default_prio := 1;
  lt_lease_default := [48; 115];                                       (* "0s" *)
  lt_invalid := [105; 110; 118; 97; 108; 105; 100];                    (* "invalid" *)
  lt_app_flow := [[1; 7; 0; 0]; [2; 6; 4; 0]; [3; 2; 0; 0]; [4; 1; 5; 0]; [5; 1; 6; 1]; [8; 1; 7; 0];
                  [11; 1; 8; 0]; [6; 3; 9; 0]; [10; 5; 11; 2]; [7; 4; 10; 3]];
  lt_app_refresh := [2; 6];
  lt_app_after := [12];
  lt_app_encode := [1; 0];
  lt_app_init := [[20; 5; 0]; [18; 2; 0]; [16; 2; 0]; [1; 1; 1]; [4; 4; 0]; [2; 1; 2]; [3; 3; 3]; [6; 1; 6];
                  [7; 1; 7]; [8; 1; 8]; [9; 1; 9]; [19; 2; 0]; [11; 1; 11]; [13; 2; 1]; [14; 2; 1]; [17; 2; 0];
                  [15; 2; 1]; [12; 2; 1]; [10; 1; 10]];
  lt_app_defaults := [[5; 0]; [6; 10]; [7; 10]; [8; 0]; [9; 0]; [10; 10]; [11; 1]];
  lt_aff_init := [1];
  lt_srv_flow := [[31; 7; 0; 0]; [32; 2; 0; 0]; [33; 1; 13; 4]; [34; 9; 12; 0]; [35; 5; 11; 2]];
  lt_srv_encode := [0; 1];
  lt_srv_init := [[34; 6; 34]; [32; 3; 32]; [38; 8; 0]; [39; 9; 0]; [33; 1; 33]; [37; 1; 37]; [35; 7; 35];
                  [36; 1; 36]];
  lt_srv_defaults := [[33; 10]; [36; 10]; [35; 10]; [34; 0]; [37; 0]];
  lt_load_server := [1]
|}.

Definition ltables_ok (T : ltables) : bool :=
  zz_eqb (lt_time_scale T) canon_time_scale &&
  str_eqb (lt_default_partition T) (lt_default_partition ltables_canon) &&
  (lt_prio_unset T =? -1) && (lt_default_prio T =? 1) &&
  str_eqb (lt_lease_default T) (lt_lease_default ltables_canon) &&
  str_eqb (lt_invalid T) (lt_invalid ltables_canon) &&
  zll_eqb (lt_app_flow T) (lt_app_flow ltables_canon) &&
  zl_eqb (lt_app_refresh T) (lt_app_refresh ltables_canon) &&
  zl_eqb (lt_app_after T) (lt_app_after ltables_canon) &&
  zl_eqb (lt_app_encode T) (lt_app_encode ltables_canon) &&
  zll_eqb (lt_app_init T) (lt_app_init ltables_canon) &&
  zll_eqb (lt_app_defaults T) (lt_app_defaults ltables_canon) &&
  zl_eqb (lt_aff_init T) (lt_aff_init ltables_canon) &&
  zll_eqb (lt_srv_flow T) (lt_srv_flow ltables_canon) &&
  zl_eqb (lt_srv_encode T) (lt_srv_encode ltables_canon) &&
  zll_eqb (lt_srv_init T) (lt_srv_init ltables_canon) &&
  zll_eqb (lt_srv_defaults T) (lt_srv_defaults ltables_canon) &&
  zl_eqb (lt_load_server T) (lt_load_server ltables_canon).

(** * The scheduler model's view: what Loader.load_app / load_server hand to Sched/Events.v.
      [id] is the harness's bijection between Python names and the model's identifiers; [none_aff] the
      identifier of the affinity name None. *)
Section Bridge.
  Variable id : str -> Z.
  Variable none_aff : Z.

  Definition sched_app (order : Z) (o : app_obj) : app :=
    mkApp (id (ao_name o)) (ao_prio o) (ao_demand o)
          (match ao_aff o with Some s => id s | None => none_aff end)
          (map (fun kv => (id (fst kv), snd kv)) (ao_limits o))
          (ao_traits o) (ao_lease o) (ao_drt o) (option_map id (ao_group o)) (truthy (ao_once o)) order
          None (option_map id (ao_server o)) (ao_identity o) (ao_expiry o)
          (ao_evicted o) (ao_unschedule o) (ao_renew o) (ao_blacklisted o) (-1).

  (** the operations of the scheduler model one load_app performs ([label], [path]: the allocation
      find_assignment returned) *)
  Definition load_app_ops (label : Z) (path : list Z) (order : Z) (existing : bool) (o : app_obj) : list op :=
    if existing
    then [OSetPrio (id (ao_name o)) (ao_prio o); OSetDrt (id (ao_name o)) (ao_drt o);
          OSetBlacklisted (id (ao_name o)) (ao_blacklisted o); OAddApp label path (sched_app order o)]
    else [OAddApp label path (sched_app order o)].

  (** ... and one load_server (before adjust_server_state / set_server_valid_until) *)
  Definition load_server_op (s : srv_obj) : option op :=
    match so_parent s with
    | Some p => Some (OAddServer (id (so_name s)) (id p) (so_cap s) (id (so_label s)) (so_traits s)
                                 (so_valid_until s))
    | None => None
    end.
End Bridge.
