(** Executable model of what treadmill.scheduler.master.Master does BETWEEN two publications, at the level of
    abstraction of Master/Publish.v.

    State = what the publication theorems of PublishP talk about:
      [h_apps]     per instance of cell.apps: app.server and Master._placement_data(app) = {identity, identity_count, expires}
      [h_servers]  the keys of Loader.servers
      [h_store]    the /placement/<server>/<instance> nodes with their data

    One [hop] = one call of a handler of the real Master (or one edit of a producer the handler reacts to), as read
    from master.py / loader.py / scheduler/__init__.py:

      HLoadApp a          Loader.load_app of an instance with a manifest (process_scheduled: target - current;
                          _handle_apps_event; _handle_allocations_event -> load_apps).  New: cell.add_app, pending, no
                          identity, no expiry.  Known: priority / allocation / data retention only - nothing the
                          publication reads.  No backend write under /placement.
      HRemoveApp a        Master.remove_app (process_scheduled: current - target; load_app without a manifest):
                          if app.server: backend.delete(/placement/<app.server>/<a>); cell.remove_app.
      HLoadServer s       Loader.load_server of a server Loader.servers does not hold (reload_server of a never loaded
                          server, record appeared): the server joins; ensure_exists(/placement/<s>) is not an entry;
                          restore_placement is NOT called (entries left under <s> stay).
      HServerSame s       Loader.reload_server, is_same and same parent: up_since only.
      HRemoveServer s     Loader.remove_server (record gone / no data): server.remove_all() - every instance of <s> gets
                          server None, placement_expiry None, keeps its identity - and NO backend write.   [defective]
      HApiDelete s        the producer masterapi.delete_server: /placement/<s> deleted recursively (model untouched).
      HServerDeleted s    HApiDelete s followed by HRemoveServer s with no publication in between (what
                          masterapi.delete_server + the `servers` event amount to when no cycle runs in the window).
      HReloadServer s outs  Loader.reload_server of a modified server: remove_server; load_server; and, if the server held
                          instances, restore_placement(s, restore_identity=False): every child of /placement/<s>: unknown
                          instance -> node deleted; else Server.restore (expiry := the node's) when the presence is not
                          newer than the node, otherwise Server.put (expiry := now + lease, as remove_all left None);
                          failure -> node deleted (schedule-once: instance removed).  Which of the three happens, and
                          the expiry after a put, are the scheduler's decisions: [outs], taken from the implementation.
                          A successful put with an expiry other than the stored one is NOT republished.   [defective]
      HGroupCount members n   Cell.configure_identity_group(g, n) / remove_identity_group(g) of a group in use
                          (IdentityGroup.adjust): identity_count of every holder of an identity of <g> becomes n; no
                          backend write (the stored identity_count goes stale; the statement of C09 names identity and
                          expiry only - [Core] below).
      HNoView tag         handlers that only change what the NEXT cycle computes: adjust_presence up -> down,
                          _handle_server_state_event / _freeze_server (state, app.unschedule; _record_server_state
                          writes the DATA of /placement/<s>, not a child), _handle_apps_blacklist_event,
                          process_blackedout_servers, load_allocations, a renewal request, _check_pending_start, time.
      HCycle tuples i once    Master.reschedule: Cell.schedule() returned [tuples], cell.apps then reads [i];
                          the store receives Publish.reschedule_writes.
      HIntegrity pairs    Loader.check_placement_integrity on the listing [pairs] (Publish.integrity).
      HRestart dels servers apps   a new Master: load_model() (its restore_placements only ever deletes: [dels]) and
                          init_schedule(): the start-up cycle leaves the model [apps] over [servers]; the store receives
                          Publish.init_writes.

    Model file: no proofs (Master/HandlersP.v). *)
From Coq Require Import ZArith List Bool.
From TM Require Import Master.Publish.
Import ListNotations.
Open Scope Z_scope.

(** * State *)
Definition aview := (option Z * pdata)%type.         (* app.server, _placement_data(app) *)
Definition apps := list (Z * aview).

Fixpoint view (l : apps) (a : Z) : option aview :=
  match l with
  | [] => None
  | (n, v) :: r => if Z.eqb n a then Some v else view r a
  end.
Definition amap (g : Z -> aview -> aview) (l : apps) : apps := map (fun p => (fst p, g (fst p) (snd p))) l.
Definition adrop (a : Z) (l : apps) : apps := filter (fun p => negb (Z.eqb (fst p) a)) l.
Definition aset (a : Z) (v : aview) (l : apps) : apps := amap (fun n v0 => if Z.eqb n a then v else v0) l.

Record hstate := mkH { h_apps : apps; h_servers : list Z; h_store : store }.
Definition h0 : hstate := mkH [] [] [].

Definition set_expires (d : pdata) (e : option Z) : pdata := mkPD (pd_identity d) (pd_count d) e.
Definition set_count (d : pdata) (n : option Z) : pdata := mkPD (pd_identity d) n (pd_expires d).
Definition is_some (o : option Z) : bool := match o with Some _ => true | None => false end.

(** * Handlers *)
Definition load_app (a : Z) (st : hstate) : hstate :=
  match view (h_apps st) a with
  | Some _ => st
  | None => mkH (h_apps st ++ [(a, (None, no_pdata))]) (h_servers st) (h_store st)
  end.

Definition remove_app (a : Z) (st : hstate) : hstate :=
  match view (h_apps st) a with
  | None => st
  | Some (sv, _) =>
      mkH (adrop a (h_apps st)) (h_servers st)
          (match sv with Some s => sdel s a (h_store st) | None => h_store st end)
  end.

(** Server.remove for every instance of the server: server None, placement_expiry None; the identity stays *)
Definition unplace (s : Z) (_ : Z) (v : aview) : aview :=
  if oeqb (fst v) (Some s) then (None, set_expires (snd v) None) else v.
Definition placed_any (s : Z) (l : apps) : bool := existsb (fun p => oeqb (fst (snd p)) (Some s)) l.

Definition remove_server (s : Z) (st : hstate) : hstate :=
  if zmem s (h_servers st)
  then mkH (amap (unplace s) (h_apps st)) (filter (fun x => negb (Z.eqb x s)) (h_servers st)) (h_store st)
  else st.

Definition load_server (s : Z) (st : hstate) : hstate :=
  if zmem s (h_servers st) then st else mkH (h_apps st) (h_servers st ++ [s]) (h_store st).

Definition api_delete (s : Z) (st : hstate) : hstate :=
  mkH (h_apps st) (h_servers st) (filter (fun e => negb (Z.eqb (e_server e) s)) (h_store st)).

(** outcome of one child of /placement/<s> in Loader.restore_placement, for an instance the model knows *)
Inductive rout :=
| RRestored                      (* Server.restore succeeded: expiry := the node's *)
| RPlaced (e : option Z)         (* Server.put succeeded: expiry := e *)
| RFailed (kept once : bool).    (* node deleted; kept: Server.restore assigned the node's expiry all the same;
                                    once: schedule-once instance, removed from the model *)
Fixpoint decide (outs : list (Z * rout)) (a : Z) : rout :=
  match outs with
  | [] => RFailed false false
  | (n, o) :: r => if Z.eqb n a then o else decide r a
  end.

Definition restore_one (s : Z) (outs : list (Z * rout)) (st : hstate) (a : Z) : hstate :=
  match view (h_apps st) a with
  | None => mkH (h_apps st) (h_servers st) (sdel s a (h_store st))      (* stale app - safely ignored *)
  | Some (sv, d) =>
      match lookup (h_store st) s a with
      | None => st                                                       (* ObjectNotFoundError: continue *)
      | Some sd =>
          match decide outs a with
          | RRestored =>
              mkH (aset a (Some s, set_expires d (pd_expires sd)) (h_apps st)) (h_servers st) (h_store st)
          | RPlaced e =>
              mkH (aset a (Some s, set_expires d e) (h_apps st)) (h_servers st) (h_store st)
          | RFailed kept once =>
              let st1 := mkH (aset a (sv, set_expires d (if kept then pd_expires sd else pd_expires d)) (h_apps st))
                             (h_servers st) (sdel s a (h_store st)) in
              if once then remove_app a st1 else st1
          end
      end
  end.

(** Loader.restore_placement(s, restore_identity=False): placed_apps = the children of /placement/<s> (a set of names);
    server.remove_all(); then one child after the other *)
Definition restore_placement (s : Z) (outs : list (Z * rout)) (st : hstate) : hstate :=
  fold_left (restore_one s outs) (nodup_z (listing (h_store st) s))
            (mkH (amap (unplace s) (h_apps st)) (h_servers st) (h_store st)).

(** Loader.reload_server *)
Definition reload_server (s : Z) (outs : list (Z * rout)) (st : hstate) : hstate :=
  if zmem s (h_servers st)
  then let has_apps := placed_any s (h_apps st) in
       let st1 := load_server s (remove_server s st) in
       if has_apps then restore_placement s outs st1 else st1
  else load_server s st.

Definition group_count (members : list Z) (n : Z) (st : hstate) : hstate :=
  mkH (amap (fun a v => if zmem a members && is_some (pd_identity (snd v))
                        then (fst v, set_count (snd v) (Some n)) else v) (h_apps st))
      (h_servers st) (h_store st).

(** cell.apps after a cycle *)
Definition cycle_apps (tuples : list ptuple) (i : info) : apps :=
  map (fun t => (t_name t, (t_sa t, get_info i (t_name t)))) tuples.
Definition cycle (c : cfg) (tuples : list ptuple) (i : info) (once : list Z) (st : hstate) : hstate :=
  mkH (cycle_apps tuples i) (h_servers st) (apply_writes (h_store st) (reschedule_writes c tuples i once)).

Definition where_view (l : apps) (a : Z) : option (option Z) := option_map fst (view l a).
Definition placed_pairs (l : apps) : list (Z * Z) :=
  flat_map (fun p => match fst (snd p) with Some s => [(fst p, s)] | None => [] end) l.
Definition integrity_writes (c : cfg) (pairs : list (Z * Z)) (st : hstate) : list write :=
  fst (integrity (cf_integ_update c) (where_view (h_apps st)) (placed_pairs (h_apps st)) pairs).
Definition integrity_step (c : cfg) (pairs : list (Z * Z)) (st : hstate) : hstate :=
  mkH (h_apps st) (h_servers st) (apply_writes (h_store st) (integrity_writes c pairs st)).

Definition placed_on (l : apps) (s : Z) : list Z := map fst (filter (fun p => oeqb (fst (snd p)) (Some s)) l).
Definition info_of (l : apps) : info := map (fun p => (fst p, snd (snd p))) l.
Definition members_of (servers : list Z) (l : apps) : list (Z * list Z) := map (fun s => (s, placed_on l s)) servers.
Definition restart (c : cfg) (dels : list (Z * Z)) (servers : list Z) (l : apps) (st : hstate) : hstate :=
  let st1 := fold_left (fun acc p => sdel (fst p) (snd p) acc) dels (h_store st) in
  mkH l servers (apply_writes st1 (init_writes c st1 (info_of l) (members_of servers l))).

(** * Alphabet *)
Inductive hop :=
| HLoadApp (a : Z)
| HRemoveApp (a : Z)
| HLoadServer (s : Z)
| HServerSame (s : Z)
| HRemoveServer (s : Z)
| HApiDelete (s : Z)
| HServerDeleted (s : Z)
| HReloadServer (s : Z) (outs : list (Z * rout))
| HGroupCount (members : list Z) (n : Z)
| HNoView (tag : Z)
| HCycle (tuples : list ptuple) (i : info) (once : list Z)
| HIntegrity (pairs : list (Z * Z))
| HRestart (dels : list (Z * Z)) (servers : list Z) (l : apps).

Definition hstep (c : cfg) (op : hop) (st : hstate) : hstate :=
  match op with
  | HLoadApp a => load_app a st
  | HRemoveApp a => remove_app a st
  | HLoadServer s => load_server s st
  | HServerSame _ => st
  | HRemoveServer s => remove_server s st
  | HApiDelete s => api_delete s st
  | HServerDeleted s => remove_server s (api_delete s st)
  | HReloadServer s outs => reload_server s outs st
  | HGroupCount members n => group_count members n st
  | HNoView _ => st
  | HCycle tuples i once => cycle c tuples i once st
  | HIntegrity pairs => integrity_step c pairs st
  | HRestart dels servers l => restart c dels servers l st
  end.

Definition hrun (c : cfg) (ops : list hop) (st : hstate) : hstate := fold_left (fun acc op => hstep c op acc) ops st.

(** * What a step is allowed to assume
    [Full]: node content compared field by field (identity, identity_count, expires);
    [Core]: the fields the statement of C09 names (identity, expires). *)
Inductive mode := Full | Core.
Definition psim (m : mode) (d d' : pdata) : bool :=
  match m with
  | Full => pdata_eqb d d'
  | Core => oeqb (pd_identity d) (pd_identity d') && oeqb (pd_expires d) (pd_expires d')
  end.

(** the node the model stands for *)
Definition expected (l : apps) (s a : Z) : option pdata :=
  match view l a with
  | Some (Some s', d) => if Z.eqb s' s then Some d else None
  | _ => None
  end.

(** executable form of the invariant (the store is finite: every node is the expected one, every placed instance has
    its node) - used by the harness and by the non-vacuity examples; HandlersP proves it sound *)
Definition osim (m : mode) (x y : option pdata) : bool :=
  match x, y with
  | Some d, Some d' => psim m d d'
  | None, None => true
  | _, _ => false
  end.
Definition pubinvb (m : mode) (st : hstate) : bool :=
  forallb (fun e => osim m (lookup (h_store st) (e_server e) (e_app e)) (expected (h_apps st) (e_server e) (e_app e)))
          (h_store st)
  && forallb (fun p => match view (h_apps st) (fst p) with
                       | Some (Some s, d) => osim m (lookup (h_store st) s (fst p)) (Some d)
                       | _ => true
                       end) (h_apps st).

Fixpoint nodup_pairs (l : list (Z * Z)) : bool :=
  match l with
  | [] => true
  | p :: r => negb (existsb (fun q => Z.eqb (fst p) (fst q) && Z.eqb (snd p) (snd q)) r) && nodup_pairs r
  end.

(** the scheduler's side of a cycle, checked on every real cycle by the harness: one tuple per instance of cell.apps,
    `before` = what the model held, and a PLACED instance reported unchanged (same server, same expiry) has the data it
    had (a pending one may have released its identity) *)
Definition cycle_wf (st : hstate) (tuples : list ptuple) (i : info) : bool :=
  nodupb (map t_name tuples)
  && forallb (fun t => match view (h_apps st) (t_name t) with
                       | Some (sv, d) =>
                           oeqb sv (t_sb t) && oeqb (pd_expires d) (t_eb t)
                           && (changed canonical_cfg t || negb (is_some (t_sb t))
                               || pdata_eqb d (get_info i (t_name t)))
                       | None => false
                       end) tuples
  && forallb (fun p => zmem (fst p) (map t_name tuples)) (h_apps st).

(** parameters consistent with the state they are applied to *)
Definition wf_op (st : hstate) (op : hop) : bool :=
  match op with
  | HCycle tuples i _ => cycle_wf st tuples i
  | HIntegrity pairs => nodup_pairs pairs && forallb (fun p => has (h_store st) (fst p) (snd p)) pairs
  | HRestart _ servers l =>
      nodupb servers && nodupb (map fst l)
      && forallb (fun p => match fst (snd p) with Some s => zmem s servers | None => true end) l
  | _ => true
  end.

(** the handlers that keep the store in step with the model; [false] exactly on the defective uses *)
Definition no_entries_under (s : Z) (st : store) : bool := forallb (fun e => negb (Z.eqb (e_server e) s)) st.
Definition sound_op (m : mode) (st : hstate) (op : hop) : bool :=
  match op with
  | HRemoveServer s => no_entries_under s (h_store st)
  | HApiDelete s => no_entries_under s (h_store st)
  | HServerDeleted s => zmem s (h_servers st) || no_entries_under s (h_store st)
  | HReloadServer s outs =>
      forallb (fun e => negb (Z.eqb (e_server e) s)
                        || match decide outs (e_app e) with
                           | RPlaced ex => oeqb ex (pd_expires (e_data e))
                           | _ => true
                           end) (h_store st)
  | HGroupCount members n =>
      match m with
      | Core => true
      | Full => forallb (fun p => negb (zmem (fst p) members && is_some (pd_identity (snd (snd p)))
                                         && is_some (fst (snd p)))
                                  || oeqb (pd_count (snd (snd p))) (Some n)) (h_apps st)
      end
  | HRestart dels servers _ => forallb (fun e => zmem (e_server e) servers) (h_store st)
  | _ => true
  end.
Definition ok_op (m : mode) (st : hstate) (op : hop) : bool := wf_op st op && sound_op m st op.

Fixpoint all_ok (m : mode) (c : cfg) (ops : list hop) (st : hstate) : bool :=
  match ops with
  | [] => true
  | op :: r => ok_op m st op && all_ok m c r (hstep c op st)
  end.
(** the same with the defective uses let through: parameters consistent, nothing else *)
Fixpoint all_wf (c : cfg) (ops : list hop) (st : hstate) : bool :=
  match ops with
  | [] => true
  | op :: r => wf_op st op && all_wf c r (hstep c op st)
  end.

(** * Flattening for the correspondence check *)
Fixpoint insert_z (x : Z) (l : list Z) : list Z :=
  match l with [] => [x] | y :: r => if Z.leb x y then x :: y :: r else y :: insert_z x r end.
Definition sort_z (l : list Z) : list Z := fold_left (fun acc x => insert_z x acc) l [].
Fixpoint insert_app (x : Z * aview) (l : apps) : apps :=
  match l with [] => [x] | y :: r => if Z.leb (fst x) (fst y) then x :: y :: r else y :: insert_app x r end.
Definition sort_apps (l : apps) : apps := fold_left (fun acc x => insert_app x acc) l [].
Definition flat_app (p : Z * aview) : list Z := fst p :: zopt (fst (snd p)) ++ flat_pdata (snd (snd p)).
Definition flat_state (st : hstate) : list Z :=
  Z.of_nat (length (h_apps st)) :: flat_map flat_app (sort_apps (h_apps st))
  ++ Z.of_nat (length (h_servers st)) :: sort_z (h_servers st)
  ++ flat_store (h_store st).
Definition zb (b : bool) : Z := if b then 1 else 0.

(** after every hop: is the step well-formed, then the whole abstract state *)
Fixpoint run_obs (c : cfg) (ops : list hop) (st : hstate) : list Z :=
  match ops with
  | [] => []
  | op :: r => let st' := hstep c op st in zb (wf_op st op) :: flat_state st' ++ run_obs c r st'
  end.
Definition hcase (c : cfg) (x : hstate * list hop) : list Z := run_obs c (snd x) (fst x).

(** per hop: sound in Full mode, sound in Core mode, invariant (Full, Core) after the hop - statistics of the stage *)
Fixpoint run_flags (c : cfg) (ops : list hop) (st : hstate) : list Z :=
  match ops with
  | [] => []
  | op :: r => let st' := hstep c op st in
               zb (sound_op Full st op) :: zb (sound_op Core st op) :: zb (pubinvb Full st') :: zb (pubinvb Core st')
               :: run_flags c r st'
  end.
Definition hflags (c : cfg) (x : hstate * list hop) : list Z := run_flags c (snd x) (fst x).
