(** Proofs about Master/Publish.v: crash safety of the two-pass publication (every prefix of the
    write list), the published state, init_schedule, check_placement_integrity, duplicate dropping. *)
From Coq Require Import ZArith List Bool Lia.
From TM Require Import Master.Publish.
Import ListNotations.
Open Scope Z_scope.

(** * Store basics *)
Definition same_key (s a s' a' : Z) : bool := Z.eqb s s' && Z.eqb a a'.

Lemma key_is_true s a e : key_is s a e = true <-> e_server e = s /\ e_app e = a.
Proof.
  unfold key_is. rewrite andb_true_iff, !Z.eqb_eq. tauto.
Qed.

Lemma key_is_two s a s' a' e :
  key_is s a e = true -> key_is s' a' e = same_key s a s' a'.
Proof.
  intros H. apply key_is_true in H as [H1 H2]. unfold key_is, same_key. rewrite H1, H2. reflexivity.
Qed.

Lemma same_key_true s a s' a' : same_key s a s' a' = true <-> s = s' /\ a = a'.
Proof. unfold same_key. rewrite andb_true_iff, !Z.eqb_eq. tauto. Qed.

Lemma same_key_refl s a : same_key s a s a = true.
Proof. apply same_key_true. auto. Qed.

Lemma has_lookup st s a : has st s a = match lookup st s a with Some _ => true | None => false end.
Proof.
  induction st as [|e st IH]; cbn; [reflexivity|].
  destruct (key_is s a e); cbn; [reflexivity|exact IH].
Qed.

Lemma lookup_sdel s a st s' a' :
  lookup (sdel s a st) s' a' = if same_key s a s' a' then None else lookup st s' a'.
Proof.
  unfold sdel. induction st as [|e st IH]; cbn.
  - destruct (same_key s a s' a'); reflexivity.
  - destruct (key_is s a e) eqn:K; cbn.
    + rewrite IH. rewrite (key_is_two _ _ s' a' _ K). destruct (same_key s a s' a'); reflexivity.
    + destruct (key_is s' a' e) eqn:K'; [|exact IH].
      destruct (same_key s a s' a') eqn:SK; [|reflexivity].
      apply same_key_true in SK as [-> ->]. congruence.
Qed.

Lemma lookup_sput s a d st s' a' :
  lookup (sput s a d st) s' a' = if same_key s a s' a' then Some d else lookup st s' a'.
Proof.
  unfold sput. cbn [lookup].
  change (key_is s' a' (s, a, d)) with (same_key s a s' a'). cbn [e_data snd].
  rewrite lookup_sdel. destruct (same_key s a s' a'); reflexivity.
Qed.

Lemma has_sdel s a st s' a' : has (sdel s a st) s' a' = has st s' a' && negb (same_key s a s' a').
Proof.
  rewrite !has_lookup, lookup_sdel. destruct (same_key s a s' a'); cbn.
  - rewrite andb_false_r. reflexivity.
  - rewrite andb_true_r. reflexivity.
Qed.

Lemma has_sput s a d st s' a' : has (sput s a d st) s' a' = same_key s a s' a' || has st s' a'.
Proof.
  rewrite !has_lookup, lookup_sput. destruct (same_key s a s' a'); reflexivity.
Qed.

Lemma zmem_In x l : zmem x l = true <-> In x l.
Proof.
  unfold zmem. rewrite existsb_exists. split.
  - intros [y [H1 H2]]. apply Z.eqb_eq in H2. subst. exact H1.
  - intros H. exists x. split; [exact H|apply Z.eqb_refl].
Qed.

Lemma zmem_listing st s a : zmem a (listing st s) = has st s a.
Proof.
  unfold listing, has, zmem. induction st as [|e st IH]; [reflexivity|].
  cbn [filter existsb]. unfold key_is at 1. destruct (Z.eqb (e_server e) s) eqn:E.
  - cbn [map existsb andb]. rewrite IH. rewrite (Z.eqb_sym a (e_app e)). reflexivity.
  - cbn [andb orb]. exact IH.
Qed.

Lemma apply_writes_app st ws1 ws2 : apply_writes st (ws1 ++ ws2) = apply_writes (apply_writes st ws1) ws2.
Proof. unfold apply_writes. apply fold_left_app. Qed.

(** which key a write touches *)
Definition touches (s a : Z) (w : write) : bool :=
  match w with
  | WDel s' a' => same_key s' a' s a
  | WPut s' a' _ => same_key s' a' s a
  | _ => false
  end.
Definition is_put (w : write) : bool := match w with WPut _ _ _ => true | _ => false end.

Lemma lookup_apply_write st w s a :
  lookup (apply_write st w) s a =
  if touches s a w then match w with WPut _ _ d => Some d | _ => None end else lookup st s a.
Proof.
  destruct w; cbn [apply_write touches]; try reflexivity.
  - rewrite lookup_sdel. reflexivity.
  - rewrite lookup_sput. reflexivity.
Qed.

Lemma lookup_untouched ws : forall st s a,
  Forall (fun w => touches s a w = false) ws -> lookup (apply_writes st ws) s a = lookup st s a.
Proof.
  induction ws as [|w ws IH]; intros st s a H; cbn; [reflexivity|].
  inversion H as [|? ? Hw Hr]; subst. unfold apply_writes in IH. rewrite IH by exact Hr.
  rewrite lookup_apply_write, Hw. reflexivity.
Qed.

Lemma lookup_put_stays ws : forall st s a d,
  lookup st s a = Some d ->
  (forall w, In w ws -> touches s a w = true -> w = WPut s a d) ->
  lookup (apply_writes st ws) s a = Some d.
Proof.
  induction ws as [|w ws IH]; intros st s a d H0 H; cbn; [exact H0|].
  unfold apply_writes in IH. apply IH.
  - rewrite lookup_apply_write. destruct (touches s a w) eqn:T; [|exact H0].
    rewrite (H w (or_introl eq_refl) T). reflexivity.
  - intros w' Hin. apply H. right. exact Hin.
Qed.

Lemma lookup_put_wins ws : forall st s a d,
  In (WPut s a d) ws ->
  (forall w, In w ws -> touches s a w = true -> w = WPut s a d) ->
  lookup (apply_writes st ws) s a = Some d.
Proof.
  induction ws as [|w ws IH]; intros st s a d Hin H; [contradiction|].
  cbn. destruct Hin as [->|Hin].
  - apply lookup_put_stays.
    + rewrite lookup_apply_write. cbn [touches]. rewrite same_key_refl. reflexivity.
    + intros w' Hw'. apply H. right. exact Hw'.
  - unfold apply_writes in IH. apply IH; [exact Hin|].
    intros w' Hw'. apply H. right. exact Hw'.
Qed.

Lemma lookup_del_wins ws : forall st s a,
  In (WDel s a) ws ->
  (forall w, In w ws -> touches s a w = true -> is_put w = false) ->
  lookup (apply_writes st ws) s a = None.
Proof.
  assert (stays : forall ws st s a, lookup st s a = None ->
            (forall w, In w ws -> touches s a w = true -> is_put w = false) ->
            lookup (apply_writes st ws) s a = None).
  { clear. induction ws as [|w ws IH]; intros st s a H0 H; cbn; [exact H0|].
    unfold apply_writes in IH. apply IH.
    - rewrite lookup_apply_write. destruct (touches s a w) eqn:T; [|exact H0].
      specialize (H w (or_introl eq_refl) T). destruct w; cbn in H; try discriminate; reflexivity.
    - intros w' Hin. apply H. right. exact Hin. }
  induction ws as [|w ws IH]; intros st s a Hin H; [contradiction|].
  cbn. destruct Hin as [->|Hin].
  - apply stays.
    + rewrite lookup_apply_write. cbn [touches]. rewrite same_key_refl. reflexivity.
    + intros w' Hw'. apply H. right. exact Hw'.
  - unfold apply_writes in IH. apply IH; [exact Hin|].
    intros w' Hw'. apply H. right. exact Hw'.
Qed.

(** deletions and neutral writes only shrink the set of nodes *)
Lemma has_apply_nonput st w s a : is_put w = false -> has (apply_write st w) s a = true -> has st s a = true.
Proof.
  destruct w; cbn [apply_write is_put]; intros Hp H; try exact H; try discriminate.
  rewrite has_sdel in H. apply andb_true_iff in H. tauto.
Qed.

Lemma has_apply_nonputs ws : forall st s a,
  Forall (fun w => is_put w = false) ws -> has (apply_writes st ws) s a = true -> has st s a = true.
Proof.
  induction ws as [|w ws IH]; intros st s a H Hh; cbn in *; [exact Hh|].
  inversion H as [|? ? Hw Hr]; subst. unfold apply_writes in IH.
  apply (has_apply_nonput st w); [exact Hw|]. apply (IH _ _ _ Hr Hh).
Qed.

Lemma has_lookup_none st s a : lookup st s a = None -> has st s a = false.
Proof. intros H. rewrite has_lookup, H. reflexivity. Qed.

Lemma firstn_Forall {A} (P : A -> Prop) (l : list A) k : Forall P l -> Forall P (firstn k l).
Proof.
  revert k. induction l as [|x l IH]; intros k H; destruct k; cbn; try constructor.
  - inversion H; assumption.
  - apply IH. inversion H; assumption.
Qed.

Lemma prefix_app {A} (l1 l2 : list A) k :
  (firstn k (l1 ++ l2) = firstn k l1) \/ (exists k', firstn k (l1 ++ l2) = l1 ++ firstn k' l2).
Proof.
  rewrite firstn_app. destruct (Nat.le_gt_cases k (length l1)) as [H|H].
  - left. replace (k - length l1)%nat with 0%nat by lia. cbn. apply app_nil_r.
  - right. exists (k - length l1)%nat. rewrite firstn_all2 by lia. reflexivity.
Qed.

(** * The generic safety invariant of a publication
    [tg a s]: the publication may create an entry for instance [a] under server [s] only. *)
Definition pinned (tg : Z -> Z -> Prop) (st : store) : Prop :=
  forall a s, tg a s -> forall s', has st s' a = true -> s' = s.
Definition functional (tg : Z -> Z -> Prop) : Prop := forall a s1 s2, tg a s1 -> tg a s2 -> s1 = s2.
Definition put_within (tg : Z -> Z -> Prop) (w : write) : Prop :=
  match w with WPut s a _ => tg a s | _ => True end.

Lemma safe_write tg st w :
  functional tg -> put_within tg w -> no_double st /\ pinned tg st ->
  no_double (apply_write st w) /\ pinned tg (apply_write st w).
Proof.
  intros F Hw [ND P]. destruct w as [s a|s a d|s|a|a|]; cbn [apply_write]; try (split; assumption).
  - split.
    + intros a1 s1 s2 H1 H2. rewrite has_sdel in H1, H2.
      apply andb_true_iff in H1 as [H1 _]. apply andb_true_iff in H2 as [H2 _]. eapply ND; eassumption.
    + intros a1 s1 T s' H. rewrite has_sdel in H. apply andb_true_iff in H as [H _]. eapply P; eassumption.
  - cbn in Hw.
    assert (E : forall s1 a1, has (sput s a d st) s1 a1 = true -> (s1 = s /\ a1 = a) \/ (has st s1 a1 = true)).
    { intros s1 a1 H. rewrite has_sput in H. apply orb_true_iff in H as [H|H]; [|right; exact H].
      apply same_key_true in H as [-> ->]. left. auto. }
    split.
    + intros a1 s1 s2 H1 H2. apply E in H1. apply E in H2.
      destruct H1 as [[-> ->]|H1], H2 as [[-> E2]|H2].
      * reflexivity.
      * symmetry. eapply P; eassumption.
      * subst a1. eapply P; eassumption.
      * eapply ND; eassumption.
    + intros a1 s0 T s' H. apply E in H. destruct H as [[-> ->]|H].
      * eapply F; eassumption.
      * eapply P; eassumption.
Qed.

Lemma safe_writes tg ws : forall st,
  functional tg -> Forall (put_within tg) ws -> no_double st /\ pinned tg st ->
  no_double (apply_writes st ws) /\ pinned tg (apply_writes st ws).
Proof.
  induction ws as [|w ws IH]; intros st F H I; cbn; [exact I|].
  inversion H as [|? ? Hw Hr]; subst. unfold apply_writes in IH. apply IH; [exact F|exact Hr|].
  apply safe_write; assumption.
Qed.

(** * Master.reschedule *)
Lemma phases_eqb_eq a b : phases_eqb a b = true -> a = b.
Proof.
  revert b. induction a as [|x a IH]; intros [|y b] H; cbn in H; try discriminate; [reflexivity|].
  apply andb_true_iff in H as [H1 H2]. apply IH in H2. subst.
  destruct x, y; cbn in H1; try discriminate; reflexivity.
Qed.

Lemma cfg_canonical_eq c : cfg_canonical c = true -> c = canonical_cfg.
Proof.
  unfold cfg_canonical. intros H.
  apply andb_true_iff in H as [H H7]. apply andb_true_iff in H as [H H6]. apply andb_true_iff in H as [H H5].
  apply andb_true_iff in H as [H H4]. apply andb_true_iff in H as [H H3]. apply andb_true_iff in H as [H1 H2].
  apply phases_eqb_eq in H1. apply phases_eqb_eq in H4. destruct c; cbn in *. subst. reflexivity.
Qed.

Definition resched_dels (tuples : list ptuple) := flat_map del_of (filter (changed canonical_cfg) tuples).
Definition resched_puts (tuples : list ptuple) (i : info) :=
  flat_map (put_of i) (filter (changed canonical_cfg) tuples).

Lemma reschedule_writes_canonical tuples i once :
  reschedule_writes canonical_cfg tuples i once =
  resched_dels tuples ++ resched_puts tuples i ++ (evicted_writes once ++ [WSave]).
Proof.
  unfold reschedule_writes, resched_dels, resched_puts. cbn [cf_phases canonical_cfg flat_map phase_writes].
  rewrite app_nil_r. reflexivity.
Qed.

Lemma dels_nonput tuples : Forall (fun w => is_put w = false) (resched_dels tuples).
Proof.
  unfold resched_dels. apply Forall_forall. intros w H. apply in_flat_map in H as [t [_ H]].
  unfold del_of in H. destruct (t_sb t); [|contradiction].
  destruct (oeqb _ _); [contradiction|]. destruct H as [<-|[]]. reflexivity.
Qed.

Lemma tail_nonput once : Forall (fun w => is_put w = false) (evicted_writes once ++ [WSave]).
Proof.
  apply Forall_app. split.
  - unfold evicted_writes. apply Forall_forall. intros w H. apply in_flat_map in H as [a [_ H]].
    destruct H as [<-|[<-|[]]]; reflexivity.
  - constructor; [reflexivity|constructor].
Qed.

Lemma tail_no_touch once s a : Forall (fun w => touches s a w = false) (evicted_writes once ++ [WSave]).
Proof.
  apply Forall_app. split.
  - unfold evicted_writes. apply Forall_forall. intros w H. apply in_flat_map in H as [x [_ H]].
    destruct H as [<-|[<-|[]]]; reflexivity.
  - constructor; [reflexivity|constructor].
Qed.

Lemma NoDup_map_inj {A} (f : A -> Z) (l : list A) x y :
  NoDup (map f l) -> In x l -> In y l -> f x = f y -> x = y.
Proof.
  induction l as [|z l IH]; intros ND Hx Hy E; [contradiction|].
  cbn in ND. inversion ND as [|? ? Hn ND']; subst.
  destruct Hx as [->|Hx], Hy as [->|Hy].
  - reflexivity.
  - exfalso. apply Hn. rewrite E. apply in_map. exact Hy.
  - exfalso. apply Hn. rewrite <- E. apply in_map. exact Hx.
  - apply IH; assumption.
Qed.

Lemma oeqb_eq a b : oeqb a b = true <-> a = b.
Proof.
  destruct a, b; cbn; split; intros H; try discriminate; try reflexivity.
  - apply Z.eqb_eq in H. congruence.
  - inversion H. apply Z.eqb_refl.
Qed.

(** the store holds nothing for a listed instance outside its [before] server *)
Definition within_before (tuples : list ptuple) (st : store) : Prop :=
  forall t, In t tuples -> forall s, has st s (t_name t) = true -> t_sb t = Some s.

(** put target of the cycle: the [after] server of a changed tuple *)
Definition resched_target (tuples : list ptuple) (a s : Z) : Prop :=
  exists t, In t tuples /\ changed canonical_cfg t = true /\ t_name t = a /\ t_sa t = Some s.

Lemma resched_target_functional tuples :
  NoDup (map t_name tuples) -> functional (resched_target tuples).
Proof.
  intros ND a s1 s2 [t1 [I1 [_ [N1 A1]]]] [t2 [I2 [_ [N2 A2]]]].
  assert (t1 = t2) by (eapply (NoDup_map_inj t_name); try eassumption; congruence).
  subst. congruence.
Qed.

Lemma puts_within tuples i : Forall (put_within (resched_target tuples)) (resched_puts tuples i).
Proof.
  apply Forall_forall. intros w H. unfold resched_puts in H. apply in_flat_map in H as [t [Ht H]].
  apply filter_In in Ht as [Ht Hc]. unfold put_of in H. destruct (t_sa t) eqn:SA; [|contradiction].
  destruct H as [<-|[]]. cbn. exists t. auto.
Qed.

Lemma del_in_dels tuples t s :
  In t tuples -> changed canonical_cfg t = true -> t_sb t = Some s -> t_sa t <> Some s ->
  In (WDel s (t_name t)) (resched_dels tuples).
Proof.
  intros Ht Hc SB SA. unfold resched_dels. apply in_flat_map. exists t. split.
  - apply filter_In. auto.
  - unfold del_of. rewrite SB. destruct (oeqb (Some s) (t_sa t)) eqn:E.
    + apply oeqb_eq in E. congruence.
    + left. reflexivity.
Qed.

(** after the first loop every instance about to be (re)written has no entry outside its new server *)
Lemma after_dels tuples st :
  within_before tuples st ->
  pinned (resched_target tuples) (apply_writes st (resched_dels tuples)).
Proof.
  intros WB a s [t [Ht [Hc [<- SA]]]] s' H.
  assert (H0 : has st s' (t_name t) = true) by (eapply has_apply_nonputs; [apply dels_nonput|exact H]).
  pose proof (WB t Ht s' H0) as SB.
  destruct (Z.eq_dec s' s) as [E|NE]; [exact E|exfalso].
  assert (D : In (WDel s' (t_name t)) (resched_dels tuples)).
  { apply del_in_dels; try assumption. congruence. }
  assert (L : lookup (apply_writes st (resched_dels tuples)) s' (t_name t) = None).
  { apply lookup_del_wins; [exact D|]. intros w Hw _.
    pose proof (dels_nonput tuples) as F. rewrite Forall_forall in F. apply F. exact Hw. }
  apply has_lookup_none in L. congruence.
Qed.

(** C10, first conjunct, for Master.reschedule: every prefix of the write list is free of double entries *)
Theorem resched_prefix_no_double c tuples i once st k :
  cfg_canonical c = true ->
  NoDup (map t_name tuples) ->
  no_double st ->
  within_before tuples st ->
  no_double (apply_writes st (firstn k (reschedule_writes c tuples i once))).
Proof.
  intros C ND D WB. apply cfg_canonical_eq in C. subst c. rewrite reschedule_writes_canonical.
  set (ds := resched_dels tuples). set (ps := resched_puts tuples i). set (tl := evicted_writes once ++ [WSave]).
  assert (Dels : forall k', no_double (apply_writes st (firstn k' ds))).
  { intros k' a s1 s2 H1 H2.
    assert (F : Forall (fun w => is_put w = false) (firstn k' ds)) by (apply firstn_Forall, dels_nonput).
    eapply D; eapply has_apply_nonputs; eassumption. }
  assert (AD : no_double (apply_writes st ds) /\ pinned (resched_target tuples) (apply_writes st ds)).
  { split; [|apply after_dels; exact WB]. specialize (Dels (length ds)). rewrite firstn_all in Dels. exact Dels. }
  assert (Puts : forall k', no_double (apply_writes (apply_writes st ds) (firstn k' ps))
                            /\ pinned (resched_target tuples) (apply_writes (apply_writes st ds) (firstn k' ps))).
  { intros k'. apply safe_writes; [apply resched_target_functional; exact ND| |exact AD].
    apply firstn_Forall, puts_within. }
  destruct (prefix_app ds (ps ++ tl) k) as [->|[k1 ->]]; [apply Dels|].
  rewrite apply_writes_app.
  destruct (prefix_app ps tl k1) as [->|[k2 ->]]; [apply Puts|].
  rewrite apply_writes_app.
  destruct (Puts (length ps)) as [P1 _]. rewrite firstn_all in P1.
  intros a s1 s2 H1 H2.
  assert (F : Forall (fun w => is_put w = false) (firstn k2 tl)) by (apply firstn_Forall, tail_nonput).
  eapply P1; eapply has_apply_nonputs; eassumption.
Qed.

(** what the store must hold for the instances the cycle did not change (this is what the
    publication relies on; it reads nothing back from the store) *)
Definition unchanged_published (tuples : list ptuple) (i : info) (st : store) : Prop :=
  forall t, In t tuples -> changed canonical_cfg t = false ->
  forall s, t_sb t = Some s -> lookup st s (t_name t) = Some (get_info i (t_name t)).

Lemma writes_of_name tuples i w s a :
  In w (resched_dels tuples ++ resched_puts tuples i) -> touches s a w = true ->
  exists t, In t tuples /\ changed canonical_cfg t = true /\ t_name t = a /\
            (w = WDel s a /\ t_sb t = Some s /\ t_sa t <> Some s \/
             w = WPut s a (get_info i a) /\ t_sa t = Some s).
Proof.
  intros H T. apply in_app_or in H as [H|H].
  - unfold resched_dels in H. apply in_flat_map in H as [t [Ht H]]. apply filter_In in Ht as [Ht Hc].
    unfold del_of in H. destruct (t_sb t) as [s0|] eqn:SB; [|contradiction].
    destruct (oeqb (Some s0) (t_sa t)) eqn:E; [contradiction|]. destruct H as [<-|[]].
    cbn in T. apply same_key_true in T as [-> <-]. exists t. repeat split; try assumption.
    left. split; [reflexivity|]. split; [exact SB|].
    intros E'. rewrite E' in E. cbn in E. rewrite Z.eqb_refl in E. discriminate.
  - unfold resched_puts in H. apply in_flat_map in H as [t [Ht H]]. apply filter_In in Ht as [Ht Hc].
    unfold put_of in H. destruct (t_sa t) as [s0|] eqn:SA; [|contradiction]. destruct H as [<-|[]].
    cbn in T. apply same_key_true in T as [-> <-]. exists t. repeat split; try assumption.
    right. split; [reflexivity|exact SA].
Qed.

(** C09, publication half: after the whole write list the store holds, for every listed instance,
    exactly one entry, under the [after] server, with the current placement data, and nothing for an
    instance that is pending; entries of other instances are untouched. *)
Theorem resched_final c tuples i once st :
  cfg_canonical c = true ->
  NoDup (map t_name tuples) ->
  within_before tuples st ->
  unchanged_published tuples i st ->
  let final := apply_writes st (reschedule_writes c tuples i once) in
  (forall t, In t tuples -> forall s,
     lookup final s (t_name t) = if oeqb (t_sa t) (Some s) then Some (get_info i (t_name t)) else None) /\
  (forall a, ~ In a (map t_name tuples) -> forall s, lookup final s a = lookup st s a).
Proof.
  intros C ND WB UP final. apply cfg_canonical_eq in C. subst c. subst final.
  rewrite reschedule_writes_canonical.
  set (ds := resched_dels tuples). set (ps := resched_puts tuples i). set (tl := evicted_writes once ++ [WSave]).
  rewrite app_assoc, apply_writes_app.
  split.
  - intros t Ht s.
    rewrite lookup_untouched by apply tail_no_touch.
    destruct (changed canonical_cfg t) eqn:Hc.
    + (* changed *)
      rewrite apply_writes_app.
      destruct (oeqb (t_sa t) (Some s)) eqn:SA.
      * apply oeqb_eq in SA.
        apply lookup_put_wins.
        -- unfold ps, resched_puts. apply in_flat_map. exists t. split; [apply filter_In; auto|].
           unfold put_of. rewrite SA. left. reflexivity.
        -- intros w Hw T.
           destruct (writes_of_name tuples i w s (t_name t)) as [t' [Ht' [Hc' [N [[-> _]|[-> _]]]]]];
             [apply in_or_app; right; exact Hw|exact T| |reflexivity].
           exfalso. unfold ps, resched_puts in Hw. apply in_flat_map in Hw as [t2 [_ Hw]].
           unfold put_of in Hw. destruct (t_sa t2); [|contradiction]. destruct Hw as [Hw|[]]. discriminate.
      * assert (NP : forall w, In w ps -> touches s (t_name t) w = false).
        { intros w Hw. destruct (touches s (t_name t) w) eqn:T; [|reflexivity]. exfalso.
          destruct (writes_of_name tuples i w s (t_name t)) as [t' [Ht' [Hc' [N [[-> _]|[_ SA']]]]]];
            [apply in_or_app; right; exact Hw|exact T| |].
          - unfold ps, resched_puts in Hw. apply in_flat_map in Hw as [t2 [_ Hw]].
            unfold put_of in Hw. destruct (t_sa t2); [|contradiction]. destruct Hw as [Hw|[]]. discriminate.
          - assert (t' = t) by (eapply (NoDup_map_inj t_name); eassumption). subst t'.
            rewrite SA' in SA. cbn in SA. rewrite Z.eqb_refl in SA. discriminate. }
        rewrite lookup_untouched by (apply Forall_forall; exact NP).
        destruct (lookup (apply_writes st ds) s (t_name t)) eqn:L; [|reflexivity]. exfalso.
        assert (H1 : has (apply_writes st ds) s (t_name t) = true) by (rewrite has_lookup, L; reflexivity).
        assert (H0 : has st s (t_name t) = true) by (eapply has_apply_nonputs; [apply dels_nonput|exact H1]).
        pose proof (WB t Ht s H0) as SB.
        assert (D : In (WDel s (t_name t)) ds).
        { apply del_in_dels; try assumption. intros E. rewrite E in SA. cbn in SA. rewrite Z.eqb_refl in SA. discriminate. }
        assert (L' : lookup (apply_writes st ds) s (t_name t) = None).
        { apply lookup_del_wins; [exact D|]. intros w Hw _.
          pose proof (dels_nonput tuples) as F. rewrite Forall_forall in F. apply F. exact Hw. }
        congruence.
    + (* unchanged: nothing in the write list mentions the instance *)
      assert (NT : forall w, In w (ds ++ ps) -> touches s (t_name t) w = false).
      { intros w Hw. destruct (touches s (t_name t) w) eqn:T; [|reflexivity]. exfalso.
        destruct (writes_of_name tuples i w s (t_name t) Hw T) as [t' [Ht' [Hc' [N _]]]].
        assert (t' = t) by (eapply (NoDup_map_inj t_name); eassumption). subst t'. congruence. }
      rewrite lookup_untouched by (apply Forall_forall; exact NT).
      pose proof Hc as Hc0.
      unfold changed in Hc. cbn [cf_cmp_server cf_cmp_expiry canonical_cfg andb] in Hc.
      apply orb_false_iff in Hc as [Hs _]. apply negb_false_iff in Hs. apply oeqb_eq in Hs.
      destruct (oeqb (t_sa t) (Some s)) eqn:SA.
      * apply oeqb_eq in SA. apply UP; [exact Ht|exact Hc0|congruence].
      * destruct (lookup st s (t_name t)) eqn:L; [|reflexivity]. exfalso.
        assert (H0 : has st s (t_name t) = true) by (rewrite has_lookup, L; reflexivity).
        pose proof (WB t Ht s H0) as SB. rewrite <- Hs, SB in SA. cbn in SA. rewrite Z.eqb_refl in SA. discriminate.
  - intros a Ha s.
    rewrite lookup_untouched by apply tail_no_touch.
    apply lookup_untouched. apply Forall_forall. intros w Hw.
    destruct (touches s a w) eqn:T; [|reflexivity]. exfalso.
    destruct (writes_of_name tuples i w s a Hw T) as [t' [Ht' [_ [N _]]]].
    apply Ha. rewrite <- N. apply in_map. exact Ht'.
Qed.

(** * Master.init_schedule (two passes over all servers; node content reconciled) *)
Lemma pdata_eqb_eq a b : pdata_eqb a b = true -> a = b.
Proof.
  unfold pdata_eqb. intros H. apply andb_true_iff in H as [H H3]. apply andb_true_iff in H as [H1 H2].
  apply oeqb_eq in H1, H2, H3. destruct a, b; cbn in *. congruence.
Qed.

Lemma pdata_eqb_refl' d : pdata_eqb d d = true.
Proof.
  unfold pdata_eqb. assert (R : forall o, oeqb o o = true) by (intros [x|]; cbn; [apply Z.eqb_refl|reflexivity]).
  rewrite !R. reflexivity.
Qed.

Definition init_dels (st : store) (members : list (Z * list Z)) : list write :=
  flat_map (fun m => WEnsure (fst m)
                     :: map (WDel (fst m)) (filter (fun a => negb (zmem a (snd m))) (listing st (fst m)))) members.
Definition init_puts (st : store) (i : info) (members : list (Z * list Z)) : list write :=
  flat_map (fun m => map (fun a => WPut (fst m) a (get_info i a))
                         (filter (fun a => negb (zmem a (listing st (fst m))) || stale_data st i (fst m) a) (snd m)))
           members.

Lemma init_writes_canonical st i members :
  init_writes canonical_cfg st i members = init_dels st members ++ init_puts st i members ++ [WSave].
Proof.
  unfold init_writes, init_passes, init_pass_writes, init_dels, init_puts.
  cbn [cf_init_two_pass cf_init_phases canonical_cfg flat_map]. rewrite app_nil_r, <- app_assoc. reflexivity.
Qed.

Lemma init_dels_nonput st members : Forall (fun w => is_put w = false) (init_dels st members).
Proof.
  apply Forall_forall. intros w H. unfold init_dels in H. apply in_flat_map in H as [m [_ H]].
  destruct H as [<-|H]; [reflexivity|]. apply in_map_iff in H as [x [<- _]]. reflexivity.
Qed.

Lemma in_init_dels st members w s a :
  In w (init_dels st members) -> touches s a w = true ->
  exists correct, In (s, correct) members /\ w = WDel s a /\ has st s a = true /\ zmem a correct = false.
Proof.
  unfold init_dels. intros H T. apply in_flat_map in H as [[s0 correct] [Hm H]]. cbn [fst snd] in H.
  destruct H as [<-|H]; [discriminate|]. apply in_map_iff in H as [x [<- H]]. apply filter_In in H as [H1 H2].
  cbn in T. apply same_key_true in T as [-> ->]. exists correct. split; [exact Hm|]. split; [reflexivity|]. split.
  - rewrite <- zmem_listing. apply zmem_In. exact H1.
  - apply negb_true_iff. exact H2.
Qed.

Lemma in_init_puts st i members w :
  In w (init_puts st i members) ->
  exists s correct a, In (s, correct) members /\ w = WPut s a (get_info i a) /\ zmem a correct = true /\
                      (has st s a = false \/ stale_data st i s a = true).
Proof.
  unfold init_puts. intros H. apply in_flat_map in H as [[s correct] [Hm H]]. cbn [fst snd] in H.
  apply in_map_iff in H as [a [<- H]]. apply filter_In in H as [H1 H2].
  exists s, correct, a. split; [exact Hm|]. split; [reflexivity|]. split; [apply zmem_In; exact H1|].
  apply orb_true_iff in H2 as [H2|H2]; [left|right; exact H2].
  rewrite <- zmem_listing. apply negb_true_iff. exact H2.
Qed.

Lemma del_in_init_dels st members s correct a :
  In (s, correct) members -> has st s a = true -> zmem a correct = false -> In (WDel s a) (init_dels st members).
Proof.
  intros Hm H Z. unfold init_dels. apply in_flat_map. exists (s, correct). split; [exact Hm|]. right. cbn [fst snd].
  apply in_map_iff. exists a. split; [reflexivity|]. apply filter_In. split.
  - apply zmem_In. rewrite zmem_listing. exact H.
  - rewrite Z. reflexivity.
Qed.

Lemma put_in_init_puts st i members s correct a :
  In (s, correct) members -> zmem a correct = true -> (has st s a = false \/ stale_data st i s a = true) ->
  In (WPut s a (get_info i a)) (init_puts st i members).
Proof.
  intros Hm Z H. unfold init_puts. apply in_flat_map. exists (s, correct). split; [exact Hm|]. cbn [fst snd].
  apply in_map_iff. exists a. split; [reflexivity|]. apply filter_In. split; [apply zmem_In; exact Z|].
  apply orb_true_iff. destruct H as [H|H]; [left|right; exact H]. rewrite zmem_listing, H. reflexivity.
Qed.

Lemma members_unique (members : list (Z * list Z)) m1 m2 :
  NoDup (map fst members) -> In m1 members -> In m2 members -> fst m1 = fst m2 -> m1 = m2.
Proof. intros. eapply (NoDup_map_inj fst); eassumption. Qed.

(** C09 for the start-up cycle: after init_schedule the nodes under every server of the model are exactly
    server.apps WITH the current placement data; nodes under servers the model does not know are not looked at. *)
Theorem init_final c st i members :
  cfg_canonical c = true ->
  NoDup (map fst members) ->
  let final := apply_writes st (init_writes c st i members) in
  (forall s correct, In (s, correct) members -> forall a,
     lookup final s a = if zmem a correct then Some (get_info i a) else None) /\
  (forall s, ~ In s (map fst members) -> forall a, lookup final s a = lookup st s a).
Proof.
  intros C ND final. apply cfg_canonical_eq in C. subst c. subst final. rewrite init_writes_canonical.
  assert (U : forall s correct, In (s, correct) members -> forall a w,
            In w (init_dels st members ++ init_puts st i members ++ [WSave]) -> touches s a w = true ->
            (w = WDel s a /\ has st s a = true /\ zmem a correct = false) \/
            (w = WPut s a (get_info i a) /\ zmem a correct = true /\
             (has st s a = false \/ stale_data st i s a = true))).
  { intros s correct Hm a w Hw T. apply in_app_or in Hw as [Hw|Hw].
    - destruct (in_init_dels st members w s a Hw T) as [c' [Hm' [-> [H Z]]]].
      assert ((s, c') = (s, correct)) as E by (apply (members_unique members); auto). inversion E; subst. left. auto.
    - apply in_app_or in Hw as [Hw|[<-|[]]]; [|discriminate].
      destruct (in_init_puts st i members w Hw) as [s' [c' [a' [Hm' [-> [Z H]]]]]].
      cbn in T. apply same_key_true in T as [-> ->].
      assert ((s, c') = (s, correct)) as E by (apply (members_unique members); auto). inversion E; subst. right. auto. }
  split.
  - intros s correct Hm a. specialize (U s correct Hm a).
    destruct (zmem a correct) eqn:ZC.
    + destruct (lookup st s a) as [d|] eqn:L.
      * destruct (pdata_eqb d (get_info i a)) eqn:PE.
        -- apply pdata_eqb_eq in PE. subst d. rewrite lookup_untouched; [exact L|].
           apply Forall_forall. intros w Hw. destruct (touches s a w) eqn:T; [|reflexivity]. exfalso.
           destruct (U w Hw T) as [[_ [_ X]]|[_ [_ [X|X]]]]; try discriminate.
           ++ rewrite has_lookup, L in X. discriminate.
           ++ unfold stale_data in X. rewrite L in X. rewrite pdata_eqb_refl' in X. discriminate.
        -- apply lookup_put_wins.
           ++ apply in_or_app. right. apply in_or_app. left. apply (put_in_init_puts st i members s correct a Hm ZC).
              right. unfold stale_data. rewrite L, PE. reflexivity.
           ++ intros w Hw T. destruct (U w Hw T) as [[_ [_ X]]|[X _]]; [discriminate|exact X].
      * apply lookup_put_wins.
        -- apply in_or_app. right. apply in_or_app. left. apply (put_in_init_puts st i members s correct a Hm ZC).
           left. rewrite has_lookup, L. reflexivity.
        -- intros w Hw T. destruct (U w Hw T) as [[_ [_ X]]|[X _]]; [discriminate|exact X].
    + destruct (has st s a) eqn:H.
      * apply lookup_del_wins.
        -- apply in_or_app. left. apply (del_in_init_dels st members s correct a Hm H ZC).
        -- intros w Hw T. destruct (U w Hw T) as [[-> _]|[_ [X _]]]; [reflexivity|discriminate].
      * rewrite lookup_untouched.
        -- rewrite has_lookup in H. destruct (lookup st s a); [discriminate|reflexivity].
        -- apply Forall_forall. intros w Hw. destruct (touches s a w) eqn:T; [|reflexivity]. exfalso.
           destruct (U w Hw T) as [[_ [X _]]|[_ [X _]]]; congruence.
  - intros s Hs a. apply lookup_untouched. apply Forall_forall. intros w Hw.
    destruct (touches s a w) eqn:T; [|reflexivity]. exfalso. apply Hs.
    apply in_app_or in Hw as [Hw|Hw].
    + destruct (in_init_dels st members w s a Hw T) as [c' [Hm' _]]. change s with (fst (s, c')). apply in_map. exact Hm'.
    + apply in_app_or in Hw as [Hw|[<-|[]]]; [|discriminate].
      destruct (in_init_puts st i members w Hw) as [s' [c' [a' [Hm' [-> _]]]]].
      cbn in T. apply same_key_true in T as [-> _]. change s with (fst (s, c')). apply in_map. exact Hm'.
Qed.

(** C10 for the start-up publication: every prefix of init_schedule's writes is free of double entries *)
Definition members_target (members : list (Z * list Z)) (a s : Z) : Prop :=
  exists correct, In (s, correct) members /\ zmem a correct = true.

Theorem init_prefix_no_double c st i members k :
  cfg_canonical c = true ->
  no_double st ->
  functional (members_target members) ->
  (forall s a, has st s a = true -> In s (map fst members)) ->
  no_double (apply_writes st (firstn k (init_writes c st i members))).
Proof.
  intros C D F Known. apply cfg_canonical_eq in C. subst c. rewrite init_writes_canonical.
  set (ds := init_dels st members). set (ps := init_puts st i members ++ [WSave]).
  destruct (prefix_app ds ps k) as [->|[k1 ->]].
  - intros a s1 s2 H1 H2.
    assert (NP : Forall (fun w => is_put w = false) (firstn k ds)) by (apply firstn_Forall, init_dels_nonput).
    eapply D; eapply has_apply_nonputs; eassumption.
  - rewrite apply_writes_app.
    apply (safe_writes (members_target members)); [exact F| |].
    + apply firstn_Forall. apply Forall_forall. intros w Hw. unfold ps in Hw.
      apply in_app_or in Hw as [Hw|[<-|[]]]; [|exact I].
      destruct (in_init_puts st i members w Hw) as [s [correct [a [Hm [-> [Z _]]]]]]. cbn. exists correct. auto.
    + split.
      * intros a s1 s2 H1 H2. eapply D; eapply has_apply_nonputs; try eassumption; apply init_dels_nonput.
      * intros a s [correct [Hm Z]] s' H.
        assert (H0 : has st s' a = true) by (eapply has_apply_nonputs; [apply init_dels_nonput|exact H]).
        pose proof (Known s' a H0) as Hs'. apply in_map_iff in Hs' as [[s'' c'] [E Hm']]. cbn in E. subst s''.
        destruct (zmem a c') eqn:Z'.
        -- apply (F a); [exists c'|exists correct]; auto.
        -- exfalso.
           assert (L : lookup (apply_writes st ds) s' a = None).
           { apply lookup_del_wins; [apply (del_in_init_dels st members s' c' a Hm' H0 Z')|].
             intros w Hw _. pose proof (init_dels_nonput st members) as NP. rewrite Forall_forall in NP. apply NP. exact Hw. }
           apply has_lookup_none in L. congruence.
Qed.

(** * Loader.check_placement_integrity *)
Lemma amap_get_app l1 l2 k :
  amap_get (l1 ++ l2) k = match amap_get l1 k with Some v => Some v | None => amap_get l2 k end.
Proof.
  induction l1 as [|[k0 v0] l1 IH]; cbn; [reflexivity|]. destruct (Z.eqb k0 k); [reflexivity|exact IH].
Qed.

Lemma amap_get_set m a v k : amap_get (amap_set m a v) k = if Z.eqb a k then Some v else amap_get m k.
Proof.
  induction m as [|[k0 w] m IH]; cbn.
  - destruct (Z.eqb a k); reflexivity.
  - destruct (Z.eqb k0 a) eqn:E; cbn.
    + apply Z.eqb_eq in E. subst k0. destruct (Z.eqb a k); reflexivity.
    + rewrite IH. destruct (Z.eqb k0 k) eqn:E2; [|reflexivity].
      apply Z.eqb_eq in E2. subst k0. rewrite Z.eqb_sym in E. rewrite E. reflexivity.
Qed.

Lemma scan_error_not_ok upd wh pairs : forall a2s m ws e,
  integrity_scan upd wh pairs a2s = (m, ws, Some e) -> e <> IOk.
Proof.
  induction pairs as [|[s a0] r IH]; intros a2s m ws e H.
  - cbn in H. discriminate.
  - cbn [integrity_scan] in H. destruct (amap_get a2s a0) as [first|].
    + destruct (wh a0) as [correct|]; [|inversion H; discriminate].
      destruct (oeqb correct (Some first) || oeqb correct (Some s)); [|inversion H; discriminate].
      destruct (integrity_scan upd wh r (integ_next upd a2s a0 first correct)) as [[m' ws'] o'] eqn:R.
      inversion H; subst. eapply IH. exact R.
    + eapply IH. exact H.
Qed.

Lemma scan_writes_nonput upd wh pairs : forall a2s m ws o,
  integrity_scan upd wh pairs a2s = (m, ws, o) -> Forall (fun w => is_put w = false) ws.
Proof.
  induction pairs as [|[s a0] r IH]; intros a2s m ws o H.
  - cbn in H. inversion H. constructor.
  - cbn [integrity_scan] in H. destruct (amap_get a2s a0) as [first|].
    + destruct (wh a0) as [correct|]; [|inversion H; constructor].
      destruct (oeqb correct (Some first) || oeqb correct (Some s)); [|inversion H; constructor].
      destruct (integrity_scan upd wh r (integ_next upd a2s a0 first correct)) as [[m' ws'] o'] eqn:R.
      inversion H; subst.
      apply Forall_app. split; [destruct (oeqb correct (Some s)); repeat constructor|].
      apply Forall_app. split; [destruct (oeqb correct (Some first)); repeat constructor|].
      eapply IH. exact R.
    + eapply IH. exact H.
Qed.

Lemma integrity_cross_true a2s placed :
  integrity_cross a2s placed = true <-> forall a s, In (a, s) placed -> amap_get a2s a = Some s.
Proof.
  unfold integrity_cross. rewrite forallb_forall. split.
  - intros H a s Hin. specialize (H (a, s) Hin). cbn in H. destruct (amap_get a2s a); [|discriminate].
    apply Z.eqb_eq in H. congruence.
  - intros H [a s] Hin. cbn. rewrite (H a s Hin). apply Z.eqb_refl.
Qed.

(** the check only ever deletes *)
Theorem integrity_writes_delete_only upd wh placed pairs :
  Forall (fun w => is_put w = false) (fst (integrity upd wh placed pairs)).
Proof.
  unfold integrity. destruct (integrity_scan upd wh pairs []) as [[m ws] o] eqn:R.
  apply scan_writes_nonput in R. destruct o; exact R.
Qed.

(** entries of instance [a] in the listing *)
Definition listed (pairs : list (Z * Z)) (a : Z) : list (Z * Z) := filter (fun p => Z.eqb (snd p) a) pairs.

(** with the map kept up to date: at the end of an error-free first pass, the map names, for an instance the model
    has on server [c], the only listed server if there is one entry, and [c] as soon as there were two or more *)
Lemma scan_upd wh pairs : forall a2s m ws,
  integrity_scan true wh pairs a2s = (m, ws, None) ->
  forall a c, wh a = Some (Some c) ->
  amap_get m a = match amap_get a2s a with
                 | Some f => if existsb (fun p => Z.eqb (snd p) a) pairs then Some c else Some f
                 | None => match listed pairs a with
                           | [] => None
                           | [p] => Some (fst p)
                           | _ => Some c
                           end
                 end.
Proof.
  induction pairs as [|[s a0] r IH]; intros a2s m ws H a c W.
  - cbn in H. inversion H; subst. cbn. destruct (amap_get m a); reflexivity.
  - cbn [integrity_scan] in H. unfold listed. cbn [filter existsb snd].
    destruct (amap_get a2s a0) as [first|] eqn:G.
    + destruct (wh a0) as [correct|] eqn:W0; [|discriminate].
      destruct (oeqb correct (Some first) || oeqb correct (Some s)) eqn:Cnd; [|discriminate].
      set (a2s' := integ_next true a2s a0 first correct) in *.
      destruct (integrity_scan true wh r a2s') as [[m' ws'] o'] eqn:R.
      inversion H; subst m' o'. clear H.
      rewrite (IH _ _ _ R a c W).
      destruct (Z.eqb a0 a) eqn:E.
      * apply Z.eqb_eq in E. subst a0. rewrite W in W0. inversion W0; subst correct. rewrite G.
        assert (G' : amap_get a2s' a = Some c).
        { unfold a2s', integ_next. destruct (oeqb (Some c) (Some first)) eqn:E1.
          - apply oeqb_eq in E1. inversion E1; subst. exact G.
          - rewrite amap_get_set, Z.eqb_refl. reflexivity. }
        rewrite G'. cbn [orb]. destruct (existsb _ r); reflexivity.
      * assert (G' : amap_get a2s' a = amap_get a2s a).
        { unfold a2s', integ_next. destruct (oeqb correct (Some first)); [reflexivity|].
          destruct correct as [cv|]; [|reflexivity]. rewrite amap_get_set, E. reflexivity. }
        rewrite G'. cbn [orb]. reflexivity.
    + rewrite (IH _ _ _ H a c W). rewrite amap_get_app. destruct (Z.eqb a0 a) eqn:E.
      * apply Z.eqb_eq in E. subst a0. rewrite G. cbn [amap_get]. rewrite Z.eqb_refl. cbn [fst].
        fold (listed r a). unfold listed.
        assert (X : existsb (fun p => Z.eqb (snd p) a) r = match filter (fun p => Z.eqb (snd p) a) r with [] => false | _ => true end).
        { clear. induction r as [|p r IH]; cbn; [reflexivity|]. destruct (Z.eqb (snd p) a); cbn; [reflexivity|exact IH]. }
        rewrite X. destruct (filter (fun p => Z.eqb (snd p) a) r); reflexivity.
      * destruct (amap_get a2s a); [reflexivity|]. cbn [amap_get]. rewrite E. reflexivity.
Qed.

(** F-a: unless the first pass hits its own "no repair possible" assertion, the check -- after removing the duplicate
    entries it found -- passes whenever every placed instance has an entry under the model's server *)
Theorem integrity_repair_then_pass wh placed pairs :
  (forall a s, In (a, s) placed -> wh a = Some (Some s) /\ In (s, a) pairs) ->
  snd (integrity true wh placed pairs) <> IKeyError ->
  snd (integrity true wh placed pairs) <> IAssertNeither ->
  snd (integrity true wh placed pairs) = IOk.
Proof.
  unfold integrity. intros Hp. destruct (integrity_scan true wh pairs []) as [[m ws] o] eqn:R.
  destruct o as [e|]; cbn [snd].
  - intros N1 N2. exfalso.
    assert (e = IKeyError \/ e = IAssertNeither).
    { clear - R. revert R. generalize (@nil (Z * Z)) as a2s. revert m ws.
      induction pairs as [|[s a0] r IH]; intros m ws a2s R; [cbn in R; discriminate|].
      cbn [integrity_scan] in R. destruct (amap_get a2s a0) as [first|].
      - destruct (wh a0) as [correct|]; [|inversion R; auto].
        destruct (oeqb correct (Some first) || oeqb correct (Some s)); [|inversion R; auto].
        destruct (integrity_scan true wh r (integ_next true a2s a0 first correct)) as [[m' ws'] o'] eqn:R'.
        inversion R; subst. eapply IH. exact R'.
      - eapply IH. exact R. }
    destruct H; subst; contradiction.
  - intros _ _. assert (X : integrity_cross m placed = true); [|rewrite X; reflexivity].
    apply integrity_cross_true. intros a s Hin. destruct (Hp a s Hin) as [W I].
    rewrite (scan_upd wh pairs [] m ws R a s W). cbn [amap_get].
    assert (IL : In (s, a) (listed pairs a)) by (apply filter_In; split; [exact I|apply Z.eqb_refl]).
    destruct (listed pairs a) as [|p [|q l]]; [contradiction| |reflexivity].
    destruct IL as [->|[]]. reflexivity.
Qed.

Lemma scan_nodup upd wh pairs : forall a2s,
  NoDup (map snd pairs) -> (forall p, In p pairs -> amap_get a2s (snd p) = None) ->
  integrity_scan upd wh pairs a2s = (a2s ++ map (fun p => (snd p, fst p)) pairs, [], None).
Proof.
  induction pairs as [|[s a0] r IH]; intros a2s ND H.
  - cbn. rewrite app_nil_r. reflexivity.
  - cbn [integrity_scan]. pose proof (H (s, a0) (or_introl eq_refl)) as H0. cbn [snd] in H0. rewrite H0.
    cbn in ND. inversion ND as [|? ? Hn ND']; subst.
    rewrite IH; [cbn; rewrite <- app_assoc; reflexivity|exact ND'|].
    intros p Hp. rewrite amap_get_app, (H p (or_intror Hp)). cbn.
    destruct (Z.eqb a0 (snd p)) eqn:E; [|reflexivity]. apply Z.eqb_eq in E. exfalso. apply Hn.
    rewrite E. apply in_map. exact Hp.
Qed.

Lemma amap_get_swap pairs a s :
  NoDup (map snd pairs) -> (amap_get (map (fun p => (snd p, fst p)) pairs) a = Some s <-> In (s, a) pairs).
Proof.
  induction pairs as [|[s0 a0] r IH]; intros ND; cbn.
  - split; [discriminate|contradiction].
  - cbn in ND. inversion ND as [|? ? Hn ND']; subst. destruct (Z.eqb a0 a) eqn:E.
    + apply Z.eqb_eq in E. subst. split.
      * intros H. inversion H. left. reflexivity.
      * intros [H|H]; [inversion H; reflexivity|]. exfalso. apply Hn.
        change a with (snd (s, a)). apply in_map. exact H.
    + rewrite (IH ND'). split; [intros H; right; exact H|].
      intros [H|H]; [|exact H]. inversion H; subst. rewrite Z.eqb_refl in E. discriminate.
Qed.

(** on a store without double entries the check writes nothing, never hits an assert of the first pass,
    and passes iff every placed instance has its entry under the model's server (model within store;
    entries of pending or unknown instances are NOT noticed) *)
Theorem integrity_nodup upd wh placed pairs :
  NoDup (map snd pairs) ->
  fst (integrity upd wh placed pairs) = [] /\
  (snd (integrity upd wh placed pairs) = IOk <-> forall a s, In (a, s) placed -> In (s, a) pairs) /\
  (snd (integrity upd wh placed pairs) = IOk \/ snd (integrity upd wh placed pairs) = IAssertFailed).
Proof.
  intros ND. unfold integrity. rewrite scan_nodup; [|exact ND|reflexivity]. cbn [app fst snd].
  split; [reflexivity|]. split.
  - destruct (integrity_cross _ placed) eqn:X.
    + split; [|reflexivity]. intros _ a s Hin. rewrite integrity_cross_true in X.
      apply (amap_get_swap pairs a s ND). apply X. exact Hin.
    + split; [discriminate|]. intros H. exfalso.
      assert (integrity_cross (map (fun p => (snd p, fst p)) pairs) placed = true); [|congruence].
      apply integrity_cross_true. intros a s Hin. apply (amap_get_swap pairs a s ND). apply H. exact Hin.
  - destruct (integrity_cross _ placed); auto.
Qed.

(** * Loader.restore_placements: dropping instances restored under two servers *)
Lemma in_nodup_z x l : In x (nodup_z l) <-> In x l.
Proof.
  induction l as [|y l IH]; cbn; [tauto|]. rewrite filter_In, IH. split.
  - intros [H|[H _]]; auto.
  - intros [H|H]; [auto|]. destruct (Z.eq_dec y x) as [E|NE]; [auto|]. right. split; [exact H|].
    apply negb_true_iff. apply Z.eqb_neq. exact NE.
Qed.

Lemma in_restored_on restored a s :
  In s (restored_on restored a) <-> exists l, In (s, l) restored /\ zmem a l = true.
Proof.
  unfold restored_on. rewrite in_flat_map. split.
  - intros [[s0 l] [H1 H2]]. cbn [fst snd] in H2. destruct (zmem a l) eqn:Z; [|contradiction].
    destruct H2 as [<-|[]]. exists l. auto.
  - intros [l [H1 H2]]. exists (s, l). split; [exact H1|]. cbn [fst snd]. rewrite H2. left. reflexivity.
Qed.

Lemma dedup_write_in restored w :
  In w (dedup_writes restored) ->
  exists s a x y r, w = WDel s a /\ restored_on restored a = x :: y :: r /\ In s (x :: y :: r).
Proof.
  unfold dedup_writes. intros H. apply in_flat_map in H as [a [_ H]].
  destruct (restored_on restored a) as [|x [|y r]] eqn:R; try contradiction.
  apply in_map_iff in H as [s [<- Hs]]. exists s, a, x, y, r. auto.
Qed.

Theorem dedup_no_double restored st :
  (forall s a, has st s a = true -> exists l, In (s, l) restored /\ zmem a l = true) ->
  let final := apply_writes st (dedup_writes restored) in
  no_double final /\
  (forall s a, restored_on restored a = [s] -> lookup final s a = lookup st s a).
Proof.
  intros Hst final.
  assert (NP : Forall (fun w => is_put w = false) (dedup_writes restored)).
  { apply Forall_forall. intros w Hw. apply dedup_write_in in Hw as [s [a [x [y [r [-> _]]]]]]. reflexivity. }
  split.
  - intros a s1 s2 H1 H2. destruct (Z.eq_dec s1 s2) as [E|NE]; [exact E|exfalso].
    assert (H1' : has st s1 a = true) by (eapply has_apply_nonputs; eassumption).
    assert (H2' : has st s2 a = true) by (eapply has_apply_nonputs; eassumption).
    apply Hst in H1'. apply Hst in H2'. apply in_restored_on in H1'. apply in_restored_on in H2'.
    assert (D : In (WDel s1 a) (dedup_writes restored)).
    { unfold dedup_writes. apply in_flat_map. exists a. split.
      - apply in_nodup_z. apply in_restored_on in H1' as [l [L1 L2]]. apply in_flat_map. exists (s1, l).
        split; [exact L1|]. apply zmem_In. exact L2.
      - destruct (restored_on restored a) as [|x [|y r]] eqn:R.
        + contradiction.
        + destruct H1' as [<-|[]]. destruct H2' as [<-|[]]. congruence.
        + apply in_map_iff. exists s1. split; [reflexivity|exact H1']. }
    assert (L : lookup final s1 a = None).
    { apply lookup_del_wins; [exact D|]. intros w Hw _. rewrite Forall_forall in NP. apply NP. exact Hw. }
    apply has_lookup_none in L. unfold final in *. congruence.
  - intros s a R. apply lookup_untouched. apply Forall_forall. intros w Hw.
    destruct (touches s a w) eqn:T; [|reflexivity]. exfalso.
    apply dedup_write_in in Hw as [s' [a' [x [y [r [-> [R' _]]]]]]].
    cbn in T. apply same_key_true in T as [-> ->]. congruence.
Qed.

(** * Soundness of the executable hypotheses *)
Lemma has_exists st s a : has st s a = true -> exists e, In e st /\ e_server e = s /\ e_app e = a.
Proof.
  unfold has. intros H. apply existsb_exists in H as [e [H1 H2]]. apply key_is_true in H2. exists e. tauto.
Qed.

Lemma no_doubleb_sound st : no_doubleb st = true -> no_double st.
Proof.
  unfold no_doubleb. intros H a s1 s2 H1 H2.
  apply has_exists in H1 as [e1 [I1 [S1 A1]]]. apply has_exists in H2 as [e2 [I2 [S2 A2]]].
  rewrite forallb_forall in H. specialize (H e1 I1). rewrite forallb_forall in H. specialize (H e2 I2).
  rewrite A1, A2, S1, S2, Z.eqb_refl in H. cbn in H. apply Z.eqb_eq in H. congruence.
Qed.

Lemma within_beforeb_sound tuples st : within_beforeb tuples st = true -> within_before tuples st.
Proof.
  unfold within_beforeb. intros H t Ht s Hs. apply has_exists in Hs as [e [I [S A]]].
  rewrite forallb_forall in H. specialize (H t Ht). rewrite forallb_forall in H. specialize (H e I).
  rewrite A, S, Z.eqb_refl in H. cbn in H. apply oeqb_eq in H. exact H.
Qed.

Lemma nodupb_sound l : nodupb l = true -> NoDup l.
Proof.
  induction l as [|x l IH]; cbn; intros H; constructor.
  - apply andb_true_iff in H as [H _]. intros C. apply zmem_In in C. rewrite C in H. discriminate.
  - apply IH. apply andb_true_iff in H. tauto.
Qed.

Lemma unchanged_publishedb_sound tuples i st :
  unchanged_publishedb canonical_cfg tuples i st = true -> unchanged_published tuples i st.
Proof.
  unfold unchanged_publishedb. intros H t Ht Hc s SB. rewrite forallb_forall in H. specialize (H t Ht).
  rewrite Hc, SB in H. cbn in H. destruct (lookup st s (t_name t)) as [d|]; [|discriminate].
  apply pdata_eqb_eq in H. congruence.
Qed.

(** * The published store is the model's placement *)
Lemma lookup_app l1 l2 s a :
  lookup (l1 ++ l2) s a = match lookup l1 s a with Some d => Some d | None => lookup l2 s a end.
Proof.
  induction l1 as [|e l1 IH]; cbn; [reflexivity|]. destruct (key_is s a e); [reflexivity|exact IH].
Qed.

Lemma lookup_model_entries_none i tuples s a :
  ~ In a (map t_name tuples) -> lookup (model_entries i tuples) s a = None.
Proof.
  unfold model_entries. induction tuples as [|t r IH]; intros H; cbn; [reflexivity|].
  rewrite lookup_app, IH by (intros C; apply H; right; exact C).
  destruct (t_sa t) as [s0|]; cbn; [|reflexivity].
  unfold key_is. cbn. destruct (Z.eqb (t_name t) a) eqn:E; [|rewrite andb_false_r; reflexivity].
  apply Z.eqb_eq in E. exfalso. apply H. left. exact E.
Qed.

Lemma lookup_model_entries i tuples s t :
  NoDup (map t_name tuples) -> In t tuples ->
  lookup (model_entries i tuples) s (t_name t) =
  if oeqb (t_sa t) (Some s) then Some (get_info i (t_name t)) else None.
Proof.
  unfold model_entries. induction tuples as [|t0 r IH]; intros ND Hin; [contradiction|].
  cbn [flat_map]. rewrite lookup_app. cbn in ND. inversion ND as [|? ? Hn ND']; subst.
  destruct Hin as [->|Hin].
  - fold (model_entries i r). rewrite (lookup_model_entries_none i r s (t_name t) Hn).
    destruct (t_sa t) as [s0|]; cbn; [|reflexivity].
    unfold key_is. cbn. rewrite Z.eqb_refl, andb_true_r. destruct (Z.eqb s0 s); reflexivity.
  - rewrite (IH ND' Hin).
    assert (NE : t_name t0 <> t_name t).
    { intros E. apply Hn. rewrite E. apply in_map. exact Hin. }
    destruct (t_sa t0) as [s0|]; cbn; [|reflexivity].
    unfold key_is. cbn. apply Z.eqb_neq in NE. rewrite NE, andb_false_r. reflexivity.
Qed.

Theorem resched_equals_model c tuples i once st :
  cfg_canonical c = true ->
  NoDup (map t_name tuples) ->
  within_before tuples st ->
  unchanged_published tuples i st ->
  (forall s a, has st s a = true -> In a (map t_name tuples)) ->
  forall s a, lookup (apply_writes st (reschedule_writes c tuples i once)) s a =
              lookup (model_entries i tuples) s a.
Proof.
  intros C ND WB UP Only s a.
  destruct (resched_final c tuples i once st C ND WB UP) as [F1 F2].
  destruct (in_dec Z.eq_dec a (map t_name tuples)) as [Hin|Hn].
  - apply in_map_iff in Hin as [t [<- Ht]]. rewrite (F1 t Ht s), (lookup_model_entries i tuples s t ND Ht). reflexivity.
  - rewrite (F2 a Hn s), (lookup_model_entries_none i tuples s a Hn).
    destruct (lookup st s a) eqn:L; [|reflexivity]. exfalso. apply Hn. apply (Only s).
    rewrite has_lookup, L. reflexivity.
Qed.
