(** Loader.load_model: correspondence runner.  A case carries the snapshot of the store a starting master read and the
    harness's bijection between Python strings and identifiers (an association list; a string outside it is -1).
    [run_case] evaluates the MASTER-LEVEL composition [load_model_full] (LoadApp per record, RestoreAll with the
    duplicate pass - faithful also when an instance is recorded under two servers) and flattens the cell exactly like
    harness/props/c11load.py flattens the real Master.cell: the canonical dump of Sched/Events.v followed by the static
    attributes of LoadModel.v [dump_static].  LoadModelP.v proves that under [store_ok] this cell is
    [run (init_cell ...) (load_model_ops ...)].  Model file: no proofs. *)
From Coq Require Import ZArith QArith List Bool.
From TM Require Import Codec.BaseN Codec.Dec Codec.Units Codec.UnitsRun.
From TM Require Import Sched.Vec Sched.Types Sched.Events Master.LoadApp Master.LoadAppRun Master.LoadModel Gen.Tables.
Import ListNotations.
Open Scope Z_scope.

Definition id_of (tbl : list (str * Z)) (s : str) : Z := match sfind s tbl with Some z => z | None => -1 end.

Record lmcase := mkLC { lc_ids : list (str * Z); lc_none_aff : Z; lc_store : store }.

Definition run_case (T : ltables) (U : utables) (x : lmcase) : list Z :=
  let c := load_model_full T U (id_of (lc_ids x)) (lc_none_aff x) (lc_store x) in
  dump_cell c ++ dump_static c.

(** the same through the operation alphabet (diagnostics; equal to [run_case] under [store_ok]) *)
Definition run_case_ops (T : ltables) (U : utables) (x : lmcase) : list Z :=
  let c := run (init_of (id_of (lc_ids x)) (lc_store x))
               (load_model_ops T U (id_of (lc_ids x)) (lc_none_aff x) (lc_store x)) in
  dump_cell c ++ dump_static c.
