(** C08 at master level: the `since` of a down server is the time a master first saw its presence gone, across master
    restarts and server-record reloads, and a record never keeps saying "down" once a master has seen the server
    present again (Loader.adjust_server_state / adjust_presence / load_server, Master._record_server_state). *)
From Coq Require Import ZArith List Bool Lia.
From TM Require Import Sched.Types Master.SrvState.
Import ListNotations.
Open Scope Z_scope.

Lemma sstate_eqb_eq a b : sstate_eqb a b = true <-> a = b.
Proof. destruct a, b; cbn; split; congruence. Qed.

(** histories in which the operator does not set the state by hand (server_state events) *)
Definition natural (o : sop) : Prop := match o with SEvent _ _ => False | _ => True end.

(** ghost: [Some t] = the masters' observations since the server was last seen present found it absent, first at t *)
Definition saw (pres : bool) (l : option Z) (now : Z) : option Z :=
  if pres then None else match l with Some t => Some t | None => Some now end.
Definition obs_step (s : srv) (l : option Z) (o : sop) : option Z :=
  match o with
  | SLoad now => saw (sv_pres s) l now
  | SPresence p _ now => match sv_mem s with Some _ => saw p l now | None => l end
  | SPresRaw _ => l
  | SReload changed now => if changed then saw (sv_pres s) l now else l
  | SReloadDecl old new now => if same_decl old new then l else saw (sv_pres s) l now
  | SEvent _ _ => l
  end.
Fixpoint grun (s : srv) (l : option Z) (ops : list sop) : srv * option Z :=
  match ops with [] => (s, l) | o :: r => grun (sstep s o) (obs_step s l o) r end.

Definition rec_not_down (s : srv) : Prop := forall u, sv_rec s <> Some (Down, u).

Record Inv (s : srv) (l : option Z) : Prop := {
  i_none : sv_mem s = None -> sv_rec s = None /\ l = None;
  i_up : forall t, sv_mem s = Some (Up, t) -> l = None /\ rec_not_down s;
  i_down : forall t, sv_mem s = Some (Down, t) -> (sv_rec s = Some (Down, t) /\ l = Some t) \/ sv_rec s = None;
  i_nofrozen : forall t, sv_mem s <> Some (Frozen, t) /\ sv_rec s <> Some (Frozen, t)
}.

Lemma Inv_init pres : Inv (init_srv pres) None.
Proof. constructor; cbn; try discriminate; auto. intros t. split; discriminate. Qed.

Ltac inv_done :=
  constructor; unfold rec_not_down; cbn [sv_mem sv_rec sv_pres]; intros;
  repeat match goal with H : Some _ = Some _ |- _ => inversion H; subst; clear H end;
  try discriminate;
  first [ split; [reflexivity|intros; discriminate]
        | split; discriminate
        | left; split; reflexivity
        | right; reflexivity
        | idtac ].

(** what the previous object and the masters' observations say when the record says "down since rt" / "up" *)
Lemma rec_down_obs s l rt : Inv s l -> sv_rec s = Some (Down, rt) -> l = Some rt.
Proof.
  intros [I0 I1 I2 I3] Er. destruct (sv_mem s) as [[mst mt]|] eqn:Em.
  - destruct mst.
    + exfalso. exact (proj2 (I1 mt eq_refl) rt Er).
    + destruct (I2 mt eq_refl) as [[E El]|E]; congruence.
    + exfalso. exact (proj1 (I3 mt) eq_refl).
  - destruct (I0 eq_refl) as [E _]. congruence.
Qed.
Lemma rec_up_obs s l rt : Inv s l -> sv_rec s = Some (Up, rt) -> l = None.
Proof.
  intros [I0 I1 I2 I3] Er. destruct (sv_mem s) as [[mst mt]|] eqn:Em.
  - destruct mst; [exact (proj1 (I1 mt eq_refl))| |exfalso; exact (proj1 (I3 mt) eq_refl)].
    destruct (I2 mt eq_refl) as [[E _]|E]; congruence.
  - exact (proj2 (I0 eq_refl)).
Qed.

(** load_server from any state satisfying the invariant *)
Lemma Inv_load s l now : Inv s l -> Inv (load_server now s) (saw (sv_pres s) l now).
Proof.
  intros HI. pose proof HI as [I0 I1 I2 I3]. unfold load_server, adjust_server_state, saw. cbn [sv_mem sv_rec sv_pres].
  destruct (sv_rec s) as [[rst rt]|] eqn:Er.
  - destruct rst.
    + pose proof (rec_up_obs s l rt HI Er) as ->.
      cbn [set_state sstate_eqb fst snd]. destruct (sv_pres s) eqn:Ep; cbn [set_state sstate_eqb fst snd]; inv_done.
    + pose proof (rec_down_obs s l rt HI Er) as ->.
      cbn [set_state sstate_eqb fst snd]. destruct (sv_pres s) eqn:Ep; cbn [set_state sstate_eqb fst snd]; inv_done.
    + exfalso. exact (proj2 (I3 rt) eq_refl).
  - cbn [set_state sstate_eqb fst snd]. destruct (sv_pres s) eqn:Ep; cbn [set_state sstate_eqb fst snd]; inv_done.
Qed.

(** the presence set is processed *)
Lemma Inv_presence s l p fresh now : Inv s l ->
  Inv (adjust_presence fresh now (mkSrv (sv_mem s) (sv_rec s) p))
      (match sv_mem s with Some _ => saw p l now | None => l end).
Proof.
  intros HI. pose proof HI as [I0 I1 I2 I3]. unfold adjust_presence. cbn [sv_mem sv_rec sv_pres].
  destruct (sv_mem s) as [[mst mt]|] eqn:Em.
  2:{ constructor; cbn [sv_mem sv_rec]; try discriminate; [intros _; exact (I0 eq_refl)|intros t; split; [discriminate|exact (proj2 (I3 t))]]. }
  cbn [fst]. destruct mst; cbn [sstate_eqb].
  - (* in memory: up *)
    destruct (I1 mt eq_refl) as [-> Hnd]. destruct p; unfold saw.
    + constructor; cbn [sv_mem sv_rec]; try discriminate.
      * intros t H. inversion H; subst. split; [reflexivity|exact Hnd].
      * intros t. split; [discriminate|exact (proj2 (I3 t))].
    + unfold adjust_server_state. cbn [sv_mem sv_rec sv_pres].
      destruct (sv_rec s) as [[rst rt]|] eqn:Er.
      * destruct rst; [|exfalso; exact (Hnd rt Er)|exfalso; exact (proj2 (I3 rt) eq_refl)].
        cbn [set_state sstate_eqb fst snd]. inv_done.
      * cbn [set_state sstate_eqb fst snd]. inv_done.
  - (* in memory: down *)
    destruct p; unfold saw.
    + (* back: the record goes to up, whether or not the object was replaced *)
      assert (Hcase : (sv_rec s = Some (Down, mt) /\ l = Some mt) \/ sv_rec s = None) by exact (I2 mt eq_refl).
      destruct fresh.
      * pose proof (Inv_load (mkSrv (Some (Down, mt)) (sv_rec s) true) l now) as HL.
        assert (HI' : Inv (mkSrv (Some (Down, mt)) (sv_rec s) true) l).
        { constructor; cbn [sv_mem sv_rec]; try discriminate.
          - intros t H. inversion H; subst. exact Hcase.
          - intros t. split; [discriminate|exact (proj2 (I3 t))]. }
        specialize (HL HI'). cbn [sv_pres] in HL. unfold saw in HL.
        (* after the load the object is up with a record that is not down; the second adjust changes nothing that matters *)
        remember (load_server now (mkSrv (Some (Down, mt)) (sv_rec s) true)) as s1 eqn:Es1.
        assert (Hp1 : sv_pres s1 = true).
        { subst s1. unfold load_server, adjust_server_state. cbn [sv_mem sv_rec sv_pres].
          destruct (sv_rec s) as [[rst rt]|]; [destruct rst|]; reflexivity. }
        assert (Hm1 : exists t, sv_mem s1 = Some (Up, t)).
        { subst s1. unfold load_server, adjust_server_state. cbn [sv_mem sv_rec sv_pres].
          destruct Hcase as [[E _]|E]; rewrite E; cbn [set_state sstate_eqb fst snd sv_mem]; eexists; reflexivity. }
        destruct Hm1 as (t1 & Hm1). destruct HL as [L0 L1 L2 L3]. destruct (L1 t1 Hm1) as [_ Hnd1].
        unfold adjust_server_state. rewrite Hm1, Hp1.
        destruct (sv_rec s1) as [[rst rt]|] eqn:Er1.
        -- destruct rst; [|exfalso; exact (Hnd1 rt Er1)|exfalso; exact (proj2 (L3 rt) eq_refl)].
           cbn [set_state sstate_eqb fst snd]. inv_done.
        -- cbn [set_state sstate_eqb fst snd]. inv_done.
      * unfold adjust_server_state. cbn [sv_mem sv_rec sv_pres].
        destruct Hcase as [[E _]|E]; rewrite E; cbn [set_state sstate_eqb fst snd]; inv_done.
    + (* still gone: nothing happens, and what was seen stays *)
      constructor; cbn [sv_mem sv_rec]; try discriminate.
      * intros t H. inversion H; subst. destruct (I2 t eq_refl) as [[E El]|E]; [left; subst l; auto|right; exact E].
      * intros t. split; [discriminate|exact (proj2 (I3 t))].
  - exfalso. exact (proj1 (I3 mt) eq_refl).
Qed.

Theorem Inv_step s l o : natural o -> Inv s l -> Inv (sstep s o) (obs_step s l o).
Proof.
  intros Hn HI. destruct o; cbn [sstep obs_step].
  - apply Inv_load. exact HI.
  - apply Inv_presence. exact HI.
  - destruct HI as [I0 I1 I2 I3]. constructor; cbn [sv_mem sv_rec]; assumption.
  - destruct changed; [apply Inv_load; exact HI|exact HI].
  - destruct (same_decl old new); [exact HI|apply Inv_load; exact HI].
  - destruct Hn.
Qed.

Theorem Inv_run ops : forall s l, Forall natural ops -> Inv s l -> Inv (fst (grun s l ops)) (snd (grun s l ops)).
Proof.
  induction ops as [|o r IH]; intros s l Hn HI; cbn [grun fst snd]; [exact HI|].
  inversion Hn as [|? ? H1 H2]; subst. apply IH; [exact H2|apply Inv_step; assumption].
Qed.

Lemma grun_fst ops : forall s l, fst (grun s l ops) = srun s ops.
Proof. induction ops as [|o r IH]; intros s l; cbn [grun srun fold_left]; [reflexivity|]. rewrite IH. reflexivity. Qed.

(** C08, master level: in every state reached from a master's first start by presence changes, (re)starts and record
    reloads, a server that is down in memory and has a record has exactly that record, and its `since` is the time a
    master first saw the presence gone in the current absence; and an up server never has a record saying "down" *)
Theorem down_since_is_observed_loss pres ops st t :
  Forall natural ops ->
  let r := grun (init_srv pres) None ops in
  sv_mem (fst r) = Some (st, t) ->
  (st = Down -> sv_rec (fst r) <> None -> sv_rec (fst r) = Some (Down, t) /\ snd r = Some t) /\
  (st = Up -> snd r = None /\ forall u, sv_rec (fst r) <> Some (Down, u)).
Proof.
  intros Hn r Hm. pose proof (Inv_run ops _ _ Hn (Inv_init pres)) as [I0 I1 I2 I3]. fold r in I0, I1, I2, I3.
  split.
  - intros -> Hr. destruct (I2 t Hm) as [H|H]; [exact H|contradiction].
  - intros ->. exact (I1 t Hm).
Qed.
Print Assumptions down_since_is_observed_loss.

(** reload_server keeps the old Server object only when the new declaration is the same in every compared field:
    exactly the same capacity vector, partition label, own traits and parent bucket *)
Lemma zlist_same_eq a : forall b, zlist_same a b = true -> a = b.
Proof.
  induction a as [|x a IH]; intros [|y b]; cbn; try discriminate; [reflexivity|].
  intros H. apply andb_true_iff in H as [H1 H2]. apply Z.eqb_eq in H1. rewrite H1, (IH b H2). reflexivity.
Qed.
Theorem reload_keeps_only_identical old new : same_decl old new = true -> old = new.
Proof.
  unfold same_decl. intros H. apply andb_true_iff in H as [H H4]. apply andb_true_iff in H as [H H3].
  apply andb_true_iff in H as [H1 H2]. apply Z.eqb_eq in H1, H3, H4. apply zlist_same_eq in H2.
  destruct old, new. cbn in *. congruence.
Qed.
Print Assumptions reload_keeps_only_identical.

(** non-vacuity: lost at 100, seen again by a new master at 120 (it came back during the failover), lost again at 900 *)
Example srv_nonvacuous :
  grun (init_srv true) None [SLoad 0; SPresence true false 0; SPresence false false 100; SPresRaw true; SLoad 120;
                             SPresence true false 120; SPresence false false 900]
  = (mkSrv (Some (Down, 900)) (Some (Down, 900)) false, Some 900).
Proof. vm_compute. reflexivity. Qed.
