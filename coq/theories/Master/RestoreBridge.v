(** The master-level restore (Master/RestoreSched.v, Master/RestoreAll.v: Loader.restore_placement /
    restore_placements) in terms of the scheduler's operation alphabet (Sched/Events.v [ORestore]).

    For a store in which no instance is recorded under two servers (the case the duplicate pass exists for is
    Master/RestoreDupP.v), the first loop of restore_placements is a run of [ORestore] operations, one per placement
    node in listing order.  Hence the cell a restarted master rebuilds satisfies every invariant of Sched/Reach.v
    [Good], it is [reachable] when the cell before the restore is, and the end-of-cycle theorems of C03/C05/C07/C08
    apply to the first cycle after a fail-over. *)
From Coq Require Import ZArith QArith List Bool Lia.
From RecordUpdate Require Import RecordSet.
From TM Require Import Sched.Vec Sched.Types Sched.Queue Sched.Tree Sched.Cycle Sched.Events Sched.Steps Sched.MapsP
                       Sched.InvAcct Sched.InvIdent Sched.Reach.
From TM Require Import Master.Publish Master.Restore Master.RestoreSched Master.RestoreAll Master.RestoreAllP.
Import ListNotations.
Open Scope Z_scope.

Lemma filter_all {A} (f : A -> bool) l : (forall x, In x l -> f x = true) -> filter f l = l.
Proof.
  induction l as [|y t IH]; cbn; [reflexivity|]. intros H. rewrite (H y (or_introl eq_refl)).
  rewrite IH by (intros x Hx; apply H; right; exact Hx). reflexivity.
Qed.
Lemma zremove_filter_nodup x l : NoDup l -> zremove x l = filter (fun y => negb (Z.eqb y x)) l.
Proof.
  induction 1 as [|y t Hn Hd IH]; cbn; [reflexivity|]. destruct (Z.eqb_spec y x) as [->|Hne]; cbn.
  - symmetry. apply filter_all. intros z Hz. destruct (Z.eqb_spec z x) as [->|]; [contradiction|reflexivity].
  - rewrite IH. reflexivity.
Qed.

(** the two renderings of Application.force_set_identity agree where the implementation's assertion holds (the
    instance has an identity group) and the group's offer has no duplicates *)
Lemma force_identity_agree c an i a g grp :
  get_app an (c_apps c) = Some a -> group_of c a = Some (g, grp) -> NoDup (g_avail grp) ->
  RestoreSched.force_identity c an i = Events.force_identity c an (Some i).
Proof.
  intros Ha Hg Hnd. unfold RestoreSched.force_identity, Events.force_identity. rewrite Ha, Hg.
  rewrite (zremove_filter_nodup i _ Hnd). reflexivity.
Qed.

(** the operation a placement node stands for *)
Definition op_of_node (s : Z) (presence : option Z) (ri : bool) (n : snode) : op :=
  ORestore s (sn_app n) (sched_verbatim presence n) (sn_expires n) (if ri then sn_identity n else None).

Lemma clear_server_unplaced c an a : get_app an (c_apps c) = Some a -> a_server a = None -> clear_server c an = c.
Proof. intros Ha Hs. unfold clear_server. rewrite Ha, Hs. reflexivity. Qed.

(** group of the instance after the placement part *)
Lemma restore_put_group c s an vb ex a g grp :
  Ident c -> get_app an (c_apps c) = Some a -> a_group a = Some g -> aget g (c_groups c) = Some grp ->
  exists a1, get_app an (c_apps (fst (restore_put c s an vb ex))) = Some a1 /\
             group_of (fst (restore_put c s an vb ex)) a1 = Some (g, grp) /\ NoDup (g_avail grp).
Proof.
  intros HI Ha Hg Hgrp. destruct (restore_put_eqi c s an vb ex) as [Eg Hq].
  pose proof (get_app_eqi _ _ Hq an) as Q. rewrite Ha in Q.
  destruct (get_app an (c_apps (fst (restore_put c s an vb ex)))) as [a1|]; [|contradiction].
  destruct Q as (_ & Q2 & _). exists a1. split; [reflexivity|]. split.
  - unfold group_of. rewrite <- Q2, Hg, Eg, Hgrp. reflexivity.
  - exact (id_avail_nodup _ HI g grp Hgrp).
Qed.

Theorem restore_node_is_op s presence ri c n :
  Ident c -> wf_op_all c (op_of_node s presence ri n) ->
  fst (restore_node s presence ri c n) = step c (op_of_node s presence ri n).
Proof.
  intros HI [[_ Hun] Hid]. unfold op_of_node in *. cbn [step]. unfold restore_node, restore_op.
  destruct (get_app (sn_app n) (c_apps c)) as [a|] eqn:Ea; [|reflexivity].
  specialize (Hun a eq_refl). rewrite (clear_server_unplaced c (sn_app n) a Ea Hun).
  set (ident := if ri then sn_identity n else None) in *.
  (* the forced identity, on the state after the placement part *)
  assert (Hforce : forall vb c1, fst (restore_put c s (sn_app n) vb (sn_expires n)) = c1 ->
            match ident with Some i => RestoreSched.force_identity c1 (sn_app n) i | None => c1 end
            = Events.force_identity c1 (sn_app n) ident).
  { intros vb c1 E1. destruct ident as [i|]; [|reflexivity]. cbn [wf_op_id] in Hid.
    destruct (Hid a Ea) as (_ & g & Hg & _). destruct (id_group_exists _ HI _ _ _ Ea Hg) as (grp & Hgrp).
    destruct (restore_put_group c s (sn_app n) vb (sn_expires n) a g grp HI Ea Hg Hgrp) as (a1 & Ha1 & Hg1 & Hnd).
    rewrite E1 in Ha1, Hg1. eapply force_identity_agree; eassumption. }
  unfold restore_put. destruct (sched_verbatim presence n) eqn:Ev.
  - specialize (Hforce true). unfold restore_put in Hforce.
    assert (Hfail : forall cx, srv_restore c s (sn_app n) (Some (sn_expires n)) = (cx, false) ->
                    cx = c_upd_app (sn_app n) (fun x => x <| a_expiry := Some (sn_expires n) |>) c).
    { unfold srv_restore. rewrite Ea. destruct (srv_put_lease c s (sn_app n) 0); intros cx H; inversion H; reflexivity. }
    destruct (srv_restore c s (sn_app n) (Some (sn_expires n))) as [c' ok]. destruct ok; cbn [fst].
    + apply Hforce. reflexivity.
    + rewrite (Hfail c' eq_refl). destruct (a_once a); reflexivity.
  - specialize (Hforce false). unfold restore_put in Hforce. rewrite Ea in *.
    destruct (a_once a) eqn:Eo; [reflexivity|].
    destruct (srv_put c s (sn_app n)) as [c'|]; cbn [fst]; [apply Hforce; reflexivity|reflexivity].
Qed.

(** ** the loops *)
Definition ops_of_server (ri : bool) (sr : srec) : list op :=
  map (op_of_node (sr_name sr) (sr_presence sr) ri) (sr_nodes sr).
Definition ops_of_store (ri : bool) (servers : list srec) : list op := flat_map (ops_of_server ri) servers.

Theorem restore_nodes_is_run s presence ri ns : forall c,
  Good c -> wf_ops_all c (map (op_of_node s presence ri) ns) ->
  restore_nodes s presence ri c ns = run c (map (op_of_node s presence ri) ns).
Proof.
  unfold restore_nodes. induction ns as [|n r IH]; intros c HG Hwf; [reflexivity|].
  cbn [map wf_ops_all] in Hwf. destruct Hwf as [W1 W2].
  cbn [fold_left map]. unfold run. cbn [fold_left].
  pose proof (restore_node_is_op s presence ri c n (proj1 (proj1 (proj2 HG))) W1) as E. rewrite E.
  apply IH; [apply Good_step; assumption|exact W2].
Qed.

Theorem restore_all_is_run ri servers : forall c,
  Good c -> wf_ops_all c (ops_of_store ri servers) ->
  fst (restore_all ri c servers) = run c (ops_of_store ri servers).
Proof.
  intros c HG Hwf. rewrite restore_all_is_fold. revert c HG Hwf.
  induction servers as [|sr l IH]; intros c HG Hwf; [reflexivity|].
  cbn [fold_left]. unfold ops_of_store in *. cbn [flat_map] in *. apply wf_ops_all_app in Hwf as [W1 W2].
  rewrite run_app. rewrite (restore_nodes_is_run _ _ _ _ c HG W1). apply IH; [|exact W2].
  apply Good_run; assumption.
Qed.

(** the cell after the first loop of restore_placements satisfies the invariants of every reachable state, and is
    reachable when the cell before it is *)
Theorem restore_all_Good ri servers c :
  Good c -> wf_ops_all c (ops_of_store ri servers) -> Good (fst (restore_all ri c servers)).
Proof. intros HG Hwf. rewrite restore_all_is_run by assumption. apply Good_run; assumption. Qed.

Theorem restore_all_reachable ri servers c :
  reachable c -> wf_ops_all c (ops_of_store ri servers) -> reachable (fst (restore_all ri c servers)).
Proof.
  intros HR Hwf. rewrite restore_all_is_run; [apply reachable_run; assumption|apply reachable_Good; exact HR|exact Hwf].
Qed.
