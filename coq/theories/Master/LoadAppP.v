(** Proofs about Master/LoadApp.v: what a manifest / server record DECLARES is what the scheduler object carries.

    Every theorem holds for the canonical tables ([ltables_ok T = true], discharged for the generated tables in
    Props/C03Load.v) and for ALL manifests, records, trait codes and names. *)
From Coq Require Import ZArith List Bool Lia ZifyBool.
From RecordUpdate Require Import RecordSet.
From TM Require Import Codec.BaseN Codec.BaseNP Codec.Dec Codec.DecP Codec.Units Codec.UnitsP
     Sched.Vec Sched.Types Sched.Events Sched.MapsP Master.LoadApp.
Import ListNotations.
Open Scope Z_scope.

(** * Tables: the check pins the canonical tables *)
Lemma zl_eqb_eq a b : zl_eqb a b = true -> a = b.
Proof.
  revert b; induction a as [|x a IH]; intros [|y b] H; cbn [zl_eqb] in H; try reflexivity; try discriminate.
  apply andb_true_iff in H as [H1 H2]. apply Z.eqb_eq in H1. rewrite (IH b H2). subst. reflexivity.
Qed.
Lemma zll_eqb_eq a b : zll_eqb a b = true -> a = b.
Proof.
  revert b; induction a as [|x a IH]; intros [|y b] H; cbn [zll_eqb] in H; try reflexivity; try discriminate.
  apply andb_true_iff in H as [H1 H2]. apply zl_eqb_eq in H1. rewrite (IH b H2). subst. reflexivity.
Qed.

Lemma ltables_ok_canon T : ltables_ok T = true -> T = ltables_canon.
Proof.
  destruct T as [f1 f2 f3 f4 f5 f6 f7 f8 f9 f10 f11 f12 f13 f14 f15 f16 f17 f18]. unfold ltables_ok.
  cbn [lt_time_scale lt_default_partition lt_prio_unset lt_default_prio lt_lease_default lt_invalid lt_app_flow
       lt_app_refresh lt_app_after lt_app_encode lt_app_init lt_app_defaults lt_aff_init lt_srv_flow lt_srv_encode
       lt_srv_init lt_srv_defaults lt_load_server].
  intros H.
  repeat match type of H with _ && _ = true => let H' := fresh "H" in apply andb_true_iff in H as [H H'] end.
  repeat match goal with
         | X : zz_eqb _ _ = true |- _ => apply zz_eqb_eq in X
         | X : zll_eqb _ _ = true |- _ => apply zll_eqb_eq in X
         | X : zl_eqb _ _ = true |- _ => apply zl_eqb_eq in X
         | X : str_eqb _ _ = true |- _ => apply str_eqb_eq in X
         | X : (_ =? _) = true |- _ => apply Z.eqb_eq in X
         end.
  subst. reflexivity.
Qed.

Notation LC := ltables_canon.

(** * utils.to_seconds *)
Lemma to_seconds_norm s n c k :
  norm s = str_of_Z n ++ [c] -> assoc c canon_time_scale = Some k -> to_seconds LC (VStr s) = UOk (n * k).
Proof.
  intros Hn Hc. unfold to_seconds. cbn [py_str]. fold (norm s). rewrite Hn, unsnoc_app.
  cbn [lt_time_scale ltables_canon]. rewrite Hc, uint_str. reflexivity.
Qed.

(** <n><c> in any letter case, between blanks ([spells s t]: s.upper().strip() == t) *)
Lemma to_seconds_spelled s n c k :
  spells s (str_of_Z n ++ [c]) = true -> assoc c canon_time_scale = Some k -> to_seconds LC (VStr s) = UOk (n * k).
Proof. intros Hs Hc. unfold spells in Hs. apply str_eqb_eq in Hs. exact (to_seconds_norm s n c k Hs Hc). Qed.

Lemma spells_plain n c : plain_c c = true -> spells (str_of_Z n ++ [c]) (str_of_Z n ++ [c]) = true.
Proof.
  intros Hc. unfold spells. apply str_eqb_eq. fold (norm (str_of_Z n ++ [c])). apply norm_str_sfx.
  cbn [forallb]. rewrite Hc. reflexivity.
Qed.

Lemma digit_no_time_unit d : In d digits10 -> assoc d canon_time_scale = None.
Proof.
  intros H. apply digit_cases in H.
  repeat (destruct H as [H|H]; [subst d; reflexivity|]). subst d; reflexivity.
Qed.

(** a unit-less interval (str or int, 0 included) is the generic Exception *)
Lemma to_seconds_unitless v n : norm (py_str v) = str_of_Z n -> to_seconds LC v = UException.
Proof.
  intros Hn. unfold to_seconds. fold (norm (py_str v)). rewrite Hn.
  destruct (str_of_Z_last n) as [i [d [Hi Hd]]]. rewrite Hi, unsnoc_app.
  cbn [lt_time_scale ltables_canon]. rewrite (digit_no_time_unit d Hd). reflexivity.
Qed.
Lemma to_seconds_int n : to_seconds LC (VInt n) = UException.
Proof. apply (to_seconds_unitless _ n). cbn [py_str]. apply norm_plain, str_of_Z_plain. Qed.
Lemma to_seconds_numeral n : to_seconds LC (VStr (str_of_Z n)) = UException.
Proof. apply (to_seconds_unitless _ n). cbn [py_str]. apply norm_plain, str_of_Z_plain. Qed.

(** the result depends on the argument only through value.upper().strip() *)
Lemma to_seconds_case_blanks l r s1 s2 :
  blank l = true -> blank r = true -> upper s1 = upper s2 ->
  to_seconds LC (VStr (l ++ s1 ++ r)) = to_seconds LC (VStr s2).
Proof.
  intros Hl Hr Hu. unfold to_seconds. cbn [py_str]. fold (norm (l ++ s1 ++ r)). fold (norm s2).
  rewrite (norm_blanks l s1 r Hl Hr), (norm_same_upper s1 s2 Hu). reflexivity.
Qed.

(** * The canonical tables, attribute by attribute *)
Definition base (asg : option Z) : Z := match asg with Some p => p | None => 1 end.

Lemma prio_canon m asg :
  prio_of LC m asg =
  match m_priority m with
  | None => UOk (base asg)
  | Some v => ubind (intv v) (fun p => if p =? -1 then UOk (base asg) else UOk p)
  end.
Proof. reflexivity. Qed.

Lemma drt_canon m :
  drt_of LC m = match m_drt m with
                | None => UOk None
                | Some v => ubind (to_seconds LC v) (fun s => UOk (Some s))
                end.
Proof. reflexivity. Qed.

Lemma lease_canon m :
  lease_of LC m = match m_lease m with
                  | None => to_seconds LC (VStr [48; 115])
                  | Some v => to_seconds LC v
                  end.
Proof. reflexivity. Qed.

Lemma lease_default_zero : to_seconds LC (VStr [48; 115]) = UOk 0.
Proof. reflexivity. Qed.

Lemma aff_canon m : aff_of LC m = UOk (m_affinity m).
Proof. reflexivity. Qed.
Lemma grp_canon m : grp_of LC m = UOk (m_group m).
Proof. reflexivity. Qed.
Lemma limits_canon m : limits_of LC m = UOk (m_limits m).
Proof. reflexivity. Qed.
Lemma once_canon m : once_of LC m = UOk (m_once m).
Proof. reflexivity. Qed.
Lemma trait_list_canon m :
  trait_list_of LC m = UOk (match m_traits m with Some l => l | None => [] end).
Proof. unfold trait_list_of. cbn. destruct (m_traits m); reflexivity. Qed.

Definition declared_traits (m : manifest) : list str := match m_traits m with Some l => l | None => [] end.
Definition declared_once (m : manifest) : tval := match m_once m with Some v => v | None => TNone end.

(** * load_new_app: record-level characterisation *)
Lemma load_new_inv U codes name m asg bl o :
  load_new_app LC U codes name m asg bl = UOk o ->
  exists p d l dem tz,
    prio_of LC m asg = UOk p /\ drt_of LC m = UOk d /\ lease_of LC m = UOk l /\
    resources U (m_res m) = UOk dem /\
    encode LC [1; 0] codes (declared_traits m) = UOk tz /\
    o = mkAO name p dem (m_affinity m) (aff_limits (m_limits m)) d l (m_group m) None (fst tz)
             (declared_once m) bl false false false None None.
Proof.
  intros H. unfold load_new_app in H.
  rewrite aff_canon, grp_canon, limits_canon, once_canon, trait_list_canon in H.
  change (key_of (lt_app_flow LC) A_DEMAND F_RESOURCES) with (Some (0, 0)) in H.
  change (lt_app_encode LC) with [1; 0] in H.
  destruct (prio_of LC m asg) as [p| | |] eqn:Hp; cbn [ubind] in H; try discriminate.
  destruct (drt_of LC m) as [d| | |] eqn:Hd; cbn [ubind] in H; try discriminate.
  destruct (lease_of LC m) as [l| | |] eqn:Hl; cbn [ubind] in H; try discriminate.
  destruct (resources U (m_res m)) as [dem| | |] eqn:Hr; cbn [ubind] in H; try discriminate.
  fold (declared_traits m) in H.
  destruct (encode LC [1; 0] codes (declared_traits m)) as [tz| | |] eqn:He; cbn [ubind] in H; try discriminate.
  inversion H. exists p, d, l, dem, tz. repeat split; reflexivity.
Qed.

Lemma load_new_ok U codes name m asg bl p d l dem tz :
  prio_of LC m asg = UOk p -> drt_of LC m = UOk d -> lease_of LC m = UOk l ->
  resources U (m_res m) = UOk dem -> encode LC [1; 0] codes (declared_traits m) = UOk tz ->
  load_new_app LC U codes name m asg bl =
  UOk (mkAO name p dem (m_affinity m) (aff_limits (m_limits m)) d l (m_group m) None (fst tz)
            (declared_once m) bl false false false None None).
Proof.
  intros Hp Hd Hl Hr He. unfold load_new_app.
  rewrite aff_canon, grp_canon, limits_canon, once_canon, trait_list_canon.
  change (key_of (lt_app_flow LC) A_DEMAND F_RESOURCES) with (Some (0, 0)).
  change (lt_app_encode LC) with [1; 0].
  rewrite Hp, Hd, Hl, Hr. cbn [ubind]. fold (declared_traits m). rewrite He. reflexivity.
Qed.

(** * The priority rule *)
Lemma prio_absent m asg : m_priority m = None -> prio_of LC m asg = UOk (base asg).
Proof. intros H. rewrite prio_canon, H. reflexivity. Qed.
Lemma prio_unset m asg v : m_priority m = Some v -> intv v = UOk (-1) -> prio_of LC m asg = UOk (base asg).
Proof. intros H Hv. rewrite prio_canon, H, Hv. reflexivity. Qed.
Lemma prio_given m asg v p : m_priority m = Some v -> intv v = UOk p -> p <> -1 -> prio_of LC m asg = UOk p.
Proof.
  intros H Hv Hp. rewrite prio_canon, H, Hv. cbn [ubind]. destruct (p =? -1) eqn:E; [lia|reflexivity].
Qed.
Lemma prio_malformed m asg v : m_priority m = Some v -> intv v = UValueError -> prio_of LC m asg = UValueError.
Proof. intros H Hv. rewrite prio_canon, H, Hv. reflexivity. Qed.
Lemma intv_int z : intv (VInt z) = UOk z.
Proof. reflexivity. Qed.
Lemma intv_numeral z : intv (VStr (str_of_Z z)) = UOk z.
Proof. apply uint_str. Qed.

(** * traits.encode *)
Definition sub (x r : Z) : Prop := Z.land r x = x.
Lemma sub_lor_l a b : sub a (Z.lor a b).
Proof. unfold sub. apply Z.bits_inj'. intros n _. rewrite Z.land_spec, Z.lor_spec. destruct (Z.testbit a n), (Z.testbit b n); reflexivity. Qed.
Lemma sub_lor_r a b : sub b (Z.lor a b).
Proof. unfold sub. apply Z.bits_inj'. intros n _. rewrite Z.land_spec, Z.lor_spec. destruct (Z.testbit a n), (Z.testbit b n); reflexivity. Qed.
Lemma sub_trans a b c : sub a b -> sub b c -> sub a c.
Proof. unfold sub. intros H1 H2. rewrite <- H1 at 1. rewrite Z.land_assoc, H2. exact H1. Qed.
Lemma sub_refl a : sub a a.
Proof. unfold sub. apply Z.land_diag. Qed.

(** the bit an INSTANCE gets for a declared trait: the trait's code, the invalid trait's code when unknown *)
Definition app_bit (inv_code : Z) (code : tcodes) (t : str) : Z :=
  match tfind t code with Some v => v | None => inv_code end.

Lemma encode_loop_app inv iv ts : forall code res next,
  tfind inv code = Some iv ->
  encode_loop inv true false ts code res next =
  UOk (fold_left (fun acc t => Z.lor acc (app_bit iv code t)) ts res, code).
Proof.
  induction ts as [|t ts IH]; intros code res next Hi; cbn [encode_loop fold_left]; [reflexivity|].
  unfold app_bit at 2. destruct (tfind t code) as [v|] eqn:E.
  - apply IH. exact Hi.
  - rewrite Hi. apply IH. exact Hi.
Qed.

(** without the invalid trait in the code (a Loader whose load_traits never ran): known traits only, else KeyError *)
Lemma encode_loop_known inv ui an ts : forall code res next,
  Forall (fun t => tfind t code <> None) ts ->
  encode_loop inv ui an ts code res next =
  UOk (fold_left (fun acc t => Z.lor acc (app_bit 0 code t)) ts res, code).
Proof.
  induction ts as [|t ts IH]; intros code res next Hall; cbn [encode_loop fold_left]; [reflexivity|].
  inversion Hall as [|? ? Ht Hts]; subst. unfold app_bit at 2.
  destruct (tfind t code) as [v|] eqn:E; [|congruence]. apply IH. exact Hts.
Qed.

Lemma fold_lor_sub (f : str -> Z) ts : forall res, sub res (fold_left (fun acc t => Z.lor acc (f t)) ts res).
Proof.
  induction ts as [|t ts IH]; intros res; cbn [fold_left]; [apply sub_refl|].
  eapply sub_trans; [apply sub_lor_l|apply IH].
Qed.
Lemma fold_lor_in (f : str -> Z) ts : forall res t, In t ts -> sub (f t) (fold_left (fun acc t => Z.lor acc (f t)) ts res).
Proof.
  induction ts as [|x ts IH]; intros res t Hin; cbn [fold_left]; [contradiction|].
  destruct Hin as [->|Hin].
  - eapply sub_trans; [apply sub_lor_r|apply fold_lor_sub].
  - apply IH. exact Hin.
Qed.

Lemma tfind_app_other t code k v : tfind t code = None -> str_eqb k t = false -> tfind t (code ++ [(k, v)]) = None.
Proof.
  induction code as [|[a w] code IH]; cbn [tfind List.app]; intros H Hk.
  - rewrite Hk. reflexivity.
  - destruct (str_eqb a t); [discriminate|]. apply IH; assumption.
Qed.
Lemma tfind_app_keep t code k v w : tfind t code = Some w -> tfind t (code ++ [(k, v)]) = Some w.
Proof.
  induction code as [|[a x] code IH]; cbn [tfind List.app]; intros H; [discriminate|].
  destruct (str_eqb a t); [exact H|]. apply IH. exact H.
Qed.
Lemma tfind_app_new t code v : tfind t code = None -> tfind t (code ++ [(t, v)]) = Some v.
Proof.
  induction code as [|[a x] code IH]; cbn [tfind List.app]; intros H.
  - replace (str_eqb t t) with true by (symmetry; apply str_eqb_eq; reflexivity). reflexivity.
  - destruct (str_eqb a t); [discriminate|]. apply IH. exact H.
Qed.

(** add_new (servers): the code only grows, every declared trait ends up in the code with its bit in the mask *)
Lemma encode_loop_add_new inv ui ts : forall code res next r code',
  encode_loop inv ui true ts code res next = UOk (r, code') ->
  (forall t v, tfind t code = Some v -> tfind t code' = Some v) /\
  (forall t, In t ts -> exists v, tfind t code' = Some v /\ sub v r) /\
  sub res r.
Proof.
  induction ts as [|t ts IH]; intros code res next r code' H; cbn [encode_loop] in H.
  - inversion H; subst. repeat split; [auto|intros t []|apply sub_refl].
  - destruct (tfind t code) as [v|] eqn:E.
    + destruct (IH _ _ _ _ _ H) as (K1 & K2 & K3). repeat split.
      * exact K1.
      * intros x [->|Hin]; [|apply K2; exact Hin].
        exists v. split; [apply K1; exact E|]. eapply sub_trans; [apply sub_lor_r|exact K3].
      * eapply sub_trans; [apply sub_lor_l|exact K3].
    + destruct (IH _ _ _ _ _ H) as (K1 & K2 & K3). repeat split.
      * intros x w Hx. apply K1. apply tfind_app_keep. exact Hx.
      * intros x [->|Hin]; [|apply K2; exact Hin].
        exists (2 * next). split; [apply K1; apply tfind_app_new; exact E|].
        eapply sub_trans; [apply sub_lor_r|exact K3].
      * eapply sub_trans; [apply sub_lor_l|exact K3].
Qed.

(** add_new never fails *)
Lemma encode_loop_add_new_total inv ui ts : forall code res next,
  exists r code', encode_loop inv ui true ts code res next = UOk (r, code').
Proof.
  induction ts as [|t ts IH]; intros code res next; cbn [encode_loop].
  - eauto.
  - destruct (tfind t code); apply IH.
Qed.

(** ... and when every declared trait is already known the code is untouched *)
Lemma encode_known_flags flags code ts :
  Forall (fun t => tfind t code <> None) ts ->
  encode LC flags code ts = UOk (fold_left (fun acc t => Z.lor acc (app_bit 0 code t)) ts 0, code).
Proof. intros H. unfold encode. apply encode_loop_known. exact H. Qed.

Lemma encode_app code ts iv :
  tfind (lt_invalid LC) code = Some iv ->
  encode LC [1; 0] code ts = UOk (fold_left (fun acc t => Z.lor acc (app_bit iv code t)) ts 0, code).
Proof. intros H. unfold encode. change (flag [1; 0] 0) with true. change (flag [1; 0] 1) with false. apply encode_loop_app. exact H. Qed.

(** traits.create_code always contains the invalid trait *)
Lemma tfind_tset_same k v c : tfind k (tset k v c) = Some v.
Proof.
  induction c as [|[a w] c IH]; cbn [tset tfind].
  - replace (str_eqb k k) with true by (symmetry; apply str_eqb_eq; reflexivity). reflexivity.
  - destruct (str_eqb a k) eqn:E; cbn [tfind]; rewrite E; [reflexivity|exact IH].
Qed.
Lemma tfind_tset_other k k' v c : str_eqb k k' = false -> tfind k' (tset k v c) = tfind k' c.
Proof.
  intros Hk. induction c as [|[a w] c IH]; cbn [tset tfind].
  - rewrite Hk. reflexivity.
  - destruct (str_eqb a k) eqn:E; cbn [tfind].
    + apply str_eqb_eq in E. subst a. rewrite Hk. reflexivity.
    + destruct (str_eqb a k'); [reflexivity|exact IH].
Qed.
Lemma create_loop_has inv ts : forall code res, tfind inv res <> None -> tfind inv (create_loop ts code res) <> None.
Proof.
  induction ts as [|t ts IH]; intros code res H; cbn [create_loop]; [exact H|].
  apply IH. destruct (str_eqb t inv) eqn:E.
  - apply str_eqb_eq in E. subst t. rewrite tfind_tset_same. discriminate.
  - rewrite (tfind_tset_other _ _ _ _ E). exact H.
Qed.
Lemma create_code_has_invalid ts : exists iv, tfind (lt_invalid LC) (create_code LC ts) = Some iv.
Proof.
  destruct (tfind (lt_invalid LC) (create_code LC ts)) as [iv|] eqn:E; [eauto|].
  exfalso. revert E. apply create_loop_has. cbn [tfind].
  replace (str_eqb (lt_invalid LC) (lt_invalid LC)) with true by (symmetry; apply str_eqb_eq; reflexivity).
  discriminate.
Qed.

(** * refresh_app: the existing-instance branch *)
Lemma refresh_canon m asg bl o :
  refresh_app LC m asg bl o =
  ubind (prio_of LC m asg) (fun p => ubind (drt_of LC m) (fun d => ubind (lease_of LC m) (fun _ =>
    UOk (set_blacklisted bl (set_drt d (set_prio p o)))))).
Proof. reflexivity. Qed.

Lemma refresh_inv m asg bl o o' :
  refresh_app LC m asg bl o = UOk o' ->
  exists p d l, prio_of LC m asg = UOk p /\ drt_of LC m = UOk d /\ lease_of LC m = UOk l /\
                o' = set_blacklisted bl (set_drt d (set_prio p o)).
Proof.
  rewrite refresh_canon. intros H.
  destruct (prio_of LC m asg) as [p| | |] eqn:Hp; cbn [ubind] in H; try discriminate.
  destruct (drt_of LC m) as [d| | |] eqn:Hd; cbn [ubind] in H; try discriminate.
  destruct (lease_of LC m) as [l| | |] eqn:Hl; cbn [ubind] in H; try discriminate.
  inversion H. exists p, d, l. repeat split; reflexivity.
Qed.

(** everything but priority, data retention and the blacklist flag *)
Definition same_rest (o o' : app_obj) : Prop :=
  ao_name o' = ao_name o /\ ao_demand o' = ao_demand o /\ ao_aff o' = ao_aff o /\ ao_limits o' = ao_limits o /\
  ao_lease o' = ao_lease o /\ ao_group o' = ao_group o /\ ao_identity o' = ao_identity o /\
  ao_traits o' = ao_traits o /\ ao_once o' = ao_once o /\ ao_evicted o' = ao_evicted o /\
  ao_unschedule o' = ao_unschedule o /\ ao_renew o' = ao_renew o /\ ao_server o' = ao_server o /\
  ao_expiry o' = ao_expiry o.

Lemma refresh_frame m asg bl o o' :
  refresh_app LC m asg bl o = UOk o' ->
  same_rest o o' /\
  prio_of LC m asg = UOk (ao_prio o') /\ drt_of LC m = UOk (ao_drt o') /\ ao_blacklisted o' = bl.
Proof.
  intros H. destruct (refresh_inv _ _ _ _ _ H) as (p & d & l & Hp & Hd & _ & ->).
  unfold same_rest. cbn. repeat split; assumption.
Qed.

(** the outcome of a refresh depends on the new manifest only through priority, data_retention_timeout and lease *)
Lemma refresh_depends m1 m2 asg bl o :
  m_priority m1 = m_priority m2 -> m_drt m1 = m_drt m2 -> m_lease m1 = m_lease m2 ->
  refresh_app LC m1 asg bl o = refresh_app LC m2 asg bl o.
Proof.
  intros Hp Hd Hl. rewrite !refresh_canon, !prio_canon, !drt_canon, !lease_canon, Hp, Hd, Hl. reflexivity.
Qed.

(** a lease that cannot be parsed fails the refresh although the lease is never assigned *)
Lemma refresh_lease_evaluated m asg bl o p d :
  prio_of LC m asg = UOk p -> drt_of LC m = UOk d -> lease_of LC m = UException ->
  refresh_app LC m asg bl o = UException.
Proof. intros Hp Hd Hl. rewrite refresh_canon, Hp, Hd, Hl. reflexivity. Qed.

(** * create_server / load_server *)
Definition declared_label (r : srv_rec) : str :=
  match sr_partition r with Some (c :: s) => c :: s | _ => lt_default_partition LC end.
Definition declared_srv_traits (r : srv_rec) : list str := match sr_traits r with Some l => l | None => [] end.
Definition declared_up_since (now : Z) (r : srv_rec) : Z := match sr_up_since r with Some t => t | None => now end.

Lemma label_canon r : label_of LC r = UOk (declared_label r).
Proof. unfold label_of, declared_label. cbn. destruct (sr_partition r) as [[|c s]|]; reflexivity. Qed.
Lemma up_since_canon now r : up_since_of LC now r = UOk (declared_up_since now r).
Proof. reflexivity. Qed.
Lemma srv_trait_list_canon r : srv_trait_list_of LC r = UOk (declared_srv_traits r).
Proof. unfold srv_trait_list_of, declared_srv_traits. cbn. destruct (sr_traits r); reflexivity. Qed.

Lemma create_server_canon U codes now name r :
  create_server LC U codes now name r =
  match encode LC [0; 1] codes (declared_srv_traits r) with
  | UOk (tz, codes') =>
      (ubind (resources U (sr_res r)) (fun cap =>
         UOk (mkSO name (declared_label r) cap cap tz (declared_up_since now r) 0 None)), codes')
  | e => (ucast e, codes)
  end.
Proof.
  unfold create_server. rewrite label_canon, up_since_canon, srv_trait_list_canon.
  change (lt_srv_encode LC) with [0; 1].
  destruct (encode LC [0; 1] codes (declared_srv_traits r)) as [[tz codes']| | |]; reflexivity.
Qed.

Lemma encode_srv_total codes ts : exists tz codes', encode LC [0; 1] codes ts = UOk (tz, codes').
Proof. unfold encode. change (flag [0; 1] 1) with true. apply encode_loop_add_new_total. Qed.

Lemma create_server_inv U codes now name r s codes' :
  create_server LC U codes now name r = (UOk s, codes') ->
  exists tz cap,
    encode LC [0; 1] codes (declared_srv_traits r) = UOk (tz, codes') /\ resources U (sr_res r) = UOk cap /\
    s = mkSO name (declared_label r) cap cap tz (declared_up_since now r) 0 None.
Proof.
  rewrite create_server_canon.
  destruct (encode_srv_total codes (declared_srv_traits r)) as (tz & c' & He). rewrite He.
  destruct (resources U (sr_res r)) as [cap| | |] eqn:Hr; cbn [ubind]; intros H; inversion H; subst.
  exists tz, cap. repeat split; reflexivity.
Qed.

(** the trait codes a server record introduces are kept even when its capacity cannot be parsed *)
Lemma create_server_codes U codes now name r :
  exists tz, encode LC [0; 1] codes (declared_srv_traits r) = UOk (tz, snd (create_server LC U codes now name r)).
Proof.
  rewrite create_server_canon.
  destruct (encode_srv_total codes (declared_srv_traits r)) as (tz & c' & He). rewrite He. exists tz. reflexivity.
Qed.

Lemma load_server_attached U codes now buckets name ro s codes' :
  load_server LC U codes now buckets name ro = (LSAttached s, codes') ->
  exists r p s0, ro = Some r /\ sr_parent r = Some p /\ existsb (str_eqb p) buckets = true /\
                 create_server LC U codes now name r = (UOk s0, codes') /\
                 s = mkSO (so_name s0) (so_label s0) (so_cap s0) (so_free s0) (so_traits s0) (so_up_since s0)
                          (so_valid_until s0) (Some p).
Proof.
  unfold load_server. destruct ro as [r|]; [|intros H; inversion H].
  destruct (create_server LC U codes now name r) as [[s0| | |] c'] eqn:Hc; try (intros H; inversion H; fail).
  destruct (sr_parent r) as [p|] eqn:Hp; [|intros H; inversion H].
  destruct (existsb (str_eqb p) buckets) eqn:Hb; intros H; inversion H; subst.
  exists r, p, s0. repeat split; try reflexivity; assumption.
Qed.

Lemma load_server_no_data U codes now buckets name :
  load_server LC U codes now buckets name None = (LSNoData, codes).
Proof. reflexivity. Qed.

(** * The scheduler model's view (Sched/Events.v) *)
Section Bridge.
  Variable id : str -> Z.
  Variable none_aff : Z.

  Lemma sched_app_fields order o :
    let a := sched_app id none_aff order o in
    a_name a = id (ao_name o) /\ a_prio a = ao_prio o /\ a_demand a = ao_demand o /\
    a_traits a = ao_traits o /\ a_lease a = ao_lease o /\ a_drt a = ao_drt o /\
    a_group a = option_map id (ao_group o) /\ a_once a = truthy (ao_once o) /\
    a_blacklisted a = ao_blacklisted o /\ a_identity a = ao_identity o /\ a_order a = order /\
    (forall lv, aff_limit a (id lv) = aget (id lv) (map (fun kv => (id (fst kv), snd kv)) (ao_limits o))).
  Proof. cbn. repeat split; reflexivity. Qed.

  (** with an injective naming the model's limit lookup is the object's *)
  Lemma aget_map_id (Hinj : forall a b, id a = id b -> a = b) lv l :
    aget (id lv) (map (fun kv : str * Z => (id (fst kv), snd kv)) l) = sfind lv l.
  Proof.
    induction l as [|[a v] l IH]; cbn [map aget sfind fst snd]; [reflexivity|].
    destruct (str_eqb a lv) eqn:E.
    - apply str_eqb_eq in E. subst a. rewrite Z.eqb_refl. reflexivity.
    - destruct (id a =? id lv) eqn:E2; [|exact IH].
      apply Z.eqb_eq in E2. apply Hinj in E2. subst a.
      rewrite (proj2 (str_eqb_eq lv lv) eq_refl) in E. discriminate.
  Qed.

  Lemma apps_upd_alloc c l p f : c_apps (upd_alloc c l p f) = c_apps c.
  Proof. unfold upd_alloc, ensure_part. destruct (aget l (c_parts c)); reflexivity. Qed.
  Lemma apps_ensure_group c g : c_apps (ensure_group c g) = c_apps c.
  Proof. unfold ensure_group. destruct g as [n|]; [|reflexivity]. destruct (aget n (c_groups c)); reflexivity. Qed.

  (** load_app on an EXISTING instance, as a run of the scheduler model: the instance's record keeps every field
      except priority, data retention, blacklist flag and allocation; every other instance is untouched *)
  Lemma load_existing_cell c label path order o old :
    get_app (id (ao_name o)) (c_apps c) = Some old ->
    let c' := run c (load_app_ops id none_aff label path order true o) in
    get_app (id (ao_name o)) (c_apps c') =
      Some (old <| a_prio := ao_prio o |> <| a_drt := ao_drt o |> <| a_blacklisted := ao_blacklisted o |>
                <| a_alloc := Some (label, path) |>) /\
    (forall n, n <> id (ao_name o) -> get_app n (c_apps c') = get_app n (c_apps c)).
  Proof.
    intros Hold. set (n := id (ao_name o)) in *.
    unfold load_app_ops, run. cbn [fold_left step]. fold n.
    unfold c_upd_app.
    set (c1 := c <| c_apps ::= upd_app n (fun a => a <| a_prio := ao_prio o |>) |>).
    set (c2 := c1 <| c_apps ::= upd_app n (fun a => a <| a_drt := ao_drt o |>) |>).
    set (c3 := c2 <| c_apps ::= upd_app n (fun a => a <| a_blacklisted := ao_blacklisted o |>) |>).
    assert (H1 : get_app n (c_apps c1) = Some (old <| a_prio := ao_prio o |>)).
    { subst c1. cbn [c_apps set]. apply get_upd_app_same; [reflexivity|exact Hold]. }
    assert (H2 : get_app n (c_apps c2) = Some (old <| a_prio := ao_prio o |> <| a_drt := ao_drt o |>)).
    { subst c2. cbn [c_apps set]. apply get_upd_app_same; [reflexivity|exact H1]. }
    assert (H3 : get_app n (c_apps c3) =
                 Some (old <| a_prio := ao_prio o |> <| a_drt := ao_drt o |> <| a_blacklisted := ao_blacklisted o |>)).
    { subst c3. cbn [c_apps set]. apply get_upd_app_same; [reflexivity|exact H2]. }
    assert (Ho : forall m, m <> n -> get_app m (c_apps c3) = get_app m (c_apps c)).
    { intros m Hm. subst c3 c2 c1. cbn [c_apps set].
      rewrite !get_upd_app_other by (try reflexivity; exact Hm). reflexivity. }
    unfold add_app. change (a_name (sched_app id none_aff order o)) with n. rewrite H3.
    match goal with |- context [ensure_group ?x ?g] => set (cc := x); set (gg := g) end.
    rewrite apps_ensure_group. subst cc. unfold c_upd_app. cbn [c_apps set].
    split.
    - erewrite get_upd_app_same; [reflexivity|reflexivity|].
      rewrite apps_upd_alloc.
      destruct (a_alloc _) as [[l0 p0]|]; [rewrite apps_upd_alloc|]; exact H3.
    - intros m Hm. rewrite get_upd_app_other by (try reflexivity; exact Hm).
      rewrite apps_upd_alloc.
      destruct (a_alloc _) as [[l0 p0]|]; [rewrite apps_upd_alloc|]; apply Ho; exact Hm.
  Qed.
End Bridge.

(** * The statements, for any tables that pass the check (the form Props/C03Load.v exports) *)
Definition default_label : str := [95; 100; 101; 102; 97; 117; 108; 116].   (* "_default" *)
Definition lease_default : pyval := VStr [48; 115].                          (* "0s" *)
Definition invalid_trait : str := [105; 110; 118; 97; 108; 105; 100].        (* "invalid" *)

Section Ok.
  Variable T : ltables.
  Hypothesis Hok : ltables_ok T = true.

  Let HT : T = LC := ltables_ok_canon T Hok.

  Theorem ok_seconds s n :
    (spells s (str_of_Z n ++ [83]) = true -> to_seconds T (VStr s) = UOk n) /\
    (spells s (str_of_Z n ++ [77]) = true -> to_seconds T (VStr s) = UOk (n * 60)) /\
    (spells s (str_of_Z n ++ [72]) = true -> to_seconds T (VStr s) = UOk (n * 3600)) /\
    (spells s (str_of_Z n ++ [68]) = true -> to_seconds T (VStr s) = UOk (n * 86400)).
  Proof.
    rewrite HT. repeat split; intros H.
    - rewrite (to_seconds_spelled s n 83 1 H eq_refl). f_equal. lia.
    - exact (to_seconds_spelled s n 77 60 H eq_refl).
    - exact (to_seconds_spelled s n 72 3600 H eq_refl).
    - exact (to_seconds_spelled s n 68 86400 H eq_refl).
  Qed.

  Theorem ok_seconds_canonical n :
    to_seconds T (VStr (str_of_Z n ++ [115])) = UOk n /\ to_seconds T (VStr (str_of_Z n ++ [109])) = UOk (n * 60) /\
    to_seconds T (VStr (str_of_Z n ++ [104])) = UOk (n * 3600) /\
    to_seconds T (VStr (str_of_Z n ++ [100])) = UOk (n * 86400).
  Proof.
    assert (L : forall c C, upper_c c = C -> plain_c C = true ->
                            spells (str_of_Z n ++ [c]) (str_of_Z n ++ [C]) = true).
    { intros c C Hc Hp. unfold spells. apply str_eqb_eq. fold (norm (str_of_Z n ++ [c])).
      rewrite (norm_same_upper (str_of_Z n ++ [c]) (str_of_Z n ++ [C])).
      - apply norm_str_sfx. cbn [forallb]. rewrite Hp. reflexivity.
      - rewrite !upper_app. f_equal. cbn [upper map]. rewrite Hc.
        unfold plain_c in Hp. apply andb_true_iff in Hp as [_ Hp]. apply Z.eqb_eq in Hp. rewrite Hp. reflexivity. }
    destruct (ok_seconds (str_of_Z n ++ [115]) n) as (A & _).
    destruct (ok_seconds (str_of_Z n ++ [109]) n) as (_ & B & _).
    destruct (ok_seconds (str_of_Z n ++ [104]) n) as (_ & _ & C & _).
    destruct (ok_seconds (str_of_Z n ++ [100]) n) as (_ & _ & _ & D).
    repeat split; [apply A|apply B|apply C|apply D]; apply L; reflexivity.
  Qed.

  Theorem ok_seconds_unitless n :
    to_seconds T (VInt n) = UException /\ to_seconds T (VStr (str_of_Z n)) = UException.
  Proof. rewrite HT. split; [apply to_seconds_int|apply to_seconds_numeral]. Qed.

  Theorem ok_seconds_case_blanks l r s1 s2 :
    blank l = true -> blank r = true -> upper s1 = upper s2 ->
    to_seconds T (VStr (l ++ s1 ++ r)) = to_seconds T (VStr s2).
  Proof. rewrite HT. apply to_seconds_case_blanks. Qed.

  (** ** a new instance *)
  Lemma ok_new_inv U codes name m asg bl o :
    load_new_app T U codes name m asg bl = UOk o ->
    exists p d l dem tz,
      prio_of LC m asg = UOk p /\ drt_of LC m = UOk d /\ lease_of LC m = UOk l /\
      resources U (m_res m) = UOk dem /\
      encode LC [1; 0] codes (declared_traits m) = UOk tz /\
      o = mkAO name p dem (m_affinity m) (aff_limits (m_limits m)) d l (m_group m) None (fst tz)
               (declared_once m) bl false false false None None.
  Proof. rewrite HT. apply load_new_inv. Qed.

    Theorem ok_new_priority U codes name m asg bl o :
      load_new_app T U codes name m asg bl = UOk o ->
      (m_priority m = None -> ao_prio o = base asg) /\
      (forall v p, m_priority m = Some v -> intv v = UOk p -> ao_prio o = if p =? -1 then base asg else p).
    Proof.
      intros Hload. pose proof (ok_new_inv _ _ _ _ _ _ _ Hload) as Hinv. clear Hload. destruct Hinv as (p & d & l & dem & tz & Hp & _ & _ & _ & _ & ->). cbn [ao_prio].
      rewrite prio_canon in Hp. split.
      - intros E. rewrite E in Hp. inversion Hp. reflexivity.
      - intros v q E Hv. rewrite E, Hv in Hp. cbn [ubind] in Hp. destruct (q =? -1); inversion Hp; reflexivity.
    Qed.

    Theorem ok_new_lease U codes name m asg bl o :
      load_new_app T U codes name m asg bl = UOk o ->
      to_seconds T (match m_lease m with Some v => v | None => lease_default end) = UOk (ao_lease o) /\
      (m_lease m = None -> ao_lease o = 0).
    Proof.
      intros Hload. pose proof (ok_new_inv _ _ _ _ _ _ _ Hload) as Hinv. clear Hload. destruct Hinv as (p & d & l & dem & tz & _ & _ & Hl & _ & _ & ->). cbn [ao_lease].
      rewrite lease_canon in Hl. rewrite HT. split.
      - destruct (m_lease m); exact Hl.
      - intros E. rewrite E, lease_default_zero in Hl. inversion Hl. reflexivity.
    Qed.

    Theorem ok_new_retention U codes name m asg bl o :
      load_new_app T U codes name m asg bl = UOk o ->
      match m_drt m with
      | None => ao_drt o = None
      | Some v => exists s, to_seconds T v = UOk s /\ ao_drt o = Some s
      end.
    Proof.
      intros Hload. pose proof (ok_new_inv _ _ _ _ _ _ _ Hload) as Hinv. clear Hload. destruct Hinv as (p & d & l & dem & tz & _ & Hd & _ & _ & _ & ->). cbn [ao_drt].
      rewrite drt_canon in Hd. rewrite HT. destruct (m_drt m) as [v|].
      - destruct (to_seconds LC v) as [s| | |]; cbn [ubind] in Hd; try discriminate.
        inversion Hd. exists s. split; reflexivity.
      - inversion Hd. reflexivity.
    Qed.

    Theorem ok_new_demand U codes name m asg bl o :
      load_new_app T U codes name m asg bl = UOk o ->
      resources U (m_res m) = UOk (ao_demand o) /\
      (units_tables_ok U = true ->
       exists mm c k, ao_demand o = [mm; c; k] /\ megabytes U (fval (r_memory (m_res m))) = UOk mm /\
                      cpu_units U (fval (r_cpu (m_res m))) = UOk c /\ megabytes U (fval (r_disk (m_res m))) = UOk k).
    Proof.
      intros Hload. pose proof (ok_new_inv _ _ _ _ _ _ _ Hload) as Hinv. clear Hload. destruct Hinv as (p & d & l & dem & tz & _ & _ & _ & Hr & _ & ->). cbn [ao_demand]. split; [exact Hr|].
      intros HU. exact (res_inv U HU (m_res m) dem Hr).
    Qed.

    Theorem ok_new_affinity U codes name m asg bl o :
      load_new_app T U codes name m asg bl = UOk o ->
      ao_aff o = m_affinity m /\ ao_limits o = aff_limits (m_limits m) /\
      (forall lv, limit_at o lv = match m_limits m with Some l => sfind lv l | None => None end).
    Proof.
      intros Hload. pose proof (ok_new_inv _ _ _ _ _ _ _ Hload) as Hinv. clear Hload. destruct Hinv as (p & d & l & dem & tz & _ & _ & _ & _ & _ & ->). cbn [ao_aff ao_limits].
      repeat split. intros lv. unfold limit_at. cbn [ao_limits]. destruct (m_limits m); reflexivity.
    Qed.

    Theorem ok_new_group U codes name m asg bl o :
      load_new_app T U codes name m asg bl = UOk o -> ao_group o = m_group m /\ ao_identity o = None.
    Proof. intros Hload. pose proof (ok_new_inv _ _ _ _ _ _ _ Hload) as Hinv. clear Hload. destruct Hinv as (p & d & l & dem & tz & _ & _ & _ & _ & _ & ->). split; reflexivity. Qed.

    Theorem ok_new_once U codes name m asg bl o :
      load_new_app T U codes name m asg bl = UOk o -> ao_once o = declared_once m.
    Proof. intros Hload. pose proof (ok_new_inv _ _ _ _ _ _ _ Hload) as Hinv. clear Hload. destruct Hinv as (p & d & l & dem & tz & _ & _ & _ & _ & _ & ->). reflexivity. Qed.

    Theorem ok_new_flags U codes name m asg bl o :
      load_new_app T U codes name m asg bl = UOk o ->
      ao_name o = name /\ ao_blacklisted o = bl /\ ao_evicted o = false /\ ao_unschedule o = false /\
      ao_renew o = false /\ ao_server o = None /\ ao_expiry o = None.
    Proof. intros Hload. pose proof (ok_new_inv _ _ _ _ _ _ _ Hload) as Hinv. clear Hload. destruct Hinv as (p & d & l & dem & tz & _ & _ & _ & _ & _ & ->). repeat split; reflexivity. Qed.

    (** the trait mask: the codes of the declared traits, the invalid trait's code for an unknown one *)
    Theorem ok_new_traits U codes name m asg bl o iv :
      load_new_app T U codes name m asg bl = UOk o ->
      tfind invalid_trait codes = Some iv ->
      ao_traits o = fold_left (fun acc t => Z.lor acc (app_bit iv codes t)) (declared_traits m) 0 /\
      (forall t, In t (declared_traits m) -> sub (app_bit iv codes t) (ao_traits o)) /\
      (declared_traits m = [] -> ao_traits o = 0).
    Proof.
      intros Hload Hi. pose proof (ok_new_inv _ _ _ _ _ _ _ Hload) as Hinv. clear Hload. destruct Hinv as (p & d & l & dem & tz & _ & _ & _ & _ & He & ->). cbn [ao_traits].
      rewrite (encode_app codes (declared_traits m) iv Hi) in He. inversion He. cbn [fst].
      repeat split.
      - intros t Hin. apply (fold_lor_in (app_bit iv codes)). exact Hin.
      - intros E. rewrite E. reflexivity.
    Qed.


  (** a manifest whose fields parse is loaded (the hypotheses of the theorems above are satisfiable) *)
  Theorem ok_new_total U codes name m asg bl p d l dem iv :
    prio_of T m asg = UOk p -> drt_of T m = UOk d -> lease_of T m = UOk l -> resources U (m_res m) = UOk dem ->
    tfind invalid_trait codes = Some iv ->
    exists o, load_new_app T U codes name m asg bl = UOk o.
  Proof.
    rewrite HT. intros Hp Hd Hl Hr Hi. eexists.
    exact (load_new_ok U codes name m asg bl p d l dem _ Hp Hd Hl Hr (encode_app codes (declared_traits m) iv Hi)).
  Qed.

  (** the Loader's codes after load_traits always carry the invalid trait *)
  Theorem ok_codes_invalid ts : exists iv, tfind invalid_trait (create_code T ts) = Some iv.
  Proof. rewrite HT. apply create_code_has_invalid. Qed.

  (** the priority rule itself (both branches use it) *)
  Theorem ok_prio_rule m asg :
    prio_of T m asg =
    match m_priority m with
    | None => UOk (base asg)
    | Some v => ubind (intv v) (fun p => if p =? -1 then UOk (base asg) else UOk p)
    end.
  Proof. rewrite HT. apply prio_canon. Qed.

  (** ** an existing instance *)
  Theorem ok_refresh_frame m asg bl o o' :
    refresh_app T m asg bl o = UOk o' ->
    same_rest o o' /\ prio_of T m asg = UOk (ao_prio o') /\ drt_of T m = UOk (ao_drt o') /\ ao_blacklisted o' = bl.
  Proof. rewrite HT. apply refresh_frame. Qed.

  Theorem ok_refresh_depends m1 m2 asg bl o :
    m_priority m1 = m_priority m2 -> m_drt m1 = m_drt m2 -> m_lease m1 = m_lease m2 ->
    refresh_app T m1 asg bl o = refresh_app T m2 asg bl o.
  Proof. rewrite HT. apply refresh_depends. Qed.

  Theorem ok_refresh_lease_evaluated m asg bl o p d :
    prio_of T m asg = UOk p -> drt_of T m = UOk d -> lease_of T m = UException ->
    refresh_app T m asg bl o = UException.
  Proof. rewrite HT. apply refresh_lease_evaluated. Qed.

  Theorem ok_load_app_dispatch U codes existing name mo asg bl :
    load_app T U codes existing name mo asg bl =
    match mo, existing with
    | None, _ => UOk LRemove
    | Some m, Some o => ubind (refresh_app T m asg bl o) (fun o' => UOk (LLoaded o'))
    | Some m, None => ubind (load_new_app T U codes name m asg bl) (fun o' => UOk (LLoaded o'))
    end.
  Proof. unfold load_app. destruct mo, existing; reflexivity. Qed.

  (** ** a server record *)
  Lemma ok_srv_inv U codes now name r s codes' :
    create_server T U codes now name r = (UOk s, codes') ->
    exists tz cap,
      encode LC [0; 1] codes (declared_srv_traits r) = UOk (tz, codes') /\ resources U (sr_res r) = UOk cap /\
      s = mkSO name (declared_label r) cap cap tz (declared_up_since now r) 0 None.
  Proof. rewrite HT. apply create_server_inv. Qed.

    Theorem ok_srv_label U codes now name r s codes' :
      create_server T U codes now name r = (UOk s, codes') ->
      so_label s = match sr_partition r with Some (c :: x) => c :: x | _ => default_label end.
    Proof. intros Hc. pose proof (ok_srv_inv _ _ _ _ _ _ _ Hc) as Hinv. clear Hc. destruct Hinv as (tz & cap & _ & _ & ->). reflexivity. Qed.

    Theorem ok_srv_capacity U codes now name r s codes' :
      create_server T U codes now name r = (UOk s, codes') ->
      resources U (sr_res r) = UOk (so_cap s) /\ so_free s = so_cap s /\
      (units_tables_ok U = true ->
       exists mm c k, so_cap s = [mm; c; k] /\ megabytes U (fval (r_memory (sr_res r))) = UOk mm /\
                      cpu_units U (fval (r_cpu (sr_res r))) = UOk c /\ megabytes U (fval (r_disk (sr_res r))) = UOk k).
    Proof.
      intros Hc. pose proof (ok_srv_inv _ _ _ _ _ _ _ Hc) as Hinv. clear Hc. destruct Hinv as (tz & cap & _ & Hr & ->). cbn [so_cap so_free]. repeat split; [exact Hr|].
      intros HU. exact (res_inv U HU (sr_res r) cap Hr).
    Qed.

    Theorem ok_srv_rest U codes now name r s codes' :
      create_server T U codes now name r = (UOk s, codes') ->
      so_name s = name /\ so_up_since s = match sr_up_since r with Some t => t | None => now end /\
      so_valid_until s = 0 /\ so_parent s = None.
    Proof. intros Hc. pose proof (ok_srv_inv _ _ _ _ _ _ _ Hc) as Hinv. clear Hc. destruct Hinv as (tz & cap & _ & _ & ->). repeat split; reflexivity. Qed.

    Theorem ok_srv_traits U codes now name r s codes' :
      create_server T U codes now name r = (UOk s, codes') ->
      (forall t v, tfind t codes = Some v -> tfind t codes' = Some v) /\
      (forall t, In t (declared_srv_traits r) -> exists v, tfind t codes' = Some v /\ sub v (so_traits s)) /\
      (Forall (fun t => tfind t codes <> None) (declared_srv_traits r) ->
       codes' = codes /\
       so_traits s = fold_left (fun acc t => Z.lor acc (app_bit 0 codes t)) (declared_srv_traits r) 0).
    Proof.
      intros Hc. pose proof (ok_srv_inv _ _ _ _ _ _ _ Hc) as Hinv. clear Hc. destruct Hinv as (tz & cap & He & _ & ->). cbn [so_traits].
      pose proof He as He'. unfold encode in He'. change (flag [0; 1] 1) with true in He'.
      destruct (encode_loop_add_new _ _ _ _ _ _ _ _ He') as (K1 & K2 & _).
      split; [exact K1|]. split; [exact K2|]. intros Hall.
      rewrite (encode_known_flags [0; 1] codes _ Hall) in He. inversion He. split; reflexivity.
    Qed.


  Theorem ok_srv_codes_survive U codes now name r :
    exists tz, encode T [0; 1] codes (declared_srv_traits r) = UOk (tz, snd (create_server T U codes now name r)).
  Proof. rewrite HT. apply create_server_codes. Qed.

  Theorem ok_srv_attached U codes now buckets name ro s codes' :
    load_server T U codes now buckets name ro = (LSAttached s, codes') ->
    exists r p s0, ro = Some r /\ sr_parent r = Some p /\ existsb (str_eqb p) buckets = true /\
                   create_server T U codes now name r = (UOk s0, codes') /\
                   so_parent s = Some p /\ so_label s = so_label s0 /\ so_cap s = so_cap s0 /\
                   so_free s = so_free s0 /\ so_traits s = so_traits s0 /\ so_up_since s = so_up_since s0 /\
                   so_valid_until s = so_valid_until s0 /\ so_name s = so_name s0.
  Proof.
    rewrite HT. intros H. destruct (load_server_attached _ _ _ _ _ _ _ _ H) as (r & p & s0 & A & B & C & D & ->).
    exists r, p, s0. repeat split; assumption || reflexivity.
  Qed.

  Theorem ok_srv_not_attached U codes now buckets name r :
    (load_server T U codes now buckets name None = (LSNoData, codes)) /\
    (sr_parent r = None -> forall s c', create_server T U codes now name r = (UOk s, c') ->
       load_server T U codes now buckets name (Some r) = (LSAssertion, c')) /\
    (forall p, sr_parent r = Some p -> existsb (str_eqb p) buckets = false ->
       forall s c', create_server T U codes now name r = (UOk s, c') ->
       load_server T U codes now buckets name (Some r) = (LSNoParent, c')).
  Proof.
    repeat split.
    - intros Hp s c' Hc. unfold load_server. rewrite Hc, Hp. reflexivity.
    - intros p Hp Hb s c' Hc. unfold load_server. rewrite Hc, Hp, Hb. reflexivity.
  Qed.
End Ok.
