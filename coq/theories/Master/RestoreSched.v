(** Loader.restore_placement on top of the scheduler model (Sched/Tree.v): the decision of Master/Restore.v with
    Server.restore / Server.put being [srv_restore] / [srv_put] on the cell as it is when the node's turn comes.
    (A schedule-once instance that cannot be put back is removed with Events.remove_app; an instance that was already
    restored under an earlier server is put on this one as well, see [clear_server].)  Model file: no proofs (they are in
    RestoreSchedP.v); nothing in Sched/ is changed. *)
From Coq Require Import ZArith QArith List Bool Lia.
From RecordUpdate Require Import RecordSet.
From TM Require Import Sched.Vec Sched.Types Sched.Queue Sched.Tree Sched.Cycle Sched.Events.
From TM Require Import Master.Publish Master.Restore.
Import ListNotations.
Open Scope Z_scope.

(** Application.force_set_identity: take the identity, whatever the group says *)
Definition force_identity (c : cell) (aname i : Z) : cell :=
  match get_app aname (c_apps c) with
  | None => c
  | Some a =>
      let c1 := match group_of c a with
                | Some (g, grp) => c <| c_groups ::= aset g (mkGroup (g_count grp) (filter (fun x => negb (Z.eqb x i)) (g_avail grp))) |>
                | None => c
                end in
      c_upd_app aname (fun x => x <| a_identity := Some i |>) c1
  end.

Record snode := mkSN { sn_app : Z; sn_identity : option Z; sn_expires : Z; sn_ctime : Z }.

Definition sched_verbatim (presence : option Z) (n : snode) : bool :=
  match presence with Some pt => negb (Z.eqb pt 0) && Z.leb pt (sn_ctime n) | None => false end.

(** Python's Server.put / Server.restore never look at app.server: for an instance that still names a server (it was
    restored under an earlier server of the same load) the put goes ahead, the new server lists the instance too and
    app.server is overwritten, while the earlier server keeps listing it and keeps its demand deducted - until the
    duplicate pass of restore_placements removes it from both.  Sched/Tree.v [put_guard] refuses such an instance
    ("never the case at a call site" - true of every other call site), so the field is cleared on the record the
    guard sees; nothing else of the cell is touched, and nothing at all when the instance names no server. *)
Definition clear_server (c : cell) (aname : Z) : cell :=
  match get_app aname (c_apps c) with
  | Some a => match a_server a with
              | Some _ => c_upd_app aname (fun x => x <| a_server := None |>) c
              | None => c
              end
  | None => c
  end.

(** one node of /placement/<s>.  When the put is refused (capacity, label, traits, affinity limit, lifetime) the
    instance is as Python leaves it: still naming the earlier server, with the node's expiry assigned by
    Server.restore *)
Definition restore_node (s : Z) (presence : option Z) (ri : bool) (c : cell) (n : snode) : cell * raction :=
  match get_app (sn_app n) (c_apps c) with
  | None => (c, RDeleteStale)
  | Some a =>
      let ident := if ri then sn_identity n else None in
      let force c' := match ident with Some i => force_identity c' (sn_app n) i | None => c' end in
      let c0 := clear_server c (sn_app n) in
      if sched_verbatim presence n then
        let '(c', ok) := srv_restore c0 s (sn_app n) (Some (sn_expires n)) in
        if ok then (force c', RRestore (sn_expires n) ident)
        else
          let cf := c_upd_app (sn_app n) (fun x => x <| a_expiry := Some (sn_expires n) |>) c in
          if a_once a then (remove_app cf (sn_app n), RDropped true) else (cf, RDropped false)
      else if a_once a then (remove_app c (sn_app n), RDropped true)
      else match srv_put c0 s (sn_app n) with
           | Some c' => (force c', RPutFresh ident)
           | None => (c, RDropped false)
           end
  end.

Definition restore_nodes (s : Z) (presence : option Z) (ri : bool) (c : cell) (ns : list snode) : cell :=
  fold_left (fun acc n => fst (restore_node s presence ri acc n)) ns c.

