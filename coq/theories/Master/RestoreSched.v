(** Loader.restore_placement on top of the scheduler model (Sched/Tree.v): the decision of Master/Restore.v with
    Server.restore / Server.put being [srv_restore] / [srv_put] on the cell as it is when the node's turn comes.
    (A schedule-once instance that cannot be put back is removed with Events.remove_app.)  Model file: no proofs (they are in
    RestoreSchedP.v); nothing in Sched/ is changed. *)
From Coq Require Import ZArith QArith List Bool Lia.
From RecordUpdate Require Import RecordSet.
From TM Require Import Sched.Vec Sched.Types Sched.Queue Sched.Tree Sched.Cycle Sched.Events.
From TM Require Import Master.Publish Master.Restore.
Import ListNotations.
Open Scope Z_scope.

(** Application.force_set_identity: take the identity, whatever the group says *)
Definition force_identity (c : cell) (aname i : Z) : cell :=
  match get_app aname (c_apps c) with
  | None => c
  | Some a =>
      let c1 := match group_of c a with
                | Some (g, grp) => c <| c_groups ::= aset g (mkGroup (g_count grp) (filter (fun x => negb (Z.eqb x i)) (g_avail grp))) |>
                | None => c
                end in
      c_upd_app aname (fun x => x <| a_identity := Some i |>) c1
  end.

Record snode := mkSN { sn_app : Z; sn_identity : option Z; sn_expires : Z; sn_ctime : Z }.

Definition sched_verbatim (presence : option Z) (n : snode) : bool :=
  match presence with Some pt => negb (Z.eqb pt 0) && Z.leb pt (sn_ctime n) | None => false end.

(** one node of /placement/<s> *)
Definition restore_node (s : Z) (presence : option Z) (ri : bool) (c : cell) (n : snode) : cell * raction :=
  match get_app (sn_app n) (c_apps c) with
  | None => (c, RDeleteStale)
  | Some a =>
      let ident := if ri then sn_identity n else None in
      let force c' := match ident with Some i => force_identity c' (sn_app n) i | None => c' end in
      if sched_verbatim presence n then
        let '(c', ok) := srv_restore c s (sn_app n) (Some (sn_expires n)) in
        if ok then (force c', RRestore (sn_expires n) ident)
        else if a_once a then (remove_app c' (sn_app n), RDropped true) else (c', RDropped false)
      else if a_once a then (remove_app c (sn_app n), RDropped true)
      else match srv_put c s (sn_app n) with
           | Some c' => (force c', RPutFresh ident)
           | None => (c, RDropped false)
           end
  end.

Definition restore_nodes (s : Z) (presence : option Z) (ri : bool) (c : cell) (ns : list snode) : cell :=
  fold_left (fun acc n => fst (restore_node s presence ri acc n)) ns c.

