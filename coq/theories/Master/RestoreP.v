(** Proofs about Master/Restore.v *)
From Coq Require Import ZArith List Bool Lia.
From TM Require Import Master.Publish Master.Restore.
Import ListNotations.
Open Scope Z_scope.

Lemma healthy_restored_verbatim presence e :
  healthy presence e = true ->
  restore_action presence true e = RRestore (re_expires e) (re_identity e).
Proof.
  unfold healthy, restore_action. intros H.
  apply andb_true_iff in H as [H H4]. apply andb_true_iff in H as [H H3]. apply andb_true_iff in H as [H1 H2].
  rewrite H1, H2, H3, H4. reflexivity.
Qed.

Lemma restore_never_invents presence ri e x id :
  restore_action presence ri e = RRestore x id -> x = re_expires e /\ (id = re_identity e \/ id = None).
Proof.
  unfold restore_action. destruct (re_known e), (re_node e), (verbatim presence e), (re_fits e), (re_once e), ri;
    cbn; intros H; inversion H; auto.
Qed.

Lemma restored_names_recorded s presence ri entries a :
  In a (fst (restore_server s presence ri entries)) -> In a (map re_app entries).
Proof.
  unfold restore_server. cbn [fst]. intros H. apply in_flat_map in H as [e [He H]].
  destruct (restored _); [|contradiction]. destruct H as [<-|[]]. apply in_map. exact He.
Qed.

Lemma healthy_in_restored s presence entries e :
  In e entries -> healthy presence e = true -> In (re_app e) (fst (restore_server s presence true entries)).
Proof.
  intros He H. unfold restore_server. cbn [fst]. apply in_flat_map. exists e. split; [exact He|].
  rewrite (healthy_restored_verbatim presence e H). cbn. left. reflexivity.
Qed.

Lemma healthy_no_writes s presence e :
  healthy presence e = true -> restore_writes s e (restore_action presence true e) = [].
Proof. intros H. rewrite (healthy_restored_verbatim presence e H). reflexivity. Qed.

(** a rebooted server (presence younger than the node) never restores verbatim *)
Lemma rebooted_not_verbatim pt e x id ri :
  (re_ctime e < pt) -> restore_action (Some pt) ri e <> RRestore x id.
Proof.
  intros H. unfold restore_action, verbatim.
  replace (Z.leb pt (re_ctime e)) with false by (symmetry; apply Z.leb_gt; exact H).
  rewrite andb_false_r.
  destruct (re_known e), (re_node e), (re_once e), (re_fits e); cbn; discriminate.
Qed.
