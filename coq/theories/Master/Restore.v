(** Model of the per-entry decision of Loader.restore_placement (loader.py:554-616): what happens to one
    /placement/<server>/<app> node when a master (re)loads a server.

    The outcome of Server.restore / Server.put (capacity, partition, traits, affinity: Sched/Tree.v
    [srv_restore] / [srv_put]) enters as the boolean [fits]; everything else is the code's own case analysis.
    Model file: no proofs. *)
From Coq Require Import ZArith List Bool.
From TM Require Import Master.Publish.
Import ListNotations.
Open Scope Z_scope.

Record rentry := mkRE {
  re_app : Z;
  re_known : bool;                 (* appname in self.cell.apps *)
  re_node : bool;                  (* get_with_metadata(appnode) succeeds (False = ObjectNotFoundError -> continue) *)
  re_identity : option Z;          (* data.get('identity') *)
  re_expires : Z;                  (* data.get('expires', 0) *)
  re_ctime : Z;                    (* metadata.ctime of the placement node *)
  re_once : bool;                  (* app.schedule_once *)
  re_fits : bool                   (* Server.restore / Server.put would return True on the server as it is now *)
}.

Inductive raction :=
| RDeleteStale                               (* instance no longer scheduled: node deleted *)
| RSkip                                      (* node vanished *)
| RRestore (expires : Z) (identity : option Z)   (* server.restore(app, expires) succeeded; identity forced *)
| RPutFresh (identity : option Z)            (* server.put(app) succeeded: new expiry = now + lease *)
| RDropped (finish_once : bool).             (* could not be put back: node deleted (+ schedule_once finished) *)

(** presence: ctime of /server.presence/<server> (None = no presence node).
    Python: `if presence_time and presence_time <= placement_time` *)
Definition verbatim (presence : option Z) (e : rentry) : bool :=
  match presence with
  | Some pt => negb (Z.eqb pt 0) && Z.leb pt (re_ctime e)
  | None => false
  end.

Definition restore_action (presence : option Z) (restore_identity : bool) (e : rentry) : raction :=
  if negb (re_known e) then RDeleteStale
  else if negb (re_node e) then RSkip
  else
    let ident := if restore_identity then re_identity e else None in
    if verbatim presence e then
      (if re_fits e then RRestore (re_expires e) ident else RDropped (re_once e))
    else if re_once e then RDropped true
    else if re_fits e then RPutFresh ident else RDropped false.

Definition restored (a : raction) : bool :=
  match a with RRestore _ _ | RPutFresh _ => true | _ => false end.

(** writes of one entry *)
Definition restore_writes (s : Z) (e : rentry) (a : raction) : list write :=
  match a with
  | RDeleteStale => [WDel s (re_app e)]
  | RDropped true => [WDel s (re_app e); WFinished (re_app e); WUnsched (re_app e)]
  | RDropped false => [WDel s (re_app e)]
  | _ => []
  end.

(** restore_placement of one server: the restored names (second component of the Python return value) and writes *)
Definition restore_server (s : Z) (presence : option Z) (restore_identity : bool) (entries : list rentry)
  : list Z * list write :=
  (flat_map (fun e => if restored (restore_action presence restore_identity e) then [re_app e] else []) entries,
   flat_map (fun e => restore_writes s e (restore_action presence restore_identity e)) entries).

(** "healthy" of C11: the instance is still scheduled, its node is there, the server has a presence node that is
    not younger than the placement node, and the server still offers what the instance needs *)
Definition healthy (presence : option Z) (e : rentry) : bool :=
  re_known e && re_node e && verbatim presence e && re_fits e.

(** * Flattening for the correspondence check *)
Definition flat_action (a : raction) : list Z :=
  match a with
  | RDeleteStale => [1]
  | RSkip => [2]
  | RRestore x id => [3; x] ++ zopt id
  | RPutFresh id => [4] ++ zopt id
  | RDropped once => [5; if once then 1 else 0]
  end.
(** one observed restore_placement call: server, ctime of its presence node, restore_identity, its nodes *)
Definition robs := (Z * option Z * bool * list rentry)%type.
Definition run_robs (r : robs) : list Z :=
  let '(s, p, ri, es) := r in
  let '(names, ws) := restore_server s p ri es in
  (Z.of_nat (length names) :: names) ++ flat_writes ws ++ flat_map (fun e => flat_action (restore_action p ri e)) es.
Definition run_case11 (c : cfg) (x : list obs * list robs) : list Z :=
  run_case c (fst x) ++ flat_map run_robs (snd x).
