(** Proofs about Master/RestoreSched.v: frame of the Sched primitives (what Server.restore / Server.put / remove_app
    leave alone) and the per-server reload theorem. *)
From Coq Require Import ZArith QArith List Bool Lia.
From RecordUpdate Require Import RecordSet.
From TM Require Import Sched.Vec Sched.Types Sched.Queue Sched.Tree Sched.Cycle Sched.Events.
From TM Require Import Master.Publish Master.Restore Master.RestoreSched.
Import ListNotations.
Open Scope Z_scope.

(** * Frame lemmas: what the Sched primitives leave alone *)
Lemma get_upd_same n f l a : get_app n l = Some a -> get_app n (upd_app n f l) = Some (f a) \/ a_name (f a) <> n.
Proof.
  induction l as [|x l IH]; cbn; [discriminate|]. destruct (Z.eqb (a_name x) n) eqn:E.
  - intros H. inversion H; subst. cbn. destruct (Z.eqb (a_name (f a)) n) eqn:E'; [left; reflexivity|].
    right. apply Z.eqb_neq. exact E'.
  - intros H. cbn. rewrite E. apply IH. exact H.
Qed.

Lemma get_upd_other n m f l : (forall a, a_name (f a) = a_name a) -> n <> m -> get_app m (upd_app n f l) = get_app m l.
Proof.
  intros Hf NE. induction l as [|x l IH]; cbn; [reflexivity|]. destruct (Z.eqb (a_name x) n) eqn:E.
  - cbn. rewrite Hf. apply Z.eqb_eq in E. rewrite E. destruct (Z.eqb n m) eqn:E'; [|reflexivity].
    apply Z.eqb_eq in E'. contradiction.
  - cbn. destruct (Z.eqb (a_name x) m); [reflexivity|exact IH].
Qed.

Lemma apps_adjust_down fuel : forall c b prev, c_apps (adjust_down fuel c b prev) = c_apps c.
Proof.
  induction fuel as [|f IH]; intros c b prev; cbn; [reflexivity|].
  destruct (get_bkt b (c_buckets c)) as [bk|]; [|reflexivity].
  destruct (live_children (b_children bk)).
  - destruct (b_parent bk); [rewrite IH|]; reflexivity.
  - destruct (match prev with Some pv => all_lt pv (b_free bk) | None => false end); [reflexivity|].
    destruct (any_lt _ _); [|reflexivity]. destruct (b_parent bk); [rewrite IH|]; reflexivity.
Qed.

Lemma apps_bump fuel : forall c b ds sign, c_apps (bump_affinity fuel c b ds sign) = c_apps c.
Proof.
  induction fuel as [|f IH]; intros c b ds sign; cbn; [reflexivity|].
  destruct (get_bkt b (c_buckets c)) as [bk|]; [|reflexivity].
  destruct (b_parent bk); [rewrite IH|]; reflexivity.
Qed.

Lemma apps_put_tail c p ds prev : c_apps (adjust_down_from (bump_from c p ds 1) p prev) = c_apps c.
Proof.
  unfold adjust_down_from, bump_from. destruct p; [|reflexivity]. rewrite apps_adjust_down, apps_bump. reflexivity.
Qed.

(** Server.restore that succeeds: the instance is on that server with the given expiry, its identity is what it
    was, and no other instance is touched *)
Lemma srv_restore_ok c s a e c' :
  srv_restore c s a (Some e) = (c', true) ->
  exists x0 x, get_app a (c_apps c) = Some x0 /\ get_app a (c_apps c') = Some x /\
               a_server x = Some s /\ a_expiry x = Some e /\ a_identity x = a_identity x0 /\
  forall b, b <> a -> get_app b (c_apps c') = get_app b (c_apps c).
Proof.
  unfold srv_restore. destruct (get_app a (c_apps c)) as [x0|] eqn:G; [|discriminate].
  unfold srv_put_lease. rewrite G. destruct (get_srv s (c_servers c)) as [sv|] eqn:GS; [|intros H; inversion H].
  destruct (put_guard c sv x0 0) eqn:PG; [|intros H; inversion H].
  intros H. inversion H; subst c'. clear H.
  set (f1 := fun x : app => (match a_expiry x with None => x <| a_expiry := Some (c_now c + 0) |> | Some _ => x end)
                             <| a_server := Some s |>).
  set (f2 := fun x : app => x <| a_expiry := Some e |>).
  assert (N1 : forall y, a_name (f1 y) = a_name y) by (intros y; unfold f1; destruct (a_expiry y); reflexivity).
  assert (N2 : forall y, a_name (f2 y) = a_name y) by reflexivity.
  assert (NA : a_name x0 = a).
  { clear - G. induction (c_apps c) as [|y l IH]; cbn in G; [discriminate|].
    destruct (Z.eqb (a_name y) a) eqn:E; [inversion G; subst; apply Z.eqb_eq; exact E|apply IH; exact G]. }
  exists x0, (f2 (f1 x0)). split; [reflexivity|].
  assert (APPS : c_apps (c_upd_app a f2 (adjust_down_from (bump_from (prim_put c s a x0 0) (s_parent sv) [(a_aff x0, 1)] 1)
                                          (s_parent sv) (Some (s_free sv)))) =
                 upd_app a f2 (upd_app a f1 (c_apps c))).
  { unfold c_upd_app at 1. cbn [c_apps set]. unfold c_upd_app. cbn. rewrite apps_put_tail. unfold prim_put.
    unfold c_upd_app, c_upd_srv. cbn. reflexivity. }
  rewrite APPS. split.
  - destruct (get_upd_same a f1 (c_apps c) x0 G) as [H1|H1]; [|rewrite N1 in H1; contradiction].
    destruct (get_upd_same a f2 _ _ H1) as [H2|H2]; [exact H2|rewrite N2, N1 in H2; contradiction].
  - split; [unfold f2, f1; destruct (a_expiry x0); reflexivity|].
    split; [reflexivity|]. split; [unfold f2, f1; destruct (a_expiry x0); reflexivity|].
    intros b NE. rewrite (get_upd_other a b f2 _ N2) by congruence. apply (get_upd_other a b f1 _ N1). congruence.
Qed.

Lemma force_identity_spec c a i x :
  get_app a (c_apps c) = Some x ->
  (exists y, get_app a (c_apps (force_identity c a i)) = Some y /\ a_identity y = Some i /\
             a_server y = a_server x /\ a_expiry y = a_expiry x) /\
  forall b, b <> a -> get_app b (c_apps (force_identity c a i)) = get_app b (c_apps c).
Proof.
  intros G. unfold force_identity. rewrite G.
  set (f := fun y : app => y <| a_identity := Some i |>).
  assert (N : forall y, a_name (f y) = a_name y) by reflexivity.
  assert (APPS : forall c1, c_apps c1 = c_apps c -> c_apps (c_upd_app a f c1) = upd_app a f (c_apps c)).
  { intros c1 E. unfold c_upd_app. cbn. rewrite E. reflexivity. }
  assert (E1 : c_apps (match group_of c x with
                       | Some (g, grp) => c <| c_groups ::= aset g (mkGroup (g_count grp)
                                                                   (filter (fun z => negb (Z.eqb z i)) (g_avail grp))) |>
                       | None => c end) = c_apps c).
  { destruct (group_of c x) as [[g grp]|]; reflexivity. }
  rewrite (APPS _ E1). split.
  - exists (f x). split; [|repeat split].
    destruct (get_upd_same a f (c_apps c) x G) as [H|H]; [exact H|].
    exfalso. rewrite N in H. apply H.
    clear - G. induction (c_apps c) as [|y l IH]; cbn in G; [discriminate|].
    destruct (Z.eqb (a_name y) a) eqn:E; [inversion G; subst; apply Z.eqb_eq; exact E|apply IH; exact G].
  - intros b NE. apply (get_upd_other a b f _ N). congruence.
Qed.

(** [clear_server]: only the server field of that one instance; nothing when the instance names no server *)
Lemma clear_server_unplaced c a x : get_app a (c_apps c) = Some x -> a_server x = None -> clear_server c a = c.
Proof. intros G H. unfold clear_server. rewrite G, H. reflexivity. Qed.

Lemma clear_server_absent c a : get_app a (c_apps c) = None -> clear_server c a = c.
Proof. intros G. unfold clear_server. rewrite G. reflexivity. Qed.

Lemma clear_server_servers c a : c_servers (clear_server c a) = c_servers c.
Proof. unfold clear_server. destruct (get_app a (c_apps c)) as [x|]; [|reflexivity]. destruct (a_server x); reflexivity. Qed.

Lemma frame_clear_server c a b : b <> a -> get_app b (c_apps (clear_server c a)) = get_app b (c_apps c).
Proof.
  intros NE. unfold clear_server. destruct (get_app a (c_apps c)) as [x|]; [|reflexivity].
  destruct (a_server x); [|reflexivity]. unfold c_upd_app. cbn. apply get_upd_other; [reflexivity|congruence].
Qed.

Lemma get_app_name_eq n l a : get_app n l = Some a -> a_name a = n.
Proof.
  induction l as [|y l IH]; cbn; [discriminate|]. destruct (Z.eqb (a_name y) n) eqn:E; [|exact IH].
  intros H. inversion H; subst. apply Z.eqb_eq. exact E.
Qed.

(** the instance itself after [clear_server]: the same record with the server field cleared *)
Lemma clear_server_get c a x :
  get_app a (c_apps c) = Some x -> get_app a (c_apps (clear_server c a)) = Some (x <| a_server := None |>).
Proof.
  intros G. unfold clear_server. rewrite G. destruct (a_server x) eqn:S.
  - unfold c_upd_app. cbn. destruct (get_upd_same a (fun y : app => y <| a_server := None |>) (c_apps c) x G) as [H|H]; [exact H|].
    exfalso. apply H. cbn. eapply get_app_name_eq. exact G.
  - rewrite G. f_equal. destruct x. cbn in S. subst. reflexivity.
Qed.

(** Server.restore only accepts an instance that names no server (put_guard) *)
Lemma srv_restore_ok_unplaced c s a e c' x :
  srv_restore c s a e = (c', true) -> get_app a (c_apps c) = Some x -> a_server x = None.
Proof.
  unfold srv_restore. intros H G. rewrite G in H. unfold srv_put_lease in H. rewrite G in H.
  destruct (get_srv s (c_servers c)) as [sv|]; [|inversion H].
  destruct (put_guard c sv x 0) eqn:PG; [|inversion H].
  unfold put_guard in PG. destruct (a_server x); [|reflexivity].
  rewrite andb_false_r in PG. discriminate.
Qed.

(** C11 on the scheduler model, one node: known instance, presence not younger than the node, Server.restore
    accepts it on the cell as it is -> placed on that server with the recorded expiry and (when recorded and
    restore_identity) the recorded identity; every other instance is as before *)
(** general form: the put is attempted on the record with the server field cleared, so an instance already restored
    under an earlier server is restored here as well (its identity and everything else are what they were) *)
Theorem restore_node_restore s presence c n x0 c1 :
  get_app (sn_app n) (c_apps c) = Some x0 ->
  sched_verbatim presence n = true ->
  srv_restore (clear_server c (sn_app n)) s (sn_app n) (Some (sn_expires n)) = (c1, true) ->
  let '(c', act) := restore_node s presence true c n in
  act = RRestore (sn_expires n) (sn_identity n) /\
  (exists x, get_app (sn_app n) (c_apps c') = Some x /\ a_server x = Some s /\ a_expiry x = Some (sn_expires n) /\
             a_identity x = match sn_identity n with Some i => Some i | None => a_identity x0 end) /\
  forall b, b <> sn_app n -> get_app b (c_apps c') = get_app b (c_apps c).
Proof.
  intros G V R. unfold restore_node. rewrite G, V, R.
  destruct (srv_restore_ok _ s (sn_app n) (sn_expires n) c1 R) as [y0 [y [G0 [G1 [S1 [E1 [I1 F1]]]]]]].
  rewrite (clear_server_get c (sn_app n) x0 G) in G0. inversion G0; subst y0. cbn in I1.
  assert (FC : forall b, b <> sn_app n -> get_app b (c_apps c1) = get_app b (c_apps c)).
  { intros b NE. rewrite (F1 b NE). apply frame_clear_server. exact NE. }
  destruct (sn_identity n) as [i|] eqn:ID.
  - destruct (force_identity_spec c1 (sn_app n) i y G1) as [[z [Gz [Iz [Sz Ez]]]] Fz].
    split; [reflexivity|]. split.
    + exists z. repeat split; congruence.
    + intros b NE. rewrite (Fz b NE). apply FC. exact NE.
  - split; [reflexivity|]. split.
    + exists y. repeat split; congruence.
    + exact FC.
Qed.

Theorem restore_node_healthy s presence c n x0 c1 :
  get_app (sn_app n) (c_apps c) = Some x0 ->
  sched_verbatim presence n = true ->
  srv_restore c s (sn_app n) (Some (sn_expires n)) = (c1, true) ->
  let '(c', act) := restore_node s presence true c n in
  act = RRestore (sn_expires n) (sn_identity n) /\
  (exists x, get_app (sn_app n) (c_apps c') = Some x /\ a_server x = Some s /\ a_expiry x = Some (sn_expires n) /\
             a_identity x = match sn_identity n with Some i => Some i | None => a_identity x0 end) /\
  forall b, b <> sn_app n -> get_app b (c_apps c') = get_app b (c_apps c).
Proof.
  intros G V R. apply (restore_node_restore s presence c n x0 c1 G V).
  rewrite (clear_server_unplaced c (sn_app n) x0 G (srv_restore_ok_unplaced _ _ _ _ _ _ R G)). exact R.
Qed.

(** * Frame of one node's processing: no other instance is touched *)
Lemma apps_adjust_up fuel : forall c b v, c_apps (adjust_up fuel c b v) = c_apps c.
Proof.
  induction fuel as [|f IH]; intros c b v; cbn; [reflexivity|].
  destruct (get_bkt b (c_buckets c)) as [bk|]; [|reflexivity].
  destruct (b_parent bk); [rewrite IH|]; reflexivity.
Qed.

Lemma get_del_other n m l : n <> m -> get_app m (del_app n l) = get_app m l.
Proof.
  intros NE. induction l as [|x l IH]; cbn; [reflexivity|]. destruct (Z.eqb (a_name x) n) eqn:E.
  - apply Z.eqb_eq in E. destruct (Z.eqb (a_name x) m) eqn:E'; [|reflexivity].
    apply Z.eqb_eq in E'. congruence.
  - cbn. destruct (Z.eqb (a_name x) m); [reflexivity|exact IH].
Qed.

Lemma frame_srv_remove c s n b : b <> n -> get_app b (c_apps (srv_remove c s n)) = get_app b (c_apps c).
Proof.
  intros NE. unfold srv_remove. destruct (get_srv s (c_servers c)) as [sv|]; [|reflexivity].
  destruct (get_app n (c_apps c)) as [a|]; [|reflexivity].
  destruct (negb (Vec.zmem n (s_apps sv))); [reflexivity|].
  unfold adjust_up_from, bump_from. 
  assert (P : get_app b (c_apps (prim_remove c s n a)) = get_app b (c_apps c)).
  { unfold prim_remove, c_upd_app, c_upd_srv. cbn. apply get_upd_other; [reflexivity|congruence]. }
  destruct (s_parent sv); [rewrite apps_adjust_up, apps_bump|]; exact P.
Qed.

Lemma apps_upd_alloc c l p f : c_apps (upd_alloc c l p f) = c_apps c.
Proof.
  unfold upd_alloc, ensure_part. destruct (aget l (c_parts c)); reflexivity.
Qed.

Lemma frame_release c n b : b <> n -> get_app b (c_apps (release_identity c n)) = get_app b (c_apps c).
Proof.
  intros NE. unfold release_identity. destruct (get_app n (c_apps c)) as [a|]; [|reflexivity].
  destruct (group_of c a) as [[g grp]|]; [|reflexivity]. destruct (a_identity a); [|reflexivity].
  unfold c_upd_app. cbn. apply get_upd_other; [reflexivity|congruence].
Qed.

Lemma frame_remove_app c n b : b <> n -> get_app b (c_apps (remove_app c n)) = get_app b (c_apps c).
Proof.
  intros NE. unfold remove_app. destruct (get_app n (c_apps c)) as [a|]; [|reflexivity].
  cbn. rewrite get_del_other by congruence. rewrite frame_release by exact NE.
  set (c1 := match a_server a with Some sn => if is_member c sn then srv_remove c sn n else c | None => c end).
  assert (E1 : get_app b (c_apps c1) = get_app b (c_apps c)).
  { unfold c1. destruct (a_server a); [|reflexivity]. destruct (is_member c z); [|reflexivity].
    apply frame_srv_remove. exact NE. }
  destruct (a_alloc a) as [[l0 p0]|]; [rewrite apps_upd_alloc|]; exact E1.
Qed.

Lemma frame_srv_put_lease c s a lease c' b :
  srv_put_lease c s a lease = Some c' -> b <> a -> get_app b (c_apps c') = get_app b (c_apps c).
Proof.
  unfold srv_put_lease. destruct (get_srv s (c_servers c)) as [sv|]; [|discriminate].
  destruct (get_app a (c_apps c)) as [x|]; [|discriminate]. destruct (put_guard c sv x lease); [|discriminate].
  intros H NE. inversion H; subst c'. rewrite apps_put_tail. unfold prim_put, c_upd_app, c_upd_srv. cbn.
  apply get_upd_other; [|congruence]. intros y. destruct (a_expiry y); reflexivity.
Qed.

Lemma frame_force c a i b : b <> a -> get_app b (c_apps (force_identity c a i)) = get_app b (c_apps c).
Proof.
  intros NE. unfold force_identity. destruct (get_app a (c_apps c)) as [x|] eqn:G; [|reflexivity].
  destruct (force_identity_spec c a i x G) as [_ F]. unfold force_identity in F. rewrite G in F. apply F. exact NE.
Qed.

Lemma frame_restore_node s presence ri c n b :
  b <> sn_app n -> get_app b (c_apps (fst (restore_node s presence ri c n))) = get_app b (c_apps c).
Proof.
  intros NE. unfold restore_node. destruct (get_app (sn_app n) (c_apps c)) as [a|] eqn:G; [|reflexivity].
  assert (FF : forall c' (o : option Z), get_app b (c_apps (match o with Some i => force_identity c' (sn_app n) i | None => c' end))
                         = get_app b (c_apps c')).
  { intros c' [i|]; [apply frame_force; exact NE|reflexivity]. }
  pose proof (frame_clear_server c (sn_app n) b NE) as FC.
  pose proof (clear_server_get c (sn_app n) a G) as G0. set (c0 := clear_server c (sn_app n)) in *.
  destruct (sched_verbatim presence n).
  - unfold srv_restore. rewrite G0.
    destruct (srv_put_lease c0 s (sn_app n) 0) as [c'|] eqn:P; cbn [fst snd].
    + rewrite FF. unfold c_upd_app. cbn. rewrite get_upd_other; [|reflexivity|congruence].
      rewrite <- FC. eapply frame_srv_put_lease; eassumption.
    + assert (E : get_app b (c_apps (c_upd_app (sn_app n) (fun x => x <| a_expiry := Some (sn_expires n) |>) c))
                  = get_app b (c_apps c)).
      { unfold c_upd_app. cbn. apply get_upd_other; [reflexivity|congruence]. }
      destruct (a_once a); cbn [fst]; [rewrite frame_remove_app by exact NE|]; exact E.
  - destruct (a_once a); cbn [fst]; [apply frame_remove_app; exact NE|].
    unfold srv_put. rewrite G0. destruct (srv_put_lease c0 s (sn_app n) _) as [c'|] eqn:P; cbn [fst].
    + rewrite FF. rewrite <- FC. eapply frame_srv_put_lease; eassumption.
    + reflexivity.
Qed.

Lemma frame_restore_nodes s presence ri ns : forall c b,
  ~ In b (map sn_app ns) -> get_app b (c_apps (restore_nodes s presence ri c ns)) = get_app b (c_apps c).
Proof.
  induction ns as [|n ns IH]; intros c b H; [reflexivity|].
  cbn. unfold restore_nodes in IH. rewrite IH by (intros C; apply H; right; exact C).
  apply frame_restore_node. intros E. apply H. left. congruence.
Qed.

(** C11 on the scheduler model, one server: every node that is healthy when its turn comes (instance known,
    presence not younger than the node, Server.restore accepts it on the cell as it then is) ends up, after ALL
    nodes of the server have been processed, on that server with the recorded expiry and identity *)
Theorem restore_nodes_healthy s presence pre n post c x0 c1 :
  NoDup (map sn_app (pre ++ n :: post)) ->
  let cpre := restore_nodes s presence true c pre in
  get_app (sn_app n) (c_apps cpre) = Some x0 ->
  sched_verbatim presence n = true ->
  srv_restore cpre s (sn_app n) (Some (sn_expires n)) = (c1, true) ->
  exists x, get_app (sn_app n) (c_apps (restore_nodes s presence true c (pre ++ n :: post))) = Some x /\
            a_server x = Some s /\ a_expiry x = Some (sn_expires n) /\
            a_identity x = match sn_identity n with Some i => Some i | None => a_identity x0 end.
Proof.
  intros ND cpre G V R.
  unfold restore_nodes. rewrite fold_left_app. cbn [fold_left]. fold (restore_nodes s presence true c pre). fold cpre.
  pose proof (restore_node_healthy s presence cpre n x0 c1 G V R) as H.
  destruct (restore_node s presence true cpre n) as [c' act] eqn:RN. destruct H as [_ [[x [Gx [Sx [Ex Ix]]]] _]].
  exists x. split; [|auto]. cbn [fst].
  fold (restore_nodes s presence true c' post). rewrite frame_restore_nodes; [exact Gx|].
  rewrite map_app in ND. cbn in ND. apply NoDup_remove_2 in ND. intros C. apply ND. apply in_or_app. right. exact C.
Qed.

(** the same for an instance that may already name a server (restored under an earlier server of the same load):
    Server.restore is evaluated on the record with the server field cleared *)
Theorem restore_nodes_restore s presence pre n post c x0 c1 :
  NoDup (map sn_app (pre ++ n :: post)) ->
  let cpre := restore_nodes s presence true c pre in
  get_app (sn_app n) (c_apps cpre) = Some x0 ->
  sched_verbatim presence n = true ->
  srv_restore (clear_server cpre (sn_app n)) s (sn_app n) (Some (sn_expires n)) = (c1, true) ->
  exists x, get_app (sn_app n) (c_apps (restore_nodes s presence true c (pre ++ n :: post))) = Some x /\
            a_server x = Some s /\ a_expiry x = Some (sn_expires n) /\
            a_identity x = match sn_identity n with Some i => Some i | None => a_identity x0 end.
Proof.
  intros ND cpre G V R.
  unfold restore_nodes. rewrite fold_left_app. cbn [fold_left]. fold (restore_nodes s presence true c pre). fold cpre.
  pose proof (restore_node_restore s presence cpre n x0 c1 G V R) as H.
  destruct (restore_node s presence true cpre n) as [c' act] eqn:RN. destruct H as [_ [[x [Gx [Sx [Ex Ix]]]] _]].
  exists x. split; [|auto]. cbn [fst].
  fold (restore_nodes s presence true c' post). rewrite frame_restore_nodes; [exact Gx|].
  rewrite map_app in ND. cbn in ND. apply NoDup_remove_2 in ND. intros C. apply ND. apply in_or_app. right. exact C.
Qed.
