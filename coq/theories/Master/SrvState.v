(** Loader.adjust_server_state / adjust_presence / load_server / reload_server / Master._handle_server_state_event /
    Master._record_server_state for ONE server: the in-memory (state, since) of the Server object, the record kept in
    the store at /placement/<server>, and the presence node. Model file: no proofs. *)
From Coq Require Import ZArith List Bool.
From TM Require Import Sched.Types.
Import ListNotations.
Open Scope Z_scope.

Record srv := mkSrv {
  sv_mem : option (sstate * Z);      (* Server object of the running master: (state, since); None = not loaded *)
  sv_rec : option (sstate * Z);      (* data of /placement/<server>; None = node absent or empty *)
  sv_pres : bool                     (* /server.presence/<server> exists *)
}.

(** what a server declares in /servers/<server> and what Server.is_same + the parent test of reload_server compare *)
Record sdecl := mkDecl { d_cap : list Z; d_label : Z; d_traits : Z; d_parent : Z }.
Fixpoint zlist_same (a b : list Z) : bool :=
  match a, b with
  | [], [] => true
  | x :: a', y :: b' => Z.eqb x y && zlist_same a' b'
  | _, _ => false
  end.
(* Server.is_same (labels, exact capacity, own traits) and `current_server.parent == parent` *)
Definition same_decl (a b : sdecl) : bool :=
  Z.eqb (d_label a) (d_label b) && zlist_same (d_cap a) (d_cap b) && Z.eqb (d_traits a) (d_traits b) &&
  Z.eqb (d_parent a) (d_parent b).

(** Node.set_state *)
Definition set_state (m : sstate * Z) (st : sstate) (since : Z) : sstate * Z :=
  if sstate_eqb (fst m) st then (st, snd m) else (st, since).

(** Loader.adjust_server_state at time [now] *)
Definition adjust_server_state (now : Z) (s : srv) : srv :=
  match sv_mem s with
  | None => s
  | Some m =>
      let '(st, since) := match sv_rec s with Some r => r | None => (Down, now) end in
      let m1 := set_state m st since in
      let m2 := if sv_pres s
                then (if sstate_eqb (fst m1) Frozen then m1 else set_state m1 Up now)
                else set_state m1 Down now in
      mkSrv (Some m2) (if sstate_eqb (fst m2) st then sv_rec s else Some m2) (sv_pres s)
  end.

(** Loader.load_server with a fresh Server object (state up since now) *)
Definition load_server (now : Z) (s : srv) : srv :=
  adjust_server_state now (mkSrv (Some (Up, now)) (sv_rec s) (sv_pres s)).

(** Loader.adjust_presence as far as this server is concerned; [fresh]: reload_server found the record changed and
    replaced the object *)
Definition adjust_presence (fresh : bool) (now : Z) (s : srv) : srv :=
  match sv_mem s with
  | None => s
  | Some m =>
      if sstate_eqb (fst m) Down
      then (if sv_pres s
            then adjust_server_state now (if fresh then load_server now s else s)
            else s)
      else (if sv_pres s then s else adjust_server_state now s)
  end.

Inductive sop :=
| SLoad (now : Z)                          (* master (re)start, or a new server record *)
| SPresence (p fresh : bool) (now : Z)     (* the presence node is created / deleted and the master processes the set *)
| SPresRaw (p : bool)                      (* the presence node changes while no master is looking *)
| SReload (changed : bool) (now : Z)       (* servers event for a loaded server *)
| SReloadDecl (old new : sdecl) (now : Z)  (* the same, the decision taken by the model: replaced unless is_same *)
| SEvent (st : sstate) (now : Z).          (* server_state event *)

Definition sstep (s : srv) (o : sop) : srv :=
  match o with
  | SLoad now => load_server now s
  | SPresence p fresh now => adjust_presence fresh now (mkSrv (sv_mem s) (sv_rec s) p)
  | SPresRaw p => mkSrv (sv_mem s) (sv_rec s) p
  | SReload changed now => if changed then load_server now s else s
  | SReloadDecl old new now => if same_decl old new then s else load_server now s
  | SEvent st now =>
      match sv_mem s with
      | None => s
      | Some m => let m' := set_state m st now in mkSrv (Some m') (Some m') (sv_pres s)
      end
  end.
Definition srun (s : srv) (ops : list sop) : srv := fold_left sstep ops s.

Definition init_srv (pres : bool) : srv := mkSrv None None pres.

(** flattening for the correspondence: [loaded; state; since; has record; rec state; rec since; present] *)
Definition st_code (st : sstate) : Z := match st with Up => 0 | Down => 1 | Frozen => 2 end.
Definition srv_obs (s : srv) : list Z :=
  (match sv_mem s with Some (st, t) => [1; st_code st; t] | None => [0; 0; 0] end) ++
  (match sv_rec s with Some (st, t) => [1; st_code st; t] | None => [0; 0; 0] end) ++
  [if sv_pres s then 1 else 0].
Fixpoint srun_obs (s : srv) (ops : list sop) : list Z :=
  match ops with [] => [] | o :: r => let s' := sstep s o in srv_obs s' ++ srun_obs s' r end.
Definition srv_case (x : srv * list sop) : list Z := srun_obs (fst x) (snd x).
