(** Loader.restore_placements on top of the scheduler model: the loop over Loader.servers
    (loader.py:511-514: [for servername in self.servers: _placed, restored = self.restore_placement(servername);
    for appname in restored: integrity[appname].append(servername)]) as the fold of Master/RestoreSched.v
    [restore_nodes] over the servers, together with what [integrity] collects, in the format that the duplicate pass
    Master/Publish.v [dedup_writes] consumes (one entry per server: the server and the names restored under it), and
    the in-memory part of the duplicate pass (loader.py:516-524: [self.servers[servername].remove(appname)]).
    Model file: no proofs (they are in RestoreAllP.v); nothing in Sched/ or in the other Master/ files is changed. *)
From Coq Require Import ZArith QArith List Bool Lia.
From RecordUpdate Require Import RecordSet.
From TM Require Import Sched.Vec Sched.Types Sched.Queue Sched.Tree Sched.Cycle Sched.Events.
From TM Require Import Master.Publish Master.Restore Master.RestoreSched.
Import ListNotations.
Open Scope Z_scope.

(** one server of Loader.servers as restore_placement sees it: its name, the ctime of /server.presence/<name>
    (None = no presence node) and the children of /placement/<name> with their data, in listing order *)
Record srec := mkSR { sr_name : Z; sr_presence : option Z; sr_nodes : list snode }.

(** restore_placement of one server with its second return value [restored_apps]: the companion of
    [restore_nodes] that also collects the names whose action was a restoring one (RRestore / RPutFresh) *)
Definition restore_node_step (s : Z) (presence : option Z) (ri : bool) (acc : cell * list Z) (n : snode)
  : cell * list Z :=
  let '(c', act) := restore_node s presence ri (fst acc) n in
  (c', snd acc ++ (if restored act then [sn_app n] else [])).

Definition restore_nodes_names (s : Z) (presence : option Z) (ri : bool) (c : cell) (ns : list snode)
  : cell * list Z :=
  fold_left (restore_node_step s presence ri) ns (c, []).

(** the first loop of restore_placements *)
Definition restore_server_step (ri : bool) (acc : cell * list (Z * list Z)) (sr : srec) : cell * list (Z * list Z) :=
  let '(c', names) := restore_nodes_names (sr_name sr) (sr_presence sr) ri (fst acc) (sr_nodes sr) in
  (c', snd acc ++ [(sr_name sr, names)]).

Definition restore_all (ri : bool) (c : cell) (servers : list srec) : cell * list (Z * list Z) :=
  fold_left (restore_server_step ri) servers (c, []).

(** the same loop with the [server.remove_all()] that opens restore_placement (loader.py:542) *)
Definition restore_server_step_ra (ri : bool) (acc : cell * list (Z * list Z)) (sr : srec)
  : cell * list (Z * list Z) :=
  let '(c', names) := restore_nodes_names (sr_name sr) (sr_presence sr) ri
                                          (srv_remove_all (fst acc) (sr_name sr)) (sr_nodes sr) in
  (c', snd acc ++ [(sr_name sr, names)]).

Definition restore_all_ra (ri : bool) (c : cell) (servers : list srec) : cell * list (Z * list Z) :=
  fold_left (restore_server_step_ra ri) servers (c, []).

(** in-memory part of the duplicate pass: for every instance that [integrity] lists under more than one server
    (dict order = order of first insertion = [nodup_z (flat_map snd restored)], as in [dedup_writes]),
    Server.remove on each of them *)
Definition dedup_cell (c : cell) (restored : list (Z * list Z)) : cell :=
  fold_left (fun acc a => match restored_on restored a with
                          | s1 :: s2 :: r => fold_left (fun acc' s => srv_remove acc' s a) (s1 :: s2 :: r) acc
                          | _ => acc
                          end)
            (nodup_z (flat_map snd restored)) c.

(** restore_placements: the cell afterwards, what integrity collected, the deletions of the duplicate pass *)
Definition restore_placements (ri : bool) (c : cell) (servers : list srec) : cell * list (Z * list Z) * list write :=
  let '(c', restored) := restore_all ri c servers in
  (dedup_cell c' restored, restored, dedup_writes restored).

(** every listed server that is attached to the cell holds no instance (what load_servers leaves: Server objects
    are created afresh) *)
Definition srv_empty (c : cell) (s : Z) : Prop :=
  forall sv, get_srv s (c_servers c) = Some sv -> s_apps sv = [].
