(** Loader.load_model as a run of the scheduler model from the EMPTY cell: proofs for Master/LoadModel.v.

    1. [store_okb]: the decidable side condition (no record makes load_model raise, bucket records have the shape
       the model covers, no instance is recorded under two servers, the operations satisfy the side conditions of
       [Sched/Reach.v reachable]).  Under it the master-level composition (LoadApp per record + RestoreAll, with and
       without the duplicate pass) IS [run (init_cell ..) (load_model_ops ..)], hence reachable and Good, and the
       end-of-cycle theorems apply to the first cycle of a freshly started master.
    2. [store_wfb]: conditions on the snapshot a reader can check (distinct identifiers, vectors of the cell's
       dimension, counts >= 0, every recorded instance recorded once, a recorded identity exactly for group members,
       recorded identities distinct within a group) and [store_wfb_ok : store_wfb = true -> store_okb = true], by
       an abstract interpretation of the loader's operations ([astep]) and an induction over the placement nodes. *)
From Coq Require Import ZArith QArith List Bool Lia.
From RecordUpdate Require Import RecordSet.
From TM Require Import Codec.BaseN Codec.Dec Codec.Units.
From TM Require Import Sched.Vec Sched.Types Sched.Queue Sched.Tree Sched.Cycle Sched.Events Sched.Steps Sched.MapsP
                       Sched.InvAcct Sched.InvIdent Sched.TurnP Sched.KeepP Sched.Reach.
From TM Require Import Master.LoadApp Master.Publish Master.PublishP Master.Restore Master.RestoreSched Master.RestoreSchedP
                       Master.RestoreAll Master.RestoreAllP Master.RestoreBridge Master.LoadModel.
Import ListNotations.
Open Scope Z_scope.

(** * Distinctness checkers *)
Fixpoint z_distinct (l : list Z) : bool :=
  match l with [] => true | x :: r => negb (Vec.zmem x r) && z_distinct r end.
Lemma z_distinct_NoDup l : z_distinct l = true -> NoDup l.
Proof.
  induction l as [|x r IH]; cbn; intros H; [constructor|]. apply andb_true_iff in H as [H1 H2].
  constructor; [|apply IH; exact H2]. apply negb_true_iff in H1. apply MapsP.zmem_false. exact H1.
Qed.

Lemma NoDup_app_r {A} (l1 l2 : list A) : NoDup (l1 ++ l2) -> NoDup l2.
Proof. induction l1 as [|x l1 IH]; cbn; intros H; [exact H|]. inversion H; subst. apply IH. assumption. Qed.
Lemma NoDup_app_l {A} (l1 l2 : list A) : NoDup (l1 ++ l2) -> NoDup l1.
Proof.
  induction l1 as [|x l1 IH]; cbn; intros H; [constructor|]. inversion H as [|? ? Hn Hd]; subst.
  constructor; [|apply IH; exact Hd]. intros C. apply Hn. apply in_or_app. left. exact C.
Qed.
Lemma NoDup_app_disj {A} (l1 l2 : list A) x : NoDup (l1 ++ l2) -> In x l1 -> In x l2 -> False.
Proof.
  induction l1 as [|y l1 IH]; cbn; intros H H1 H2; [destruct H1|]. inversion H as [|? ? Hn Hd]; subst.
  destruct H1 as [->|H1]; [apply Hn; apply in_or_app; right; exact H2|exact (IH Hd H1 H2)].
Qed.

Definition all_node_apps (srecs : list srec) : list Z := flat_map (fun sr => map sn_app (sr_nodes sr)) srecs.

(** * 1. The decidable side condition and the main theorems *)
Section Main.
  Variable T : ltables.
  Variable U : utables.
  Variable id : str -> Z.
  Variable none_aff : Z.

  Notation load_pre := (load_pre T U id none_aff).
  Notation pre_ops := (pre_ops T U id none_aff).
  Notation store_srecs := (store_srecs T U id none_aff).
  Notation load_model_ops := (load_model_ops T U id none_aff).
  Notation loaded_cell := (loaded_cell T U id none_aff).
  Notation load_model_cell := (load_model_cell T U id none_aff).
  Notation load_model_full := (load_model_full T U id none_aff).
  Notation init_of := (init_of id).

  Definition store_okb (st : store) : bool :=
    ld_ok (load_pre st) && store_shape_ok id st && z_distinct (all_node_apps (store_srecs st))
    && wf_ops_allb (init_of st) (load_model_ops st).

  (** the side condition as a proposition: the snapshot is one a master can start on (no record raises, the bucket
      records have the shape the model covers), no instance is recorded under two servers, and the operations
      satisfy the side conditions of [reachable] *)
  Definition store_ok (st : store) : Prop :=
    ld_ok (load_pre st) = true /\ store_shape_ok id st = true /\ NoDup (all_node_apps (store_srecs st)) /\
    wf_ops_all (init_of st) (load_model_ops st).

  Lemma store_okb_ok st : store_okb st = true -> store_ok st.
  Proof.
    unfold store_okb. intros H. apply andb_true_iff in H as [H H4]. apply andb_true_iff in H as [H H3].
    apply andb_true_iff in H as [H1 H2]. split; [exact H1|]. split; [exact H2|].
    split; [apply z_distinct_NoDup; exact H3|apply wf_ops_allb_sound; exact H4].
  Qed.

  Lemma restore_ops_eq servers : restore_ops servers = ops_of_store true servers.
  Proof. reflexivity. Qed.

  Lemma store_ok_wf st : store_ok st ->
    wf_ops_all (init_of st) (pre_ops st) /\ wf_ops_all (loaded_cell st) (restore_ops (store_srecs st)).
  Proof.
    intros (_ & _ & _ & H). unfold load_model_ops in H. apply wf_ops_all_app in H. exact H.
  Qed.

  Lemma loaded_cell_pre_Good st : store_ok st -> Good (loaded_cell st).
  Proof. intros H. apply Good_run; [exact (proj1 (store_ok_wf st H))|apply Good_init]. Qed.

  (** (a) the composition of the per-record models with the master-level restore is a run of the alphabet *)
  Theorem load_model_is_a_run st : store_ok st ->
    load_model_cell st = run (init_of st) (load_model_ops st).
  Proof.
    intros H. destruct (store_ok_wf st H) as [W1 W2]. unfold load_model_cell, load_model_ops.
    rewrite run_app. fold (loaded_cell st). rewrite restore_ops_eq in *.
    apply restore_all_is_run; [apply loaded_cell_pre_Good; exact H|exact W2].
  Qed.

  (** the two hypotheses of Props/C11.v C11_rebuilt_cell_reachable / C11_first_cycle_after_failover - the cell before
      restore_placements is reachable, the restore operations satisfy the side conditions - hold of what load_model
      has built *)
  Theorem before_restore_reachable st : store_ok st ->
    reachable (loaded_cell st) /\ wf_ops_all (loaded_cell st) (ops_of_store true (store_srecs st)).
  Proof.
    intros H. destruct (store_ok_wf st H) as [W1 W2]. split; [|rewrite <- restore_ops_eq; exact W2].
    exists DIM, (root_of id st), (id CELL_LEVEL), (pre_ops st). split; [exact W1|reflexivity].
  Qed.

  (** no instance recorded under two servers: [integrity] lists nobody twice, the duplicate pass is idle *)
  Lemma restored_on_le1 ri servers : forall c a,
    NoDup (all_node_apps servers) -> (length (restored_on (snd (restore_all ri c servers)) a) <= 1)%nat.
  Proof.
    induction servers as [|sr l IH]; intros c a ND; [cbn; lia|].
    rewrite ra_cons. cbn zeta. cbn [snd]. unfold all_node_apps in ND. cbn [flat_map] in ND.
    change (?x :: ?y) with ([x] ++ y). rewrite restored_on_app.
    pose proof (NoDup_app_r _ _ ND) as ND2.
    unfold restored_on at 1. cbn [flat_map fst snd]. rewrite app_nil_r.
    destruct (zmem a (snd (restore_nodes_names (sr_name sr) (sr_presence sr) ri c (sr_nodes sr)))) eqn:Z.
    - apply PublishP.zmem_In in Z. apply restored_names_recorded_sched in Z.
      rewrite restored_on_unrecorded; [cbn; lia|].
      intros sr' Hin Ha. apply (NoDup_app_disj _ _ a ND Z). apply in_flat_map. exists sr'. split; assumption.
    - cbn [Datatypes.app]. apply IH. exact ND2.
  Qed.

  Theorem load_model_full_is_a_run st : store_ok st ->
    load_model_full st = run (init_of st) (load_model_ops st).
  Proof.
    intros H. rewrite <- (load_model_is_a_run st H). unfold load_model_full, load_model_cell, restore_placements.
    destruct (restore_all true (loaded_cell st) (store_srecs st)) as [c' rs] eqn:E. cbn [fst].
    destruct H as (_ & _ & Hd & _).
    apply (dedup_nothing rs c'). intros a.
    pose proof (restored_on_le1 true (store_srecs st) (loaded_cell st) a Hd) as L.
    rewrite E in L. exact L.
  Qed.

  (** (b) the cell a starting master builds is reachable from the EMPTY cell, and satisfies every invariant *)
  Theorem loaded_cell_reachable st : store_ok st -> reachable (load_model_full st).
  Proof.
    intros H. rewrite (load_model_full_is_a_run st H).
    exists DIM, (root_of id st), (id CELL_LEVEL), (load_model_ops st). split; [|reflexivity].
    destruct H as (_ & _ & _ & H). exact H.
  Qed.

  Theorem loaded_cell_Good st : store_ok st -> Good (load_model_full st).
  Proof. intros H. apply reachable_Good. apply loaded_cell_reachable. exact H. Qed.

  (** (c) the first cycle of a freshly started master: identities (C05) and new assignments (C03) *)
  Theorem first_cycle_identities st ch : store_ok st ->
    let c1 := load_model_full st in
    forall x a', app_of (step c1 (OSchedule ch)) x = Some a' ->
      (a_server a' = None -> no_id a') /\ (a_server a' <> None -> has_id a') /\
      (forall g i k, holds a' g i -> gcount (step c1 (OSchedule ch)) g = Some k -> 0 <= i < k).
  Proof. intros H c1. apply end_of_cycle_identities. apply loaded_cell_Good. exact H. Qed.

  Theorem first_cycle_new_assignment st ch : store_ok st ->
    let c1 := load_model_full st in
    forall x a a' n, app_of c1 x = Some a -> app_of (step c1 (OSchedule ch)) x = Some a' ->
      a_server a' = Some n -> a_server a <> Some n ->
      exists s, get_srv n (c_servers c1) = Some s /\ s_state s = Up /\ guard_facts c1 s a.
  Proof. intros H c1. apply new_assignment. apply loaded_cell_Good. exact H. Qed.
End Main.

(** * 2. Abstract interpretation of the loader's operations.
    The side conditions of [reachable] read three things of a cell: its dimension, the names of its servers and
    the instance records.  [astep] is what an operation of the loader's repertoire (everything load_model issues
    before restore_placements) does to them, with the side condition decided on the abstraction. *)
Record aview := mkV { v_dim : nat; v_srv : list (Z * list Z); v_apps : list app }.
Definition srv_sig (s : server) : Z * list Z := (s_name s, s_apps s).
Definition view_of (c : cell) : aview := mkV (c_dim c) (map srv_sig (c_servers c)) (c_apps c).

Definition is_none {A} (o : option A) : bool := match o with None => true | Some _ => false end.
Definition new_app_okb (dim : nat) (a : app) : bool :=
  is_none (a_server a) && is_none (a_identity a) && Nat.eqb (length (a_demand a)) dim
  && forallb (Z.leb 0) (a_demand a).
Definition with_alloc (label : Z) (path : list Z) (a : app) : app := a <| a_alloc := Some (label, path) |>.

Definition astep (v : aview) (o : op) : option aview :=
  match o with
  | OTick _ => Some v
  | OUpdateAlloc _ _ _ _ _ _ _ => Some v
  | OAddBucket _ _ _ => Some v
  | OSetState _ _ _ => Some v
  | OSetValidUntil _ _ => Some v
  | ORemoveGroup _ => Some v
  | OConfigGroup _ n => if Z.leb 0 n then Some v else None
  | OAddServer name _ cap _ _ _ =>
      if negb (Vec.zmem name (map fst (v_srv v))) && Nat.eqb (length cap) (v_dim v) && forallb (Z.leb 0) cap
         && forallb (fun a => negb (opt_eqb (a_server a) (Some name))) (v_apps v)
      then Some (mkV (v_dim v) (v_srv v ++ [(name, [])]) (v_apps v)) else None
  | OAddApp label path a =>
      match get_app (a_name a) (v_apps v) with
      | Some _ => None
      | None => if new_app_okb (v_dim v) a
                then Some (mkV (v_dim v) (v_srv v) (v_apps v ++ [with_alloc label path a])) else None
      end
  | ORemoveApp n => match get_app n (v_apps v) with None => Some v | Some _ => None end
  | _ => None
  end.
Fixpoint arun (v : aview) (ops : list op) : option aview :=
  match ops with
  | [] => Some v
  | o :: r => match astep v o with Some v' => arun v' r | None => None end
  end.

Lemma get_srv_notin n l : ~ In n (map s_name l) -> get_srv n l = None.
Proof.
  induction l as [|s r IH]; cbn; intros H; [reflexivity|]. destruct (Z.eqb_spec (s_name s) n) as [E|E].
  - exfalso. apply H. left. exact E.
  - apply IH. intros C. apply H. right. exact C.
Qed.
Lemma get_srv_in n l : In n (map s_name l) -> get_srv n l <> None.
Proof.
  induction l as [|s r IH]; cbn; intros H; [destruct H|]. destruct (Z.eqb_spec (s_name s) n) as [E|E]; [discriminate|].
  destruct H as [H|H]; [contradiction|apply IH; exact H].
Qed.

Lemma sig_names l : map fst (map srv_sig l) = map s_name l.
Proof. rewrite map_map. reflexivity. Qed.
Lemma upd_srv_sigs n f l : (forall x, s_name (f x) = s_name x /\ s_apps (f x) = s_apps x) ->
  map srv_sig (upd_srv n f l) = map srv_sig l.
Proof.
  intros Hf. induction l as [|x t IH]; cbn; [reflexivity|].
  destruct (Z.eqb (s_name x) n); cbn; [unfold srv_sig; rewrite (proj1 (Hf x)), (proj2 (Hf x)); reflexivity|rewrite IH; reflexivity].
Qed.

Lemma view_sc c c' : same_core c c' -> view_of c' = view_of c.
Proof. intros (H1 & _ & H3 & H4 & _). unfold view_of. rewrite H1, H3, H4. reflexivity. Qed.

Lemma view_upd_alloc c l p f : view_of (upd_alloc c l p f) = view_of c.
Proof. unfold upd_alloc, ensure_part. destruct (aget l (c_parts c)); reflexivity. Qed.

Lemma dim_upd_alloc c l p f : c_dim (upd_alloc c l p f) = c_dim c.
Proof. unfold upd_alloc, ensure_part. destruct (aget l (c_parts c)); reflexivity. Qed.

Lemma view_set_state c n st since : view_of (srv_set_state c n st since) = view_of c.
Proof.
  unfold srv_set_state. destruct (get_srv n (c_servers c)) as [s|]; [|reflexivity].
  destruct (sstate_eqb (s_state s) st); [reflexivity|].
  set (c1 := c_upd_srv n _ c).
  assert (E : view_of c1 = view_of c).
  { unfold view_of, c1, c_upd_srv. cbn [c_dim c_servers c_apps set]. rewrite upd_srv_sigs by (intros x; split; reflexivity). reflexivity. }
  rewrite <- E. destruct st; apply view_sc; first [apply adjust_up_from_sc|apply adjust_down_from_sc].
Qed.

Lemma apps_ensure_group c g : c_apps (ensure_group c g) = c_apps c.
Proof. unfold ensure_group. destruct g as [n|]; [|reflexivity]. destruct (aget n (c_groups c)); reflexivity. Qed.
Lemma view_ensure_group c g : view_of (ensure_group c g) = view_of c.
Proof. unfold ensure_group. destruct g as [n|]; [|reflexivity]. destruct (aget n (c_groups c)); reflexivity. Qed.

Theorem astep_sound c o v' : astep (view_of c) o = Some v' -> wf_op_all c o /\ view_of (step c o) = v'.
Proof.
  destruct o; cbn [astep]; try discriminate.
  - (* OAddBucket *) intros H; inversion H; subst. split; [split; exact I|]. cbn [step]. unfold add_bucket.
    rewrite (view_sc _ _ (attach_common_sc _ _ _ _ _ _ _)). reflexivity.
  - (* OAddServer *)
    destruct (negb _ && _ && _ && _) eqn:E; [|discriminate]. intros H; inversion H; subst. clear H.
    apply andb_true_iff in E as [E E4]. apply andb_true_iff in E as [E E3]. apply andb_true_iff in E as [E1 E2].
    cbn [view_of v_srv v_dim v_apps] in *. apply negb_true_iff in E1. apply MapsP.zmem_false in E1. rewrite sig_names in E1.
    split.
    + split; [|exact I]. apply wf_opb_sound. cbn [wf_opb]. rewrite (get_srv_notin _ _ E1), E2, E3, E4. reflexivity.
    + cbn [step]. unfold add_server, new_server. cbn [s_parent s_name s_traits s_counters s_label s_free].
      rewrite (view_sc _ _ (attach_common_sc _ _ _ _ _ _ _)). unfold view_of. cbn [c_dim c_servers c_apps set].
      rewrite map_app. reflexivity.
  - (* OSetState *) intros H; inversion H; subst. split; [split; exact I|]. cbn [step]. apply view_set_state.
  - (* OSetValidUntil *) intros H; inversion H; subst. split; [split; exact I|]. cbn [step].
    unfold view_of, c_upd_srv. cbn [c_dim c_servers c_apps set]. rewrite upd_srv_sigs by (intros x; split; reflexivity). reflexivity.
  - (* OAddApp *)
    cbn [view_of v_apps v_dim v_srv]. destruct (get_app (a_name a) (c_apps c)) eqn:G; [discriminate|].
    destruct (new_app_okb (c_dim c) a) eqn:E; [|discriminate]. intros H; inversion H; subst. clear H.
    unfold new_app_okb in E. apply andb_true_iff in E as [E E4]. apply andb_true_iff in E as [E E3].
    apply andb_true_iff in E as [E1 E2].
    split.
    + split.
      * apply wf_opb_sound. cbn [wf_opb]. rewrite G, E3, E4. destruct (a_server a); [discriminate|reflexivity].
      * apply wf_op_idb_sound. cbn [wf_op_idb]. rewrite G. destruct (a_identity a); [discriminate|reflexivity].
    + cbn [step]. unfold add_app. rewrite G. rewrite view_ensure_group. unfold view_of. cbn [c_dim c_servers c_apps set].
      rewrite apps_upd_alloc, servers_upd_alloc, dim_upd_alloc. reflexivity.
  - (* ORemoveApp *)
    cbn [view_of v_apps]. destruct (get_app name (c_apps c)) eqn:G; [discriminate|]. intros H; inversion H; subst.
    split; [split; exact I|]. cbn [step]. unfold remove_app. rewrite G. reflexivity.
  - (* OUpdateAlloc *) intros H; inversion H; subst. split; [split; exact I|]. cbn [step]. apply view_upd_alloc.
  - (* OConfigGroup *)
    destruct (Z.leb 0 count) eqn:E; [|discriminate]. intros H; inversion H; subst.
    split; [split; [exact I|cbn; apply Z.leb_le; exact E]|]. cbn [step]. unfold config_group.
    destruct (aget name (c_groups c)); reflexivity.
  - (* ORemoveGroup *) intros H; inversion H; subst. split; [split; exact I|]. cbn [step]. unfold remove_group.
    destruct (aget name (c_groups c)); [|reflexivity]. destruct (existsb _ _); reflexivity.
  - (* OTick *) intros H; inversion H; subst. split; [split; exact I|]. reflexivity.
Qed.

Theorem arun_sound ops : forall c v', arun (view_of c) ops = Some v' ->
  wf_ops_all c ops /\ view_of (run c ops) = v'.
Proof.
  induction ops as [|o r IH]; intros c v' H; cbn [arun] in H.
  - inversion H; subst. split; [exact I|reflexivity].
  - destruct (astep (view_of c) o) as [v1|] eqn:E; [|discriminate].
    destruct (astep_sound c o v1 E) as [W V]. rewrite <- V in H. destruct (IH _ _ H) as [W2 V2].
    split; [split; assumption|exact V2].
Qed.

Lemma arun_app l1 : forall v l2,
  arun v (l1 ++ l2) = match arun v l1 with Some v1 => arun v1 l2 | None => None end.
Proof.
  induction l1 as [|o r IH]; intros v l2; cbn [Datatypes.app arun]; [reflexivity|].
  destruct (astep v o); [apply IH|reflexivity].
Qed.

(** operations that change nothing of the view and carry no side condition *)
Definition quiet_op (o : op) : bool :=
  match o with
  | OTick _ | OUpdateAlloc _ _ _ _ _ _ _ | OAddBucket _ _ _ | OSetState _ _ _ | OSetValidUntil _ _ | ORemoveGroup _ => true
  | _ => false
  end.
Lemma arun_quiet ops : forall v, forallb quiet_op ops = true -> arun v ops = Some v.
Proof.
  induction ops as [|o r IH]; intros v H; [reflexivity|]. cbn [forallb] in H. apply andb_true_iff in H as [H1 H2].
  cbn [arun]. destruct o; try discriminate; cbn [astep]; apply IH; exact H2.
Qed.

(** * 3. The placement nodes: a run of ORestore operations from a cell whose instances are all unplaced and hold
    no identity satisfies the side conditions when (store level) every instance is recorded at most once, a node
    carries an identity exactly for a member of an identity group, and no identity is recorded twice in a group *)
Definition trip := (Z * option Z * snode)%type.
Definition trips (srecs : list srec) : list trip :=
  flat_map (fun sr => map (fun n => (sr_name sr, sr_presence sr, n)) (sr_nodes sr)) srecs.
Definition top (t : trip) : op := node_op (fst (fst t)) (snd (fst t)) (snd t).
Definition all_nodes (srecs : list srec) : list snode := flat_map sr_nodes srecs.
Definition tnode (t : trip) : snode := snd t.

Lemma restore_ops_trips srecs : restore_ops srecs = map top (trips srecs).
Proof.
  unfold restore_ops, trips. induction srecs as [|sr l IH]; [reflexivity|]. cbn [flat_map]. rewrite map_app, IH.
  f_equal. rewrite map_map. reflexivity.
Qed.
Lemma trips_nodes srecs : map tnode (trips srecs) = all_nodes srecs.
Proof.
  unfold trips, all_nodes. induction srecs as [|sr l IH]; [reflexivity|]. cbn [flat_map]. rewrite map_app. f_equal; [|exact IH].
  rewrite map_map. unfold tnode. cbn [snd]. apply map_id.
Qed.
Lemma all_node_apps_nodes srecs : all_node_apps srecs = map sn_app (all_nodes srecs).
Proof.
  unfold all_node_apps, all_nodes. induction srecs as [|sr l IH]; [reflexivity|]. cbn [flat_map]. rewrite map_app, IH.
  reflexivity.
Qed.

(** ** what one ORestore does to the instance records and the server names *)
Lemma restore_put_frame c s x vb ex y :
  y <> x -> get_app y (c_apps (fst (restore_put c s x vb ex))) = get_app y (c_apps c).
Proof.
  intros NE. unfold restore_put. destruct vb.
  - unfold srv_restore. destruct (get_app x (c_apps c)) as [a|]; [|reflexivity].
    destruct (srv_put_lease c s x 0) as [c'|] eqn:P; cbn [fst]; unfold c_upd_app; cbn [c_apps set];
      (rewrite get_upd_app_other; [|reflexivity|exact NE]); [|reflexivity].
    eapply frame_srv_put_lease; eassumption.
  - destruct (get_app x (c_apps c)) as [a|] eqn:G; [|reflexivity]. destruct (a_once a); [reflexivity|].
    unfold srv_put. rewrite G. destruct (srv_put_lease c s x (a_lease a)) as [c'|] eqn:P; cbn [fst]; [|reflexivity].
    eapply frame_srv_put_lease; eassumption.
Qed.

Lemma ev_force_frame c x ident y :
  y <> x -> get_app y (c_apps (Events.force_identity c x ident)) = get_app y (c_apps c).
Proof.
  intros NE. unfold Events.force_identity. destruct ident as [i|]; [|reflexivity].
  destruct (get_app x (c_apps c)) as [a|]; [|reflexivity]. destruct (group_of c a) as [[g grp]|]; [|reflexivity].
  unfold c_upd_app. cbn [c_apps set]. apply get_upd_app_other; [reflexivity|exact NE].
Qed.

Lemma restore_op_frame c s x vb ex ident y :
  y <> x -> get_app y (c_apps (restore_op c s x vb ex ident)) = get_app y (c_apps c).
Proof.
  intros NE. unfold restore_op. destruct (get_app x (c_apps c)) as [a|]; [|reflexivity].
  pose proof (restore_put_frame c s x vb ex y NE) as F. destruct (restore_put c s x vb ex) as [c1 ok]. cbn [fst] in F.
  destruct ok; [rewrite ev_force_frame by exact NE; exact F|].
  destruct (a_once a); [rewrite frame_remove_app by exact NE|]; exact F.
Qed.

Lemma remove_app_names_pre c n a :
  get_app n (c_apps c) = Some a ->
  let c1 := match a_server a with Some sn => if is_member c sn then srv_remove c sn n else c | None => c end in
  let c2 := match a_alloc a with Some (l0, p0) => upd_alloc c1 l0 p0 (alloc_del_app n) | None => c1 end in
  map a_name (c_apps (release_identity c2 n)) = map a_name (c_apps c) /\
  map s_name (c_servers (release_identity c2 n)) = map s_name (c_servers c).
Proof.
  intros G c1 c2.
  assert (P1 : psteps c c1).
  { unfold c1. destruct (a_server a) as [sn|]; [|apply ps_refl]. destruct (is_member c sn); [apply srv_remove_ps|apply ps_refl]. }
  assert (E2a : c_apps c2 = c_apps c1) by (unfold c2; destruct (a_alloc a) as [[l0 p0]|]; [apply apps_upd_alloc|reflexivity]).
  assert (E2s : c_servers c2 = c_servers c1) by (unfold c2; destruct (a_alloc a) as [[l0 p0]|]; [apply servers_upd_alloc|reflexivity]).
  split.
  - rewrite (psteps_names _ _ (ps_one _ _ (PS_release c2 n))), E2a. apply psteps_names. exact P1.
  - rewrite servers_release, E2s. apply psteps_srv_names. exact P1.
Qed.

Lemma remove_app_gone c n : NoDup (map a_name (c_apps c)) -> get_app n (c_apps (remove_app c n)) = None.
Proof.
  intros ND. unfold remove_app. destruct (get_app n (c_apps c)) as [a|] eqn:G; [|exact G].
  destruct (remove_app_names_pre c n a G) as [Hn _]. cbn zeta in Hn. cbn [c_apps set].
  rewrite get_app_del by (rewrite Hn; exact ND). rewrite Z.eqb_refl. reflexivity.
Qed.
Lemma remove_app_srv_names c n : map s_name (c_servers (remove_app c n)) = map s_name (c_servers c).
Proof.
  unfold remove_app. destruct (get_app n (c_apps c)) as [a|] eqn:G; [|reflexivity].
  destruct (remove_app_names_pre c n a G) as [_ Hs]. cbn zeta in Hs. cbn [c_servers set]. exact Hs.
Qed.

Lemma restore_op_srv_names c s x vb ex ident :
  map s_name (c_servers (restore_op c s x vb ex ident)) = map s_name (c_servers c).
Proof.
  unfold restore_op. destruct (get_app x (c_apps c)) as [a|]; [|reflexivity].
  pose proof (psteps_srv_names _ _ (restore_put_ps c s x vb ex)) as P.
  destruct (restore_put c s x vb ex) as [c1 ok]. cbn [fst] in P. destruct ok.
  - rewrite <- P. unfold Events.force_identity. destruct ident as [i|]; [|reflexivity].
    destruct (get_app x (c_apps c1)) as [a1|]; [|reflexivity]. destruct (group_of c1 a1) as [[g grp]|]; reflexivity.
  - destruct (a_once a); [rewrite remove_app_srv_names|]; exact P.
Qed.

Lemma restore_op_self c s x vb ex ident a' :
  Acct c -> get_app x (c_apps (restore_op c s x vb ex ident)) = Some a' ->
  exists a, get_app x (c_apps c) = Some a /\ a_group a' = a_group a /\
            (a_identity a' = a_identity a \/ a_identity a' = ident).
Proof.
  intros HA. unfold restore_op. destruct (get_app x (c_apps c)) as [a|] eqn:G; [|rewrite G; discriminate].
  pose proof (Acct_psteps _ _ (restore_put_ps c s x vb ex) HA) as HA1.
  destruct (restore_put_eqi c s x vb ex) as [_ Hq]. pose proof (get_app_eqi _ _ Hq x) as Q. rewrite G in Q.
  destruct (restore_put c s x vb ex) as [c1 ok]. cbn [fst] in *.
  destruct (get_app x (c_apps c1)) as [a1|] eqn:G1; [|contradiction]. destruct Q as (_ & Q2 & Q3).
  assert (Hsame : Some a1 = Some a' -> exists a0, Some a = Some a0 /\ a_group a' = a_group a0 /\
                                      (a_identity a' = a_identity a0 \/ a_identity a' = ident)).
  { intros H; inversion H; subst a'. exists a. split; [reflexivity|]. split; [symmetry; exact Q2|left; symmetry; exact Q3]. }
  destruct ok.
  - unfold Events.force_identity. destruct ident as [i|]; [|rewrite G1; exact Hsame]. rewrite G1.
    destruct (group_of c1 a1) as [[g grp]|]; [|rewrite G1; exact Hsame].
    unfold c_upd_app. cbn [c_apps set]. rewrite (get_upd_app_same x _ _ a1) by (reflexivity || exact G1).
    intros H; inversion H; subst a'. exists a. split; [reflexivity|]. split; [cbn; symmetry; exact Q2|right; reflexivity].
  - destruct (a_once a).
    + rewrite remove_app_gone by (apply (ac_app_names _ HA1)). discriminate.
    + rewrite G1. exact Hsame.
Qed.

(** ** the induction over the nodes *)
Definition node_ok (A0 : list app) (n : snode) : Prop :=
  forall a0, get_app (sn_app n) A0 = Some a0 ->
    match sn_identity n with Some i => 0 <= i /\ a_group a0 <> None | None => a_group a0 = None end.
Definition claims_ok (A0 : list app) (full : list snode) : Prop :=
  forall n1 n2 i g a1 a2, In n1 full -> In n2 full -> sn_identity n1 = Some i -> sn_identity n2 = Some i ->
    get_app (sn_app n1) A0 = Some a1 -> get_app (sn_app n2) A0 = Some a2 ->
    a_group a1 = Some g -> a_group a2 = Some g -> sn_app n1 = sn_app n2.

Lemma restore_wf_ind A0 : forall (rest : list trip) (done : list snode) (c : cell),
  NoDup (map sn_app (done ++ map tnode rest)) ->
  (forall n, In n (done ++ map tnode rest) -> node_ok A0 n) ->
  claims_ok A0 (done ++ map tnode rest) ->
  Good c ->
  (forall x a, get_app x (c_apps c) = Some a -> exists a0, get_app x A0 = Some a0 /\ a_group a0 = a_group a) ->
  (forall x a i, get_app x (c_apps c) = Some a -> a_identity a = Some i ->
                 exists n, In n done /\ sn_app n = x /\ sn_identity n = Some i) ->
  (forall x a, get_app x (c_apps c) = Some a -> a_server a <> None -> In x (map sn_app done)) ->
  (forall t, In t rest -> In (fst (fst t)) (map s_name (c_servers c))) ->
  wf_ops_all c (map top rest).
Proof.
  induction rest as [|t tl IH]; intros done c ND NOK COK HG IA IB IS ISrv; [exact I|].
  destruct t as [[s p] n]. cbn [map] in ND, NOK, COK. change (tnode (s, p, n)) with n in *. cbn [map wf_ops_all].
  set (x := sn_app n).
  assert (Hn_in : In n (done ++ n :: map tnode tl)) by (apply in_or_app; right; left; reflexivity).
  assert (Hx_notdone : ~ In x (map sn_app done)).
  { intros C. rewrite map_app in ND. cbn [map] in ND. apply (NoDup_app_disj _ _ x ND C). left. reflexivity. }
  assert (W : wf_op_all c (top (s, p, n))).
  { unfold top, node_op. cbn [fst snd]. split.
    - cbn [wf_op]. split.
      + apply get_srv_in. apply (ISrv (s, p, n)). left. reflexivity.
      + intros a Ha. destruct (a_server a) eqn:Es; [|reflexivity]. exfalso. apply Hx_notdone.
        apply (IS x a Ha). rewrite Es. discriminate.
    - cbn [wf_op_id]. destruct (sn_identity n) as [i|] eqn:Ei.
      + intros a Ha. destruct (IA x a Ha) as (a0 & Ha0 & Hg0). pose proof (NOK n Hn_in a0 Ha0) as K. rewrite Ei in K.
        destruct K as [K1 K2]. split; [exact K1|]. destruct (a_group a0) as [g|] eqn:Eg0; [|contradiction].
        exists g. split; [rewrite <- Hg0; reflexivity|].
        intros n2 b Hne Hb [Hh1 Hh2]. destruct (IB n2 b i Hb Hh2) as (n' & Hin' & Hn' & Hi').
        destruct (IA n2 b Hb) as (b0 & Hb0 & Hgb). apply Hne. rewrite <- Hn'. symmetry.
        apply (COK n n' i g a0 b0 Hn_in); try assumption.
        * apply in_or_app. left. exact Hin'.
        * rewrite Hn'. exact Hb0.
        * rewrite Hgb. exact Hh1.
      + intros a Ha. destruct (IA x a Ha) as (a0 & Ha0 & Hg0). pose proof (NOK n Hn_in a0 Ha0) as K. rewrite Ei in K.
        left. rewrite <- Hg0. exact K. }
  split; [exact W|].
  assert (E : step c (top (s, p, n)) = restore_op c s x (sched_verbatim p n) (sn_expires n) (sn_identity n)) by reflexivity.
  rewrite E. set (c' := restore_op c s x (sched_verbatim p n) (sn_expires n) (sn_identity n)).
  assert (L : (done ++ [n]) ++ map tnode tl = done ++ n :: map tnode tl)
    by (rewrite <- app_assoc; reflexivity).
  apply (IH (done ++ [n]) c').
  - rewrite L. exact ND.
  - rewrite L. exact NOK.
  - rewrite L. exact COK.
  - unfold c'. rewrite <- E. apply Good_step; assumption.
  - intros y a' Ha'. destruct (Z.eq_dec y x) as [->|NE].
    + destruct (restore_op_self c s x _ _ _ a' (proj1 HG) Ha') as (a & Ha & Hg & _).
      destruct (IA x a Ha) as (a0 & Ha0 & Hg0). exists a0. split; [exact Ha0|congruence].
    + unfold c' in Ha'. rewrite restore_op_frame in Ha' by exact NE. exact (IA y a' Ha').
  - intros y a' i Ha' Hi. destruct (Z.eq_dec y x) as [->|NE].
    + destruct (restore_op_self c s x _ _ _ a' (proj1 HG) Ha') as (a & Ha & _ & [Hid|Hid]).
      * rewrite Hid in Hi. destruct (IB x a i Ha Hi) as (n' & Hin' & Hn' & Hi'). exists n'.
        split; [apply in_or_app; left; exact Hin'|split; assumption].
      * exists n. split; [apply in_or_app; right; left; reflexivity|]. split; [reflexivity|congruence].
    + unfold c' in Ha'. rewrite restore_op_frame in Ha' by exact NE.
      destruct (IB y a' i Ha' Hi) as (n' & Hin' & Hn' & Hi'). exists n'.
      split; [apply in_or_app; left; exact Hin'|split; assumption].
  - intros y a' Ha' Hs. rewrite map_app. apply in_or_app. destruct (Z.eq_dec y x) as [->|NE].
    + right. left. reflexivity.
    + left. unfold c' in Ha'. rewrite restore_op_frame in Ha' by exact NE. exact (IS y a' Ha' Hs).
  - intros t Ht. unfold c'. rewrite restore_op_srv_names. apply ISrv. right. exact Ht.
Qed.

(** the decidable form of the conditions on the nodes *)
Definition node_okb (A0 : list app) (n : snode) : bool :=
  match get_app (sn_app n) A0 with
  | None => true
  | Some a0 => match sn_identity n with
               | Some i => Z.leb 0 i && is_some (a_group a0)
               | None => is_none (a_group a0)
               end
  end.
Definition node_claim (A0 : list app) (n : snode) : list (Z * Z * Z) :=
  match get_app (sn_app n) A0, sn_identity n with
  | Some a0, Some i => match a_group a0 with Some g => [(g, i, sn_app n)] | None => [] end
  | _, _ => []
  end.
(** no two claims with the same (group, identity) *)
Fixpoint claims_distinct (l : list (Z * Z * Z)) : bool :=
  match l with
  | [] => true
  | (g, i, x) :: r =>
      forallb (fun c => negb (Z.eqb (fst (fst c)) g && Z.eqb (snd (fst c)) i)) r && claims_distinct r
  end.
Definition restore_okb (A0 : list app) (srecs : list srec) : bool :=
  z_distinct (all_node_apps srecs) && forallb (node_okb A0) (all_nodes srecs)
  && claims_distinct (flat_map (node_claim A0) (all_nodes srecs)).

Lemma claims_distinct_in l : claims_distinct l = true ->
  forall l1 c1 l2, l = l1 ++ c1 :: l2 -> forall c2, In c2 l2 -> ~ (fst (fst c2) = fst (fst c1) /\ snd (fst c2) = snd (fst c1)).
Proof.
  induction l as [|[[g i] x] r IH]; intros H l1 c1 l2 E c2 Hin [E1 E2]; [destruct l1; discriminate|].
  cbn [claims_distinct] in H. apply andb_true_iff in H as [H1 H2]. destruct l1 as [|c0 l1]; cbn in E.
  - inversion E; subst. rewrite forallb_forall in H1. specialize (H1 c2 Hin). cbn [fst snd] in *.
    rewrite E1, E2, !Z.eqb_refl in H1. discriminate.
  - inversion E; subst. exact (IH H2 l1 c1 l2 eq_refl c2 Hin (conj E1 E2)).
Qed.

Lemma restore_okb_sound A0 srecs : restore_okb A0 srecs = true ->
  NoDup (map sn_app (all_nodes srecs)) /\ (forall n, In n (all_nodes srecs) -> node_ok A0 n) /\
  claims_ok A0 (all_nodes srecs).
Proof.
  unfold restore_okb. intros H. apply andb_true_iff in H as [H H3]. apply andb_true_iff in H as [H1 H2].
  apply z_distinct_NoDup in H1. rewrite all_node_apps_nodes in H1. split; [exact H1|]. split.
  - intros n Hin a0 Ha0. rewrite forallb_forall in H2. specialize (H2 n Hin). unfold node_okb in H2. rewrite Ha0 in H2.
    destruct (sn_identity n) as [i|].
    + apply andb_true_iff in H2 as [K1 K2]. split; [apply Z.leb_le; exact K1|]. destruct (a_group a0); [discriminate|discriminate].
    + destruct (a_group a0); [discriminate|reflexivity].
  - intros n1 n2 i g a1 a2 Hin1 Hin2 Hi1 Hi2 Ha1 Ha2 Hg1 Hg2.
    destruct (Z.eq_dec (sn_app n1) (sn_app n2)) as [E|NE]; [exact E|exfalso].
    (* the two nodes sit at different positions; order them *)
    assert (K : forall L, NoDup (map sn_app L) -> claims_distinct (flat_map (node_claim A0) L) = true ->
                          In n1 L -> In n2 L -> False).
    { clear H1 H2 H3 Hin1 Hin2. induction L as [|m L IHL]; intros ND CD I1 I2; [destruct I1|].
      cbn [flat_map] in CD. cbn [map] in ND. inversion ND as [|? ? Hni ND']; subst.
      assert (CDL : claims_distinct (flat_map (node_claim A0) L) = true).
      { clear - CD. induction (node_claim A0 m) as [|[[g0 i0] x0] r IHr]; [exact CD|]. cbn in CD.
        apply andb_true_iff in CD as [_ CD]. apply IHr. exact CD. }
      assert (Head : forall na nb aa ab, na = m -> In nb L -> sn_identity na = Some i -> sn_identity nb = Some i ->
                       get_app (sn_app na) A0 = Some aa -> get_app (sn_app nb) A0 = Some ab ->
                       a_group aa = Some g -> a_group ab = Some g -> False).
      { intros na nb aa ab -> Hb Hia Hib Haa Hab Hga Hgb.
        assert (Cm : node_claim A0 m = [(g, i, sn_app m)]) by (unfold node_claim; rewrite Haa, Hia, Hga; reflexivity).
        assert (Cb : In (g, i, sn_app nb) (flat_map (node_claim A0) L)).
        { apply in_flat_map. exists nb. split; [exact Hb|]. unfold node_claim. rewrite Hab, Hib, Hgb. left. reflexivity. }
        rewrite Cm in CD.
        apply (claims_distinct_in _ CD [] (g, i, sn_app m) (flat_map (node_claim A0) L) eq_refl _ Cb). split; reflexivity. }
      destruct I1 as [I1|I1], I2 as [I2|I2].
      - subst. apply NE. reflexivity.
      - exact (Head n1 n2 a1 a2 (eq_sym I1) I2 Hi1 Hi2 Ha1 Ha2 Hg1 Hg2).
      - exact (Head n2 n1 a2 a1 (eq_sym I2) I1 Hi2 Hi1 Ha2 Ha1 Hg2 Hg1).
      - exact (IHL ND' CDL I1 I2). }
    exact (K (all_nodes srecs) H1 H3 Hin1 Hin2).
Qed.

(** a cell whose instances are all unplaced and hold no identity: what load_model has built before
    restore_placements *)
Definition clean (c : cell) : Prop := forall x a, get_app x (c_apps c) = Some a -> a_server a = None /\ a_identity a = None.

Theorem restore_wf c srecs :
  Good c -> clean c -> (forall sr, In sr srecs -> In (sr_name sr) (map s_name (c_servers c))) ->
  restore_okb (c_apps c) srecs = true -> wf_ops_all c (restore_ops srecs).
Proof.
  intros HG HC HS HR. destruct (restore_okb_sound _ _ HR) as (ND & NOK & COK).
  rewrite restore_ops_trips. apply (restore_wf_ind (c_apps c) (trips srecs) [] c); cbn [Datatypes.app];
    try (rewrite trips_nodes; assumption); try assumption.
  - intros x a Ha. exists a. split; [exact Ha|reflexivity].
  - intros x a i Ha Hi. rewrite (proj2 (HC x a Ha)) in Hi. discriminate.
  - intros x a Ha Hs. exfalso. apply Hs. exact (proj1 (HC x a Ha)).
  - intros t Ht. unfold trips in Ht. apply in_flat_map in Ht as (sr & Hsr & Ht). apply in_map_iff in Ht as (n & <- & _).
    cbn [fst]. apply HS. exact Hsr.
Qed.

(** * 4. From conditions on the snapshot to the side conditions of the operations *)
(** ** facts about the per-record models of LoadApp.v that hold for every table *)
Lemma ucast_not_ok {A B} (e : ures A) (b : B) : @ucast A B e <> UOk b.
Proof. destruct e; discriminate. Qed.

Lemma create_server_name T U codes now name r s codes' :
  create_server T U codes now name r = (UOk s, codes') -> so_name s = name /\ so_parent s = None.
Proof.
  unfold create_server.
  destruct (label_of T r) as [label| | |]; try (intros H; inversion H; fail).
  destruct (up_since_of T now r) as [up| | |]; try (intros H; inversion H; fail).
  destruct (srv_trait_list_of T r) as [tl| | |]; try (intros H; inversion H; fail).
  destruct (encode T (lt_srv_encode T) codes tl) as [[tz c']| | |]; try (intros H; inversion H; fail).
  destruct (key_of (lt_srv_flow T) S_CAPACITY F_RESOURCES); [|intros H; inversion H].
  destruct (resources U (sr_res r)); cbn [ubind]; intros H; inversion H; subst. split; reflexivity.
Qed.

Lemma load_server_att T U codes now buckets name ro s codes' :
  load_server T U codes now buckets name ro = (LSAttached s, codes') ->
  so_name s = name /\ exists p, so_parent s = Some p.
Proof.
  unfold load_server. destruct ro as [r|]; [|intros H; inversion H].
  destruct (create_server T U codes now name r) as [[s0| | |] c'] eqn:Hc; try (intros H; inversion H; fail).
  destruct (sr_parent r) as [p|]; [|intros H; inversion H].
  destruct (existsb (str_eqb p) buckets); intros H; inversion H; subst. cbn [so_name so_parent].
  split; [exact (proj1 (create_server_name _ _ _ _ _ _ _ _ Hc))|exists p; reflexivity].
Qed.

Lemma load_new_app_fresh T U codes name m asg bl o :
  load_new_app T U codes name m asg bl = UOk o -> ao_name o = name /\ ao_server o = None /\ ao_identity o = None.
Proof.
  unfold load_new_app.
  repeat match goal with
         | |- context [ubind ?x _] => destruct x; cbn [ubind]; try discriminate
         end.
  intros H; inversion H; subst. unfold apply_after. destruct (existsb _ _); repeat split; reflexivity.
Qed.

Lemma load_app_fresh T U codes name mo asg bl o :
  load_app T U codes None name mo asg bl = UOk (LLoaded o) ->
  ao_name o = name /\ ao_server o = None /\ ao_identity o = None.
Proof.
  unfold load_app. destruct mo as [m|]; [|discriminate].
  destruct (load_new_app T U codes name m asg bl) as [o'| | |] eqn:E; cbn [ubind]; try discriminate.
  intros H; inversion H; subst. exact (load_new_app_fresh _ _ _ _ _ _ _ _ E).
Qed.

Section Readable.
  Variable T : ltables.
  Variable U : utables.
  Variable id : str -> Z.
  Variable none_aff : Z.

  Notation load_pre := (load_pre T U id none_aff).
  Notation pre_ops := (pre_ops T U id none_aff).
  Notation store_srecs := (store_srecs T U id none_aff).
  Notation load_model_ops := (load_model_ops T U id none_aff).
  Notation loaded_cell := (loaded_cell T U id none_aff).
  Notation init_of := (init_of id).

  (** ** the quiet phases *)
  Lemma quiet_parts l : forallb quiet_op (map (part_op id) l) = true.
  Proof. induction l as [|x r IH]; [reflexivity|exact IH]. Qed.
  Lemma quiet_tops bs root top : forallb quiet_op (top_ops id bs root top) = true.
  Proof.
    unfold top_ops. induction top as [|n r IH]; [reflexivity|]. cbn [flat_map]. rewrite forallb_app, IH.
    destruct (find_bkt n bs); reflexivity.
  Qed.
  Lemma quiet_load_bucket fuel : forall bs loaded name, forallb quiet_op (snd (load_bucket id fuel bs loaded name)) = true.
  Proof.
    induction fuel as [|f IH]; intros bs loaded name; [reflexivity|]. cbn [load_bucket].
    destruct (str_mem name loaded); [reflexivity|]. destruct (find_bkt name bs) as [b|]; [|reflexivity].
    destruct (bkt_parent b) as [p|]; [|reflexivity]. specialize (IH bs (loaded ++ [name]) p).
    destruct (load_bucket id f bs (loaded ++ [name]) p) as [l2 ops]. cbn [snd] in *. rewrite forallb_app, IH. reflexivity.
  Qed.
  Lemma quiet_load_buckets all : forall bs loaded, forallb quiet_op (snd (load_buckets_from id all loaded bs)) = true.
  Proof.
    induction bs as [|b r IH]; intros loaded; [reflexivity|]. cbn [load_buckets_from].
    pose proof (quiet_load_bucket (S (length all)) all loaded (be_name b)) as Q.
    destruct (load_bucket id (S (length all)) all loaded (be_name b)) as [l1 ops1]. specialize (IH l1).
    destruct (load_buckets_from id all l1 r) as [l2 ops2]. cbn [snd] in *. rewrite forallb_app, Q, IH. reflexivity.
  Qed.
  Lemma quiet_alloc_ops codes : forall l earlier, forallb quiet_op (fst (alloc_ops T U id codes earlier l)) = true.
  Proof.
    induction l as [|ae r IH]; intros earlier; [reflexivity|]. cbn [alloc_ops]. specialize (IH (ae :: earlier)).
    destruct (alloc_ops T U id codes (ae :: earlier) r) as [ops ok]. cbn [fst] in IH.
    destruct (alloc_op T U id codes earlier ae) as [o| | |] eqn:E; cbn [fst]; try exact IH.
    cbn [forallb]. rewrite IH, andb_true_r. unfold alloc_op in E.
    destruct (resources U (ae_res ae)); cbn [ubind] in E; try discriminate.
    destruct (encode T [0; 0] codes _); cbn [ubind] in E; try discriminate. inversion E; reflexivity.
  Qed.

  (** ** servers *)
  Definition srv_id (p : srv_ent * srv_obj) : Z := id (so_name (snd p)).
  Definition cap_okb (p : srv_ent * srv_obj) : bool :=
    Nat.eqb (length (so_cap (snd p))) DIM && forallb (Z.leb 0) (so_cap (snd p)).

  Lemma NoDup_snoc_mem (sn : list Z) x r : NoDup (sn ++ x :: r) -> Vec.zmem x sn = false /\ NoDup ((sn ++ [x]) ++ r).
  Proof.
    intros H. split.
    - apply MapsP.zmem_false. intros C. apply (NoDup_app_disj _ _ x H C). left. reflexivity.
    - rewrite <- app_assoc. exact H.
  Qed.

  Definition esig (n : Z) : Z * list Z := (n, []).
  Lemma esig_names l : map fst (map esig l) = l.
  Proof. rewrite map_map. apply map_id. Qed.

  Lemma arun_server_ops now se s p sn rest :
    so_parent s = Some p -> Vec.zmem (id (so_name s)) sn = false -> cap_okb (se, s) = true ->
    arun (mkV DIM (map esig sn) []) (server_ops id now se s ++ rest)
    = arun (mkV DIM (map esig (sn ++ [id (so_name s)])) []) rest.
  Proof.
    intros Hp M C. rewrite map_app. cbn [map]. rewrite <- (esig_names sn) in M. unfold cap_okb in C. cbn [snd] in C. apply andb_true_iff in C as [C1 C2].
    unfold server_ops, load_server_op. rewrite Hp.
    destruct (se_state se) as [[st0 since0]|]; destruct (is_some (se_presence se));
      cbn [Datatypes.app arun astep v_srv v_dim v_apps forallb]; rewrite M, C1, C2; reflexivity.
  Qed.

  Lemma arun_servers now buckets : forall ses codes sn,
    NoDup (sn ++ map srv_id (sl_att (load_servers T U id now buckets codes ses))) ->
    forallb cap_okb (sl_att (load_servers T U id now buckets codes ses)) = true ->
    arun (mkV DIM (map esig sn) []) (sl_ops (load_servers T U id now buckets codes ses))
    = Some (mkV DIM (map esig (sn ++ map srv_id (sl_att (load_servers T U id now buckets codes ses)))) []).
  Proof.
    induction ses as [|se r IH]; intros codes sn ND CAP; cbn [load_servers] in *.
    - cbn. rewrite app_nil_r. reflexivity.
    - destruct (load_server T U codes now buckets (se_name se) (se_rec se)) as [res codes'] eqn:E.
      destruct res as [| e | | | s]; cbn [sl_ops sl_att sl_fail] in *; try (apply IH; assumption).
      destruct (load_server_att _ _ _ _ _ _ _ _ _ E) as [_ [p Hp]].
      cbn [map] in ND. cbn [forallb] in CAP. apply andb_true_iff in CAP as [C1 C2].
      destruct (NoDup_snoc_mem _ _ _ ND) as [M ND'].
      rewrite (arun_server_ops now se s p sn _ Hp M C1).
      rewrite (IH codes' (sn ++ [id (so_name s)]) ND' C2). rewrite <- app_assoc. reflexivity.
  Qed.

  Lemma servers_att_names now buckets : forall ses codes p,
    In p (sl_att (load_servers T U id now buckets codes ses)) -> so_name (snd p) = se_name (fst p).
  Proof.
    induction ses as [|se r IH]; intros codes p; cbn [load_servers]; [intros []|].
    destruct (load_server T U codes now buckets (se_name se) (se_rec se)) as [res codes'] eqn:E.
    destruct res as [| e | | | s]; cbn [sl_att sl_fail]; try apply IH.
    intros [<-|H]; [cbn [fst snd]; exact (proj1 (load_server_att _ _ _ _ _ _ _ _ _ E))|exact (IH _ _ H)].
  Qed.

  (** ** instances *)
  Definition app_id (ap : app_ent) : Z := id (ap_name ap).
  Definition demand_okb (p : app_ent * app_obj) : bool :=
    Nat.eqb (length (ao_demand (snd p))) DIM && forallb (Z.leb 0) (ao_demand (snd p)).

  Lemma get_app_notin n l : ~ In n (map a_name l) -> get_app n l = None.
  Proof.
    induction l as [|a r IH]; cbn; intros H; [reflexivity|]. destruct (Z.eqb_spec (a_name a) n) as [E|E].
    - exfalso. apply H. left. exact E.
    - apply IH. intros C. apply H. right. exact C.
  Qed.

  Lemma placed_rec_eq label path order o :
    placed_rec id none_aff label path order o = with_alloc label path (sched_app id none_aff order o).
  Proof. reflexivity. Qed.

  Lemma arun_apps allocs codes : forall aps order sn apps,
    NoDup (map a_name apps ++ map app_id aps) ->
    forallb demand_okb (al_apps (load_apps T U id none_aff allocs codes order aps)) = true ->
    arun (mkV DIM sn apps) (al_ops (load_apps T U id none_aff allocs codes order aps))
    = Some (mkV DIM sn (apps ++ al_recs (load_apps T U id none_aff allocs codes order aps))).
  Proof.
    induction aps as [|ap r IH]; intros order sn apps ND DEM; cbn [load_apps] in *.
    - cbn. rewrite app_nil_r. reflexivity.
    - cbn [map] in ND.
      assert (Hfresh : get_app (app_id ap) apps = None).
      { apply get_app_notin. intros C. apply (NoDup_app_disj _ _ _ ND C). left. reflexivity. }
      assert (ND0 : NoDup (map a_name apps ++ map app_id r)).
      { clear - ND. induction (map a_name apps) as [|y t IHt]; cbn in *; [inversion ND; assumption|].
        inversion ND as [|? ? Hn Hd]; subst. constructor; [|apply IHt; exact Hd].
        intros C. apply Hn. apply in_or_app. apply in_app_or in C as [C|C]; [left; exact C|right; right; exact C]. }
      destruct (ap_manifest ap) as [m|] eqn:Em.
      + destruct (assignment_of T id allocs (ap_name ap) (ap_asg ap)) as [[[prio label] path]|];
          [|cbn [al_fail al_ops al_apps al_recs] in *; apply IH; assumption].
        destruct (load_app T U codes None (ap_name ap) (Some m) prio (ap_bl ap)) as [[|o]| | |] eqn:E;
          try (cbn [al_fail al_ops al_apps al_recs] in *; apply IH; assumption).
        cbn [al_ops al_apps al_recs] in *. cbn [forallb] in DEM. apply andb_true_iff in DEM as [D1 D2].
        destruct (load_app_fresh _ _ _ _ _ _ _ _ E) as (Hname & Hsrv & Hid).
        unfold load_app_ops. cbn [Datatypes.app arun astep v_apps v_dim v_srv].
        assert (Hn : a_name (sched_app id none_aff order o) = app_id ap) by (cbn; rewrite Hname; reflexivity).
        rewrite Hn, Hfresh. unfold new_app_okb. cbn [a_server a_identity a_demand sched_app].
        rewrite Hsrv, Hid. unfold demand_okb in D1. cbn [snd] in D1. cbn [option_map is_none andb]. rewrite D1.
        rewrite (IH (order + 1) sn (apps ++ [with_alloc label path (sched_app id none_aff order o)])).
        * rewrite <- app_assoc. reflexivity.
        * rewrite map_app. cbn [map]. change (a_name (with_alloc label path (sched_app id none_aff order o)))
            with (a_name (sched_app id none_aff order o)). rewrite Hn. rewrite <- app_assoc. exact ND.
        * exact D2.
      + cbn [al_ops al_apps al_recs] in *. cbn [arun astep v_apps]. fold (app_id ap). rewrite Hfresh.
        apply IH; assumption.
  Qed.

  Lemma apps_recs_clean allocs codes : forall aps order a,
    In a (al_recs (load_apps T U id none_aff allocs codes order aps)) -> a_server a = None /\ a_identity a = None.
  Proof.
    induction aps as [|ap r IH]; intros order a; cbn [load_apps]; [intros []|].
    destruct (ap_manifest ap) as [m|]; [|cbn [al_recs]; apply IH].
    destruct (assignment_of T id allocs (ap_name ap) (ap_asg ap)) as [[[prio label] path]|]; [|cbn [al_fail al_recs]; apply IH].
    destruct (load_app T U codes None (ap_name ap) (Some m) prio (ap_bl ap)) as [[|o]| | |] eqn:E;
      try (cbn [al_fail al_recs]; apply IH).
    cbn [al_recs]. intros [<-|H]; [|exact (IH _ _ H)].
    destruct (load_app_fresh _ _ _ _ _ _ _ _ E) as (_ & Hsrv & Hid). cbn. rewrite Hsrv, Hid. split; reflexivity.
  Qed.

  (** ** identity groups *)
  Definition count_okb (ge : grp_ent) : bool := match ge_data ge with Some (Some n) => Z.leb 0 n | _ => true end.
  Lemma arun_groups objs gs v : forallb count_okb gs = true -> arun v (group_ops id objs gs) = Some v.
  Proof.
    intros H. unfold group_ops. rewrite arun_app.
    rewrite arun_quiet by (induction (filter _ _) as [|g r IH]; [reflexivity|exact IH]).
    induction gs as [|ge r IH]; [reflexivity|]. cbn [forallb] in H. apply andb_true_iff in H as [H1 H2].
    cbn [flat_map]. rewrite arun_app. unfold count_okb in H1.
    destruct (ge_data ge) as [[n|]|]; cbn [arun astep]; [rewrite H1|cbn|]; apply IH; exact H2.
  Qed.

  (** ** the conditions on the snapshot *)
  Definition store_wfb (st : store) : bool :=
    let ld := load_pre st in
    ld_ok ld && store_shape_ok id st
    && z_distinct (map srv_id (ld_servers ld)) && forallb cap_okb (ld_servers ld)
    && z_distinct (map app_id (st_apps st)) && forallb demand_okb (ld_apps ld)
    && forallb count_okb (st_groups st)
    && restore_okb (ld_recs ld) (store_srecs st).

  Lemma pre_ops_arun st :
    z_distinct (map srv_id (ld_servers (load_pre st))) = true -> forallb cap_okb (ld_servers (load_pre st)) = true ->
    z_distinct (map app_id (st_apps st)) = true -> forallb demand_okb (ld_apps (load_pre st)) = true ->
    forallb count_okb (st_groups st) = true ->
    arun (mkV DIM [] []) (pre_ops st)
    = Some (mkV DIM (map esig (map srv_id (ld_servers (load_pre st)))) (ld_recs (load_pre st))).
  Proof.
    unfold pre_ops, LoadModel.pre_ops, LoadModel.load_pre.
    pose proof (quiet_load_buckets (st_buckets st) (st_buckets st) []) as QB. unfold load_buckets.
    destruct (load_buckets_from id (st_buckets st) [] (st_buckets st)) as [bnames links]. cbn [snd] in QB.
    set (sl := load_servers T U id (st_now st) bnames (create_code T (st_traits st)) (st_servers st)).
    pose proof (quiet_alloc_ops (sl_codes sl) (st_allocs st) []) as QA.
    destruct (alloc_ops T U id (sl_codes sl) [] (st_allocs st)) as [aops aok]. cbn [fst] in QA.
    set (al := load_apps T U id none_aff (st_allocs st) (sl_codes sl) (st_order st) (st_apps st)).
    cbn [ld_ops ld_servers ld_apps ld_recs]. intros S1 S2 A1 A2 G1.
    rewrite arun_app. change (arun (mkV DIM [] []) [OTick (st_now st)]) with (Some (mkV DIM [] [])). cbv beta iota.
    change (part_op id (lt_default_partition T) :: map (part_op id) (st_partitions st))
      with (map (part_op id) (lt_default_partition T :: st_partitions st)).
    rewrite arun_app, (arun_quiet _ _ (quiet_parts _)).
    rewrite arun_app, (arun_quiet _ _ (quiet_tops _ _ _)).
    rewrite arun_app, (arun_quiet _ _ QB).
    rewrite arun_app. unfold sl at 1. change (@nil (Z * list Z)) with (map esig []).
    rewrite (arun_servers _ _ _ _ [] (z_distinct_NoDup _ S1) S2). cbn [Datatypes.app].
    rewrite arun_app, (arun_quiet _ _ QA).
    rewrite arun_app. unfold al at 1. rewrite (arun_apps _ _ _ _ _ []); [|cbn [map Datatypes.app]; apply z_distinct_NoDup; exact A1|exact A2].
    cbn [Datatypes.app]. apply arun_groups. exact G1.
  Qed.

  Lemma ld_servers_names st p : In p (ld_servers (load_pre st)) -> so_name (snd p) = se_name (fst p).
  Proof.
    unfold LoadModel.load_pre. destruct (load_buckets id (st_buckets st)) as [bnames links].
    destruct (alloc_ops T U id _ [] (st_allocs st)) as [aops aok]. cbn [ld_servers]. apply servers_att_names.
  Qed.
  Lemma ld_recs_clean st a : In a (ld_recs (load_pre st)) -> a_server a = None /\ a_identity a = None.
  Proof.
    unfold LoadModel.load_pre. destruct (load_buckets id (st_buckets st)) as [bnames links].
    destruct (alloc_ops T U id _ [] (st_allocs st)) as [aops aok]. cbn [ld_recs]. apply apps_recs_clean.
  Qed.

  (** what load_model has built before restore_placements, seen through the abstraction: the attached servers (all
      empty) and the instance records (all unplaced, without identity) *)
  Lemma store_wfb_view st : store_wfb st = true ->
    wf_ops_all (init_of st) (pre_ops st) /\
    view_of (loaded_cell st) = mkV DIM (map esig (map srv_id (ld_servers (load_pre st)))) (ld_recs (load_pre st)).
  Proof.
    unfold store_wfb. intros H.
    repeat match type of H with (_ && _) = true => let H' := fresh "K" in apply andb_true_iff in H as [H H'] end.
    pose proof (pre_ops_arun st K4 K3 K2 K1 K0) as AR.
    change (mkV DIM [] []) with (view_of (init_of st)) in AR.
    exact (arun_sound _ _ _ AR).
  Qed.

  Lemma srecs_names st : map sr_name (store_srecs st) = map srv_id (ld_servers (load_pre st)).
  Proof.
    unfold store_srecs, LoadModel.store_srecs. rewrite map_map. apply map_ext_in. intros p Hp.
    cbn [sr_name srec_of]. unfold srv_id. rewrite (ld_servers_names st p Hp). reflexivity.
  Qed.

  Theorem store_wfb_ok st : store_wfb st = true -> store_ok T U id none_aff st.
  Proof.
    intros H0. destruct (store_wfb_view st H0) as [W V]. revert H0. unfold store_wfb. intros H.
    repeat match type of H with (_ && _) = true => let H' := fresh "K" in apply andb_true_iff in H as [H H'] end.
    assert (HG : Good (loaded_cell st)) by (apply Good_run; [exact W|apply Good_init]).
    inversion V as [[V1 V2 V3]].
    split; [exact H|]. split; [exact K5|]. split.
    - unfold restore_okb in K. apply andb_true_iff in K as [K _]. apply andb_true_iff in K as [K _].
      apply z_distinct_NoDup. exact K.
    - unfold load_model_ops, LoadModel.load_model_ops. apply wf_ops_all_app. split; [exact W|].
      fold (loaded_cell st). apply restore_wf.
      + exact HG.
      + intros x a Ha. rewrite V3 in Ha. apply get_app_In in Ha. exact (ld_recs_clean st a Ha).
      + intros sr Hsr. rewrite <- sig_names, V2, esig_names, <- srecs_names. apply in_map. exact Hsr.
      + rewrite V3. exact K.
  Qed.

  (** the server.remove_all() that opens every restore_placement is idle when a master starts *)
  Theorem load_model_full_ra_eq st : store_wfb st = true ->
    load_model_full_ra T U id none_aff st = load_model_full T U id none_aff st.
  Proof.
    intros H0. destruct (store_wfb_view st H0) as [_ V]. inversion V as [[V1 V2 V3]]. clear V1 V3.
    unfold load_model_full_ra, load_model_full, restore_placements. fold (loaded_cell st). fold (store_srecs st).
    rewrite restore_all_ra_eq; [destruct (restore_all true (loaded_cell st) (store_srecs st)); reflexivity| |].
    - rewrite srecs_names. apply z_distinct_NoDup. revert H0. unfold store_wfb. intros H.
      repeat match type of H with (_ && _) = true => let H' := fresh "K" in apply andb_true_iff in H as [H H'] end.
      exact K4.
    - intros sr _ sv Hsv. apply get_srv_In in Hsv. apply (in_map srv_sig) in Hsv. rewrite V2 in Hsv.
      apply in_map_iff in Hsv as (n & Hn & _). unfold esig, srv_sig in Hn. inversion Hn. reflexivity.
  Qed.

  (** everything from conditions on the snapshot *)
  Theorem everything_from_the_snapshot st ch : store_wfb st = true ->
    let c1 := load_model_full T U id none_aff st in
    c1 = run (init_of st) (load_model_ops st) /\
    load_model_full_ra T U id none_aff st = c1 /\
    reachable c1 /\ Good c1 /\
    forall x a', app_of (step c1 (OSchedule ch)) x = Some a' ->
      (a_server a' = None -> no_id a') /\ (a_server a' <> None -> has_id a') /\
      (forall g i k, holds a' g i -> gcount (step c1 (OSchedule ch)) g = Some k -> 0 <= i < k).
  Proof.
    intros H c1. pose proof (store_wfb_ok st H) as K.
    split; [exact (load_model_full_is_a_run T U id none_aff st K)|].
    split; [exact (load_model_full_ra_eq st H)|].
    split; [exact (loaded_cell_reachable T U id none_aff st K)|].
    split; [exact (loaded_cell_Good T U id none_aff st K)|exact (first_cycle_identities T U id none_aff st ch K)].
  Qed.

  (** for the correspondence stage: [parse; shape; store_okb; store_wfb; dump through the alphabet = dump of the
      master-level composition] *)
  Definition flags_of (st : store) : list Z :=
    let c1 := run (init_of st) (load_model_ops st) in
    let c2 := load_model_full T U id none_aff st in
    [dbool (ld_ok (load_pre st)); dbool (store_shape_ok id st); dbool (store_okb T U id none_aff st);
     dbool (store_wfb st); dbool (zl_eqb (dump_cell c1 ++ dump_static c1) (dump_cell c2 ++ dump_static c2))].
End Readable.
