(** C05: identities on offer and identities held never overlap, no identity is held twice. *)
From Coq Require Import ZArith QArith List Bool Lia Relations.
From RecordUpdate Require Import RecordSet.
From TM Require Import Sched.Vec Sched.Types Sched.Queue Sched.Tree Sched.Cycle Sched.Steps Sched.MapsP.
Import ListNotations.
Open Scope Z_scope.

Definition holds (a : app) (g i : Z) : Prop := a_group a = Some g /\ a_identity a = Some i.

Record Ident (c : cell) : Prop := {
  id_names : NoDup (map a_name (c_apps c));
  id_group_exists : forall n a g, get_app n (c_apps c) = Some a -> a_group a = Some g ->
                                  exists grp, aget g (c_groups c) = Some grp;
  id_avail_range : forall g grp i, aget g (c_groups c) = Some grp -> In i (g_avail grp) -> 0 <= i < g_count grp;
  id_avail_nodup : forall g grp, aget g (c_groups c) = Some grp -> NoDup (g_avail grp);
  id_disjoint : forall n a g i grp, get_app n (c_apps c) = Some a -> holds a g i ->
                                    aget g (c_groups c) = Some grp -> ~ In i (g_avail grp);
  id_unique : forall n1 n2 a1 a2 g i, get_app n1 (c_apps c) = Some a1 -> get_app n2 (c_apps c) = Some a2 ->
                                      holds a1 g i -> holds a2 g i -> n1 = n2;
  id_held_nonneg : forall n a g i, get_app n (c_apps c) = Some a -> holds a g i -> 0 <= i
}.

(** the invariant reads (name, group, identity) of instances and the groups *)
Definition app_eqi (a b : app) : Prop := a_name a = a_name b /\ a_group a = a_group b /\ a_identity a = a_identity b.

Lemma get_app_eqi l l' : Forall2 app_eqi l l' -> forall n,
  match get_app n l, get_app n l' with
  | Some a, Some b => app_eqi a b
  | None, None => True
  | _, _ => False
  end.
Proof.
  induction 1 as [|a b l l' Hab Hl IH]; intros n; cbn; [exact I|].
  destruct Hab as (H1 & H2 & H3). rewrite <- H1. destruct (Z.eqb (a_name a) n); [repeat split; assumption|apply IH].
Qed.

Lemma Ident_eqi c c' :
  c_groups c' = c_groups c -> Forall2 app_eqi (c_apps c) (c_apps c') -> Ident c -> Ident c'.
Proof.
  intros Hg Hf [I0 I1 I2 I3 I4 I5 I6].
  assert (Hnames : map a_name (c_apps c') = map a_name (c_apps c)).
  { clear -Hf. induction Hf as [|a b l l' (H & _) _ IH]; cbn; [reflexivity|]. rewrite IH, H. reflexivity. }
  assert (Hback : forall n b, get_app n (c_apps c') = Some b ->
                              exists a, get_app n (c_apps c) = Some a /\ a_group a = a_group b /\ a_identity a = a_identity b).
  { intros n b Hb. pose proof (get_app_eqi _ _ Hf n) as H. rewrite Hb in H.
    destruct (get_app n (c_apps c)) as [a|]; [|contradiction]. exists a. destruct H as (_ & H2 & H3). auto. }
  constructor; rewrite ?Hg, ?Hnames; try assumption.
  - intros n b g Hb Hgb. destruct (Hback _ _ Hb) as (a & Ha & H2 & _). eapply I1; [exact Ha|rewrite H2; exact Hgb].
  - intros n b g i grp Hb [Hh1 Hh2] Hgr. destruct (Hback _ _ Hb) as (a & Ha & H2 & H3).
    eapply I4; [exact Ha|split; [rewrite H2; exact Hh1|rewrite H3; exact Hh2]|exact Hgr].
  - intros n1 n2 b1 b2 g i Hb1 Hb2 [Hh1 Hh2] [Hk1 Hk2].
    destruct (Hback _ _ Hb1) as (a1 & Ha1 & H12 & H13). destruct (Hback _ _ Hb2) as (a2 & Ha2 & H22 & H23).
    eapply I5; [exact Ha1|exact Ha2|split; [rewrite H12; exact Hh1|rewrite H13; exact Hh2]|split; [rewrite H22; exact Hk1|rewrite H23; exact Hk2]].
  - intros n b g i Hb [Hh1 Hh2]. destruct (Hback _ _ Hb) as (a & Ha & H2 & H3).
    eapply I6; [exact Ha|split; [rewrite H2; exact Hh1|rewrite H3; exact Hh2]].
Qed.

Lemma Forall2_eqi_refl l : Forall2 app_eqi l l.
Proof. induction l; constructor; [repeat split|assumption]. Qed.
Lemma Forall2_eqi_upd n f l : (forall x, app_eqi x (f x)) -> Forall2 app_eqi l (upd_app n f l).
Proof.
  intros Hf. induction l as [|x t IH]; cbn; [constructor|].
  destruct (Z.eqb (a_name x) n); constructor; [apply Hf|apply Forall2_eqi_refl|repeat split|exact IH].
Qed.
Lemma Ident_upd_app_eqi c n f : (forall x, app_eqi x (f x)) -> Ident c -> Ident (c_upd_app n f c).
Proof. intros Hf. apply Ident_eqi; [reflexivity|apply Forall2_eqi_upd; exact Hf]. Qed.
Lemma Ident_same_core c c' : same_core c c' -> Ident c -> Ident c'.
Proof. intros (_ & _ & _ & H4 & _ & H6 & _). apply Ident_eqi; [exact H6|rewrite H4; apply Forall2_eqi_refl]. Qed.

Lemma Ident_prim_put c sn an a l : Ident c -> Ident (prim_put c sn an a l).
Proof.
  unfold prim_put. intros H. apply Ident_upd_app_eqi; [intros x; destruct (a_expiry x); repeat split|].
  revert H. apply Ident_eqi; [reflexivity|apply Forall2_eqi_refl].
Qed.
Lemma Ident_prim_remove c sn an a : Ident c -> Ident (prim_remove c sn an a).
Proof.
  unfold prim_remove. intros H. apply Ident_upd_app_eqi; [intros x; repeat split|].
  revert H. apply Ident_eqi; [reflexivity|apply Forall2_eqi_refl].
Qed.

(** ** zadd_set / zremove on NoDup lists *)
Lemma zadd_set_In x y l : In y (zadd_set x l) <-> y = x \/ In y l.
Proof.
  unfold zadd_set. destruct (zmem x l) eqn:E.
  - apply zmem_In in E. split; [tauto|]. intros [->|H]; assumption.
  - rewrite in_app_iff. cbn. split; [intros [H|[H|[]]]; auto|intros [H|H]; auto].
Qed.
Lemma zadd_set_NoDup x l : NoDup l -> NoDup (zadd_set x l).
Proof.
  unfold zadd_set. destruct (zmem x l) eqn:E; [tauto|]. apply zmem_false in E. intros H. apply NoDup_snoc; assumption.
Qed.
Lemma zremove_In_iff x y l : NoDup l -> (In y (zremove x l) <-> y <> x /\ In y l).
Proof.
  intros Hn. split.
  - intros H. split; [intros ->; eapply zremove_not_in; eassumption|eapply zremove_In; exact H].
  - intros [H1 H2]. apply zremove_keep; assumption.
Qed.

(** ** aget / aset *)
Lemma aget_aset_same {A} k (v : A) m : aget k (aset k v m) = Some v.
Proof.
  induction m as [|[k' w] r IH]; cbn; [rewrite Z.eqb_refl; reflexivity|].
  destruct (Z.eqb k' k) eqn:E; cbn; rewrite E; auto.
Qed.
Lemma aget_aset_other {A} k k2 (v : A) m : k2 <> k -> aget k2 (aset k v m) = aget k2 m.
Proof.
  intros Hne. induction m as [|[k' w] r IH]; cbn.
  - destruct (Z.eqb_spec k k2); [congruence|reflexivity].
  - destruct (Z.eqb_spec k' k); cbn.
    + subst. destruct (Z.eqb_spec k k2); [congruence|reflexivity].
    + destruct (Z.eqb k' k2); auto.
Qed.

(** ** release *)
Lemma Ident_release c an : Ident c -> Ident (release_identity c an).
Proof.
  intros HI. unfold release_identity.
  destruct (get_app an (c_apps c)) as [a|] eqn:Ea; [|exact HI].
  destruct (group_of c a) as [[g grp]|] eqn:Eg; [|exact HI].
  destruct (a_identity a) as [i|] eqn:Ei; [|exact HI].
  unfold group_of in Eg. destruct (a_group a) as [g0|] eqn:Egr; [|discriminate].
  destruct (aget g0 (c_groups c)) as [grp0|] eqn:Egg; [|discriminate]. inversion Eg; subst g0 grp0. clear Eg.
  destruct HI as [I0 I1 I2 I3 I4 I5 I6].
  assert (Hi0 : 0 <= i) by (eapply I6; [exact Ea|split; [exact Egr|exact Ei]]).
  set (grp' := if Z.ltb i (g_count grp) then mkGroup (g_count grp) (zadd_set i (g_avail grp)) else grp).
  set (fa := fun x : app => x <| a_identity := None |>).
  assert (Hfa : forall x, a_name (fa x) = a_name x) by reflexivity.
  assert (Hav : forall j, In j (g_avail grp') -> j = i \/ In j (g_avail grp)).
  { intros j Hj. subst grp'. destruct (Z.ltb i (g_count grp)); cbn in Hj; [apply zadd_set_In in Hj; exact Hj|right; exact Hj]. }
  assert (Hcnt : g_count grp' = g_count grp) by (subst grp'; destruct (Z.ltb i (g_count grp)); reflexivity).
  (* lookup of an instance after the update *)
  assert (Hget : forall n b, get_app n (upd_app an fa (c_apps c)) = Some b ->
                             (n = an /\ b = fa a) \/ (n <> an /\ get_app n (c_apps c) = Some b)).
  { intros n b Hb. destruct (Z.eq_dec n an) as [->|Hne].
    - rewrite (get_upd_app_same _ _ _ _ Hfa Ea) in Hb. inversion Hb. left; auto.
    - rewrite get_upd_app_other in Hb by assumption. right; auto. }
  constructor; cbn [c_upd_app c_apps c_groups set].
  - rewrite upd_app_names by exact Hfa. exact I0.
  - intros n b g1 Hb Hgb.
    destruct (Z.eq_dec g1 g) as [->|Hg]; [exists grp'; apply aget_aset_same|].
    rewrite aget_aset_other by assumption.
    destruct (Hget _ _ Hb) as [[-> ->]|[Hne Hb']]; [eapply I1; [exact Ea|exact Hgb]|eapply I1; eassumption].
  - intros g1 grp1 j Hg1 Hj. destruct (Z.eq_dec g1 g) as [->|Hg].
    + rewrite aget_aset_same in Hg1. inversion Hg1; subst grp1. rewrite Hcnt.
      destruct (Hav j Hj) as [->|Hj'].
      * subst grp'. destruct (Z.ltb_spec i (g_count grp)); [lia|]. cbn in Hj. exact (I2 _ _ _ Egg Hj).
      * exact (I2 _ _ _ Egg Hj').
    + rewrite aget_aset_other in Hg1 by assumption. eapply I2; eassumption.
  - intros g1 grp1 Hg1. destruct (Z.eq_dec g1 g) as [->|Hg].
    + rewrite aget_aset_same in Hg1. inversion Hg1; subst grp1. subst grp'.
      destruct (Z.ltb i (g_count grp)); cbn; [apply zadd_set_NoDup|]; eapply I3; exact Egg.
    + rewrite aget_aset_other in Hg1 by assumption. eapply I3; exact Hg1.
  - intros n b g1 j grp1 Hb [Hh1 Hh2] Hg1 Hin.
    destruct (Hget _ _ Hb) as [[-> ->]|[Hne Hb']]; [cbn in Hh2; discriminate|].
    destruct (Z.eq_dec g1 g) as [->|Hg].
    + rewrite aget_aset_same in Hg1. inversion Hg1; subst grp1.
      destruct (Hav j Hin) as [->|Hj'].
      * (* b would hold the identity a held *)
        apply Hne. eapply I5; [exact Hb'|exact Ea|split; [exact Hh1|exact Hh2]|split; [exact Egr|exact Ei]].
      * eapply I4; [exact Hb'|split; eassumption|exact Egg|exact Hj'].
    + rewrite aget_aset_other in Hg1 by assumption. eapply I4; [exact Hb'|split; eassumption|exact Hg1|exact Hin].
  - intros n1 n2 b1 b2 g1 j Hb1 Hb2 [Hh1 Hh2] [Hk1 Hk2].
    destruct (Hget _ _ Hb1) as [[-> ->]|[Hne1 Hb1']]; [cbn in Hh2; discriminate|].
    destruct (Hget _ _ Hb2) as [[-> ->]|[Hne2 Hb2']]; [cbn in Hk2; discriminate|].
    eapply I5; [exact Hb1'|exact Hb2'|split; eassumption|split; eassumption].
  - intros n b g1 j Hb [Hh1 Hh2].
    destruct (Hget _ _ Hb) as [[-> ->]|[Hne Hb']]; [cbn in Hh2; discriminate|].
    eapply I6; [exact Hb'|split; eassumption].
Qed.

(** ** acquire *)
Lemma Ident_acquire c an ch : Ident c -> Ident (fst (acquire_identity c an ch)).
Proof.
  intros HI. unfold acquire_identity.
  destruct (get_app an (c_apps c)) as [a|] eqn:Ea; [|exact HI].
  destruct (group_of c a) as [[g grp]|] eqn:Eg; [|exact HI].
  destruct (a_identity a) as [i0|] eqn:Ei; [exact HI|].
  destruct (g_avail grp) as [|first rest] eqn:Eav; [exact HI|]. cbn [fst].
  unfold group_of in Eg. destruct (a_group a) as [g0|] eqn:Egr; [|discriminate].
  destruct (aget g0 (c_groups c)) as [grp0|] eqn:Egg; [|discriminate]. inversion Eg; subst g0 grp0. clear Eg.
  destruct HI as [I0 I1 I2 I3 I4 I5 I6].
  set (i := match ch with Some ch0 => if zmem ch0 (first :: rest) then ch0 else first | None => first end).
  assert (Hin : In i (g_avail grp)).
  { rewrite Eav. subst i. destruct ch as [ch0|]; [|left; reflexivity].
    destruct (zmem ch0 (first :: rest)) eqn:Em; [apply zmem_In in Em; exact Em|left; reflexivity]. }
  rewrite <- Eav. fold i.
  set (grp' := mkGroup (g_count grp) (zremove i (g_avail grp))).
  set (fa := fun x : app => x <| a_identity := Some i |>).
  assert (Hfa : forall x, a_name (fa x) = a_name x) by reflexivity.
  pose proof (I3 _ _ Egg) as Hnd.
  assert (Hget : forall n b, get_app n (upd_app an fa (c_apps c)) = Some b ->
                             (n = an /\ b = fa a) \/ (n <> an /\ get_app n (c_apps c) = Some b)).
  { intros n b Hb. destruct (Z.eq_dec n an) as [->|Hne].
    - rewrite (get_upd_app_same _ _ _ _ Hfa Ea) in Hb. inversion Hb. left; auto.
    - rewrite get_upd_app_other in Hb by assumption. right; auto. }
  constructor; cbn [c_upd_app c_apps c_groups set].
  - rewrite upd_app_names by exact Hfa. exact I0.
  - intros n b g1 Hb Hgb.
    destruct (Z.eq_dec g1 g) as [->|Hg]; [exists grp'; apply aget_aset_same|].
    rewrite aget_aset_other by assumption.
    destruct (Hget _ _ Hb) as [[-> ->]|[Hne Hb']]; [eapply I1; [exact Ea|exact Hgb]|eapply I1; eassumption].
  - intros g1 grp1 j Hg1 Hj. destruct (Z.eq_dec g1 g) as [->|Hg].
    + rewrite aget_aset_same in Hg1. inversion Hg1; subst grp1. cbn in *. apply zremove_In in Hj. eapply I2; eassumption.
    + rewrite aget_aset_other in Hg1 by assumption. eapply I2; eassumption.
  - intros g1 grp1 Hg1. destruct (Z.eq_dec g1 g) as [->|Hg].
    + rewrite aget_aset_same in Hg1. inversion Hg1; subst grp1. cbn. apply zremove_NoDup. exact Hnd.
    + rewrite aget_aset_other in Hg1 by assumption. eapply I3; exact Hg1.
  - intros n b g1 j grp1 Hb [Hh1 Hh2] Hg1 Hj.
    destruct (Hget _ _ Hb) as [[-> ->]|[Hne Hb']].
    + cbn in Hh1, Hh2. rewrite Egr in Hh1. inversion Hh1; subst g1. inversion Hh2; subst j.
      rewrite aget_aset_same in Hg1. inversion Hg1; subst grp1. cbn in Hj. eapply zremove_not_in; eassumption.
    + destruct (Z.eq_dec g1 g) as [->|Hg].
      * rewrite aget_aset_same in Hg1. inversion Hg1; subst grp1. cbn in Hj. apply zremove_In in Hj.
        eapply I4; [exact Hb'|split; eassumption|exact Egg|exact Hj].
      * rewrite aget_aset_other in Hg1 by assumption. eapply I4; [exact Hb'|split; eassumption|exact Hg1|exact Hj].
  - intros n1 n2 b1 b2 g1 j Hb1 Hb2 [Hh1 Hh2] [Hk1 Hk2].
    destruct (Hget _ _ Hb1) as [[-> ->]|[Hne1 Hb1']]; destruct (Hget _ _ Hb2) as [[-> ->]|[Hne2 Hb2']].
    + reflexivity.
    + cbn in Hh1, Hh2. rewrite Egr in Hh1. inversion Hh1; subst g1. inversion Hh2; subst j.
      exfalso. eapply I4; [exact Hb2'|split; eassumption|exact Egg|exact Hin].
    + cbn in Hk1, Hk2. rewrite Egr in Hk1. inversion Hk1; subst g1. inversion Hk2; subst j.
      exfalso. eapply I4; [exact Hb1'|split; eassumption|exact Egg|exact Hin].
    + eapply I5; [exact Hb1'|exact Hb2'|split; eassumption|split; eassumption].
  - intros n b g1 j Hb [Hh1 Hh2].
    destruct (Hget _ _ Hb) as [[-> ->]|[Hne Hb']].
    + cbn in Hh2. inversion Hh2; subst j. apply (I2 _ _ _ Egg Hin).
    + eapply I6; [exact Hb'|split; eassumption].
Qed.

(** dropping an identity without giving it back (count shrunk below it) *)
Lemma Ident_forget c an : Ident c -> Ident (c_upd_app an (fun x => x <| a_identity := None |>) c).
Proof.
  intros [I0 I1 I2 I3 I4 I5 I6].
  set (fa := fun x : app => x <| a_identity := None |>).
  assert (Hfa : forall x, a_name (fa x) = a_name x) by reflexivity.
  assert (Hget : forall n b, get_app n (upd_app an fa (c_apps c)) = Some b ->
                             (exists a, get_app n (c_apps c) = Some a /\ b = fa a /\ n = an) \/
                             (n <> an /\ get_app n (c_apps c) = Some b)).
  { intros n b Hb. destruct (Z.eq_dec n an) as [->|Hne].
    - destruct (get_app an (c_apps c)) as [a|] eqn:Ea.
      + rewrite (get_upd_app_same _ _ _ _ Hfa Ea) in Hb. inversion Hb. left. exists a. auto.
      + rewrite (get_upd_app_none _ _ _ Ea) in Hb. congruence.
    - rewrite get_upd_app_other in Hb by assumption. right; auto. }
  constructor; cbn [c_upd_app c_apps c_groups set]; fold fa.
  - rewrite upd_app_names by exact Hfa. exact I0.
  - intros n b g Hb Hgb. destruct (Hget _ _ Hb) as [(a & Ha & -> & _)|[Hne Hb']]; [eapply I1; [exact Ha|exact Hgb]|eapply I1; eassumption].
  - exact I2.
  - exact I3.
  - intros n b g j grp Hb [Hh1 Hh2] Hg. destruct (Hget _ _ Hb) as [(a & Ha & -> & _)|[Hne Hb']]; [cbn in Hh2; discriminate|].
    eapply I4; [exact Hb'|split; eassumption|exact Hg].
  - intros n1 n2 b1 b2 g j Hb1 Hb2 [Hh1 Hh2] [Hk1 Hk2].
    destruct (Hget _ _ Hb1) as [(a1 & _ & -> & _)|[Hne1 Hb1']]; [cbn in Hh2; discriminate|].
    destruct (Hget _ _ Hb2) as [(a2 & _ & -> & _)|[Hne2 Hb2']]; [cbn in Hk2; discriminate|].
    eapply I5; [exact Hb1'|exact Hb2'|split; eassumption|split; eassumption].
  - intros n b g j Hb [Hh1 Hh2]. destruct (Hget _ _ Hb) as [(a & _ & -> & _)|[Hne Hb']]; [cbn in Hh2; discriminate|].
    eapply I6; [exact Hb'|split; eassumption].
Qed.

Lemma soft_eqi f : soft f -> forall x, app_eqi x (f x).
Proof.
  intros Hf x. destruct (Hf x) as (H1 & _ & _ & _ & _ & _ & _ & _ & H9 & _ & _ & _ & _ & H14 & _).
  repeat split; congruence.
Qed.

Theorem Ident_pstep c c' : pstep c c' -> Ident c -> Ident c'.
Proof.
  intros Hs. destruct Hs.
  - apply Ident_same_core; assumption.
  - apply Ident_prim_put.
  - apply Ident_prim_remove.
  - apply Ident_upd_app_eqi. apply soft_eqi. assumption.
  - apply Ident_upd_app_eqi. intros x. repeat split.
  - apply Ident_release.
  - apply Ident_acquire.
  - apply Ident_forget.
Qed.
Theorem Ident_psteps c c' : psteps c c' -> Ident c -> Ident c'.
Proof. induction 1; [apply Ident_pstep; assumption|tauto|tauto]. Qed.
Theorem Ident_schedule c ch : Ident c -> Ident (fst (fst (schedule c ch))).
Proof. apply Ident_psteps. apply schedule_ps. Qed.

(** ** the events between cycles *)
From TM Require Import Sched.Events Sched.InvAcct.

Lemma Ident_ext c c' : c_groups c' = c_groups c -> c_apps c' = c_apps c -> Ident c -> Ident c'.
Proof. intros H1 H2. apply Ident_eqi; [exact H1|rewrite H2; apply Forall2_eqi_refl]. Qed.

Lemma zrange_In lo hi x : In x (zrange lo hi) <-> lo <= x < hi.
Proof.
  unfold zrange. rewrite in_map_iff. split.
  - intros (k & <- & Hk). apply in_seq in Hk. lia.
  - intros H. exists (Z.to_nat (x - lo)). split; [lia|]. apply in_seq. lia.
Qed.
Lemma zrange_NoDup lo hi : NoDup (zrange lo hi).
Proof.
  unfold zrange. apply FinFun.Injective_map_NoDup; [intros a b H; lia|apply seq_NoDup].
Qed.
Lemma filter_NoDup {A} (f : A -> bool) l : NoDup l -> NoDup (filter f l).
Proof.
  induction 1 as [|x t Hn Hd IH]; cbn; [constructor|]. destruct (f x); [constructor; [|exact IH]|exact IH].
  intros H. apply Hn. apply filter_In in H. tauto.
Qed.
Lemma sym_diff_In a b x : In x (sym_diff a b) -> In x a \/ In x b.
Proof. unfold sym_diff. rewrite in_app_iff, !filter_In. tauto. Qed.
Lemma sym_diff_NoDup a b : NoDup a -> NoDup b -> NoDup (sym_diff a b).
Proof.
  intros Ha Hb. unfold sym_diff.
  assert (H2 : NoDup (filter (fun x => negb (zmem x a)) b)) by (apply filter_NoDup; exact Hb).
  assert (G : forall l, NoDup l -> (forall x, In x l -> In x a) -> NoDup (l ++ filter (fun x => negb (zmem x a)) b)).
  { induction 1 as [|y t Hn Hd IH]; intros Hsub; cbn; [exact H2|].
    constructor; [|apply IH; intros x Hx; apply Hsub; right; exact Hx].
    intros Hin. apply in_app_or in Hin as [Hin|Hin]; [contradiction|].
    apply filter_In in Hin as [_ Hin]. apply negb_true_iff in Hin. apply zmem_false in Hin. apply Hin. apply Hsub. left. reflexivity. }
  apply G; [apply filter_NoDup; exact Ha|]. intros x Hx. apply filter_In in Hx. tauto.
Qed.

Lemma group_adjust_spec grp count :
  (forall i, In i (g_avail grp) -> 0 <= i < g_count grp) -> NoDup (g_avail grp) -> 0 <= g_count grp ->
  g_count (group_adjust grp count) = count /\
  NoDup (g_avail (group_adjust grp count)) /\
  (forall i, In i (g_avail (group_adjust grp count)) -> 0 <= i < count).
Proof.
  intros Hr Hn Hc. unfold group_adjust. destruct (Z.geb_spec count (g_count grp)); cbn.
  - split; [reflexivity|]. split; [apply sym_diff_NoDup; [exact Hn|apply zrange_NoDup]|].
    intros i Hi. apply sym_diff_In in Hi as [Hi|Hi]; [specialize (Hr i Hi); lia|apply zrange_In in Hi; lia].
  - split; [reflexivity|]. split; [apply filter_NoDup; exact Hn|].
    intros i Hi. apply filter_In in Hi as [Hi Hf]. specialize (Hr i Hi).
    apply negb_true_iff in Hf. apply andb_false_iff in Hf as [Hf|Hf]; [apply Z.leb_gt in Hf; lia|apply Z.ltb_ge in Hf; lia].
Qed.

Definition held_of (c : cell) (g : Z) : list Z :=
  flat_map (fun a => match a_group a, a_identity a with
                     | Some g', Some i => if Z.eqb g' g then [i] else []
                     | _, _ => []
                     end) (c_apps c).
Lemma held_of_In c g n a i : get_app n (c_apps c) = Some a -> holds a g i -> In i (held_of c g).
Proof.
  intros Ha [H1 H2]. unfold held_of. apply in_flat_map. exists a. split; [eapply get_app_In; exact Ha|].
  rewrite H1, H2, Z.eqb_refl. left. reflexivity.
Qed.

Record GroupsOk (c : cell) : Prop := {
  go_count : forall g grp, aget g (c_groups c) = Some grp -> 0 <= g_count grp;
  go_keys : NoDup (map fst (c_groups c))
}.

Lemma Ident_config_group c g count : 0 <= count -> GroupsOk c -> Ident c -> Ident (config_group c g count).
Proof.
  intros Hc0 [Hgo _] [I0 I1 I2 I3 I4 I5 I6]. unfold config_group.
  destruct (aget g (c_groups c)) as [grp|] eqn:Eg.
  - destruct (group_adjust_spec grp count (fun i => I2 g grp i Eg) (I3 _ _ Eg) (Hgo _ _ Eg)) as (Hcnt & Hnd & Hrg).
    fold (held_of c g).
    set (grp' := mkGroup (g_count (group_adjust grp count))
                         (filter (fun i => negb (zmem i (held_of c g))) (g_avail (group_adjust grp count)))).
    constructor; cbn [c_apps c_groups set]; try assumption.
    + intros n a g1 Ha Hg1. destruct (Z.eq_dec g1 g) as [->|Hne]; [exists grp'; apply aget_aset_same|].
      rewrite aget_aset_other by assumption. eapply I1; eassumption.
    + intros g1 grp1 i Hg1 Hi. destruct (Z.eq_dec g1 g) as [->|Hne].
      * rewrite aget_aset_same in Hg1. inversion Hg1; subst grp1. cbn in *. apply filter_In in Hi as [Hi _].
        rewrite Hcnt. apply Hrg. exact Hi.
      * rewrite aget_aset_other in Hg1 by assumption. eapply I2; eassumption.
    + intros g1 grp1 Hg1. destruct (Z.eq_dec g1 g) as [->|Hne].
      * rewrite aget_aset_same in Hg1. inversion Hg1; subst grp1. cbn. apply filter_NoDup. exact Hnd.
      * rewrite aget_aset_other in Hg1 by assumption. eapply I3; eassumption.
    + intros n a g1 i grp1 Ha Hh Hg1 Hi. destruct (Z.eq_dec g1 g) as [->|Hne].
      * rewrite aget_aset_same in Hg1. inversion Hg1; subst grp1. cbn in Hi. apply filter_In in Hi as [_ Hf].
        apply negb_true_iff in Hf. apply zmem_false in Hf. apply Hf. eapply held_of_In; eassumption.
      * rewrite aget_aset_other in Hg1 by assumption. eapply I4; eassumption.
  - constructor; cbn [c_apps c_groups set]; try assumption.
    + intros n a g1 Ha Hg1. destruct (Z.eq_dec g1 g) as [->|Hne]; [eexists; apply aget_aset_same|].
      rewrite aget_aset_other by assumption. eapply I1; eassumption.
    + intros g1 grp1 i Hg1 Hi. destruct (Z.eq_dec g1 g) as [->|Hne].
      * rewrite aget_aset_same in Hg1. inversion Hg1; subst grp1. cbn in *. apply zrange_In in Hi. lia.
      * rewrite aget_aset_other in Hg1 by assumption. eapply I2; eassumption.
    + intros g1 grp1 Hg1. destruct (Z.eq_dec g1 g) as [->|Hne].
      * rewrite aget_aset_same in Hg1. inversion Hg1; subst grp1. cbn. apply zrange_NoDup.
      * rewrite aget_aset_other in Hg1 by assumption. eapply I3; eassumption.
    + intros n a g1 i grp1 Ha [Hh1 Hh2] Hg1 Hi. destruct (Z.eq_dec g1 g) as [->|Hne].
      * (* an instance of a group that did not exist: impossible *)
        destruct (I1 _ _ _ Ha Hh1) as (grp0 & Hg0). congruence.
      * rewrite aget_aset_other in Hg1 by assumption. eapply I4; [exact Ha|split; eassumption|exact Hg1|exact Hi].
Qed.

(** group counts stay non-negative, group names unique *)
Lemma aset_keys {A} k (v : A) m : map fst (aset k v m) = if existsb (fun kv => Z.eqb (fst kv) k) m then map fst m else map fst m ++ [k].
Proof.
  induction m as [|[k' w] r IH]; cbn; [reflexivity|]. destruct (Z.eqb k' k) eqn:E; cbn; [reflexivity|].
  rewrite IH. destruct (existsb _ r); reflexivity.
Qed.
Lemma aset_keys_NoDup {A} k (v : A) m : NoDup (map fst m) -> NoDup (map fst (aset k v m)).
Proof.
  intros H. rewrite aset_keys. destruct (existsb _ m) eqn:E; [exact H|]. apply NoDup_snoc; [exact H|].
  intros Hin. apply in_map_iff in Hin as ([k' w] & Hk & Hin). cbn in Hk. subst k'.
  assert (X : existsb (fun kv : Z * A => Z.eqb (fst kv) k) m = true)
    by (apply existsb_exists; exists (k, w); split; [exact Hin|cbn; apply Z.eqb_refl]).
  congruence.
Qed.
Lemma aget_adel {A} k k2 (m : list (Z * A)) : NoDup (map fst m) ->
  aget k2 (adel k m) = if Z.eqb k2 k then None else aget k2 m.
Proof.
  induction m as [|[k' w] r IH]; cbn; intros Hn; [destruct (Z.eqb k2 k); reflexivity|].
  inversion Hn as [|? ? Hni Hnr]; subst. destruct (Z.eqb_spec k' k) as [->|Hne].
  - destruct (Z.eqb_spec k2 k) as [->|Hne2].
    + clear -Hni. induction r as [|[k3 w3] t IHt]; cbn; [reflexivity|].
      destruct (Z.eqb_spec k3 k); [subst; exfalso; apply Hni; left; reflexivity|].
      apply IHt. intros H. apply Hni. right. exact H.
    + destruct (Z.eqb_spec k k2); [congruence|reflexivity].
  - cbn. destruct (Z.eqb_spec k' k2) as [->|Hne3].
    + destruct (Z.eqb_spec k2 k); [congruence|reflexivity].
    + apply IH. exact Hnr.
Qed.
Lemma adel_keys_NoDup {A} k (m : list (Z * A)) : NoDup (map fst m) -> NoDup (map fst (adel k m)).
Proof.
  induction m as [|[k' w] r IH]; cbn; intros Hn; [constructor|]. inversion Hn as [|? ? Hni Hnr]; subst.
  destruct (Z.eqb k' k); [exact Hnr|]. cbn. constructor; [|apply IH; exact Hnr].
  intros Hin. apply Hni. clear -Hin. induction r as [|[k3 w3] t IHt]; cbn in *; [exact Hin|].
  destruct (Z.eqb k3 k); [right; exact Hin|]. destruct Hin as [H|H]; [left; exact H|right; apply IHt; exact H].
Qed.

Lemma GroupsOk_ext c c' : c_groups c' = c_groups c -> GroupsOk c -> GroupsOk c'.
Proof. intros H [G K]. constructor; rewrite H; assumption. Qed.
Lemma GroupsOk_aset c c' g grp' :
  c_groups c' = aset g grp' (c_groups c) -> 0 <= g_count grp' -> GroupsOk c -> GroupsOk c'.
Proof.
  intros H Hc [G K]. constructor; rewrite H; [|apply aset_keys_NoDup; exact K].
  intros g1 grp1 H1. destruct (Z.eq_dec g1 g) as [->|Hne].
  - rewrite aget_aset_same in H1. inversion H1; subst. exact Hc.
  - rewrite aget_aset_other in H1 by assumption. eapply G; exact H1.
Qed.
Lemma GroupsOk_release c an : GroupsOk c -> GroupsOk (release_identity c an).
Proof.
  intros HG. unfold release_identity. destruct (get_app an (c_apps c)) as [a|]; [|exact HG].
  destruct (group_of c a) as [[g grp]|] eqn:Eg; [|exact HG]. destruct (a_identity a) as [i|]; [|exact HG].
  eapply GroupsOk_aset; [reflexivity| |exact HG].
  unfold group_of in Eg. destruct (a_group a); [|discriminate]. destruct (aget z (c_groups c)) eqn:E; [|discriminate].
  inversion Eg; subst. destruct (Z.ltb i (g_count grp)); cbn; eapply (go_count _ HG); exact E.
Qed.
Lemma GroupsOk_acquire c an ch : GroupsOk c -> GroupsOk (fst (acquire_identity c an ch)).
Proof.
  intros HG. unfold acquire_identity. destruct (get_app an (c_apps c)) as [a|]; [|exact HG].
  destruct (group_of c a) as [[g grp]|] eqn:Eg; [|exact HG]. destruct (a_identity a); [exact HG|].
  destruct (g_avail grp); [exact HG|]. cbn [fst].
  eapply GroupsOk_aset; [reflexivity| |exact HG]. cbn.
  unfold group_of in Eg. destruct (a_group a); [|discriminate]. destruct (aget z0 (c_groups c)) eqn:E; [|discriminate].
  inversion Eg; subst. eapply (go_count _ HG); exact E.
Qed.
Theorem GroupsOk_pstep c c' : pstep c c' -> GroupsOk c -> GroupsOk c'.
Proof.
  intros Hs. destruct Hs.
  - destruct H as (_ & _ & _ & _ & _ & H6 & _). apply GroupsOk_ext. exact H6.
  - apply GroupsOk_ext. reflexivity.
  - apply GroupsOk_ext. reflexivity.
  - apply GroupsOk_ext. reflexivity.
  - apply GroupsOk_ext. reflexivity.
  - apply GroupsOk_release.
  - apply GroupsOk_acquire.
  - apply GroupsOk_ext. reflexivity.
Qed.
Theorem GroupsOk_psteps c c' : psteps c c' -> GroupsOk c -> GroupsOk c'.
Proof. induction 1; [apply GroupsOk_pstep; assumption|tauto|tauto]. Qed.

(** ** Loader.restore_placement: the placement part leaves groups and identities alone, then the recorded identity is forced *)
Lemma srv_put_lease_eqi c sn an l c' : srv_put_lease c sn an l = Some c' ->
  c_groups c' = c_groups c /\ Forall2 app_eqi (c_apps c) (c_apps c').
Proof.
  unfold srv_put_lease. destruct (get_srv sn (c_servers c)) as [s|]; [|discriminate].
  destruct (get_app an (c_apps c)) as [a|]; [|discriminate]. destruct (put_guard c s a l); [|discriminate].
  intros H. inversion H; subst c'. clear H.
  pose proof (same_core_trans _ _ _ (bump_from_sc (prim_put c sn an a l) (s_parent s) [(a_aff a, 1)] 1)
                (adjust_down_from_sc _ (s_parent s) (Some (s_free s)))) as (_ & _ & _ & H4 & _ & H6 & _).
  rewrite H4, H6. unfold prim_put. cbn [c_upd_app c_upd_srv c_apps c_groups set]. split; [reflexivity|].
  apply Forall2_eqi_upd. intros x. destruct (a_expiry x); repeat split.
Qed.
Lemma Forall2_eqi_trans l1 l2 l3 : Forall2 app_eqi l1 l2 -> Forall2 app_eqi l2 l3 -> Forall2 app_eqi l1 l3.
Proof.
  intros H. revert l3. induction H as [|a b l l' Hab _ IH]; intros l3 H3; inversion H3; subst; constructor.
  - destruct Hab as (A1 & A2 & A3). match goal with X : app_eqi b _ |- _ => destruct X as (B1 & B2 & B3) end.
    repeat split; congruence.
  - apply IH. assumption.
Qed.
Lemma restore_put_eqi c sn an vb ex :
  c_groups (fst (restore_put c sn an vb ex)) = c_groups c /\ Forall2 app_eqi (c_apps c) (c_apps (fst (restore_put c sn an vb ex))).
Proof.
  unfold restore_put. destruct vb.
  - unfold srv_restore. destruct (get_app an (c_apps c)) as [a|]; [|split; [reflexivity|apply Forall2_eqi_refl]].
    destruct (srv_put_lease c sn an 0) as [c'|] eqn:E; cbn [fst c_upd_app c_apps c_groups set].
    + destruct (srv_put_lease_eqi _ _ _ _ _ E) as [Hg Hf]. split; [exact Hg|].
      eapply Forall2_eqi_trans; [exact Hf|]. apply Forall2_eqi_upd. intros x; repeat split.
    + split; [reflexivity|]. apply Forall2_eqi_upd. intros x; repeat split.
  - destruct (get_app an (c_apps c)) as [a|]; [|split; [reflexivity|apply Forall2_eqi_refl]].
    destruct (a_once a); [split; [reflexivity|apply Forall2_eqi_refl]|].
    unfold srv_put. destruct (get_app an (c_apps c)) as [a2|]; [|split; [reflexivity|apply Forall2_eqi_refl]].
    destruct (srv_put_lease c sn an (a_lease a2)) as [c'|] eqn:E; cbn [fst]; [|split; [reflexivity|apply Forall2_eqi_refl]].
    exact (srv_put_lease_eqi _ _ _ _ _ E).
Qed.

Definition force_ok (c : cell) (an i : Z) : Prop :=
  forall a, get_app an (c_apps c) = Some a ->
    0 <= i /\ exists g, a_group a = Some g /\
      forall n2 b, n2 <> an -> get_app n2 (c_apps c) = Some b -> ~ holds b g i.

Lemma force_ok_eqi c c' an i : Forall2 app_eqi (c_apps c) (c_apps c') -> force_ok c an i -> force_ok c' an i.
Proof.
  intros Hf H a' Ha'. pose proof (get_app_eqi _ _ Hf an) as Hq. rewrite Ha' in Hq.
  destruct (get_app an (c_apps c)) as [a|] eqn:Ea; [|contradiction]. destruct Hq as (_ & Q2 & _).
  destruct (H a Ea) as (H0 & g & Hg & Hoth). split; [exact H0|]. exists g. split; [congruence|].
  intros n2 b' Hne Hb' [Hh1 Hh2]. pose proof (get_app_eqi _ _ Hf n2) as Hq2. rewrite Hb' in Hq2.
  destruct (get_app n2 (c_apps c)) as [b|] eqn:Eb; [|contradiction]. destruct Hq2 as (_ & R2 & R3).
  apply (Hoth n2 b Hne Eb). split; congruence.
Qed.

Lemma Ident_force c an i : force_ok c an i -> Ident c -> Ident (force_identity c an (Some i)).
Proof.
  intros Hok HI. unfold force_identity.
  destruct (get_app an (c_apps c)) as [a|] eqn:Ea; [|exact HI].
  destruct (group_of c a) as [[g grp]|] eqn:Eg; [|exact HI].
  unfold group_of in Eg. destruct (a_group a) as [g0|] eqn:Egr; [|discriminate].
  destruct (aget g0 (c_groups c)) as [grp0|] eqn:Egg; [|discriminate]. inversion Eg; subst g0 grp0. clear Eg.
  destruct (Hok a Ea) as (Hi0 & g' & Hg' & Hoth). rewrite Egr in Hg'. inversion Hg'; subst g'. clear Hg'.
  destruct HI as [I0 I1 I2 I3 I4 I5 I6].
  set (grp' := mkGroup (g_count grp) (zremove i (g_avail grp))).
  set (fa := fun x : app => x <| a_identity := Some i |>).
  assert (Hfa : forall x, a_name (fa x) = a_name x) by reflexivity.
  pose proof (I3 _ _ Egg) as Hnd.
  assert (Hget : forall n b, get_app n (upd_app an fa (c_apps c)) = Some b ->
                             (n = an /\ b = fa a) \/ (n <> an /\ get_app n (c_apps c) = Some b)).
  { intros n b Hb. destruct (Z.eq_dec n an) as [->|Hne].
    - rewrite (get_upd_app_same _ _ _ _ Hfa Ea) in Hb. inversion Hb. left; auto.
    - rewrite get_upd_app_other in Hb by assumption. right; auto. }
  constructor; cbn [c_upd_app c_apps c_groups set].
  - rewrite upd_app_names by exact Hfa. exact I0.
  - intros n b g1 Hb Hgb.
    destruct (Z.eq_dec g1 g) as [->|Hg]; [exists grp'; apply aget_aset_same|].
    rewrite aget_aset_other by assumption.
    destruct (Hget _ _ Hb) as [[-> ->]|[Hne Hb']]; [eapply I1; [exact Ea|exact Hgb]|eapply I1; eassumption].
  - intros g1 grp1 j Hg1 Hj. destruct (Z.eq_dec g1 g) as [->|Hg].
    + rewrite aget_aset_same in Hg1. inversion Hg1; subst grp1. cbn in *. apply zremove_In in Hj. eapply I2; eassumption.
    + rewrite aget_aset_other in Hg1 by assumption. eapply I2; eassumption.
  - intros g1 grp1 Hg1. destruct (Z.eq_dec g1 g) as [->|Hg].
    + rewrite aget_aset_same in Hg1. inversion Hg1; subst grp1. cbn. apply zremove_NoDup. exact Hnd.
    + rewrite aget_aset_other in Hg1 by assumption. eapply I3; exact Hg1.
  - intros n b g1 j grp1 Hb [Hh1 Hh2] Hg1 Hj.
    destruct (Hget _ _ Hb) as [[-> ->]|[Hne Hb']].
    + cbn in Hh1, Hh2. rewrite Egr in Hh1. inversion Hh1; subst g1. inversion Hh2; subst j.
      rewrite aget_aset_same in Hg1. inversion Hg1; subst grp1. cbn in Hj. eapply zremove_not_in; eassumption.
    + destruct (Z.eq_dec g1 g) as [->|Hg].
      * rewrite aget_aset_same in Hg1. inversion Hg1; subst grp1. cbn in Hj. apply zremove_In in Hj.
        eapply I4; [exact Hb'|split; eassumption|exact Egg|exact Hj].
      * rewrite aget_aset_other in Hg1 by assumption. eapply I4; [exact Hb'|split; eassumption|exact Hg1|exact Hj].
  - intros n1 n2 b1 b2 g1 j Hb1 Hb2 [Hh1 Hh2] [Hk1 Hk2].
    destruct (Hget _ _ Hb1) as [[-> ->]|[Hne1 Hb1']]; destruct (Hget _ _ Hb2) as [[-> ->]|[Hne2 Hb2']].
    + reflexivity.
    + cbn in Hh1, Hh2. rewrite Egr in Hh1. inversion Hh1; subst g1. inversion Hh2; subst j.
      exfalso. apply (Hoth n2 b2 Hne2 Hb2'). split; assumption.
    + cbn in Hk1, Hk2. rewrite Egr in Hk1. inversion Hk1; subst g1. inversion Hk2; subst j.
      exfalso. apply (Hoth n1 b1 Hne1 Hb1'). split; assumption.
    + eapply I5; [exact Hb1'|exact Hb2'|split; eassumption|split; eassumption].
  - intros n b g1 j Hb [Hh1 Hh2].
    destruct (Hget _ _ Hb) as [[-> ->]|[Hne Hb']].
    + cbn in Hh2. inversion Hh2; subst j. exact Hi0.
    + eapply I6; [exact Hb'|split; eassumption].
Qed.
Lemma GroupsOk_force c an i : GroupsOk c -> GroupsOk (force_identity c an i).
Proof.
  intros HG. unfold force_identity. destruct i as [i|]; [|exact HG]. destruct (get_app an (c_apps c)) as [a|]; [|exact HG].
  destruct (group_of c a) as [[g grp]|] eqn:Eg; [|exact HG].
  eapply GroupsOk_aset; [reflexivity| |exact HG]. cbn.
  unfold group_of in Eg. destruct (a_group a); [|discriminate]. destruct (aget z (c_groups c)) eqn:E; [|discriminate].
  inversion Eg; subst. eapply (go_count _ HG); exact E.
Qed.

(** ** step and run *)
Definition wf_op_id (c : cell) (o : op) : Prop :=
  match o with
  | ORestore sname aname verbatim expires ident =>
      (* a recorded identity is one nobody else of the group holds (the store recorded a state of this invariant) *)
      match ident with
      | Some i => force_ok c aname i
      | None => forall a, get_app aname (c_apps c) = Some a -> a_group a = None \/ a_identity a <> None
      end
  | OAddApp label path a => get_app (a_name a) (c_apps c) = None -> a_identity a = None
  | OConfigGroup g count => 0 <= count
  | _ => True
  end.

Lemma Ident_ensure_group c g : Ident c -> Ident (ensure_group c g).
Proof.
  unfold ensure_group. destruct g as [n|]; [|tauto]. destruct (aget n (c_groups c)) eqn:E; [tauto|].
  intros [I0 I1 I2 I3 I4 I5 I6]. constructor; cbn [c_apps c_groups set]; try assumption.
  - intros m a g1 Ha Hg1. destruct (Z.eq_dec g1 n) as [->|Hne]; [eexists; apply aget_aset_same|].
    rewrite aget_aset_other by assumption. eapply I1; eassumption.
  - intros g1 grp1 i Hg1 Hi. destruct (Z.eq_dec g1 n) as [->|Hne].
    + rewrite aget_aset_same in Hg1. inversion Hg1; subst. destruct Hi.
    + rewrite aget_aset_other in Hg1 by assumption. eapply I2; eassumption.
  - intros g1 grp1 Hg1. destruct (Z.eq_dec g1 n) as [->|Hne].
    + rewrite aget_aset_same in Hg1. inversion Hg1; subst. constructor.
    + rewrite aget_aset_other in Hg1 by assumption. eapply I3; eassumption.
  - intros m a g1 i grp1 Ha Hh Hg1 Hi. destruct (Z.eq_dec g1 n) as [->|Hne].
    + rewrite aget_aset_same in Hg1. inversion Hg1; subst. destruct Hi.
    + rewrite aget_aset_other in Hg1 by assumption. eapply I4; eassumption.
Qed.
Lemma GroupsOk_ensure_group c g : GroupsOk c -> GroupsOk (ensure_group c g).
Proof.
  unfold ensure_group. destruct g as [n|]; [|tauto]. destruct (aget n (c_groups c)) eqn:E; [tauto|].
  intros HG. eapply GroupsOk_aset; [reflexivity|cbn; lia|exact HG].
Qed.
Lemma ensure_group_exists c g : exists grp, aget g (c_groups (ensure_group c (Some g))) = Some grp.
Proof.
  unfold ensure_group. destruct (aget g (c_groups c)) eqn:E; [eexists; exact E|]. cbn. eexists. apply aget_aset_same.
Qed.

Lemma Ident_upd_alloc c label path f : Ident c -> Ident (upd_alloc c label path f).
Proof. unfold upd_alloc, ensure_part. destruct (aget label (c_parts c)); apply Ident_ext; reflexivity. Qed.
Lemma GroupsOk_upd_alloc c label path f : GroupsOk c -> GroupsOk (upd_alloc c label path f).
Proof. unfold upd_alloc, ensure_part. destruct (aget label (c_parts c)); apply GroupsOk_ext; reflexivity. Qed.

(** a new instance without an identity whose group exists *)
Lemma Ident_add_app c a :
  get_app (a_name a) (c_apps c) = None -> a_identity a = None ->
  (forall g, a_group a = Some g -> exists grp, aget g (c_groups c) = Some grp) ->
  Ident c -> Ident (c <| c_apps ::= (fun l => l ++ [a]) |>).
Proof.
  intros Hn Hid Hgr [I0 I1 I2 I3 I4 I5 I6].
  assert (Hget : forall n b, get_app n (c_apps c ++ [a]) = Some b ->
                             get_app n (c_apps c) = Some b \/ (b = a /\ n = a_name a)).
  { intros n b Hb. rewrite get_app_snoc in Hb. destruct (get_app n (c_apps c)); [left; exact Hb|].
    destruct (Z.eqb_spec (a_name a) n); inversion Hb; subst. right; auto. }
  constructor; cbn [c_apps c_groups set]; try assumption.
  - apply NoDup_map_snoc; [exact I0|apply get_app_none_notin; exact Hn].
  - intros n b g Hb Hg. destruct (Hget _ _ Hb) as [Hb'|[-> _]]; [eapply I1; eassumption|apply Hgr; exact Hg].
  - intros n b g i grp Hb [Hh1 Hh2] Hg. destruct (Hget _ _ Hb) as [Hb'|[-> _]]; [|congruence].
    eapply I4; [exact Hb'|split; eassumption|exact Hg].
  - intros n1 n2 b1 b2 g i Hb1 Hb2 [Hh1 Hh2] [Hk1 Hk2].
    destruct (Hget _ _ Hb1) as [Hb1'|[-> _]]; [|congruence]. destruct (Hget _ _ Hb2) as [Hb2'|[-> _]]; [|congruence].
    eapply I5; [exact Hb1'|exact Hb2'|split; eassumption|split; eassumption].
  - intros n b g i Hb [Hh1 Hh2]. destruct (Hget _ _ Hb) as [Hb'|[-> _]]; [|congruence].
    eapply I6; [exact Hb'|split; eassumption].
Qed.

Lemma Ident_del_app c n : Ident c -> Ident (c <| c_apps ::= del_app n |>).
Proof.
  intros [I0 I1 I2 I3 I4 I5 I6].
  assert (Hget : forall m b, get_app m (del_app n (c_apps c)) = Some b -> get_app m (c_apps c) = Some b).
  { intros m b Hb. rewrite get_app_del in Hb by exact I0. destruct (Z.eqb m n); [discriminate|exact Hb]. }
  constructor; cbn [c_apps c_groups set]; try assumption.
  - apply del_app_names_NoDup. exact I0.
  - intros m b g Hb Hg. eapply I1; [apply Hget; exact Hb|exact Hg].
  - intros m b g i grp Hb Hh Hg. eapply I4; [apply Hget; exact Hb|exact Hh|exact Hg].
  - intros n1 n2 b1 b2 g i Hb1 Hb2 H1 H2. eapply I5; [apply Hget; exact Hb1|apply Hget; exact Hb2|exact H1|exact H2].
  - intros m b g i Hb Hh. eapply I6; [apply Hget; exact Hb|exact Hh].
Qed.

Lemma Ident_remove_group c g : GroupsOk c -> Ident c -> Ident (remove_group c g).
Proof.
  intros HG HI. unfold remove_group. destruct (aget g (c_groups c)) as [grp|] eqn:Eg; [|exact HI].
  destruct (existsb _ (c_apps c)) eqn:Ex.
  - (* in use: adjust(0) *)
    destruct HI as [I0 I1 I2 I3 I4 I5 I6]. destruct HG as [G K].
    destruct (group_adjust_spec grp 0 (fun i => I2 g grp i Eg) (I3 _ _ Eg) (G _ _ Eg)) as (Hcnt & Hnd & Hrg).
    constructor; cbn [c_apps c_groups set]; try assumption.
    + intros n a g1 Ha Hg1. destruct (Z.eq_dec g1 g) as [->|Hne]; [eexists; apply aget_aset_same|].
      rewrite aget_aset_other by assumption. eapply I1; eassumption.
    + intros g1 grp1 i Hg1 Hi. destruct (Z.eq_dec g1 g) as [->|Hne].
      * rewrite aget_aset_same in Hg1. inversion Hg1; subst grp1. specialize (Hrg i Hi). lia.
      * rewrite aget_aset_other in Hg1 by assumption. eapply I2; eassumption.
    + intros g1 grp1 Hg1. destruct (Z.eq_dec g1 g) as [->|Hne].
      * rewrite aget_aset_same in Hg1. inversion Hg1; subst grp1. exact Hnd.
      * rewrite aget_aset_other in Hg1 by assumption. eapply I3; eassumption.
    + intros n a g1 i grp1 Ha Hh Hg1 Hi. destruct (Z.eq_dec g1 g) as [->|Hne].
      * rewrite aget_aset_same in Hg1. inversion Hg1; subst grp1. specialize (Hrg i Hi). lia.
      * rewrite aget_aset_other in Hg1 by assumption. eapply I4; eassumption.
  - (* unused: deleted *)
    destruct HI as [I0 I1 I2 I3 I4 I5 I6]. destruct HG as [G K].
    assert (Hunused : forall n a, get_app n (c_apps c) = Some a -> a_group a <> Some g).
    { intros n a Ha Hg. assert (X : existsb (fun a0 => match a_group a0 with Some g' => Z.eqb g' g | None => false end) (c_apps c) = true).
      { apply existsb_exists. exists a. split; [eapply get_app_In; exact Ha|rewrite Hg; apply Z.eqb_refl]. }
      congruence. }
    constructor; cbn [c_apps c_groups set]; try assumption.
    + intros n a g1 Ha Hg1. rewrite aget_adel by exact K. destruct (Z.eqb_spec g1 g) as [->|Hne]; [exfalso; eapply Hunused; eassumption|].
      eapply I1; eassumption.
    + intros g1 grp1 i Hg1 Hi. rewrite aget_adel in Hg1 by exact K. destruct (Z.eqb g1 g); [discriminate|]. eapply I2; eassumption.
    + intros g1 grp1 Hg1. rewrite aget_adel in Hg1 by exact K. destruct (Z.eqb g1 g); [discriminate|]. eapply I3; eassumption.
    + intros n a g1 i grp1 Ha Hh Hg1 Hi. rewrite aget_adel in Hg1 by exact K. destruct (Z.eqb g1 g); [discriminate|]. eapply I4; eassumption.
Qed.
Lemma GroupsOk_remove_group c g : GroupsOk c -> GroupsOk (remove_group c g).
Proof.
  intros HG. unfold remove_group. destruct (aget g (c_groups c)) as [grp|] eqn:Eg; [|exact HG].
  destruct (existsb _ (c_apps c)).
  - eapply GroupsOk_aset; [reflexivity| |exact HG]. unfold group_adjust. destruct (Z.geb 0 (g_count grp)); cbn; lia.
  - destruct HG as [G K]. constructor; cbn [c_groups set]; [|apply adel_keys_NoDup; exact K].
    intros g1 grp1 H1. rewrite aget_adel in H1 by exact K. destruct (Z.eqb g1 g); [discriminate|]. eapply G; exact H1.
Qed.
Lemma GroupsOk_config_group c g count : 0 <= count -> GroupsOk c -> GroupsOk (config_group c g count).
Proof.
  intros Hc HG. unfold config_group. destruct (aget g (c_groups c)) as [grp|].
  - eapply GroupsOk_aset; [reflexivity| |exact HG]. cbn. unfold group_adjust. destruct (Z.geb count (g_count grp)); cbn; lia.
  - eapply GroupsOk_aset; [reflexivity|cbn; lia|exact HG].
Qed.

Lemma Ident_remove_app c n : Ident c -> Ident (remove_app c n).
Proof.
  intros HI. unfold remove_app. destruct (get_app n (c_apps c)) as [a|]; [|exact HI].
  apply Ident_del_app. apply Ident_release.
  destruct (a_alloc a) as [[l0 p0]|]; [apply Ident_upd_alloc|];
    (destruct (a_server a) as [sn|]; [destruct (is_member c sn); [apply (Ident_psteps _ _ (srv_remove_ps c sn n))|]|]; exact HI).
Qed.
Lemma GroupsOk_remove_app c n : GroupsOk c -> GroupsOk (remove_app c n).
Proof.
  intros HG. unfold remove_app. destruct (get_app n (c_apps c)) as [a|]; [|exact HG].
  match goal with |- GroupsOk (set c_apps _ ?c3) => apply (GroupsOk_ext c3); [reflexivity|] end. apply GroupsOk_release.
  destruct (a_alloc a) as [[l0 p0]|]; [apply GroupsOk_upd_alloc|];
    (destruct (a_server a) as [sn|]; [destruct (is_member c sn); [apply (GroupsOk_psteps _ _ (srv_remove_ps c sn n))|]|]; exact HG).
Qed.

Lemma Ident_add_app_op c label path a : wf_op_id c (OAddApp label path a) -> Ident c -> Ident (add_app c label path a).
Proof.
  intros Hwf HI. unfold add_app. destruct (get_app (a_name a) (c_apps c)) as [old|] eqn:Eo.
  - apply Ident_ensure_group. apply Ident_upd_app_eqi; [intros x; repeat split|].
    apply Ident_upd_alloc. destruct (a_alloc old) as [[l0 p0]|]; [apply Ident_upd_alloc|]; exact HI.
  - specialize (Hwf Eo).
    set (c1 := upd_alloc c label path (alloc_add_app (a_name a))).
    assert (E : c_apps c1 = c_apps c /\ c_groups c1 = c_groups c).
    { subst c1. unfold upd_alloc, ensure_part. destruct (aget label (c_parts c)); auto. }
    destruct E as (E1 & E2).
    (* create the group first (commutes with appending the instance), then add the instance *)
    set (a' := a <| a_alloc := Some (label, path) |>).
    assert (Hcomm : ensure_group (c1 <| c_apps ::= (fun l => l ++ [a']) |>) (a_group a)
                    = (ensure_group c1 (a_group a)) <| c_apps ::= (fun l => l ++ [a']) |>).
    { unfold ensure_group. destruct (a_group a) as [g|]; [|reflexivity]. cbn [c_groups set].
      destruct (aget g (c_groups c1)); reflexivity. }
    rewrite Hcomm.
    assert (Eg1 : c_apps (ensure_group c1 (a_group a)) = c_apps c1).
    { unfold ensure_group. destruct (a_group a) as [g|]; [|reflexivity]. destruct (aget g (c_groups c1)); reflexivity. }
    apply Ident_add_app.
    + rewrite Eg1, E1. exact Eo.
    + exact Hwf.
    + intros g Hg. change (a_group a' = Some g) in Hg. cbn in Hg. rewrite Hg. apply ensure_group_exists.
    + apply Ident_ensure_group. subst c1. apply Ident_upd_alloc. exact HI.
Qed.
Lemma GroupsOk_add_app_op c label path a : GroupsOk c -> GroupsOk (add_app c label path a).
Proof.
  intros HG. unfold add_app. destruct (get_app (a_name a) (c_apps c)) as [old|].
  - apply GroupsOk_ensure_group.
    match goal with |- GroupsOk (c_upd_app _ _ ?c2) => apply (GroupsOk_ext c2); [reflexivity|] end.
    apply GroupsOk_upd_alloc. destruct (a_alloc old) as [[l0 p0]|]; [apply GroupsOk_upd_alloc|]; exact HG.
  - apply GroupsOk_ensure_group.
    match goal with |- GroupsOk (set c_apps _ ?c2) => apply (GroupsOk_ext c2); [reflexivity|] end.
    apply GroupsOk_upd_alloc. exact HG.
Qed.

Definition IdentG (c : cell) : Prop := Ident c /\ GroupsOk c.
Lemma IdentG_ext c c' : c_groups c' = c_groups c -> c_apps c' = c_apps c -> IdentG c -> IdentG c'.
Proof. intros H1 H2 [HI HG]. split; [eapply Ident_ext; eassumption|eapply GroupsOk_ext; eassumption]. Qed.
Lemma IdentG_same_core c c' : same_core c c' -> IdentG c -> IdentG c'.
Proof. intros (_ & _ & _ & H4 & _ & H6 & _). apply IdentG_ext; assumption. Qed.
Lemma IdentG_psteps c c' : psteps c c' -> IdentG c -> IdentG c'.
Proof. intros Hp [HI HG]. split; [eapply Ident_psteps; eassumption|eapply GroupsOk_psteps; eassumption]. Qed.

Theorem IdentG_step c o : wf_op_id c o -> IdentG c -> IdentG (step c o).
Proof.
  intros Hwf H. destruct o; cbn [step].
  - unfold add_bucket. eapply IdentG_same_core; [apply attach_common_sc|]. revert H. apply IdentG_ext; reflexivity.
  - unfold add_server, new_server. cbn [s_parent]. eapply IdentG_same_core; [apply attach_common_sc|].
    revert H. apply IdentG_ext; reflexivity.
  - (* ORemoveServer *)
    assert (H0 : IdentG (if raw then c else srv_remove_all c name)).
    { destruct raw; [exact H|]. unfold srv_remove_all. destruct (get_srv name (c_servers c)) as [s|]; [|exact H].
      generalize (s_apps s) as l. intros l. clear Hwf. revert c H. induction l as [|x r IH]; intros c H; cbn; [exact H|].
      apply IH. eapply IdentG_psteps; [apply srv_remove_ps|exact H]. }
    set (c0 := if raw then c else srv_remove_all c name) in *.
    unfold detach_server. destruct (get_srv name (c_servers c0)) as [s|]; [|exact H0].
    assert (H1 : IdentG (c0 <| c_servers ::= del_srv name |>)) by (revert H0; apply IdentG_ext; reflexivity).
    destruct (s_parent s) as [p|]; [|exact H1].
    eapply IdentG_same_core; [apply unhook_server_sc|exact H1].
  - (* OMoveServer *)
    unfold move_server. destruct (get_srv name (c_servers c)) as [s|]; [|exact H].
    eapply IdentG_same_core; [apply attach_common_sc|].
    match goal with |- IdentG (c_upd_srv _ _ ?c0) => apply (IdentG_ext c0); [reflexivity|reflexivity|] end.
    destruct (s_parent s) as [p0|]; [eapply IdentG_same_core; [apply unhook_server_sc|exact H]|exact H].
  - (* OSetState *)
    unfold srv_set_state. destruct (get_srv name (c_servers c)) as [s|]; [|exact H].
    destruct (sstate_eqb (s_state s) st); [exact H|].
    assert (H1 : IdentG (c_upd_srv name (fun x => x <| s_state := st |> <| s_since := since |>) c))
      by (revert H; apply IdentG_ext; reflexivity).
    destruct st; (eapply IdentG_same_core; [|exact H1]);
      [apply adjust_up_from_sc|apply adjust_down_from_sc|apply adjust_down_from_sc].
  - revert H; apply IdentG_ext; reflexivity.
  - destruct H as [HI HG]. split; [apply Ident_add_app_op; assumption|apply GroupsOk_add_app_op; assumption].
  - destruct H as [HI HG]. split; [apply Ident_remove_app; assumption|apply GroupsOk_remove_app; assumption].
  - destruct H as [HI HG]. split; [apply Ident_upd_app_eqi; [intros x; repeat split|exact HI]|revert HG; apply GroupsOk_ext; reflexivity].
  - destruct H as [HI HG]. split; [apply Ident_upd_app_eqi; [intros x; repeat split|exact HI]|revert HG; apply GroupsOk_ext; reflexivity].
  - destruct H as [HI HG]. split; [apply Ident_upd_app_eqi; [intros x; repeat split|exact HI]|revert HG; apply GroupsOk_ext; reflexivity].
  - destruct H as [HI HG]. split; [apply Ident_upd_app_eqi; [intros x; repeat split|exact HI]|revert HG; apply GroupsOk_ext; reflexivity].
  - destruct H as [HI HG]. split; [apply Ident_upd_app_eqi; [intros x; repeat split|exact HI]|revert HG; apply GroupsOk_ext; reflexivity].
  - destruct H as [HI HG]. split; [apply Ident_upd_alloc; exact HI|apply GroupsOk_upd_alloc; exact HG].
  - destruct H as [HI HG]. split; [apply Ident_config_group; assumption|apply GroupsOk_config_group; assumption].
  - destruct H as [HI HG]. split; [apply Ident_remove_group; assumption|apply GroupsOk_remove_group; assumption].
  - revert H; apply IdentG_ext; reflexivity.
  - pose proof (schedule_ps c choices) as Hps. destruct (schedule c choices) as [[c' qs] pl]. cbn [fst] in Hps.
    eapply IdentG_psteps; eassumption.
  - (* ORestore *)
    unfold restore_op. destruct (get_app aname (c_apps c)) as [a|]; [|exact H].
    pose proof (IdentG_psteps _ _ (restore_put_ps c sname aname verbatim expires) H) as H1.
    pose proof (restore_put_eqi c sname aname verbatim expires) as [_ Hq].
    destruct (restore_put c sname aname verbatim expires) as [c1 ok]. cbn [fst] in H1, Hq.
    destruct ok.
    + destruct H1 as [HI HG]. split; [|apply GroupsOk_force; exact HG].
      destruct ident as [i|]; [|exact HI]. apply Ident_force; [|exact HI]. eapply force_ok_eqi; [exact Hq|exact Hwf].
    + destruct (a_once a); [|exact H1]. destruct H1 as [HI HG].
      split; [apply Ident_remove_app; assumption|apply GroupsOk_remove_app; assumption].
Qed.

Fixpoint wf_ops_id (c : cell) (ops : list op) : Prop :=
  match ops with [] => True | o :: r => wf_op_id c o /\ wf_ops_id (step c o) r end.
Theorem IdentG_run ops : forall c, wf_ops_id c ops -> IdentG c -> IdentG (run c ops).
Proof.
  induction ops as [|o r IH]; intros c Hwf H; cbn; [exact H|]. destruct Hwf as [H1 H2].
  apply IH; [exact H2|apply IdentG_step; assumption].
Qed.
Lemma IdentG_init dim root level : IdentG (init_cell dim root level).
Proof.
  split; constructor; cbn; try (constructor; fail); intros; discriminate.
Qed.
