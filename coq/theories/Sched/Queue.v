(** Allocation.priv_utilization_queue / utilization_queue / total_reserved / all_apps.
    Utilisation is an exact rational; the one visible float effect (x + eps) is the case split [avail_q].
    Model file: no proofs. *)
From Coq Require Import ZArith QArith Qminmax List Bool.
From TM Require Import Sched.Vec Sched.Types.
Import ListNotations.
Open Scope Z_scope.

(** utilisation values: None = +inf (_MAX_UTILIZATION) *)
Definition util := option Q.
Definition util_compare (a b : util) : comparison :=
  match a, b with
  | None, None => Eq
  | None, Some _ => Gt
  | Some _, None => Lt
  | Some x, Some y => Qcompare x y
  end.
Definition util_leb (a b : util) : bool := match util_compare a b with Gt => false | _ => true end.
Definition util_ltb (a b : util) : bool := match util_compare a b with Lt => true | _ => false end.

Definition feps : Q := 1 # 4503599627370496.   (* np.finfo(float).eps = 2^-52 *)

(** float64 value of (x + k*eps + eps) for a non-negative integer x and k further eps summands:
    absorbed when x >= 2 (round-to-even), exact when x is 0 or 1. Stated domain of the harness:
    non-zero components are >= 64 and there are fewer than 32 eps summands. *)
Definition avail_q (x : Z) (k : nat) : Q :=
  if Z.leb 2 x then inject_Z x
  else (inject_Z x + inject_Z (Z.of_nat (S k)) * feps)%Q.

Fixpoint avail_vec (xs : vec) (k : nat) : list Q :=
  match xs with [] => [] | x :: r => avail_q x k :: avail_vec r k end.

Fixpoint util_dims (acc res : vec) (av : list Q) : list Q :=
  match acc, res, av with
  | a :: acc', r :: res', v :: av' => (inject_Z (a - r) / v)%Q :: util_dims acc' res' av'
  | _, _, _ => []
  end.
Definition qmaxl (l : list Q) : Q :=
  match l with
  | [] => 0%Q
  | x :: t => fold_left (fun m y => if Qle_bool m y then y else m) t x
  end.
Definition utilization (acc res : vec) (av : list Q) : Q := qmaxl (util_dims acc res av).

(** queue entry: (rank, util_before, util_after, pending, global_order, app) *)
Record entry := mkEntry {
  e_rank : Z; e_ub : util; e_ua : util; e_pending : bool; e_order : Z;
  e_app : Z; e_demand : vec; e_prio : Z
}.

Definition bool_compare (a b : bool) : comparison :=
  match a, b with false, true => Lt | true, false => Gt | _, _ => Eq end.

Definition lex (c : comparison) (d : comparison) : comparison := match c with Eq => d | _ => c end.

(** tuple comparison of entries (the app object itself is never reached: orders are unique) *)
Definition entry_compare (x y : entry) : comparison :=
  lex (Z.compare (e_rank x) (e_rank y))
  (lex (util_compare (e_ub x) (e_ub y))
  (lex (util_compare (e_ua x) (e_ua y))
  (lex (bool_compare (e_pending x) (e_pending y))
       (Z.compare (e_order x) (e_order y))))).
Definition entry_ltb (x y : entry) : bool := match entry_compare x y with Lt => true | _ => false end.

(** _app_key: (-priority, 0 if server else 1, global_order, name) *)
Definition is_pending (a : app) : bool := match a_server a with Some _ => false | None => true end.
Definition app_key_compare (x y : app) : comparison :=
  lex (Z.compare (- a_prio x) (- a_prio y))
  (lex (bool_compare (is_pending x) (is_pending y))
  (lex (Z.compare (a_order x) (a_order y))
       (Z.compare (a_name x) (a_name y)))).
Definition app_key_leb (x y : app) : bool := match app_key_compare x y with Gt => false | _ => true end.

Fixpoint insert_app (a : app) (l : list app) : list app :=
  match l with
  | [] => [a]
  | b :: r => if app_key_leb a b then a :: b :: r else b :: insert_app a r
  end.
(** sorted() is stable: equal keys keep their input order (insert after equal elements) *)
Fixpoint insert_app_stable (a : app) (l : list app) : list app :=
  match l with
  | [] => [a]
  | b :: r => if app_key_leb b a then b :: insert_app_stable a r else a :: b :: r
  end.
Definition sort_apps (l : list app) : list app :=
  fold_left (fun acc a => insert_app_stable a acc) l [].

Fixpoint lookup_apps (names : list Z) (apps : list app) : list app :=
  match names with
  | [] => []
  | n :: r => match get_app n apps with Some a => a :: lookup_apps r apps | None => lookup_apps r apps end
  end.

Definition UNPLACED_RANK : Z := 9223372036854775807.   (* sys.maxsize; checked against the generated table *)

(** the per-app scoring step shared by both queues *)
Definition rescore (res : vec) (av : list Q) (st : vec * util) (demand : vec) (prio : Z) : (vec * util * util) :=
  let '(acc, ub) := st in
  let acc' := vadd acc demand in
  let ua := Some (utilization acc' res av) in
  if Z.eqb prio 0 then (acc', None, None) else (acc', ub, ua).

Fixpoint priv_loop (rank adj : Z) (maxu : option Q) (res : vec) (av : list Q)
         (l : list app) (acc : vec) (ub : util) : list entry :=
  match l with
  | [] => []
  | a :: r =>
      let '(acc', ub1, ua1) := rescore res av (acc, ub) (a_demand a) (a_prio a) in
      let within :=
        match maxu with
        | None => true
        | Some m => util_leb ua1 (Some (m - 1)%Q)
        end in
      let rk := if within then (if util_ltb ub1 (Some 0%Q) then rank - adj else rank) else UNPLACED_RANK in
      mkEntry rk ub1 ua1 (is_pending a) (a_order a) (a_name a) (a_demand a) (a_prio a)
      :: priv_loop rank adj maxu res av r acc' ua1
  end.

Definition priv_queue (dim : nat) (al : alloc) (apps : list app) : list entry :=
  let res := al_reserved al in
  let av := avail_vec res 0 in
  let sorted := sort_apps (lookup_apps (al_apps al) apps) in
  priv_loop (al_rank al) (al_adj al) (al_maxutil al) res av sorted (vzero dim)
            (Some (utilization (vzero dim) res av)).

(** heapq.merge: repeatedly take the smallest head, ties to the earlier queue *)
Fixpoint pick (qs : list (list entry)) : option (entry * list (list entry)) :=
  match qs with
  | [] => None
  | [] :: t => match pick t with None => None | Some (m, t') => Some (m, [] :: t') end
  | (x :: q) :: t =>
      match pick t with
      | None => Some (x, q :: t)
      | Some (m, t') => if entry_ltb m x then Some (m, (x :: q) :: t') else Some (x, q :: t)
      end
  end.
Fixpoint merge (fuel : nat) (qs : list (list entry)) : list entry :=
  match fuel with
  | O => []
  | S f => match pick qs with None => [] | Some (m, qs') => m :: merge f qs' end
  end.
Definition merge_all (qs : list (list entry)) : list entry := merge (length (concat qs)) qs.

Fixpoint total_reserved (al : alloc) : vec :=
  let '(Alloc res _ _ _ _ _ subs) := al in
  (fix go (l : list (Z * alloc)) (acc : vec) : vec :=
     match l with [] => acc | (_, s) :: r => go r (vadd acc (total_reserved s)) end) subs res.

Fixpoint rescore_loop (res : vec) (av : list Q) (l : list entry) (acc : vec) (ub : util) : list entry :=
  match l with
  | [] => []
  | e :: r =>
      let '(acc', ub1, ua1) := rescore res av (acc, ub) (e_demand e) (e_prio e) in
      mkEntry (e_rank e) ub1 ua1 (e_pending e) (e_order e) (e_app e) (e_demand e) (e_prio e)
      :: rescore_loop res av r acc' ua1
  end.

(** Allocation.utilization_queue(free_capacity); free = (integer part, number of eps summands) *)
Fixpoint util_queue (dim : nat) (free : vec) (keps : nat) (apps : list app) (al : alloc) : list entry :=
  let '(Alloc res rank adj traits maxu names subs) := al in
  let subqs := (fix go (l : list (Z * alloc)) : list (list entry) :=
                  match l with [] => [] | (_, s) :: r => util_queue dim free keps apps s :: go r end) subs in
  let tr := total_reserved al in
  let av := avail_vec (vadd tr free) keps in
  let merged := merge_all (subqs ++ [priv_queue dim al apps]) in
  rescore_loop tr av merged (vzero dim) (Some (utilization (vzero dim) tr av)).

(** Allocation.all_apps: own apps, then each sub-allocation's *)
Fixpoint all_apps (al : alloc) : list Z :=
  let '(Alloc _ _ _ _ _ names subs) := al in
  names ++ (fix go (l : list (Z * alloc)) : list Z :=
              match l with [] => [] | (_, s) :: r => all_apps s ++ go r end) subs.

(** allocation lookup / update by path *)
Fixpoint alloc_at (al : alloc) (path : list Z) : option alloc :=
  match path with
  | [] => Some al
  | p :: r => match aget p (al_subs al) with Some s => alloc_at s r | None => None end
  end.

Definition empty_alloc (dim : nat) : alloc := Alloc (vzero dim) 100 0 0 None [] [].   (* Allocation(): DEFAULT_RANK *)

(** get_sub_alloc chain creating empty allocations on demand, then apply f at the end of the path *)
Fixpoint alloc_update (dim : nat) (al : alloc) (path : list Z) (f : alloc -> alloc) : alloc :=
  match path with
  | [] => f al
  | p :: r =>
      let '(Alloc res rank adj traits maxu names subs) := al in
      let sub := match aget p subs with Some s => s | None => empty_alloc dim end in
      Alloc res rank adj traits maxu names (aset p (alloc_update dim sub r f) subs)
  end.

Definition alloc_add_app (n : Z) (al : alloc) : alloc :=
  let '(Alloc res rank adj traits maxu names subs) := al in
  if zmem n names then al else Alloc res rank adj traits maxu (names ++ [n]) subs.
Definition alloc_del_app (n : Z) (al : alloc) : alloc :=
  let '(Alloc res rank adj traits maxu names subs) := al in
  Alloc res rank adj traits maxu (zremove n names) subs.
