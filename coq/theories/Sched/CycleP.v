(** Cycle-level theorems: what every instance of every partition queue looks like after Cell.schedule
    (C05 end of cycle, C03 assignments). Built on the per-turn specifications of TurnP.v. *)
From Coq Require Import ZArith QArith List Bool Lia Relations Permutation.
From RecordUpdate Require Import RecordSet.
From TM Require Import Sched.Vec Sched.Types Sched.Queue Sched.Tree Sched.Cycle Sched.Steps Sched.MapsP Sched.FrameP
                       Sched.InvAcct Sched.InvIdent Sched.QueueP Sched.TurnP.
Import ListNotations.
Open Scope Z_scope.

(** ** _record_rank_and_util only writes the rank *)
Definition rank_eq (a a' : app) : Prop :=
  dyn_eq a a' /\ a_server a' = a_server a /\ a_expiry a' = a_expiry a /\ a_evicted a' = a_evicted a /\
  a_unschedule a' = a_unschedule a /\ a_renew a' = a_renew a.
Lemma rank_eq_refl a : rank_eq a a.
Proof. split; [apply dyn_eq_refl|]. repeat split. Qed.
Lemma rank_eq_trans a b c : rank_eq a b -> rank_eq b c -> rank_eq a c.
Proof.
  intros (H1 & H2 & H3 & H4 & H5 & H6) (G1 & G2 & G3 & G4 & G5 & G6).
  split; [eapply dyn_eq_trans; eassumption|]. repeat split; congruence.
Qed.

Lemma record_ranks_spec q : forall c x a, app_of c x = Some a ->
  exists a1, app_of (record_ranks c q) x = Some a1 /\ rank_eq a a1.
Proof.
  unfold record_ranks. induction q as [|e r IH]; intros c x a Ha; cbn [fold_left]; [exists a; split; [exact Ha|apply rank_eq_refl]|].
  set (fr := fun z : app => z <| a_rank := e_rank e |>).
  destruct (Z.eq_dec x (e_app e)) as [->|Hne].
  - assert (H1 : app_of (c_upd_app (e_app e) fr c) (e_app e) = Some (fr a)) by (apply upd_app_self; [reflexivity|exact Ha]).
    destruct (IH _ _ _ H1) as (a1 & Ha1 & Hr). exists a1. split; [exact Ha1|].
    eapply rank_eq_trans; [|exact Hr]. split; [repeat split|repeat split].
  - assert (H1 : app_of (c_upd_app (e_app e) fr c) x = Some a) by (rewrite upd_app_other; [exact Ha|reflexivity|exact Hne]).
    exact (IH _ _ _ H1).
Qed.

Lemma record_ranks_static c q : static_kept c (record_ranks c q).
Proof. apply psteps_static. apply record_ranks_ps. Qed.

(** ** the preconditions of the loop, for one instance, from what holds before the cycle *)
Lemma pre_ok_of c1 x a1 : app_of c1 x = Some a1 -> id_rec a1 -> bl_rec a1 -> pre_ok c1 x a1.
Proof. intros H1 H3 H4. constructor; assumption. Qed.

(** what is guaranteed for an instance after the cycle, relative to its record [a] and the cell [c] before *)
Definition after_cycle (c : cell) (a a' : app) : Prop :=
  stat_eq a a' /\
  (a_server a' = None -> no_id a') /\ (a_server a' <> None -> has_id a') /\
  (forall n, a_server a' = Some n -> a_server a <> Some n ->
     exists s, get_srv n (c_servers c) = Some s /\ s_state s = Up /\ guard_facts c s a).

(** one partition: schedule_alloc on a state whose instances of this partition are untouched since the phases *)
Lemma schedule_alloc_spec cc label top ch :
  AMI cc -> NoDup (all_apps top) ->
  forall x a, In x (all_apps top) -> app_of cc x = Some a -> id_rec a -> bl_rec a ->
  exists a', app_of (fst (schedule_alloc cc label top ch)) x = Some a' /\ after_cycle cc a a'.
Proof.
  intros (HA & HM & HI) Hnd x a Hin Ha Hid Hbl. unfold schedule_alloc. cbn [fst].
  set (q := partition_queue cc label top).
  set (c1 := record_ranks cc q).
  assert (Hp1 : psteps cc c1) by apply record_ranks_ps.
  assert (HA1 : Acct c1) by (eapply Acct_psteps; eassumption).
  assert (HI1 : Ident c1) by (eapply Ident_psteps; eassumption).
  assert (HM1 : Mem c1) by (eapply Mem_psteps; eassumption).
  (* the queue lists exactly the existing instances of the partition's allocation tree *)
  assert (Hperm : Permutation (map e_app q) (map a_name (lookup_apps (all_apps top) (c_apps cc)))).
  { subst q. unfold partition_queue. destruct (cell_size cc label) as [sz keps]. apply util_queue_perm. }
  assert (Hnames : forall names, NoDup names -> NoDup (map a_name (lookup_apps names (c_apps cc))) /\
            forall y, In y (map a_name (lookup_apps names (c_apps cc))) <-> In y names /\ app_of cc y <> None).
  { clear. induction names as [|n r IH]; intros Hnd; cbn [lookup_apps map]; [split; [constructor|intros y; split; [intros []|intros [[] _]]]|].
    inversion Hnd as [|? ? Hni Hr]; subst. destruct (IH Hr) as [IH1 IH2].
    destruct (get_app n (c_apps cc)) as [b|] eqn:E.
    - pose proof (get_app_name _ _ _ E) as Hb. cbn [map]. rewrite Hb. split.
      + constructor; [|exact IH1]. intros H. apply IH2 in H. tauto.
      + intros y. split.
        * intros [<-|H]; [split; [left; reflexivity|unfold app_of; rewrite E; discriminate]|].
          apply IH2 in H. split; [right; tauto|tauto].
        * intros [[<-|H] Hy]; [left; reflexivity|right; apply IH2; tauto].
    - split; [exact IH1|]. intros y. split.
      + intros H. apply IH2 in H. split; [right; tauto|tauto].
      + intros [[<-|H] Hy]; [unfold app_of in Hy; rewrite E in Hy; contradiction|apply IH2; tauto]. }
  destruct (Hnames _ Hnd) as [Hnd' Hmem].
  assert (Hndq : NoDup (map e_app q)) by (eapply Permutation_NoDup; [symmetry; exact Hperm|exact Hnd']).
  assert (Hxq : In x (map e_app q)).
  { eapply Permutation_in; [symmetry; exact Hperm|]. apply Hmem. split; [exact Hin|congruence]. }
  destruct (record_ranks_spec q cc x a Ha) as (a1 & Ha1 & (Hd1 & Hs1 & _ & _ & _ & Hr1)).
  fold c1 in Ha1.
  assert (Hpo : pre_ok c1 x a1).
  { apply pre_ok_of; [exact Ha1| |].
    - intros Hne. rewrite Hs1 in Hne. eapply has_id_dyn; [exact Hd1|apply Hid; exact Hne].
    - intros Hb. destruct Hd1 as (_ & _ & _ & _ & _ & _ & _ & _ & Hg & _ & _ & _ & Hbk & Hi).
      rewrite Hbk in Hb. destruct (Hbl Hb) as [H1 H2]. split; [congruence|].
      destruct H2 as [H2|H2]; [left|right]; congruence. }
  destruct (find_placements_final c1 (map e_app q) ch Hndq HA1 HI1 HM1 x a1 Hxq Hpo) as (a' & Ha' & (Hst & F1 & F2 & F3)).
  exists a'. split; [exact Ha'|]. split; [eapply stat_eq_trans; [apply dyn_stat; exact Hd1|exact Hst]|].
  split; [exact F1|]. split; [exact F2|].
  intros n Hn Hne. destruct (F3 n Hn) as (s1 & Hs & Hup & Hgf); [rewrite Hs1; exact Hne|].
  eapply guard_facts_back; [apply record_ranks_static|exact Hs|exact Hup|apply dyn_stat; exact Hd1|exact Hgf].
Qed.

(** instances of other partitions are not touched by schedule_alloc *)
Lemma schedule_alloc_frame cc label top ch x :
  AMI cc -> NoDup (all_apps top) -> ~ In x (all_apps top) ->
  forall a, app_of cc x = Some a -> exists a1, app_of (fst (schedule_alloc cc label top ch)) x = Some a1 /\ rank_eq a a1.
Proof.
  intros (HA & HM & HI) Hnd Hx a Ha. unfold schedule_alloc. cbn [fst].
  set (q := partition_queue cc label top). set (c1 := record_ranks cc q).
  assert (Hp1 : psteps cc c1) by apply record_ranks_ps.
  assert (Hperm : Permutation (map e_app q) (map a_name (lookup_apps (all_apps top) (c_apps cc)))).
  { subst q. unfold partition_queue. destruct (cell_size cc label) as [sz keps]. apply util_queue_perm. }
  assert (Hsub : forall names y, In y (map a_name (lookup_apps names (c_apps cc))) -> In y names).
  { clear. induction names as [|n r IH]; intros y; cbn [lookup_apps map]; [intros []|].
    destruct (get_app n (c_apps cc)) as [b|] eqn:E; [|intros H; right; apply IH; exact H].
    cbn [map]. rewrite (get_app_name _ _ _ E). intros [<-|H]; [left; reflexivity|right; apply IH; exact H]. }
  assert (Hnd' : NoDup (map a_name (lookup_apps (all_apps top) (c_apps cc)))).
  { clear -Hnd. induction (all_apps top) as [|n r IH]; cbn [lookup_apps map]; [constructor|].
    inversion Hnd as [|? ? Hni Hr]; subst. destruct (get_app n (c_apps cc)) as [b|] eqn:E; [|apply IH; exact Hr].
    cbn [map]. rewrite (get_app_name _ _ _ E). constructor; [|apply IH; exact Hr].
    intros H. apply Hni. clear -H. induction r as [|m t IHt]; cbn [lookup_apps map] in H; [destruct H|].
    destruct (get_app m (c_apps cc)) as [b2|] eqn:E2; [|right; apply IHt; exact H].
    cbn [map] in H. rewrite (get_app_name _ _ _ E2) in H. destruct H as [<-|H]; [left; reflexivity|right; apply IHt; exact H]. }
  assert (Hndq : NoDup (map e_app q)) by (eapply Permutation_NoDup; [symmetry; exact Hperm|exact Hnd']).
  assert (Hxq : ~ In x (map e_app q)).
  { intros H. apply Hx. eapply Hsub. eapply Permutation_in; [exact Hperm|exact H]. }
  destruct (record_ranks_spec q cc x a Ha) as (a1 & Ha1 & Hr). fold c1 in Ha1.
  exists a1. split; [|exact Hr].
  rewrite find_placements_frame; [exact Ha1|exact Hndq|eapply Acct_psteps; eassumption|eapply Ident_psteps; eassumption|eapply Mem_psteps; eassumption|exact Hxq].
Qed.

(** ** the whole cycle *)
Lemma after_cycle_back c cc a a1 a' :
  static_kept c cc -> stat_eq a a1 -> a_server a1 = a_server a \/ a_server a1 = None ->
  after_cycle cc a1 a' -> after_cycle c a a'.
Proof.
  intros Hsk Hst Hsv (H1 & H2 & H3 & H4). split; [eapply stat_eq_trans; eassumption|]. split; [exact H2|]. split; [exact H3|].
  intros n Hn Hne. destruct (H4 n Hn) as (s & Hs & Hup & Hgf).
  { destruct Hsv as [E|E]; rewrite E; [exact Hne|discriminate]. }
  eapply guard_facts_back; eassumption.
Qed.
Lemma after_cycle_rank c a a1 a' : after_cycle c a a1 -> rank_eq a1 a' -> after_cycle c a a'.
Proof.
  intros (H1 & H2 & H3 & H4) (Hd & Hs & _). split; [eapply stat_eq_trans; [exact H1|apply dyn_stat; exact Hd]|].
  assert (Hi : a_identity a' = a_identity a1) by (destruct Hd as (_ & _ & _ & _ & _ & _ & _ & _ & _ & _ & _ & _ & _ & Hi); exact Hi).
  split; [intros E; rewrite Hs in E; eapply no_id_stat; [apply dyn_stat; exact Hd|exact Hi|apply H2; exact E]|].
  split; [intros E; rewrite Hs in E; eapply has_id_stat; [apply dyn_stat; exact Hd|exact Hi|apply H3; exact E]|].
  intros n Hn Hne. rewrite Hs in Hn. exact (H4 n Hn Hne).
Qed.

Lemma NoDup_app_l {A} (l1 l2 : list A) : NoDup (l1 ++ l2) -> NoDup l1.
Proof. induction l1 as [|y t IH]; cbn [List.app]; intros H; [constructor|]. inversion H as [|? ? Hn Ht]; subst.
  constructor; [intros Hy; apply Hn, in_or_app; left; exact Hy|exact (IH Ht)]. Qed.
Lemma NoDup_app_r {A} (l1 l2 : list A) : NoDup (l1 ++ l2) -> NoDup l2.
Proof. induction l1 as [|y t IH]; cbn [List.app]; intros H; [exact H|]. inversion H; subst. auto. Qed.

Definition part_apps (l : list (Z * alloc)) : list Z := flat_map (fun p => all_apps (snd p)) l.

Definition sched_F (ch : list (Z * Z)) (acc : cell * list (Z * list entry)) (p : Z * alloc) :=
  let '(cc, qs) := acc in
  match aget (fst p) (c_parts cc) with
  | Some top => let '(cc', q) := schedule_alloc cc (fst p) top ch in (cc', qs ++ [(fst p, q)])
  | None => (cc, qs)
  end.

Lemma sched_fold_spec ch P : forall l cc qs,
  AMI cc -> c_parts cc = P -> (forall p, In p l -> aget (fst p) P = Some (snd p)) -> NoDup (part_apps l) ->
  forall x a, app_of cc x = Some a ->
    (~ In x (part_apps l) -> exists a', app_of (fst (fold_left (sched_F ch) l (cc, qs))) x = Some a' /\ rank_eq a a') /\
    (In x (part_apps l) -> id_rec a -> bl_rec a ->
       exists a', app_of (fst (fold_left (sched_F ch) l (cc, qs))) x = Some a' /\ after_cycle cc a a').
Proof.
  induction l as [|p r IH]; intros cc qs Hami HP Hget Hnd x a Ha; cbn [fold_left].
  { split; [intros _; exists a; split; [exact Ha|apply rank_eq_refl]|intros []]. }
  assert (HF : sched_F ch (cc, qs) p = let '(cc', q) := schedule_alloc cc (fst p) (snd p) ch in (cc', qs ++ [(fst p, q)]))
    by (unfold sched_F; rewrite HP, (Hget p (or_introl eq_refl)); reflexivity).
  rewrite HF. clear HF.
  pose proof (schedule_alloc_ps cc (fst p) (snd p) ch) as Hps.
  unfold part_apps in Hnd. cbn [flat_map] in Hnd. fold (part_apps r) in Hnd.
  assert (Hnd1 : NoDup (all_apps (snd p))) by (eapply NoDup_app_l; exact Hnd).
  assert (Hnd2 : NoDup (part_apps r)) by (eapply NoDup_app_r; exact Hnd).
  pose proof (schedule_alloc_spec cc (fst p) (snd p) ch Hami Hnd1 x a) as Hspec.
  pose proof (schedule_alloc_frame cc (fst p) (snd p) ch x Hami Hnd1) as Hframe.
  destruct (schedule_alloc cc (fst p) (snd p) ch) as [cc' q]. cbn [fst] in *.
  assert (Hami' : AMI cc').
  { destruct Hami as (HA & HM & HI). split; [eapply Acct_psteps; eassumption|]. split; [eapply Mem_psteps; eassumption|eapply Ident_psteps; eassumption]. }
  pose proof (psteps_static _ _ Hps) as Hsk.
  assert (HP' : c_parts cc' = P) by (destruct Hsk as (_ & E & _); congruence).
  assert (Hget' : forall p0, In p0 r -> aget (fst p0) P = Some (snd p0)) by (intros p0 H0; apply Hget; right; exact H0).
  unfold part_apps. cbn [flat_map]. fold (part_apps r).
  split.
  - intros Hni. destruct (Hframe (fun H => Hni (in_or_app _ _ _ (or_introl H))) a Ha) as (a1 & Ha1 & Hr1).
    destruct (proj1 (IH cc' (qs ++ [(fst p, q)]) Hami' HP' Hget' Hnd2 x a1 Ha1)) as (a' & Ha' & Hr').
    { intros H; apply Hni, in_or_app; right; exact H. }
    exists a'. split; [exact Ha'|eapply rank_eq_trans; eassumption].
  - intros Hin Hid Hbl. apply in_app_or in Hin. destruct Hin as [Hin|Hin].
    + destruct (Hspec Hin Ha Hid Hbl) as (a1 & Ha1 & Hac).
      assert (Hni : ~ In x (part_apps r)).
      { intros H. clear -Hnd Hin H. induction (all_apps (snd p)) as [|y t IHt]; [destruct Hin|].
        cbn [List.app] in Hnd. inversion Hnd as [|? ? Hn Ht]; subst. destruct Hin as [->|Hin]; [apply Hn, in_or_app; right; exact H|exact (IHt Ht Hin)]. }
      destruct (proj1 (IH cc' (qs ++ [(fst p, q)]) Hami' HP' Hget' Hnd2 x a1 Ha1) Hni) as (a' & Ha' & Hr').
      exists a'. split; [exact Ha'|eapply after_cycle_rank; eassumption].
    + assert (Hni : ~ In x (all_apps (snd p))).
      { intros H. clear -Hnd Hin H. induction (all_apps (snd p)) as [|y t IHt]; [destruct H|].
        cbn [List.app] in Hnd. inversion Hnd as [|? ? Hn Ht]; subst. destruct H as [->|H]; [apply Hn, in_or_app; right; exact Hin|exact (IHt Ht H)]. }
      destruct (Hframe Hni a Ha) as (a1 & Ha1 & Hr1).
      pose proof Hr1 as (Hd1 & Hs1 & _ & _ & _ & Hrn1).
      assert (Hid1 : id_rec a1) by (intros Hne; rewrite Hs1 in Hne; eapply has_id_dyn; [exact Hd1|apply Hid; exact Hne]).
      assert (Hbl1 : bl_rec a1).
      { intros Hb. destruct Hd1 as (_ & _ & _ & _ & _ & _ & _ & _ & Hg & _ & _ & _ & Hbk & Hi).
        rewrite Hbk in Hb. destruct (Hbl Hb) as [H1 H2]. split; [congruence|]. destruct H2 as [H2|H2]; [left|right]; congruence. }
      destruct (proj2 (IH cc' (qs ++ [(fst p, q)]) Hami' HP' Hget' Hnd2 x a1 Ha1) Hin) as (a' & Ha' & Hac); [exact Hid1|exact Hbl1|].
      exists a'. split; [exact Ha'|]. eapply after_cycle_back; [exact Hsk|apply dyn_stat; exact Hd1|left; exact Hs1|exact Hac].
Qed.

(** well-formed partition table: labels are unique (it is a dict) and no instance is queued in two partitions *)
Definition parts_wf (c : cell) : Prop := NoDup (map fst (c_parts c)) /\ NoDup (part_apps (c_parts c)).

Lemma aget_nodup {V} (P : list (Z * V)) : NoDup (map fst P) -> forall p, In p P -> aget (fst p) P = Some (snd p).
Proof.
  induction P as [|[k v] r IH]; intros Hnd p Hin; [destruct Hin|]. cbn [map fst] in Hnd. inversion Hnd as [|? ? Hn Hr]; subst.
  cbn [aget]. destruct Hin as [<-|Hin]; cbn [fst snd]; [rewrite Z.eqb_refl; reflexivity|].
  destruct (Z.eqb_spec k (fst p)) as [E|E]; [|apply IH; assumption].
  exfalso. apply Hn. rewrite E. apply in_map. exact Hin.
Qed.

(** C05/C03 at the end of a scheduling cycle: for every instance of every partition's allocation tree that
    exists before the cycle and holds its identity if it is placed (Ident + the previous cycle give that),
    - nothing but placement fields and identity changed in its record,
    - it holds no identity if it ends the cycle unplaced, and holds one (when it has an identity group) if it ends placed,
    - and if it ends on a server other than the one it started on, that server is Up and satisfies the label,
      traits and lifetime constraints of the instance, all measured on the state before the cycle. *)
Theorem schedule_final_mid c ch : Acct c -> Ident c -> parts_wf c ->
  forall x a, In x (part_apps (c_parts c)) -> app_of c x = Some a -> id_rec a ->
  exists a0 a', app_of (pre_phases c) x = Some a0 /\ touched a a0 /\
                app_of (fst (fst (schedule c ch))) x = Some a' /\ after_cycle (pre_phases c) a0 a'.
Proof.
  intros HA HI [Hlab Hnd] x a Hin Ha Hid.
  destruct (pre_phases_spec c HA HI) as (Hami & Hat & Hps & Hbl).
  destruct (Hat x a Ha) as (a0 & Ha0 & Ht).
  pose proof (psteps_static _ _ Hps) as Hsk. assert (HP : c_parts (pre_phases c) = c_parts c) by (destruct Hsk as (_ & E & _); exact E).
  unfold schedule. fold (sched_F ch). rewrite HP.
  pose proof (sched_fold_spec ch (c_parts c) (c_parts c) (pre_phases c) [] Hami HP (aget_nodup _ Hlab) Hnd x a0 Ha0) as [_ Hfold].
  destruct (Hfold Hin) as (a' & Ha' & Hac); [eapply id_rec_touched; [exact Ht|exact Hid]|eapply Hbl; exact Ha0|].
  destruct (fold_left (sched_F ch) (c_parts c) (pre_phases c, [])) as [c1 qs]. cbn [fst] in *.
  exists a0, a'. auto.
Qed.

Theorem schedule_final c ch : Acct c -> Ident c -> parts_wf c ->
  forall x a, In x (part_apps (c_parts c)) -> app_of c x = Some a -> id_rec a ->
  exists a', app_of (fst (fst (schedule c ch))) x = Some a' /\ after_cycle c a a'.
Proof.
  intros HA HI Hwf x a Hin Ha Hid.
  destruct (schedule_final_mid c ch HA HI Hwf x a Hin Ha Hid) as (a0 & a' & Ha0 & (Hst & Hrn & Hsv) & Ha' & Hac).
  exists a'. split; [exact Ha'|]. eapply after_cycle_back; [apply psteps_static, pre_phases_ps|exact Hst| |exact Hac].
  destruct Hsv as [[E _]|[E _]]; [left|right]; exact E.
Qed.

(** instances outside every partition tree are only touched by the four phases *)
Theorem schedule_outside c ch : Acct c -> Ident c -> parts_wf c ->
  forall x a, ~ In x (part_apps (c_parts c)) -> app_of c x = Some a ->
  exists a0 a', app_of (fst (fst (schedule c ch))) x = Some a' /\ touched a a0 /\ rank_eq a0 a'.
Proof.
  intros HA HI [Hlab Hnd] x a Hin Ha.
  destruct (pre_phases_spec c HA HI) as (Hami & Hat & Hps & Hbl).
  destruct (Hat x a Ha) as (a0 & Ha0 & Ht).
  pose proof (psteps_static _ _ Hps) as Hsk. assert (HP : c_parts (pre_phases c) = c_parts c) by (destruct Hsk as (_ & E & _); exact E).
  unfold schedule. fold (sched_F ch). rewrite HP.
  pose proof (sched_fold_spec ch (c_parts c) (c_parts c) (pre_phases c) [] Hami HP (aget_nodup _ Hlab) Hnd x a0 Ha0) as [Hfold _].
  destruct (Hfold Hin) as (a' & Ha' & Hr).
  destruct (fold_left (sched_F ch) (c_parts c) (pre_phases c, [])) as [c1 qs]. cbn [fst] in *.
  exists a0, a'. auto.
Qed.
