(** State of the scheduler model: treadmill.scheduler objects as records.
    Names (apps, servers, buckets, affinities, labels, levels, identity groups) are Z identifiers;
    the harness keeps the bijection with the Python strings.
    The node graph is kept flat (servers and buckets in two maps with parent names), like the
    Python object graph with parent pointers. Model file: no proofs. *)
From Coq Require Import ZArith QArith List Bool.
From RecordUpdate Require Import RecordSet.
From TM Require Import Sched.Vec.
Import ListNotations.
Export RecordSetNotations.
Open Scope Z_scope.

Inductive sstate := Up | Down | Frozen.
Definition sstate_eqb (a b : sstate) : bool :=
  match a, b with Up, Up | Down, Down | Frozen, Frozen => true | _, _ => false end.

(** Application *)
Record app := mkApp {
  a_name : Z; a_prio : Z; a_demand : vec;
  a_aff : Z; a_limits : list (Z * Z);       (* affinity name; level -> limit (absent = unlimited) *)
  a_traits : Z;                             (* own traits, bit mask *)
  a_lease : Z; a_drt : option Z;            (* lease seconds; data_retention_timeout (None = expire at once) *)
  a_group : option Z; a_once : bool; a_order : Z;
  a_alloc : option (Z * list Z);            (* partition label, path of sub-allocation names *)
  a_server : option Z; a_identity : option Z; a_expiry : option Z;
  a_evicted : bool; a_unschedule : bool; a_renew : bool; a_blacklisted : bool;
  a_rank : Z                                (* final_rank of the last queue *)
}.
#[export] Instance eta_app : Settable _ :=
  settable! mkApp <a_name; a_prio; a_demand; a_aff; a_limits; a_traits; a_lease; a_drt; a_group; a_once; a_order;
                   a_alloc; a_server; a_identity; a_expiry; a_evicted; a_unschedule; a_renew; a_blacklisted; a_rank>.

(** Server (leaf node) *)
Record server := mkServer {
  s_name : Z; s_parent : option Z;
  s_cap : vec; s_free : vec; s_apps : list Z;
  s_state : sstate; s_since : Z;
  s_label : Z; s_traits : Z; s_valid_until : Z;
  s_counters : list (Z * Z)
}.
#[export] Instance eta_server : Settable _ :=
  settable! mkServer <s_name; s_parent; s_cap; s_free; s_apps; s_state; s_since; s_label; s_traits; s_valid_until; s_counters>.

(** Bucket (inner node; the cell is the root bucket) *)
Record bucket := mkBucket {
  b_name : Z; b_parent : option Z; b_level : Z;
  b_children : list (option Z);             (* Node.children with None holes *)
  b_free : vec;                             (* stored aggregate *)
  b_self_traits : Z;
  b_child_traits : list (Z * Z);            (* TraitSet.children_traits: child name -> traits *)
  b_labels : list Z;                        (* stored, grows only *)
  b_counters : list (Z * Z);                (* stored affinity counters *)
  b_cursors : list (Z * nat)                (* SpreadStrategy.current_idx per affinity *)
}.
#[export] Instance eta_bucket : Settable _ :=
  settable! mkBucket <b_name; b_parent; b_level; b_children; b_free; b_self_traits; b_child_traits; b_labels;
                      b_counters; b_cursors>.

(** Allocation tree *)
Inductive alloc :=
  Alloc (reserved : vec) (rank adj : Z) (traits : Z) (max_util : option Q)
        (apps : list Z) (subs : list (Z * alloc)).
Definition al_reserved (a : alloc) := let '(Alloc r _ _ _ _ _ _) := a in r.
Definition al_rank (a : alloc) := let '(Alloc _ r _ _ _ _ _) := a in r.
Definition al_adj (a : alloc) := let '(Alloc _ _ j _ _ _ _) := a in j.
Definition al_traits (a : alloc) := let '(Alloc _ _ _ t _ _ _) := a in t.
Definition al_maxutil (a : alloc) := let '(Alloc _ _ _ _ m _ _) := a in m.
Definition al_apps (a : alloc) := let '(Alloc _ _ _ _ _ l _) := a in l.
Definition al_subs (a : alloc) := let '(Alloc _ _ _ _ _ _ s) := a in s.

(** Identity group *)
Record idgroup := mkGroup { g_count : Z; g_avail : list Z }.

(** Cell *)
Record cell := mkCell {
  c_dim : nat;
  c_root : Z;                               (* name of the root bucket *)
  c_servers : list server;                  (* attached servers, in attachment order *)
  c_buckets : list bucket;
  c_apps : list app;                        (* Cell.apps, insertion order *)
  c_parts : list (Z * alloc);               (* Cell.partitions: label -> top allocation *)
  c_groups : list (Z * idgroup);
  c_now : Z                                 (* virtual clock *)
}.
#[export] Instance eta_cell : Settable _ :=
  settable! mkCell <c_dim; c_root; c_servers; c_buckets; c_apps; c_parts; c_groups; c_now>.

(** lookups / updates by name *)
Fixpoint get_app (n : Z) (l : list app) : option app :=
  match l with [] => None | a :: r => if Z.eqb (a_name a) n then Some a else get_app n r end.
Fixpoint upd_app (n : Z) (f : app -> app) (l : list app) : list app :=
  match l with [] => [] | a :: r => if Z.eqb (a_name a) n then f a :: r else a :: upd_app n f r end.
Fixpoint del_app (n : Z) (l : list app) : list app :=
  match l with [] => [] | a :: r => if Z.eqb (a_name a) n then r else a :: del_app n r end.

Fixpoint get_srv (n : Z) (l : list server) : option server :=
  match l with [] => None | s :: r => if Z.eqb (s_name s) n then Some s else get_srv n r end.
Fixpoint upd_srv (n : Z) (f : server -> server) (l : list server) : list server :=
  match l with [] => [] | s :: r => if Z.eqb (s_name s) n then f s :: r else s :: upd_srv n f r end.
Fixpoint del_srv (n : Z) (l : list server) : list server :=
  match l with [] => [] | s :: r => if Z.eqb (s_name s) n then r else s :: del_srv n r end.

Fixpoint get_bkt (n : Z) (l : list bucket) : option bucket :=
  match l with [] => None | b :: r => if Z.eqb (b_name b) n then Some b else get_bkt n r end.
Fixpoint upd_bkt (n : Z) (f : bucket -> bucket) (l : list bucket) : list bucket :=
  match l with [] => [] | b :: r => if Z.eqb (b_name b) n then f b :: r else b :: upd_bkt n f r end.

Definition c_upd_app (n : Z) (f : app -> app) (c : cell) : cell := c <| c_apps ::= upd_app n f |>.
Definition c_upd_srv (n : Z) (f : server -> server) (c : cell) : cell := c <| c_servers ::= upd_srv n f |>.
Definition c_upd_bkt (n : Z) (f : bucket -> bucket) (c : cell) : cell := c <| c_buckets ::= upd_bkt n f |>.

(** app.affinity.limits[level] : None = inf *)
Definition aff_limit (a : app) (level : Z) : option Z := aget level (a_limits a).
Definition under_limit (count : Z) (lim : option Z) : bool :=
  match lim with None => true | Some l => Z.ltb count l end.

(** level of servers *)
Definition LEVEL_SERVER : Z := 0.
