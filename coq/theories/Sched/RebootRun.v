(** Reboot-bucket correspondence runner.  [reboot_tables] is assembled here from the plain definitions that
    harness/tables_reboot.py regenerates into Gen/Tables.v on every run; [run_case] flattens the model's
    observables to [list Z] exactly like harness/props/reboot.py flattens the implementation's.  Model file:
    no proofs. *)
From Coq Require Import ZArith List Bool.
From TM Require Import Sched.Reboot Gen.Tables.
Import ListNotations.
Open Scope Z_scope.

Definition reboot_tables : rconst := {|
  rc_uptime := reboot_uptime;
  rc_min := reboot_min_uptime;
  rc_def_hms := reboot_default_hms;
  rc_def_days := reboot_default_days
|}.

(** one Partition object: constructor arguments and the calls made on it *)
Inductive rop :=
  | OTick (now : Z)
  | OAdd (s up : Z) (ts : option Z)
  | ORemove (s : Z).

Record rcase := {
  c_sched : sched;      (* reboot_schedule items after int(k), in dict order; [] = None / {} *)
  c_tz : Z;             (* seconds east of UTC of the process (TZ fixed by the harness) *)
  c_now : Z;            (* now passed to the constructor *)
  c_ops : list rop
}.

Fixpoint insert (x : Z) (l : list Z) : list Z :=
  match l with
  | [] => [x]
  | y :: r => if x <=? y then x :: l else y :: insert x r
  end.
Definition isort (l : list Z) : list Z := fold_right insert [] l.

(** number of buckets, then per bucket: time stamp, len(servers), the ids in ascending order; then _reboot_last *)
Definition dump (p : part) : list Z :=
  Z.of_nat (length (p_buckets p))
  :: flat_map (fun b => b_ts b :: load b :: isort (b_srv b)) (p_buckets p) ++ [p_last p].

Definition run_fuel : nat := 400.
Definition wd_epoch : Z := 3.     (* 1970-01-01 was a Thursday *)

(** per call: 0 constructor / 1 tick / 2 add (followed by the server's valid_until) / 3 remove, then the dump;
    -1 = the model ran out of fuel, -2 = IndexError; the run stops there *)
Fixpoint run_ops (C : rconst) (ds : nat -> Z) (p : part) (ops : list rop) : list Z :=
  match ops with
  | [] => []
  | OTick now :: r =>
      match tick C ds run_fuel now p with
      | TOk p' => 1 :: dump p' ++ run_ops C ds p' r
      | TFuel => [-1]
      | TIndex => [-2]
      end
  | OAdd s up ts :: r =>
      match add C s up ts p with
      | Some (v, p') => 2 :: v :: dump p' ++ run_ops C ds p' r
      | None => [-2]
      end
  | ORemove s :: r => let p' := remove s p in 3 :: dump p' ++ run_ops C ds p' r
  end.

Definition run_case (C : rconst) (c : rcase) : list Z :=
  let ds := sched_ds (eff_sched C (c_sched c)) wd_epoch (c_tz c) (start_day (c_tz c) (c_now c)) in
  match init C ds run_fuel (c_now c) with
  | TOk p => 0 :: dump p ++ run_ops C ds p (c_ops c)
  | TFuel => [-1]
  | TIndex => [-2]
  end.
