(** Every state change of a scheduling cycle is a sequence of a few primitive transitions.
    Invariants are then proved once per primitive (InvAcct.v, InvIdent.v, ...). *)
From Coq Require Import ZArith QArith List Bool Lia Relations.
From RecordUpdate Require Import RecordSet.
From TM Require Import Sched.Vec Sched.Types Sched.Queue Sched.Tree Sched.Cycle.
Import ListNotations.
Open Scope Z_scope.

(** ** cells that differ in their buckets only *)
Definition same_core (c c' : cell) : Prop :=
  c_dim c' = c_dim c /\ c_root c' = c_root c /\ c_servers c' = c_servers c /\ c_apps c' = c_apps c /\
  c_parts c' = c_parts c /\ c_groups c' = c_groups c /\ c_now c' = c_now c.

Lemma same_core_refl c : same_core c c.
Proof. repeat split. Qed.
Lemma same_core_trans a b c : same_core a b -> same_core b c -> same_core a c.
Proof. unfold same_core. intuition congruence. Qed.
Lemma same_core_upd_bkt n f c : same_core c (c_upd_bkt n f c).
Proof. repeat split. Qed.

Ltac sc_trans := eapply same_core_trans; [eassumption|].

Lemma propagate_traits_sc fuel : forall c b, same_core c (propagate_traits fuel c b).
Proof.
  induction fuel as [|f IH]; intros c b; cbn; [apply same_core_refl|].
  destruct (get_bkt b (c_buckets c)) as [bk|]; [|apply same_core_refl].
  destruct (b_parent bk) as [p|]; [|apply same_core_refl].
  eapply same_core_trans; [apply same_core_upd_bkt|apply IH].
Qed.
Lemma add_labels_sc fuel : forall c b ls, same_core c (add_labels fuel c b ls).
Proof.
  induction fuel as [|f IH]; intros c b ls; cbn; [apply same_core_refl|].
  destruct (get_bkt b (c_buckets c)) as [bk|]; [|apply same_core_refl].
  destruct (b_parent bk) as [p|]; [eapply same_core_trans; [apply same_core_upd_bkt|apply IH]|apply same_core_upd_bkt].
Qed.
Lemma bump_affinity_sc fuel : forall c b ds sg, same_core c (bump_affinity fuel c b ds sg).
Proof.
  induction fuel as [|f IH]; intros c b ds sg; cbn; [apply same_core_refl|].
  destruct (get_bkt b (c_buckets c)) as [bk|]; [|apply same_core_refl].
  destruct (b_parent bk) as [p|]; [eapply same_core_trans; [apply same_core_upd_bkt|apply IH]|apply same_core_upd_bkt].
Qed.
Lemma bump_from_sc c p ds sg : same_core c (bump_from c p ds sg).
Proof. unfold bump_from. destruct p; [apply bump_affinity_sc|apply same_core_refl]. Qed.
Lemma adjust_up_sc fuel : forall c b v, same_core c (adjust_up fuel c b v).
Proof.
  induction fuel as [|f IH]; intros c b v; cbn; [apply same_core_refl|].
  destruct (get_bkt b (c_buckets c)) as [bk|]; [|apply same_core_refl].
  destruct (b_parent bk) as [p|]; [eapply same_core_trans; [apply same_core_upd_bkt|apply IH]|apply same_core_upd_bkt].
Qed.
Lemma adjust_up_from_sc c p v : same_core c (adjust_up_from c p v).
Proof. unfold adjust_up_from. destruct p; [apply adjust_up_sc|apply same_core_refl]. Qed.
Lemma adjust_down_sc fuel : forall c b pv, same_core c (adjust_down fuel c b pv).
Proof.
  induction fuel as [|f IH]; intros c b pv; cbn; [apply same_core_refl|].
  destruct (get_bkt b (c_buckets c)) as [bk|]; [|apply same_core_refl].
  destruct (live_children (b_children bk)) as [|k ks].
  - destruct (b_parent bk) as [p|]; [eapply same_core_trans; [apply same_core_upd_bkt|apply IH]|apply same_core_upd_bkt].
  - destruct (match pv with Some v => all_lt v (b_free bk) | None => false end); [apply same_core_refl|].
    destruct (any_lt _ _); [|apply same_core_refl].
    destruct (b_parent bk) as [p|]; [eapply same_core_trans; [apply same_core_upd_bkt|apply IH]|apply same_core_upd_bkt].
Qed.
Lemma adjust_down_from_sc c p pv : same_core c (adjust_down_from c p pv).
Proof. unfold adjust_down_from. destruct p; [apply adjust_down_sc|apply same_core_refl]. Qed.
Lemma unhook_server_sc c p s : same_core c (unhook_server c p s).
Proof.
  unfold unhook_server.
  eapply same_core_trans; [apply same_core_upd_bkt|]. eapply same_core_trans; [apply propagate_traits_sc|].
  eapply same_core_trans; [apply bump_affinity_sc|apply adjust_down_sc].
Qed.
Lemma set_cursor_sc c b a i : same_core c (set_cursor c b a i).
Proof. apply same_core_upd_bkt. Qed.

(** ** updates of an instance that no invariant looks at *)
Definition soft (f : app -> app) : Prop :=
  forall x, a_name (f x) = a_name x /\ a_prio (f x) = a_prio x /\ a_demand (f x) = a_demand x /\
            a_aff (f x) = a_aff x /\ a_limits (f x) = a_limits x /\ a_traits (f x) = a_traits x /\
            a_lease (f x) = a_lease x /\ a_drt (f x) = a_drt x /\ a_group (f x) = a_group x /\
            a_once (f x) = a_once x /\ a_order (f x) = a_order x /\ a_alloc (f x) = a_alloc x /\
            a_server (f x) = a_server x /\ a_identity (f x) = a_identity x /\ a_blacklisted (f x) = a_blacklisted x.

(** ** primitive transitions of a cycle *)
Inductive pstep : cell -> cell -> Prop :=
| PS_bkt c c' : same_core c c' -> pstep c c'
| PS_put c sname aname s a lease :
    get_srv sname (c_servers c) = Some s -> get_app aname (c_apps c) = Some a ->
    put_guard c s a lease = true -> pstep c (prim_put c sname aname a lease)
| PS_remove c sname aname s a :
    get_srv sname (c_servers c) = Some s -> get_app aname (c_apps c) = Some a ->
    zmem aname (s_apps s) = true -> pstep c (prim_remove c sname aname a)
| PS_soft c aname f : soft f -> pstep c (c_upd_app aname f c)
| PS_unplace c aname a n :
    get_app aname (c_apps c) = Some a -> a_server a = Some n -> get_srv n (c_servers c) = None ->
    pstep c (c_upd_app aname (fun x => x <| a_server := None |> <| a_evicted := true |>) c)
| PS_release c aname : pstep c (release_identity c aname)
| PS_acquire c aname ch : pstep c (fst (acquire_identity c aname ch))
| PS_forget c aname a i g grp :
    get_app aname (c_apps c) = Some a -> a_identity a = Some i -> group_of c a = Some (g, grp) ->
    Z.geb i (g_count grp) = true ->
    pstep c (c_upd_app aname (fun x => x <| a_identity := None |>) c).

Definition psteps := clos_refl_trans cell pstep.

Lemma ps_refl c : psteps c c. Proof. apply rt_refl. Qed.
Lemma ps_one c c' : pstep c c' -> psteps c c'. Proof. apply rt_step. Qed.
Lemma ps_trans a b c : psteps a b -> psteps b c -> psteps a c. Proof. apply rt_trans. Qed.
Lemma ps_sc c c' : same_core c c' -> psteps c c'. Proof. intros; apply ps_one, PS_bkt; assumption. Qed.

Ltac ps_chain := eapply ps_trans; [|].

(** ** the tree operations *)
Lemma srv_put_lease_ps c sn an l c' : srv_put_lease c sn an l = Some c' -> psteps c c'.
Proof.
  unfold srv_put_lease. destruct (get_srv sn (c_servers c)) as [s|] eqn:Es; [|discriminate].
  destruct (get_app an (c_apps c)) as [a|] eqn:Ea; [|discriminate].
  destruct (put_guard c s a l) eqn:Eg; [|discriminate]. intros H; inversion H; subst; clear H.
  eapply ps_trans; [apply ps_one; eapply PS_put; eassumption|].
  apply ps_sc. eapply same_core_trans; [apply bump_from_sc|apply adjust_down_from_sc].
Qed.
Lemma srv_put_ps c sn an c' : srv_put c sn an = Some c' -> psteps c c'.
Proof. unfold srv_put. destruct (get_app an (c_apps c)); [apply srv_put_lease_ps|discriminate]. Qed.

Lemma soft_expiry ex : soft (fun x => x <| a_expiry := ex |>).
Proof. intros x. repeat split. Qed.
Lemma soft_evicted b : soft (fun x => x <| a_evicted := b |>).
Proof. intros x. repeat split. Qed.
Lemma soft_renew b : soft (fun x => x <| a_renew := b |>).
Proof. intros x. repeat split. Qed.
Lemma soft_rank r : soft (fun x => x <| a_rank := r |>).
Proof. intros x. repeat split. Qed.

Lemma srv_restore_ps c sn an ex : psteps c (fst (srv_restore c sn an ex)).
Proof.
  unfold srv_restore. destruct (get_app an (c_apps c)) as [a|]; [|apply ps_refl].
  destruct (srv_put_lease c sn an 0) as [c'|] eqn:E; cbn [fst].
  - eapply ps_trans; [eapply srv_put_lease_ps; exact E|]. apply ps_one, PS_soft, soft_expiry.
  - apply ps_one, PS_soft, soft_expiry.
Qed.
Lemma srv_renew_ps c sn an : psteps c (fst (srv_renew c sn an)).
Proof.
  unfold srv_renew. destruct (get_srv sn (c_servers c)); [|apply ps_refl].
  destruct (get_app an (c_apps c)) as [a|]; [|apply ps_refl].
  destruct (check_lifetime c a (a_lease a) s); cbn [fst]; [|apply ps_refl].
  apply ps_one, PS_soft, soft_expiry.
Qed.
Lemma srv_remove_ps c sn an : psteps c (srv_remove c sn an).
Proof.
  unfold srv_remove. destruct (get_srv sn (c_servers c)) as [s|] eqn:Es; [|apply ps_refl].
  destruct (get_app an (c_apps c)) as [a|] eqn:Ea; [|apply ps_refl].
  destruct (zmem an (s_apps s)) eqn:Em; cbn [negb]; [|apply ps_refl].
  eapply ps_trans; [apply ps_one; eapply PS_remove; eassumption|].
  apply ps_sc. eapply same_core_trans; [apply bump_from_sc|apply adjust_up_from_sc].
Qed.

Lemma fold_ps {A} (f : cell -> A -> cell) (l : list A) :
  (forall c x, psteps c (f c x)) -> forall c, psteps c (fold_left f l c).
Proof.
  intros Hf. induction l as [|x r IH]; intros c; cbn; [apply ps_refl|].
  eapply ps_trans; [apply Hf|apply IH].
Qed.

Lemma try_children_ps put_bkt b aff an p0 :
  (forall c n, psteps c (fst (put_bkt c n))) ->
  forall l c, psteps c (fst (try_children put_bkt b aff an p0 l c)).
Proof.
  intros Hp. induction l as [|[p n] r IHl]; intros c; cbn [try_children].
  - cbn [fst]. apply ps_sc, set_cursor_sc.
  - set (c1 := set_cursor c b aff (S p)).
    assert (H1 : psteps c c1) by (apply ps_sc, set_cursor_sc).
    destruct (get_srv n (c_servers c1)) as [s|].
    + destruct (s_state s).
      * destruct (srv_put c1 n an) as [c2|] eqn:Ep.
        -- cbn [fst]. eapply ps_trans; [exact H1|]. eapply srv_put_ps; exact Ep.
        -- eapply ps_trans; [exact H1|apply IHl].
      * eapply ps_trans; [exact H1|apply IHl].
      * eapply ps_trans; [exact H1|apply IHl].
    + specialize (Hp c1 n). destruct (put_bkt c1 n) as [c2 ok]. cbn [fst] in Hp.
      destruct ok.
      * cbn [fst]. eapply ps_trans; [exact H1|exact Hp].
      * eapply ps_trans; [exact H1|]. eapply ps_trans; [exact Hp|apply IHl].
Qed.

Lemma bucket_put_ps fuel : forall c b an, psteps c (fst (bucket_put fuel c b an)).
Proof.
  induction fuel as [|f IH]; intros c b an; cbn [bucket_put]; [apply ps_refl|].
  destruct (get_bkt b (c_buckets c)) as [bk|]; [|apply ps_refl].
  destruct (get_app an (c_apps c)) as [a|]; [|apply ps_refl].
  destruct (check_constraints c a (b_labels bk) (bkt_traits bk) (b_counters bk) (b_level bk) (b_free bk)); [|apply ps_refl].
  destruct (live_positions (b_children bk) (cursor_of bk (a_aff a))) as [|[p0 n0] rest] eqn:El.
  - cbn [fst]. apply ps_sc, set_cursor_sc.
  - apply try_children_ps. intros c' n. apply IH.
Qed.
Lemma cell_put_ps c an : psteps c (fst (cell_put c an)).
Proof. apply bucket_put_ps. Qed.

(** ** the phases before the queue *)
Lemma fix_invalid_placements_ps c : psteps c (fix_invalid_placements c).
Proof.
  unfold fix_invalid_placements. apply fold_ps. intros c0 a0.
  destruct (get_app (a_name a0) (c_apps c0)) as [a|] eqn:Ea; [|apply ps_refl].
  destruct (a_server a) as [n|] eqn:Es; [|apply ps_refl].
  unfold is_member. destruct (get_srv n (c_servers c0)) eqn:En; [apply ps_refl|].
  assert (Hname : a_name a = a_name a0).
  { clear -Ea. induction (c_apps c0) as [|x t IH]; cbn in Ea; [discriminate|].
    destruct (Z.eqb_spec (a_name x) (a_name a0)); [inversion Ea; subst; assumption|apply IH; exact Ea]. }
  rewrite Hname.
  eapply ps_trans; [apply ps_one; eapply PS_unplace; eassumption|apply ps_one, PS_release].
Qed.

Lemma handle_inactive_servers_ps c : psteps c (handle_inactive_servers c).
Proof.
  unfold handle_inactive_servers. apply fold_ps. intros c0 s0.
  destruct (get_srv (s_name s0) (c_servers c0)) as [s|]; [|apply ps_refl].
  apply fold_ps. intros c1 n. eapply ps_trans; [apply srv_remove_ps|apply ps_one, PS_release].
Qed.

Lemma handle_blacklisted_ps c : psteps c (handle_blacklisted c).
Proof.
  unfold handle_blacklisted. apply fold_ps. intros c0 a0.
  destruct (get_app (a_name a0) (c_apps c0)) as [a|]; [|apply ps_refl].
  destruct (a_blacklisted a); [|apply ps_refl].
  destruct (a_server a) as [n|].
  - eapply ps_trans; [apply srv_remove_ps|apply ps_one, PS_release].
  - apply ps_one, PS_release.
Qed.

Lemma get_app_name n l a : get_app n l = Some a -> a_name a = n.
Proof.
  induction l as [|x t IH]; cbn; [discriminate|].
  destruct (Z.eqb_spec (a_name x) n); [intros H; inversion H; subst; reflexivity|exact IH].
Qed.

Lemma fix_invalid_identities_ps c : psteps c (fix_invalid_identities c).
Proof.
  unfold fix_invalid_identities. apply fold_ps. intros c0 a0.
  destruct (get_app (a_name a0) (c_apps c0)) as [a|] eqn:Ea; [|apply ps_refl].
  destruct (a_identity a) as [i|] eqn:Ei; [|apply ps_refl].
  destruct (group_of c0 a) as [[g grp]|] eqn:Eg; [|apply ps_refl].
  destruct (Z.geb i (g_count grp)) eqn:Ege; [|apply ps_refl].
  rewrite (get_app_name _ _ _ Ea).
  eapply ps_trans; [apply ps_one; eapply PS_forget; eassumption|].
  destruct (a_server a); [apply srv_remove_ps|apply ps_refl].
Qed.

Lemma pre_phases_ps c : psteps c (pre_phases c).
Proof.
  unfold pre_phases.
  eapply ps_trans; [apply fix_invalid_placements_ps|].
  eapply ps_trans; [apply handle_inactive_servers_ps|].
  eapply ps_trans; [apply handle_blacklisted_ps|apply fix_invalid_identities_ps].
Qed.

(** ** the placement loop *)
Lemma evict_scan_ps victims placer : forall c ev, psteps c (fst (evict_scan victims placer c ev)).
Proof.
  induction victims as [|v r IH]; intros c ev; cbn [evict_scan]; [apply ps_refl|].
  destruct (Z.eqb v placer); [apply ps_refl|].
  destruct (get_app v (c_apps c)) as [va|]; [|apply IH].
  destruct (a_server va) as [sn|]; [|apply IH].
  destruct (get_srv sn (c_servers c)) as [s|]; [|apply IH].
  destruct (s_state s); try apply IH.
  destruct (srv_put (srv_remove c sn v) sn placer) as [c2|] eqn:Ep.
  - cbn [fst]. eapply ps_trans; [apply srv_remove_ps|eapply srv_put_ps; exact Ep].
  - eapply ps_trans; [apply srv_remove_ps|apply IH].
Qed.

Lemma place_one_ps rq st an : psteps (l_cell st) (l_cell (place_one rq st an)).
Proof.
  unfold place_one.
  destruct (get_app an (c_apps (l_cell st))) as [a|]; [|apply ps_refl].
  destruct (a_blacklisted a); [apply ps_refl|].
  destruct (Z.eqb (a_rank a) UNPLACED_RANK).
  { destruct (a_server a); cbn [l_cell set];
      [eapply ps_trans; [apply srv_remove_ps|apply ps_one, PS_release]|apply ps_one, PS_release]. }
  set (cr := if a_renew a
             then match a_server a with
                  | Some n => let '(cr, ok) := srv_renew (l_cell st) n an in
                              if ok then (cr, None) else (srv_remove cr n an, Some (n, a_expiry a))
                  | None => (l_cell st, None)
                  end
             else (l_cell st, None)).
  assert (Hcr : psteps (l_cell st) (fst cr)).
  { subst cr. destruct (a_renew a); [|apply ps_refl]. destruct (a_server a) as [n|]; [|apply ps_refl].
    pose proof (srv_renew_ps (l_cell st) n an) as Hr. destruct (srv_renew (l_cell st) n an) as [c0 ok]. cbn [fst] in Hr.
    destruct ok; cbn [fst]; [exact Hr|]. eapply ps_trans; [exact Hr|apply srv_remove_ps]. }
  destruct cr as [c1 restore]. cbn [fst] in Hcr.
  set (c2 := c_upd_app an (fun x => x <| a_renew := false |>) c1).
  assert (H2 : psteps (l_cell st) c2) by (eapply ps_trans; [exact Hcr|apply ps_one, PS_soft, soft_renew]).
  destruct (get_app an (c_apps c2)) as [a2|]; [|apply ps_refl].
  destruct (a_server a2); [exact H2|].
  pose proof (PS_acquire c2 an (aget an (l_choices st))) as Hacq.
  destruct (acquire_identity c2 an (aget an (l_choices st))) as [c3 got]. cbn [fst] in Hacq.
  assert (H3 : psteps (l_cell st) c3) by (eapply ps_trans; [exact H2|apply ps_one; exact Hacq]).
  destruct got; cbn [negb]; [|exact H3].
  (* restore after eviction *)
  set (r4 := match aget an (l_evicted st) with
             | Some (sn, ex) =>
                 let '(cr, ok) := srv_restore c3 sn an ex in
                 if ok then (c_upd_app an (fun x => x <| a_evicted := false |>) cr, true, adel an (l_evicted st))
                 else (cr, false, adel an (l_evicted st))
             | None => (c3, false, l_evicted st)
             end).
  assert (H4 : psteps c3 (fst (fst r4))).
  { subst r4. destruct (aget an (l_evicted st)) as [[sn ex]|]; [|apply ps_refl].
    pose proof (srv_restore_ps c3 sn an ex) as Hr. destruct (srv_restore c3 sn an ex) as [c0 ok]. cbn [fst] in Hr.
    destruct ok; cbn [fst]; [|exact Hr]. eapply ps_trans; [exact Hr|apply ps_one, PS_soft, soft_evicted]. }
  destruct r4 as [[c4 restored] ev1]. cbn [fst] in H4.
  assert (H4' : psteps (l_cell st) c4) by (eapply ps_trans; eassumption).
  destruct restored; [exact H4'|]. unfold place_tail.
  destruct (get_app an (c_apps c4)) as [a4|]; [|apply ps_refl].
  destruct (a_once a4 && a_evicted a4); [cbn [l_cell set]; eapply ps_trans; [exact H4'|apply ps_one, PS_release]|].
  destruct (negb (tr_feasible (l_tracker st) a4)); [cbn [l_cell set]; eapply ps_trans; [exact H4'|apply ps_one, PS_release]|].
  pose proof (cell_put_ps c4 an) as H5. destruct (cell_put c4 an) as [c5 ok]. cbn [fst] in H5.
  set (r6 := if ok then (c5, ev1) else evict_scan rq an c5 ev1).
  assert (H6 : psteps c5 (fst r6)).
  { subst r6. destruct ok; [apply ps_refl|apply evict_scan_ps]. }
  destruct r6 as [c6 ev2]. cbn [fst] in H6.
  assert (H6' : psteps (l_cell st) c6) by (eapply ps_trans; [exact H4'|eapply ps_trans; eassumption]).
  destruct (match get_app an (c_apps c6) with
            | Some a6 => match a_server a6 with Some _ => true | None => false end
            | None => false
            end); [exact H6'|].
  destruct restore as [[n ex]|].
  - pose proof (srv_restore_ps c6 n an ex) as H7. destruct (srv_restore c6 n an ex) as [c7 ok7]. cbn [fst] in H7.
    destruct ok7; [|unfold give_up]; cbn [l_cell set]; (eapply ps_trans; [exact H6'|]).
    + eapply ps_trans; [exact H7|apply ps_one, PS_soft, soft_renew].
    + eapply ps_trans; [exact H7|apply ps_one, PS_release].
  - unfold give_up. cbn [l_cell set]. eapply ps_trans; [exact H6'|apply ps_one, PS_release].
Qed.

Lemma find_placements_ps c q ch : psteps c (find_placements c q ch).
Proof.
  unfold find_placements.
  assert (G : forall l st, psteps (l_cell st) (l_cell (fold_left (place_one (rev q)) l st))).
  { induction l as [|x r IH]; intros st; cbn; [apply ps_refl|].
    eapply ps_trans; [apply place_one_ps|apply IH]. }
  apply (G q (mkLoop c [] [] ch)).
Qed.

Lemma record_ranks_ps c q : psteps c (record_ranks c q).
Proof. unfold record_ranks. apply fold_ps. intros c0 e. apply ps_one, PS_soft, soft_rank. Qed.

Lemma schedule_alloc_ps c label top ch : psteps c (fst (schedule_alloc c label top ch)).
Proof.
  unfold schedule_alloc. cbn [fst]. eapply ps_trans; [apply record_ranks_ps|apply find_placements_ps].
Qed.

Theorem schedule_ps c ch : psteps c (fst (fst (schedule c ch))).
Proof.
  unfold schedule.
  set (F := fun (acc : cell * list (Z * list entry)) (p : Z * alloc) =>
              let '(cc, qs) := acc in
              match aget (fst p) (c_parts cc) with
              | Some top => let '(cc', q) := schedule_alloc cc (fst p) top ch in (cc', qs ++ [(fst p, q)])
              | None => (cc, qs)
              end).
  assert (G : forall l acc, psteps (fst acc) (fst (fold_left F l acc))).
  { induction l as [|p r IH]; intros acc; cbn [fold_left]; [apply ps_refl|].
    eapply ps_trans; [|apply IH]. subst F. cbn beta. destruct acc as [cc qs]. cbn [fst].
    destruct (aget (fst p) (c_parts cc)) as [top|]; [|apply ps_refl].
    pose proof (schedule_alloc_ps cc (fst p) top ch) as Hs.
    destruct (schedule_alloc cc (fst p) top ch) as [cc' q]. exact Hs. }
  specialize (G (c_parts (pre_phases c)) (pre_phases c, [])).
  fold F. destruct (fold_left F (c_parts (pre_phases c)) (pre_phases c, [])) as [c1 qs]. cbn [fst] in *.
  eapply ps_trans; [apply pre_phases_ps|exact G].
Qed.
