(** C01: the accounting / two-views invariant and its preservation by every primitive transition,
    hence by every scheduling cycle. *)
From Coq Require Import ZArith QArith List Bool Lia Relations.
From RecordUpdate Require Import RecordSet.
From TM Require Import Sched.Vec Sched.Types Sched.Queue Sched.Tree Sched.Cycle Sched.Steps Sched.MapsP.
Import ListNotations.
Open Scope Z_scope.

Definition demand_of (apps : list app) (dim : nat) (n : Z) : vec :=
  match get_app n apps with Some a => a_demand a | None => vzero dim end.
Fixpoint total (apps : list app) (dim : nat) (names : list Z) : vec :=
  match names with [] => vzero dim | n :: r => vadd (demand_of apps dim n) (total apps dim r) end.

Record Acct (c : cell) : Prop := {
  ac_srv_names : NoDup (map s_name (c_servers c));
  ac_app_names : NoDup (map a_name (c_apps c));
  ac_srv_dims : forall n s, get_srv n (c_servers c) = Some s ->
                            length (s_cap s) = c_dim c /\ length (s_free s) = c_dim c /\ nonneg (s_free s);
  ac_app_dims : forall n a, get_app n (c_apps c) = Some a -> length (a_demand a) = c_dim c /\ nonneg (a_demand a);
  ac_acct : forall n s, get_srv n (c_servers c) = Some s ->
                        vadd (s_free s) (total (c_apps c) (c_dim c) (s_apps s)) = s_cap s;
  ac_listed : forall n s m, get_srv n (c_servers c) = Some s -> In m (s_apps s) ->
                            exists a, get_app m (c_apps c) = Some a /\ a_server a = Some n;
  ac_placed : forall m a n s, get_app m (c_apps c) = Some a -> a_server a = Some n ->
                              get_srv n (c_servers c) = Some s -> In m (s_apps s);
  ac_nodup : forall n s, get_srv n (c_servers c) = Some s -> NoDup (s_apps s)
}.

(** ** the invariant looks at (name, server, demand) of instances only *)
Definition app_eq3 (a b : app) : Prop := a_name a = a_name b /\ a_server a = a_server b /\ a_demand a = a_demand b.

Lemma get_app_eq3 l l' : Forall2 app_eq3 l l' -> forall n,
  match get_app n l, get_app n l' with
  | Some a, Some b => app_eq3 a b
  | None, None => True
  | _, _ => False
  end.
Proof.
  induction 1 as [|a b l l' Hab Hl IH]; intros n; cbn; [exact I|].
  destruct Hab as (H1 & H2 & H3). rewrite <- H1. destruct (Z.eqb (a_name a) n); [repeat split; assumption|apply IH].
Qed.

Lemma total_eq3 l l' dim names : Forall2 app_eq3 l l' -> total l dim names = total l' dim names.
Proof.
  intros Hf. induction names as [|n r IH]; cbn; [reflexivity|]. rewrite IH. f_equal.
  unfold demand_of. pose proof (get_app_eq3 _ _ Hf n) as H.
  destruct (get_app n l), (get_app n l'); try contradiction; [destruct H as (_ & _ & H); exact H|reflexivity].
Qed.

Lemma Acct_eq3 c c' :
  c_dim c' = c_dim c -> c_servers c' = c_servers c -> Forall2 app_eq3 (c_apps c) (c_apps c') -> Acct c -> Acct c'.
Proof.
  intros Hd Hs Hf [A1 A2 A3 A4 A5 A6 A7 A8].
  assert (Hnames : map a_name (c_apps c') = map a_name (c_apps c)).
  { clear -Hf. induction Hf as [|a b l l' (H & _) _ IH]; cbn; [reflexivity|]. rewrite IH, H. reflexivity. }
  constructor; rewrite ?Hd, ?Hs, ?Hnames; try assumption.
  - intros n a Hg. pose proof (get_app_eq3 _ _ Hf n) as H. rewrite Hg in H.
    destruct (get_app n (c_apps c)) as [a0|] eqn:E; [|contradiction]. destruct H as (_ & _ & H3). rewrite <- H3.
    eapply A4; exact E.
  - intros n s Hg. rewrite <- (total_eq3 _ _ _ _ Hf). eapply A5; exact Hg.
  - intros n s m Hg Hin. destruct (A6 n s m Hg Hin) as (a & Ha & Hsv).
    pose proof (get_app_eq3 _ _ Hf m) as H. rewrite Ha in H. destruct (get_app m (c_apps c')) as [b|]; [|contradiction].
    exists b. split; [reflexivity|]. destruct H as (_ & H2 & _). congruence.
  - intros m a n s Hg Hsv Hgs. pose proof (get_app_eq3 _ _ Hf m) as H. rewrite Hg in H.
    destruct (get_app m (c_apps c)) as [a0|] eqn:E; [|contradiction]. destruct H as (_ & H2 & _).
    eapply A7; [exact E|rewrite H2; exact Hsv|exact Hgs].
Qed.

Lemma Forall2_eq3_refl l : Forall2 app_eq3 l l.
Proof. induction l; constructor; [repeat split|assumption]. Qed.
Lemma Forall2_eq3_upd n f l : (forall x, app_eq3 x (f x)) -> Forall2 app_eq3 l (upd_app n f l).
Proof.
  intros Hf. induction l as [|x t IH]; cbn; [constructor|].
  destruct (Z.eqb (a_name x) n); constructor; [apply Hf|apply Forall2_eq3_refl|repeat split|exact IH].
Qed.

Lemma Acct_same_core c c' : same_core c c' -> Acct c -> Acct c'.
Proof.
  intros (H1 & _ & H3 & H4 & _). apply Acct_eq3; [exact H1|exact H3|rewrite H4; apply Forall2_eq3_refl].
Qed.

Lemma Acct_upd_app_eq3 c n f : (forall x, app_eq3 x (f x)) -> Acct c -> Acct (c_upd_app n f c).
Proof. intros Hf. apply Acct_eq3; [reflexivity|reflexivity|apply Forall2_eq3_upd; exact Hf]. Qed.

Lemma Acct_release c n : Acct c -> Acct (release_identity c n).
Proof.
  unfold release_identity. destruct (get_app n (c_apps c)) as [a|]; [|tauto].
  destruct (group_of c a) as [[g grp]|]; [|tauto]. destruct (a_identity a); [|tauto].
  intros H. apply Acct_upd_app_eq3; [intros x; repeat split|].
  revert H. apply Acct_eq3; [reflexivity|reflexivity|apply Forall2_eq3_refl].
Qed.
Lemma Acct_acquire c n ch : Acct c -> Acct (fst (acquire_identity c n ch)).
Proof.
  unfold acquire_identity. destruct (get_app n (c_apps c)) as [a|]; [|tauto].
  destruct (group_of c a) as [[g grp]|]; [|tauto]. destruct (a_identity a); [tauto|].
  destruct (g_avail grp); [tauto|]. cbn [fst]. intros H. apply Acct_upd_app_eq3; [intros x; repeat split|].
  revert H. apply Acct_eq3; [reflexivity|reflexivity|apply Forall2_eq3_refl].
Qed.

(** ** totals *)
Lemma total_length apps dim names :
  (forall n a, get_app n apps = Some a -> length (a_demand a) = dim) -> length (total apps dim names) = dim.
Proof.
  intros Hd. induction names as [|n r IH]; cbn; [apply vzero_length|].
  unfold vadd. rewrite vmap2_length; unfold demand_of.
  - destruct (get_app n apps) eqn:E; [eapply Hd; exact E|apply vzero_length].
  - rewrite IH. destruct (get_app n apps) eqn:E; [symmetry; eapply Hd; exact E|symmetry; apply vzero_length].
Qed.
Lemma total_app apps dim l1 l2 :
  (forall n a, get_app n apps = Some a -> length (a_demand a) = dim) ->
  total apps dim (l1 ++ l2) = vadd (total apps dim l1) (total apps dim l2).
Proof.
  intros Hd. induction l1 as [|n r IH]; cbn.
  - rewrite vadd_comm. symmetry. apply vadd_zero_r. apply total_length. exact Hd.
  - rewrite IH. symmetry. apply vadd_assoc.
Qed.
Lemma total_zremove apps dim m l :
  (forall n a, get_app n apps = Some a -> length (a_demand a) = dim) -> In m l ->
  total apps dim l = vadd (demand_of apps dim m) (total apps dim (zremove m l)).
Proof.
  intros Hd. induction l as [|x t IH]; cbn; [tauto|]. intros Hin.
  destruct (Z.eqb_spec x m) as [->|Hne]; [reflexivity|].
  destruct Hin as [->|Hin]; [congruence|]. cbn. rewrite IH by exact Hin.
  rewrite <- !vadd_assoc. f_equal. apply vadd_comm.
Qed.

(** ** put *)
Lemma Acct_put c sn an s a lease :
  get_srv sn (c_servers c) = Some s -> get_app an (c_apps c) = Some a -> put_guard c s a lease = true ->
  Acct c -> Acct (prim_put c sn an a lease).
Proof.
  intros Hs Ha Hg [A1 A2 A3 A4 A5 A6 A7 A8].
  unfold put_guard in Hg. repeat (apply andb_true_iff in Hg as [Hg ?]).
  match goal with H : check_constraints _ _ _ _ _ _ _ = true |- _ => rename H into Hcc end.
  unfold check_constraints in Hcc. apply andb_true_iff in Hcc as [_ Hcap]. apply negb_true_iff in Hcap.
  apply negb_true_iff in Hg. apply zmem_false in Hg.
  assert (Han : a_name a = an) by (eapply get_app_name; exact Ha). rewrite Han in Hg.
  assert (Hsrv0 : a_server a = None) by (destruct (a_server a); [discriminate|reflexivity]).
  assert (Hsn : s_name s = sn) by (eapply get_srv_name; exact Hs).
  destruct (A3 _ _ Hs) as (Hlc & Hlf & Hnf). destruct (A4 _ _ Ha) as (Hld & Hnd).
  set (fs := fun x : server => x <| s_free := vsub (s_free x) (a_demand a) |>
                                  <| s_apps ::= (fun l => l ++ [an]) |> <| s_counters ::= cadd (a_aff a) 1 |>).
  set (fa := fun x : app => (match a_expiry x with
                             | None => x <| a_expiry := Some (c_now c + lease) |>
                             | Some _ => x
                             end) <| a_server := Some sn |>).
  assert (Hfs : forall x, s_name (fs x) = s_name x) by reflexivity.
  assert (Hfa : forall x, a_name (fa x) = a_name x) by (intros x; unfold fa; destruct (a_expiry x); reflexivity).
  assert (Hfd : forall x, a_demand (fa x) = a_demand x) by (intros x; unfold fa; destruct (a_expiry x); reflexivity).
  assert (Hfsv : forall x, a_server (fa x) = Some sn) by (intros x; unfold fa; destruct (a_expiry x); reflexivity).
  assert (Hdem : forall m, demand_of (upd_app an fa (c_apps c)) (c_dim c) m = demand_of (c_apps c) (c_dim c) m).
  { intros m. unfold demand_of. destruct (Z.eq_dec m an) as [->|Hne].
    - rewrite (get_upd_app_same _ _ _ _ Hfa Ha), Ha. apply Hfd.
    - rewrite get_upd_app_other by assumption. reflexivity. }
  assert (Htot : forall l, total (upd_app an fa (c_apps c)) (c_dim c) l = total (c_apps c) (c_dim c) l).
  { induction l as [|m r IH]; cbn; [reflexivity|]. rewrite IH, Hdem. reflexivity. }
  assert (Hdlen : forall n0 a0, get_app n0 (c_apps c) = Some a0 -> length (a_demand a0) = c_dim c)
    by (intros n0 a0 Hq; apply (A4 n0 a0 Hq)).
  unfold prim_put. fold fs. fold fa.
  constructor; cbn [c_upd_app c_upd_srv c_servers c_apps c_dim set].
  - rewrite upd_srv_names by exact Hfs. exact A1.
  - rewrite upd_app_names by exact Hfa. exact A2.
  - intros n s' Hg'. destruct (Z.eq_dec n sn) as [->|Hne].
    + rewrite (get_upd_srv_same _ _ _ _ Hfs Hs) in Hg'. inversion Hg'; subst s'. cbn.
      split; [exact Hlc|]. split.
      * unfold vsub. rewrite vmap2_length; lia.
      * apply not_any_gt_sub_nonneg; [lia|exact Hcap].
    + rewrite get_upd_srv_other in Hg' by assumption. eapply A3; exact Hg'.
  - intros n a' Hg'. destruct (Z.eq_dec n an) as [->|Hne].
    + rewrite (get_upd_app_same _ _ _ _ Hfa Ha) in Hg'. inversion Hg'; subst a'. rewrite Hfd. eapply A4; exact Ha.
    + rewrite get_upd_app_other in Hg' by assumption. eapply A4; exact Hg'.
  - intros n s' Hg'. rewrite Htot. destruct (Z.eq_dec n sn) as [->|Hne].
    + rewrite (get_upd_srv_same _ _ _ _ Hfs Hs) in Hg'. inversion Hg'; subst s'. cbn.
      rewrite total_app by exact Hdlen. cbn [total]. unfold demand_of. rewrite Ha.
      rewrite (vadd_zero_r (a_demand a) (c_dim c) Hld).
      rewrite vsub_vadd; [apply (A5 _ _ Hs)|lia|rewrite total_length by exact Hdlen; lia].
    + rewrite get_upd_srv_other in Hg' by assumption. eapply A5; exact Hg'.
  - intros n s' m Hg' Hin. destruct (Z.eq_dec n sn) as [->|Hne].
    + rewrite (get_upd_srv_same _ _ _ _ Hfs Hs) in Hg'. inversion Hg'; subst s'. cbn in Hin.
      apply in_app_or in Hin as [Hin|[<-|[]]].
      * destruct (A6 _ _ _ Hs Hin) as (a0 & Ha0 & Hsv0).
        assert (m <> an) by (intros ->; contradiction).
        exists a0. rewrite get_upd_app_other by assumption. auto.
      * exists (fa a). rewrite (get_upd_app_same _ _ _ _ Hfa Ha). auto.
    + rewrite get_upd_srv_other in Hg' by assumption. destruct (A6 _ _ _ Hg' Hin) as (a0 & Ha0 & Hsv0).
      assert (m <> an) by (intros ->; rewrite Ha in Ha0; inversion Ha0; subst; congruence).
      exists a0. rewrite get_upd_app_other by assumption. auto.
  - intros m a' n s' Hg' Hsv Hgs. destruct (Z.eq_dec m an) as [->|Hne].
    + rewrite (get_upd_app_same _ _ _ _ Hfa Ha) in Hg'. inversion Hg'; subst a'. rewrite Hfsv in Hsv. inversion Hsv; subst n.
      rewrite (get_upd_srv_same _ _ _ _ Hfs Hs) in Hgs. inversion Hgs; subst s'. cbn. apply in_or_app. right. left. reflexivity.
    + rewrite get_upd_app_other in Hg' by assumption. destruct (Z.eq_dec n sn) as [->|Hns].
      * rewrite (get_upd_srv_same _ _ _ _ Hfs Hs) in Hgs. inversion Hgs; subst s'. cbn. apply in_or_app. left.
        eapply A7; eassumption.
      * rewrite get_upd_srv_other in Hgs by assumption. eapply A7; eassumption.
  - intros n s' Hg'. destruct (Z.eq_dec n sn) as [->|Hne].
    + rewrite (get_upd_srv_same _ _ _ _ Hfs Hs) in Hg'. inversion Hg'; subst s'. cbn.
      apply NoDup_snoc; [eapply A8; exact Hs|exact Hg].
    + rewrite get_upd_srv_other in Hg' by assumption. eapply A8; exact Hg'.
Qed.

(** ** remove *)
Lemma Acct_remove c sn an s a :
  get_srv sn (c_servers c) = Some s -> get_app an (c_apps c) = Some a -> zmem an (s_apps s) = true ->
  Acct c -> Acct (prim_remove c sn an a).
Proof.
  intros Hs Ha Hm [A1 A2 A3 A4 A5 A6 A7 A8].
  apply zmem_In in Hm.
  destruct (A3 _ _ Hs) as (Hlc & Hlf & Hnf). destruct (A4 _ _ Ha) as (Hld & Hnd).
  destruct (A6 _ _ _ Hs Hm) as (a0 & Ha0 & Hsv). rewrite Ha in Ha0. inversion Ha0; subst a0. clear Ha0.
  set (fs := fun x : server => x <| s_free := vadd (s_free x) (a_demand a) |> <| s_apps ::= zremove an |>
                                  <| s_counters ::= cadd (a_aff a) (-1) |>).
  set (fa := fun x : app => x <| a_server := None |> <| a_evicted := true |> <| a_unschedule := false |>
                              <| a_expiry := None |>).
  assert (Hfs : forall x, s_name (fs x) = s_name x) by reflexivity.
  assert (Hfa : forall x, a_name (fa x) = a_name x) by reflexivity.
  assert (Hdem : forall m, demand_of (upd_app an fa (c_apps c)) (c_dim c) m = demand_of (c_apps c) (c_dim c) m).
  { intros m. unfold demand_of. destruct (Z.eq_dec m an) as [->|Hne].
    - rewrite (get_upd_app_same _ _ _ _ Hfa Ha), Ha. reflexivity.
    - rewrite get_upd_app_other by assumption. reflexivity. }
  assert (Htot : forall l, total (upd_app an fa (c_apps c)) (c_dim c) l = total (c_apps c) (c_dim c) l).
  { induction l as [|m r IH]; cbn; [reflexivity|]. rewrite IH, Hdem. reflexivity. }
  assert (Hdlen : forall n0 a0, get_app n0 (c_apps c) = Some a0 -> length (a_demand a0) = c_dim c)
    by (intros n0 a1 Hq; apply (A4 n0 a1 Hq)).
  unfold prim_remove. fold fs. fold fa.
  constructor; cbn [c_upd_app c_upd_srv c_servers c_apps c_dim set].
  - rewrite upd_srv_names by exact Hfs. exact A1.
  - rewrite upd_app_names by exact Hfa. exact A2.
  - intros n s' Hg'. destruct (Z.eq_dec n sn) as [->|Hne].
    + rewrite (get_upd_srv_same _ _ _ _ Hfs Hs) in Hg'. inversion Hg'; subst s'. cbn.
      split; [exact Hlc|]. split.
      * unfold vadd. rewrite vmap2_length; lia.
      * apply nonneg_vadd; assumption.
    + rewrite get_upd_srv_other in Hg' by assumption. eapply A3; exact Hg'.
  - intros n a' Hg'. destruct (Z.eq_dec n an) as [->|Hne].
    + rewrite (get_upd_app_same _ _ _ _ Hfa Ha) in Hg'. inversion Hg'; subst a'. cbn. eapply A4; exact Ha.
    + rewrite get_upd_app_other in Hg' by assumption. eapply A4; exact Hg'.
  - intros n s' Hg'. rewrite Htot. destruct (Z.eq_dec n sn) as [->|Hne].
    + rewrite (get_upd_srv_same _ _ _ _ Hfs Hs) in Hg'. inversion Hg'; subst s'. cbn.
      rewrite <- (A5 _ _ Hs). rewrite (total_zremove _ _ an (s_apps s) Hdlen Hm).
      unfold demand_of. rewrite Ha. apply vadd_assoc.
    + rewrite get_upd_srv_other in Hg' by assumption. eapply A5; exact Hg'.
  - intros n s' m Hg' Hin. destruct (Z.eq_dec n sn) as [->|Hne].
    + rewrite (get_upd_srv_same _ _ _ _ Hfs Hs) in Hg'. inversion Hg'; subst s'. cbn in Hin.
      assert (m <> an) by (intros ->; eapply zremove_not_in; [eapply A8; exact Hs|exact Hin]).
      apply zremove_In in Hin. destruct (A6 _ _ _ Hs Hin) as (a0 & Ha0 & Hsv0).
      exists a0. rewrite get_upd_app_other by assumption. auto.
    + rewrite get_upd_srv_other in Hg' by assumption. destruct (A6 _ _ _ Hg' Hin) as (a0 & Ha0 & Hsv0).
      assert (m <> an) by (intros ->; rewrite Ha in Ha0; inversion Ha0; subst; congruence).
      exists a0. rewrite get_upd_app_other by assumption. auto.
  - intros m a' n s' Hg' Hsv' Hgs. destruct (Z.eq_dec m an) as [->|Hne].
    + rewrite (get_upd_app_same _ _ _ _ Hfa Ha) in Hg'. inversion Hg'; subst a'. cbn in Hsv'. discriminate.
    + rewrite get_upd_app_other in Hg' by assumption. destruct (Z.eq_dec n sn) as [->|Hns].
      * rewrite (get_upd_srv_same _ _ _ _ Hfs Hs) in Hgs. inversion Hgs; subst s'. cbn.
        apply zremove_keep; [exact Hne|]. eapply A7; eassumption.
      * rewrite get_upd_srv_other in Hgs by assumption. eapply A7; eassumption.
  - intros n s' Hg'. destruct (Z.eq_dec n sn) as [->|Hne].
    + rewrite (get_upd_srv_same _ _ _ _ Hfs Hs) in Hg'. inversion Hg'; subst s'. cbn.
      apply zremove_NoDup. eapply A8; exact Hs.
    + rewrite get_upd_srv_other in Hg' by assumption. eapply A8; exact Hg'.
Qed.

(** ** an instance whose server left the cell forgets it *)
Lemma Acct_unplace c an a n :
  get_app an (c_apps c) = Some a -> a_server a = Some n -> get_srv n (c_servers c) = None ->
  Acct c -> Acct (c_upd_app an (fun x => x <| a_server := None |> <| a_evicted := true |>) c).
Proof.
  intros Ha Hsv Hn [A1 A2 A3 A4 A5 A6 A7 A8].
  set (fa := fun x : app => x <| a_server := None |> <| a_evicted := true |>).
  assert (Hfa : forall x, a_name (fa x) = a_name x) by reflexivity.
  assert (Hdem : forall m, demand_of (upd_app an fa (c_apps c)) (c_dim c) m = demand_of (c_apps c) (c_dim c) m).
  { intros m. unfold demand_of. destruct (Z.eq_dec m an) as [->|Hne].
    - rewrite (get_upd_app_same _ _ _ _ Hfa Ha), Ha. reflexivity.
    - rewrite get_upd_app_other by assumption. reflexivity. }
  assert (Htot : forall l, total (upd_app an fa (c_apps c)) (c_dim c) l = total (c_apps c) (c_dim c) l).
  { induction l as [|m r IH]; cbn; [reflexivity|]. rewrite IH, Hdem. reflexivity. }
  constructor; cbn [c_upd_app c_servers c_apps c_dim set]; fold fa.
  - exact A1.
  - rewrite upd_app_names by exact Hfa. exact A2.
  - exact A3.
  - intros m a' Hg'. destruct (Z.eq_dec m an) as [->|Hne].
    + rewrite (get_upd_app_same _ _ _ _ Hfa Ha) in Hg'. inversion Hg'; subst a'. cbn. eapply A4; exact Ha.
    + rewrite get_upd_app_other in Hg' by assumption. eapply A4; exact Hg'.
  - intros m s Hg'. rewrite Htot. eapply A5; exact Hg'.
  - intros k s m Hg' Hin. destruct (A6 _ _ _ Hg' Hin) as (a0 & Ha0 & Hsv0).
    assert (m <> an).
    { intros ->. rewrite Ha in Ha0. inversion Ha0; subst a0. rewrite Hsv in Hsv0. inversion Hsv0; subst k. congruence. }
    exists a0. rewrite get_upd_app_other by assumption. auto.
  - intros m a' k s Hg' Hsv' Hgs. destruct (Z.eq_dec m an) as [->|Hne].
    + rewrite (get_upd_app_same _ _ _ _ Hfa Ha) in Hg'. inversion Hg'; subst a'. cbn in Hsv'. discriminate.
    + rewrite get_upd_app_other in Hg' by assumption. eapply A7; eassumption.
  - exact A8.
Qed.

(** ** every primitive transition, every cycle *)
Lemma soft_eq3 f : soft f -> forall x, app_eq3 x (f x).
Proof. intros Hf x. destruct (Hf x) as (H1 & _ & H3 & _ & _ & _ & _ & _ & _ & _ & _ & _ & H13 & _). repeat split; congruence. Qed.

Theorem Acct_pstep c c' : pstep c c' -> Acct c -> Acct c'.
Proof.
  intros Hs. destruct Hs.
  - apply Acct_same_core; assumption.
  - eapply Acct_put; eassumption.
  - eapply Acct_remove; eassumption.
  - apply Acct_upd_app_eq3. apply soft_eq3. assumption.
  - eapply Acct_unplace; eassumption.
  - apply Acct_release.
  - apply Acct_acquire.
  - apply Acct_upd_app_eq3. intros x. repeat split.
Qed.

Theorem Acct_psteps c c' : psteps c c' -> Acct c -> Acct c'.
Proof. induction 1; [apply Acct_pstep; assumption|tauto|tauto]. Qed.

Theorem Acct_schedule c ch : Acct c -> Acct (fst (fst (schedule c ch))).
Proof. apply Acct_psteps. apply schedule_ps. Qed.

(** ** the events between cycles *)
From TM Require Import Sched.Events.

Lemma Acct_ext c c' : c_dim c' = c_dim c -> c_servers c' = c_servers c -> c_apps c' = c_apps c -> Acct c -> Acct c'.
Proof. intros H1 H2 H3. apply Acct_eq3; [exact H1|exact H2|rewrite H3; apply Forall2_eq3_refl]. Qed.

Lemma attach_common_sc c p ch tr cn lb fr : same_core c (attach_common c p ch tr cn lb fr).
Proof.
  unfold attach_common.
  eapply same_core_trans; [apply same_core_upd_bkt|].
  eapply same_core_trans; [apply propagate_traits_sc|].
  eapply same_core_trans; [apply bump_affinity_sc|].
  eapply same_core_trans; [apply add_labels_sc|apply adjust_up_sc].
Qed.

Lemma get_srv_snoc n l s : get_srv n (l ++ [s]) =
  match get_srv n l with Some x => Some x | None => if Z.eqb (s_name s) n then Some s else None end.
Proof. induction l as [|x t IH]; cbn; [reflexivity|]. destruct (Z.eqb (s_name x) n); [reflexivity|exact IH]. Qed.
Lemma get_app_snoc n l a : get_app n (l ++ [a]) =
  match get_app n l with Some x => Some x | None => if Z.eqb (a_name a) n then Some a else None end.
Proof. induction l as [|x t IH]; cbn; [reflexivity|]. destruct (Z.eqb (a_name x) n); [reflexivity|exact IH]. Qed.
Lemma get_srv_none_notin n l : get_srv n l = None -> ~ In n (map s_name l).
Proof.
  induction l as [|x t IH]; cbn; [tauto|]. destruct (Z.eqb_spec (s_name x) n); [discriminate|].
  intros H [E|Hin]; [congruence|apply IH; assumption].
Qed.
Lemma NoDup_map_snoc {A} (f : A -> Z) l x : NoDup (map f l) -> ~ In (f x) (map f l) -> NoDup (map f (l ++ [x])).
Proof. intros. rewrite map_app. cbn. apply NoDup_snoc; assumption. Qed.

Lemma total_snoc_app apps dim a names :
  (forall m, In m names -> exists b, get_app m apps = Some b) ->
  total (apps ++ [a]) dim names = total apps dim names.
Proof.
  intros Hex. induction names as [|m r IH]; cbn; [reflexivity|].
  rewrite IH by (intros; apply Hex; right; assumption). f_equal.
  unfold demand_of. rewrite get_app_snoc. destruct (Hex m (or_introl eq_refl)) as (b & ->). reflexivity.
Qed.

Lemma Acct_add_server c s :
  get_srv (s_name s) (c_servers c) = None -> s_apps s = [] -> s_free s = s_cap s ->
  length (s_cap s) = c_dim c -> nonneg (s_cap s) ->
  (forall m a, get_app m (c_apps c) = Some a -> a_server a <> Some (s_name s)) ->
  Acct c -> Acct (c <| c_servers ::= (fun l => l ++ [s]) |>).
Proof.
  intros Hn Happs Hfree Hlen Hnn Hnoref [A1 A2 A3 A4 A5 A6 A7 A8].
  constructor; cbn [c_servers c_apps c_dim set].
  - apply NoDup_map_snoc; [exact A1|apply get_srv_none_notin; exact Hn].
  - exact A2.
  - intros n s' Hg. rewrite get_srv_snoc in Hg. destruct (get_srv n (c_servers c)) eqn:E.
    + inversion Hg; subst. eapply A3; exact E.
    + destruct (Z.eqb (s_name s) n); inversion Hg; subst. rewrite Hfree. auto.
  - exact A4.
  - intros n s' Hg. rewrite get_srv_snoc in Hg. destruct (get_srv n (c_servers c)) eqn:E.
    + inversion Hg; subst. eapply A5; exact E.
    + destruct (Z.eqb (s_name s) n); inversion Hg; subst. rewrite Happs, Hfree. cbn. apply vadd_zero_r. exact Hlen.
  - intros n s' m Hg Hin. rewrite get_srv_snoc in Hg. destruct (get_srv n (c_servers c)) eqn:E.
    + inversion Hg; subst. eapply A6; eassumption.
    + destruct (Z.eqb (s_name s) n); inversion Hg; subst. rewrite Happs in Hin. destruct Hin.
  - intros m a n s' Hg Hsv Hgs. rewrite get_srv_snoc in Hgs. destruct (get_srv n (c_servers c)) eqn:E.
    + inversion Hgs; subst. eapply A7; eassumption.
    + destruct (Z.eqb_spec (s_name s) n); inversion Hgs; subst.
      (* an instance may name a server that left the cell (until the next cycle); a server of that name must
         not be added meanwhile -- hypothesis Hnoref *)
      exfalso. eapply Hnoref; eassumption.
  - intros n s' Hg. rewrite get_srv_snoc in Hg. destruct (get_srv n (c_servers c)) eqn:E.
    + inversion Hg; subst. eapply A8; exact E.
    + destruct (Z.eqb (s_name s) n); inversion Hg; subst. rewrite Happs. constructor.
Qed.

Lemma get_srv_del n m l : NoDup (map s_name l) ->
  get_srv m (del_srv n l) = if Z.eqb m n then None else get_srv m l.
Proof.
  induction l as [|x t IH]; cbn; intros Hnd.
  - destruct (Z.eqb m n); reflexivity.
  - inversion Hnd as [|? ? Hni Hnt]; subst. destruct (Z.eqb_spec (s_name x) n) as [E|E].
    + destruct (Z.eqb_spec m n) as [->|Hne].
      * destruct (get_srv n t) eqn:G; [|reflexivity]. exfalso. apply Hni. rewrite E.
        rewrite <- (get_srv_name _ _ _ G). apply in_map. eapply get_srv_In; exact G.
      * destruct (Z.eqb_spec (s_name x) m); [congruence|reflexivity].
    + cbn. destruct (Z.eqb_spec (s_name x) m) as [E2|E2].
      * destruct (Z.eqb_spec m n); [congruence|reflexivity].
      * apply IH. exact Hnt.
Qed.
Lemma del_srv_names_NoDup n l : NoDup (map s_name l) -> NoDup (map s_name (del_srv n l)).
Proof.
  induction l as [|x t IH]; cbn; intros Hnd; [constructor|]. inversion Hnd as [|? ? Hni Hnt]; subst.
  destruct (Z.eqb (s_name x) n); [exact Hnt|]. cbn. constructor; [|apply IH; exact Hnt].
  intros Hin. apply Hni. clear -Hin. induction t as [|y r IHr]; cbn in *; [exact Hin|].
  destruct (Z.eqb (s_name y) n); [right; exact Hin|]. destruct Hin as [H|H]; [left; exact H|right; apply IHr; exact H].
Qed.

Lemma Acct_del_server c n : Acct c -> Acct (c <| c_servers ::= del_srv n |>).
Proof.
  intros [A1 A2 A3 A4 A5 A6 A7 A8].
  constructor; cbn [c_servers c_apps c_dim set]; try assumption.
  - apply del_srv_names_NoDup. exact A1.
  - intros m s Hg. rewrite get_srv_del in Hg by exact A1. destruct (Z.eqb m n); [discriminate|]. eapply A3; exact Hg.
  - intros m s Hg. rewrite get_srv_del in Hg by exact A1. destruct (Z.eqb m n); [discriminate|]. eapply A5; exact Hg.
  - intros m s k Hg Hin. rewrite get_srv_del in Hg by exact A1. destruct (Z.eqb m n); [discriminate|]. eapply A6; eassumption.
  - intros m a k s Hg Hsv Hgs. rewrite get_srv_del in Hgs by exact A1. destruct (Z.eqb k n); [discriminate|]. eapply A7; eassumption.
  - intros m s Hg. rewrite get_srv_del in Hg by exact A1. destruct (Z.eqb m n); [discriminate|]. eapply A8; exact Hg.
Qed.

(** server updates that keep name, capacity, free vector and instance list *)
Lemma Acct_upd_srv_soft c n f :
  (forall x, s_name (f x) = s_name x /\ s_cap (f x) = s_cap x /\ s_free (f x) = s_free x /\ s_apps (f x) = s_apps x) ->
  Acct c -> Acct (c_upd_srv n f c).
Proof.
  intros Hf [A1 A2 A3 A4 A5 A6 A7 A8].
  assert (Hfn : forall x, s_name (f x) = s_name x) by (intros x; apply Hf).
  assert (Hget : forall m s', get_srv m (upd_srv n f (c_servers c)) = Some s' ->
                              exists s, get_srv m (c_servers c) = Some s /\ s_cap s' = s_cap s /\ s_free s' = s_free s
                                        /\ s_apps s' = s_apps s).
  { intros m s' Hg. destruct (Z.eq_dec m n) as [->|Hne].
    - destruct (get_srv n (c_servers c)) as [s|] eqn:E.
      + rewrite (get_upd_srv_same _ _ _ _ Hfn E) in Hg. inversion Hg; subst. exists s. destruct (Hf s) as (_ & H2 & H3 & H4). auto.
      + exfalso. clear -E Hg Hfn. induction (c_servers c) as [|x t IH]; cbn in *; [discriminate|].
        destruct (Z.eqb_spec (s_name x) n); [discriminate|]. cbn in Hg. destruct (Z.eqb_spec (s_name x) n); [contradiction|]. auto.
    - rewrite get_upd_srv_other in Hg by assumption. exists s'. auto. }
  constructor; cbn [c_upd_srv c_servers c_apps c_dim set]; try assumption.
  - rewrite upd_srv_names by exact Hfn. exact A1.
  - intros m s' Hg. destruct (Hget _ _ Hg) as (s & Hs & H2 & H3 & H4). rewrite H2, H3. eapply A3; exact Hs.
  - intros m s' Hg. destruct (Hget _ _ Hg) as (s & Hs & H2 & H3 & H4). rewrite H2, H3, H4. eapply A5; exact Hs.
  - intros m s' k Hg Hin. destruct (Hget _ _ Hg) as (s & Hs & H2 & H3 & H4). rewrite H4 in Hin. eapply A6; eassumption.
  - intros m a k s' Hg Hsv Hgs. destruct (Hget _ _ Hgs) as (s & Hs & H2 & H3 & H4). rewrite H4. eapply A7; eassumption.
  - intros m s' Hg. destruct (Hget _ _ Hg) as (s & Hs & H2 & H3 & H4). rewrite H4. eapply A8; exact Hs.
Qed.

Lemma Acct_add_app c a :
  get_app (a_name a) (c_apps c) = None -> a_server a = None -> length (a_demand a) = c_dim c -> nonneg (a_demand a) ->
  Acct c -> Acct (c <| c_apps ::= (fun l => l ++ [a]) |>).
Proof.
  intros Hn Hsv Hlen Hnn [A1 A2 A3 A4 A5 A6 A7 A8].
  constructor; cbn [c_servers c_apps c_dim set]; try assumption.
  - apply NoDup_map_snoc; [exact A2|apply get_app_none_notin; exact Hn].
  - intros m a' Hg. rewrite get_app_snoc in Hg. destruct (get_app m (c_apps c)) eqn:E.
    + inversion Hg; subst. eapply A4; exact E.
    + destruct (Z.eqb (a_name a) m); inversion Hg; subst. auto.
  - intros n s Hg. rewrite total_snoc_app; [eapply A5; exact Hg|].
    intros m Hin. destruct (A6 _ _ _ Hg Hin) as (b & Hb & _). exists b. exact Hb.
  - intros n s m Hg Hin. destruct (A6 _ _ _ Hg Hin) as (b & Hb & Hbs). exists b. rewrite get_app_snoc, Hb. auto.
  - intros m a' n s Hg Hsv' Hgs. rewrite get_app_snoc in Hg. destruct (get_app m (c_apps c)) eqn:E.
    + inversion Hg; subst. eapply A7; eassumption.
    + destruct (Z.eqb (a_name a) m); inversion Hg; subst. congruence.
Qed.

Lemma get_app_del n m l : NoDup (map a_name l) ->
  get_app m (del_app n l) = if Z.eqb m n then None else get_app m l.
Proof.
  induction l as [|x t IH]; cbn; intros Hnd.
  - destruct (Z.eqb m n); reflexivity.
  - inversion Hnd as [|? ? Hni Hnt]; subst. destruct (Z.eqb_spec (a_name x) n) as [E|E].
    + destruct (Z.eqb_spec m n) as [->|Hne].
      * destruct (get_app n t) eqn:G; [|reflexivity]. exfalso. apply Hni. rewrite E.
        rewrite <- (get_app_name _ _ _ G). apply in_map. eapply get_app_In; exact G.
      * destruct (Z.eqb_spec (a_name x) m); [congruence|reflexivity].
    + cbn. destruct (Z.eqb_spec (a_name x) m) as [E2|E2].
      * destruct (Z.eqb_spec m n); [congruence|reflexivity].
      * apply IH. exact Hnt.
Qed.
Lemma del_app_names_NoDup n l : NoDup (map a_name l) -> NoDup (map a_name (del_app n l)).
Proof.
  induction l as [|x t IH]; cbn; intros Hnd; [constructor|]. inversion Hnd as [|? ? Hni Hnt]; subst.
  destruct (Z.eqb (a_name x) n); [exact Hnt|]. cbn. constructor; [|apply IH; exact Hnt].
  intros Hin. apply Hni. clear -Hin. induction t as [|y r IHr]; cbn in *; [exact Hin|].
  destruct (Z.eqb (a_name y) n); [right; exact Hin|]. destruct Hin as [H|H]; [left; exact H|right; apply IHr; exact H].
Qed.

(** an instance that no server lists can be dropped *)
Lemma Acct_del_app c n :
  (forall k s, get_srv k (c_servers c) = Some s -> ~ In n (s_apps s)) ->
  Acct c -> Acct (c <| c_apps ::= del_app n |>).
Proof.
  intros Hfree [A1 A2 A3 A4 A5 A6 A7 A8].
  assert (Htot : forall k s, get_srv k (c_servers c) = Some s ->
                             total (del_app n (c_apps c)) (c_dim c) (s_apps s) = total (c_apps c) (c_dim c) (s_apps s)).
  { intros k s Hg. specialize (Hfree k s Hg). induction (s_apps s) as [|m r IH]; cbn; [reflexivity|].
    rewrite IH by (intros H; apply Hfree; right; exact H). f_equal. unfold demand_of.
    rewrite get_app_del by exact A2. destruct (Z.eqb_spec m n); [subst; exfalso; apply Hfree; left; reflexivity|reflexivity]. }
  constructor; cbn [c_servers c_apps c_dim set]; try assumption.
  - apply del_app_names_NoDup. exact A2.
  - intros m a Hg. rewrite get_app_del in Hg by exact A2. destruct (Z.eqb m n); [discriminate|]. eapply A4; exact Hg.
  - intros k s Hg. rewrite (Htot k s Hg). eapply A5; exact Hg.
  - intros k s m Hg Hin. destruct (A6 _ _ _ Hg Hin) as (b & Hb & Hbs). exists b. rewrite get_app_del by exact A2.
    destruct (Z.eqb_spec m n); [subst; exfalso; eapply Hfree; eassumption|auto].
  - intros m a k s Hg Hsv Hgs. rewrite get_app_del in Hg by exact A2. destruct (Z.eqb m n); [discriminate|]. eapply A7; eassumption.
Qed.

Lemma Acct_upd_alloc c label path f : Acct c -> Acct (upd_alloc c label path f).
Proof.
  unfold upd_alloc, ensure_part. destruct (aget label (c_parts c)); apply Acct_ext; reflexivity.
Qed.
Lemma Acct_ensure_group c g : Acct c -> Acct (ensure_group c g).
Proof.
  unfold ensure_group. destruct g as [n|]; [|tauto]. destruct (aget n (c_groups c)); [tauto|].
  apply Acct_ext; reflexivity.
Qed.

(** Loader.restore_placement of one instance: a placement step of the cycle's alphabet, then the identity *)
Lemma restore_put_ps c sn an vb ex : psteps c (fst (restore_put c sn an vb ex)).
Proof.
  unfold restore_put. destruct vb; [apply srv_restore_ps|].
  destruct (get_app an (c_apps c)) as [a|]; [|apply ps_refl]. destruct (a_once a); [apply ps_refl|].
  destruct (srv_put c sn an) as [c'|] eqn:E; [|apply ps_refl]. cbn [fst]. eapply srv_put_ps; exact E.
Qed.
Lemma Acct_force_identity c an i : Acct c -> Acct (force_identity c an i).
Proof.
  unfold force_identity. destruct i as [i|]; [|tauto]. destruct (get_app an (c_apps c)) as [a|]; [|tauto].
  destruct (group_of c a) as [[g grp]|]; [|tauto].
  intros H. apply Acct_upd_app_eq3; [intros x; repeat split|].
  revert H. apply Acct_eq3; [reflexivity|reflexivity|apply Forall2_eq3_refl].
Qed.

Definition wf_op (c : cell) (o : op) : Prop :=
  match o with
  | ORestore sname aname verbatim expires ident =>
      (* the call sites of Loader.restore_placement: the server exists and the instance, when it exists, is on no
         server (the server's own instances were just taken off it) *)
      get_srv sname (c_servers c) <> None /\
      (forall a, get_app aname (c_apps c) = Some a -> a_server a = None)
  | OAddServer name parent cap label traits vu =>
      get_srv name (c_servers c) = None /\ length cap = c_dim c /\ nonneg cap /\
      (forall m a, get_app m (c_apps c) = Some a -> a_server a <> Some name)
  | OAddApp label path a =>
      get_app (a_name a) (c_apps c) = None ->
      a_server a = None /\ length (a_demand a) = c_dim c /\ nonneg (a_demand a)
  | _ => True
  end.

Lemma Acct_srv_remove c sn an : Acct c -> Acct (srv_remove c sn an).
Proof. apply Acct_psteps, srv_remove_ps. Qed.
Lemma Acct_srv_remove_all c sn : Acct c -> Acct (srv_remove_all c sn).
Proof.
  unfold srv_remove_all. destruct (get_srv sn (c_servers c)) as [s|]; [|tauto].
  generalize (s_apps s) as l. intros l. revert c. induction l as [|x r IH]; intros c H; cbn; [exact H|].
  apply IH. apply Acct_srv_remove. exact H.
Qed.

Lemma Acct_detach c n : Acct c -> Acct (detach_server c n).
Proof.
  intros H. unfold detach_server. destruct (get_srv n (c_servers c)) as [s|]; [|exact H].
  pose proof (Acct_del_server c n H) as H0.
  destruct (s_parent s) as [p|]; [|exact H0].
  eapply Acct_same_core; [apply unhook_server_sc|exact H0].
Qed.

Lemma Acct_move_server c n p : Acct c -> Acct (move_server c n p).
Proof.
  intros H. unfold move_server. destruct (get_srv n (c_servers c)) as [s|]; [|exact H].
  eapply Acct_same_core; [apply attach_common_sc|]. apply Acct_upd_srv_soft; [intros x; repeat split|].
  destruct (s_parent s) as [p0|]; [eapply Acct_same_core; [apply unhook_server_sc|exact H]|exact H].
Qed.

Lemma srv_remove_app_server c sn an a s :
  Acct c -> get_app an (c_apps c) = Some a -> a_server a = Some sn -> get_srv sn (c_servers c) = Some s ->
  exists a', get_app an (c_apps (srv_remove c sn an)) = Some a' /\ a_server a' = None.
Proof.
  intros HA Ha Hsv Hs. unfold srv_remove. rewrite Hs, Ha.
  assert (Hin : In an (s_apps s)) by (eapply (ac_placed _ HA); eassumption).
  apply zmem_In in Hin. rewrite Hin. cbn [negb].
  set (fa := fun x : app => x <| a_server := None |> <| a_evicted := true |> <| a_unschedule := false |>
                              <| a_expiry := None |>).
  pose proof (same_core_trans _ _ _ (bump_from_sc (prim_remove c sn an a) (s_parent s) [(a_aff a, 1)] (-1))
                (adjust_up_from_sc _ (s_parent s) (vadd (s_free s) (a_demand a)))) as (_ & _ & _ & H4 & _).
  rewrite H4. unfold prim_remove. cbn [c_upd_app c_upd_srv c_apps set]. fold fa.
  exists (fa a). split; [apply get_upd_app_same; [reflexivity|exact Ha]|reflexivity].
Qed.

Lemma Acct_remove_app c n : Acct c -> Acct (remove_app c n).
Proof.
  intros HA. unfold remove_app. destruct (get_app n (c_apps c)) as [a|] eqn:Ea; [|exact HA].
  set (c1 := match a_server a with
             | Some sn => if is_member c sn then srv_remove c sn n else c
             | None => c
             end).
  assert (HA1 : Acct c1).
  { subst c1. destruct (a_server a); [|exact HA]. destruct (is_member c z); [apply Acct_srv_remove; exact HA|exact HA]. }
  assert (Hfree : forall k s, get_srv k (c_servers c1) = Some s -> ~ In n (s_apps s)).
  { intros k s Hg Hin. destruct (ac_listed _ HA1 _ _ _ Hg Hin) as (a1 & Ha1 & Hsv1).
    subst c1. destruct (a_server a) as [sn|] eqn:Esv.
    - unfold is_member in *. destruct (get_srv sn (c_servers c)) as [s0|] eqn:Es.
      + destruct (srv_remove_app_server c sn n a s0 HA Ea Esv Es) as (a' & Ha' & Hn'). rewrite Ha' in Ha1.
        inversion Ha1; subst. congruence.
      + rewrite Ea in Ha1. inversion Ha1; subst a1. rewrite Esv in Hsv1. inversion Hsv1; subst. rewrite Es in Hg. discriminate.
    - rewrite Ea in Ha1. inversion Ha1; subst a1. congruence. }
  set (c2 := match a_alloc a with Some (l0, p0) => upd_alloc c1 l0 p0 (alloc_del_app n) | None => c1 end).
  assert (E2 : c_servers c2 = c_servers c1 /\ c_apps c2 = c_apps c1 /\ c_dim c2 = c_dim c1).
  { subst c2. destruct (a_alloc a) as [[l0 p0]|]; [|auto]. unfold upd_alloc, ensure_part.
    destruct (aget l0 (c_parts c1)); auto. }
  destruct E2 as (E2s & E2a & E2d).
  assert (HA2 : Acct c2) by (eapply Acct_ext; [exact E2d|exact E2s|exact E2a|exact HA1]).
  pose proof (Acct_release c2 n HA2) as HA3.
  apply Acct_del_app; [|exact HA3].
  intros k s Hg. assert (Es3 : c_servers (release_identity c2 n) = c_servers c2).
  { unfold release_identity. destruct (get_app n (c_apps c2)) as [x|]; [|reflexivity].
    destruct (group_of c2 x) as [[g grp]|]; [|reflexivity]. destruct (a_identity x); reflexivity. }
  rewrite Es3, E2s in Hg. eapply Hfree; exact Hg.
Qed.

Lemma Acct_add_app_op c label path a :
  wf_op c (OAddApp label path a) -> Acct c -> Acct (add_app c label path a).
Proof.
  intros Hwf HA. unfold add_app. destruct (get_app (a_name a) (c_apps c)) as [old|] eqn:Eo.
  - apply Acct_ensure_group. apply Acct_upd_app_eq3; [intros x; repeat split|].
    apply Acct_upd_alloc. destruct (a_alloc old) as [[l0 p0]|]; [apply Acct_upd_alloc|]; exact HA.
  - destruct (Hwf Eo) as (H1 & H2 & H3). apply Acct_ensure_group.
    pose proof (Acct_upd_alloc c label path (alloc_add_app (a_name a)) HA) as HA1.
    assert (E : c_apps (upd_alloc c label path (alloc_add_app (a_name a))) = c_apps c /\
                c_dim (upd_alloc c label path (alloc_add_app (a_name a))) = c_dim c).
    { unfold upd_alloc, ensure_part. destruct (aget label (c_parts c)); auto. }
    destruct E as (E1 & E2).
    apply Acct_add_app; [rewrite E1; exact Eo|exact H1|rewrite E2; exact H2|exact H3|exact HA1].
Qed.

Theorem Acct_step c o : wf_op c o -> Acct c -> Acct (step c o).
Proof.
  intros Hwf HA. destruct o; cbn [step].
  - (* OAddBucket *)
    unfold add_bucket. eapply Acct_same_core; [apply attach_common_sc|]. revert HA. apply Acct_ext; reflexivity.
  - (* OAddServer *)
    destruct Hwf as (H1 & H2 & H3 & H4). unfold add_server, new_server. cbn [s_parent].
    eapply Acct_same_core; [apply attach_common_sc|].
    apply Acct_add_server; cbn; auto.
  - (* ORemoveServer *)
    apply Acct_detach. destruct raw; [exact HA|apply Acct_srv_remove_all; exact HA].
  - apply Acct_move_server; exact HA.
  - (* OSetState *)
    unfold srv_set_state. destruct (get_srv name (c_servers c)) as [s|]; [|exact HA].
    destruct (sstate_eqb (s_state s) st); [exact HA|].
    assert (H1 : Acct (c_upd_srv name (fun x => x <| s_state := st |> <| s_since := since |>) c))
      by (apply Acct_upd_srv_soft; [intros x; repeat split|exact HA]).
    destruct st; (eapply Acct_same_core; [|exact H1]); [apply adjust_up_from_sc|apply adjust_down_from_sc|apply adjust_down_from_sc].
  - apply Acct_upd_srv_soft; [intros x; repeat split|exact HA].
  - apply Acct_add_app_op; assumption.
  - apply Acct_remove_app; exact HA.
  - apply Acct_upd_app_eq3; [intros x; repeat split|exact HA].
  - apply Acct_upd_app_eq3; [intros x; repeat split|exact HA].
  - apply Acct_upd_app_eq3; [intros x; repeat split|exact HA].
  - apply Acct_upd_app_eq3; [intros x; repeat split|exact HA].
  - apply Acct_upd_app_eq3; [intros x; repeat split|exact HA].
  - apply Acct_upd_alloc; exact HA.
  - unfold config_group. destruct (aget name (c_groups c)); revert HA; apply Acct_ext; reflexivity.
  - unfold remove_group. destruct (aget name (c_groups c)); [|exact HA].
    destruct (existsb _ _); revert HA; apply Acct_ext; reflexivity.
  - revert HA; apply Acct_ext; reflexivity.
  - pose proof (Acct_schedule c choices HA) as H. destruct (schedule c choices) as [[c' qs] pl]. exact H.
  - (* ORestore *)
    unfold restore_op. destruct (get_app aname (c_apps c)) as [a|]; [|exact HA].
    pose proof (Acct_psteps _ _ (restore_put_ps c sname aname verbatim expires) HA) as H1.
    destruct (restore_put c sname aname verbatim expires) as [c1 ok]. cbn [fst] in H1.
    destruct ok; [apply Acct_force_identity; exact H1|]. destruct (a_once a); [apply Acct_remove_app|]; exact H1.
Qed.

Fixpoint wf_ops (c : cell) (ops : list op) : Prop :=
  match ops with [] => True | o :: r => wf_op c o /\ wf_ops (step c o) r end.

Theorem Acct_run ops : forall c, wf_ops c ops -> Acct c -> Acct (run c ops).
Proof.
  induction ops as [|o r IH]; intros c Hwf HA; cbn; [exact HA|].
  destruct Hwf as [H1 H2]. apply IH; [exact H2|apply Acct_step; assumption].
Qed.

Lemma Acct_init dim root level : Acct (init_cell dim root level).
Proof.
  constructor; cbn; try (constructor; fail); intros; discriminate.
Qed.

(** boolean well-formedness of events, for concrete histories *)
Definition wf_opb (c : cell) (o : op) : bool :=
  match o with
  | ORestore sname aname verbatim expires ident =>
      (match get_srv sname (c_servers c) with Some _ => true | None => false end)
      && (match get_app aname (c_apps c) with
          | Some a => match a_server a with None => true | Some _ => false end
          | None => true
          end)
  | OAddServer name parent cap label traits vu =>
      (match get_srv name (c_servers c) with None => true | Some _ => false end)
      && Nat.eqb (length cap) (c_dim c) && forallb (Z.leb 0) cap
      && forallb (fun a => negb (opt_eqb (a_server a) (Some name))) (c_apps c)
  | OAddApp label path a =>
      match get_app (a_name a) (c_apps c) with
      | Some _ => true
      | None => (match a_server a with None => true | Some _ => false end)
                && Nat.eqb (length (a_demand a)) (c_dim c) && forallb (Z.leb 0) (a_demand a)
      end
  | _ => true
  end.
Fixpoint wf_opsb (c : cell) (ops : list op) : bool :=
  match ops with [] => true | o :: r => wf_opb c o && wf_opsb (step c o) r end.

Lemma forallb_nonneg v : forallb (Z.leb 0) v = true -> nonneg v.
Proof. intros H. apply Forall_forall. intros x Hx. rewrite forallb_forall in H. apply Z.leb_le. apply H. exact Hx. Qed.

Lemma wf_opb_sound c o : wf_opb c o = true -> wf_op c o.
Proof.
  destruct o; cbn; try (intros; exact I).
  - intros H. repeat (apply andb_true_iff in H as [H ?]).
    destruct (get_srv name (c_servers c)); [discriminate|].
    split; [reflexivity|]. split; [apply Nat.eqb_eq; assumption|]. split; [apply forallb_nonneg; assumption|].
    intros m a Hg Hsv.
    match goal with X : forallb _ (c_apps c) = true |- _ => rewrite forallb_forall in X; specialize (X a (get_app_In _ _ _ Hg)) end.
    rewrite Hsv in *. cbn in *. rewrite Z.eqb_refl in *. discriminate.
  - intros H Hn. rewrite Hn in H. repeat (apply andb_true_iff in H as [H ?]).
    destruct (a_server a); [discriminate|]. split; [reflexivity|]. split; [apply Nat.eqb_eq; assumption|apply forallb_nonneg; assumption].
  - intros H. apply andb_true_iff in H as [H1 H2]. split.
    + destruct (get_srv sname (c_servers c)); [discriminate|discriminate].
    + intros a Ha. rewrite Ha in H2. destruct (a_server a); [discriminate|reflexivity].
Qed.
Lemma wf_opsb_sound ops : forall c, wf_opsb c ops = true -> wf_ops c ops.
Proof.
  induction ops as [|o r IH]; intros c H; cbn [wf_opsb wf_ops] in *; [exact I|].
  apply andb_true_iff in H as [H1 H2]. split; [apply wf_opb_sound; exact H1|apply IH; exact H2].
Qed.
