(** C08 at the level of a whole cycle: an instance on a server that is not up (down within the retention time,
    or frozen and not marked for unscheduling) keeps its placement through Cell.schedule. *)
From Coq Require Import ZArith QArith List Bool Lia Relations Permutation.
From RecordUpdate Require Import RecordSet.
From TM Require Import Sched.Vec Sched.Types Sched.Queue Sched.Tree Sched.Cycle Sched.Steps Sched.MapsP Sched.FrameP
                       Sched.InvAcct Sched.InvIdent Sched.QueueP Sched.TurnP Sched.CycleP.
Import ListNotations.
Open Scope Z_scope.

(** the record is what it was, the renew flag possibly cleared *)
Definition keeps (a a' : app) : Prop :=
  dyn_eq a a' /\ a_server a' = a_server a /\ a_expiry a' = a_expiry a /\ a_rank a' = a_rank a /\
  a_evicted a' = a_evicted a /\ a_unschedule a' = a_unschedule a /\ (a_renew a = false -> a_renew a' = false).
Lemma keeps_refl a : keeps a a.
Proof. split; [apply dyn_eq_refl|]. repeat split; auto. Qed.
Lemma keeps_trans a b c : keeps a b -> keeps b c -> keeps a c.
Proof.
  intros (H1 & H2 & H3 & H4 & H5 & H6 & H7) (G1 & G2 & G3 & G4 & G5 & G6 & G7).
  split; [eapply dyn_eq_trans; eassumption|]. repeat split; try congruence. auto.
Qed.

(** its own turn: a placed instance that is not blacklisted, not over the cap and not up for renewal is passed over *)
Lemma place_one_stays rq st x a n :
  app_of (l_cell st) x = Some a -> a_server a = Some n -> a_blacklisted a = false -> a_renew a = false ->
  a_rank a <> UNPLACED_RANK ->
  exists a', app_of (l_cell (place_one rq st x)) x = Some a' /\ keeps a a'.
Proof.
  intros Ha Hsv Hbl Hren Hrank. unfold place_one.
  assert (Ha' : get_app x (c_apps (l_cell st)) = Some a) by exact Ha. rewrite Ha', Hbl.
  destruct (Z.eqb_spec (a_rank a) UNPLACED_RANK) as [E|_]; [contradiction|]. rewrite Hren.
  set (c2 := c_upd_app x (fun z => z <| a_renew := false |>) (l_cell st)).
  assert (Ha2 : app_of c2 x = Some (a <| a_renew := false |>)) by (apply upd_app_self; [reflexivity|exact Ha]).
  assert (Ha2' : get_app x (c_apps c2) = Some (a <| a_renew := false |>)) by exact Ha2. rewrite Ha2'.
  change (a_server (a <| a_renew := false |>)) with (a_server a). rewrite Hsv. cbn [l_cell set].
  eexists. split; [exact Ha2|]. split; [repeat split|]. repeat split.
Qed.

Theorem find_placements_keeps c q ch x a n s :
  Acct c -> app_of c x = Some a -> a_server a = Some n -> get_srv n (c_servers c) = Some s -> s_state s <> Up ->
  a_blacklisted a = false -> a_renew a = false -> (In x q -> a_rank a <> UNPLACED_RANK) ->
  exists a', app_of (find_placements c q ch) x = Some a' /\ keeps a a'.
Proof.
  intros HA Ha Hsv Hs Hst Hbl Hren Hrank. unfold find_placements.
  assert (G : forall l st, incl l q -> psteps c (l_cell st) ->
              (exists a1, app_of (l_cell st) x = Some a1 /\ keeps a a1) ->
              exists a', app_of (l_cell (fold_left (place_one (rev q)) l st)) x = Some a' /\ keeps a a').
  { induction l as [|y r IH]; intros st Hincl Hps Hx; cbn [fold_left]; [exact Hx|].
    apply IH; [intros z Hz; apply Hincl; right; exact Hz|eapply ps_trans; [exact Hps|apply place_one_ps]|].
    destruct Hx as (a1 & Ha1 & K). pose proof K as (Kd & Ksv & Kex & Krk & _ & _ & Krn).
    destruct (Z.eq_dec y x) as [->|Hne].
    - destruct (place_one_stays (rev q) st x a1 n Ha1) as (a2 & Ha2 & K2).
      + congruence.
      + destruct Kd as (_ & _ & _ & _ & _ & _ & _ & _ & _ & _ & _ & _ & Hb & _). congruence.
      + auto.
      + rewrite Krk. apply Hrank. apply Hincl. left. reflexivity.
      + exists a2. split; [exact Ha2|eapply keeps_trans; eassumption].
    - assert (HA1 : Acct (l_cell st)) by (eapply Acct_psteps; eassumption).
      destruct (place_one_other (rev q) st y x HA1 (not_eq_sym Hne)) as [[H1 _]|(_ & a0 & sn & s1 & Ha0 & Hsv0 & Hs1 & Hup & _)].
      + exists a1. split; [rewrite H1; exact Ha1|exact K].
      + exfalso. rewrite Ha1 in Ha0. inversion Ha0; subst a0. rewrite Ksv, Hsv in Hsv0. inversion Hsv0; subst sn.
        destruct (psteps_states_kept _ _ Hps _ _ Hs1) as (s0 & Hs0 & E). rewrite Hs in Hs0. inversion Hs0; subst s0. congruence. }
  apply (G q (mkLoop c [] [] ch)); [apply incl_refl|apply ps_refl|].
  exists a. split; [exact Ha|apply keeps_refl].
Qed.

(** ** what primitive transitions never change: server names, group sizes *)
Lemma pstep_srv_names c c' : pstep c c' -> map s_name (c_servers c') = map s_name (c_servers c).
Proof.
  intros Hs. destruct Hs.
  - destruct H as (_ & _ & H3 & _). rewrite H3. reflexivity.
  - unfold prim_put. cbn [c_upd_app c_upd_srv c_servers set]. apply upd_srv_names. reflexivity.
  - unfold prim_remove. cbn [c_upd_app c_upd_srv c_servers set]. apply upd_srv_names. reflexivity.
  - reflexivity.
  - reflexivity.
  - rewrite release_servers. reflexivity.
  - unfold acquire_identity. destruct (get_app aname (c_apps c)) as [z|]; [|reflexivity].
    destruct (group_of c z) as [[g grp]|]; [|reflexivity]. destruct (a_identity z); [reflexivity|].
    destruct (g_avail grp); reflexivity.
  - reflexivity.
Qed.
Lemma psteps_srv_names c c' : psteps c c' -> map s_name (c_servers c') = map s_name (c_servers c).
Proof. induction 1 as [c c' Hs|c|a b c' H1 IH1 H2 IH2]; [apply pstep_srv_names; exact Hs|reflexivity|congruence]. Qed.
Lemma psteps_srv_exists c c' n s : psteps c c' -> get_srv n (c_servers c) = Some s -> exists s', get_srv n (c_servers c') = Some s'.
Proof.
  intros Hp Hs. destruct (get_srv n (c_servers c')) as [s'|] eqn:E; [exists s'; reflexivity|]. exfalso.
  apply get_srv_none_notin in E. apply E. rewrite (psteps_srv_names _ _ Hp).
  rewrite <- (get_srv_name _ _ _ Hs). apply in_map. eapply get_srv_In; exact Hs.
Qed.

Definition gcount (c : cell) (g : Z) : option Z := option_map g_count (aget g (c_groups c)).
Lemma gcount_aset c g grp grp0 :
  aget g (c_groups c) = Some grp0 -> g_count grp = g_count grp0 ->
  forall g1, option_map g_count (aget g1 (aset g grp (c_groups c))) = gcount c g1.
Proof.
  intros H0 Hc g1. unfold gcount. destruct (Z.eq_dec g1 g) as [->|Hne].
  - rewrite aget_aset_same, H0. cbn. congruence.
  - rewrite aget_aset_other by exact Hne. reflexivity.
Qed.
Lemma pstep_counts c c' : pstep c c' -> forall g, gcount c' g = gcount c g.
Proof.
  intros Hs g. destruct Hs; unfold gcount.
  - destruct H as (_ & _ & _ & _ & _ & H6 & _). rewrite H6. reflexivity.
  - reflexivity.
  - reflexivity.
  - reflexivity.
  - reflexivity.
  - unfold release_identity. destruct (get_app aname (c_apps c)) as [z|]; [|reflexivity].
    unfold group_of. destruct (a_group z) as [g0|]; [|reflexivity]. destruct (aget g0 (c_groups c)) as [grp|] eqn:Eg; [|reflexivity].
    destruct (a_identity z) as [i|]; [|reflexivity]. cbn [c_upd_app c_groups set].
    apply (gcount_aset c g0 _ grp Eg). destruct (Z.ltb i (g_count grp)); reflexivity.
  - unfold acquire_identity. destruct (get_app aname (c_apps c)) as [z|]; [|reflexivity].
    unfold group_of. destruct (a_group z) as [g0|]; [|reflexivity]. destruct (aget g0 (c_groups c)) as [grp|] eqn:Eg; [|reflexivity].
    destruct (a_identity z) as [i|]; [reflexivity|]. destruct (g_avail grp) as [|first rest] eqn:Eav; [reflexivity|].
    cbn [fst c_upd_app c_groups set]. apply (gcount_aset c g0 _ grp Eg). reflexivity.
  - reflexivity.
Qed.
Lemma psteps_counts c c' : psteps c c' -> forall g, gcount c' g = gcount c g.
Proof.
  induction 1 as [c c' Hs|c|a b c' H1 IH1 H2 IH2]; intros g; [apply pstep_counts; exact Hs|reflexivity|].
  rewrite IH2, IH1. reflexivity.
Qed.

(** ** the four phases leave a protected placement alone *)
Record prot (c : cell) (x : Z) (a : app) (n : Z) (s : server) : Prop := {
  pr_app : app_of c x = Some a;
  pr_srv : a_server a = Some n;
  pr_mem : get_srv n (c_servers c) = Some s;
  pr_bl : a_blacklisted a = false;
  pr_down : s_state s = Down -> expired c (s_since s) a = false;
  pr_frozen : s_state s = Frozen -> a_unschedule a = false;
  pr_id : forall i g k, a_identity a = Some i -> a_group a = Some g -> gcount c g = Some k -> i < k
}.

Section Phases.
  Variables (c0 : cell) (x : Z) (a : app) (n : Z) (s : server).
  Hypothesis HA0 : Acct c0.
  Hypothesis H_app : app_of c0 x = Some a.
  Hypothesis H_srv : a_server a = Some n.
  Hypothesis H_mem : get_srv n (c_servers c0) = Some s.
  Hypothesis H_bl : a_blacklisted a = false.
  Hypothesis H_down : s_state s = Down -> expired c0 (s_since s) a = false.
  Hypothesis H_frozen : s_state s = Frozen -> a_unschedule a = false.
  Hypothesis H_id : forall i g k, a_identity a = Some i -> a_group a = Some g -> gcount c0 g = Some k -> i < k.

  Definition K (acc : cell) : Prop := psteps c0 acc /\ app_of acc x = Some a.

  Lemma K_fold {A} (g : cell -> A -> cell) l :
    (forall acc i, K acc -> K (g acc i)) -> forall acc, K acc -> K (fold_left g l acc).
  Proof. intros Hg. induction l as [|i r IH]; intros acc H; cbn [fold_left]; [exact H|]. apply IH, Hg, H. Qed.

  Lemma K_other acc acc' : K acc -> psteps acc acc' -> app_of acc' x = app_of acc x -> K acc'.
  Proof. intros [H1 H2] Hp E. split; [eapply ps_trans; eassumption|congruence]. Qed.

  (* the server record of [n] keeps its state and the time of its last state change *)
  Lemma K_server acc : K acc -> exists s', get_srv n (c_servers acc) = Some s' /\ srv_static s s'.
  Proof.
    intros [Hp _]. destruct (psteps_srv_exists _ _ _ _ Hp H_mem) as (s' & Hs').
    exists s'. split; [exact Hs'|]. destruct (psteps_static _ _ Hp) as (_ & _ & _ & Hsrv).
    destruct (Hsrv _ _ Hs') as (s0 & Hs0 & St). rewrite H_mem in Hs0. inversion Hs0; subst s0. exact St.
  Qed.

  Lemma K_phase1 acc a0 : K acc -> K (phase1_step acc a0).
  Proof.
    intros HK. destruct (Z.eq_dec (a_name a0) x) as [E|Hne].
    - (* its own step: the server is a member *)
      unfold phase1_step. destruct HK as [Hp Hx]. unfold app_of in Hx. rewrite E, Hx, H_srv.
      destruct (K_server acc (conj Hp Hx)) as (s' & Hs' & _). unfold is_member. rewrite Hs'. split; assumption.
    - eapply K_other; [exact HK| |apply phase1_step_other; congruence].
      unfold phase1_step. destruct (get_app (a_name a0) (c_apps acc)) as [b|] eqn:Eb; [|apply ps_refl].
      destruct (a_server b) as [m|] eqn:Es; [|apply ps_refl]. unfold is_member.
      destruct (get_srv m (c_servers acc)) eqn:En; [apply ps_refl|].
      rewrite (get_app_name _ _ _ Eb). eapply ps_trans; [apply ps_one; eapply PS_unplace; eassumption|apply ps_one, PS_release].
  Qed.

  Lemma K_phase2_inner sn : forall l acc, ~ In x l -> K acc ->
    K (fold_left (fun acc2 m => release_identity (srv_remove acc2 sn m) m) l acc).
  Proof.
    induction l as [|m r IH]; intros acc Hni HK; cbn [fold_left]; [exact HK|].
    apply IH; [intros H; apply Hni; right; exact H|].
    assert (Hne : x <> m) by (intros ->; apply Hni; left; reflexivity).
    eapply K_other; [exact HK|eapply ps_trans; [apply srv_remove_ps|apply ps_one, PS_release]|].
    rewrite release_app, srv_remove_app by exact Hne. reflexivity.
  Qed.

  Lemma K_phase2 acc s0 : K acc ->
    K (match get_srv (s_name s0) (c_servers acc) with
       | Some s1 => fold_left (fun acc2 m => release_identity (srv_remove acc2 (s_name s1) m) m) (to_be_moved acc s1) acc
       | None => acc
       end).
  Proof.
    intros HK. destruct (get_srv (s_name s0) (c_servers acc)) as [s1|] eqn:E1; [|exact HK].
    apply K_phase2_inner; [|exact HK]. intros Hin. apply to_be_moved_spec in Hin.
    destruct Hin as (Hin & b & Hb & Hwhy). destruct HK as [Hp Hx].
    assert (Eb : b = a) by (unfold app_of in Hx; congruence). subst b.
    assert (HA : Acct acc) by (eapply Acct_psteps; eassumption).
    destruct (ac_listed _ HA _ _ _ E1 Hin) as (b & Hb2 & Hsv2). rewrite Hb in Hb2. inversion Hb2; subst b.
    rewrite H_srv in Hsv2. inversion Hsv2 as [En].
    destruct (K_server acc (conj Hp Hx)) as (s' & Hs' & (_ & Hst & _ & _ & _ & Hsince & _)).
    rewrite En, E1 in Hs'. inversion Hs'; subst s'.
    destruct (psteps_static _ _ Hp) as (Hnow & _).
    destruct Hwhy as [[Hd He]|[Hf Hu]].
    - rewrite Hst in Hd. pose proof (H_down Hd) as Hne. unfold expired in *. rewrite Hsince, Hnow in He. congruence.
    - rewrite Hst in Hf. pose proof (H_frozen Hf). congruence.
  Qed.

  Lemma K_phase3 acc a0 : K acc -> K (phase3_step acc a0).
  Proof.
    intros HK. destruct (Z.eq_dec (a_name a0) x) as [E|Hne].
    - unfold phase3_step. destruct HK as [Hp Hx]. unfold app_of in Hx. rewrite E, Hx, H_bl. split; assumption.
    - eapply K_other; [exact HK|apply phase3_step_ps|apply phase3_step_other; congruence].
  Qed.

  Definition phase4_step (acc : cell) (a0 : app) : cell :=
    match get_app (a_name a0) (c_apps acc) with
    | Some b =>
        match a_identity b, group_of acc b with
        | Some i, Some (_, grp) =>
            if Z.geb i (g_count grp) then
              let acc1 := c_upd_app (a_name b) (fun z => z <| a_identity := None |>) acc in
              match a_server b with
              | Some m => srv_remove acc1 m (a_name b)
              | None => acc1
              end
            else acc
        | _, _ => acc
        end
    | None => acc
    end.

  Lemma K_phase4 acc a0 : K acc -> K (phase4_step acc a0).
  Proof.
    intros HK. unfold phase4_step. destruct (get_app (a_name a0) (c_apps acc)) as [b|] eqn:Eb; [|exact HK].
    pose proof (get_app_name _ _ _ Eb) as Hn.
    destruct (a_identity b) as [i|] eqn:Ei; [|exact HK].
    destruct (group_of acc b) as [[g grp]|] eqn:Eg; [|exact HK].
    destruct (Z.geb i (g_count grp)) eqn:Ege; [|exact HK].
    destruct (Z.eq_dec (a_name a0) x) as [E|Hne].
    - (* its own identity is valid *)
      exfalso. destruct HK as [Hp Hx]. unfold app_of in Hx. rewrite E, Hx in Eb. inversion Eb; subst b.
      unfold group_of in Eg. destruct (a_group a) as [g0|] eqn:Eg0; [|discriminate].
      destruct (aget g0 (c_groups acc)) as [grp0|] eqn:Egr; [|discriminate]. inversion Eg; subst g0 grp0.
      assert (Hc : gcount c0 g = Some (g_count grp)) by (rewrite <- (psteps_counts _ _ Hp g); unfold gcount; rewrite Egr; reflexivity).
      pose proof (H_id i g _ Ei eq_refl Hc). apply Z.geb_le in Ege. lia.
    - assert (Hxb : x <> a_name b) by congruence.
      eapply K_other; [exact HK| |].
      + assert (Eb' : get_app (a_name b) (c_apps acc) = Some b) by (rewrite Hn; exact Eb).
        eapply ps_trans; [apply ps_one; eapply PS_forget; [exact Eb'|exact Ei|exact Eg|exact Ege]|].
        destruct (a_server b); [apply srv_remove_ps|apply ps_refl].
      + destruct (a_server b); [rewrite srv_remove_app by exact Hxb|]; apply upd_app_other; auto.
  Qed.

  Theorem pre_phases_keeps : K (pre_phases c0).
  Proof.
    unfold pre_phases.
    assert (H0 : K c0) by (split; [apply ps_refl|apply H_app]).
    assert (H1 : K (fix_invalid_placements c0)).
    { unfold fix_invalid_placements. apply (K_fold (fun acc a0 => phase1_step acc a0)); [apply K_phase1|exact H0]. }
    assert (H2 : K (handle_inactive_servers (fix_invalid_placements c0))).
    { unfold handle_inactive_servers. apply K_fold; [apply K_phase2|exact H1]. }
    assert (H3 : K (handle_blacklisted (handle_inactive_servers (fix_invalid_placements c0)))).
    { unfold handle_blacklisted. apply (K_fold (fun acc a0 => phase3_step acc a0)); [apply K_phase3|exact H2]. }
    unfold fix_invalid_identities. apply (K_fold (fun acc a0 => phase4_step acc a0)); [apply K_phase4|exact H3].
  Qed.
End Phases.

(** ** the whole cycle *)
Lemma record_ranks_rank q : forall c x a, app_of c x = Some a ->
  exists a2, app_of (record_ranks c q) x = Some a2 /\ rank_eq a a2 /\
             ((~ In x (map e_app q) /\ a_rank a2 = a_rank a) \/ exists e, In e q /\ e_app e = x /\ a_rank a2 = e_rank e).
Proof.
  induction q as [|e r IH] using rev_ind; intros c x a Ha.
  - exists a. split; [exact Ha|]. split; [apply rank_eq_refl|]. left. split; [intros []|reflexivity].
  - unfold record_ranks. rewrite fold_left_app. cbn [fold_left]. fold (record_ranks c r).
    destruct (IH c x a Ha) as (a1 & Ha1 & Hr1 & Hw).
    set (fr := fun z : app => z <| a_rank := e_rank e |>).
    destruct (Z.eq_dec x (e_app e)) as [->|Hne].
    + exists (fr a1). split; [apply upd_app_self; [reflexivity|exact Ha1]|].
      split; [eapply rank_eq_trans; [exact Hr1|split; repeat split]|].
      right. exists e. split; [apply in_or_app; right; left; reflexivity|]. split; reflexivity.
    + exists a1. split; [rewrite upd_app_other; [exact Ha1|reflexivity|exact Hne]|]. split; [exact Hr1|].
      destruct Hw as [[Hni Hrk]|(e1 & Hin & He & Hrk)].
      * left. split; [|exact Hrk]. rewrite map_app. intros H. apply in_app_or in H. destruct H as [H|[H|[]]]; [contradiction|congruence].
      * right. exists e1. split; [apply in_or_app; left; exact Hin|]. split; assumption.
Qed.

(* everything but the rank *)
Definition keeps_r (a a' : app) : Prop :=
  dyn_eq a a' /\ a_server a' = a_server a /\ a_expiry a' = a_expiry a /\
  a_evicted a' = a_evicted a /\ a_unschedule a' = a_unschedule a /\ (a_renew a = false -> a_renew a' = false).
Lemma keeps_r_refl a : keeps_r a a.
Proof. split; [apply dyn_eq_refl|]. repeat split; auto. Qed.
Lemma keeps_r_trans a b c : keeps_r a b -> keeps_r b c -> keeps_r a c.
Proof.
  intros (H1 & H2 & H3 & H5 & H6 & H7) (G1 & G2 & G3 & G5 & G6 & G7).
  split; [eapply dyn_eq_trans; eassumption|]. repeat split; try congruence. auto.
Qed.

Lemma sched_F_grows ch : forall l acc z, In z (snd acc) -> In z (snd (fold_left (sched_F ch) l acc)).
Proof.
  induction l as [|p r IH]; intros acc z Hz; cbn [fold_left]; [exact Hz|]. apply IH.
  unfold sched_F. destruct acc as [cc qs]. destruct (aget (fst p) (c_parts cc)) as [top|]; [|exact Hz].
  destruct (schedule_alloc cc (fst p) top ch) as [cc' q]. cbn [snd] in *. apply in_or_app. left. exact Hz.
Qed.

Section Keep.
  Variables (c : cell) (ch : list (Z * Z)) (x : Z) (a : app) (n : Z) (s : server).
  Hypothesis HA : Acct c.
  Hypothesis Hsv : a_server a = Some n.
  Hypothesis Hs : get_srv n (c_servers c) = Some s.
  Hypothesis Hst : s_state s <> Up.
  Hypothesis Hbl : a_blacklisted a = false.
  Hypothesis Hren : a_renew a = false.

  Definition J (cc : cell) : Prop := psteps c cc /\ exists a1, app_of cc x = Some a1 /\ keeps_r a a1.

  Lemma J_alloc cc label top :
    J cc -> (forall e, In e (partition_queue cc label top) -> e_app e = x -> e_rank e <> UNPLACED_RANK) ->
    J (fst (schedule_alloc cc label top ch)).
  Proof.
    intros [Hp (a1 & Ha1 & K1)] Hrank. split; [eapply ps_trans; [exact Hp|apply schedule_alloc_ps]|].
    unfold schedule_alloc. cbn [fst]. set (q := partition_queue cc label top) in *.
    destruct (record_ranks_rank q cc x a1 Ha1) as (a2 & Ha2 & Hr2 & Hw).
    pose proof (record_ranks_ps cc q) as Hp2.
    assert (Hp2' : psteps c (record_ranks cc q)) by (eapply ps_trans; eassumption).
    destruct (psteps_srv_exists _ _ _ _ Hp2' Hs) as (s2 & Hs2).
    assert (Hst2 : s_state s2 <> Up).
    { destruct (psteps_states_kept _ _ Hp2' _ _ Hs2) as (s0 & Hs0 & E). rewrite Hs in Hs0. inversion Hs0; subst s0. congruence. }
    pose proof K1 as (Kd & Ksv & Kex & Kev & Kun & Krn).
    pose proof Hr2 as (Rd & Rsv & Rex & Rev & Run & Rrn).
    destruct (find_placements_keeps (record_ranks cc q) (map e_app q) ch x a2 n s2) as (a3 & Ha3 & K3).
    - eapply Acct_psteps; eassumption.
    - exact Ha2.
    - congruence.
    - exact Hs2.
    - exact Hst2.
    - destruct Rd as (_ & _ & _ & _ & _ & _ & _ & _ & _ & _ & _ & _ & Hb & _).
      destruct Kd as (_ & _ & _ & _ & _ & _ & _ & _ & _ & _ & _ & _ & Hb1 & _). congruence.
    - rewrite Rrn. auto.
    - intros Hin. destruct Hw as [[Hni _]|(e & Hine & Hex & Hrk)]; [contradiction|]. rewrite Hrk. exact (Hrank e Hine Hex).
    - exists a3. split; [exact Ha3|].
      destruct K3 as (Dd & Dsv & Dex & _ & Dev & Dun & Drn).
      split; [eapply dyn_eq_trans; [exact Kd|eapply dyn_eq_trans; eassumption]|].
      repeat split; try congruence. intros _. apply Drn. rewrite Rrn. auto.
  Qed.

  Lemma J_fold : forall l cc qs,
    J cc ->
    (forall label q e, In (label, q) (snd (fold_left (sched_F ch) l (cc, qs))) -> In e q -> e_app e = x -> e_rank e <> UNPLACED_RANK) ->
    J (fst (fold_left (sched_F ch) l (cc, qs))).
  Proof.
    induction l as [|p r IH]; intros cc qs HJ Hrank; cbn [fold_left]; [exact HJ|].
    cbn [fold_left] in Hrank. revert Hrank. unfold sched_F at 2 4.
    destruct (aget (fst p) (c_parts cc)) as [top|]; [|intros Hrank; apply IH; assumption].
    pose proof (J_alloc cc (fst p) top HJ) as Hstep. unfold schedule_alloc in *. cbn [fst] in Hstep.
    intros Hrank. apply IH; [|exact Hrank]. apply Hstep.
    intros e Hin He. apply (Hrank (fst p) (partition_queue cc (fst p) top) e); [|exact Hin|exact He].
    apply sched_F_grows. cbn [snd]. apply in_or_app. right. left. reflexivity.
  Qed.
End Keep.

(** C08: an instance that sits on a server that is not up - down for less than its data-retention time, or
    frozen while the instance is not marked for unscheduling - and is not blacklisted, not flagged for renewal,
    holds a valid identity and is not ranked beyond the utilisation cap in this cycle's queues, is on the same
    server with the same expiry after the cycle: the phases leave it alone, nothing evicts it (eviction only
    looks at up servers) and its own turn passes it over. *)
Theorem schedule_keeps c ch x a n s :
  Acct c -> prot c x a n s -> s_state s <> Up -> a_renew a = false ->
  (forall label q e, In (label, q) (snd (fst (schedule c ch))) -> In e q -> e_app e = x -> e_rank e <> UNPLACED_RANK) ->
  exists a', app_of (fst (fst (schedule c ch))) x = Some a' /\ keeps_r a a'.
Proof.
  intros HA HP Hst Hren Hrank.
  destruct HP as [P1 P2 P3 P4 P5 P6 P7].
  destruct (pre_phases_keeps c x a n s HA P1 P2 P3 P4 P5 P6 P7) as [Hp0 Hx0].
  assert (HJ0 : J c x a (pre_phases c)) by (split; [exact Hp0|exists a; split; [exact Hx0|apply keeps_r_refl]]).
  unfold schedule in *. fold (sched_F ch) in *.
  pose proof (J_fold c ch x a n s HA P2 P3 Hst P4 Hren
                (c_parts (pre_phases c)) (pre_phases c) [] HJ0) as HF.
  destruct (fold_left (sched_F ch) (c_parts (pre_phases c)) (pre_phases c, [])) as [c1 qs]. cbn [fst snd] in *.
  destruct (HF Hrank) as [_ (a1 & Ha1 & K1)]. exists a1. split; assumption.
Qed.

(** ** the other half of C08: once the retention time has run out (or a frozen server's instance is marked for
    unscheduling) the placement is gone after the cycle *)
Lemma stays_none_step acc sn m x a1 :
  Acct acc -> app_of acc x = Some a1 -> a_server a1 = None ->
  exists a2, app_of (release_identity (srv_remove acc sn m) m) x = Some a2 /\ a_server a2 = None.
Proof.
  intros HA Ha1 Hs1. destruct (at_srv_remove acc sn m HA x a1 Ha1) as (b & Hb & (_ & _ & Hw)).
  assert (Hsb : a_server b = None) by (destruct Hw as [[E _]|[E _]]; congruence).
  destruct (Z.eq_dec x m) as [->|Hne].
  - destruct (release_self _ _ _ Hb) as (b2 & Hb2 & _ & Hsv2 & _). exists b2. split; [exact Hb2|congruence].
  - exists b. split; [rewrite release_app by exact Hne; exact Hb|exact Hsb].
Qed.
Lemma stays_none_inner sn x : forall l acc a1, Acct acc -> app_of acc x = Some a1 -> a_server a1 = None ->
  exists a2, app_of (fold_left (fun acc2 m => release_identity (srv_remove acc2 sn m) m) l acc) x = Some a2 /\ a_server a2 = None.
Proof.
  induction l as [|m r IH]; intros acc a1 HA Ha1 Hs1; cbn [fold_left]; [exists a1; auto|].
  destruct (stays_none_step acc sn m x a1 HA Ha1 Hs1) as (a2 & Ha2 & Hs2).
  apply (IH _ a2); [|exact Ha2|exact Hs2].
  eapply Acct_psteps; [|exact HA]. eapply ps_trans; [apply srv_remove_ps|apply ps_one, PS_release].
Qed.
Definition phase2_step (acc : cell) (s0 : server) : cell :=
  match get_srv (s_name s0) (c_servers acc) with
  | Some s1 => fold_left (fun acc2 m => release_identity (srv_remove acc2 (s_name s1) m) m) (to_be_moved acc s1) acc
  | None => acc
  end.
Lemma phase2_step_ps acc s0 : psteps acc (phase2_step acc s0).
Proof.
  unfold phase2_step. destruct (get_srv (s_name s0) (c_servers acc)) as [s1|]; [|apply ps_refl].
  apply fold_ps. intros c1 m. eapply ps_trans; [apply srv_remove_ps|apply ps_one, PS_release].
Qed.
Lemma stays_none_outer x : forall l acc a1, Acct acc -> app_of acc x = Some a1 -> a_server a1 = None ->
  exists a2, app_of (fold_left phase2_step l acc) x = Some a2 /\ a_server a2 = None.
Proof.
  induction l as [|s0 r IH]; intros acc a1 HA Ha1 Hs1; cbn [fold_left]; [exists a1; auto|].
  assert (H1 : exists a2, app_of (phase2_step acc s0) x = Some a2 /\ a_server a2 = None).
  { unfold phase2_step. destruct (get_srv (s_name s0) (c_servers acc)) as [s1|]; [|exists a1; auto].
    apply (stays_none_inner _ x _ acc a1); assumption. }
  destruct H1 as (a2 & Ha2 & Hs2). apply (IH _ a2); [eapply Acct_psteps; [apply phase2_step_ps|exact HA]|exact Ha2|exact Hs2].
Qed.
Lemma none_stays c c' x a1 : all_touched c c' -> app_of c x = Some a1 -> a_server a1 = None ->
  exists a2, app_of c' x = Some a2 /\ a_server a2 = None.
Proof.
  intros Ht Ha1 Hs1. destruct (Ht x a1 Ha1) as (a2 & Ha2 & (_ & _ & Hw)). exists a2. split; [exact Ha2|].
  destruct Hw as [[E _]|[E _]]; congruence.
Qed.

Section Expire.
  Variables (c0 : cell) (x : Z) (a : app) (n : Z) (s : server).
  Hypothesis HA0 : Acct c0.
  Hypothesis H_app : app_of c0 x = Some a.
  Hypothesis H_srv : a_server a = Some n.
  Hypothesis H_mem : get_srv n (c_servers c0) = Some s.
  Hypothesis H_move : (s_state s = Down /\ expired c0 (s_since s) a = true) \/ (s_state s = Frozen /\ a_unschedule a = true).

  Lemma inner_removes : forall l acc, K c0 x a acc -> In x l ->
    exists a', app_of (fold_left (fun acc2 m => release_identity (srv_remove acc2 n m) m) l acc) x = Some a' /\ a_server a' = None.
  Proof.
    induction l as [|m r IH]; intros acc HK Hin; [destruct Hin|]. cbn [fold_left].
    assert (HA : Acct acc) by (eapply Acct_psteps; [exact (proj1 HK)|exact HA0]).
    assert (Hps : psteps acc (release_identity (srv_remove acc n m) m)) by (eapply ps_trans; [apply srv_remove_ps|apply ps_one, PS_release]).
    destruct (Z.eq_dec m x) as [->|Hne].
    - destruct (K_server c0 x a n s H_mem acc HK) as (s2 & Hs2 & _). destruct HK as [Hp Hx].
      assert (Hl : In x (s_apps s2)) by (eapply (ac_placed _ HA); eassumption).
      pose proof (srv_remove_self _ _ _ _ _ Hs2 Hx Hl) as Hr.
      destruct (release_self _ _ _ Hr) as (b2 & Hb2 & _ & Hsv2 & _).
      apply (stays_none_inner n x r _ b2); [eapply Acct_psteps; eassumption|exact Hb2|rewrite Hsv2; reflexivity].
    - apply IH; [|destruct Hin as [E|Hin]; [congruence|exact Hin]].
      eapply K_other; [exact HK|exact Hps|]. rewrite release_app, srv_remove_app by congruence. reflexivity.
  Qed.

  Lemma outer_removes : forall l acc, K c0 x a acc -> In n (map s_name l) ->
    exists a', app_of (fold_left phase2_step l acc) x = Some a' /\ a_server a' = None.
  Proof.
    induction l as [|s0 r IH]; intros acc HK Hin; [destruct Hin|]. cbn [fold_left map] in *.
    assert (HA : Acct acc) by (eapply Acct_psteps; [exact (proj1 HK)|exact HA0]).
    destruct (Z.eq_dec (s_name s0) n) as [E|Hne].
    - (* the server's own step *)
      destruct (K_server c0 x a n s H_mem acc HK) as (s2 & Hs2 & (Hn2 & Hst2 & _ & _ & _ & Hsince2 & _)).
      assert (H1 : exists a1, app_of (phase2_step acc s0) x = Some a1 /\ a_server a1 = None).
      { unfold phase2_step. rewrite E, Hs2. rewrite (get_srv_name _ _ _ Hs2). apply inner_removes; [exact HK|].
        apply to_be_moved_spec. destruct HK as [Hp Hx]. split; [eapply (ac_placed _ HA); eassumption|].
        exists a. split; [exact Hx|]. destruct (psteps_static _ _ Hp) as (Hnow & _).
        destruct H_move as [[Hd He]|[Hf Hu]]; [left|right]; (split; [congruence|]); [|exact Hu].
        unfold expired in *. rewrite Hsince2, Hnow. exact He. }
      destruct H1 as (a1 & Ha1 & Hs1). apply (stays_none_outer x r _ a1); [|exact Ha1|exact Hs1].
      eapply Acct_psteps; [apply phase2_step_ps|exact HA].
    - apply IH; [|destruct Hin as [E|Hin]; [congruence|exact Hin]].
      unfold phase2_step. destruct (get_srv (s_name s0) (c_servers acc)) as [s1|] eqn:E1; [|exact HK].
      apply (K_phase2_inner c0 x a H_app); [|exact HK]. intros Hin1. apply to_be_moved_spec in Hin1.
      destruct Hin1 as (Hl & _). destruct HK as [Hp Hx].
      destruct (ac_listed _ HA _ _ _ E1 Hl) as (b & Hb & Hsb). unfold app_of in Hx. rewrite Hx in Hb. inversion Hb; subst b.
      rewrite H_srv in Hsb. inversion Hsb. congruence.
  Qed.

  Theorem pre_phases_moves : exists a0, app_of (pre_phases c0) x = Some a0 /\ a_server a0 = None.
  Proof.
    unfold pre_phases.
    assert (H0 : K c0 x a c0) by (split; [apply ps_refl|exact H_app]).
    assert (H1 : K c0 x a (fix_invalid_placements c0)).
    { unfold fix_invalid_placements. apply (K_fold c0 x a (fun acc a0 => phase1_step acc a0)); [apply (K_phase1 c0 x a n s H_srv H_mem)|exact H0]. }
    set (c1 := fix_invalid_placements c0) in *.
    assert (HA1 : Acct c1) by (eapply Acct_psteps; [exact (proj1 H1)|exact HA0]).
    assert (HM1 : Mem c1) by apply phase1_mem.
    destruct (outer_removes (c_servers c1) c1 H1) as (a2 & Ha2 & Hs2).
    { destruct (K_server c0 x a n s H_mem c1 H1) as (s1 & Hs1 & _).
      rewrite <- (get_srv_name _ _ _ Hs1). apply in_map. eapply get_srv_In; exact Hs1. }
    change (fold_left phase2_step (c_servers c1) c1) with (handle_inactive_servers c1) in Ha2.
    destruct (at_phase2 c1 (conj HA1 HM1)) as [_ HAM2]. set (c2 := handle_inactive_servers c1) in *.
    destruct (at_phase3 c2 HAM2) as [T3 HAM3].
    destruct (none_stays _ _ x a2 T3 Ha2 Hs2) as (a3 & Ha3 & Hs3).
    destruct (at_phase4 _ HAM3) as [T4 _].
    exact (none_stays _ _ x a3 T4 Ha3 Hs3).
  Qed.
End Expire.

Theorem schedule_moves c ch x a n s :
  Acct c -> Ident c -> parts_wf c -> In x (part_apps (c_parts c)) -> app_of c x = Some a -> id_rec a ->
  a_server a = Some n -> get_srv n (c_servers c) = Some s ->
  (s_state s = Down /\ expired c (s_since s) a = true) \/ (s_state s = Frozen /\ a_unschedule a = true) ->
  exists a', app_of (fst (fst (schedule c ch))) x = Some a' /\ a_server a' <> Some n.
Proof.
  intros HA HI Hwf Hin Ha Hid Hsv Hs Hmove.
  destruct (pre_phases_moves c x a n s HA Ha Hsv Hs Hmove) as (a0 & Ha0 & Hs0).
  destruct (schedule_final_mid c ch HA HI Hwf x a Hin Ha Hid) as (a0' & a' & Ha0' & _ & Ha' & (_ & _ & _ & H4)).
  rewrite Ha0 in Ha0'. inversion Ha0'; subst a0'.
  exists a'. split; [exact Ha'|]. intros E. destruct (H4 n E) as (s1 & Hs1 & Hup & _); [rewrite Hs0; discriminate|].
  destruct (psteps_states_kept _ _ (pre_phases_ps c) _ _ Hs1) as (s2 & Hs2 & Est). rewrite Hs in Hs2. inversion Hs2; subst s2.
  destruct Hmove as [[Hd _]|[Hf _]]; congruence.
Qed.

(** ** a blacklisted instance ends every cycle without a server and without an identity *)
Lemma find_placements_skips c q ch x a :
  Acct c -> app_of c x = Some a -> a_blacklisted a = true -> a_server a = None ->
  app_of (find_placements c q ch) x = Some a.
Proof.
  intros HA Ha Hbl Hsv. unfold find_placements.
  assert (G : forall l st, psteps c (l_cell st) -> app_of (l_cell st) x = Some a ->
              app_of (l_cell (fold_left (place_one (rev q)) l st)) x = Some a).
  { induction l as [|y r IH]; intros st Hps Hx; cbn [fold_left]; [exact Hx|].
    apply IH; [eapply ps_trans; [exact Hps|apply place_one_ps]|].
    destruct (Z.eq_dec y x) as [->|Hne].
    - rewrite (place_one_blacklisted (rev q) st x a Hx Hbl). exact Hx.
    - assert (HA1 : Acct (l_cell st)) by (eapply Acct_psteps; eassumption).
      destruct (place_one_other (rev q) st y x HA1 (not_eq_sym Hne)) as [[H1 _]|(_ & a0 & sn & s1 & Ha0 & Hsv0 & _)].
      + rewrite H1. exact Hx.
      + rewrite Hx in Ha0. inversion Ha0; subst a0. congruence. }
  apply (G q (mkLoop c [] [] ch)); [apply ps_refl|exact Ha].
Qed.

Theorem schedule_blacklisted c ch x a :
  Acct c -> Ident c -> app_of c x = Some a -> a_blacklisted a = true ->
  exists a', app_of (fst (fst (schedule c ch))) x = Some a' /\ a_server a' = None /\ no_id a'.
Proof.
  intros HA HI Ha Hbl.
  destruct (pre_phases_spec c HA HI) as ((HA0 & _ & _) & Hat & Hps & Hblr).
  destruct (Hat x a Ha) as (a0 & Ha0 & (Hst & _ & _)).
  assert (Hbl0 : a_blacklisted a0 = true) by (destruct Hst as (_ & _ & _ & _ & _ & _ & _ & _ & _ & _ & _ & _ & Hb); congruence).
  destruct (Hblr x a0 Ha0 Hbl0) as [Hsv0 Hno0].
  unfold schedule. fold (sched_F ch).
  assert (G : forall l cc qs, psteps c cc -> (exists a1, app_of cc x = Some a1 /\ rank_eq a0 a1) ->
              exists a1, app_of (fst (fold_left (sched_F ch) l (cc, qs))) x = Some a1 /\ rank_eq a0 a1).
  { induction l as [|p r IH]; intros cc qs Hp Hx; cbn [fold_left]; [exact Hx|].
    unfold sched_F at 2. destruct (aget (fst p) (c_parts cc)) as [top|]; [|apply IH; assumption].
    unfold schedule_alloc. set (q := partition_queue cc (fst p) top).
    destruct Hx as (a1 & Ha1 & Hr1).
    destruct (record_ranks_spec q cc x a1 Ha1) as (a2 & Ha2 & Hr2).
    assert (Hp2 : psteps c (record_ranks cc q)) by (eapply ps_trans; [exact Hp|apply record_ranks_ps]).
    pose proof (rank_eq_trans _ _ _ Hr1 Hr2) as Hr02. pose proof Hr02 as (Hd & Hs & _).
    apply IH.
    - eapply ps_trans; [exact Hp2|apply find_placements_ps].
    - exists a2. split; [|exact Hr02]. apply find_placements_skips; [eapply Acct_psteps; eassumption|exact Ha2| |congruence].
      destruct Hd as (_ & _ & _ & _ & _ & _ & _ & _ & _ & _ & _ & _ & Hb & _). congruence. }
  destruct (G (c_parts (pre_phases c)) (pre_phases c) [] Hps) as (a1 & Ha1 & (Hd & Hs & _)).
  { exists a0. split; [exact Ha0|apply rank_eq_refl]. }
  destruct (fold_left (sched_F ch) (c_parts (pre_phases c)) (pre_phases c, [])) as [c1 qs]. cbn [fst] in *.
  exists a1. split; [exact Ha1|]. split; [congruence|].
  destruct Hd as (_ & _ & _ & _ & _ & _ & _ & _ & Hg & _ & _ & _ & _ & Hi). destruct Hno0 as [H|H]; [left|right]; congruence.
Qed.
