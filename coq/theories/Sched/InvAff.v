(** C04 (server level): the stored per-server affinity counters are the true counts, and no server holds more
    instances of an affinity than those instances allow at server level. *)
From Coq Require Import ZArith QArith List Bool Lia Relations.
From RecordUpdate Require Import RecordSet.
From TM Require Import Sched.Vec Sched.Types Sched.Queue Sched.Tree Sched.Cycle Sched.Steps Sched.MapsP.
Import ListNotations.
Open Scope Z_scope.

Definition has_aff (apps : list app) (aff : Z) (m : Z) : bool :=
  match get_app m apps with Some a => Z.eqb (a_aff a) aff | None => false end.
Definition count_aff (apps : list app) (aff : Z) (names : list Z) : Z :=
  Z.of_nat (length (filter (has_aff apps aff) names)).

Record Aff (c : cell) : Prop := {
  af_exact : forall n s aff, get_srv n (c_servers c) = Some s ->
                             cget aff (s_counters s) = count_aff (c_apps c) aff (s_apps s);
  af_shared : forall n1 n2 a1 a2, get_app n1 (c_apps c) = Some a1 -> get_app n2 (c_apps c) = Some a2 ->
                                  a_aff a1 = a_aff a2 -> a_limits a1 = a_limits a2;
  af_limit : forall n s m a L, get_srv n (c_servers c) = Some s -> In m (s_apps s) ->
                               get_app m (c_apps c) = Some a -> aff_limit a LEVEL_SERVER = Some L ->
                               cget (a_aff a) (s_counters s) <= L
}.

(** counters *)
Lemma aget_aset_same {A} k (v : A) m : aget k (aset k v m) = Some v.
Proof.
  induction m as [|[k' w] r IH]; cbn; [rewrite Z.eqb_refl; reflexivity|].
  destruct (Z.eqb k' k) eqn:E; cbn; rewrite E; auto.
Qed.
Lemma aget_aset_other {A} k k2 (v : A) m : k2 <> k -> aget k2 (aset k v m) = aget k2 m.
Proof.
  intros Hne. induction m as [|[k' w] r IH]; cbn.
  - destruct (Z.eqb_spec k k2); [congruence|reflexivity].
  - destruct (Z.eqb_spec k' k); cbn.
    + subst. destruct (Z.eqb_spec k k2); [congruence|reflexivity].
    + destruct (Z.eqb k' k2); auto.
Qed.
Lemma cget_cadd k k2 d m : cget k2 (cadd k d m) = cget k2 m + (if Z.eqb k2 k then d else 0).
Proof.
  unfold cget, cadd. destruct (Z.eqb_spec k2 k) as [->|Hne].
  - rewrite aget_aset_same. unfold cget. reflexivity.
  - rewrite aget_aset_other by assumption. lia.
Qed.

(** the invariant reads (name, affinity, limits) of instances *)
Definition app_eqa (a b : app) : Prop := a_name a = a_name b /\ a_aff a = a_aff b /\ a_limits a = a_limits b.
Lemma get_app_eqa l l' : Forall2 app_eqa l l' -> forall n,
  match get_app n l, get_app n l' with
  | Some a, Some b => app_eqa a b
  | None, None => True
  | _, _ => False
  end.
Proof.
  induction 1 as [|a b l l' Hab Hl IH]; intros n; cbn; [exact I|].
  destruct Hab as (H1 & H2 & H3). rewrite <- H1. destruct (Z.eqb (a_name a) n); [repeat split; assumption|apply IH].
Qed.
Lemma count_aff_eqa l l' aff names : Forall2 app_eqa l l' -> count_aff l aff names = count_aff l' aff names.
Proof.
  intros Hf. unfold count_aff. f_equal. f_equal. apply filter_ext. intros m. unfold has_aff.
  pose proof (get_app_eqa _ _ Hf m) as H. destruct (get_app m l), (get_app m l'); try contradiction; [|reflexivity].
  destruct H as (_ & H2 & _). rewrite H2. reflexivity.
Qed.
Lemma Aff_eqa c c' : c_servers c' = c_servers c -> Forall2 app_eqa (c_apps c) (c_apps c') -> Aff c -> Aff c'.
Proof.
  intros Hs Hf [A1 A2 A3].
  assert (Hback : forall n b, get_app n (c_apps c') = Some b -> exists a, get_app n (c_apps c) = Some a /\ app_eqa a b).
  { intros n b Hb. pose proof (get_app_eqa _ _ Hf n) as H. rewrite Hb in H.
    destruct (get_app n (c_apps c)) as [a|]; [|contradiction]. exists a. auto. }
  constructor; rewrite ?Hs.
  - intros n s aff Hg. rewrite <- (count_aff_eqa _ _ _ _ Hf). eapply A1; exact Hg.
  - intros n1 n2 b1 b2 Hb1 Hb2 He. destruct (Hback _ _ Hb1) as (a1 & Ha1 & _ & E1 & L1).
    destruct (Hback _ _ Hb2) as (a2 & Ha2 & _ & E2 & L2). rewrite <- L1, <- L2. eapply A2; [exact Ha1|exact Ha2|congruence].
  - intros n s m b L Hg Hin Hb HL. destruct (Hback _ _ Hb) as (a & Ha & _ & E & Lm).
    rewrite <- E. eapply A3; [exact Hg|exact Hin|exact Ha|]. unfold aff_limit in *. rewrite Lm. exact HL.
Qed.
Lemma Forall2_eqa_refl l : Forall2 app_eqa l l.
Proof. induction l; constructor; [repeat split|assumption]. Qed.
Lemma Forall2_eqa_upd n f l : (forall x, app_eqa x (f x)) -> Forall2 app_eqa l (upd_app n f l).
Proof.
  intros Hf. induction l as [|x t IH]; cbn; [constructor|].
  destruct (Z.eqb (a_name x) n); constructor; [apply Hf|apply Forall2_eqa_refl|repeat split|exact IH].
Qed.
Lemma Aff_upd_app_eqa c n f : (forall x, app_eqa x (f x)) -> Aff c -> Aff (c_upd_app n f c).
Proof. intros Hf. apply Aff_eqa; [reflexivity|apply Forall2_eqa_upd; exact Hf]. Qed.
Lemma Aff_same_core c c' : same_core c c' -> Aff c -> Aff c'.
Proof. intros (_ & _ & H3 & H4 & _). apply Aff_eqa; [exact H3|rewrite H4; apply Forall2_eqa_refl]. Qed.
Lemma Aff_ext c c' : c_servers c' = c_servers c -> c_apps c' = c_apps c -> Aff c -> Aff c'.
Proof. intros H1 H2. apply Aff_eqa; [exact H1|rewrite H2; apply Forall2_eqa_refl]. Qed.

(** counting *)
Lemma count_aff_snoc apps aff l m :
  count_aff apps aff (l ++ [m]) = count_aff apps aff l + (if has_aff apps aff m then 1 else 0).
Proof.
  unfold count_aff. rewrite filter_app, app_length, Nat2Z.inj_add. cbn [filter]. destruct (has_aff apps aff m); cbn [length]; lia.
Qed.
Lemma count_aff_zremove apps aff m l : In m l ->
  count_aff apps aff (zremove m l) = count_aff apps aff l - (if has_aff apps aff m then 1 else 0).
Proof.
  unfold count_aff. induction l as [|x t IH]; cbn; [tauto|]. intros Hin.
  destruct (Z.eqb_spec x m) as [->|Hne].
  - destruct (has_aff apps aff m); cbn [length]; rewrite ?Nat2Z.inj_succ; lia.
  - destruct Hin as [->|Hin]; [congruence|]. specialize (IH Hin). cbn [filter]. destruct (has_aff apps aff x); cbn [length]; rewrite ?Nat2Z.inj_succ; lia.
Qed.

(** ** put *)
Lemma Aff_put c sn an s a lease :
  get_srv sn (c_servers c) = Some s -> get_app an (c_apps c) = Some a -> put_guard c s a lease = true ->
  Aff c -> Aff (prim_put c sn an a lease).
Proof.
  intros Hs Ha Hg [A1 A2 A3].
  unfold put_guard in Hg. repeat (apply andb_true_iff in Hg as [Hg ?]).
  match goal with H : check_constraints _ _ _ _ _ _ _ = true |- _ => rename H into Hcc end.
  unfold check_constraints in Hcc. apply andb_true_iff in Hcc as [Hcc _]. apply andb_true_iff in Hcc as [_ Hlim].
  apply negb_true_iff in Hg. apply zmem_false in Hg.
  assert (Han : a_name a = an) by (eapply get_app_name; exact Ha). rewrite Han in Hg.
  set (fs := fun x : server => x <| s_free := vsub (s_free x) (a_demand a) |>
                                  <| s_apps ::= (fun l => l ++ [an]) |> <| s_counters ::= cadd (a_aff a) 1 |>).
  set (fa := fun x : app => (match a_expiry x with
                             | None => x <| a_expiry := Some (c_now c + lease) |>
                             | Some _ => x
                             end) <| a_server := Some sn |>).
  assert (Hfs : forall x, s_name (fs x) = s_name x) by reflexivity.
  assert (Hfa : forall x, app_eqa x (fa x)) by (intros x; unfold fa; destruct (a_expiry x); repeat split).
  unfold prim_put. fold fs. fold fa.
  apply (Aff_upd_app_eqa _ an fa Hfa).
  (* the server part *)
  constructor; cbn [c_upd_srv c_servers c_apps set].
  - intros n s' aff Hg'. destruct (Z.eq_dec n sn) as [->|Hne].
    + rewrite (get_upd_srv_same _ _ _ _ Hfs Hs) in Hg'. inversion Hg'; subst s'. unfold fs. cbn -[cget cadd count_aff].
      rewrite cget_cadd, count_aff_snoc, (A1 _ _ aff Hs). unfold has_aff. rewrite Ha.
      rewrite Z.eqb_sym. reflexivity.
    + rewrite get_upd_srv_other in Hg' by assumption. eapply A1; exact Hg'.
  - exact A2.
  - intros n s' m b L Hg' Hin Hb HL. destruct (Z.eq_dec n sn) as [->|Hne].
    + rewrite (get_upd_srv_same _ _ _ _ Hfs Hs) in Hg'. inversion Hg'; subst s'. unfold fs in Hin |- *. cbn -[cget cadd count_aff] in Hin |- *.
      rewrite cget_cadd.
      destruct (Z.eqb_spec (a_aff b) (a_aff a)) as [Eaff|Naff].
      * (* same affinity as the new instance: the limit is shared and the guard gives room *)
        assert (HLa : aff_limit a LEVEL_SERVER = Some L).
        { unfold aff_limit in *. rewrite <- (A2 _ _ _ _ Hb Ha Eaff). exact HL. }
        unfold under_limit in Hlim. rewrite HLa in Hlim. apply Z.ltb_lt in Hlim. rewrite Eaff. lia.
      * apply in_app_or in Hin as [Hin|[<-|[]]].
        -- pose proof (A3 _ _ _ _ _ Hs Hin Hb HL). lia.
        -- rewrite Ha in Hb. inversion Hb; subst. congruence.
    + rewrite get_upd_srv_other in Hg' by assumption. eapply A3; eassumption.
Qed.

(** ** remove *)
Lemma Aff_remove c sn an s a :
  get_srv sn (c_servers c) = Some s -> get_app an (c_apps c) = Some a -> zmem an (s_apps s) = true ->
  Aff c -> Aff (prim_remove c sn an a).
Proof.
  intros Hs Ha Hm [A1 A2 A3]. apply zmem_In in Hm.
  set (fs := fun x : server => x <| s_free := vadd (s_free x) (a_demand a) |> <| s_apps ::= zremove an |>
                                  <| s_counters ::= cadd (a_aff a) (-1) |>).
  assert (Hfs : forall x, s_name (fs x) = s_name x) by reflexivity.
  unfold prim_remove. fold fs.
  apply Aff_upd_app_eqa; [intros x; repeat split|].
  constructor; cbn [c_upd_srv c_servers c_apps set].
  - intros n s' aff Hg'. destruct (Z.eq_dec n sn) as [->|Hne].
    + rewrite (get_upd_srv_same _ _ _ _ Hfs Hs) in Hg'. inversion Hg'; subst s'. unfold fs. cbn -[cget cadd count_aff].
      rewrite cget_cadd, (count_aff_zremove _ _ _ _ Hm), (A1 _ _ aff Hs). unfold has_aff. rewrite Ha.
      rewrite Z.eqb_sym. destruct (Z.eqb (a_aff a) aff); lia.
    + rewrite get_upd_srv_other in Hg' by assumption. eapply A1; exact Hg'.
  - exact A2.
  - intros n s' m b L Hg' Hin Hb HL. destruct (Z.eq_dec n sn) as [->|Hne].
    + rewrite (get_upd_srv_same _ _ _ _ Hfs Hs) in Hg'. inversion Hg'; subst s'. unfold fs in Hin |- *. cbn -[cget cadd count_aff] in Hin |- *.
      apply zremove_In in Hin. pose proof (A3 _ _ _ _ _ Hs Hin Hb HL) as Hle.
      rewrite cget_cadd. destruct (Z.eqb (a_aff b) (a_aff a)); lia.
    + rewrite get_upd_srv_other in Hg' by assumption. eapply A3; eassumption.
Qed.

Lemma soft_eqa f : soft f -> forall x, app_eqa x (f x).
Proof.
  intros Hf x. destruct (Hf x) as (H1 & _ & _ & H4 & H5 & _). repeat split; congruence.
Qed.

Lemma Aff_release c an : Aff c -> Aff (release_identity c an).
Proof.
  unfold release_identity. destruct (get_app an (c_apps c)) as [a|]; [|tauto].
  destruct (group_of c a) as [[g grp]|]; [|tauto]. destruct (a_identity a); [|tauto].
  intros H. apply Aff_upd_app_eqa; [intros x; repeat split|]. revert H. apply Aff_ext; reflexivity.
Qed.
Lemma Aff_acquire c an ch : Aff c -> Aff (fst (acquire_identity c an ch)).
Proof.
  unfold acquire_identity. destruct (get_app an (c_apps c)) as [a|]; [|tauto].
  destruct (group_of c a) as [[g grp]|]; [|tauto]. destruct (a_identity a); [tauto|].
  destruct (g_avail grp); [tauto|]. cbn [fst]. intros H. apply Aff_upd_app_eqa; [intros x; repeat split|].
  revert H. apply Aff_ext; reflexivity.
Qed.

Theorem Aff_pstep c c' : pstep c c' -> Aff c -> Aff c'.
Proof.
  intros Hs. destruct Hs.
  - apply Aff_same_core; assumption.
  - eapply Aff_put; eassumption.
  - eapply Aff_remove; eassumption.
  - apply Aff_upd_app_eqa. apply soft_eqa. assumption.
  - apply Aff_upd_app_eqa. intros x. repeat split.
  - apply Aff_release.
  - apply Aff_acquire.
  - apply Aff_upd_app_eqa. intros x. repeat split.
Qed.
Theorem Aff_psteps c c' : psteps c c' -> Aff c -> Aff c'.
Proof. induction 1; [apply Aff_pstep; assumption|tauto|tauto]. Qed.
Theorem Aff_schedule c ch : Aff c -> Aff (fst (fst (schedule c ch))).
Proof. apply Aff_psteps. apply schedule_ps. Qed.

(** ** the events between cycles (together with the accounting invariant) *)
From TM Require Import Sched.Events Sched.InvAcct.

Definition AA (c : cell) : Prop := Acct c /\ Aff c.

Definition wf_op_aff (c : cell) (o : op) : Prop :=
  match o with
  | OAddApp label path a =>
      get_app (a_name a) (c_apps c) = None ->
      forall m b, get_app m (c_apps c) = Some b -> a_aff b = a_aff a -> a_limits b = a_limits a
  | _ => True
  end.

Lemma Aff_add_server c s :
  get_srv (s_name s) (c_servers c) = None -> s_apps s = [] -> s_counters s = [] ->
  Aff c -> Aff (c <| c_servers ::= (fun l => l ++ [s]) |>).
Proof.
  intros Hn Happs Hcnt [A1 A2 A3]. constructor; cbn [c_servers c_apps set]; try assumption.
  - intros n s' aff Hg. rewrite get_srv_snoc in Hg. destruct (get_srv n (c_servers c)) eqn:E.
    + inversion Hg; subst. eapply A1; exact E.
    + destruct (Z.eqb (s_name s) n); inversion Hg; subst. rewrite Happs, Hcnt. reflexivity.
  - intros n s' m a L Hg Hin. rewrite get_srv_snoc in Hg. destruct (get_srv n (c_servers c)) eqn:E.
    + inversion Hg; subst. eapply A3; eassumption.
    + destruct (Z.eqb (s_name s) n); inversion Hg; subst. rewrite Happs in Hin. destruct Hin.
Qed.
Lemma Aff_del_server c n : NoDup (map s_name (c_servers c)) -> Aff c -> Aff (c <| c_servers ::= del_srv n |>).
Proof.
  intros Hnd [A1 A2 A3]. constructor; cbn [c_servers c_apps set]; try assumption.
  - intros m s aff Hg. rewrite get_srv_del in Hg by exact Hnd. destruct (Z.eqb m n); [discriminate|]. eapply A1; exact Hg.
  - intros m s k a L Hg. rewrite get_srv_del in Hg by exact Hnd. destruct (Z.eqb m n); [discriminate|]. eapply A3; exact Hg.
Qed.
Lemma Aff_upd_srv_soft c n f :
  (forall x, s_name (f x) = s_name x /\ s_counters (f x) = s_counters x /\ s_apps (f x) = s_apps x) ->
  Aff c -> Aff (c_upd_srv n f c).
Proof.
  intros Hf [A1 A2 A3].
  assert (Hfn : forall x, s_name (f x) = s_name x) by (intros x; apply Hf).
  assert (Hget : forall m s', get_srv m (upd_srv n f (c_servers c)) = Some s' ->
                              exists s, get_srv m (c_servers c) = Some s /\ s_counters s' = s_counters s /\ s_apps s' = s_apps s).
  { intros m s' Hg. destruct (Z.eq_dec m n) as [->|Hne].
    - destruct (get_srv n (c_servers c)) as [s|] eqn:E.
      + rewrite (get_upd_srv_same _ _ _ _ Hfn E) in Hg. inversion Hg; subst. exists s. destruct (Hf s) as (_ & H2 & H3). auto.
      + exfalso. clear -E Hg Hfn. induction (c_servers c) as [|x t IH]; cbn in *; [discriminate|].
        destruct (Z.eqb_spec (s_name x) n); [discriminate|]. cbn in Hg. destruct (Z.eqb_spec (s_name x) n); [contradiction|]. auto.
    - rewrite get_upd_srv_other in Hg by assumption. exists s'. auto. }
  constructor; cbn [c_upd_srv c_servers c_apps set]; try assumption.
  - intros m s' aff Hg. destruct (Hget _ _ Hg) as (s & Hs & H2 & H3). rewrite H2, H3. eapply A1; exact Hs.
  - intros m s' k a L Hg Hin. destruct (Hget _ _ Hg) as (s & Hs & H2 & H3). rewrite H2. rewrite H3 in Hin. eapply A3; eassumption.
Qed.
Lemma count_aff_ext apps apps' aff names :
  (forall m, In m names -> get_app m apps' = get_app m apps) -> count_aff apps' aff names = count_aff apps aff names.
Proof.
  intros H. unfold count_aff. f_equal. f_equal. induction names as [|x t IH]; cbn [filter]; [reflexivity|].
  assert (Hx : has_aff apps' aff x = has_aff apps aff x) by (unfold has_aff; rewrite (H x (or_introl eq_refl)); reflexivity).
  rewrite Hx, IH by (intros; apply H; right; assumption). reflexivity.
Qed.

Lemma Aff_remove_app c name : Acct c -> Aff c -> Aff (remove_app c name).
Proof.
  intros HA HF.
  pose proof (Acct_remove_app c name HA) as HA'.
  unfold remove_app in *. destruct (get_app name (c_apps c)) as [a|] eqn:Ea; [|exact HF].
  set (c1 := match a_server a with
             | Some sn => if is_member c sn then srv_remove c sn name else c
             | None => c
             end) in *.
  assert (H1 : AA c1).
  { subst c1. destruct (a_server a) as [sn|]; [|split; assumption]. destruct (is_member c sn); [|split; assumption].
    split; [apply Acct_srv_remove; exact HA|eapply Aff_psteps; [apply srv_remove_ps|exact HF]]. }
  destruct H1 as [HA1 HF1].
  assert (Hfree : forall k s, get_srv k (c_servers c1) = Some s -> ~ In name (s_apps s)).
  { intros k s Hg Hin. destruct (ac_listed _ HA1 _ _ _ Hg Hin) as (a1 & Ha1 & Hsv1).
    subst c1. destruct (a_server a) as [sn|] eqn:Esv.
    - unfold is_member in *. destruct (get_srv sn (c_servers c)) as [s0|] eqn:Es.
      + destruct (srv_remove_app_server c sn name a s0 HA Ea Esv Es) as (a' & Ha' & Hn'). rewrite Ha' in Ha1.
        inversion Ha1; subst. congruence.
      + rewrite Ea in Ha1. inversion Ha1; subst a1. rewrite Esv in Hsv1. inversion Hsv1; subst. rewrite Es in Hg. discriminate.
    - rewrite Ea in Ha1. inversion Ha1; subst a1. congruence. }
  set (c2 := match a_alloc a with Some (l0, p0) => upd_alloc c1 l0 p0 (alloc_del_app name) | None => c1 end) in *.
  assert (E2 : c_servers c2 = c_servers c1 /\ c_apps c2 = c_apps c1).
  { subst c2. destruct (a_alloc a) as [[l0 p0]|]; [|auto]. unfold upd_alloc, ensure_part. destruct (aget l0 (c_parts c1)); auto. }
  destruct E2 as (E2s & E2a).
  assert (HF2 : Aff c2) by (eapply Aff_ext; [exact E2s|exact E2a|exact HF1]).
  pose proof (Aff_release c2 name HF2) as HF3.
  assert (Es3 : c_servers (release_identity c2 name) = c_servers c2).
  { unfold release_identity. destruct (get_app name (c_apps c2)) as [x|]; [|reflexivity].
    destruct (group_of c2 x) as [[g grp]|]; [|reflexivity]. destruct (a_identity x); reflexivity. }
  destruct HF3 as [A1 A2 A3].
  assert (Hnd3 : NoDup (map a_name (c_apps (release_identity c2 name)))).
  { unfold release_identity. destruct (get_app name (c_apps c2)) as [x|]; [|rewrite E2a; exact (ac_app_names _ HA1)].
    destruct (group_of c2 x) as [[g grp]|]; [|rewrite E2a; exact (ac_app_names _ HA1)].
    destruct (a_identity x); [|rewrite E2a; exact (ac_app_names _ HA1)].
    cbn [c_upd_app c_apps set]. rewrite upd_app_names by reflexivity. rewrite E2a. exact (ac_app_names _ HA1). }
  constructor; cbn [c_servers c_apps set].
  + intros n s aff Hg. rewrite (A1 _ _ aff Hg). symmetry. apply count_aff_ext. intros m Hin.
    rewrite get_app_del by exact Hnd3. destruct (Z.eqb_spec m name) as [->|Hne]; [|reflexivity].
    exfalso. rewrite Es3, E2s in Hg. eapply Hfree; eassumption.
  + intros n1 n2 b1 b2 Hb1 Hb2. rewrite get_app_del in Hb1, Hb2 by exact Hnd3.
    destruct (Z.eqb n1 name); [discriminate|]. destruct (Z.eqb n2 name); [discriminate|]. eapply A2; eassumption.
  + intros n s m b L Hg Hin Hb. rewrite get_app_del in Hb by exact Hnd3. destruct (Z.eqb m name); [discriminate|]. eapply A3; eassumption.
Qed.

Lemma Aff_force_identity c an i : Aff c -> Aff (force_identity c an i).
Proof.
  unfold force_identity. destruct i as [i|]; [|tauto]. destruct (get_app an (c_apps c)) as [a|]; [|tauto].
  destruct (group_of c a) as [[g grp]|]; [|tauto].
  intros H. apply Aff_upd_app_eqa; [intros x; repeat split|]. revert H. apply Aff_ext; reflexivity.
Qed.

Theorem AA_step c o : wf_op c o -> wf_op_aff c o -> AA c -> AA (step c o).
Proof.
  intros Hwf Hwa [HA HF]. split; [apply Acct_step; assumption|].
  destruct o; cbn [step].
  - unfold add_bucket. eapply Aff_same_core; [apply attach_common_sc|]. revert HF. apply Aff_ext; reflexivity.
  - destruct Hwf as (H1 & _). unfold add_server, new_server. cbn [s_parent]. eapply Aff_same_core; [apply attach_common_sc|].
    apply Aff_add_server; cbn; auto.
  - (* ORemoveServer *)
    assert (H0 : AA (if raw then c else srv_remove_all c name)).
    { destruct raw; [split; assumption|]. split; [apply Acct_srv_remove_all; exact HA|].
      unfold srv_remove_all. destruct (get_srv name (c_servers c)) as [s|]; [|exact HF].
      generalize (s_apps s) as l. intros l. clear Hwf Hwa HA. revert c HF. induction l as [|x r IH]; intros c HF; cbn; [exact HF|].
      apply IH. eapply Aff_psteps; [apply srv_remove_ps|exact HF]. }
    destruct H0 as [HA0 HF0]. set (c0 := if raw then c else srv_remove_all c name) in *.
    unfold detach_server. destruct (get_srv name (c_servers c0)) as [s|]; [|exact HF0].
    pose proof (Aff_del_server c0 name (ac_srv_names _ HA0) HF0) as H1.
    destruct (s_parent s) as [p|]; [|exact H1].
    eapply Aff_same_core; [apply unhook_server_sc|exact H1].
  - (* OMoveServer *)
    unfold move_server. destruct (get_srv name (c_servers c)) as [s|]; [|exact HF].
    eapply Aff_same_core; [apply attach_common_sc|]. apply Aff_upd_srv_soft; [intros x; repeat split|].
    destruct (s_parent s) as [p0|]; [eapply Aff_same_core; [apply unhook_server_sc|exact HF]|exact HF].
  - unfold srv_set_state. destruct (get_srv name (c_servers c)) as [s|]; [|exact HF].
    destruct (sstate_eqb (s_state s) st); [exact HF|].
    assert (H1 : Aff (c_upd_srv name (fun x => x <| s_state := st |> <| s_since := since |>) c))
      by (apply Aff_upd_srv_soft; [intros x; repeat split|exact HF]).
    destruct st; (eapply Aff_same_core; [|exact H1]); [apply adjust_up_from_sc|apply adjust_down_from_sc|apply adjust_down_from_sc].
  - apply Aff_upd_srv_soft; [intros x; repeat split|exact HF].
  - (* OAddApp *)
    unfold add_app. destruct (get_app (a_name a) (c_apps c)) as [old|] eqn:Eo.
    + assert (Heg : forall c1 g, Aff c1 -> Aff (ensure_group c1 g)).
      { intros c1 g. unfold ensure_group. destruct g as [k|]; [|tauto]. destruct (aget k (c_groups c1)); [tauto|]. apply Aff_ext; reflexivity. }
      apply Heg. apply Aff_upd_app_eqa; [intros x; repeat split|].
      assert (Hua : forall c1 l p f, Aff c1 -> Aff (upd_alloc c1 l p f)).
      { intros c1 l p f. unfold upd_alloc, ensure_part. destruct (aget l (c_parts c1)); apply Aff_ext; reflexivity. }
      apply Hua. destruct (a_alloc old) as [[l0 p0]|]; [apply Hua|]; exact HF.
    + specialize (Hwa Eo). destruct HF as [A1 A2 A3].
      set (a' := a <| a_alloc := Some (label, path) |>).
      assert (E : forall c2, c_servers c2 = c_servers c -> c_apps c2 = c_apps c ++ [a'] -> Aff c2).
      { intros c2 Es Ea. constructor; rewrite ?Es, ?Ea.
        - intros n s aff Hg. rewrite (A1 _ _ aff Hg). symmetry. apply count_aff_ext. intros m Hin.
          destruct (ac_listed _ HA _ _ _ Hg Hin) as (b & Hb & _). rewrite get_app_snoc, Hb. reflexivity.
        - intros n1 n2 b1 b2 Hb1 Hb2 He. rewrite get_app_snoc in Hb1, Hb2.
          destruct (get_app n1 (c_apps c)) as [x1|] eqn:E1; destruct (get_app n2 (c_apps c)) as [x2|] eqn:E2.
          + inversion Hb1; inversion Hb2; subst. eapply A2; eassumption.
          + inversion Hb1; subst. destruct (Z.eqb (a_name a') n2); inversion Hb2; subst. cbn in *. eapply Hwa; eassumption.
          + inversion Hb2; subst. destruct (Z.eqb (a_name a') n1); inversion Hb1; subst. cbn in *. symmetry. eapply Hwa; [eassumption|congruence].
          + destruct (Z.eqb (a_name a') n1); inversion Hb1; subst. destruct (Z.eqb (a_name a') n2); inversion Hb2; subst. reflexivity.
        - intros n s m b L Hg Hin Hb HL. destruct (ac_listed _ HA _ _ _ Hg Hin) as (b0 & Hb0 & _).
          rewrite get_app_snoc, Hb0 in Hb. inversion Hb; subst. eapply A3; eassumption. }
      assert (Heg : forall c1 g, c_servers (ensure_group c1 g) = c_servers c1 /\ c_apps (ensure_group c1 g) = c_apps c1).
      { intros c1 g. unfold ensure_group. destruct g as [k|]; [|auto]. destruct (aget k (c_groups c1)); auto. }
      assert (Hua : forall c1 l p f, c_servers (upd_alloc c1 l p f) = c_servers c1 /\ c_apps (upd_alloc c1 l p f) = c_apps c1).
      { intros c1 l p f. unfold upd_alloc, ensure_part. destruct (aget l (c_parts c1)); auto. }
      apply E.
      * rewrite (proj1 (Heg _ _)). cbn [c_servers set]. apply (proj1 (Hua _ _ _ _)).
      * rewrite (proj2 (Heg _ _)). cbn [c_apps set]. rewrite (proj2 (Hua _ _ _ _)). reflexivity.
  - (* ORemoveApp *) apply Aff_remove_app; assumption.
  - apply Aff_upd_app_eqa; [intros x; repeat split|exact HF].
  - apply Aff_upd_app_eqa; [intros x; repeat split|exact HF].
  - apply Aff_upd_app_eqa; [intros x; repeat split|exact HF].
  - apply Aff_upd_app_eqa; [intros x; repeat split|exact HF].
  - apply Aff_upd_app_eqa; [intros x; repeat split|exact HF].
  - unfold upd_alloc, ensure_part. destruct (aget label (c_parts c)); revert HF; apply Aff_ext; reflexivity.
  - unfold config_group. destruct (aget name (c_groups c)); revert HF; apply Aff_ext; reflexivity.
  - unfold remove_group. destruct (aget name (c_groups c)); [|exact HF]. destruct (existsb _ _); revert HF; apply Aff_ext; reflexivity.
  - revert HF; apply Aff_ext; reflexivity.
  - pose proof (Aff_schedule c choices HF) as H. destruct (schedule c choices) as [[c' qs] pl]. exact H.
  - (* ORestore *)
    unfold restore_op. destruct (get_app aname (c_apps c)) as [a|]; [|exact HF].
    pose proof (Acct_psteps _ _ (restore_put_ps c sname aname verbatim expires) HA) as HA1.
    pose proof (Aff_psteps _ _ (restore_put_ps c sname aname verbatim expires) HF) as HF1.
    destruct (restore_put c sname aname verbatim expires) as [c1 ok]. cbn [fst] in HA1, HF1.
    destruct ok; [apply Aff_force_identity; exact HF1|]. destruct (a_once a); [apply Aff_remove_app; assumption|exact HF1].
Qed.

Fixpoint wf_ops_aff (c : cell) (ops : list op) : Prop :=
  match ops with [] => True | o :: r => (wf_op c o /\ wf_op_aff c o) /\ wf_ops_aff (step c o) r end.
Theorem AA_run ops : forall c, wf_ops_aff c ops -> AA c -> AA (run c ops).
Proof.
  induction ops as [|o r IH]; intros c Hwf H; cbn; [exact H|]. destruct Hwf as [[H1 H2] H3].
  apply IH; [exact H3|apply AA_step; assumption].
Qed.
Lemma AA_init dim root level : AA (init_cell dim root level).
Proof.
  split; [apply Acct_init|]. constructor; cbn; intros; discriminate.
Qed.

(** boolean well-formedness for concrete histories *)
Fixpoint limits_eqb (a b : list (Z * Z)) : bool :=
  match a, b with
  | [], [] => true
  | (k, v) :: a', (k2, v2) :: b' => Z.eqb k k2 && Z.eqb v v2 && limits_eqb a' b'
  | _, _ => false
  end.
Lemma limits_eqb_eq a b : limits_eqb a b = true -> a = b.
Proof.
  revert b; induction a as [|[k v] a IH]; intros [|[k2 v2] b]; cbn; try discriminate; [reflexivity|].
  intros H. apply andb_true_iff in H as [H H3]. apply andb_true_iff in H as [H1 H2].
  apply Z.eqb_eq in H1, H2. subst. f_equal. apply IH. exact H3.
Qed.
Definition wf_op_affb (c : cell) (o : op) : bool :=
  match o with
  | OAddApp label path a =>
      match get_app (a_name a) (c_apps c) with
      | Some _ => true
      | None => forallb (fun b => negb (Z.eqb (a_aff b) (a_aff a)) || limits_eqb (a_limits b) (a_limits a)) (c_apps c)
      end
  | _ => true
  end.
Lemma wf_op_affb_sound c o : wf_op_affb c o = true -> wf_op_aff c o.
Proof.
  destruct o; cbn; try (intros; exact I). intros H Hn m b Hb He. rewrite Hn in H.
  rewrite forallb_forall in H. specialize (H b (get_app_In _ _ _ Hb)). rewrite He, Z.eqb_refl in H. cbn in H.
  apply limits_eqb_eq. exact H.
Qed.
Fixpoint wf_ops_affb (c : cell) (ops : list op) : bool :=
  match ops with [] => true | o :: r => wf_opb c o && wf_op_affb c o && wf_ops_affb (step c o) r end.
Lemma wf_ops_affb_sound ops : forall c, wf_ops_affb c ops = true -> wf_ops_aff c ops.
Proof.
  induction ops as [|o r IH]; intros c H; cbn [wf_ops_affb wf_ops_aff] in *; [exact I|].
  apply andb_true_iff in H as [H H3]. apply andb_true_iff in H as [H1 H2].
  split; [split; [apply wf_opb_sound; exact H1|apply wf_op_affb_sound; exact H2]|apply IH; exact H3].
Qed.
