(** Lemmas about the name-indexed lists of Types.v and the vectors of Vec.v. *)
From Coq Require Import ZArith List Bool Lia Permutation.
From RecordUpdate Require Import RecordSet.
From TM Require Import Sched.Vec Sched.Types.
Import ListNotations.
Open Scope Z_scope.

(** ** vectors *)
Definition nonneg (v : vec) : Prop := Forall (fun x => 0 <= x) v.

Lemma vmap2_length f : forall a b, length b = length a -> length (vmap2 f a b) = length a.
Proof.
  induction a as [|x a IH]; intros [|y b] Hl; cbn in *; try discriminate; try reflexivity.
  f_equal. apply IH. lia.
Qed.
Lemma vadd_comm : forall a b, vadd a b = vadd b a.
Proof. induction a as [|x a IH]; intros [|y b]; cbn; try reflexivity. f_equal; [lia|apply IH]. Qed.
Lemma vadd_assoc : forall a b c, vadd (vadd a b) c = vadd a (vadd b c).
Proof.
  induction a as [|x a IH]; intros [|y b] [|z c]; cbn; try reflexivity. f_equal; [lia|apply IH].
Qed.
Lemma vadd_zero_r : forall a n, length a = n -> vadd a (vzero n) = a.
Proof.
  induction a as [|x a IH]; intros n Hl; subst n; cbn; [reflexivity|]. f_equal; [lia|apply IH; reflexivity].
Qed.
Lemma vsub_vadd : forall f d t, length d = length f -> length t = length f ->
  vadd (vsub f d) (vadd t d) = vadd f t.
Proof.
  induction f as [|x f IH]; intros [|y d] [|z t] H1 H2; cbn in *; try discriminate; try reflexivity.
  f_equal; [lia|apply IH; lia].
Qed.
Lemma vadd_vadd_cancel : forall f d t, length d = length f -> length t = length f ->
  vadd (vadd f d) t = vadd f (vadd d t).
Proof. intros. apply vadd_assoc. Qed.
Lemma not_any_gt_sub_nonneg : forall d f, length d = length f -> any_gt d f = false -> nonneg (vsub f d).
Proof.
  induction d as [|x d IH]; intros [|y f] Hl Hg; cbn in *; try discriminate; [constructor|].
  apply orb_false_iff in Hg as [H1 H2]. constructor; [apply Z.gtb_ltb in H1 || idtac; lia|apply IH; [lia|exact H2]].
Qed.
Lemma nonneg_vadd : forall a b, nonneg a -> nonneg b -> nonneg (vadd a b).
Proof.
  induction a as [|x a IH]; intros [|y b] Ha Hb; cbn; try constructor.
  - inversion Ha; inversion Hb; subst. lia.
  - inversion Ha; inversion Hb; subst. apply IH; assumption.
Qed.
Lemma vzero_length n : length (vzero n) = n.
Proof. apply repeat_length. Qed.

(** ** zmem / zremove *)
Lemma zmem_In x l : zmem x l = true <-> In x l.
Proof.
  induction l as [|y t IH]; cbn; [split; [discriminate|tauto]|].
  rewrite orb_true_iff, IH, Z.eqb_eq. tauto.
Qed.
Lemma zmem_false x l : zmem x l = false <-> ~ In x l.
Proof. rewrite <- zmem_In. destruct (zmem x l); split; congruence. Qed.
Lemma zremove_In x y l : In y (zremove x l) -> In y l.
Proof.
  induction l as [|z t IH]; cbn; [tauto|]. destruct (Z.eqb z x); [tauto|]. intros [H|H]; [left; exact H|right; apply IH; exact H].
Qed.
Lemma zremove_NoDup x l : NoDup l -> NoDup (zremove x l).
Proof.
  induction 1 as [|z t Hn Hd IH]; cbn; [constructor|]. destruct (Z.eqb z x); [exact Hd|].
  constructor; [|exact IH]. intros H. apply Hn. eapply zremove_In; exact H.
Qed.
Lemma zremove_not_in x l : NoDup l -> ~ In x (zremove x l).
Proof.
  induction 1 as [|z t Hn Hd IH]; cbn; [tauto|]. destruct (Z.eqb_spec z x); [subst; exact Hn|].
  intros [H|H]; [congruence|apply IH; exact H].
Qed.
Lemma zremove_keep x y l : y <> x -> In y l -> In y (zremove x l).
Proof.
  intros Hne. induction l as [|z t IH]; cbn; [tauto|]. destruct (Z.eqb_spec z x).
  - intros [H|H]; [congruence|exact H].
  - intros [H|H]; [left; exact H|right; apply IH; exact H].
Qed.

Lemma NoDup_snoc {A} (l : list A) x : NoDup l -> ~ In x l -> NoDup (l ++ [x]).
Proof.
  induction 1 as [|y t Hn Hd IH]; cbn; intros Hx; [constructor; [tauto|constructor]|].
  constructor.
  - intros H. apply in_app_or in H as [H|[H|[]]]; [contradiction|subst; apply Hx; left; reflexivity].
  - apply IH. intros H. apply Hx. right. exact H.
Qed.

(** ** apps *)
Lemma get_app_name n l a : get_app n l = Some a -> a_name a = n.
Proof.
  induction l as [|x t IH]; cbn; [discriminate|].
  destruct (Z.eqb_spec (a_name x) n); [intros H; inversion H; subst; reflexivity|exact IH].
Qed.
Lemma get_app_In n l a : get_app n l = Some a -> In a l.
Proof.
  induction l as [|x t IH]; cbn; [discriminate|].
  destruct (Z.eqb (a_name x) n); [intros H; inversion H; left; reflexivity|intros H; right; apply IH; exact H].
Qed.
Lemma In_get_app l a : NoDup (map a_name l) -> In a l -> get_app (a_name a) l = Some a.
Proof.
  induction l as [|x t IH]; cbn; intros Hn Hin; [destruct Hin|].
  inversion Hn as [|? ? Hni Hnt]; subst. destruct Hin as [->|Hin].
  - rewrite Z.eqb_refl. reflexivity.
  - destruct (Z.eqb_spec (a_name x) (a_name a)) as [E|E]; [|apply IH; assumption].
    exfalso. apply Hni. rewrite E. apply in_map. exact Hin.
Qed.
Lemma get_app_none_notin n l : get_app n l = None -> ~ In n (map a_name l).
Proof.
  induction l as [|x t IH]; cbn; [tauto|]. destruct (Z.eqb_spec (a_name x) n); [discriminate|].
  intros H [E|Hin]; [congruence|apply IH; assumption].
Qed.

Lemma upd_app_names n f l : (forall x, a_name (f x) = a_name x) -> map a_name (upd_app n f l) = map a_name l.
Proof.
  intros Hf. induction l as [|x t IH]; cbn; [reflexivity|].
  destruct (Z.eqb (a_name x) n); cbn; [rewrite Hf; reflexivity|rewrite IH; reflexivity].
Qed.
Lemma get_upd_app_same n f l a : (forall x, a_name (f x) = a_name x) ->
  get_app n l = Some a -> get_app n (upd_app n f l) = Some (f a).
Proof.
  intros Hf. induction l as [|x t IH]; cbn; [discriminate|].
  destruct (Z.eqb_spec (a_name x) n) as [E|E]; cbn.
  - intros H; inversion H; subst. rewrite Hf, Z.eqb_refl. reflexivity.
  - destruct (Z.eqb_spec (a_name x) n); [contradiction|]. exact IH.
Qed.
Lemma get_upd_app_none n f l : get_app n l = None -> upd_app n f l = l.
Proof.
  induction l as [|x t IH]; cbn; [reflexivity|]. destruct (Z.eqb (a_name x) n); [discriminate|].
  intros H. rewrite IH by exact H. reflexivity.
Qed.
Lemma get_upd_app_other n m f l : (forall x, a_name (f x) = a_name x) -> m <> n ->
  get_app m (upd_app n f l) = get_app m l.
Proof.
  intros Hf Hne. induction l as [|x t IH]; cbn; [reflexivity|].
  destruct (Z.eqb_spec (a_name x) n) as [E|E]; cbn.
  - rewrite Hf. destruct (Z.eqb_spec (a_name x) m); [congruence|reflexivity].
  - destruct (Z.eqb (a_name x) m); [reflexivity|exact IH].
Qed.
Lemma In_upd_app n f l y : In y (upd_app n f l) -> In y l \/ (exists x, In x l /\ a_name x = n /\ y = f x).
Proof.
  induction l as [|x t IH]; cbn; [tauto|]. destruct (Z.eqb_spec (a_name x) n) as [E|E]; cbn.
  - intros [H|H]; [right; exists x; auto|left; right; exact H].
  - intros [H|H]; [left; left; exact H|]. destruct (IH H) as [H1|(x0 & H1 & H2 & H3)]; [left; right; exact H1|].
    right; exists x0; auto.
Qed.

(** ** servers *)
Lemma get_srv_name n l s : get_srv n l = Some s -> s_name s = n.
Proof.
  induction l as [|x t IH]; cbn; [discriminate|].
  destruct (Z.eqb_spec (s_name x) n); [intros H; inversion H; subst; reflexivity|exact IH].
Qed.
Lemma get_srv_In n l s : get_srv n l = Some s -> In s l.
Proof.
  induction l as [|x t IH]; cbn; [discriminate|].
  destruct (Z.eqb (s_name x) n); [intros H; inversion H; left; reflexivity|intros H; right; apply IH; exact H].
Qed.
Lemma In_get_srv l s : NoDup (map s_name l) -> In s l -> get_srv (s_name s) l = Some s.
Proof.
  induction l as [|x t IH]; cbn; intros Hn Hin; [destruct Hin|].
  inversion Hn as [|? ? Hni Hnt]; subst. destruct Hin as [->|Hin].
  - rewrite Z.eqb_refl. reflexivity.
  - destruct (Z.eqb_spec (s_name x) (s_name s)) as [E|E]; [|apply IH; assumption].
    exfalso. apply Hni. rewrite E. apply in_map. exact Hin.
Qed.
Lemma upd_srv_names n f l : (forall x, s_name (f x) = s_name x) -> map s_name (upd_srv n f l) = map s_name l.
Proof.
  intros Hf. induction l as [|x t IH]; cbn; [reflexivity|].
  destruct (Z.eqb (s_name x) n); cbn; [rewrite Hf; reflexivity|rewrite IH; reflexivity].
Qed.
Lemma get_upd_srv_same n f l s : (forall x, s_name (f x) = s_name x) ->
  get_srv n l = Some s -> get_srv n (upd_srv n f l) = Some (f s).
Proof.
  intros Hf. induction l as [|x t IH]; cbn; [discriminate|].
  destruct (Z.eqb_spec (s_name x) n) as [E|E]; cbn.
  - intros H; inversion H; subst. rewrite Hf, Z.eqb_refl. reflexivity.
  - destruct (Z.eqb_spec (s_name x) n); [contradiction|]. exact IH.
Qed.
Lemma get_upd_srv_other n m f l : (forall x, s_name (f x) = s_name x) -> m <> n ->
  get_srv m (upd_srv n f l) = get_srv m l.
Proof.
  intros Hf Hne. induction l as [|x t IH]; cbn; [reflexivity|].
  destruct (Z.eqb_spec (s_name x) n) as [E|E]; cbn.
  - rewrite Hf. destruct (Z.eqb_spec (s_name x) m); [congruence|reflexivity].
  - destruct (Z.eqb (s_name x) m); [reflexivity|exact IH].
Qed.
Lemma In_upd_srv n f l y : In y (upd_srv n f l) -> (In y l /\ s_name y <> n) \/ (exists x, In x l /\ s_name x = n /\ y = f x) \/ In y l.
Proof.
  induction l as [|x t IH]; cbn; [tauto|]. destruct (Z.eqb_spec (s_name x) n) as [E|E]; cbn.
  - intros [H|H]; [right; left; exists x; auto|right; right; right; exact H].
  - intros [H|H]; [left; subst; auto|]. destruct (IH H) as [[H1 H2]|[(x0 & H1 & H2 & H3)|H1]].
    + left; auto.
    + right; left; exists x0; auto.
    + right; right; right; exact H1.
Qed.

(** ** association lists *)
Lemma ag_as_same {A} k (v : A) m : aget k (aset k v m) = Some v.
Proof.
  induction m as [|[k' w] r IH]; cbn; [rewrite Z.eqb_refl; reflexivity|].
  destruct (Z.eqb k' k) eqn:E; cbn; rewrite E; auto.
Qed.
Lemma ag_as_other {A} k k2 (v : A) m : k2 <> k -> aget k2 (aset k v m) = aget k2 m.
Proof.
  intros Hne. induction m as [|[k' w] r IH]; cbn.
  - destruct (Z.eqb_spec k k2); [congruence|reflexivity].
  - destruct (Z.eqb_spec k' k); cbn.
    + subst. destruct (Z.eqb_spec k k2); [congruence|reflexivity].
    + destruct (Z.eqb k' k2); auto.
Qed.
Lemma ag_adel_other {A} k k2 (m : list (Z * A)) : k2 <> k -> aget k2 (adel k m) = aget k2 m.
Proof.
  intros Hne. induction m as [|[k' w] r IH]; cbn; [reflexivity|].
  destruct (Z.eqb_spec k' k); cbn.
  - subst. destruct (Z.eqb_spec k k2); [congruence|reflexivity].
  - destruct (Z.eqb k' k2); auto.
Qed.
