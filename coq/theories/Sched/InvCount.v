(** C04 (levels above the server): the affinity counters kept by every bucket (rack, pod, ..., the cell root)
    equal the number of placed instances on the servers below it, in every reachable state.

    [TreeWf]      well-formedness of the flat node graph: unique bucket names; from every bucket and from the parent
                  of every server the parent names lead through existing buckets to a root within |buckets| steps
                  (acyclic, and the fuel [depth_fuel] of the model's upward walks is never exhausted); the counters
                  of a server are a dictionary (unique keys).  Links parent <-> children are NOT part of it: the
                  counter bookkeeping (Python and model) follows parent pointers only.
    [below]       the parent chain of a server passes through a bucket ([ancestors] = the buckets [bump_affinity] visits);
    [CountExact]  stored counter of a bucket = sum of the counters of the servers below it ([srv_count]);
    [cstep]       a refinement of [Steps.pstep] that keeps the concrete [srv_put_lease] / [srv_remove] instead of
                  "any bucket change"; [schedule_cs]: a cycle is a sequence of such steps;
    [Inv_step] / [CountExact_step] / [TreeWf_step] / [CountExact_run]: preservation by every event and by [run],
                  under [wf_op_cnt] (fresh bucket name, existing parent bucket for a new or moved node);
    [bucket_counts_reachable]  with [AA]: counter = number of instances of the affinity placed on servers below the bucket;
    [root_counts_reachable]    the cell: counter of the root = number of instances placed on member servers;
    [schedule_shape]           a cycle never changes names or parents of servers and buckets.
    No operation of the model breaks the invariant (no counterexample found: everything is proved). *)
From Coq Require Import ZArith QArith List Bool Lia Relations.
From RecordUpdate Require Import RecordSet.
From TM Require Import Sched.Vec Sched.Types Sched.Queue Sched.Tree Sched.Cycle Sched.Steps Sched.MapsP
                       Sched.Events Sched.InvAcct Sched.InvAff.
Import ListNotations.
Open Scope Z_scope.

(** ** sums *)
Fixpoint zsum {A} (f : A -> Z) (l : list A) : Z :=
  match l with [] => 0 | x :: r => f x + zsum f r end.

Lemma zsum_app {A} (f : A -> Z) l1 l2 : zsum f (l1 ++ l2) = zsum f l1 + zsum f l2.
Proof. induction l1 as [|x r IH]; cbn [zsum List.app]; [reflexivity|]. rewrite IH. lia. Qed.
Lemma zsum_ext {A} (f g : A -> Z) l : (forall x, In x l -> f x = g x) -> zsum f l = zsum g l.
Proof.
  induction l as [|x r IH]; intros H; cbn [zsum]; [reflexivity|].
  rewrite (H x (or_introl eq_refl)), IH; [reflexivity|]. intros y Hy. apply H. right. exact Hy.
Qed.
Lemma zsum_map {A B} (h : A -> B) (f : B -> Z) l : zsum f (map h l) = zsum (fun x => f (h x)) l.
Proof. induction l as [|x r IH]; cbn [zsum map]; [reflexivity|]. rewrite IH. reflexivity. Qed.
Lemma zsum_zero {A} (f : A -> Z) l : (forall x, In x l -> f x = 0) -> zsum f l = 0.
Proof.
  induction l as [|x r IH]; intros H; cbn [zsum]; [reflexivity|].
  rewrite (H x (or_introl eq_refl)), IH; [reflexivity|]. intros y Hy. apply H. right. exact Hy.
Qed.

(** ** counters as dictionaries *)
Definition csum (k : Z) (ds : list (Z * Z)) : Z := zsum (fun kv => if Z.eqb (fst kv) k then snd kv else 0) ds.

Lemma cget_cadd_all k ds sg : forall m, cget k (cadd_all ds sg m) = cget k m + sg * csum k ds.
Proof.
  induction ds as [|[k' d] r IH]; intros m; cbn [cadd_all]; unfold csum in *; cbn [zsum fst snd]; [lia|].
  rewrite IH, cget_cadd. destruct (Z.eqb_spec k k'), (Z.eqb_spec k' k); try congruence; lia.
Qed.
Lemma csum_notin k ds : ~ In k (map fst ds) -> csum k ds = 0.
Proof.
  intros H. unfold csum. apply zsum_zero. intros [k' d] Hin. cbn [fst snd].
  destruct (Z.eqb_spec k' k); [|reflexivity]. exfalso. apply H. subst. change k with (fst (k, d)). apply in_map. exact Hin.
Qed.
Lemma csum_cget k ds : NoDup (map fst ds) -> csum k ds = cget k ds.
Proof.
  induction ds as [|[k' d] r IH]; cbn [map fst]; intros Hnd; [reflexivity|].
  inversion Hnd as [|? ? Hni Hr]; subst. unfold cget. cbn [aget]. change (csum k ((k', d) :: r)) with ((if Z.eqb k' k then d else 0) + csum k r).
  destruct (Z.eqb_spec k' k) as [->|Hne].
  - rewrite csum_notin by exact Hni. lia.
  - rewrite IH by exact Hr. unfold cget. lia.
Qed.
Lemma keys_aset_in {A} k (v : A) m x : In x (map fst (aset k v m)) -> x = k \/ In x (map fst m).
Proof.
  induction m as [|[k' w] r IH]; cbn [aset map fst In]; [intros [H|[]]; left; symmetry; exact H|].
  destruct (Z.eqb k' k); cbn [map fst In]; [tauto|]. intros [H|H]; [tauto|]. destruct (IH H); tauto.
Qed.
Lemma NoDup_keys_aset {A} k (v : A) m : NoDup (map fst m) -> NoDup (map fst (aset k v m)).
Proof.
  induction m as [|[k' w] r IH]; cbn [aset map fst]; intros Hnd; [constructor; [tauto|constructor]|].
  inversion Hnd as [|? ? Hni Hr]; subst.
  destruct (Z.eqb_spec k' k) as [->|Hne]; cbn [map fst]; [constructor; assumption|].
  constructor; [|apply IH; exact Hr]. intros Hin. apply keys_aset_in in Hin as [->|Hin]; [congruence|contradiction].
Qed.
Lemma NoDup_keys_cadd k d m : NoDup (map fst m) -> NoDup (map fst (cadd k d m)).
Proof. apply NoDup_keys_aset. Qed.

(** ** buckets by name *)
Lemma get_bkt_name n l b : get_bkt n l = Some b -> b_name b = n.
Proof.
  induction l as [|x t IH]; cbn; [discriminate|].
  destruct (Z.eqb_spec (b_name x) n); [intros H; inversion H; subst; reflexivity|exact IH].
Qed.
Lemma get_bkt_In n l b : get_bkt n l = Some b -> In b l.
Proof.
  induction l as [|x t IH]; cbn; [discriminate|].
  destruct (Z.eqb (b_name x) n); [intros H; inversion H; left; reflexivity|intros H; right; apply IH; exact H].
Qed.
Lemma In_get_bkt l b : NoDup (map b_name l) -> In b l -> get_bkt (b_name b) l = Some b.
Proof.
  induction l as [|x t IH]; cbn; intros Hn Hin; [destruct Hin|].
  inversion Hn as [|? ? Hni Hnt]; subst. destruct Hin as [->|Hin].
  - rewrite Z.eqb_refl. reflexivity.
  - destruct (Z.eqb_spec (b_name x) (b_name b)) as [E|E]; [|apply IH; assumption].
    exfalso. apply Hni. rewrite E. apply in_map. exact Hin.
Qed.
Lemma get_upd_bkt_same n f l b : (forall x, b_name (f x) = b_name x) ->
  get_bkt n l = Some b -> get_bkt n (upd_bkt n f l) = Some (f b).
Proof.
  intros Hf. induction l as [|x t IH]; cbn; [discriminate|].
  destruct (Z.eqb_spec (b_name x) n) as [E|E]; cbn.
  - intros H; inversion H; subst. rewrite Hf, Z.eqb_refl. reflexivity.
  - destruct (Z.eqb_spec (b_name x) n); [contradiction|]. exact IH.
Qed.
Lemma get_upd_bkt_other n m f l : (forall x, b_name (f x) = b_name x) -> m <> n ->
  get_bkt m (upd_bkt n f l) = get_bkt m l.
Proof.
  intros Hf Hne. induction l as [|x t IH]; cbn; [reflexivity|].
  destruct (Z.eqb_spec (b_name x) n) as [E|E]; cbn.
  - rewrite Hf. destruct (Z.eqb_spec (b_name x) m); [congruence|reflexivity].
  - destruct (Z.eqb (b_name x) m); [reflexivity|exact IH].
Qed.
Lemma get_bkt_snoc n l b : get_bkt n (l ++ [b]) =
  match get_bkt n l with Some x => Some x | None => if Z.eqb (b_name b) n then Some b else None end.
Proof. induction l as [|x t IH]; cbn; [reflexivity|]. destruct (Z.eqb (b_name x) n); [reflexivity|exact IH]. Qed.
Lemma get_bkt_none_notin n l : get_bkt n l = None -> ~ In n (map b_name l).
Proof.
  induction l as [|x t IH]; cbn; [tauto|]. destruct (Z.eqb_spec (b_name x) n); [discriminate|].
  intros H [E|Hin]; [congruence|apply IH; assumption].
Qed.

(** the part of a bucket the parent walks read, and the part the invariant reads *)
Definition bnp (b : bucket) : Z * option Z := (b_name b, b_parent b).
Definition bsig (b : bucket) : Z * option Z * list (Z * Z) := (b_name b, b_parent b, b_counters b).
Definition ssig (s : server) : Z * option Z * list (Z * Z) := (s_name s, s_parent s, s_counters s).

Lemma bsig_bnp l l' : map bsig l' = map bsig l -> map bnp l' = map bnp l.
Proof.
  intros H. change bnp with (fun b => fst (bsig b)). rewrite <- !(map_map bsig fst), H. reflexivity.
Qed.
Lemma bnp_names l l' : map bnp l' = map bnp l -> map b_name l' = map b_name l.
Proof.
  intros H. change b_name with (fun b => fst (bnp b)). rewrite <- !(map_map bnp fst), H. reflexivity.
Qed.
Lemma bnp_length l l' : map bnp l' = map bnp l -> length l' = length l.
Proof. intros H. rewrite <- (map_length bnp l'), H. apply map_length. Qed.

Lemma get_bkt_bnp bs bs' : map bnp bs' = map bnp bs -> forall n,
  match get_bkt n bs, get_bkt n bs' with
  | Some b, Some b' => b_parent b' = b_parent b
  | None, None => True
  | _, _ => False
  end.
Proof.
  revert bs'. induction bs as [|x t IH]; intros [|y u] H n; cbn [map] in H; try discriminate; cbn [get_bkt]; [exact I|].
  unfold bnp at 1 3 in H. injection H as Hn Hp Ht. rewrite Hn.
  destruct (Z.eqb (b_name x) n); [exact Hp|apply IH; exact Ht].
Qed.
Lemma get_bkt_bsig bs bs' : map bsig bs' = map bsig bs -> forall n,
  match get_bkt n bs, get_bkt n bs' with
  | Some b, Some b' => b_counters b' = b_counters b
  | None, None => True
  | _, _ => False
  end.
Proof.
  revert bs'. induction bs as [|x t IH]; intros [|y u] H n; cbn [map] in H; try discriminate; cbn [get_bkt]; [exact I|].
  unfold bsig at 1 3 in H. injection H as Hn Hp Hc Ht. rewrite Hn.
  destruct (Z.eqb (b_name x) n); [exact Hc|apply IH; exact Ht].
Qed.

(** ** the parent chain *)
(** the bucket names visited by an upward walk that starts at [p] (exactly the buckets [bump_affinity] touches) *)
Fixpoint chain (fuel : nat) (bs : list bucket) (p : option Z) : list Z :=
  match fuel with
  | O => []
  | S f => match p with
           | None => []
           | Some n => match get_bkt n bs with
                       | Some b => n :: chain f bs (b_parent b)
                       | None => []
                       end
           end
  end.
(** the walk from [p] reaches a root (a bucket without parent) through existing buckets in at most [fuel] steps *)
Fixpoint closedb (fuel : nat) (bs : list bucket) (p : option Z) : bool :=
  match p with
  | None => true
  | Some n => match fuel with
              | O => false
              | S f => match get_bkt n bs with
                       | Some b => closedb f bs (b_parent b)
                       | None => false
                       end
              end
  end.

Lemma chain_bnp bs bs' : map bnp bs' = map bnp bs -> forall f p,
  chain f bs' p = chain f bs p /\ closedb f bs' p = closedb f bs p.
Proof.
  intros H. induction f as [|f IH]; intros [n|]; cbn [chain closedb]; try (split; reflexivity).
  pose proof (get_bkt_bnp _ _ H n) as Hg.
  destruct (get_bkt n bs) as [b|], (get_bkt n bs') as [b'|]; try contradiction; [|split; reflexivity].
  rewrite Hg. destruct (IH (b_parent b)) as [-> ->]. split; reflexivity.
Qed.

Lemma closed_mono bs : forall f p, closedb f bs p = true -> forall f', (f <= f')%nat ->
  closedb f' bs p = true /\ chain f' bs p = chain f bs p.
Proof.
  induction f as [|f IH]; intros [n|] Hc f' Hle; cbn [closedb] in Hc; try discriminate.
  - destruct f'; split; reflexivity.
  - destruct f' as [|f']; [lia|]. cbn [closedb chain].
    destruct (get_bkt n bs) as [b|]; [|discriminate].
    destruct (IH _ Hc f' ltac:(lia)) as [-> ->]. split; reflexivity.
  - destruct f'; split; reflexivity.
Qed.

Lemma chain_exists bs : forall f p m, In m (chain f bs p) -> exists b, get_bkt m bs = Some b.
Proof.
  induction f as [|f IH]; intros [n|] m; cbn [chain In]; try tauto.
  destruct (get_bkt n bs) as [b|] eqn:E; [|intros []].
  intros [<-|Hin]; [exists b; exact E|eapply IH; exact Hin].
Qed.

(** the chain from a bucket on the chain is a suffix *)
Lemma chain_suffix bs : forall f p m, closedb f bs p = true -> In m (chain f bs p) ->
  closedb f bs (Some m) = true /\ exists pre, chain f bs p = pre ++ chain f bs (Some m).
Proof.
  induction f as [|f IH]; intros p m Hc Hin; [destruct p; destruct Hin|].
  destruct p as [n|]; [|destruct Hin]. cbn [closedb] in Hc. cbn [chain In] in Hin.
  destruct (get_bkt n bs) as [b|] eqn:E; [|discriminate].
  destruct Hin as [<-|Hin].
  - split; [cbn [closedb]; rewrite E; exact Hc|]. exists []. reflexivity.
  - destruct (IH _ _ Hc Hin) as (Hcm & pre & Hpre).
    destruct (closed_mono bs f (Some m) Hcm (S f) ltac:(lia)) as [Hc' Hch'].
    split; [exact Hc'|]. exists (n :: pre). rewrite Hch'. cbn [chain]. rewrite E. cbn [List.app]. rewrite <- Hpre. reflexivity.
Qed.

Lemma chain_nodup bs : forall f p, closedb f bs p = true -> NoDup (chain f bs p).
Proof.
  induction f as [|f IH]; intros [n|] Hc; cbn [chain]; try constructor.
  cbn [closedb] in Hc. destruct (get_bkt n bs) as [b|] eqn:E; [|constructor].
  constructor; [|apply IH; exact Hc].
  intros Hin. destruct (chain_suffix bs f _ n Hc Hin) as (Hcn & pre & Hpre).
  destruct f as [|f']; [destruct Hin|].
  cbn [closedb] in Hcn. rewrite E in Hcn.
  destruct (closed_mono bs f' _ Hcn (S f') ltac:(lia)) as [_ Hch].
  assert (Hx : chain (S f') bs (Some n) = n :: chain f' bs (b_parent b)) by (cbn [chain]; rewrite E; reflexivity).
  rewrite Hx, <- Hch in Hpre.
  apply (f_equal (@length Z)) in Hpre. rewrite app_length in Hpre. cbn [length] in Hpre. lia.
Qed.

(** a new bucket at the end of the map does not change a walk that stays inside the old buckets *)
Lemma closed_snoc bs nb : forall f p, closedb f bs p = true ->
  closedb f (bs ++ [nb]) p = true /\ chain f (bs ++ [nb]) p = chain f bs p.
Proof.
  induction f as [|f IH]; intros [n|] Hc; cbn [closedb] in Hc; try discriminate; cbn [closedb chain];
    try (split; reflexivity).
  rewrite get_bkt_snoc. destruct (get_bkt n bs) as [b|]; [|discriminate].
  destruct (IH _ Hc) as [-> ->]. split; reflexivity.
Qed.

(** ** the statement *)
Definition ancestors (c : cell) (p : option Z) : list Z := chain (depth_fuel c) (c_buckets c) p.
(** server [s] is below bucket [bname]: its parent chain passes through [bname] *)
Definition below (c : cell) (bname : Z) (s : server) : Prop := In bname (ancestors c (s_parent s)).
Definition belowb (c : cell) (bname : Z) (s : server) : bool := zmem bname (ancestors c (s_parent s)).
Lemma belowb_below c n s : belowb c n s = true <-> below c n s.
Proof. apply zmem_In. Qed.

Definition cnt_in (f : nat) (bs : list bucket) (ss : list server) (n aff : Z) : Z :=
  zsum (fun s => if zmem n (chain f bs (s_parent s)) then cget aff (s_counters s) else 0) ss.
(** the sum of the counters for [aff] of the servers below bucket [n] *)
Definition srv_count (c : cell) (n aff : Z) : Z := cnt_in (depth_fuel c) (c_buckets c) (c_servers c) n aff.
Lemma srv_count_below c n aff :
  srv_count c n aff = zsum (fun s => if belowb c n s then cget aff (s_counters s) else 0) (c_servers c).
Proof. reflexivity. Qed.

Record TreeWf (c : cell) : Prop := {
  (* bucket names are unique *)
  tw_bnames : NoDup (map b_name (c_buckets c));
  (* from every bucket the parent names lead, through existing buckets, to a root in at most |buckets| steps
     (so the graph is acyclic and the fuel [depth_fuel c] of the model's upward walks is never exhausted) *)
  tw_closed : forall n b, get_bkt n (c_buckets c) = Some b ->
                          closedb (length (c_buckets c)) (c_buckets c) (Some n) = true;
  (* the parent of a server, if any, is an existing bucket *)
  tw_sparent : forall s, In s (c_servers c) -> closedb (length (c_buckets c)) (c_buckets c) (s_parent s) = true;
  (* the counters of a server are a dictionary *)
  tw_ckeys : forall s, In s (c_servers c) -> NoDup (map fst (s_counters s))
}.

Definition CountExact (c : cell) : Prop :=
  forall n b aff, get_bkt n (c_buckets c) = Some b -> cget aff (b_counters b) = srv_count c n aff.

(** ** how bucket counters move *)
(** same names and parents; the counter of bucket [n] for [aff] moved by [D n aff] *)
Definition bdelta (bs bs' : list bucket) (D : Z -> Z -> Z) : Prop :=
  map bnp bs' = map bnp bs /\
  forall n b, get_bkt n bs = Some b ->
              exists b', get_bkt n bs' = Some b' /\ forall aff, cget aff (b_counters b') = cget aff (b_counters b) + D n aff.

Definition D0 : Z -> Z -> Z := fun _ _ => 0.
Lemma bdelta_sig bs bs' : map bsig bs' = map bsig bs -> bdelta bs bs' D0.
Proof.
  intros H. split; [apply bsig_bnp; exact H|]. intros n b Hb. pose proof (get_bkt_bsig _ _ H n) as Hg. rewrite Hb in Hg.
  destruct (get_bkt n bs') as [b'|]; [|contradiction]. exists b'. split; [reflexivity|]. intros aff. rewrite Hg. unfold D0. lia.
Qed.
Lemma bdelta_refl bs : bdelta bs bs D0.
Proof. apply bdelta_sig. reflexivity. Qed.
Lemma bdelta_trans bs1 bs2 bs3 D1 D2 :
  bdelta bs1 bs2 D1 -> bdelta bs2 bs3 D2 -> bdelta bs1 bs3 (fun n aff => D1 n aff + D2 n aff).
Proof.
  intros [H1 G1] [H2 G2]. split; [congruence|]. intros n b Hb.
  destruct (G1 _ _ Hb) as (b2 & Hb2 & E2). destruct (G2 _ _ Hb2) as (b3 & Hb3 & E3).
  exists b3. split; [exact Hb3|]. intros aff. rewrite E3, E2. lia.
Qed.
Lemma bdelta_ext bs bs' D D' : (forall n aff, D n aff = D' n aff) -> bdelta bs bs' D -> bdelta bs bs' D'.
Proof.
  intros HD [H G]. split; [exact H|]. intros n b Hb. destruct (G _ _ Hb) as (b' & Hb' & E). exists b'. split; [exact Hb'|].
  intros aff. rewrite E, HD. reflexivity.
Qed.
Lemma bdelta_trans0 bs1 bs2 bs3 D : bdelta bs1 bs2 D0 -> bdelta bs2 bs3 D -> bdelta bs1 bs3 D.
Proof. intros H1 H2. eapply bdelta_ext; [|eapply bdelta_trans; [exact H1|exact H2]]. intros; unfold D0; lia. Qed.
Lemma bdelta_trans0r bs1 bs2 bs3 D : bdelta bs1 bs2 D -> bdelta bs2 bs3 D0 -> bdelta bs1 bs3 D.
Proof. intros H1 H2. eapply bdelta_ext; [|eapply bdelta_trans; [exact H1|exact H2]]. intros; unfold D0; lia. Qed.

Lemma upd_bkt_bsig n f l : (forall b, bsig (f b) = bsig b) -> map bsig (upd_bkt n f l) = map bsig l.
Proof.
  intros Hf. induction l as [|x t IH]; cbn [upd_bkt map]; [reflexivity|].
  destruct (Z.eqb (b_name x) n); cbn [map]; [rewrite Hf; reflexivity|rewrite IH; reflexivity].
Qed.

(** cells whose servers and buckets agree on name, parent and counters *)
Definition sig_eq (c c' : cell) : Prop :=
  map ssig (c_servers c') = map ssig (c_servers c) /\ map bsig (c_buckets c') = map bsig (c_buckets c).
Lemma sig_eq_refl c : sig_eq c c.
Proof. split; reflexivity. Qed.
Lemma sig_eq_trans a b c : sig_eq a b -> sig_eq b c -> sig_eq a c.
Proof. intros [H1 H2] [H3 H4]. split; congruence. Qed.
Lemma sig_eq_upd_bkt n f c : (forall b, bsig (f b) = bsig b) -> sig_eq c (c_upd_bkt n f c).
Proof. intros Hf. split; [reflexivity|]. cbn [c_upd_bkt c_buckets set]. apply upd_bkt_bsig. exact Hf. Qed.
Lemma sig_eq_ext c c' : c_servers c' = c_servers c -> c_buckets c' = c_buckets c -> sig_eq c c'.
Proof. intros H1 H2. split; rewrite ?H1, ?H2; reflexivity. Qed.

Lemma propagate_traits_se fuel : forall c b, sig_eq c (propagate_traits fuel c b).
Proof.
  induction fuel as [|f IH]; intros c b; cbn [propagate_traits]; [apply sig_eq_refl|].
  destruct (get_bkt b (c_buckets c)) as [bk|]; [|apply sig_eq_refl].
  destruct (b_parent bk) as [p|]; [|apply sig_eq_refl].
  (eapply sig_eq_trans; [apply sig_eq_upd_bkt|apply IH]); reflexivity.
Qed.
Lemma add_labels_se fuel : forall c b ls, sig_eq c (add_labels fuel c b ls).
Proof.
  induction fuel as [|f IH]; intros c b ls; cbn [add_labels]; [apply sig_eq_refl|].
  destruct (get_bkt b (c_buckets c)) as [bk|]; [|apply sig_eq_refl].
  destruct (b_parent bk) as [p|]; [(eapply sig_eq_trans; [apply sig_eq_upd_bkt|apply IH]); reflexivity|apply sig_eq_upd_bkt; reflexivity].
Qed.
Lemma adjust_up_se fuel : forall c b v, sig_eq c (adjust_up fuel c b v).
Proof.
  induction fuel as [|f IH]; intros c b v; cbn [adjust_up]; [apply sig_eq_refl|].
  destruct (get_bkt b (c_buckets c)) as [bk|]; [|apply sig_eq_refl].
  destruct (b_parent bk) as [p|]; [(eapply sig_eq_trans; [apply sig_eq_upd_bkt|apply IH]); reflexivity|apply sig_eq_upd_bkt; reflexivity].
Qed.
Lemma adjust_up_from_se c p v : sig_eq c (adjust_up_from c p v).
Proof. unfold adjust_up_from. destruct p; [apply adjust_up_se|apply sig_eq_refl]. Qed.
Lemma adjust_down_se fuel : forall c b pv, sig_eq c (adjust_down fuel c b pv).
Proof.
  induction fuel as [|f IH]; intros c b pv; cbn [adjust_down]; [apply sig_eq_refl|].
  destruct (get_bkt b (c_buckets c)) as [bk|]; [|apply sig_eq_refl].
  destruct (live_children (b_children bk)) as [|k ks].
  - destruct (b_parent bk) as [p|]; [(eapply sig_eq_trans; [apply sig_eq_upd_bkt|apply IH]); reflexivity|apply sig_eq_upd_bkt; reflexivity].
  - destruct (match pv with Some v => all_lt v (b_free bk) | None => false end); [apply sig_eq_refl|].
    destruct (any_lt _ _); [|apply sig_eq_refl].
    destruct (b_parent bk) as [p|]; [(eapply sig_eq_trans; [apply sig_eq_upd_bkt|apply IH]); reflexivity|apply sig_eq_upd_bkt; reflexivity].
Qed.
Lemma adjust_down_from_se c p pv : sig_eq c (adjust_down_from c p pv).
Proof. unfold adjust_down_from. destruct p; [apply adjust_down_se|apply sig_eq_refl]. Qed.
Lemma set_cursor_se c b a i : sig_eq c (set_cursor c b a i).
Proof. apply sig_eq_upd_bkt. reflexivity. Qed.

(** the effect of the counter walk: every bucket on the chain moves by [sg * csum aff ds], nothing else moves *)
Definition Dchain (ch : list Z) (v : Z -> Z) : Z -> Z -> Z := fun n aff => if zmem n ch then v aff else 0.

Lemma bump_affinity_delta ds sg : forall fuel c p, NoDup (chain fuel (c_buckets c) (Some p)) ->
  c_servers (bump_affinity fuel c p ds sg) = c_servers c /\
  bdelta (c_buckets c) (c_buckets (bump_affinity fuel c p ds sg))
         (Dchain (chain fuel (c_buckets c) (Some p)) (fun aff => sg * csum aff ds)).
Proof.
  induction fuel as [|f IH]; intros c p Hnd.
  - cbn [bump_affinity chain]. split; [reflexivity|]. apply bdelta_refl.
  - cbn [bump_affinity chain] in *. destruct (get_bkt p (c_buckets c)) as [bp|] eqn:Ep.
    2:{ split; [reflexivity|]. apply bdelta_refl. }
    set (F := fun x : bucket => x <| b_counters ::= cadd_all ds sg |>).
    assert (HF : forall x, b_name (F x) = b_name x) by reflexivity.
    set (c' := c_upd_bkt p F c).
    assert (Hbnp : map bnp (c_buckets c') = map bnp (c_buckets c)).
    { subst c'. cbn [c_upd_bkt c_buckets set]. clear. induction (c_buckets c) as [|x t IHt]; cbn [upd_bkt map]; [reflexivity|].
      destruct (Z.eqb (b_name x) p); cbn [map]; [reflexivity|rewrite IHt; reflexivity]. }
    (* one step *)
    assert (H1 : bdelta (c_buckets c) (c_buckets c') (Dchain [p] (fun aff => sg * csum aff ds))).
    { split; [exact Hbnp|]. intros n b Hb. subst c'. cbn [c_upd_bkt c_buckets set]. unfold Dchain. cbn [zmem].
      destruct (Z.eqb_spec p n) as [->|Hne].
      - rewrite (get_upd_bkt_same _ _ _ _ HF Hb). exists (F b). split; [reflexivity|]. intros aff. cbn [orb].
        unfold F. cbn [b_counters set]. apply cget_cadd_all.
      - rewrite get_upd_bkt_other by (try exact HF; congruence). exists b. split; [exact Hb|]. intros aff. cbn [orb]. lia. }
    inversion Hnd as [|? ? Hni Hnd']; subst.
    destruct (b_parent bp) as [q|] eqn:Eq.
    + destruct (chain_bnp _ _ Hbnp f (Some q)) as [Hch _]. specialize (IH c' q). rewrite Hch in IH.
      destruct (IH Hnd') as [Hs Hd]. split; [rewrite Hs; reflexivity|].
      eapply bdelta_ext; [|eapply bdelta_trans; [exact H1|exact Hd]].
      intros n aff. unfold Dchain. cbn [zmem]. destruct (Z.eqb_spec p n) as [->|Hne]; cbn [orb].
      * apply zmem_false in Hni. rewrite Hni. lia.
      * destruct (zmem n (chain f (c_buckets c) (Some q))); lia.
    + split; [reflexivity|]. eapply bdelta_ext; [|exact H1]. intros n aff. unfold Dchain.
      destruct f; reflexivity.
Qed.
Lemma closedb_none f bs : closedb f bs None = true.
Proof. destruct f; reflexivity. Qed.
Lemma chain_none f bs : chain f bs None = [].
Proof. destruct f; reflexivity. Qed.
Lemma Dchain_nil v n aff : Dchain [] v n aff = 0.
Proof. reflexivity. Qed.

Lemma bump_from_delta c p ds sg : NoDup (ancestors c p) ->
  c_servers (bump_from c p ds sg) = c_servers c /\
  bdelta (c_buckets c) (c_buckets (bump_from c p ds sg)) (Dchain (ancestors c p) (fun aff => sg * csum aff ds)).
Proof.
  unfold bump_from, ancestors. destruct p as [p|]; [apply bump_affinity_delta|].
  intros _. split; [reflexivity|]. rewrite chain_none. apply bdelta_refl.
Qed.

(** ** the sum over the servers *)
Lemma cnt_in_bnp f bs bs' ss n aff : map bnp bs' = map bnp bs -> cnt_in f bs' ss n aff = cnt_in f bs ss n aff.
Proof.
  intros H. unfold cnt_in. apply zsum_ext. intros s _. destruct (chain_bnp _ _ H f (s_parent s)) as [-> _]. reflexivity.
Qed.
Lemma cnt_in_ssig f bs ss ss' n aff : map ssig ss' = map ssig ss -> cnt_in f bs ss' n aff = cnt_in f bs ss n aff.
Proof.
  intros H. unfold cnt_in.
  set (g := fun x : Z * option Z * list (Z * Z) => if zmem n (chain f bs (snd (fst x))) then cget aff (snd x) else 0).
  transitivity (zsum g (map ssig ss')); [rewrite zsum_map; reflexivity|]. rewrite H, zsum_map. reflexivity.
Qed.
Lemma zsum_upd_srv (g : server -> Z) n f l :
  zsum g (upd_srv n f l) = zsum g l + match get_srv n l with Some s => g (f s) - g s | None => 0 end.
Proof.
  induction l as [|x t IH]; cbn [upd_srv get_srv zsum]; [lia|].
  destruct (Z.eqb (s_name x) n); cbn [zsum]; [lia|rewrite IH; lia].
Qed.
Lemma zsum_del_srv (g : server -> Z) n l :
  zsum g (del_srv n l) = zsum g l - match get_srv n l with Some s => g s | None => 0 end.
Proof.
  induction l as [|x t IH]; cbn [del_srv get_srv zsum]; [lia|].
  destruct (Z.eqb (s_name x) n); cbn [zsum]; [lia|rewrite IH; lia].
Qed.
Lemma In_upd_srv_first n f l y : In y (upd_srv n f l) -> In y l \/ exists x, get_srv n l = Some x /\ y = f x.
Proof.
  induction l as [|x t IH]; cbn [upd_srv get_srv In]; [tauto|].
  destruct (Z.eqb (s_name x) n); cbn [In].
  - intros [H|H]; [right; exists x; split; [reflexivity|symmetry; exact H]|left; right; exact H].
  - intros [H|H]; [left; left; exact H|]. destruct (IH H) as [H1|H1]; [left; right; exact H1|right; exact H1].
Qed.
Lemma In_del_srv n l y : In y (del_srv n l) -> In y l.
Proof.
  induction l as [|x t IH]; cbn [del_srv In]; [tauto|]. destruct (Z.eqb (s_name x) n); cbn [In]; [tauto|].
  intros [H|H]; [left; exact H|right; apply IH; exact H].
Qed.

Lemma srv_count_bnp c c' n aff : map bnp (c_buckets c') = map bnp (c_buckets c) ->
  srv_count c' n aff = cnt_in (depth_fuel c) (c_buckets c) (c_servers c') n aff.
Proof.
  intros H. unfold srv_count, depth_fuel. rewrite (bnp_length _ _ H). apply cnt_in_bnp. exact H.
Qed.
Lemma ancestors_bnp c c' p : map bnp (c_buckets c') = map bnp (c_buckets c) -> ancestors c' p = ancestors c p.
Proof. intros H. unfold ancestors, depth_fuel. rewrite (bnp_length _ _ H). apply chain_bnp. exact H. Qed.

(** ** transfer lemmas *)
Definition Inv (c : cell) : Prop := TreeWf c /\ CountExact c.

Lemma CE_delta c c' D :
  CountExact c -> bdelta (c_buckets c) (c_buckets c') D ->
  (forall n b aff, get_bkt n (c_buckets c) = Some b -> srv_count c' n aff = srv_count c n aff + D n aff) ->
  CountExact c'.
Proof.
  intros HC [Hb G] Hs n b' aff Hb'.
  pose proof (get_bkt_bnp _ _ Hb n) as Hg. rewrite Hb' in Hg.
  destruct (get_bkt n (c_buckets c)) as [b|] eqn:E; [|contradiction].
  destruct (G _ _ E) as (b2 & Hb2 & E2). rewrite Hb' in Hb2. inversion Hb2; subst b2.
  rewrite E2, (HC _ _ aff E), (Hs _ _ aff E). reflexivity.
Qed.

Lemma TreeWf_transfer c c' :
  map bnp (c_buckets c') = map bnp (c_buckets c) ->
  (forall s', In s' (c_servers c') ->
              closedb (length (c_buckets c)) (c_buckets c) (s_parent s') = true /\ NoDup (map fst (s_counters s'))) ->
  TreeWf c -> TreeWf c'.
Proof.
  intros Hb Hs [T1 T2 T3 T4]. constructor.
  - rewrite (bnp_names _ _ Hb). exact T1.
  - intros n b' Hb'. pose proof (get_bkt_bnp _ _ Hb n) as Hg. rewrite Hb' in Hg.
    destruct (get_bkt n (c_buckets c)) as [b|] eqn:E; [|contradiction].
    rewrite (bnp_length _ _ Hb). destruct (chain_bnp _ _ Hb (length (c_buckets c)) (Some n)) as [_ ->]. eapply T2; exact E.
  - intros s' Hin. rewrite (bnp_length _ _ Hb). destruct (chain_bnp _ _ Hb (length (c_buckets c)) (s_parent s')) as [_ ->].
    apply Hs. exact Hin.
  - intros s' Hin. apply Hs. exact Hin.
Qed.

Lemma tw_chain c p : TreeWf c -> closedb (length (c_buckets c)) (c_buckets c) p = true ->
  closedb (depth_fuel c) (c_buckets c) p = true /\ NoDup (ancestors c p).
Proof.
  intros _ Hc. unfold ancestors, depth_fuel.
  destruct (closed_mono _ _ _ Hc (S (length (c_buckets c))) ltac:(lia)) as [Hc' _].
  split; [exact Hc'|apply chain_nodup; exact Hc'].
Qed.
Lemma tw_bkt_closed c n b : TreeWf c -> get_bkt n (c_buckets c) = Some b ->
  closedb (length (c_buckets c)) (c_buckets c) (Some n) = true.
Proof. intros T. apply (tw_closed _ T). Qed.

Lemma sig_eq_In c c' s' : sig_eq c c' -> In s' (c_servers c') -> exists s, In s (c_servers c) /\ ssig s = ssig s'.
Proof.
  intros [Hs _] Hin. apply (in_map ssig) in Hin. rewrite Hs in Hin. apply in_map_iff in Hin as (s & E & Hin).
  exists s. split; assumption.
Qed.

Theorem Inv_sig_eq c c' : sig_eq c c' -> Inv c -> Inv c'.
Proof.
  intros Hse [T C]. pose proof Hse as [Hs Hb]. pose proof (bsig_bnp _ _ Hb) as Hbnp. split.
  - apply (TreeWf_transfer c c' Hbnp); [|exact T]. intros s' Hin.
    destruct (sig_eq_In _ _ _ Hse Hin) as (s & Hs0 & E). unfold ssig in E. injection E as _ Ep Ec. rewrite <- Ep, <- Ec.
    split; [apply (tw_sparent _ T); exact Hs0|apply (tw_ckeys _ T); exact Hs0].
  - apply (CE_delta c c' D0 C (bdelta_sig _ _ Hb)). intros n b aff _.
    rewrite (srv_count_bnp c c' n aff Hbnp). unfold srv_count, D0. rewrite (cnt_in_ssig _ _ _ _ _ _ Hs). lia.
Qed.

(** ** a server's counters change and the change is walked up from its parent (Server.put / Server.remove) *)
Lemma Inv_srv_bump c c1 sn s fs ds sg :
  get_srv sn (c_servers c) = Some s ->
  s_parent (fs s) = s_parent s ->
  NoDup (map fst (s_counters (fs s))) ->
  (forall aff, cget aff (s_counters (fs s)) = cget aff (s_counters s) + sg * csum aff ds) ->
  c_servers c1 = upd_srv sn fs (c_servers c) -> c_buckets c1 = c_buckets c ->
  Inv c -> Inv (bump_from c1 (s_parent s) ds sg).
Proof.
  intros Hs Hp Hk Hc Es Eb [T C].
  pose proof (get_srv_In _ _ _ Hs) as Hin.
  destruct (tw_chain c (s_parent s) T (tw_sparent _ T _ Hin)) as [_ Hnd].
  assert (Ebnp : map bnp (c_buckets c1) = map bnp (c_buckets c)) by (rewrite Eb; reflexivity).
  rewrite <- (ancestors_bnp c c1 _ Ebnp) in Hnd.
  destruct (bump_from_delta c1 (s_parent s) ds sg Hnd) as [Es' Hd]. rewrite Eb in Hd.
  rewrite (ancestors_bnp c c1 _ Ebnp) in Hd. destruct Hd as [Hb' G].
  split.
  - apply (TreeWf_transfer c _ Hb'); [|exact T]. intros s' Hin'. rewrite Es', Es in Hin'.
    apply In_upd_srv_first in Hin' as [Hin'|(x & Hx & ->)].
    + split; [apply (tw_sparent _ T); exact Hin'|apply (tw_ckeys _ T); exact Hin'].
    + rewrite Hs in Hx. inversion Hx; subst x. rewrite Hp. split; [apply (tw_sparent _ T); exact Hin|exact Hk].
  - apply (CE_delta c _ _ C (conj Hb' G)). intros n b aff _.
    rewrite (srv_count_bnp c _ n aff Hb'), Es', Es. unfold srv_count, cnt_in. rewrite zsum_upd_srv, Hs, Hp, Hc.
    unfold Dchain, ancestors. destruct (zmem n (chain (depth_fuel c) (c_buckets c) (s_parent s))); lia.
Qed.

Lemma csum_single k aff : csum aff [(k, 1)] = if Z.eqb aff k then 1 else 0.
Proof. unfold csum. cbn [zsum fst snd]. rewrite Z.eqb_sym. destruct (Z.eqb aff k); lia. Qed.

Theorem Inv_srv_put_lease c sn an lease c' : srv_put_lease c sn an lease = Some c' -> Inv c -> Inv c'.
Proof.
  unfold srv_put_lease. destruct (get_srv sn (c_servers c)) as [s|] eqn:Es; [|discriminate].
  destruct (get_app an (c_apps c)) as [a|] eqn:Ea; [|discriminate].
  destruct (put_guard c s a lease); [|discriminate]. intros H HI. inversion H; subst c'; clear H.
  eapply Inv_sig_eq; [apply adjust_down_from_se|].
  set (fs := fun x : server => x <| s_free := vsub (s_free x) (a_demand a) |>
                                  <| s_apps ::= (fun l => l ++ [an]) |> <| s_counters ::= cadd (a_aff a) 1 |>).
  apply (Inv_srv_bump c _ sn s fs [(a_aff a, 1)] 1 Es); try reflexivity; try exact HI.
  - unfold fs. cbn [s_counters set]. apply NoDup_keys_cadd. destruct HI as [T _]. apply (tw_ckeys _ T). eapply get_srv_In; exact Es.
  - intros aff. unfold fs. cbn [s_counters set]. rewrite cget_cadd, csum_single. lia.
Qed.

Theorem Inv_srv_remove c sn an : Inv c -> Inv (srv_remove c sn an).
Proof.
  intros HI. unfold srv_remove. destruct (get_srv sn (c_servers c)) as [s|] eqn:Es; [|exact HI].
  destruct (get_app an (c_apps c)) as [a|] eqn:Ea; [|exact HI].
  destruct (negb (zmem an (s_apps s))); [exact HI|].
  eapply Inv_sig_eq; [apply adjust_up_from_se|].
  set (fs := fun x : server => x <| s_free := vadd (s_free x) (a_demand a) |> <| s_apps ::= zremove an |>
                                  <| s_counters ::= cadd (a_aff a) (-1) |>).
  apply (Inv_srv_bump c _ sn s fs [(a_aff a, 1)] (-1) Es); try reflexivity; try exact HI.
  - unfold fs. cbn [s_counters set]. apply NoDup_keys_cadd. destruct HI as [T _]. apply (tw_ckeys _ T). eapply get_srv_In; exact Es.
  - intros aff. unfold fs. cbn [s_counters set]. rewrite cget_cadd, csum_single. destruct (Z.eqb aff (a_aff a)); lia.
Qed.

(** ** a scheduling cycle, refined: every state change of a cycle is one of
    - a change that leaves name, parent and counters of every server and bucket alone (cursors, free capacity
      aggregates, every update of instances, identity groups, ...),
    - a concrete [Server.put] ([srv_put_lease]),
    - a concrete [Server.remove] ([srv_remove]).
    [Steps.pstep] lumps every bucket change into [PS_bkt], which is too coarse for counters; this relation keeps
    the two functions that move counters. *)
Inductive cstep : cell -> cell -> Prop :=
| CS_frame c c' : sig_eq c c' -> cstep c c'
| CS_put c sn an l c' : srv_put_lease c sn an l = Some c' -> cstep c c'
| CS_remove c sn an : cstep c (srv_remove c sn an).
Definition csteps := clos_refl_trans cell cstep.

Lemma cs_refl c : csteps c c. Proof. apply rt_refl. Qed.
Lemma cs_one c c' : cstep c c' -> csteps c c'. Proof. apply rt_step. Qed.
Lemma cs_trans a b c : csteps a b -> csteps b c -> csteps a c. Proof. apply rt_trans. Qed.
Lemma cs_se c c' : sig_eq c c' -> csteps c c'. Proof. intros; apply cs_one, CS_frame; assumption. Qed.

Theorem Inv_cstep c c' : cstep c c' -> Inv c -> Inv c'.
Proof.
  intros H. destruct H.
  - apply Inv_sig_eq; assumption.
  - eapply Inv_srv_put_lease; eassumption.
  - apply Inv_srv_remove.
Qed.
Theorem Inv_csteps c c' : csteps c c' -> Inv c -> Inv c'.
Proof. induction 1; [apply Inv_cstep; assumption|tauto|tauto]. Qed.

Lemma upd_app_se n f c : sig_eq c (c_upd_app n f c).
Proof. apply sig_eq_ext; reflexivity. Qed.
Lemma release_identity_se c n : sig_eq c (release_identity c n).
Proof.
  unfold release_identity. destruct (get_app n (c_apps c)) as [a|]; [|apply sig_eq_refl].
  destruct (group_of c a) as [[g grp]|]; [|apply sig_eq_refl]. destruct (a_identity a); [|apply sig_eq_refl].
  apply sig_eq_ext; reflexivity.
Qed.
Lemma acquire_identity_se c n ch : sig_eq c (fst (acquire_identity c n ch)).
Proof.
  unfold acquire_identity. destruct (get_app n (c_apps c)) as [a|]; [|apply sig_eq_refl].
  destruct (group_of c a) as [[g grp]|]; [|apply sig_eq_refl]. destruct (a_identity a); [apply sig_eq_refl|].
  destruct (g_avail grp); [apply sig_eq_refl|]. cbn [fst]. apply sig_eq_ext; reflexivity.
Qed.

Lemma srv_put_cs c sn an c' : srv_put c sn an = Some c' -> csteps c c'.
Proof.
  unfold srv_put. destruct (get_app an (c_apps c)); [|discriminate]. intros H. apply cs_one. eapply CS_put; exact H.
Qed.
Lemma srv_remove_cs c sn an : csteps c (srv_remove c sn an).
Proof. apply cs_one, CS_remove. Qed.
Lemma srv_restore_cs c sn an ex : csteps c (fst (srv_restore c sn an ex)).
Proof.
  unfold srv_restore. destruct (get_app an (c_apps c)) as [a|]; [|apply cs_refl].
  destruct (srv_put_lease c sn an 0) as [c'|] eqn:E; cbn [fst].
  - eapply cs_trans; [apply cs_one; eapply CS_put; exact E|]. apply cs_se, upd_app_se.
  - apply cs_se, upd_app_se.
Qed.
Lemma srv_renew_cs c sn an : csteps c (fst (srv_renew c sn an)).
Proof.
  unfold srv_renew. destruct (get_srv sn (c_servers c)); [|apply cs_refl].
  destruct (get_app an (c_apps c)) as [a|]; [|apply cs_refl].
  destruct (check_lifetime c a (a_lease a) s); cbn [fst]; [|apply cs_refl].
  apply cs_se, upd_app_se.
Qed.

Lemma fold_cs {A} (f : cell -> A -> cell) (l : list A) :
  (forall c x, csteps c (f c x)) -> forall c, csteps c (fold_left f l c).
Proof.
  intros Hf. induction l as [|x r IH]; intros c; cbn; [apply cs_refl|].
  eapply cs_trans; [apply Hf|apply IH].
Qed.

Lemma try_children_cs put_bkt b aff an p0 :
  (forall c n, csteps c (fst (put_bkt c n))) ->
  forall l c, csteps c (fst (try_children put_bkt b aff an p0 l c)).
Proof.
  intros Hp. induction l as [|[p n] r IHl]; intros c; cbn [try_children].
  - cbn [fst]. apply cs_se, set_cursor_se.
  - set (c1 := set_cursor c b aff (S p)).
    assert (H1 : csteps c c1) by (apply cs_se, set_cursor_se).
    destruct (get_srv n (c_servers c1)) as [s|].
    + destruct (s_state s).
      * destruct (srv_put c1 n an) as [c2|] eqn:Ep.
        -- cbn [fst]. eapply cs_trans; [exact H1|]. eapply srv_put_cs; exact Ep.
        -- eapply cs_trans; [exact H1|apply IHl].
      * eapply cs_trans; [exact H1|apply IHl].
      * eapply cs_trans; [exact H1|apply IHl].
    + specialize (Hp c1 n). destruct (put_bkt c1 n) as [c2 ok]. cbn [fst] in Hp.
      destruct ok.
      * cbn [fst]. eapply cs_trans; [exact H1|exact Hp].
      * eapply cs_trans; [exact H1|]. eapply cs_trans; [exact Hp|apply IHl].
Qed.

Lemma bucket_put_cs fuel : forall c b an, csteps c (fst (bucket_put fuel c b an)).
Proof.
  induction fuel as [|f IH]; intros c b an; cbn [bucket_put]; [apply cs_refl|].
  destruct (get_bkt b (c_buckets c)) as [bk|]; [|apply cs_refl].
  destruct (get_app an (c_apps c)) as [a|]; [|apply cs_refl].
  destruct (check_constraints c a (b_labels bk) (bkt_traits bk) (b_counters bk) (b_level bk) (b_free bk)); [|apply cs_refl].
  destruct (live_positions (b_children bk) (cursor_of bk (a_aff a))) as [|[p0 n0] rest] eqn:El.
  - cbn [fst]. apply cs_se, set_cursor_se.
  - apply try_children_cs. intros c' n. apply IH.
Qed.
Lemma cell_put_cs c an : csteps c (fst (cell_put c an)).
Proof. apply bucket_put_cs. Qed.

Lemma fix_invalid_placements_cs c : csteps c (fix_invalid_placements c).
Proof.
  unfold fix_invalid_placements. apply fold_cs. intros c0 a0.
  destruct (get_app (a_name a0) (c_apps c0)) as [a|]; [|apply cs_refl].
  destruct (a_server a) as [n|]; [|apply cs_refl].
  destruct (is_member c0 n); [apply cs_refl|].
  eapply cs_trans; [apply cs_se, upd_app_se|apply cs_se, release_identity_se].
Qed.
Lemma handle_inactive_servers_cs c : csteps c (handle_inactive_servers c).
Proof.
  unfold handle_inactive_servers. apply fold_cs. intros c0 s0.
  destruct (get_srv (s_name s0) (c_servers c0)) as [s|]; [|apply cs_refl].
  apply fold_cs. intros c1 n. eapply cs_trans; [apply srv_remove_cs|apply cs_se, release_identity_se].
Qed.
Lemma handle_blacklisted_cs c : csteps c (handle_blacklisted c).
Proof.
  unfold handle_blacklisted. apply fold_cs. intros c0 a0.
  destruct (get_app (a_name a0) (c_apps c0)) as [a|]; [|apply cs_refl].
  destruct (a_blacklisted a); [|apply cs_refl].
  destruct (a_server a) as [n|].
  - eapply cs_trans; [apply srv_remove_cs|apply cs_se, release_identity_se].
  - apply cs_se, release_identity_se.
Qed.
Lemma fix_invalid_identities_cs c : csteps c (fix_invalid_identities c).
Proof.
  unfold fix_invalid_identities. apply fold_cs. intros c0 a0.
  destruct (get_app (a_name a0) (c_apps c0)) as [a|]; [|apply cs_refl].
  destruct (a_identity a) as [i|]; [|apply cs_refl].
  destruct (group_of c0 a) as [[g grp]|]; [|apply cs_refl].
  destruct (Z.geb i (g_count grp)); [|apply cs_refl].
  eapply cs_trans; [apply cs_se, upd_app_se|].
  destruct (a_server a); [apply srv_remove_cs|apply cs_refl].
Qed.
Lemma pre_phases_cs c : csteps c (pre_phases c).
Proof.
  unfold pre_phases.
  eapply cs_trans; [apply fix_invalid_placements_cs|].
  eapply cs_trans; [apply handle_inactive_servers_cs|].
  eapply cs_trans; [apply handle_blacklisted_cs|apply fix_invalid_identities_cs].
Qed.

Lemma evict_scan_cs victims placer : forall c ev, csteps c (fst (evict_scan victims placer c ev)).
Proof.
  induction victims as [|v r IH]; intros c ev; cbn [evict_scan]; [apply cs_refl|].
  destruct (Z.eqb v placer); [apply cs_refl|].
  destruct (get_app v (c_apps c)) as [va|]; [|apply IH].
  destruct (a_server va) as [sn|]; [|apply IH].
  destruct (get_srv sn (c_servers c)) as [s|]; [|apply IH].
  destruct (s_state s); try apply IH.
  destruct (srv_put (srv_remove c sn v) sn placer) as [c2|] eqn:Ep.
  - cbn [fst]. eapply cs_trans; [apply srv_remove_cs|eapply srv_put_cs; exact Ep].
  - eapply cs_trans; [apply srv_remove_cs|apply IH].
Qed.

Lemma place_one_cs rq st an : csteps (l_cell st) (l_cell (place_one rq st an)).
Proof.
  unfold place_one.
  destruct (get_app an (c_apps (l_cell st))) as [a|]; [|apply cs_refl].
  destruct (a_blacklisted a); [apply cs_refl|].
  destruct (Z.eqb (a_rank a) UNPLACED_RANK).
  { destruct (a_server a); cbn [l_cell set];
      [eapply cs_trans; [apply srv_remove_cs|apply cs_se, release_identity_se]|apply cs_se, release_identity_se]. }
  set (cr := if a_renew a
             then match a_server a with
                  | Some n => let '(cr, ok) := srv_renew (l_cell st) n an in
                              if ok then (cr, None) else (srv_remove cr n an, Some (n, a_expiry a))
                  | None => (l_cell st, None)
                  end
             else (l_cell st, None)).
  assert (Hcr : csteps (l_cell st) (fst cr)).
  { subst cr. destruct (a_renew a); [|apply cs_refl]. destruct (a_server a) as [n|]; [|apply cs_refl].
    pose proof (srv_renew_cs (l_cell st) n an) as Hr. destruct (srv_renew (l_cell st) n an) as [c0 ok]. cbn [fst] in Hr.
    destruct ok; cbn [fst]; [exact Hr|]. eapply cs_trans; [exact Hr|apply srv_remove_cs]. }
  destruct cr as [c1 restore]. cbn [fst] in Hcr.
  set (c2 := c_upd_app an (fun x => x <| a_renew := false |>) c1).
  assert (H2 : csteps (l_cell st) c2) by (eapply cs_trans; [exact Hcr|apply cs_se, upd_app_se]).
  destruct (get_app an (c_apps c2)) as [a2|]; [|apply cs_refl].
  destruct (a_server a2); [exact H2|].
  pose proof (acquire_identity_se c2 an (aget an (l_choices st))) as Hacq.
  destruct (acquire_identity c2 an (aget an (l_choices st))) as [c3 got]. cbn [fst] in Hacq.
  assert (H3 : csteps (l_cell st) c3) by (eapply cs_trans; [exact H2|apply cs_se; exact Hacq]).
  destruct got; cbn [negb]; [|exact H3].
  set (r4 := match aget an (l_evicted st) with
             | Some (sn, ex) =>
                 let '(cr, ok) := srv_restore c3 sn an ex in
                 if ok then (c_upd_app an (fun x => x <| a_evicted := false |>) cr, true, adel an (l_evicted st))
                 else (cr, false, adel an (l_evicted st))
             | None => (c3, false, l_evicted st)
             end).
  assert (H4 : csteps c3 (fst (fst r4))).
  { subst r4. destruct (aget an (l_evicted st)) as [[sn ex]|]; [|apply cs_refl].
    pose proof (srv_restore_cs c3 sn an ex) as Hr. destruct (srv_restore c3 sn an ex) as [c0 ok]. cbn [fst] in Hr.
    destruct ok; cbn [fst]; [|exact Hr]. eapply cs_trans; [exact Hr|apply cs_se, upd_app_se]. }
  destruct r4 as [[c4 restored] ev1]. cbn [fst] in H4.
  assert (H4' : csteps (l_cell st) c4) by (eapply cs_trans; eassumption).
  destruct restored; [exact H4'|]. unfold place_tail.
  destruct (get_app an (c_apps c4)) as [a4|]; [|apply cs_refl].
  destruct (a_once a4 && a_evicted a4); [cbn [l_cell set]; eapply cs_trans; [exact H4'|apply cs_se, release_identity_se]|].
  destruct (negb (tr_feasible (l_tracker st) a4)); [cbn [l_cell set]; eapply cs_trans; [exact H4'|apply cs_se, release_identity_se]|].
  pose proof (cell_put_cs c4 an) as H5. destruct (cell_put c4 an) as [c5 ok]. cbn [fst] in H5.
  set (r6 := if ok then (c5, ev1) else evict_scan rq an c5 ev1).
  assert (H6 : csteps c5 (fst r6)).
  { subst r6. destruct ok; [apply cs_refl|apply evict_scan_cs]. }
  destruct r6 as [c6 ev2]. cbn [fst] in H6.
  assert (H6' : csteps (l_cell st) c6) by (eapply cs_trans; [exact H4'|eapply cs_trans; eassumption]).
  destruct (match get_app an (c_apps c6) with
            | Some a6 => match a_server a6 with Some _ => true | None => false end
            | None => false
            end); [exact H6'|].
  destruct restore as [[n ex]|].
  - pose proof (srv_restore_cs c6 n an ex) as H7. destruct (srv_restore c6 n an ex) as [c7 ok7]. cbn [fst] in H7.
    destruct ok7; [|unfold give_up]; cbn [l_cell set]; (eapply cs_trans; [exact H6'|]).
    + eapply cs_trans; [exact H7|apply cs_se, upd_app_se].
    + eapply cs_trans; [exact H7|apply cs_se, release_identity_se].
  - unfold give_up. cbn [l_cell set]. eapply cs_trans; [exact H6'|apply cs_se, release_identity_se].
Qed.

Lemma find_placements_cs c q ch : csteps c (find_placements c q ch).
Proof.
  unfold find_placements.
  assert (G : forall l st, csteps (l_cell st) (l_cell (fold_left (place_one (rev q)) l st))).
  { induction l as [|x r IH]; intros st; cbn; [apply cs_refl|].
    eapply cs_trans; [apply place_one_cs|apply IH]. }
  apply (G q (mkLoop c [] [] ch)).
Qed.
Lemma record_ranks_cs c q : csteps c (record_ranks c q).
Proof. unfold record_ranks. apply fold_cs. intros c0 e. apply cs_se, upd_app_se. Qed.
Lemma schedule_alloc_cs c label top ch : csteps c (fst (schedule_alloc c label top ch)).
Proof.
  unfold schedule_alloc. cbn [fst]. eapply cs_trans; [apply record_ranks_cs|apply find_placements_cs].
Qed.

Theorem schedule_cs c ch : csteps c (fst (fst (schedule c ch))).
Proof.
  unfold schedule.
  set (F := fun (acc : cell * list (Z * list entry)) (p : Z * alloc) =>
              let '(cc, qs) := acc in
              match aget (fst p) (c_parts cc) with
              | Some top => let '(cc', q) := schedule_alloc cc (fst p) top ch in (cc', qs ++ [(fst p, q)])
              | None => (cc, qs)
              end).
  assert (G : forall l acc, csteps (fst acc) (fst (fold_left F l acc))).
  { induction l as [|p r IH]; intros acc; cbn [fold_left]; [apply cs_refl|].
    eapply cs_trans; [|apply IH]. subst F. cbn beta. destruct acc as [cc qs]. cbn [fst].
    destruct (aget (fst p) (c_parts cc)) as [top|]; [|apply cs_refl].
    pose proof (schedule_alloc_cs cc (fst p) top ch) as Hs.
    destruct (schedule_alloc cc (fst p) top ch) as [cc' q]. exact Hs. }
  specialize (G (c_parts (pre_phases c)) (pre_phases c, [])).
  fold F. destruct (fold_left F (c_parts (pre_phases c)) (pre_phases c, [])) as [c1 qs]. cbn [fst] in *.
  eapply cs_trans; [apply pre_phases_cs|exact G].
Qed.

Theorem Inv_schedule c ch : Inv c -> Inv (fst (fst (schedule c ch))).
Proof. apply Inv_csteps, schedule_cs. Qed.

(** ** topology *)
Lemma sig_eq_bnp c c' : sig_eq c c' -> map bnp (c_buckets c') = map bnp (c_buckets c).
Proof. intros [_ H]. apply bsig_bnp. exact H. Qed.
Lemma sig_eq_bdelta c c' : sig_eq c c' -> bdelta (c_buckets c) (c_buckets c') D0.
Proof. intros [_ H]. apply bdelta_sig. exact H. Qed.

(** Bucket.add_node: the child's counters are added along the chain of the new parent *)
Lemma attach_common_delta c p child tr cnts lbls fr :
  NoDup (ancestors c (Some p)) ->
  c_servers (attach_common c p child tr cnts lbls fr) = c_servers c /\
  bdelta (c_buckets c) (c_buckets (attach_common c p child tr cnts lbls fr))
         (Dchain (ancestors c (Some p)) (fun aff => csum aff cnts)).
Proof.
  intros Hnd. split; [apply (attach_common_sc c p child tr cnts lbls fr)|].
  unfold attach_common. cbv zeta.
  set (c1 := c_upd_bkt p _ c).
  set (c2 := propagate_traits (depth_fuel c1) c1 p).
  set (c3 := bump_affinity (depth_fuel c2) c2 p cnts 1).
  set (c4 := add_labels (depth_fuel c3) c3 p lbls).
  assert (H2 : sig_eq c c2).
  { eapply sig_eq_trans; [|apply propagate_traits_se]. subst c1. apply sig_eq_upd_bkt. reflexivity. }
  assert (H4 : sig_eq c3 (adjust_up (depth_fuel c4) c4 p fr)).
  { eapply sig_eq_trans; [apply add_labels_se|apply adjust_up_se]. }
  pose proof (ancestors_bnp c c2 (Some p) (sig_eq_bnp _ _ H2)) as Ha.
  assert (Hnd2 : NoDup (chain (depth_fuel c2) (c_buckets c2) (Some p))) by (fold (ancestors c2 (Some p)); rewrite Ha; exact Hnd).
  destruct (bump_affinity_delta cnts 1 (depth_fuel c2) c2 p Hnd2) as [_ H3]. fold c3 in H3.
  fold (ancestors c2 (Some p)) in H3. rewrite Ha in H3.
  eapply bdelta_trans0; [apply sig_eq_bdelta; exact H2|].
  eapply bdelta_trans0r; [|apply sig_eq_bdelta; exact H4].
  eapply bdelta_ext; [|exact H3]. intros n aff. unfold Dchain. destruct (zmem n (ancestors c (Some p))); lia.
Qed.

(** parent.remove_node(server), bucket part: the server's counters are subtracted along the chain of the old parent *)
Lemma unhook_server_delta c p s :
  NoDup (ancestors c (Some p)) ->
  c_servers (unhook_server c p s) = c_servers c /\
  bdelta (c_buckets c) (c_buckets (unhook_server c p s))
         (Dchain (ancestors c (Some p)) (fun aff => - csum aff (s_counters s))).
Proof.
  intros Hnd. split; [apply (unhook_server_sc c p s)|].
  unfold unhook_server. cbv zeta.
  set (c1 := c_upd_bkt p _ c).
  set (c2 := propagate_traits (depth_fuel c1) c1 p).
  set (c3 := bump_affinity (depth_fuel c2) c2 p (s_counters s) (-1)).
  assert (H2 : sig_eq c c2).
  { eapply sig_eq_trans; [|apply propagate_traits_se]. subst c1. apply sig_eq_upd_bkt. reflexivity. }
  pose proof (ancestors_bnp c c2 (Some p) (sig_eq_bnp _ _ H2)) as Ha.
  assert (Hnd2 : NoDup (chain (depth_fuel c2) (c_buckets c2) (Some p))) by (fold (ancestors c2 (Some p)); rewrite Ha; exact Hnd).
  destruct (bump_affinity_delta (s_counters s) (-1) (depth_fuel c2) c2 p Hnd2) as [_ H3]. fold c3 in H3.
  fold (ancestors c2 (Some p)) in H3. rewrite Ha in H3.
  eapply bdelta_trans0; [apply sig_eq_bdelta; exact H2|].
  eapply bdelta_trans0r; [|apply sig_eq_bdelta; apply adjust_down_se].
  eapply bdelta_ext; [|exact H3]. intros n aff. unfold Dchain. destruct (zmem n (ancestors c (Some p))); lia.
Qed.

Lemma csum_nil aff : csum aff [] = 0.
Proof. reflexivity. Qed.

(** a node without counters is hooked under an existing bucket: nothing the invariant reads changes *)
Lemma bump_affinity_nil_se sg : forall f c p, sig_eq c (bump_affinity f c p [] sg).
Proof.
  induction f as [|f IH]; intros c p; cbn [bump_affinity]; [apply sig_eq_refl|].
  destruct (get_bkt p (c_buckets c)) as [bk|]; [|apply sig_eq_refl].
  destruct (b_parent bk) as [q|]; [(eapply sig_eq_trans; [apply sig_eq_upd_bkt|apply IH]); reflexivity|apply sig_eq_upd_bkt; reflexivity].
Qed.
Lemma attach_common_empty_se c p child tr lbls fr : sig_eq c (attach_common c p child tr [] lbls fr).
Proof.
  unfold attach_common. cbv zeta.
  set (c1 := c_upd_bkt p _ c).
  set (c2 := propagate_traits (depth_fuel c1) c1 p).
  set (c3 := bump_affinity (depth_fuel c2) c2 p [] 1).
  set (c4 := add_labels (depth_fuel c3) c3 p lbls).
  apply (sig_eq_trans c c1); [subst c1; apply sig_eq_upd_bkt; reflexivity|].
  apply (sig_eq_trans c1 c2); [apply propagate_traits_se|].
  apply (sig_eq_trans c2 c3); [apply bump_affinity_nil_se|].
  apply (sig_eq_trans c3 c4); [apply add_labels_se|apply adjust_up_se].
Qed.

Lemma chain_not_fresh f bs p n : get_bkt n bs = None -> zmem n (chain f bs p) = false.
Proof.
  intros Hn. apply zmem_false. intros Hin. destruct (chain_exists _ _ _ _ Hin) as (b & Hb). congruence.
Qed.

Theorem Inv_add_bucket c name level parent :
  get_bkt name (c_buckets c) = None -> get_bkt parent (c_buckets c) <> None ->
  Inv c -> Inv (add_bucket c name level (Some parent)).
Proof.
  intros Hfresh Hpar [T C]. unfold add_bucket.
  eapply Inv_sig_eq; [apply attach_common_empty_se|].
  set (nb := mkBucket name (Some parent) level [] (vzero (c_dim c)) 0 [] [] [] []).
  set (c1 := c <| c_buckets ::= (fun l => l ++ [nb]) |>).
  assert (Eb : c_buckets c1 = c_buckets c ++ [nb]) by reflexivity.
  assert (Es : c_servers c1 = c_servers c) by reflexivity.
  assert (Elen : length (c_buckets c1) = S (length (c_buckets c))) by (rewrite Eb, app_length; cbn [length]; lia).
  destruct (get_bkt parent (c_buckets c)) as [pb|] eqn:Ep; [clear Hpar|congruence].
  (* closed walks of the old cell are walks of the new one *)
  assert (Hold : forall q, closedb (length (c_buckets c)) (c_buckets c) q = true ->
                           closedb (length (c_buckets c1)) (c_buckets c1) q = true /\
                           ancestors c1 q = ancestors c q).
  { intros q Hq. rewrite Elen, Eb. unfold ancestors, depth_fuel. rewrite Eb, app_length. cbn [length].
    replace (length (c_buckets c) + 1)%nat with (S (length (c_buckets c))) by lia.
    destruct (closed_mono _ _ _ Hq (S (length (c_buckets c))) ltac:(lia)) as [Hq1 Hc1].
    destruct (closed_mono _ _ _ Hq (S (S (length (c_buckets c)))) ltac:(lia)) as [Hq2 Hc2].
    destruct (closed_snoc _ nb _ _ Hq1) as [Hq1' _]. destruct (closed_snoc _ nb _ _ Hq2) as [_ Hc2'].
    split; [exact Hq1'|]. rewrite Hc2', Hc2, Hc1. reflexivity. }
  split.
  - constructor.
    + rewrite Eb, map_app. cbn [map b_name nb]. apply NoDup_snoc; [apply (tw_bnames _ T)|apply get_bkt_none_notin; exact Hfresh].
    + intros n b Hb. rewrite Eb, get_bkt_snoc in Hb. destruct (get_bkt n (c_buckets c)) as [b0|] eqn:E.
      * apply Hold. eapply (tw_closed _ T); exact E.
      * destruct (Z.eqb_spec (b_name nb) n) as [En|]; [|discriminate]. cbn [b_name nb] in En. subst n.
        rewrite Elen. cbn [closedb]. rewrite Eb, get_bkt_snoc, Hfresh. cbn [b_name nb]. rewrite Z.eqb_refl. cbn [b_parent nb].
        destruct (closed_snoc _ nb _ _ (tw_closed _ T _ _ Ep)) as [H _]. exact H.
    + intros s Hin. rewrite Es in Hin. apply Hold. apply (tw_sparent _ T). exact Hin.
    + intros s Hin. rewrite Es in Hin. apply (tw_ckeys _ T). exact Hin.
  - intros n b aff Hb. rewrite Eb, get_bkt_snoc in Hb.
    assert (Hcnt : srv_count c1 n aff = srv_count c n aff).
    { unfold srv_count, cnt_in. rewrite Es. apply zsum_ext. intros s Hin.
      destruct (Hold _ (tw_sparent _ T _ Hin)) as [_ Ha]. unfold ancestors in Ha. rewrite Ha. reflexivity. }
    rewrite Hcnt. destruct (get_bkt n (c_buckets c)) as [b0|] eqn:E.
    + inversion Hb; subst b0. eapply C; exact E.
    + destruct (Z.eqb_spec (b_name nb) n) as [En|]; [|discriminate]. inversion Hb; subst b. cbn [b_counters nb].
      unfold srv_count, cnt_in. symmetry. apply zsum_zero. intros s _. rewrite chain_not_fresh by exact E. reflexivity.
Qed.

Theorem Inv_add_server c s :
  s_counters s = [] -> (forall p, s_parent s = Some p -> get_bkt p (c_buckets c) <> None) ->
  Inv c -> Inv (add_server c s).
Proof.
  intros Hcnt Hpar [T C]. unfold add_server.
  set (c1 := c <| c_servers ::= (fun l => l ++ [s]) |>).
  assert (H1 : Inv c1).
  { split.
    - apply (TreeWf_transfer c c1 eq_refl); [|exact T]. intros s' Hin. cbn [c1 c_servers set] in Hin.
      apply in_app_or in Hin as [Hin|[<-|[]]].
      + split; [apply (tw_sparent _ T); exact Hin|apply (tw_ckeys _ T); exact Hin].
      + rewrite Hcnt. split; [|constructor]. destruct (s_parent s) as [p|] eqn:Ep; [|apply closedb_none].
        specialize (Hpar p eq_refl). destruct (get_bkt p (c_buckets c)) as [pb|] eqn:Epb; [|congruence].
        eapply (tw_closed _ T); exact Epb.
    - apply (CE_delta c c1 D0 C (bdelta_refl _)). intros n b aff _. unfold srv_count, cnt_in. cbn [c1 c_servers c_buckets set].
      change (depth_fuel c1) with (depth_fuel c). rewrite zsum_app. cbn [zsum]. rewrite Hcnt.
      change (cget aff []) with 0. unfold D0. destruct (zmem n (chain (depth_fuel c) (c_buckets c) (s_parent s))); lia. }
  destruct (s_parent s) as [p|]; [|exact H1].
  rewrite Hcnt. eapply Inv_sig_eq; [apply attach_common_empty_se|exact H1].
Qed.

Lemma ancestors_none c : ancestors c None = [].
Proof. apply chain_none. Qed.

(** the bucket part of leaving a parent, for a server with or without parent *)
Lemma leave_parent_delta c s :
  NoDup (ancestors c (s_parent s)) ->
  let c' := match s_parent s with None => c | Some p => unhook_server c p s end in
  c_servers c' = c_servers c /\
  bdelta (c_buckets c) (c_buckets c') (Dchain (ancestors c (s_parent s)) (fun aff => - csum aff (s_counters s))).
Proof.
  intros Hnd. destruct (s_parent s) as [p|]; cbv zeta.
  - apply unhook_server_delta. exact Hnd.
  - split; [reflexivity|]. rewrite ancestors_none. apply bdelta_refl.
Qed.

Theorem Inv_detach_server c sname : Inv c -> Inv (detach_server c sname).
Proof.
  intros [T C]. unfold detach_server. destruct (get_srv sname (c_servers c)) as [s|] eqn:Es; [|split; assumption].
  pose proof (get_srv_In _ _ _ Es) as Hin.
  set (c0 := c <| c_servers ::= del_srv sname |>).
  destruct (tw_chain c (s_parent s) T (tw_sparent _ T _ Hin)) as [_ Hnd].
  change (ancestors c (s_parent s)) with (ancestors c0 (s_parent s)) in Hnd.
  pose proof (leave_parent_delta c0 s Hnd) as H. cbv zeta in H.
  set (c' := match s_parent s with None => c0 | Some p => unhook_server c0 p s end) in *.
  destruct H as [Es' Hd]. change (c_buckets c0) with (c_buckets c) in Hd.
  change (ancestors c0 (s_parent s)) with (ancestors c (s_parent s)) in Hd.
  split.
  - apply (TreeWf_transfer c c' (proj1 Hd)); [|exact T]. intros s' Hin'. rewrite Es' in Hin'. cbn [c0 c_servers set] in Hin'.
    apply In_del_srv in Hin'. split; [apply (tw_sparent _ T); exact Hin'|apply (tw_ckeys _ T); exact Hin'].
  - apply (CE_delta c c' _ C Hd). intros n b aff _. rewrite (srv_count_bnp c c' n aff (proj1 Hd)), Es'.
    cbn [c0 c_servers set]. unfold srv_count, cnt_in. rewrite zsum_del_srv, Es.
    unfold Dchain, ancestors. cbv beta. rewrite (csum_cget aff _ (tw_ckeys _ T _ Hin)).
    destruct (zmem n (chain (depth_fuel c) (c_buckets c) (s_parent s))); lia.
Qed.

Theorem Inv_move_server c sname np :
  (get_srv sname (c_servers c) <> None -> get_bkt np (c_buckets c) <> None) ->
  Inv c -> Inv (move_server c sname np).
Proof.
  intros Hnp [T C]. unfold move_server. destruct (get_srv sname (c_servers c)) as [s|] eqn:Es; [|split; assumption].
  pose proof (get_srv_In _ _ _ Es) as Hin.
  destruct (get_bkt np (c_buckets c)) as [nb|] eqn:Enb; [clear Hnp|exfalso; apply Hnp; congruence].
  destruct (tw_chain c (s_parent s) T (tw_sparent _ T _ Hin)) as [_ Hnd].
  destruct (tw_chain c (Some np) T (tw_closed _ T _ _ Enb)) as [_ Hnd2].
  pose proof (leave_parent_delta c s Hnd) as H. cbv zeta in H.
  set (c0 := match s_parent s with None => c | Some p => unhook_server c p s end) in *.
  destruct H as [Es0 Hd0].
  set (fp := fun x : server => x <| s_parent := Some np |>).
  set (c1 := c_upd_srv sname fp c0).
  assert (Ha1 : ancestors c1 (Some np) = ancestors c (Some np)).
  { change (ancestors c1 (Some np)) with (ancestors c0 (Some np)). apply ancestors_bnp. exact (proj1 Hd0). }
  rewrite <- Ha1 in Hnd2.
  destruct (attach_common_delta c1 np sname (s_traits s) (s_counters s) [s_label s] (s_free s) Hnd2) as [Es1 Hd1].
  set (c' := attach_common c1 np sname (s_traits s) (s_counters s) [s_label s] (s_free s)) in *.
  change (c_buckets c1) with (c_buckets c0) in Hd1. rewrite Ha1 in Hd1.
  pose proof (bdelta_trans _ _ _ _ _ Hd0 Hd1) as Hd.
  assert (Es' : c_servers c' = upd_srv sname fp (c_servers c)).
  { rewrite Es1. cbn [c1 c_upd_srv c_servers set]. rewrite Es0. reflexivity. }
  split.
  - apply (TreeWf_transfer c c' (proj1 Hd)); [|exact T]. intros s' Hin'. rewrite Es' in Hin'.
    apply In_upd_srv_first in Hin' as [Hin'|(x & Hx & ->)].
    + split; [apply (tw_sparent _ T); exact Hin'|apply (tw_ckeys _ T); exact Hin'].
    + rewrite Es in Hx. inversion Hx; subst x. cbn [fp s_parent s_counters set].
      split; [eapply (tw_closed _ T); exact Enb|apply (tw_ckeys _ T); exact Hin].
  - apply (CE_delta c c' _ C Hd). intros n b aff _. rewrite (srv_count_bnp c c' n aff (proj1 Hd)), Es'.
    unfold srv_count, cnt_in. rewrite zsum_upd_srv, Es. cbn [fp s_parent s_counters set].
    unfold Dchain, ancestors. cbv beta. rewrite (csum_cget aff _ (tw_ckeys _ T _ Hin)).
    destruct (zmem n (chain (depth_fuel c) (c_buckets c) (s_parent s)));
      destruct (zmem n (chain (depth_fuel c) (c_buckets c) (Some np))); lia.
Qed.

(** ** every event *)
Lemma Inv_srv_remove_all c sn : Inv c -> Inv (srv_remove_all c sn).
Proof.
  unfold srv_remove_all. destruct (get_srv sn (c_servers c)) as [s|]; [|tauto].
  generalize (s_apps s) as l. intros l. revert c. induction l as [|x r IH]; intros c H; cbn [fold_left]; [exact H|].
  apply IH. apply Inv_srv_remove. exact H.
Qed.

Lemma upd_alloc_se c l p f : sig_eq c (upd_alloc c l p f).
Proof. unfold upd_alloc, ensure_part. destruct (aget l (c_parts c)); apply sig_eq_ext; reflexivity. Qed.
Lemma ensure_group_se c g : sig_eq c (ensure_group c g).
Proof.
  unfold ensure_group. destruct g as [k|]; [|apply sig_eq_refl].
  destruct (aget k (c_groups c)); [apply sig_eq_refl|apply sig_eq_ext; reflexivity].
Qed.

Lemma add_app_se c label path a : sig_eq c (add_app c label path a).
Proof.
  unfold add_app. destruct (get_app (a_name a) (c_apps c)) as [old|].
  - eapply sig_eq_trans; [|apply ensure_group_se]. eapply sig_eq_trans; [|apply upd_app_se].
    eapply sig_eq_trans; [|apply upd_alloc_se]. destruct (a_alloc old) as [[l0 p0]|]; [apply upd_alloc_se|apply sig_eq_refl].
  - eapply sig_eq_trans; [|apply ensure_group_se]. eapply sig_eq_trans; [apply upd_alloc_se|]. apply sig_eq_ext; reflexivity.
Qed.

Lemma Inv_remove_app c n : Inv c -> Inv (remove_app c n).
Proof.
  intros HI. unfold remove_app. destruct (get_app n (c_apps c)) as [a|]; [|exact HI].
  set (c1 := match a_server a with
             | Some sn => if is_member c sn then srv_remove c sn n else c
             | None => c
             end).
  assert (H1 : Inv c1).
  { subst c1. destruct (a_server a) as [sn|]; [|exact HI]. destruct (is_member c sn); [apply Inv_srv_remove; exact HI|exact HI]. }
  eapply Inv_sig_eq; [|exact H1].
  set (c2 := match a_alloc a with Some (l0, p0) => upd_alloc c1 l0 p0 (alloc_del_app n) | None => c1 end).
  apply (sig_eq_trans c1 c2); [subst c2; destruct (a_alloc a) as [[l0 p0]|]; [apply upd_alloc_se|apply sig_eq_refl]|].
  apply (sig_eq_trans c2 (release_identity c2 n)); [apply release_identity_se|]. apply sig_eq_ext; reflexivity.
Qed.

(** side conditions, true of what the real system does:
    - a new bucket has a name no bucket has, and is added under an existing bucket
      (Bucket.add_node is called on the parent object);
    - a new server is added under an existing bucket;
    - a server is moved to an existing bucket (servers are leaves, so no cycle can arise). *)
Definition wf_op_cnt (c : cell) (o : op) : Prop :=
  match o with
  | OAddBucket name level parent =>
      get_bkt name (c_buckets c) = None /\ get_bkt parent (c_buckets c) <> None
  | OAddServer name parent cap label traits vu => get_bkt parent (c_buckets c) <> None
  | OMoveServer name p => get_srv name (c_servers c) <> None -> get_bkt p (c_buckets c) <> None
  | _ => True
  end.

(** Loader.restore_placement of one recorded instance (ORestore) *)
Lemma restore_put_cs c sn an vb ex : csteps c (fst (restore_put c sn an vb ex)).
Proof.
  unfold restore_put. destruct vb; [apply srv_restore_cs|].
  destruct (get_app an (c_apps c)) as [a|]; [|apply cs_refl]. destruct (a_once a); [apply cs_refl|].
  destruct (srv_put c sn an) as [c'|] eqn:E; [|apply cs_refl]. cbn [fst]. eapply srv_put_cs; exact E.
Qed.
Lemma force_identity_se c an i : sig_eq c (force_identity c an i).
Proof.
  unfold force_identity. destruct i as [i|]; [|apply sig_eq_refl]. destruct (get_app an (c_apps c)) as [a|]; [|apply sig_eq_refl].
  destruct (group_of c a) as [[g grp]|]; [|apply sig_eq_refl].
  eapply sig_eq_trans; [|apply upd_app_se]. apply sig_eq_ext; reflexivity.
Qed.
Lemma Inv_restore_op c sn an vb ex ident : Inv c -> Inv (restore_op c sn an vb ex ident).
Proof.
  intros HI. unfold restore_op. destruct (get_app an (c_apps c)) as [a|]; [|exact HI].
  pose proof (Inv_csteps _ _ (restore_put_cs c sn an vb ex) HI) as H1.
  destruct (restore_put c sn an vb ex) as [c1 ok]. cbn [fst] in H1.
  destruct ok; [eapply Inv_sig_eq; [apply force_identity_se|exact H1]|].
  destruct (a_once a); [apply Inv_remove_app|]; exact H1.
Qed.

Theorem Inv_step c o : wf_op_cnt c o -> Inv c -> Inv (step c o).
Proof.
  intros Hwf HI. destruct o; cbn [step].
  - destruct Hwf as [H1 H2]. apply Inv_add_bucket; assumption.
  - apply Inv_add_server; [reflexivity| |exact HI]. cbn [new_server s_parent]. intros p Hp. inversion Hp; subst. exact Hwf.
  - apply Inv_detach_server. destruct raw; [exact HI|apply Inv_srv_remove_all; exact HI].
  - apply Inv_move_server; assumption.
  - (* OSetState *)
    eapply Inv_sig_eq; [|exact HI]. unfold srv_set_state. destruct (get_srv name (c_servers c)) as [s|] eqn:Es; [|apply sig_eq_refl].
    destruct (sstate_eqb (s_state s) st); [apply sig_eq_refl|].
    set (c1 := c_upd_srv name (fun x => x <| s_state := st |> <| s_since := since |>) c).
    assert (H1 : sig_eq c c1).
    { split; [|reflexivity]. cbn [c1 c_upd_srv c_servers set]. clear. induction (c_servers c) as [|x t IH]; cbn [upd_srv map]; [reflexivity|].
      destruct (Z.eqb (s_name x) name); cbn [map]; [reflexivity|rewrite IH; reflexivity]. }
    destruct st; (eapply sig_eq_trans; [exact H1|]); [apply adjust_up_from_se|apply adjust_down_from_se|apply adjust_down_from_se].
  - (* OSetValidUntil *)
    eapply Inv_sig_eq; [|exact HI]. split; [|reflexivity]. cbn [c_upd_srv c_servers set].
    induction (c_servers c) as [|x r IH]; cbn [upd_srv map]; [reflexivity|].
    destruct (Z.eqb (s_name x) name); cbn [map]; [reflexivity|rewrite IH; reflexivity].
  - eapply Inv_sig_eq; [apply add_app_se|exact HI].
  - apply Inv_remove_app; exact HI.
  - eapply Inv_sig_eq; [apply upd_app_se|exact HI].
  - eapply Inv_sig_eq; [apply upd_app_se|exact HI].
  - eapply Inv_sig_eq; [apply upd_app_se|exact HI].
  - eapply Inv_sig_eq; [apply upd_app_se|exact HI].
  - eapply Inv_sig_eq; [apply upd_app_se|exact HI].
  - eapply Inv_sig_eq; [apply upd_alloc_se|exact HI].
  - eapply Inv_sig_eq; [|exact HI]. unfold config_group. destruct (aget name (c_groups c)); apply sig_eq_ext; reflexivity.
  - eapply Inv_sig_eq; [|exact HI]. unfold remove_group. destruct (aget name (c_groups c)); [|apply sig_eq_refl].
    destruct (existsb _ _); apply sig_eq_ext; reflexivity.
  - eapply Inv_sig_eq; [|exact HI]. apply sig_eq_ext; reflexivity.
  - pose proof (Inv_schedule c choices HI) as H. destruct (schedule c choices) as [[c' qs] pl]. exact H.
  - apply Inv_restore_op; exact HI.
Qed.

Fixpoint wf_ops_cnt (c : cell) (ops : list op) : Prop :=
  match ops with [] => True | o :: r => wf_op_cnt c o /\ wf_ops_cnt (step c o) r end.

Theorem Inv_run ops : forall c, wf_ops_cnt c ops -> Inv c -> Inv (run c ops).
Proof.
  induction ops as [|o r IH]; intros c Hwf H; cbn [run fold_left]; [exact H|]. destruct Hwf as [H1 H2].
  apply IH; [exact H2|apply Inv_step; assumption].
Qed.

Lemma Inv_init dim root level : Inv (init_cell dim root level).
Proof.
  split.
  - constructor; cbn [init_cell c_buckets c_servers map b_name length].
    + constructor; [intros []|constructor].
    + intros n b Hb. cbn [get_bkt b_name] in Hb. cbn [closedb get_bkt b_name].
      destruct (Z.eqb root n); [reflexivity|discriminate].
    + intros s [].
    + intros s [].
  - intros n b aff Hb. cbn [init_cell c_buckets get_bkt b_name] in Hb.
    destruct (Z.eqb root n); [|discriminate]. inversion Hb; subst b. reflexivity.
Qed.

(** ** the statements in the requested form *)
Theorem TreeWf_step c o : wf_op_cnt c o -> TreeWf c -> CountExact c -> TreeWf (step c o).
Proof. intros Hwf T C. exact (proj1 (Inv_step c o Hwf (conj T C))). Qed.
(** (the accounting and server-level invariants [AA] are not needed for the preservation of the counters) *)
Theorem CountExact_step c o : wf_op_cnt c o -> TreeWf c -> CountExact c -> CountExact (step c o).
Proof. intros Hwf T C. exact (proj2 (Inv_step c o Hwf (conj T C))). Qed.
Theorem CountExact_run ops c : wf_ops_cnt c ops -> TreeWf c -> CountExact c -> TreeWf (run c ops) /\ CountExact (run c ops).
Proof. intros Hwf T C. exact (Inv_run ops c Hwf (conj T C)). Qed.
Theorem CountExact_init dim root level : TreeWf (init_cell dim root level) /\ CountExact (init_cell dim root level).
Proof. apply Inv_init. Qed.
Theorem CountExact_schedule c ch : TreeWf c -> CountExact c ->
  TreeWf (fst (fst (schedule c ch))) /\ CountExact (fst (fst (schedule c ch))).
Proof. intros T C. exact (Inv_schedule c ch (conj T C)). Qed.

(** boolean side conditions for concrete histories *)
Definition is_some {A} (o : option A) : bool := match o with Some _ => true | None => false end.
Definition wf_op_cntb (c : cell) (o : op) : bool :=
  match o with
  | OAddBucket name level parent => negb (is_some (get_bkt name (c_buckets c))) && is_some (get_bkt parent (c_buckets c))
  | OAddServer name parent cap label traits vu => is_some (get_bkt parent (c_buckets c))
  | OMoveServer name p => negb (is_some (get_srv name (c_servers c))) || is_some (get_bkt p (c_buckets c))
  | _ => true
  end.
Lemma wf_op_cntb_sound c o : wf_op_cntb c o = true -> wf_op_cnt c o.
Proof.
  destruct o; cbn [wf_op_cntb wf_op_cnt]; try (intros; exact I).
  - intros H. apply andb_true_iff in H as [H1 H2]. destruct (get_bkt name (c_buckets c)); [discriminate|].
    destruct (get_bkt parent (c_buckets c)); [|discriminate]. split; [reflexivity|discriminate].
  - intros H. destruct (get_bkt parent (c_buckets c)); [discriminate|discriminate].
  - intros H Hs. destruct (get_srv name (c_servers c)); [|congruence]. destruct (get_bkt newparent (c_buckets c)); [discriminate|discriminate].
Qed.
Fixpoint wf_ops_cntb (c : cell) (ops : list op) : bool :=
  match ops with [] => true | o :: r => wf_op_cntb c o && wf_ops_cntb (step c o) r end.
Lemma wf_ops_cntb_sound ops : forall c, wf_ops_cntb c ops = true -> wf_ops_cnt c ops.
Proof.
  induction ops as [|o r IH]; intros c H; cbn [wf_ops_cntb wf_ops_cnt] in *; [exact I|].
  apply andb_true_iff in H as [H1 H2]. split; [apply wf_op_cntb_sound; exact H1|apply IH; exact H2].
Qed.

(** ** the counters against the instances *)
(** the number of instances of affinity [aff] listed by the servers below bucket [n] *)
Definition listed_below (c : cell) (n aff : Z) : Z :=
  zsum (fun s => if belowb c n s then count_aff (c_apps c) aff (s_apps s) else 0) (c_servers c).

Theorem bucket_counts_listed c b aff : AA c -> TreeWf c -> CountExact c -> In b (c_buckets c) ->
  cget aff (b_counters b) = listed_below c (b_name b) aff.
Proof.
  intros [HA HF] T C Hin. rewrite (C _ _ aff (In_get_bkt _ _ (tw_bnames _ T) Hin)).
  unfold srv_count, cnt_in, listed_below. apply zsum_ext. intros s Hs. unfold belowb, ancestors.
  rewrite (af_exact _ HF _ _ aff (In_get_srv _ _ (ac_srv_names _ HA) Hs)). reflexivity.
Qed.

(** the number of instances of the cell that have affinity [aff] and are placed on a server below bucket [n] *)
Definition on_below (c : cell) (n : Z) (a : app) : bool :=
  match a_server a with
  | Some sn => match get_srv sn (c_servers c) with Some s => belowb c n s | None => false end
  | None => false
  end.
Definition placed_below (c : cell) (n aff : Z) : Z :=
  Z.of_nat (length (filter (fun a => Z.eqb (a_aff a) aff && on_below c n a) (c_apps c))).

Definition ind (b : bool) : Z := if b then 1 else 0.
Lemma len_filter_zsum {A} (p : A -> bool) l : Z.of_nat (length (filter p l)) = zsum (fun x => ind (p x)) l.
Proof.
  induction l as [|x r IH]; cbn [filter zsum]; [reflexivity|]. unfold ind at 1.
  destruct (p x); cbn [length]; rewrite ?Nat2Z.inj_succ, IH; lia.
Qed.
Lemma zsum_add {A} (f g : A -> Z) l : zsum (fun x => f x + g x) l = zsum f l + zsum g l.
Proof. induction l as [|x r IH]; cbn [zsum]; [reflexivity|]. rewrite IH. lia. Qed.
Lemma zsum_swap {A B} (h : A -> B -> Z) l1 l2 :
  zsum (fun x => zsum (fun y => h x y) l2) l1 = zsum (fun y => zsum (fun x => h x y) l1) l2.
Proof.
  induction l1 as [|x r IH]; cbn [zsum].
  - symmetry. apply zsum_zero. reflexivity.
  - rewrite IH, <- zsum_add. reflexivity.
Qed.
Lemma zsum_scale {A} (k : Z) (f : A -> Z) l : zsum (fun x => k * f x) l = k * zsum f l.
Proof. induction l as [|x r IH]; cbn [zsum]; [lia|]. rewrite IH. lia. Qed.
Lemma zsum_pick (g : server -> Z) sn l : NoDup (map s_name l) ->
  zsum (fun s => if Z.eqb (s_name s) sn then g s else 0) l = match get_srv sn l with Some s => g s | None => 0 end.
Proof.
  induction l as [|x t IH]; cbn [map zsum get_srv]; intros Hnd; [reflexivity|].
  inversion Hnd as [|? ? Hni Hnt]; subst. destruct (Z.eqb_spec (s_name x) sn) as [E|E].
  - rewrite zsum_zero; [lia|]. intros y Hy. destruct (Z.eqb_spec (s_name y) sn); [|reflexivity].
    exfalso. apply Hni. rewrite E. replace sn with (s_name y). apply in_map. exact Hy.
  - rewrite IH by exact Hnt. lia.
Qed.
Lemma NoDup_map_filter {A} (f : A -> Z) (p : A -> bool) l : NoDup (map f l) -> NoDup (map f (filter p l)).
Proof.
  induction l as [|x r IH]; cbn [map filter]; intros Hnd; [constructor|]. inversion Hnd as [|? ? Hni Hr]; subst.
  destruct (p x); cbn [map]; [|apply IH; exact Hr]. constructor; [|apply IH; exact Hr].
  intros Hin. apply Hni. apply in_map_iff in Hin as (y & Ey & Hy). apply filter_In in Hy as [Hy _].
  rewrite <- Ey. apply in_map. exact Hy.
Qed.

(** the instances a server lists are the instances that name it *)
Lemma count_aff_server c s aff : Acct c -> In s (c_servers c) ->
  count_aff (c_apps c) aff (s_apps s)
  = zsum (fun a => ind (Z.eqb (a_aff a) aff && opt_eqb (a_server a) (Some (s_name s)))) (c_apps c).
Proof.
  intros HA Hin. rewrite <- len_filter_zsum. unfold count_aff. f_equal.
  pose proof (In_get_srv _ _ (ac_srv_names _ HA) Hin) as Hg.
  set (P := fun a => Z.eqb (a_aff a) aff && opt_eqb (a_server a) (Some (s_name s))).
  rewrite <- (map_length a_name (filter P (c_apps c))).
  apply Nat.le_antisymm; apply NoDup_incl_length.
  - apply NoDup_filter. eapply (ac_nodup _ HA); exact Hg.
  - intros m Hm. apply filter_In in Hm as [Hm Haff].
    destruct (ac_listed _ HA _ _ _ Hg Hm) as (a & Ha & Hsv). unfold has_aff in Haff. rewrite Ha in Haff.
    apply in_map_iff. exists a. split; [eapply get_app_name; exact Ha|]. apply filter_In. split; [eapply get_app_In; exact Ha|].
    unfold P. rewrite Haff, Hsv. cbn [opt_eqb andb]. apply Z.eqb_refl.
  - apply NoDup_map_filter. exact (ac_app_names _ HA).
  - intros m Hm. apply in_map_iff in Hm as (a & <- & Ha). apply filter_In in Ha as [Ha HP].
    unfold P in HP. apply andb_true_iff in HP as [Haff Hsv].
    pose proof (In_get_app _ _ (ac_app_names _ HA) Ha) as Hga.
    assert (Hsv' : a_server a = Some (s_name s)).
    { destruct (a_server a) as [k|]; [|discriminate]. cbn [opt_eqb] in Hsv. apply Z.eqb_eq in Hsv. congruence. }
    apply filter_In. split; [eapply (ac_placed _ HA); eassumption|]. unfold has_aff. rewrite Hga. exact Haff.
Qed.

Lemma listed_placed c n aff : Acct c -> listed_below c n aff = placed_below c n aff.
Proof.
  intros HA. unfold listed_below, placed_below. rewrite len_filter_zsum.
  transitivity (zsum (fun s => zsum (fun a => ind (belowb c n s) * ind (Z.eqb (a_aff a) aff && opt_eqb (a_server a) (Some (s_name s))))
                                    (c_apps c)) (c_servers c)).
  { apply zsum_ext. intros s Hs. rewrite zsum_scale, <- (count_aff_server c s aff HA Hs). unfold ind. destruct (belowb c n s); lia. }
  rewrite zsum_swap. apply zsum_ext. intros a _. unfold on_below.
  destruct (Z.eqb (a_aff a) aff); cbn [andb].
  2:{ apply zsum_zero. intros; unfold ind; lia. }
  destruct (a_server a) as [sn|]; cbn [opt_eqb].
  2:{ apply zsum_zero. intros; unfold ind; lia. }
  rewrite (zsum_ext _ (fun s => if Z.eqb (s_name s) sn then ind (belowb c n s) else 0)).
  - rewrite (zsum_pick _ sn _ (ac_srv_names _ HA)). destruct (get_srv sn (c_servers c)); reflexivity.
  - intros s _. rewrite (Z.eqb_sym sn). unfold ind. destruct (Z.eqb (s_name s) sn), (belowb c n s); lia.
Qed.

(** C04, second sentence, above the servers: in every state reachable by events and scheduling cycles, the counter
    a bucket keeps for an affinity is the number of instances of that affinity placed on the servers below it *)
Theorem bucket_counts_exact c b aff : AA c -> TreeWf c -> CountExact c -> In b (c_buckets c) ->
  cget aff (b_counters b) = placed_below c (b_name b) aff.
Proof.
  intros HAA T C Hin. rewrite (bucket_counts_listed c b aff HAA T C Hin). apply listed_placed. exact (proj1 HAA).
Qed.

Theorem bucket_counts_reachable dim root level ops :
  wf_ops_aff (init_cell dim root level) ops -> wf_ops_cnt (init_cell dim root level) ops ->
  let c := run (init_cell dim root level) ops in
  forall b aff, In b (c_buckets c) ->
    cget aff (b_counters b) = placed_below c (b_name b) aff
    /\ cget aff (b_counters b) = srv_count c (b_name b) aff.
Proof.
  intros Ha Hc c b aff Hin.
  pose proof (AA_run ops _ Ha (AA_init dim root level)) as HAA.
  destruct (Inv_run ops _ Hc (Inv_init dim root level)) as [T C]. fold c in HAA, T, C.
  split; [apply bucket_counts_exact; assumption|].
  apply (C _ _ aff). apply In_get_bkt; [exact (tw_bnames _ T)|exact Hin].
Qed.

(** ** the cell level: every bucket and every server is below the root bucket *)
Definition snp (s : server) : Z * option Z := (s_name s, s_parent s).
(** same names and parents of servers and buckets *)
Definition shape_eq (c c' : cell) : Prop :=
  map snp (c_servers c') = map snp (c_servers c) /\ map bnp (c_buckets c') = map bnp (c_buckets c).
Lemma shape_eq_refl c : shape_eq c c.
Proof. split; reflexivity. Qed.
Lemma shape_eq_trans a b c : shape_eq a b -> shape_eq b c -> shape_eq a c.
Proof. intros [H1 H2] [H3 H4]. split; congruence. Qed.
Lemma sig_eq_shape c c' : sig_eq c c' -> shape_eq c c'.
Proof.
  intros [Hs Hb]. split; [|apply bsig_bnp; exact Hb].
  change snp with (fun s => fst (ssig s)). rewrite <- !(map_map ssig fst), Hs. reflexivity.
Qed.
Lemma upd_bkt_bnp n f l : (forall b, bnp (f b) = bnp b) -> map bnp (upd_bkt n f l) = map bnp l.
Proof.
  intros Hf. induction l as [|x t IH]; cbn [upd_bkt map]; [reflexivity|].
  destruct (Z.eqb (b_name x) n); cbn [map]; [rewrite Hf; reflexivity|rewrite IH; reflexivity].
Qed.
Lemma upd_srv_snp n f l : (forall x, snp (f x) = snp x) -> map snp (upd_srv n f l) = map snp l.
Proof.
  intros Hf. induction l as [|x t IH]; cbn [upd_srv map]; [reflexivity|].
  destruct (Z.eqb (s_name x) n); cbn [map]; [rewrite Hf; reflexivity|rewrite IH; reflexivity].
Qed.
Lemma bump_affinity_bnp ds sg : forall f c p, map bnp (c_buckets (bump_affinity f c p ds sg)) = map bnp (c_buckets c).
Proof.
  induction f as [|f IH]; intros c p; cbn [bump_affinity]; [reflexivity|].
  destruct (get_bkt p (c_buckets c)) as [bk|]; [|reflexivity].
  destruct (b_parent bk) as [q|]; [rewrite IH|]; cbn [c_upd_bkt c_buckets set]; apply upd_bkt_bnp; reflexivity.
Qed.
Lemma bump_from_shape c p ds sg : shape_eq c (bump_from c p ds sg).
Proof.
  split; [rewrite (proj1 (proj2 (proj2 (bump_from_sc c p ds sg)))); reflexivity|].
  unfold bump_from. destruct p; [apply bump_affinity_bnp|reflexivity].
Qed.

Lemma srv_put_lease_shape c sn an lease c' : srv_put_lease c sn an lease = Some c' -> shape_eq c c'.
Proof.
  unfold srv_put_lease. destruct (get_srv sn (c_servers c)) as [s|]; [|discriminate].
  destruct (get_app an (c_apps c)) as [a|]; [|discriminate].
  destruct (put_guard c s a lease); [|discriminate]. intros H. inversion H; subst c'; clear H.
  eapply shape_eq_trans; [|apply sig_eq_shape, adjust_down_from_se].
  eapply shape_eq_trans; [|apply bump_from_shape].
  split; [|reflexivity]. unfold prim_put. cbn [c_upd_app c_upd_srv c_servers set]. apply upd_srv_snp. reflexivity.
Qed.
Lemma srv_remove_shape c sn an : shape_eq c (srv_remove c sn an).
Proof.
  unfold srv_remove. destruct (get_srv sn (c_servers c)) as [s|]; [|apply shape_eq_refl].
  destruct (get_app an (c_apps c)) as [a|]; [|apply shape_eq_refl].
  destruct (negb (zmem an (s_apps s))); [apply shape_eq_refl|].
  eapply shape_eq_trans; [|apply sig_eq_shape, adjust_up_from_se].
  eapply shape_eq_trans; [|apply bump_from_shape].
  split; [|reflexivity]. unfold prim_remove. cbn [c_upd_app c_upd_srv c_servers set]. apply upd_srv_snp. reflexivity.
Qed.
Lemma cstep_shape c c' : cstep c c' -> shape_eq c c'.
Proof.
  intros H. destruct H; [apply sig_eq_shape; assumption|eapply srv_put_lease_shape; eassumption|apply srv_remove_shape].
Qed.
Lemma csteps_shape c c' : csteps c c' -> shape_eq c c'.
Proof. induction 1; [apply cstep_shape; assumption|apply shape_eq_refl|eapply shape_eq_trans; eassumption]. Qed.
(** a scheduling cycle never changes the topology *)
Theorem schedule_shape c ch : shape_eq c (fst (fst (schedule c ch))).
Proof. apply csteps_shape, schedule_cs. Qed.

Record RootedAt (r : Z) (c : cell) : Prop := {
  ra_root : get_bkt r (c_buckets c) <> None;
  ra_bkt : forall n b, get_bkt n (c_buckets c) = Some b -> In r (ancestors c (Some n));
  ra_srv : forall s, In s (c_servers c) -> s_parent s <> None
}.

Lemma RootedAt_shape r c c' : shape_eq c c' -> RootedAt r c -> RootedAt r c'.
Proof.
  intros [Hs Hb] [R1 R2 R3]. constructor.
  - pose proof (get_bkt_bnp _ _ Hb r) as Hg. destruct (get_bkt r (c_buckets c)); [|congruence].
    destruct (get_bkt r (c_buckets c')); [discriminate|contradiction].
  - intros n b' Hb'. pose proof (get_bkt_bnp _ _ Hb n) as Hg. rewrite Hb' in Hg.
    destruct (get_bkt n (c_buckets c)) as [b|] eqn:E; [|contradiction].
    rewrite (ancestors_bnp c c' _ Hb). eapply R2; exact E.
  - intros s' Hin. apply (in_map snp) in Hin. rewrite Hs in Hin. apply in_map_iff in Hin as (s & E & Hin).
    unfold snp in E. injection E as _ Ep. rewrite <- Ep. apply R3. exact Hin.
Qed.

Lemma attach_common_shape c p child tr cnts lbls fr : shape_eq c (attach_common c p child tr cnts lbls fr).
Proof.
  split; [rewrite (proj1 (proj2 (proj2 (attach_common_sc c p child tr cnts lbls fr)))); reflexivity|].
  unfold attach_common. cbv zeta.
  set (c1 := c_upd_bkt p _ c).
  set (c2 := propagate_traits (depth_fuel c1) c1 p).
  set (c3 := bump_affinity (depth_fuel c2) c2 p cnts 1).
  set (c4 := add_labels (depth_fuel c3) c3 p lbls).
  rewrite (sig_eq_bnp c4 _ (adjust_up_se _ _ _ _)). subst c4. rewrite (sig_eq_bnp c3 _ (add_labels_se _ _ _ _)).
  subst c3. rewrite bump_affinity_bnp. subst c2. rewrite (sig_eq_bnp c1 _ (propagate_traits_se _ _ _)).
  subst c1. cbn [c_upd_bkt c_buckets set]. apply upd_bkt_bnp. reflexivity.
Qed.
Lemma unhook_server_shape c p s : shape_eq c (unhook_server c p s).
Proof.
  split; [rewrite (proj1 (proj2 (proj2 (unhook_server_sc c p s)))); reflexivity|].
  unfold unhook_server. cbv zeta.
  set (c1 := c_upd_bkt p _ c).
  set (c2 := propagate_traits (depth_fuel c1) c1 p).
  set (c3 := bump_affinity (depth_fuel c2) c2 p (s_counters s) (-1)).
  rewrite (sig_eq_bnp c3 _ (adjust_down_se _ _ _ _)). subst c3. rewrite bump_affinity_bnp.
  subst c2. rewrite (sig_eq_bnp c1 _ (propagate_traits_se _ _ _)).
  subst c1. cbn [c_upd_bkt c_buckets set]. apply upd_bkt_bnp. reflexivity.
Qed.

(** walks of the old cell after a bucket was appended *)
Lemma snoc_walk c nb q : closedb (length (c_buckets c)) (c_buckets c) q = true ->
  let c1 := c <| c_buckets ::= (fun l => l ++ [nb]) |> in
  closedb (length (c_buckets c1)) (c_buckets c1) q = true /\ ancestors c1 q = ancestors c q.
Proof.
  intros Hq c1.
  assert (Eb : c_buckets c1 = c_buckets c ++ [nb]) by reflexivity.
  unfold ancestors, depth_fuel. rewrite Eb, app_length. cbn [length].
  replace (length (c_buckets c) + 1)%nat with (S (length (c_buckets c))) by lia.
  destruct (closed_mono _ _ _ Hq (S (length (c_buckets c))) ltac:(lia)) as [Hq1 Hc1].
  destruct (closed_mono _ _ _ Hq (S (S (length (c_buckets c)))) ltac:(lia)) as [Hq2 Hc2].
  destruct (closed_snoc _ nb _ _ Hq1) as [Hq1' _]. destruct (closed_snoc _ nb _ _ Hq2) as [_ Hc2'].
  split; [exact Hq1'|]. rewrite Hc2', Hc2, Hc1. reflexivity.
Qed.

Lemma Rooted_add_bucket r c name level parent :
  TreeWf c -> get_bkt name (c_buckets c) = None -> get_bkt parent (c_buckets c) <> None ->
  RootedAt r c -> RootedAt r (add_bucket c name level (Some parent)).
Proof.
  intros T Hfresh Hpar [R1 R2 R3]. unfold add_bucket.
  eapply RootedAt_shape; [apply sig_eq_shape, attach_common_empty_se|].
  set (nb := mkBucket name (Some parent) level [] (vzero (c_dim c)) 0 [] [] [] []).
  set (c1 := c <| c_buckets ::= (fun l => l ++ [nb]) |>).
  assert (Eb : c_buckets c1 = c_buckets c ++ [nb]) by reflexivity.
  destruct (get_bkt parent (c_buckets c)) as [pb|] eqn:Ep; [clear Hpar|congruence].
  constructor.
  - rewrite Eb, get_bkt_snoc. destruct (get_bkt r (c_buckets c)); [discriminate|congruence].
  - intros n b Hb. rewrite Eb, get_bkt_snoc in Hb. destruct (get_bkt n (c_buckets c)) as [b0|] eqn:E.
    + destruct (snoc_walk c nb (Some n) (tw_closed _ T _ _ E)) as [_ Ha]. fold c1 in Ha. rewrite Ha. eapply R2; exact E.
    + destruct (Z.eqb_spec (b_name nb) n) as [En|]; [|discriminate]. cbn [b_name nb] in En. subst n.
      destruct (snoc_walk c nb (Some parent) (tw_closed _ T _ _ Ep)) as [Hc Ha]. fold c1 in Hc, Ha.
      specialize (R2 _ _ Ep). rewrite <- Ha in R2.
      (* the chain of the new bucket is itself followed by the chain of its parent *)
      assert (Hg : get_bkt name (c_buckets c1) = Some nb)
        by (rewrite Eb, get_bkt_snoc, Hfresh; cbn [b_name nb]; rewrite Z.eqb_refl; reflexivity).
      unfold ancestors, depth_fuel in *. cbn [chain]. rewrite Hg. cbn [b_parent nb]. right.
      destruct (closed_mono _ _ _ Hc (S (length (c_buckets c1))) ltac:(lia)) as [_ Hm]. rewrite Hm in R2.
      exact R2.
  - exact R3.
Qed.

Lemma remove_app_shape c name : shape_eq c (remove_app c name).
Proof.
  unfold remove_app. destruct (get_app name (c_apps c)) as [a|]; [|apply shape_eq_refl].
  set (c1 := match a_server a with
             | Some sn => if is_member c sn then srv_remove c sn name else c
             | None => c
             end).
  assert (H1 : shape_eq c c1).
  { subst c1. destruct (a_server a) as [sn|]; [|apply shape_eq_refl]. destruct (is_member c sn); [apply srv_remove_shape|apply shape_eq_refl]. }
  eapply shape_eq_trans; [exact H1|]. apply sig_eq_shape.
  set (c2 := match a_alloc a with Some (l0, p0) => upd_alloc c1 l0 p0 (alloc_del_app name) | None => c1 end).
  apply (sig_eq_trans c1 c2); [subst c2; destruct (a_alloc a) as [[l0 p0]|]; [apply upd_alloc_se|apply sig_eq_refl]|].
  apply (sig_eq_trans c2 (release_identity c2 name)); [apply release_identity_se|]. apply sig_eq_ext; reflexivity.
Qed.
Lemma restore_op_shape c sn an vb ex ident : shape_eq c (restore_op c sn an vb ex ident).
Proof.
  unfold restore_op. destruct (get_app an (c_apps c)) as [a|]; [|apply shape_eq_refl].
  pose proof (csteps_shape _ _ (restore_put_cs c sn an vb ex)) as H1.
  destruct (restore_put c sn an vb ex) as [c1 ok]. cbn [fst] in H1.
  destruct ok; [eapply shape_eq_trans; [exact H1|apply sig_eq_shape, force_identity_se]|].
  destruct (a_once a); [eapply shape_eq_trans; [exact H1|apply remove_app_shape]|exact H1].
Qed.

Lemma Rooted_step r c o : wf_op_cnt c o -> TreeWf c -> RootedAt r c -> RootedAt r (step c o).
Proof.
  intros Hwf T R. destruct o; cbn [step].
  - destruct Hwf as [H1 H2]. apply Rooted_add_bucket; assumption.
  - unfold add_server, new_server. cbn [s_parent s_name s_traits s_counters s_label s_free].
    eapply RootedAt_shape; [apply attach_common_shape|]. destruct R as [R1 R2 R3]. constructor; try assumption.
    intros s Hin. cbn [c_servers set] in Hin. apply in_app_or in Hin as [Hin|[<-|[]]]; [apply R3; exact Hin|discriminate].
  - set (c0 := if raw then c else srv_remove_all c name).
    assert (R0 : RootedAt r c0).
    { subst c0. destruct raw; [exact R|]. eapply RootedAt_shape; [|exact R]. unfold srv_remove_all.
      destruct (get_srv name (c_servers c)) as [s|]; [|apply shape_eq_refl]. generalize (s_apps s) as l. intros l. generalize c.
      induction l as [|x t IH]; intros c2; cbn [fold_left]; [apply shape_eq_refl|].
      eapply shape_eq_trans; [apply srv_remove_shape|apply IH]. }
    unfold detach_server. destruct (get_srv name (c_servers c0)) as [s|]; [|exact R0].
    assert (R1 : RootedAt r (c0 <| c_servers ::= del_srv name |>)).
    { destruct R0 as [A1 A2 A3]. constructor; try assumption. intros s' Hin. cbn [c_servers set] in Hin. apply A3. eapply In_del_srv; exact Hin. }
    destruct (s_parent s) as [p|]; [|exact R1]. eapply RootedAt_shape; [apply unhook_server_shape|exact R1].
  - unfold move_server. destruct (get_srv name (c_servers c)) as [s|]; [|exact R].
    eapply RootedAt_shape; [apply attach_common_shape|].
    set (c0 := match s_parent s with None => c | Some p => unhook_server c p s end).
    assert (R0 : RootedAt r c0).
    { subst c0. destruct (s_parent s) as [p|]; [|exact R]. eapply RootedAt_shape; [apply unhook_server_shape|exact R]. }
    destruct R0 as [A1 A2 A3]. constructor; try assumption.
    intros s' Hin. cbn [c_upd_srv c_servers set] in Hin. apply In_upd_srv_first in Hin as [Hin|(x & _ & ->)]; [apply A3; exact Hin|discriminate].
  - eapply RootedAt_shape; [|exact R]. unfold srv_set_state. destruct (get_srv name (c_servers c)) as [s|]; [|apply shape_eq_refl].
    destruct (sstate_eqb (s_state s) st); [apply shape_eq_refl|].
    set (c1 := c_upd_srv name (fun x => x <| s_state := st |> <| s_since := since |>) c).
    assert (H1 : shape_eq c c1) by (split; [apply upd_srv_snp; reflexivity|reflexivity]).
    destruct st; (eapply shape_eq_trans; [exact H1|]); apply sig_eq_shape;
      [apply adjust_up_from_se|apply adjust_down_from_se|apply adjust_down_from_se].
  - eapply RootedAt_shape; [|exact R]. split; [apply upd_srv_snp; reflexivity|reflexivity].
  - eapply RootedAt_shape; [apply sig_eq_shape, add_app_se|exact R].
  - eapply RootedAt_shape; [apply remove_app_shape|exact R].
  - eapply RootedAt_shape; [apply sig_eq_shape, upd_app_se|exact R].
  - eapply RootedAt_shape; [apply sig_eq_shape, upd_app_se|exact R].
  - eapply RootedAt_shape; [apply sig_eq_shape, upd_app_se|exact R].
  - eapply RootedAt_shape; [apply sig_eq_shape, upd_app_se|exact R].
  - eapply RootedAt_shape; [apply sig_eq_shape, upd_app_se|exact R].
  - eapply RootedAt_shape; [apply sig_eq_shape, upd_alloc_se|exact R].
  - eapply RootedAt_shape; [|exact R]. apply sig_eq_shape. unfold config_group. destruct (aget name (c_groups c)); apply sig_eq_ext; reflexivity.
  - eapply RootedAt_shape; [|exact R]. apply sig_eq_shape. unfold remove_group. destruct (aget name (c_groups c)); [|apply sig_eq_refl].
    destruct (existsb _ _); apply sig_eq_ext; reflexivity.
  - eapply RootedAt_shape; [|exact R]. apply sig_eq_shape, sig_eq_ext; reflexivity.
  - pose proof (schedule_shape c choices) as H. destruct (schedule c choices) as [[c' qs] pl]. cbn [fst] in H.
    eapply RootedAt_shape; [exact H|exact R].
  - eapply RootedAt_shape; [apply restore_op_shape|exact R].
Qed.

Theorem Rooted_run r ops : forall c, wf_ops_cnt c ops -> Inv c -> RootedAt r c -> Inv (run c ops) /\ RootedAt r (run c ops).
Proof.
  induction ops as [|o t IH]; intros c Hwf HI R; cbn [run fold_left]; [split; assumption|]. destruct Hwf as [H1 H2].
  apply IH; [exact H2|apply Inv_step; assumption|apply Rooted_step; [exact H1|exact (proj1 HI)|exact R]].
Qed.
Lemma Rooted_init dim root level : RootedAt root (init_cell dim root level).
Proof.
  constructor; unfold init_cell; cbn [c_buckets c_servers].
  - cbn [get_bkt b_name]. rewrite Z.eqb_refl. discriminate.
  - intros n b Hb. cbn [get_bkt b_name] in Hb. destruct (Z.eqb_spec root n) as [<-|]; [|discriminate].
    unfold ancestors, depth_fuel. cbn [c_buckets length chain get_bkt b_name]. rewrite Z.eqb_refl. left. reflexivity.
  - intros s [].
Qed.

(** every server of the cell is below the root *)
Lemma rooted_below r c s : TreeWf c -> RootedAt r c -> In s (c_servers c) -> belowb c r s = true.
Proof.
  intros T R Hin. pose proof (ra_srv _ _ R _ Hin) as Hp. pose proof (tw_sparent _ T _ Hin) as Hc.
  unfold belowb. apply zmem_In. destruct (s_parent s) as [p|]; [|congruence].
  destruct (length (c_buckets c)) as [|k] eqn:El; cbn [closedb] in Hc; [discriminate|].
  destruct (get_bkt p (c_buckets c)) as [pb|] eqn:Ep; [|discriminate]. eapply (ra_bkt _ _ R); exact Ep.
Qed.

(** the number of instances of affinity [aff] placed on a server that is a member of the cell *)
Definition placed_in_cell (c : cell) (aff : Z) : Z :=
  Z.of_nat (length (filter (fun a => Z.eqb (a_aff a) aff && match a_server a with Some sn => is_member c sn | None => false end)
                           (c_apps c))).
Lemma placed_below_root r c aff : TreeWf c -> RootedAt r c -> placed_below c r aff = placed_in_cell c aff.
Proof.
  intros T R. unfold placed_below, placed_in_cell. f_equal. f_equal. apply filter_ext. intros a. f_equal.
  unfold on_below, is_member. destruct (a_server a) as [sn|]; [|reflexivity].
  destruct (get_srv sn (c_servers c)) as [s|] eqn:Es; [|reflexivity].
  apply (rooted_below r c s T R). eapply get_srv_In; exact Es.
Qed.

(** the cell: the counter of the root bucket is the number of instances placed on the servers of the cell *)
Theorem root_counts_reachable dim root level ops :
  wf_ops_aff (init_cell dim root level) ops -> wf_ops_cnt (init_cell dim root level) ops ->
  let c := run (init_cell dim root level) ops in
  exists b, get_bkt root (c_buckets c) = Some b /\ forall aff, cget aff (b_counters b) = placed_in_cell c aff.
Proof.
  intros Ha Hc c.
  pose proof (AA_run ops _ Ha (AA_init dim root level)) as HAA.
  destruct (Rooted_run root ops _ Hc (Inv_init dim root level) (Rooted_init dim root level)) as [[T C] R].
  fold c in HAA, T, C, R.
  destruct (get_bkt root (c_buckets c)) as [b|] eqn:Eb; [|exfalso; exact (ra_root _ _ R Eb)].
  exists b. split; [reflexivity|]. intros aff.
  rewrite (bucket_counts_exact c b aff HAA T C (get_bkt_In _ _ _ Eb)), (get_bkt_name _ _ _ Eb).
  apply placed_below_root; assumption.
Qed.

(** ** non-vacuity: two racks (2001, 2002) under the cell root 2000, three servers, seven instances of two affinities
    (3000, 3001) placed by a cycle, then server 1001 moves from rack 2001 to rack 2002, then server 1000 leaves *)
Definition nv_app (n aff o : Z) : app :=
  mkApp n 5 [30;30;30] aff [] 0 0 None None false o None None None None false false false false (-1).
Definition nv_ops1 : list op :=
  [ OAddBucket 2001 3 2000; OAddBucket 2002 3 2000;
    OAddServer 1000 2001 [100;100;100] 4000 0 0; OAddServer 1001 2001 [100;100;100] 4000 0 0;
    OAddServer 1002 2002 [100;100;100] 4000 0 0;
    OAddApp 4000 [] (nv_app 1 3000 1); OAddApp 4000 [] (nv_app 2 3000 2); OAddApp 4000 [] (nv_app 3 3001 3);
    OAddApp 4000 [] (nv_app 4 3000 4); OAddApp 4000 [] (nv_app 5 3001 5); OAddApp 4000 [] (nv_app 6 3001 6);
    OAddApp 4000 [] (nv_app 7 3000 7);
    OSchedule [] ].
Definition nv_ops2 : list op := nv_ops1 ++ [OMoveServer 1001 2002].
Definition nv_ops3 : list op := nv_ops2 ++ [ORemoveServer 1000 true].
Definition nv_init : cell := init_cell 3 2000 1.
(** per bucket: name, stored counters for 3000 and 3001, the sums over the servers below, the instance counts *)
Definition nv_view (c : cell) :=
  (map (fun b => (b_name b, (cget 3000 (b_counters b), cget 3001 (b_counters b)),
                  (srv_count c (b_name b) 3000, srv_count c (b_name b) 3001),
                  (placed_below c (b_name b) 3000, placed_below c (b_name b) 3001))) (c_buckets c),
   map (fun s => (s_name s, s_parent s, s_apps s)) (c_servers c)).

Example nv_side_conditions : wf_ops_affb nv_init nv_ops3 = true.
Proof. vm_compute. reflexivity. Qed.
Example nv_side_conditions_cnt : wf_ops_cntb nv_init nv_ops3 = true.
Proof. vm_compute. reflexivity. Qed.
Example nv_after_cycle :
  nv_view (run nv_init nv_ops1)
  = ([(2000, (4, 3), (4, 3), (4, 3)); (2001, (2, 2), (2, 2), (2, 2)); (2002, (2, 1), (2, 1), (2, 1))],
     [(1000, Some 2001, [1; 3]); (1001, Some 2001, [4; 6]); (1002, Some 2002, [2; 5; 7])]).
Proof. vm_compute. reflexivity. Qed.
Example nv_after_move :
  nv_view (run nv_init nv_ops2)
  = ([(2000, (4, 3), (4, 3), (4, 3)); (2001, (1, 1), (1, 1), (1, 1)); (2002, (3, 2), (3, 2), (3, 2))],
     [(1000, Some 2001, [1; 3]); (1001, Some 2002, [4; 6]); (1002, Some 2002, [2; 5; 7])]).
Proof. vm_compute. reflexivity. Qed.
Example nv_after_remove :
  nv_view (run nv_init nv_ops3)
  = ([(2000, (3, 2), (3, 2), (3, 2)); (2001, (0, 0), (0, 0), (0, 0)); (2002, (3, 2), (3, 2), (3, 2))],
     [(1001, Some 2002, [4; 6]); (1002, Some 2002, [2; 5; 7])]).
Proof. vm_compute. reflexivity. Qed.
(** and the theorem applies to this history *)
Example nv_theorem_applies : forall b aff, In b (c_buckets (run nv_init nv_ops3)) ->
  cget aff (b_counters b) = placed_below (run nv_init nv_ops3) (b_name b) aff.
Proof.
  intros b aff Hin.
  apply (bucket_counts_reachable 3 2000 1 nv_ops3 (wf_ops_affb_sound _ _ nv_side_conditions)
           (wf_ops_cntb_sound _ _ nv_side_conditions_cnt) b aff Hin).
Qed.

Print Assumptions bucket_counts_reachable.
Print Assumptions root_counts_reachable.
Print Assumptions schedule_shape.
Print Assumptions bucket_counts_exact.
Print Assumptions CountExact_run.
Print Assumptions CountExact_step.
Print Assumptions TreeWf_step.
Print Assumptions CountExact_schedule.
Print Assumptions schedule_cs.
Print Assumptions nv_theorem_applies.
Example nv_root_applies :
  exists b, get_bkt 2000 (c_buckets (run nv_init nv_ops3)) = Some b /\
            forall aff, cget aff (b_counters b) = placed_in_cell (run nv_init nv_ops3) aff.
Proof.
  exact (root_counts_reachable 3 2000 1 nv_ops3 (wf_ops_affb_sound _ _ nv_side_conditions)
           (wf_ops_cntb_sound _ _ nv_side_conditions_cnt)).
Qed.
Example nv_root_values :
  (placed_in_cell (run nv_init nv_ops1) 3000, placed_in_cell (run nv_init nv_ops1) 3001,
   placed_in_cell (run nv_init nv_ops3) 3000, placed_in_cell (run nv_init nv_ops3) 3001) = (4, 3, 3, 2).
Proof. vm_compute. reflexivity. Qed.
