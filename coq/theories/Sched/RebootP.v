(** Proofs about Sched/Reboot.v (Partition.add / tick / RebootBucket.cost / reboot_dates). *)
From Coq Require Import ZArith List Bool Lia ZifyBool Sorted.
From TM Require Import Sched.Reboot.
Import ListNotations.
Open Scope Z_scope.

(** * Python's min *)
Section PyMin.
  Context {A K : Type}.
  Variable lt : K -> K -> bool.
  Variable key : A -> K.
  Hypothesis lt_trans : forall a b c, lt a b = true -> lt b c = true -> lt a c = true.
  Hypothesis lt_le_trans : forall a b c, lt a b = true -> lt c b = false -> lt a c = true.

  (** the result splits the iterated list: everything before it is strictly larger, nothing after it is smaller *)
  Lemma pymin_go_spec : forall l best,
    exists pre post, best :: l = pre ++ pymin_go lt key best l :: post /\
      (forall x, In x pre -> lt (key (pymin_go lt key best l)) (key x) = true) /\
      (forall x, In x post -> lt (key x) (key (pymin_go lt key best l)) = false).
  Proof.
    induction l as [|x l IH]; intros best.
    - exists [], []. cbn. repeat split; intros y [].
    - cbn [pymin_go]. destruct (lt (key x) (key best)) eqn:E.
      + destruct (IH x) as (pre & post & Heq & Hpre & Hpost).
        set (r := pymin_go lt key x l) in *.
        exists (best :: pre), post. split; [cbn; f_equal; exact Heq|]. split; [|exact Hpost].
        intros y [Hy|Hy]; [subst y|exact (Hpre y Hy)].
        destruct pre as [|z pre'].
        * cbn in Heq. injection Heq as Hx _. rewrite <- Hx. exact E.
        * cbn in Heq. injection Heq as Hz _. subst z.
          apply lt_trans with (b := key x); [apply Hpre; left; reflexivity|exact E].
      + destruct (IH best) as (pre & post & Heq & Hpre & Hpost).
        set (r := pymin_go lt key best l) in *.
        destruct pre as [|z pre'].
        * cbn in Heq. injection Heq as Hb Hl.
          exists [], (x :: post). split; [cbn; f_equal; [exact Hb|f_equal; exact Hl]|]. split; [intros y []|].
          intros y [Hy|Hy]; [subst y; rewrite <- Hb; exact E|exact (Hpost y Hy)].
        * cbn in Heq. injection Heq as Hz Hl. subst z.
          exists (best :: x :: pre'), post. split; [cbn; do 2 f_equal; exact Hl|]. split; [|exact Hpost].
          intros y [Hy|[Hy|Hy]].
          -- subst y. apply Hpre. left. reflexivity.
          -- subst y. apply lt_le_trans with (b := key best); [apply Hpre; left; reflexivity|exact E].
          -- apply Hpre. right. exact Hy.
  Qed.

  Lemma pymin_spec : forall l r, pymin lt key l = Some r ->
    exists pre post, l = pre ++ r :: post /\
      (forall x, In x pre -> lt (key r) (key x) = true) /\
      (forall x, In x post -> lt (key x) (key r) = false).
  Proof.
    intros [|x l] r H; [discriminate|]. cbn in H. injection H as H. subst r. apply pymin_go_spec.
  Qed.

  Lemma pymin_some : forall l, l <> [] -> exists r, pymin lt key l = Some r.
  Proof. intros [|x l] H; [congruence|]. eexists. reflexivity. Qed.
End PyMin.

(** * The order on costs *)
Lemma clt_trans a b c : clt a b = true -> clt b c = true -> clt a c = true.
Proof. destruct a, b, c; cbn; intros; try discriminate; try reflexivity; lia. Qed.
Lemma clt_le_trans a b c : clt a b = true -> clt c b = false -> clt a c = true.
Proof. destruct a, b, c; cbn; intros; try discriminate; try reflexivity; lia. Qed.
Lemma clt_irrefl a : clt a a = false.
Proof. destruct a; cbn; [lia|reflexivity]. Qed.
Lemma clt_asym a b : clt a b = true -> clt b a = false.
Proof. destruct a, b; cbn; intros; try discriminate; try reflexivity; lia. Qed.

(** [admissible]: the bucket lies in [up + MIN, up + UPTIME], i.e. its cost is finite *)
Definition admissible (C : rconst) (up : Z) (b : bucket) : Prop :=
  up + rc_min C <= b_ts b <= up + rc_uptime C.

Lemma cost_some C up b n : cost C up b = Some n -> admissible C up b /\ n = load b.
Proof.
  unfold cost, admissible. intros H.
  destruct (b_ts b >? up + rc_uptime C) eqn:E1; [discriminate|].
  destruct (b_ts b <? up + rc_min C) eqn:E2; [discriminate|].
  injection H as H. split; [lia|congruence].
Qed.
Lemma cost_admissible C up b : admissible C up b -> cost C up b = Some (load b).
Proof.
  unfold cost, admissible. intros H.
  destruct (b_ts b >? up + rc_uptime C) eqn:E1; [lia|].
  destruct (b_ts b <? up + rc_min C) eqn:E2; [lia|]. reflexivity.
Qed.
Lemma cost_none C up b : cost C up b = None -> ~ admissible C up b.
Proof. intros H Ha. rewrite (cost_admissible _ _ _ Ha) in H. discriminate. Qed.

(** * Positions *)
Lemma seq_split_lt : forall a s n i c, seq s n = a ++ i :: c ->
  (forall x, In x a -> (x < i)%nat) /\ (forall x, In x c -> (i < x)%nat).
Proof.
  induction a as [|y a IH]; intros s n i c H.
  - destruct n as [|n]; [discriminate|]. cbn in H. injection H as Hs Hc. subst. split; [intros x []|].
    intros x Hx. apply in_seq in Hx. lia.
  - destruct n as [|n]; [discriminate|]. cbn in H. injection H as Hs Hr. subst y.
    destruct (IH _ _ _ _ Hr) as [Ha Hc]. split; [|exact Hc].
    assert (Hi : In i (seq (S s) n)) by (rewrite Hr; apply in_or_app; right; left; reflexivity).
    apply in_seq in Hi. intros x [Hx|Hx]; [subst; lia|exact (Ha x Hx)].
Qed.

Lemma combine_seq_nth : forall (bs : list bucket) s k b, nth_error bs k = Some b ->
  In ((s + k)%nat, b) (combine (seq s (length bs)) bs).
Proof.
  induction bs as [|x bs IH]; intros s k b H; [destruct k; discriminate|].
  destruct k as [|k]; cbn in H |- *.
  - injection H as H. subst. left. f_equal. lia.
  - right. replace (s + S k)%nat with (S s + k)%nat by lia. apply IH. exact H.
Qed.

Lemma combine_seq_in : forall (bs : list bucket) s j b, In (j, b) (combine (seq s (length bs)) bs) ->
  exists k, j = (s + k)%nat /\ nth_error bs k = Some b.
Proof.
  induction bs as [|x bs IH]; intros s j b H; [destruct H|].
  cbn in H. destruct H as [H|H].
  - injection H as H1 H2. subst. exists 0%nat. split; [lia|reflexivity].
  - destruct (IH _ _ _ H) as (k & Hk & Hn). exists (S k). split; [lia|exact Hn].
Qed.

Lemma enum_nth bs k b : nth_error bs k = Some b -> In (k, b) (enum bs).
Proof. intros H. exact (combine_seq_nth bs 0 k b H). Qed.
Lemma enum_in bs j b : In (j, b) (enum bs) -> nth_error bs j = Some b.
Proof. intros H. destruct (combine_seq_in bs 0 j b H) as (k & Hk & Hn). cbn in Hk. subst. exact Hn. Qed.
Lemma combine_seq_fst : forall (bs : list bucket) s, map fst (combine (seq s (length bs)) bs) = seq s (length bs).
Proof. induction bs as [|x bs IH]; intros s; [reflexivity|]. cbn. f_equal. apply IH. Qed.
Lemma enum_fst bs : map fst (enum bs) = seq 0 (length bs).
Proof. apply combine_seq_fst. Qed.

(** * min(reversed(buckets), key=cost): no bucket is cheaper, every LATER bucket is strictly dearer *)
Lemma cheapest_spec C up bs i : cheapest C up bs = Some i ->
  exists b, nth_error bs i = Some b /\
    (forall j bj, nth_error bs j = Some bj -> clt (cost C up bj) (cost C up b) = false) /\
    (forall j bj, nth_error bs j = Some bj -> (i < j)%nat -> clt (cost C up b) (cost C up bj) = true).
Proof.
  unfold cheapest.
  destruct (pymin clt (fun ib : nat * bucket => cost C up (snd ib)) (rev (enum bs))) as [[i' b]|] eqn:E;
    cbn; intros H; [|discriminate].
  injection H as H. subst i'.
  apply (pymin_spec clt _ clt_trans clt_le_trans) in E. destruct E as (pre & post & Heq & Hpre & Hpost).
  assert (Hen : enum bs = rev post ++ (i, b) :: rev pre).
  { rewrite <- (rev_involutive (enum bs)), Heq, rev_app_distr. cbn. rewrite <- app_assoc. reflexivity. }
  assert (Hfst : seq 0 (length bs) = map fst (rev post) ++ i :: map fst (rev pre)).
  { rewrite <- enum_fst, Hen, map_app. reflexivity. }
  destruct (seq_split_lt _ _ _ _ _ Hfst) as [Hlo Hhi].
  exists b. split; [apply enum_in; rewrite Hen; apply in_or_app; right; left; reflexivity|]. split.
  - intros j bj Hj. apply enum_nth in Hj. rewrite Hen in Hj. apply in_app_or in Hj. destruct Hj as [Hj|[Hj|Hj]].
    + rewrite <- in_rev in Hj. exact (Hpost _ Hj).
    + injection Hj as _ Hb. subst bj. apply clt_irrefl.
    + rewrite <- in_rev in Hj. apply clt_asym. exact (Hpre _ Hj).
  - intros j bj Hj Hlt. apply enum_nth in Hj. rewrite Hen in Hj. apply in_app_or in Hj. destruct Hj as [Hj|[Hj|Hj]].
    + exfalso. assert (Hl : (j < i)%nat) by (apply Hlo; apply (in_map fst) in Hj; exact Hj). lia.
    + injection Hj as Hi _. lia.
    + rewrite <- in_rev in Hj. exact (Hpre _ Hj).
Qed.

Lemma enum_nil bs : enum bs = [] -> bs = [].
Proof. destruct bs; [reflexivity|discriminate]. Qed.

Lemma cheapest_some C up bs : bs <> [] -> exists i, cheapest C up bs = Some i.
Proof.
  intros H. unfold cheapest.
  destruct (pymin_some clt (fun ib : nat * bucket => cost C up (snd ib)) (rev (enum bs))) as [r Hr].
  - intros E. apply H, enum_nil. rewrite <- (rev_involutive (enum bs)), E. reflexivity.
  - rewrite Hr. eexists. reflexivity.
Qed.

(** * _find_bucket *)
Lemma find_idx_spec : forall bs t i, find_idx t bs = Some i ->
  exists b, nth_error bs i = Some b /\ b_ts b = t /\
    (forall j bj, (j < i)%nat -> nth_error bs j = Some bj -> b_ts bj <> t).
Proof.
  induction bs as [|x bs IH]; intros t i H; [discriminate|].
  cbn in H. destruct (b_ts x =? t) eqn:E.
  - injection H as H. subst i. exists x. split; [reflexivity|]. split; [lia|]. intros j bj Hj. lia.
  - destruct (find_idx t bs) as [k|] eqn:F; [|discriminate]. cbn in H. injection H as H. subst i.
    destruct (IH _ _ F) as (b & Hn & Ht & Hfirst). exists b. split; [exact Hn|]. split; [exact Ht|].
    intros [|j] bj Hj Hnth; cbn in Hnth.
    + injection Hnth as Hnth. subst bj. lia.
    + apply (Hfirst j bj); [lia|exact Hnth].
Qed.

Lemma find_idx_in : forall bs t, In t (map b_ts bs) -> exists i, find_idx t bs = Some i.
Proof.
  induction bs as [|x bs IH]; intros t H; [destruct H|].
  cbn. destruct (b_ts x =? t) eqn:E; [eexists; reflexivity|].
  destruct H as [H|H]; [lia|]. destruct (IH _ H) as [i Hi]. rewrite Hi. eexists. reflexivity.
Qed.

(** * choose *)
Lemma choose_overdue C up ts bs : overdue C up bs = true -> choose C up ts bs = Some 0%nat.
Proof. intros H. destruct bs as [|b0 r]; [discriminate|]. unfold choose. rewrite H. reflexivity. Qed.

Lemma choose_explicit C up ts bs i :
  overdue C up bs = false -> explicit_idx ts bs = Some i -> choose C up ts bs = Some i.
Proof.
  intros H E. destruct bs as [|b0 r].
  - unfold explicit_idx in E. destruct ts as [t|]; [|discriminate]. destruct (t =? 0); discriminate.
  - unfold choose. rewrite H, E. reflexivity.
Qed.

Lemma choose_cheapest C up ts bs :
  bs <> [] -> overdue C up bs = false -> explicit_idx ts bs = None -> choose C up ts bs = cheapest C up bs.
Proof. intros Hn H E. destruct bs as [|b0 r]; [congruence|]. unfold choose. rewrite H, E. reflexivity. Qed.

Lemma explicit_idx_spec ts bs i : explicit_idx ts bs = Some i ->
  exists t b, ts = Some t /\ t <> 0 /\ nth_error bs i = Some b /\ b_ts b = t.
Proof.
  unfold explicit_idx. destruct ts as [t|]; [|discriminate]. destruct (t =? 0) eqn:E; [discriminate|].
  intros H. destruct (find_idx_spec _ _ _ H) as (b & Hn & Ht & _). exists t, b. repeat split; try assumption. lia.
Qed.

Lemma choose_in_range C up ts bs i : choose C up ts bs = Some i -> exists b, nth_error bs i = Some b.
Proof.
  intros H. destruct bs as [|b0 r] eqn:Ebs; [discriminate|]. rewrite <- Ebs in *.
  assert (Hne : bs <> []) by (rewrite Ebs; discriminate).
  destruct (overdue C up bs) eqn:Eo.
  - rewrite (choose_overdue _ _ _ _ Eo) in H. injection H as H. subst i. rewrite Ebs. exists b0. reflexivity.
  - destruct (explicit_idx ts bs) as [k|] eqn:Ee.
    + rewrite (choose_explicit _ _ _ _ _ Eo Ee) in H. injection H as H. subst k.
      destruct (explicit_idx_spec _ _ _ Ee) as (t & b & _ & _ & Hn & _). exists b. exact Hn.
    + rewrite (choose_cheapest _ _ _ _ Hne Eo Ee) in H.
      destruct (cheapest_spec _ _ _ _ H) as (b & Hn & _). exists b. exact Hn.
Qed.

Lemma choose_some C up ts bs : bs <> [] -> exists i, choose C up ts bs = Some i.
Proof.
  intros Hne. destruct (overdue C up bs) eqn:Eo.
  - exists 0%nat. apply choose_overdue. exact Eo.
  - destruct (explicit_idx ts bs) as [k|] eqn:Ee.
    + exists k. apply choose_explicit; assumption.
    + rewrite (choose_cheapest _ _ _ _ Hne Eo Ee). apply cheapest_some. exact Hne.
Qed.

(** * add *)
Lemma add_inv C s up ts p v p' : add C s up ts p = Some (v, p') ->
  exists i b, choose C up ts (p_buckets p) = Some i /\ nth_error (p_buckets p) i = Some b /\
    v = b_ts b /\ p' = set_buckets p (upd_nth i (bucket_add s) (p_buckets p)).
Proof.
  unfold add. destruct (choose C up ts (p_buckets p)) as [i|] eqn:Ec; [|discriminate].
  destruct (nth_error (p_buckets p) i) as [b|] eqn:En; [|discriminate].
  intros H. injection H as Hv Hp. exists i, b. repeat split; congruence.
Qed.

(** add never fails on a non-empty bucket list *)
Lemma add_total C s up ts p : p_buckets p <> [] -> exists v p', add C s up ts p = Some (v, p').
Proof.
  intros Hne. destruct (choose_some C up ts _ Hne) as [i Hi]. destruct (choose_in_range _ _ _ _ _ Hi) as [b Hb].
  unfold add. rewrite Hi, Hb. eexists. eexists. reflexivity.
Qed.

Lemma upd_nth_map_ts : forall i s bs, map b_ts (upd_nth i (bucket_add s) bs) = map b_ts bs.
Proof.
  intros i s bs. revert i. induction bs as [|x bs IH]; intros i; [destruct i; reflexivity|].
  destruct i as [|i]; cbn.
  - f_equal. unfold bucket_add. destruct (mem s (b_srv x)); reflexivity.
  - f_equal. apply IH.
Qed.

Lemma upd_nth_length {A} (f : A -> A) : forall i l, length (upd_nth i f l) = length l.
Proof. intros i l. revert i. induction l as [|x l IH]; intros [|i]; cbn; try reflexivity. f_equal. apply IH. Qed.

Lemma upd_nth_nth {A} (f : A -> A) : forall i l j,
  nth_error (upd_nth i f l) j = if Nat.eqb i j then option_map f (nth_error l j) else nth_error l j.
Proof.
  intros i l. revert i. induction l as [|x l IH]; intros i j.
  - destruct i, j; cbn; try reflexivity; destruct (Nat.eqb _ _); reflexivity.
  - destruct i as [|i], j as [|j]; cbn; try reflexivity. apply IH.
Qed.

Lemma mem_in s l : mem s l = true <-> In s l.
Proof.
  unfold mem. rewrite existsb_exists. split.
  - intros (x & Hx & E). apply Z.eqb_eq in E. subst. exact Hx.
  - intros H. exists s. split; [exact H|apply Z.eqb_refl].
Qed.

Lemma bucket_add_in s b : In s (b_srv (bucket_add s b)).
Proof.
  unfold bucket_add. destruct (mem s (b_srv b)) eqn:E; [apply mem_in; exact E|].
  cbn. apply in_or_app. right. left. reflexivity.
Qed.

(** (a) the chosen valid_until is the time stamp of one of the buckets; the server is in that bucket afterwards;
    time stamps, order and number of buckets, the other buckets and the generator state are unchanged *)
Theorem add_valid_until_is_bucket C s up ts p v p' : add C s up ts p = Some (v, p') ->
  exists i b, nth_error (p_buckets p) i = Some b /\ b_ts b = v /\
    nth_error (p_buckets p') i = Some (bucket_add s b) /\ In s (b_srv (bucket_add s b)) /\
    (forall j, j <> i -> nth_error (p_buckets p') j = nth_error (p_buckets p) j) /\
    map b_ts (p_buckets p') = map b_ts (p_buckets p) /\ p_last p' = p_last p /\ p_idx p' = p_idx p.
Proof.
  intros H. destruct (add_inv _ _ _ _ _ _ _ H) as (i & b & Hc & Hn & Hv & Hp). subst p' v. exists i, b.
  split; [exact Hn|]. split; [reflexivity|]. cbn [set_buckets p_buckets p_last p_idx].
  split; [rewrite upd_nth_nth, Nat.eqb_refl, Hn; reflexivity|]. split; [apply bucket_add_in|].
  split; [|split; [apply upd_nth_map_ts|split; reflexivity]].
  intros j Hj. rewrite upd_nth_nth. destruct (Nat.eqb i j) eqn:E; [apply Nat.eqb_eq in E; congruence|reflexivity].
Qed.

(** (c) overdue: the first bucket is later than up_since + DEFAULT_SERVER_UPTIME => the server gets the FIRST
    bucket, whatever time stamp was asked for and whatever the loads *)
Theorem add_overdue_first C s up ts p b0 r : p_buckets p = b0 :: r -> b_ts b0 > up + rc_uptime C ->
  add C s up ts p = Some (b_ts b0, set_buckets p (bucket_add s b0 :: r)).
Proof.
  intros Hb Ho. unfold add. rewrite (choose_overdue C up ts (p_buckets p)).
  - rewrite Hb. reflexivity.
  - rewrite Hb. cbn. lia.
Qed.

(** (d) an explicit time stamp naming an existing bucket is honoured unless the overdue rule applies
    (its cost is not consulted: see [explicit_early_refuted] in Props/C03Reboot.v) *)
Theorem add_explicit_honoured C s up t p : t <> 0 -> In t (map b_ts (p_buckets p)) ->
  overdue C up (p_buckets p) = false ->
  exists p', add C s up (Some t) p = Some (t, p').
Proof.
  intros Ht Hin Ho. destruct (find_idx_in _ _ Hin) as [i Hi].
  assert (He : explicit_idx (Some t) (p_buckets p) = Some i).
  { unfold explicit_idx. destruct (t =? 0) eqn:E; [lia|exact Hi]. }
  destruct (find_idx_spec _ _ _ Hi) as (b & Hn & Hbt & _).
  unfold add. rewrite (choose_explicit _ _ _ _ _ Ho He), Hn, Hbt. eexists. reflexivity.
Qed.

(** (e) otherwise (not overdue, no explicit time stamp that names a bucket): the result is a bucket whose cost
    no bucket undercuts and which every LATER bucket strictly exceeds - exactly min(reversed(...), key=cost) *)
Theorem add_cheapest_latest C s up ts p v p' :
  overdue C up (p_buckets p) = false -> explicit_idx ts (p_buckets p) = None ->
  add C s up ts p = Some (v, p') ->
  exists i b, nth_error (p_buckets p) i = Some b /\ b_ts b = v /\
    (forall j bj, nth_error (p_buckets p) j = Some bj -> clt (cost C up bj) (cost C up b) = false) /\
    (forall j bj, nth_error (p_buckets p) j = Some bj -> (i < j)%nat -> clt (cost C up b) (cost C up bj) = true).
Proof.
  intros Ho He H. destruct (add_inv _ _ _ _ _ _ _ H) as (i & b & Hc & Hn & Hv & _).
  assert (Hne : p_buckets p <> []) by (intros E; rewrite E in Hn; destruct i; discriminate).
  rewrite (choose_cheapest _ _ _ _ Hne Ho He) in Hc.
  destruct (cheapest_spec _ _ _ _ Hc) as (b' & Hn' & Hmin & Hlate).
  assert (b' = b) by congruence. subst b'. exists i, b. repeat split; try assumption. congruence.
Qed.

(** (e) in terms of loads: among the admissible buckets the least loaded wins, ties go to the latest *)
Corollary add_least_loaded C s up ts p v p' j bj :
  overdue C up (p_buckets p) = false -> explicit_idx ts (p_buckets p) = None ->
  add C s up ts p = Some (v, p') ->
  nth_error (p_buckets p) j = Some bj -> admissible C up bj ->
  exists i b, nth_error (p_buckets p) i = Some b /\ b_ts b = v /\ admissible C up b /\
    load b <= load bj /\ ((i < j)%nat -> load b < load bj).
Proof.
  intros Ho He H Hj Ha. destruct (add_cheapest_latest _ _ _ _ _ _ _ Ho He H) as (i & b & Hn & Hv & Hmin & Hlate).
  exists i, b. split; [exact Hn|]. split; [exact Hv|].
  pose proof (Hmin _ _ Hj) as H1. rewrite (cost_admissible _ _ _ Ha) in H1.
  destruct (cost C up b) as [n|] eqn:Ec; [|discriminate].
  destruct (cost_some _ _ _ _ Ec) as [Hab Hl]. subst n. cbn in H1. split; [exact Hab|]. split; [lia|].
  intros Hlt. pose proof (Hlate _ _ Hj Hlt) as H2. rewrite (cost_admissible _ _ _ Ha) in H2. cbn in H2. lia.
Qed.

(** (b) some bucket is admissible, the first bucket is not beyond up_since + DEFAULT_SERVER_UPTIME, no explicit
    time stamp names a bucket: the chosen valid_until lies in [up + MIN_SERVER_UPTIME, up + DEFAULT_SERVER_UPTIME] *)
Theorem add_in_window C s up ts p v p' ba :
  overdue C up (p_buckets p) = false -> explicit_idx ts (p_buckets p) = None ->
  In ba (p_buckets p) -> admissible C up ba ->
  add C s up ts p = Some (v, p') ->
  up + rc_min C <= v <= up + rc_uptime C.
Proof.
  intros Ho He Hin Ha H. destruct (In_nth_error _ _ Hin) as [j Hj].
  destruct (add_least_loaded _ _ _ _ _ _ _ _ _ Ho He H Hj Ha) as (i & b & _ & Hv & Hab & _).
  subst v. exact Hab.
Qed.

(** (g) NO bucket is admissible (every cost is +inf) and the server is not overdue: min over equal keys returns
    the first item of reversed(buckets), i.e. the server gets the LAST bucket *)
Theorem add_none_admissible_last C s up ts p v p' pre bl :
  overdue C up (p_buckets p) = false -> explicit_idx ts (p_buckets p) = None ->
  (forall b, In b (p_buckets p) -> ~ admissible C up b) ->
  p_buckets p = pre ++ [bl] ->
  add C s up ts p = Some (v, p') -> v = b_ts bl.
Proof.
  intros Ho He Hnone Hl H.
  destruct (add_cheapest_latest _ _ _ _ _ _ _ Ho He H) as (i & b & Hn & Hv & _ & Hlate).
  assert (Hlast : nth_error (p_buckets p) (length pre) = Some bl).
  { rewrite Hl, nth_error_app2, Nat.sub_diag; [reflexivity|lia]. }
  assert (Hcb : cost C up b = None).
  { destruct (cost C up b) as [n|] eqn:Ec; [|reflexivity]. exfalso.
    apply (Hnone b); [eapply nth_error_In; exact Hn|]. exact (proj1 (cost_some _ _ _ _ Ec)). }
  assert (Hi : (i < length (p_buckets p))%nat) by (apply nth_error_Some; congruence).
  rewrite Hl, app_length in Hi. cbn in Hi.
  destruct (Nat.eq_dec i (length pre)) as [E|E].
  - subst i. congruence.
  - exfalso. assert (Hlt : (i < length pre)%nat) by lia.
    pose proof (Hlate _ _ Hlast Hlt) as H2. rewrite Hcb in H2. discriminate.
Qed.

(** * The date stream and the invariant of the bucket list *)
Definition StrictInc (ds : nat -> Z) : Prop := forall n, ds n < ds (S n).

Lemma inc_add ds : StrictInc ds -> forall k n, ds n + Z.of_nat k <= ds (n + k)%nat.
Proof.
  intros H. induction k as [|k IH]; intros n.
  - rewrite Nat.add_0_r. lia.
  - specialize (IH n). specialize (H (n + k)%nat). replace (n + S k)%nat with (S (n + k)) by lia. lia.
Qed.

Lemma inc_lt ds : StrictInc ds -> forall n m, (n < m)%nat -> ds n < ds m.
Proof.
  intros H n m Hlt. pose proof (inc_add ds H (m - n) n) as H1.
  replace (n + (m - n))%nat with m in H1 by lia. lia.
Qed.

Lemma sorted_ds ds : StrictInc ds -> forall n i0, StronglySorted Z.lt (map ds (seq i0 n)).
Proof.
  intros H. induction n as [|n IH]; intros i0; cbn; constructor.
  - apply IH.
  - apply Forall_forall. intros x Hx. apply in_map_iff in Hx. destruct Hx as (k & Hk & Hin).
    apply in_seq in Hin. subst x. apply inc_lt; [exact H|lia].
Qed.

(** the time stamps are consecutive values of the generator, ending at the last one taken; _reboot_last is the
    last bucket's time stamp *)
Definition InvT (ds : nat -> Z) (tsl : list Z) (last : Z) (idx : nat) : Prop :=
  exists i0, tsl = map ds (seq i0 (length tsl)) /\ (i0 + length tsl = idx)%nat /\
    (tsl <> [] -> last = ds (pred idx)).
Definition Inv (ds : nat -> Z) (p : part) : Prop := InvT ds (map b_ts (p_buckets p)) (p_last p) (p_idx p).

Definition tss (p : part) : list Z := map b_ts (p_buckets p).

Lemma Inv_sorted ds p : StrictInc ds -> Inv ds p -> StronglySorted Z.lt (tss p).
Proof. intros H (i0 & Hm & _). unfold tss. rewrite Hm. apply sorted_ds. exact H. Qed.

Lemma app_inj_len {A} : forall (l1 m1 l2 m2 : list A), l1 ++ l2 = m1 ++ m2 -> length l1 = length m1 ->
  l1 = m1 /\ l2 = m2.
Proof.
  induction l1 as [|x l1 IH]; intros [|y m1] l2 m2 H Hl; try discriminate.
  - split; [reflexivity|exact H].
  - cbn in H. injection H as Hx H. cbn in Hl. injection Hl as Hl. destruct (IH _ _ _ H Hl). subst. split; reflexivity.
Qed.

Lemma InvT_last ds tsl last idx : InvT ds tsl last idx -> tsl <> [] ->
  exists pre, tsl = pre ++ [last].
Proof.
  intros (i0 & Hm & Hi & Hl) Hne. specialize (Hl Hne).
  destruct (exists_last Hne) as (pre & t & Ht). exists pre. rewrite Ht. f_equal. f_equal.
  rewrite Ht in Hm at 2. rewrite app_length in Hm. cbn [length] in Hm. rewrite Nat.add_1_r, seq_S, map_app in Hm.
  cbn [map] in Hm. rewrite Ht in Hm. apply app_inj_tail in Hm. destruct Hm as [_ Hm].
  rewrite Ht, app_length in Hi. cbn [length] in Hi. subst last t. f_equal. lia.
Qed.

Lemma InvT_push ds tsl last idx : InvT ds tsl last idx -> InvT ds (tsl ++ [ds idx]) (ds idx) (S idx).
Proof.
  intros (i0 & Hm & Hi & _). exists i0. rewrite app_length. cbn [length]. rewrite Nat.add_1_r, seq_S, map_app.
  cbn [map]. split; [rewrite <- Hm, Hi; reflexivity|]. split; [lia|]. intros _. reflexivity.
Qed.

Lemma InvT_suffix ds old tsl last idx : InvT ds (old ++ tsl) last idx -> tsl <> [] -> InvT ds tsl last idx.
Proof.
  intros (i0 & Hm & Hi & Hl) Hne. rewrite app_length in Hm, Hi. rewrite seq_app, map_app in Hm.
  apply app_inj_len in Hm; [|rewrite map_length, seq_length; reflexivity]. destruct Hm as [_ Hm].
  exists (i0 + length old)%nat. split; [exact Hm|]. split; [lia|]. intros _. apply Hl.
  destruct old; [exact Hne|discriminate].
Qed.

Lemma push_Inv ds p : Inv ds p -> Inv ds (push ds p).
Proof. unfold Inv, push. cbn [p_buckets p_last p_idx]. rewrite map_app. cbn [map b_ts]. apply InvT_push. Qed.

(** * tick *)
Section Tick.
  Variable C : rconst.
  Variable ds : nat -> Z.
  Variable now : Z.

  Lemma extend_spec : forall fuel p p1, extend C ds fuel now p = Some p1 -> Inv ds p ->
    Inv ds p1 /\ now + rc_uptime C < p_last p1 /\
    exists news, p_buckets p1 = p_buckets p ++ news /\ (forall b, In b news -> b_srv b = []) /\
      (p_last p <= now + rc_uptime C -> news <> []).
  Proof.
    induction fuel as [|f IH]; intros p p1 H HI; cbn [extend] in H;
      destruct (p_last p <=? now + rc_uptime C) eqn:E; try discriminate.
    - injection H as H. subst p1. split; [exact HI|]. split; [lia|]. exists []. rewrite app_nil_r.
      split; [reflexivity|]. split; [intros b []|lia].
    - destruct (IH _ _ H (push_Inv _ _ HI)) as (HI1 & Hl1 & news & Hb & He & _).
      split; [exact HI1|]. split; [exact Hl1|]. cbn [push p_buckets] in Hb. rewrite <- app_assoc in Hb.
      eexists. split; [exact Hb|]. split; [|intros _; discriminate].
      intros b [Hb0|Hb0]; [subst b; reflexivity|exact (He b Hb0)].
    - injection H as H. subst p1. split; [exact HI|]. split; [lia|]. exists []. rewrite app_nil_r.
      split; [reflexivity|]. split; [intros b []|lia].
  Qed.

  (** enough fuel: the number of seconds the stream still has to cover, plus one *)
  Definition fuel_bound (p : part) : nat := S (Z.to_nat (now + rc_uptime C + 1 - ds (p_idx p))).

  Lemma extend_terminates : StrictInc ds -> forall fuel p, (fuel_bound p <= fuel)%nat ->
    exists p1, extend C ds fuel now p = Some p1.
  Proof.
    intros Hinc. induction fuel as [|f IH]; intros p Hf; unfold fuel_bound in Hf; [lia|].
    cbn [extend]. destruct (p_last p <=? now + rc_uptime C) eqn:E; [|eexists; reflexivity].
    destruct (ds (p_idx p) <=? now + rc_uptime C) eqn:E2.
    - apply IH. unfold fuel_bound, push. cbn [p_idx]. specialize (Hinc (p_idx p)). lia.
    - destruct f as [|f']; cbn [extend push p_last]; rewrite E2; eexists; reflexivity.
  Qed.

  Lemma drop_old_spec : forall bs bs', drop_old now bs = Some bs' ->
    exists old, bs = old ++ bs' /\ (forall b, In b old -> b_ts b < now) /\
      exists b r, bs' = b :: r /\ now <= b_ts b.
  Proof.
    induction bs as [|x bs IH]; intros bs' H; [discriminate|]. cbn in H. destruct (b_ts x <? now) eqn:E.
    - destruct (IH _ H) as (old & Hb & Hold & Hhd). exists (x :: old). split; [cbn; rewrite Hb; reflexivity|].
      split; [|exact Hhd]. intros b [Hb0|Hb0]; [subst; lia|exact (Hold b Hb0)].
    - injection H as H. subst bs'. exists []. split; [reflexivity|]. split; [intros b []|].
      exists x, bs. split; [reflexivity|lia].
  Qed.

  Lemma drop_old_some : forall bs b, In b bs -> now <= b_ts b -> exists bs', drop_old now bs = Some bs'.
  Proof.
    induction bs as [|x bs IH]; intros b Hin Hb; [destruct Hin|]. cbn. destruct (b_ts x <? now) eqn:E.
    - destruct Hin as [Hin|Hin]; [subst; lia|]. exact (IH _ Hin Hb).
    - eexists. reflexivity.
  Qed.

  (** the bucket list is current for [now]: nothing older than now, the last bucket lies beyond
      now + DEFAULT_SERVER_UPTIME (so it is non-empty) *)
  Definition Current (p : part) : Prop :=
    exists pre tl, tss p = pre ++ [tl] /\ now + rc_uptime C < tl /\ (forall t, In t (tss p) -> now <= t).

  Lemma sorted_head_le : forall (t : Z) l, StronglySorted Z.lt (t :: l) -> forall x, In x (t :: l) -> t <= x.
  Proof.
    intros t l H x [Hx|Hx]; [lia|]. inversion H as [|a l' _ Hall]; subst.
    rewrite Forall_forall in Hall. specialize (Hall _ Hx). lia.
  Qed.

  (** (f) tick: on a state that satisfies the invariant and is either non-empty or due for extension (the
      constructor's state), with enough fuel not to stop early *)
  Theorem tick_spec fuel p p' : StrictInc ds -> 0 <= rc_uptime C -> Inv ds p ->
    (p_buckets p <> [] \/ p_last p <= now + rc_uptime C) ->
    tick C ds fuel now p = TOk p' ->
    Inv ds p' /\ Current p' /\ StronglySorted Z.lt (tss p') /\
    now + rc_uptime C < p_last p' /\
    (forall b, In b (p_buckets p) -> now <= b_ts b -> In b (p_buckets p')) /\
    (forall b, In b (p_buckets p') -> In b (p_buckets p) \/ b_srv b = []) /\
    (forall b, In b (p_buckets p') -> now <= b_ts b).
  Proof.
    intros Hinc HD HI Hstart H. unfold tick in H.
    destruct (extend C ds fuel now p) as [p1|] eqn:E1; [|discriminate].
    destruct (drop_old now (p_buckets p1)) as [bs|] eqn:E2; [|discriminate].
    injection H as H. subst p'.
    destruct (extend_spec _ _ _ E1 HI) as (HI1 & Hl1 & news & Hb1 & Hnews & Hne).
    destruct (drop_old_spec _ _ E2) as (old & Hsplit & Hold & b & r & Hbs & Hb).
    assert (HI' : Inv ds (set_buckets p1 bs)).
    { unfold Inv in *. cbn [set_buckets p_buckets p_last p_idx]. rewrite Hsplit, map_app in HI1.
      apply InvT_suffix in HI1; [exact HI1|]. rewrite Hbs. discriminate. }
    pose proof (Inv_sorted _ _ Hinc HI') as Hs. unfold tss in Hs. cbn [set_buckets p_buckets] in Hs.
    assert (Hall : forall t, In t (map b_ts bs) -> now <= t).
    { intros t Ht. rewrite Hbs in Hs, Ht. cbn [map] in Hs, Ht. pose proof (sorted_head_le _ _ Hs _ Ht). lia. }
    split; [exact HI'|]. split; [|split; [exact Hs|split; [exact Hl1|split; [|split]]]].
    - unfold Current, tss. cbn [set_buckets p_buckets].
      assert (Hne' : map b_ts bs <> []) by (rewrite Hbs; discriminate).
      destruct (InvT_last _ _ _ _ HI' Hne') as (pre & Hpre). cbn [set_buckets p_buckets p_last] in Hpre.
      exists pre, (p_last p1). split; [exact Hpre|]. split; [exact Hl1|exact Hall].
    - cbn [set_buckets p_buckets]. intros b' Hin Hge.
      assert (Hin1 : In b' (old ++ bs)) by (rewrite <- Hsplit, Hb1; apply in_or_app; left; exact Hin).
      apply in_app_or in Hin1. destruct Hin1 as [Ho|Ho]; [specialize (Hold _ Ho); lia|exact Ho].
    - cbn [set_buckets p_buckets]. intros b' Hin.
      assert (Hin1 : In b' (p_buckets p ++ news)) by (rewrite <- Hb1, Hsplit; apply in_or_app; right; exact Hin).
      apply in_app_or in Hin1. destruct Hin1 as [Ho|Ho]; [left; exact Ho|right; exact (Hnews _ Ho)].
    - cbn [set_buckets p_buckets]. intros b' Hin. apply Hall. apply in_map. exact Hin.
  Qed.

  (** `self._reboot_buckets[0]` never raises IndexError in tick *)
  Theorem tick_no_index_error fuel p : 0 <= rc_uptime C -> Inv ds p ->
    (p_buckets p <> [] \/ p_last p <= now + rc_uptime C) -> tick C ds fuel now p <> TIndex.
  Proof.
    intros HD HI Hstart H. unfold tick in H.
    destruct (extend C ds fuel now p) as [p1|] eqn:E1; [|discriminate].
    destruct (drop_old now (p_buckets p1)) as [bs|] eqn:E2; [discriminate|].
    destruct (extend_spec _ _ _ E1 HI) as (HI1 & Hl1 & news & Hb1 & Hnews & Hne).
    assert (Hne1 : map b_ts (p_buckets p1) <> []).
    { rewrite Hb1, map_app. destruct Hstart as [Hs|Hs].
      - destruct (p_buckets p); [congruence|discriminate].
      - specialize (Hne Hs). destruct news; [congruence|]. destruct (map b_ts (p_buckets p)); discriminate. }
    destruct (InvT_last _ _ _ _ HI1 Hne1) as (pre & Hpre).
    assert (Hin : In (p_last p1) (map b_ts (p_buckets p1))) by (rewrite Hpre; apply in_or_app; right; left; reflexivity).
    apply in_map_iff in Hin. destruct Hin as (b & Hbt & Hin).
    destruct (drop_old_some _ b Hin) as [bs' Hbs']; [lia|congruence].
  Qed.

  (** the first loop terminates: with [fuel_bound p] fuel tick does not stop early *)
  Theorem tick_enough_fuel fuel p : StrictInc ds -> (fuel_bound p <= fuel)%nat -> tick C ds fuel now p <> TFuel.
  Proof.
    intros Hinc Hf H. unfold tick in H. destruct (extend_terminates Hinc fuel p Hf) as [p1 E1]. rewrite E1 in H.
    destruct (drop_old now (p_buckets p1)); discriminate.
  Qed.
End Tick.

(** * add / remove keep the bucket structure *)
Lemma add_tss C s up ts p v p' : add C s up ts p = Some (v, p') ->
  tss p' = tss p /\ p_last p' = p_last p /\ p_idx p' = p_idx p.
Proof.
  intros H. destruct (add_valid_until_is_bucket _ _ _ _ _ _ _ H) as (i & b & _ & _ & _ & _ & _ & Hm & Hl & Hi).
  unfold tss. repeat split; assumption.
Qed.

Lemma remove_tss s p : tss (remove s p) = tss p /\ p_last (remove s p) = p_last p /\ p_idx (remove s p) = p_idx p.
Proof.
  unfold tss, remove. cbn [set_buckets p_buckets p_last p_idx]. rewrite map_map. cbn [bucket_remove b_ts].
  repeat split; reflexivity.
Qed.

Lemma Inv_eq ds p q : tss q = tss p -> p_last q = p_last p -> p_idx q = p_idx p -> Inv ds p -> Inv ds q.
Proof. unfold Inv, tss. intros H1 H2 H3 H. rewrite H1, H2, H3. exact H. Qed.

Lemma Current_eq C now p q : tss q = tss p -> Current C now p -> Current C now q.
Proof. unfold Current. intros H1 H. rewrite H1. exact H. Qed.

Lemma Current_last C now p : Current C now p ->
  exists pre bl, p_buckets p = pre ++ [bl] /\ now + rc_uptime C < b_ts bl /\
    (forall b, In b (p_buckets p) -> now <= b_ts b).
Proof.
  intros (pre & tl & Hm & Hl & Hall). unfold tss in *.
  apply map_eq_app in Hm. destruct Hm as (pre' & l2 & Hb & _ & H2).
  destruct l2 as [|bl [|? ?]]; try discriminate. cbn in H2. injection H2 as H2.
  exists pre', bl. split; [exact Hb|]. split; [lia|]. intros b Hin. apply Hall. apply in_map. exact Hin.
Qed.

(** servers of a bucket are a set: no id twice (so [load] counts distinct servers) *)
Definition SetLike (p : part) : Prop := forall b, In b (p_buckets p) -> NoDup (b_srv b).

Lemma nodup_snoc {A} (s : A) : forall l, NoDup l -> ~ In s l -> NoDup (l ++ [s]).
Proof.
  induction l as [|x l IH]; intros H Hn; cbn.
  - constructor; [intros []|constructor].
  - inversion H as [|? ? Hx Hl]; subst. constructor.
    + intros Hin. apply in_app_or in Hin. destruct Hin as [Hin|[Hin|[]]]; [exact (Hx Hin)|].
      subst. apply Hn. left. reflexivity.
    + apply IH; [exact Hl|]. intros Hin. apply Hn. right. exact Hin.
Qed.

Lemma bucket_add_nodup s b : NoDup (b_srv b) -> NoDup (b_srv (bucket_add s b)).
Proof.
  intros H. unfold bucket_add. destruct (mem s (b_srv b)) eqn:E; [exact H|]. cbn.
  apply nodup_snoc; [exact H|]. intros Hin. apply mem_in in Hin. congruence.
Qed.

Lemma upd_nth_in {A} (f : A -> A) : forall i l x, In x (upd_nth i f l) -> In x l \/ exists y, In y l /\ x = f y.
Proof.
  intros i l. revert i. induction l as [|a l IH]; intros [|i] x H; cbn in H; try (destruct H; fail).
  - destruct H as [H|H]; [right; exists a; split; [left; reflexivity|congruence]|left; right; exact H].
  - destruct H as [H|H]; [left; left; exact H|].
    destruct (IH _ _ H) as [H1|(y & Hy & E)]; [left; right; exact H1|right; exists y; split; [right; exact Hy|exact E]].
Qed.

Lemma add_setlike C s up ts p v p' : add C s up ts p = Some (v, p') -> SetLike p -> SetLike p'.
Proof.
  intros H HS b Hb. destruct (add_inv _ _ _ _ _ _ _ H) as (i & b0 & _ & _ & _ & Hp). subst p'.
  cbn [set_buckets p_buckets] in Hb. destruct (upd_nth_in _ _ _ _ Hb) as [H1|(y & Hy & E)].
  - exact (HS _ H1).
  - subst b. apply bucket_add_nodup. exact (HS _ Hy).
Qed.

Lemma remove_setlike s p : SetLike p -> SetLike (remove s p).
Proof.
  intros HS b Hb. unfold remove in Hb. cbn [set_buckets p_buckets] in Hb. apply in_map_iff in Hb.
  destruct Hb as (y & E & Hy). subst b. cbn. apply NoDup_filter. exact (HS _ Hy).
Qed.

Lemma remove_gone s p b : In b (p_buckets (remove s p)) -> ~ In s (b_srv b).
Proof.
  intros Hb Hin. unfold remove in Hb. cbn [set_buckets p_buckets] in Hb. apply in_map_iff in Hb.
  destruct Hb as (y & E & Hy). subst b. cbn in Hin. apply filter_In in Hin. destruct Hin as [_ Hin]. lia.
Qed.

(** * What a user relies on *)
(** (b') on a current bucket list, a server booted at or before now + UPTIME - MIN (every server that exists)
    is never scheduled for a reboot earlier than MIN_SERVER_UPTIME after its boot - whether or not a bucket is
    admissible - unless an explicit time stamp naming a bucket is passed *)
Theorem no_early_reboot C now s up ts p v p' :
  0 <= rc_min C <= rc_uptime C -> Current C now p ->
  up + rc_min C <= now + rc_uptime C ->
  explicit_idx ts (p_buckets p) = None ->
  add C s up ts p = Some (v, p') ->
  up + rc_min C <= v.
Proof.
  intros HC Hcur Hup He H. destruct (Current_last _ _ _ Hcur) as (pre & bl & Hb & Hl & Hall).
  destruct (overdue C up (p_buckets p)) eqn:Eo.
  - destruct (p_buckets p) as [|b0 r] eqn:Ebs; [discriminate|]. cbn in Eo.
    rewrite (add_overdue_first C s up ts p b0 r Ebs) in H by lia. injection H as Hv _. lia.
  - destruct (add_cheapest_latest _ _ _ _ _ _ _ Eo He H) as (i & b & Hn & Hv & _ & Hlate).
    destruct (cost C up b) as [n|] eqn:Ec.
    + destruct (cost_some _ _ _ _ Ec) as [[Ha _] _]. lia.
    + assert (Hlast : nth_error (p_buckets p) (length pre) = Some bl).
      { rewrite Hb, nth_error_app2, Nat.sub_diag; [reflexivity|lia]. }
      assert (Hi : (i < length (p_buckets p))%nat) by (apply nth_error_Some; congruence).
      rewrite Hb, app_length in Hi. cbn in Hi.
      destruct (Nat.eq_dec i (length pre)) as [E|E].
      * subst i. assert (b = bl) by congruence. subst b. lia.
      * assert (Hlt : (i < length pre)%nat) by lia. pose proof (Hlate _ _ Hlast Hlt) as H2. discriminate.
Qed.

(** consecutive dates are at most [G] apart *)
Definition GapBound (ds : nat -> Z) (G : Z) : Prop := forall n, ds (S n) <= ds n + G.

Lemma chain_hits : forall (G lo hi : Z) (l : list Z) t tl pre,
  (forall a b l1 l2, t :: l = l1 ++ a :: b :: l2 -> b <= a + G) ->
  t :: l = pre ++ [tl] -> t <= hi -> lo <= tl -> lo + G <= hi ->
  exists x, In x (t :: l) /\ lo <= x <= hi.
Proof.
  intros G lo hi l. induction l as [|u l IH]; intros t tl pre Hgap Hl Hhd Htl HG.
  - destruct pre as [|? [|? ?]]; try discriminate. cbn in Hl. injection Hl as Hl. subst tl.
    exists t. split; [left; reflexivity|lia].
  - destruct (Z_le_gt_dec lo t) as [Hge|Hlt].
    + exists t. split; [left; reflexivity|lia].
    + assert (Hu : u <= t + G) by (apply (Hgap t u [] l); reflexivity).
      destruct pre as [|t0 pre']; [discriminate|]. cbn in Hl. injection Hl as Ht0 Hl. subst t0.
      destruct (IH u tl pre') as (x & Hx & Hr); try assumption; try lia.
      * intros a b l1 l2 E. apply (Hgap a b (t :: l1) l2). cbn. rewrite E. reflexivity.
      * exists x. split; [right; exact Hx|exact Hr].
Qed.

Lemma ds_gaps ds G i0 : GapBound ds G -> forall n a b l1 l2, map ds (seq i0 n) = l1 ++ a :: b :: l2 -> b <= a + G.
Proof.
  intros HG n a b l1 l2 H.
  assert (Hlen : length (map ds (seq i0 n)) = (length l1 + S (S (length l2)))%nat)
    by (rewrite H, app_length; reflexivity).
  rewrite map_length, seq_length in Hlen.
  assert (Ha : nth_error (map ds (seq i0 n)) (length l1) = Some a)
    by (rewrite H, nth_error_app2, Nat.sub_diag; [reflexivity|lia]).
  assert (Hb : nth_error (map ds (seq i0 n)) (S (length l1)) = Some b).
  { rewrite H, nth_error_app2 by lia. replace (S (length l1) - length l1)%nat with 1%nat by lia. reflexivity. }
  rewrite nth_error_map in Ha, Hb.
  destruct (nth_error (seq i0 n) (length l1)) as [ka|] eqn:Ea; [|discriminate].
  destruct (nth_error (seq i0 n) (S (length l1))) as [kb|] eqn:Eb; [|discriminate].
  cbn in Ha, Hb. injection Ha as Ha. injection Hb as Hb.
  pose proof (nth_error_nth _ _ 0%nat Ea) as Na. pose proof (nth_error_nth _ _ 0%nat Eb) as Nb.
  rewrite seq_nth in Na, Nb by lia. subst ka kb a b. replace (i0 + S (length l1))%nat with (S (i0 + length l1)) by lia.
  apply HG.
Qed.

(** (h) a server that is not overdue and was booted at or before now + UPTIME - MIN always HAS an admissible
    bucket when consecutive reboot dates are at most UPTIME - MIN apart, so (no explicit time stamp) its
    valid_until lies in [up + MIN_SERVER_UPTIME, up + DEFAULT_SERVER_UPTIME] *)
Theorem window_guaranteed C ds G now s up ts p v p' :
  GapBound ds G -> rc_min C + G <= rc_uptime C ->
  Inv ds p -> Current C now p ->
  overdue C up (p_buckets p) = false ->
  up + rc_min C <= now + rc_uptime C ->
  explicit_idx ts (p_buckets p) = None ->
  add C s up ts p = Some (v, p') ->
  up + rc_min C <= v <= up + rc_uptime C.
Proof.
  intros HG HC HI (pre & tl & Hm & Hl & Hall) Ho Hup He H.
  unfold tss in Hm, Hall. unfold Inv in HI.
  destruct (p_buckets p) as [|b0 r] eqn:Ebs; [destruct pre; discriminate|].
  assert (Hex : exists x, In x (map b_ts (b0 :: r)) /\ up + rc_min C <= x <= up + rc_uptime C).
  { cbn [map] in *.
    apply (chain_hits G _ _ (map b_ts r) (b_ts b0) tl pre); try assumption; try lia.
    - destruct HI as (i0 & HIm & _). rewrite HIm.
      intros a b l1 l2 E. exact (ds_gaps ds G i0 HG _ _ _ _ _ E).
    - cbn in Ho. lia. }
  destruct Hex as (x & Hx & Hr). apply in_map_iff in Hx. destruct Hx as (ba & Hba & Hin).
  apply (add_in_window C s up ts p v p' ba); try (rewrite Ebs; assumption); try assumption.
  unfold admissible. lia.
Qed.

(** * reboot_dates for a weekly schedule *)
Section Sched.
  Variable W : sched.
  Variables wd0 tz : Z.

  Lemma weekday_range d : 0 <= weekday wd0 d < 7.
  Proof. unfold weekday. apply Z.mod_pos_bound. lia. Qed.

  Lemma in_week k : 0 <= k < 7 -> In k [0; 1; 2; 3; 4; 5; 6].
  Proof.
    intros H. assert (E : k = 0 \/ k = 1 \/ k = 2 \/ k = 3 \/ k = 4 \/ k = 5 \/ k = 6) by lia.
    cbn. intuition.
  Qed.

  Lemma next_day_spec : forall f d d', next_day W wd0 f d = Some d' ->
    d <= d' < d + Z.of_nat f /\ lookup (weekday wd0 d') W <> None.
  Proof.
    induction f as [|f IH]; intros d d' H; [discriminate|]. cbn [next_day] in H.
    destruct (lookup (weekday wd0 d) W) as [hms|] eqn:E.
    - injection H as H. subst d'. split; [lia|congruence].
    - destruct (IH _ _ H) as [Hr Hl]. split; [lia|exact Hl].
  Qed.

  Lemma next_day_none : forall f d, next_day W wd0 f d = None ->
    forall e, d <= e < d + Z.of_nat f -> lookup (weekday wd0 e) W = None.
  Proof.
    induction f as [|f IH]; intros d H e He; [lia|]. cbn [next_day] in H.
    destruct (lookup (weekday wd0 d) W) as [hms|] eqn:E; [discriminate|].
    destruct (Z.eq_dec e d) as [->|Hne]; [exact E|]. apply (IH _ H). lia.
  Qed.

  Lemma live_next : sched_live W = true -> forall d, exists d', next_day W wd0 7 d = Some d'.
  Proof.
    intros Hl d. destruct (next_day W wd0 7 d) as [d'|] eqn:E; [eexists; reflexivity|]. exfalso.
    unfold sched_live in Hl. apply existsb_exists in Hl. destruct Hl as (k & Hk & Hs).
    assert (Hr : 0 <= k < 7) by (cbn in Hk; lia).
    pose proof (next_day_none _ _ E (d + (k - (d + wd0)) mod 7)) as Hn.
    assert (Hm : 0 <= (k - (d + wd0)) mod 7 < 7) by (apply Z.mod_pos_bound; lia).
    assert (Hw : weekday wd0 (d + (k - (d + wd0)) mod 7) = k).
    { unfold weekday. replace (d + (k - (d + wd0)) mod 7 + wd0) with ((d + wd0) + (k - (d + wd0)) mod 7) by lia.
      rewrite Zplus_mod_idemp_r. replace (d + wd0 + (k - (d + wd0))) with k by lia. apply Z.mod_small. lia. }
    assert (Hin : d <= d + (k - (d + wd0)) mod 7 < d + Z.of_nat 7) by lia.
    specialize (Hn Hin). rewrite Hw in Hn. rewrite Hn in Hs. discriminate.
  Qed.

  Hypothesis Hlive : sched_live W = true.

  Lemma nth_day_some d0 : forall n, exists d, nth_day W wd0 d0 n = Some d.
  Proof.
    induction n as [|n [d IH]]; cbn [nth_day]; [apply live_next; exact Hlive|].
    rewrite IH. apply live_next. exact Hlive.
  Qed.

  Lemma nth_day_sched d0 : forall n d, nth_day W wd0 d0 n = Some d -> lookup (weekday wd0 d) W <> None.
  Proof.
    intros [|n] d H; cbn [nth_day] in H.
    - exact (proj2 (next_day_spec _ _ _ H)).
    - destruct (nth_day W wd0 d0 n); [|discriminate]. exact (proj2 (next_day_spec _ _ _ H)).
  Qed.

  Lemma nth_day_step d0 n d d' : nth_day W wd0 d0 n = Some d -> nth_day W wd0 d0 (S n) = Some d' ->
    d + 1 <= d' <= d + 7.
  Proof.
    intros H H'. cbn [nth_day] in H'. rewrite H in H'. pose proof (proj1 (next_day_spec _ _ _ H')). lia.
  Qed.

  Hypothesis Htod : sched_tod_ok W = true.

  Lemma tod_range d hms : lookup (weekday wd0 d) W = Some hms -> 0 <= tod hms < 86400.
  Proof.
    intros H. unfold sched_tod_ok in Htod. rewrite forallb_forall in Htod.
    specialize (Htod _ (in_week _ (weekday_range d))). rewrite H in Htod. lia.
  Qed.

  (** the n-th date, spelled out *)
  Lemma sched_ds_eq d0 n : exists d hms, nth_day W wd0 d0 n = Some d /\ lookup (weekday wd0 d) W = Some hms /\
    0 <= tod hms < 86400 /\ sched_ds W wd0 tz d0 n = d * 86400 + tod hms - tz.
  Proof.
    destruct (nth_day_some d0 n) as [d Hd]. pose proof (nth_day_sched _ _ _ Hd) as Hs.
    destruct (lookup (weekday wd0 d) W) as [hms|] eqn:E; [|congruence].
    exists d, hms. split; [exact Hd|]. split; [exact E|]. split; [exact (tod_range _ _ E)|].
    unfold sched_ds, day_ts. rewrite Hd, E. reflexivity.
  Qed.

  (** dates of a live schedule with times of day are strictly increasing and at most 8 days - 1 s apart *)
  Theorem sched_ds_inc d0 : StrictInc (sched_ds W wd0 tz d0).
  Proof.
    intros n. destruct (sched_ds_eq d0 n) as (d & hms & Hd & _ & Ht & ->).
    destruct (sched_ds_eq d0 (S n)) as (d' & hms' & Hd' & _ & Ht' & ->).
    pose proof (nth_day_step _ _ _ _ Hd Hd'). lia.
  Qed.

  Theorem sched_ds_gap d0 : GapBound (sched_ds W wd0 tz d0) 691199.
  Proof.
    intros n. destruct (sched_ds_eq d0 n) as (d & hms & Hd & _ & Ht & ->).
    destruct (sched_ds_eq d0 (S n)) as (d' & hms' & Hd' & _ & Ht' & ->).
    pose proof (nth_day_step _ _ _ _ Hd Hd'). lia.
  Qed.

  (** the first date is on the start day or within the six days after it *)
  Theorem sched_ds_first d0 : d0 * 86400 - tz <= sched_ds W wd0 tz d0 0 < (d0 + 7) * 86400 - tz.
  Proof.
    destruct (sched_ds_eq d0 0) as (d & hms & Hd & _ & Ht & ->). cbn [nth_day] in Hd.
    pose proof (proj1 (next_day_spec _ _ _ Hd)). lia.
  Qed.
End Sched.

(** a schedule with no weekday in 0..6: next() yields no date (the real generator walks to date.max and raises OverflowError) *)
Lemma dead_schedule_no_date W wd0 d : sched_live W = false -> next_day W wd0 7 d = None.
Proof.
  intros H. destruct (next_day W wd0 7 d) as [d'|] eqn:E; [|reflexivity]. exfalso.
  destruct (next_day_spec _ _ _ _ _ E) as [_ Hl]. unfold sched_live in H.
  assert (Hex : existsb (fun k => match lookup k W with Some _ => true | None => false end) [0; 1; 2; 3; 4; 5; 6] = true).
  { apply existsb_exists. exists (weekday wd0 d'). split; [apply in_week, weekday_range|].
    destruct (lookup (weekday wd0 d') W); [reflexivity|congruence]. }
  congruence.
Qed.

(** * The constants *)
Lemma tables_ok_canon C : reboot_tables_ok C = true -> C = rconst_canon.
Proof.
  destruct C as [u m [[h mi] s] dd]. unfold reboot_tables_ok, rconst_canon. cbn. intros H.
  repeat (apply andb_prop in H; destruct H as [H ?]). f_equal; try lia. f_equal; [f_equal|]; lia.
Qed.

Lemma tables_ok_arith C : reboot_tables_ok C = true ->
  0 <= rc_min C <= rc_uptime C /\ rc_min C + 691199 <= rc_uptime C /\ 0 <= rc_uptime C /\
  rc_uptime C = 21 * 86400 /\ rc_min C = 86400.
Proof. intros H. rewrite (tables_ok_canon C H). cbn. lia. Qed.

Lemma default_sched_ok C : reboot_tables_ok C = true -> sched_ok (default_sched C) = true.
Proof. intros H. rewrite (tables_ok_canon C H). reflexivity. Qed.

Definition sched_given_ok (W : sched) : bool := match W with [] => true | _ => sched_ok W end.

Lemma eff_sched_ok C W : reboot_tables_ok C = true -> sched_given_ok W = true -> sched_ok (eff_sched C W) = true.
Proof. intros H HW. destruct W as [|x W]; [apply default_sched_ok; exact H|exact HW]. Qed.

(** * States a Partition object goes through *)
Inductive reach (C : rconst) (ds : nat -> Z) : Z -> part -> Prop :=
  | R_init fuel now p : init C ds fuel now = TOk p -> reach C ds now p
  | R_tick fuel now0 now p p' : reach C ds now0 p -> tick C ds fuel now p = TOk p' -> reach C ds now p'
  | R_add now s up ts p v p' : reach C ds now p -> add C s up ts p = Some (v, p') -> reach C ds now p'
  | R_remove now s p : reach C ds now p -> reach C ds now (remove s p).

Lemma Current_nonempty C now p : Current C now p -> p_buckets p <> [].
Proof. intros (pre & tl & Hm & _) E. unfold tss in Hm. rewrite E in Hm. destruct pre; discriminate. Qed.

Lemma Inv_part0 ds now : Inv ds (part0 now).
Proof. exists 0%nat. cbn. split; [reflexivity|]. split; [reflexivity|congruence]. Qed.

(** every state is sorted, consecutive in the date stream, current for the time of the last tick and set-like *)
Theorem reach_inv C ds : StrictInc ds -> 0 <= rc_uptime C -> forall now p, reach C ds now p ->
  Inv ds p /\ Current C now p /\ SetLike p.
Proof.
  intros Hinc HD now p H. induction H as [fuel now p H|fuel now0 now p p' _ IH H|now s up ts p v p' _ IH H|now s p _ IH].
  - unfold init in H.
    assert (Hst : p_buckets (part0 now) <> [] \/ p_last (part0 now) <= now + rc_uptime C) by (right; cbn; lia).
    destruct (tick_spec C ds now fuel (part0 now) p Hinc HD (Inv_part0 ds now) Hst H)
      as (HI & Hc & _ & _ & _ & Hnew & _).
    split; [exact HI|]. split; [exact Hc|]. intros b Hb. destruct (Hnew _ Hb) as [[]|E]. rewrite E. constructor.
  - destruct IH as (HI0 & Hc0 & HS0).
    destruct (tick_spec C ds now fuel p p' Hinc HD HI0 (or_introl (Current_nonempty _ _ _ Hc0)) H)
      as (HI & Hc & _ & _ & _ & Hnew & _).
    split; [exact HI|]. split; [exact Hc|]. intros b Hb. destruct (Hnew _ Hb) as [Hin|E]; [exact (HS0 _ Hin)|].
    rewrite E. constructor.
  - destruct IH as (HI0 & Hc0 & HS0). destruct (add_tss _ _ _ _ _ _ _ H) as (E1 & E2 & E3).
    split; [exact (Inv_eq _ _ _ E1 E2 E3 HI0)|]. split; [exact (Current_eq _ _ _ _ E1 Hc0)|].
    exact (add_setlike _ _ _ _ _ _ _ H HS0).
  - destruct IH as (HI0 & Hc0 & HS0). destruct (remove_tss s p) as (E1 & E2 & E3).
    split; [exact (Inv_eq _ _ _ E1 E2 E3 HI0)|]. split; [exact (Current_eq _ _ _ _ E1 Hc0)|].
    exact (remove_setlike _ _ HS0).
Qed.

(** no operation on a reachable state fails: add always returns, tick never raises IndexError *)
Theorem reach_total C ds now p : StrictInc ds -> 0 <= rc_uptime C -> reach C ds now p ->
  (forall s up ts, exists v p', add C s up ts p = Some (v, p')) /\
  (forall fuel now', tick C ds fuel now' p <> TIndex) /\
  (forall fuel now', (fuel_bound C ds now' p <= fuel)%nat -> exists p', tick C ds fuel now' p = TOk p').
Proof.
  intros Hinc HD H. destruct (reach_inv C ds Hinc HD now p H) as (HI & Hc & _).
  pose proof (Current_nonempty _ _ _ Hc) as Hne. split; [|split].
  - intros s up ts. apply add_total. exact Hne.
  - intros fuel now'. apply tick_no_index_error; [exact HD|exact HI|left; exact Hne].
  - intros fuel now' Hf. destruct (tick C ds fuel now' p) as [p'| |] eqn:E; [eexists; reflexivity| |].
    + exfalso. exact (tick_enough_fuel C ds now' fuel p Hinc Hf E).
    + exfalso. exact (tick_no_index_error C ds now' fuel p HD HI (or_introl Hne) E).
Qed.

(** * With the source's constants *)
Theorem reach_no_early_reboot C ds now p s up ts v p' :
  reboot_tables_ok C = true -> StrictInc ds -> reach C ds now p ->
  up + rc_min C <= now + rc_uptime C ->
  explicit_idx ts (p_buckets p) = None ->
  add C s up ts p = Some (v, p') ->
  up + rc_min C <= v.
Proof.
  intros HT Hinc Hr Hup He H. destruct (tables_ok_arith C HT) as (H1 & _ & H3 & _).
  destruct (reach_inv C ds Hinc H3 now p Hr) as (_ & Hc & _).
  exact (no_early_reboot C now s up ts p v p' H1 Hc Hup He H).
Qed.

(** a Partition built from a weekly schedule (or the default one): every server that is not overdue and was
    booted no later than 20 days from now gets a reboot time between 1 and 21 days after its boot *)
Theorem sched_window C W wd0 tz d0 now p s up ts v p' :
  reboot_tables_ok C = true -> sched_given_ok W = true ->
  reach C (sched_ds (eff_sched C W) wd0 tz d0) now p ->
  overdue C up (p_buckets p) = false ->
  up + rc_min C <= now + rc_uptime C ->
  explicit_idx ts (p_buckets p) = None ->
  add C s up ts p = Some (v, p') ->
  up + rc_min C <= v <= up + rc_uptime C.
Proof.
  intros HT HW Hr Ho Hup He H. destruct (tables_ok_arith C HT) as (_ & H2 & H3 & _).
  pose proof (eff_sched_ok C W HT HW) as Hok. unfold sched_ok in Hok. apply andb_prop in Hok. destruct Hok as [Hl Ht].
  pose proof (sched_ds_inc (eff_sched C W) wd0 tz Hl Ht d0) as Hinc.
  pose proof (sched_ds_gap (eff_sched C W) wd0 tz Hl Ht d0) as Hgap.
  destruct (reach_inv C _ Hinc H3 now p Hr) as (HI & Hc & _).
  exact (window_guaranteed C _ 691199 now s up ts p v p' Hgap H2 HI Hc Ho Hup He H).
Qed.

Theorem sched_reach_inv C W wd0 tz d0 now p :
  reboot_tables_ok C = true -> sched_given_ok W = true ->
  reach C (sched_ds (eff_sched C W) wd0 tz d0) now p ->
  StronglySorted Z.lt (tss p) /\ Current C now p /\ SetLike p /\
  (forall s up ts, exists v p', add C s up ts p = Some (v, p')) /\
  (forall fuel now', tick C (sched_ds (eff_sched C W) wd0 tz d0) fuel now' p <> TIndex) /\
  (forall fuel now', (fuel_bound C (sched_ds (eff_sched C W) wd0 tz d0) now' p <= fuel)%nat ->
     exists p', tick C (sched_ds (eff_sched C W) wd0 tz d0) fuel now' p = TOk p').
Proof.
  intros HT HW Hr. destruct (tables_ok_arith C HT) as (_ & _ & H3 & _).
  pose proof (eff_sched_ok C W HT HW) as Hok. unfold sched_ok in Hok. apply andb_prop in Hok. destruct Hok as [Hl Ht].
  pose proof (sched_ds_inc (eff_sched C W) wd0 tz Hl Ht d0) as Hinc.
  destruct (reach_inv C _ Hinc H3 now p Hr) as (HI & Hc & HS).
  destruct (reach_total C _ now p Hinc H3 Hr) as (Ha & Hb & Hd).
  split; [exact (Inv_sorted _ _ Hinc HI)|]. repeat split; assumption.
Qed.
