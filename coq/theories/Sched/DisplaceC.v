(** C07 for a whole cycle: the partition queues are run one after the other; the turn order of the cycle is the
    concatenation of the queues. *)
From Coq Require Import ZArith QArith List Bool Lia Relations Permutation.
From RecordUpdate Require Import RecordSet.
From TM Require Import Sched.Vec Sched.Types Sched.Queue Sched.Tree Sched.Cycle Sched.Steps Sched.MapsP Sched.FrameP
                       Sched.InvAcct Sched.InvAff Sched.InvIdent Sched.QueueP Sched.MergeOrderP Sched.TurnP Sched.CycleP
                       Sched.KeepP Sched.DisplaceP.
Import ListNotations.
Open Scope Z_scope.

(** the turns of a cycle, in order *)
Definition turns (qs : list (Z * list entry)) : list Z := concat (map (fun lq => map e_app (snd lq)) qs).
Lemma turns_app a b : turns (a ++ b) = turns a ++ turns b.
Proof. unfold turns. rewrite map_app, concat_app. reflexivity. Qed.

(** the accumulated queue list only grows at the end *)
Lemma sched_fold_acc ch : forall l cc qs,
  fold_left (sched_F ch) l (cc, qs) =
  (fst (fold_left (sched_F ch) l (cc, [])), qs ++ snd (fold_left (sched_F ch) l (cc, []))).
Proof.
  induction l as [|p r IH]; intros cc qs; cbn [fold_left]; [rewrite app_nil_r; reflexivity|].
  unfold sched_F at 2 4 6. destruct (aget (fst p) (c_parts cc)) as [top|]; [|apply IH].
  destruct (schedule_alloc cc (fst p) top ch) as [cc' q].
  rewrite (IH cc' (qs ++ [(fst p, q)])), (IH cc' ([] ++ [(fst p, q)])). cbn [fst snd List.app]. rewrite <- app_assoc. reflexivity.
Qed.

Lemma sched_fold_ps ch : forall l cc qs, psteps cc (fst (fold_left (sched_F ch) l (cc, qs))).
Proof.
  induction l as [|p r IH]; intros cc qs; cbn [fold_left]; [apply ps_refl|].
  unfold sched_F at 2. destruct (aget (fst p) (c_parts cc)) as [top|]; [|apply IH].
  pose proof (schedule_alloc_ps cc (fst p) top ch) as Hs. destruct (schedule_alloc cc (fst p) top ch) as [cc' q]. cbn [fst] in Hs.
  eapply ps_trans; [exact Hs|apply IH].
Qed.

Lemma AMI_psteps c c' : psteps c c' -> AMI c -> AMI c'.
Proof.
  intros Hp (HA & HM & HI). split; [eapply Acct_psteps; eassumption|]. split; [eapply Mem_psteps; eassumption|eapply Ident_psteps; eassumption].
Qed.

(** the queue of a partition lists exactly the existing instances of its tree *)
Lemma partition_queue_names cc label top z :
  In z (map e_app (partition_queue cc label top)) <-> In z (all_apps top) /\ app_of cc z <> None.
Proof.
  unfold partition_queue. destruct (cell_size cc label) as [sz keps].
  pose proof (util_queue_perm (c_dim cc) sz keps (c_apps cc) top) as Hp.
  rewrite lookup_apps_names_filter in Hp. split.
  - intros H. apply (Permutation_in _ Hp) in H. apply filter_In in H as [H1 H2]. split; [exact H1|].
    unfold app_of. destruct (get_app z (c_apps cc)); [discriminate|discriminate].
  - intros [H1 H2]. apply (Permutation_in _ (Permutation_sym Hp)). apply filter_In. split; [exact H1|].
    unfold app_of in H2. destruct (get_app z (c_apps cc)); [reflexivity|contradiction].
Qed.
Lemma partition_queue_nodup cc label top : NoDup (all_apps top) -> NoDup (map e_app (partition_queue cc label top)).
Proof.
  intros Hnd. unfold partition_queue. destruct (cell_size cc label) as [sz keps].
  eapply Permutation_NoDup; [symmetry; apply util_queue_perm|]. rewrite lookup_apps_names_filter. apply NoDup_filter. exact Hnd.
Qed.

(** every existing instance of the partitions run so far has had a turn *)
Lemma sched_fold_turns ch P : forall l cc,
  c_parts cc = P -> (forall p, In p l -> aget (fst p) P = Some (snd p)) ->
  forall z, In z (part_apps l) -> app_of cc z <> None -> In z (turns (snd (fold_left (sched_F ch) l (cc, [])))).
Proof.
  induction l as [|p r IH]; intros cc HP Hget z Hin Hex; [destruct Hin|].
  cbn [fold_left]. unfold sched_F at 2. rewrite HP, (Hget p (or_introl eq_refl)).
  pose proof (schedule_alloc_ps cc (fst p) (snd p) ch) as Hps.
  assert (Hq : snd (schedule_alloc cc (fst p) (snd p) ch) = partition_queue cc (fst p) (snd p)) by reflexivity.
  destruct (schedule_alloc cc (fst p) (snd p) ch) as [cc' q]. cbn [fst snd] in *. subst q.
  rewrite sched_fold_acc. cbn [snd]. rewrite turns_app. apply in_or_app.
  unfold part_apps in Hin. cbn [flat_map] in Hin. apply in_app_or in Hin.
  destruct Hin as [Hin|Hin].
  - left. unfold turns. cbn [List.app map concat snd]. rewrite app_nil_r. apply partition_queue_names. split; assumption.
  - right. apply IH.
    + destruct (psteps_static _ _ Hps) as (_ & E & _). congruence.
    + intros p0 H0. apply Hget. right. exact H0.
    + exact Hin.
    + intros E. apply Hex. destruct (app_of cc z) eqn:Ez; [|reflexivity].
      destruct (psteps_stat _ _ Hps z a Ez) as (a' & Ha' & _). congruence.
Qed.

Lemma NoDup_app_disj {A} (l1 l2 : list A) : NoDup (l1 ++ l2) -> forall y, In y l1 -> ~ In y l2.
Proof.
  induction l1 as [|h t IH]; intros Hnd y Hy; [destruct Hy|]. cbn [List.app] in Hnd. inversion Hnd as [|? ? Hn Ht]; subst.
  destruct Hy as [->|Hy]; [intros H; apply Hn, in_or_app; right; exact H|exact (IH Ht y Hy)].
Qed.
Lemma part_apps_app l1 l2 : part_apps (l1 ++ l2) = part_apps l1 ++ part_apps l2.
Proof. unfold part_apps. apply flat_map_app. Qed.
Lemma rank_eq_keeps_r a b : rank_eq a b -> keeps_r a b.
Proof. intros (H1 & H2 & H3 & H4 & H5 & H6). split; [exact H1|]. repeat split; try assumption. intros E. congruence. Qed.

Lemma schedule_fst c ch : fst (schedule c ch) = fold_left (sched_F ch) (c_parts (pre_phases c)) (pre_phases c, []).
Proof. unfold schedule. fold (sched_F ch). destruct (fold_left (sched_F ch) (c_parts (pre_phases c)) (pre_phases c, [])) as [c1 qs]. reflexivity. Qed.

Section Cycle.
  Variables (c : cell) (ch : list (Z * Z)) (x : Z) (a : app) (n : Z) (s : server).
  Hypothesis HA : Acct c.
  Hypothesis HF : Aff c.
  Hypothesis HI : Ident c.
  Hypothesis Hwf : parts_wf c.
  Hypothesis Hin : In x (part_apps (c_parts c)).
  Hypothesis HP : prot c x a n s.
  Hypothesis Hren : a_renew a = false.
  Hypothesis Hid : has_id a.
  Hypothesis Hlab : forall l, app_label a = Some l -> l = s_label s.
  Hypothesis Htr : app_traits c a = 0 \/ has_traits (s_traits s) (app_traits c a) = true.
  Hypothesis Hrank : forall label q e, In (label, q) (snd (fst (schedule c ch))) -> In e q -> e_app e = x -> e_rank e <> UNPLACED_RANK.

  Theorem schedule_displaced :
    (exists a', app_of (fst (fst (schedule c ch))) x = Some a' /\ a_server a' = Some n) \/
    (exists z az bz l1 l2 l3,
        turns (snd (fst (schedule c ch))) = l1 ++ z :: l2 ++ x :: l3 /\
        app_of c z = Some az /\ a_server az <> Some n /\
        app_of (fst (fst (schedule c ch))) z = Some bz /\ a_server bz = Some n).
  Proof.
    destruct HP as [P1 P2 P3 P4 P5 P6 P7].
    destruct (pre_phases_keeps c x a n s HA P1 P2 P3 P4 P5 P6 P7) as [Hp0 Hx0].
    destruct (pre_phases_spec c HA HI) as (Hami0 & Hat & _ & _).
    set (cc0 := pre_phases c) in *.
    assert (HP0 : c_parts cc0 = c_parts c) by (destruct (psteps_static _ _ Hp0) as (_ & E & _); exact E).
    destruct Hwf as [Hlabels Hndp].
    pose proof (aget_nodup _ Hlabels) as Hget.
    unfold part_apps in Hin. apply in_flat_map in Hin. destruct Hin as (p & Hp & Hxp).
    destruct (in_split _ _ Hp) as (Pre & Post & Hsplit).
    rewrite Hsplit in Hndp. rewrite part_apps_app in Hndp. change (p :: Post) with ([p] ++ Post) in Hndp. rewrite part_apps_app in Hndp.
    assert (Hp1 : part_apps [p] = all_apps (snd p)) by (unfold part_apps; cbn [flat_map]; apply app_nil_r). rewrite Hp1 in Hndp.
    assert (HndPre : NoDup (part_apps Pre)) by (eapply NoDup_app_l; exact Hndp).
    assert (Hnd23 : NoDup (all_apps (snd p) ++ part_apps Post)) by (eapply NoDup_app_r; exact Hndp).
    assert (Hndp' : NoDup (all_apps (snd p))) by (eapply NoDup_app_l; exact Hnd23).
    assert (HndPost : NoDup (part_apps Post)) by (eapply NoDup_app_r; exact Hnd23).
    assert (Hd_pre : forall y, In y (part_apps Pre) -> ~ In y (all_apps (snd p)) /\ ~ In y (part_apps Post)).
    { intros y Hy. pose proof (NoDup_app_disj _ _ Hndp y Hy) as H. split; intros H'; apply H, in_or_app; [left|right]; exact H'. }
    assert (Hd_p : forall y, In y (all_apps (snd p)) -> ~ In y (part_apps Post)) by (apply NoDup_app_disj; exact Hnd23).
    assert (HgetPre : forall p0, In p0 Pre -> aget (fst p0) (c_parts c) = Some (snd p0)) by (intros p0 H0; apply Hget; rewrite Hsplit; apply in_or_app; left; exact H0).
    assert (HgetPost : forall p0, In p0 Post -> aget (fst p0) (c_parts c) = Some (snd p0)) by (intros p0 H0; apply Hget; rewrite Hsplit; apply in_or_app; right; right; exact H0).
    (* unfold the cycle *)
    rewrite schedule_fst in Hrank |- *. fold cc0 in Hrank |- *. rewrite HP0 in Hrank |- *.
    rewrite Hsplit in Hrank |- *. rewrite fold_left_app in Hrank |- *. cbn [fold_left] in Hrank |- *.
    (* stage 1: the partitions before *)
    pose proof (sched_fold_ps ch Pre cc0 []) as Hps1.
    pose proof (sched_fold_spec ch (c_parts c) Pre cc0 [] Hami0 HP0 HgetPre HndPre) as Hspec1.
    pose proof (sched_fold_turns ch (c_parts c) Pre cc0 HP0 HgetPre) as Hturns1.
    destruct (fold_left (sched_F ch) Pre (cc0, [])) as [cc1 qs1] eqn:E1. cbn [fst snd] in *.
    assert (Hami1 : AMI cc1) by exact (AMI_psteps _ _ Hps1 Hami0).
    assert (HP1 : c_parts cc1 = c_parts c) by (destruct (psteps_static _ _ Hps1) as (_ & E & _); congruence).
    assert (Hx_pre : ~ In x (part_apps Pre)) by (intros H; exact (proj1 (Hd_pre x H) Hxp)).
    destruct (proj1 (Hspec1 x a Hx0) Hx_pre) as (a1 & Ha1 & Hr1).
    (* stage 2: its own partition *)
    set (qi := partition_queue cc1 (fst p) (snd p)) in *.
    set (c1' := record_ranks cc1 qi) in *.
    set (cc2 := find_placements c1' (map e_app qi) ch) in *.
    assert (HF2 : sched_F ch (cc1, qs1) p = (cc2, qs1 ++ [(fst p, qi)])).
    { unfold sched_F. rewrite HP1, (Hget p Hp). reflexivity. }
    rewrite HF2 in Hrank |- *.
    assert (Hxq : In x (map e_app qi)) by (apply partition_queue_names; split; [exact Hxp|congruence]).
    destruct (in_split _ _ Hxq) as (pre0 & post0 & Hq).
    assert (Hndq : NoDup (map e_app qi)) by (apply partition_queue_nodup; exact Hndp').
    destruct (record_ranks_rank qi cc1 x a1 Ha1) as (a2 & Ha2 & Hr2 & Hw). fold c1' in Ha2.
    assert (Hps1' : psteps cc1 c1') by apply record_ranks_ps.
    assert (Hpc1' : psteps c c1') by (eapply ps_trans; [exact Hp0|eapply ps_trans; eassumption]).
    assert (Hami1' : AMI c1') by exact (AMI_psteps _ _ Hps1' Hami1).
    assert (Hps2 : psteps c1' cc2) by apply find_placements_ps.
    assert (Hami2 : AMI cc2) by exact (AMI_psteps _ _ Hps2 Hami1').
    assert (HP2 : c_parts cc2 = c_parts c).
    { destruct (psteps_static _ _ Hps2) as (_ & E & _). destruct (psteps_static _ _ Hps1') as (_ & E' & _). congruence. }
    pose proof (rank_eq_trans _ _ _ Hr1 Hr2) as Hr02.
    (* stage 3: the partitions after *)
    pose proof (sched_fold_spec ch (c_parts c) Post cc2 (qs1 ++ [(fst p, qi)]) Hami2 HP2 HgetPost HndPost) as Hspec3.
    rewrite (sched_fold_acc ch Post cc2 (qs1 ++ [(fst p, qi)])) in Hrank |- *.
    rewrite (sched_fold_acc ch Post cc2 (qs1 ++ [(fst p, qi)])) in Hspec3.
    destruct (fold_left (sched_F ch) Post (cc2, [])) as [c3 qs3] eqn:E3. cbn [fst snd] in *.
    assert (Hrk2 : a_rank a2 <> UNPLACED_RANK).
    { destruct Hw as [[Hni _]|(e & Hine & Hex & Hrk)]; [contradiction|]. rewrite Hrk.
      apply (Hrank (fst p) qi e); [apply in_or_app; left; apply in_or_app; right; left; reflexivity|exact Hine|exact Hex]. }
    assert (Hren2 : a_renew a2 = false) by (destruct Hr02 as (_ & _ & _ & _ & _ & E); congruence).
    (* the turn order *)
    assert (Hturns : turns ((qs1 ++ [(fst p, qi)]) ++ qs3) = turns qs1 ++ (pre0 ++ x :: post0) ++ turns qs3).
    { rewrite !turns_app. unfold turns at 2. cbn [map concat snd]. rewrite app_nil_r, Hq, <- app_assoc. reflexivity. }
    destruct (find_placements_displaced c c1' (map e_app qi) pre0 post0 ch x a a2 n s Hq Hndq Hpc1' HA HF HI P1 P2 P3 Ha2
                (rank_eq_keeps_r _ _ Hr02) P4 Hren2 Hrk2 Hid Hlab Htr)
      as [(a' & Ha' & Hsv')|(z & az & bz & Hzx & Haz & Hnaz & Hsbz & Hwhere)]; [fold cc2 in Ha'|fold cc2 in Hwhere].
    - (* still there after its own queue; the later partitions do not touch it *)
      left. destruct (proj1 (Hspec3 x a' Ha') (Hd_p x Hxp)) as (a3 & Ha3 & (_ & Hs3 & _)).
      exists a3. split; [exact Ha3|congruence].
    - right.
      assert (Hfinal : forall b, app_of cc2 z = Some b -> a_server b = Some n -> ~ In z (part_apps Post) ->
                exists b3, app_of c3 z = Some b3 /\ a_server b3 = Some n).
      { intros b Hb Hsb Hni. destruct (proj1 (Hspec3 z b Hb) Hni) as (b3 & Hb3 & (_ & Hs3 & _)). exists b3. split; [exact Hb3|congruence]. }
      destruct Hwhere as [[Hzpre Hbz]|[Hzpre Hbz]].
      + (* ahead of it in its own queue *)
        assert (Hzq : In z (map e_app qi)) by (rewrite Hq; apply in_or_app; left; exact Hzpre).
        apply partition_queue_names in Hzq. destruct Hzq as [Hzp _].
        destruct (Hfinal bz Hbz Hsbz (Hd_p z Hzp)) as (b3 & Hb3 & Hs3).
        destruct (in_split _ _ Hzpre) as (p1 & p2 & Hpre0).
        exists z, az, b3, (turns qs1 ++ p1), p2, (post0 ++ turns qs3).
        split; [rewrite Hturns, Hpre0; rewrite <- ?app_assoc; cbn [List.app]; rewrite <- ?app_assoc; reflexivity|].
        split; [exact Haz|]. split; [exact Hnaz|]. split; assumption.
      + (* placed by a partition that ran before *)
        assert (Hz_pre : In z (part_apps Pre)).
        { destruct (in_dec Z.eq_dec z (part_apps Pre)) as [H|H]; [exact H|exfalso].
          destruct (Hat z az Haz) as (az0 & Haz0 & (_ & _ & Hsv0)).
          destruct (proj1 (Hspec1 z az0 Haz0) H) as (az1 & Haz1 & Hrz1).
          destruct (record_ranks_spec qi cc1 z az1 Haz1) as (az2 & Haz2 & Hrz2). fold c1' in Haz2.
          rewrite Hbz in Haz2. inversion Haz2; subst az2.
          destruct Hrz1 as (_ & S1 & _). destruct Hrz2 as (_ & S2 & _).
          destruct Hsv0 as [[S0 _]|[S0 _]]; congruence. }
        destruct (Hd_pre z Hz_pre) as [Hz_np Hz_npost].
        assert (Hz_ex : app_of cc0 z <> None) by (destruct (Hat z az Haz) as (az0 & Haz0 & _); congruence).
        pose proof (Hturns1 z Hz_pre Hz_ex) as Hzt.
        assert (Hz_nq : ~ In z (map e_app qi)) by (intros H; apply partition_queue_names in H; exact (Hz_np (proj1 H))).
        destruct Hami1' as (HA1' & HM1' & HI1').
        assert (Hbz2 : app_of cc2 z = Some bz) by (unfold cc2; rewrite find_placements_frame; assumption).
        destruct (Hfinal bz Hbz2 Hsbz Hz_npost) as (b3 & Hb3 & Hs3).
        destruct (in_split _ _ Hzt) as (t1 & t2 & Ht).
        exists z, az, b3, t1, (t2 ++ pre0), (post0 ++ turns qs3).
        split; [rewrite Hturns, Ht; rewrite <- ?app_assoc; cbn [List.app]; rewrite <- ?app_assoc; reflexivity|].
        split; [exact Haz|]. split; [exact Hnaz|]. split; assumption.
  Qed.
End Cycle.
