(** The event alphabet of the scheduler model (mirrors the public methods of
    Cell / Bucket / Server / Allocation / Application that Loader and Master use),
    histories, and the canonical state dump used by the correspondence check.
    Model file: no proofs. *)
From Coq Require Import ZArith QArith List Bool.
From RecordUpdate Require Import RecordSet.
From TM Require Import Sched.Vec Sched.Types Sched.Queue Sched.Tree Sched.Cycle.
Import ListNotations.
Open Scope Z_scope.

Inductive op :=
| OAddBucket (name level parent : Z)
| OAddServer (name parent : Z) (cap : vec) (label traits valid_until : Z)
| ORemoveServer (name : Z) (raw : bool)        (* raw: parent.remove_node only; else Loader.remove_server (remove_all first) *)
| OMoveServer (name newparent : Z)              (* topology change: the server keeps its instances *)
| OSetState (name : Z) (st : sstate) (since : Z)
| OSetValidUntil (name t : Z)
| OAddApp (label : Z) (path : list Z) (a : app) (* cell.add_app: new instance, or an existing one (re)assigned *)
| ORemoveApp (name : Z)
| OSetPrio (name p : Z)
| OSetDrt (name : Z) (t : option Z)
| OSetBlacklisted (name : Z) (b : bool)
| OSetRenew (name : Z)
| OSetUnschedule (name : Z)
| OUpdateAlloc (label : Z) (path : list Z) (reserved : vec) (rank adj : Z) (maxu : option Q) (traits : Z)
| OConfigGroup (name count : Z)
| ORemoveGroup (name : Z)
| OTick (now : Z)
| OSchedule (choices : list (Z * Z))
| ORestore (sname aname : Z) (verbatim : bool) (expires : Z) (ident : option Z).
  (* Loader.restore_placement, one recorded instance: Server.restore (verbatim) or Server.put, then
     force_set_identity; a schedule-once instance that could not be put back is removed *)

Definition init_cell (dim : nat) (root level : Z) : cell :=
  mkCell dim root [] [mkBucket root None level [] (vzero dim) 0 [] [] [] []] [] [] [] 0.

Definition top_alloc (dim : nat) : alloc := Alloc (vzero dim) 100 0 0 None [] [].

Definition ensure_part (c : cell) (label : Z) : cell :=
  match aget label (c_parts c) with
  | Some _ => c
  | None => c <| c_parts ::= aset label (top_alloc (c_dim c)) |>
  end.
Definition upd_alloc (c : cell) (label : Z) (path : list Z) (f : alloc -> alloc) : cell :=
  let c1 := ensure_part c label in
  c1 <| c_parts ::= (fun ps => match aget label ps with
                               | Some top => aset label (alloc_update (c_dim c) top path f) ps
                               | None => ps
                               end) |>.

Definition ensure_group (c : cell) (g : option Z) : cell :=
  match g with
  | None => c
  | Some n => match aget n (c_groups c) with
              | Some _ => c
              | None => c <| c_groups ::= aset n (mkGroup 0 []) |>
              end
  end.

(** Cell.add_app *)
Definition add_app (c : cell) (label : Z) (path : list Z) (a : app) : cell :=
  match get_app (a_name a) (c_apps c) with
  | Some old =>
      (* existing instance: leave the old allocation queue, join the new one; every other attribute stays *)
      let c1 := match a_alloc old with
                | Some (l0, p0) => upd_alloc c l0 p0 (alloc_del_app (a_name a))
                | None => c
                end in
      let c2 := upd_alloc c1 label path (alloc_add_app (a_name a)) in
      ensure_group (c_upd_app (a_name a) (fun x => x <| a_alloc := Some (label, path) |>) c2) (a_group old)
  | None =>
      let c1 := upd_alloc c label path (alloc_add_app (a_name a)) in
      ensure_group (c1 <| c_apps ::= (fun l => l ++ [a <| a_alloc := Some (label, path) |>]) |>) (a_group a)
  end.

(** Cell.remove_app *)
Definition remove_app (c : cell) (n : Z) : cell :=
  match get_app n (c_apps c) with
  | None => c
  | Some a =>
      let c1 := match a_server a with
                | Some sn => if is_member c sn then srv_remove c sn n else c
                | None => c
                end in
      let c2 := match a_alloc a with
                | Some (l0, p0) => upd_alloc c1 l0 p0 (alloc_del_app n)
                | None => c1
                end in
      let c3 := release_identity c2 n in
      c3 <| c_apps ::= del_app n |>
  end.

(** Cell.configure_identity_group / remove_identity_group *)
Definition config_group (c : cell) (g count : Z) : cell :=
  match aget g (c_groups c) with
  | None => c <| c_groups ::= aset g (mkGroup count (zrange 0 count)) |>
  | Some grp =>
      (* adjust, then discard every identity still held by an instance of the group *)
      let g1 := group_adjust grp count in
      let held := flat_map (fun a => match a_group a, a_identity a with
                                     | Some g', Some i => if Z.eqb g' g then [i] else []
                                     | _, _ => []
                                     end) (c_apps c) in
      c <| c_groups ::= aset g (mkGroup (g_count g1) (filter (fun i => negb (zmem i held)) (g_avail g1))) |>
  end.
Definition remove_group (c : cell) (g : Z) : cell :=
  match aget g (c_groups c) with
  | None => c
  | Some grp =>
      if existsb (fun a => match a_group a with Some g' => Z.eqb g' g | None => false end) (c_apps c)
      then c <| c_groups ::= aset g (group_adjust grp 0) |>
      else c <| c_groups ::= adel g |>
  end.

Definition new_server (c : cell) (name parent : Z) (cap : vec) (label traits valid_until : Z) : server :=
  mkServer name (Some parent) cap cap [] Up (c_now c) label traits valid_until [].

(** Application.force_set_identity (the implementation asserts that the instance has an identity group) *)
Definition force_identity (c : cell) (aname : Z) (ident : option Z) : cell :=
  match ident, get_app aname (c_apps c) with
  | Some i, Some a =>
      match group_of c a with
      | Some (g, grp) =>
          c_upd_app aname (fun x => x <| a_identity := Some i |>)
                    (c <| c_groups ::= aset g (mkGroup (g_count grp) (zremove i (g_avail grp))) |>)
      | None => c
      end
  | _, _ => c
  end.

(** the placement part of Loader.restore_placement for one recorded instance *)
Definition restore_put (c : cell) (sname aname : Z) (verbatim : bool) (expires : Z) : cell * bool :=
  if verbatim then srv_restore c sname aname (Some expires)
  else match get_app aname (c_apps c) with
       | Some a => if a_once a then (c, false)
                   else match srv_put c sname aname with Some c' => (c', true) | None => (c, false) end
       | None => (c, false)
       end.

Definition restore_op (c : cell) (sname aname : Z) (verbatim : bool) (expires : Z) (ident : option Z) : cell :=
  match get_app aname (c_apps c) with
  | None => c                                   (* stale placement node: ignored *)
  | Some a =>
      let '(c1, ok) := restore_put c sname aname verbatim expires in
      if ok then force_identity c1 aname ident
      else if a_once a then remove_app c1 aname else c1
  end.

Definition step (c : cell) (o : op) : cell :=
  match o with
  | OAddBucket name level parent => add_bucket c name level (Some parent)
  | OAddServer name parent cap label traits vu => add_server c (new_server c name parent cap label traits vu)
  | ORemoveServer name raw => detach_server (if raw then c else srv_remove_all c name) name
  | OMoveServer name p => move_server c name p
  | OSetState name st since => srv_set_state c name st since
  | OSetValidUntil name t => c_upd_srv name (fun s => s <| s_valid_until := t |>) c
  | OAddApp label path a => add_app c label path a
  | ORemoveApp n => remove_app c n
  | OSetPrio n p => c_upd_app n (fun a => a <| a_prio := p |>) c
  | OSetDrt n t => c_upd_app n (fun a => a <| a_drt := t |>) c
  | OSetBlacklisted n b => c_upd_app n (fun a => a <| a_blacklisted := b |>) c
  | OSetRenew n => c_upd_app n (fun a => a <| a_renew := true |>) c
  | OSetUnschedule n => c_upd_app n (fun a => a <| a_unschedule := true |>) c
  | OUpdateAlloc label path res rank adj maxu traits =>
      upd_alloc c label path (fun al => let '(Alloc _ _ _ _ _ names subs) := al in Alloc res rank adj traits maxu names subs)
  | OConfigGroup g n => config_group c g n
  | ORemoveGroup g => remove_group c g
  | OTick now => c <| c_now := now |>
  | OSchedule choices => let '(c', _, _) := schedule c choices in c'
  | ORestore sname aname verbatim expires ident => restore_op c sname aname verbatim expires ident
  end.

Definition run (c : cell) (ops : list op) : cell := fold_left step ops c.

(** ** canonical dump *)
Definition dopt (o : option Z) : list Z := match o with None => [-1] | Some z => [1; z] end.
Definition dbool (b : bool) : Z := if b then 1 else 0.
Definition dstate (s : sstate) : Z := match s with Up => 0 | Down => 1 | Frozen => 2 end.
Definition dlist (l : list Z) : list Z := Z.of_nat (length l) :: l.

Fixpoint insert_z (x : Z) (l : list Z) : list Z :=
  match l with [] => [x] | y :: r => if Z.leb x y then x :: y :: r else y :: insert_z x r end.
Definition sort_z (l : list Z) : list Z := fold_left (fun acc x => insert_z x acc) l [].
Fixpoint insert_kv (x : Z * Z) (l : list (Z * Z)) : list (Z * Z) :=
  match l with [] => [x] | y :: r => if Z.leb (fst x) (fst y) then x :: y :: r else y :: insert_kv x r end.
Definition sort_kv (l : list (Z * Z)) : list (Z * Z) := fold_left (fun acc x => insert_kv x acc) l [].
Definition dcounters (m : list (Z * Z)) : list Z :=
  let nz := sort_kv (filter (fun kv => negb (Z.eqb (snd kv) 0)) m) in
  Z.of_nat (length nz) :: flat_map (fun kv => [fst kv; snd kv]) nz.

Definition dump_app (a : app) : list Z :=
  [a_name a; a_prio a] ++ dopt (a_server a) ++ dopt (a_identity a) ++ dopt (a_expiry a)
  ++ [dbool (a_evicted a); dbool (a_unschedule a); dbool (a_renew a); dbool (a_blacklisted a); a_rank a]
  ++ (match a_alloc a with Some (l, p) => l :: dlist p | None => [-1] end).

Definition dump_server (s : server) : list Z :=
  [s_name s; dstate (s_state s); s_since s; s_valid_until s] ++ dlist (s_free s) ++ dlist (s_apps s)
  ++ dcounters (s_counters s).

Definition dump_bucket (b : bucket) : list Z :=
  [b_name b] ++ dlist (b_free b) ++ dlist (sort_z (b_labels b)) ++ [bkt_traits b]
  ++ dcounters (b_counters b)
  ++ dcounters (map (fun kv => (fst kv, Z.of_nat (snd kv))) (b_cursors b))
  ++ dlist (map (fun o => match o with Some n => n | None => -1 end) (b_children b)).

Fixpoint insert_by {A} (key : A -> Z) (x : A) (l : list A) : list A :=
  match l with [] => [x] | y :: r => if Z.leb (key x) (key y) then x :: y :: r else y :: insert_by key x r end.
Definition sort_by {A} (key : A -> Z) (l : list A) : list A := fold_left (fun acc x => insert_by key x acc) l [].

Fixpoint dump_alloc (al : alloc) : list Z :=
  let '(Alloc res rank adj traits _ names subs) := al in
  dlist res ++ [rank; adj; traits] ++ dlist names
  ++ Z.of_nat (length subs)
     :: (fix go (l : list (Z * alloc)) : list Z :=
           match l with [] => [] | (n, s) :: r => n :: dump_alloc s ++ go r end) subs.

Definition dump_group (kv : Z * idgroup) : list Z :=
  [fst kv; g_count (snd kv)] ++ dlist (sort_z (g_avail (snd kv))).

Definition dump_cell (c : cell) : list Z :=
  [c_now c]
  ++ Z.of_nat (length (c_apps c)) :: flat_map dump_app (c_apps c)
  ++ Z.of_nat (length (c_servers c)) :: flat_map dump_server (sort_by s_name (c_servers c))
  ++ Z.of_nat (length (c_buckets c)) :: flat_map dump_bucket (sort_by b_name (c_buckets c))
  ++ Z.of_nat (length (c_groups c)) :: flat_map dump_group (sort_by (fun kv => fst kv) (c_groups c))
  ++ Z.of_nat (length (c_parts c)) :: flat_map (fun p => fst p :: dump_alloc (snd p)) (c_parts c).

Definition dump_entry (e : entry) : list Z := [e_app e; e_rank e; dbool (e_pending e)].
Definition dump_sched (qs : list (Z * list entry)) (pl : list (Z * option Z * option Z * option Z * option Z)) : list Z :=
  flat_map (fun q => fst q :: Z.of_nat (length (snd q)) :: flat_map dump_entry (snd q)) qs
  ++ flat_map (fun t => let '(n, sb, eb, sa, ea) := t in n :: dopt sb ++ dopt eb ++ dopt sa ++ dopt ea) pl.

(** polynomial digest so that one number per step is compared *)
Definition HP : Z := 2305843009213693951.    (* 2^61 - 1 *)
Definition digest (l : list Z) : Z := fold_left (fun h x => (h * 1000003 + (x mod HP) + 7) mod HP) l 17.

(** one observation per op: digest of the dump after the op (plus queue and placement tuples for a cycle) *)
Fixpoint run_obs (c : cell) (ops : list op) : list Z :=
  match ops with
  | [] => []
  | OSchedule choices :: r =>
      let '(c', qs, pl) := schedule c choices in
      digest (dump_sched qs pl ++ dump_cell c') :: run_obs c' r
  | o :: r => let c' := step c o in digest (dump_cell c') :: run_obs c' r
  end.

Definition run_case (x : nat * Z * Z * list op) : list Z :=
  let '(dim, root, level, ops) := x in run_obs (init_cell dim root level) ops.
(** full dumps, for diagnostics *)
Fixpoint run_dumps (c : cell) (ops : list op) : list (list Z) :=
  match ops with
  | [] => []
  | OSchedule choices :: r =>
      let '(c', qs, pl) := schedule c choices in (dump_sched qs pl ++ dump_cell c') :: run_dumps c' r
  | o :: r => let c' := step c o in dump_cell c' :: run_dumps c' r
  end.
