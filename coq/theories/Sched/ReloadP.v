(** Loader.reload_server in terms of the operation alphabet: the server is taken out together with its instances
    (Loader.remove_server), declared again (Loader.load_server) and the placements recorded under it are put back
    (Loader.restore_placement with restore_identity=False).  The side conditions of [reachable] for this sequence of
    operations follow from the call site: the new record has vectors of the cell's dimension, and the recorded
    placements are those of instances that were on the server (what is published is what the model holds, C09).
    Hence the invariants of every reachable state hold after a reload (C01 accounting, C05 identities, ...). *)
From Coq Require Import ZArith QArith List Bool Lia.
From RecordUpdate Require Import RecordSet.
From TM Require Import Sched.Vec Sched.Types Sched.Queue Sched.Tree Sched.Cycle Sched.Events Sched.Steps Sched.MapsP
                       Sched.FrameP Sched.InvAcct Sched.InvIdent Sched.TurnP Sched.CycleP Sched.InvAlloc Sched.InvIdRec
                       Sched.KeepP Sched.Reach.
Import ListNotations.
Open Scope Z_scope.

(** ** Server.remove on the instance records *)
Lemma srv_remove_rec c sn v m a' : app_of (srv_remove c sn v) m = Some a' ->
  exists a, app_of c m = Some a /\ a_group a' = a_group a /\ a_identity a' = a_identity a /\
            (a_server a' = a_server a \/ a_server a' = None).
Proof.
  intros H. destruct (Z.eq_dec m v) as [->|Hne].
  - unfold srv_remove in H. destruct (get_srv sn (c_servers c)) as [s|] eqn:Es; [|exists a'; auto].
    destruct (app_of c v) as [a|] eqn:Ea.
    2:{ unfold app_of in Ea. rewrite Ea in H. unfold app_of in H. rewrite Ea in H. discriminate. }
    unfold app_of in Ea. rewrite Ea in H. destruct (zmem v (s_apps s)) eqn:Em; cbn [negb] in H.
    + apply zmem_In in Em. pose proof (srv_remove_self c sn v s a Es Ea Em) as Hr.
      unfold srv_remove in Hr. rewrite Es, Ea in Hr. apply zmem_In in Em. rewrite Em in Hr. cbn [negb] in Hr.
      rewrite Hr in H. inversion H; subst a'. exists a. cbn. auto.
    + unfold app_of in H. rewrite Ea in H. inversion H; subst a'. exists a. auto.
  - destruct (srv_remove_frame c sn v) as [_ Hf]. unfold app_of in *. rewrite Hf in H by exact Hne. exists a'. auto.
Qed.

Lemma fold_remove_rec sn l : forall c m a', app_of (fold_left (fun acc n => srv_remove acc sn n) l c) m = Some a' ->
  exists a, app_of c m = Some a /\ a_group a' = a_group a /\ a_identity a' = a_identity a /\
            (a_server a' = a_server a \/ a_server a' = None).
Proof.
  induction l as [|x r IH]; intros c m a' H; cbn [fold_left] in H; [exists a'; auto|].
  destruct (IH _ _ _ H) as (a1 & H1 & G1 & I1 & S1). destruct (srv_remove_rec _ _ _ _ _ H1) as (a & H0 & G0 & I0 & S0).
  exists a. split; [exact H0|]. split; [congruence|]. split; [congruence|].
  destruct S1 as [S1|S1]; [|right; exact S1]. destruct S0 as [S0|S0]; [left|right]; congruence.
Qed.

(** after Server.remove_all nobody names the server *)
Lemma fold_remove_none sn l : forall c, Acct c -> get_srv sn (c_servers c) <> None ->
  (forall m a, app_of c m = Some a -> a_server a = Some sn -> In m l) ->
  forall m a', app_of (fold_left (fun acc n => srv_remove acc sn n) l c) m = Some a' -> a_server a' <> Some sn.
Proof.
  induction l as [|x r IH]; intros c HA Hex Hin m a' H; cbn [fold_left] in H.
  - intros E. exact (Hin m a' H E).
  - eapply (IH (srv_remove c sn x)); [apply Acct_srv_remove; exact HA| | |exact H].
    + destruct (get_srv sn (c_servers c)) as [s|] eqn:Es; [|contradiction].
      destruct (psteps_srv_exists _ _ _ _ (srv_remove_ps c sn x) Es) as (s' & Hs'). rewrite Hs'. discriminate.
    + intros k b Hb Hsv. destruct (Z.eq_dec k x) as [->|Hne].
      * exfalso. destruct (get_srv sn (c_servers c)) as [s|] eqn:Es; [|contradiction].
        destruct (app_of c x) as [a|] eqn:Ea.
        2:{ rewrite (psteps_none _ _ x (srv_remove_ps c sn x) Ea) in Hb. discriminate. }
        destruct (in_dec Z.eq_dec x (s_apps s)) as [Hl|Hnl].
        -- rewrite (srv_remove_self c sn x s a Es Ea Hl) in Hb. inversion Hb; subst b. cbn in Hsv. discriminate.
        -- assert (E : srv_remove c sn x = c).
           { unfold srv_remove. rewrite Es. unfold app_of in Ea. rewrite Ea.
             destruct (zmem x (s_apps s)) eqn:Em; [apply zmem_In in Em; contradiction|reflexivity]. }
           rewrite E in Hb. rewrite Ea in Hb. inversion Hb; subst b.
           apply Hnl. eapply (ac_placed _ HA); eassumption.
      * destruct (srv_remove_frame c sn x) as [_ Hf]. unfold app_of in Hb. rewrite Hf in Hb by exact Hne.
        destruct (Hin k b Hb Hsv) as [E|Hr]; [congruence|exact Hr].
Qed.

Lemma srv_remove_all_none c sn : Acct c -> get_srv sn (c_servers c) <> None ->
  forall m a', app_of (srv_remove_all c sn) m = Some a' -> a_server a' <> Some sn.
Proof.
  intros HA Hex m a' H. unfold srv_remove_all in H. destruct (get_srv sn (c_servers c)) as [s|] eqn:Es.
  - apply (fold_remove_none sn (s_apps s) c HA) with (m := m); [rewrite Es; discriminate| |exact H].
    intros k b Hb Hsv. eapply (ac_placed _ HA); eassumption.
  - contradiction.
Qed.

Lemma srv_remove_all_rec c sn m a' : app_of (srv_remove_all c sn) m = Some a' ->
  exists a, app_of c m = Some a /\ a_group a' = a_group a /\ a_identity a' = a_identity a /\
            (a_server a' = a_server a \/ a_server a' = None).
Proof.
  unfold srv_remove_all. destruct (get_srv sn (c_servers c)) as [s|]; [apply fold_remove_rec|].
  intros H. exists a'. auto.
Qed.

(** ** the records after Loader.remove_server + Loader.load_server *)
Lemma detach_apps c n : c_apps (detach_server c n) = c_apps c.
Proof.
  unfold detach_server. destruct (get_srv n (c_servers c)) as [s|]; [|reflexivity].
  destruct (s_parent s) as [p|]; [|reflexivity].
  destruct (unhook_server_sc (c <| c_servers ::= del_srv n |>) p s) as (_ & _ & _ & H4 & _). rewrite H4. reflexivity.
Qed.
Lemma detach_gone c n : NoDup (map s_name (c_servers c)) -> get_srv n (c_servers (detach_server c n)) = None.
Proof.
  intros Hnd. unfold detach_server. destruct (get_srv n (c_servers c)) as [s|] eqn:Es; [|exact Es].
  assert (E : get_srv n (c_servers (c <| c_servers ::= del_srv n |>)) = None).
  { cbn [c_servers set]. rewrite get_srv_del by exact Hnd. rewrite Z.eqb_refl. reflexivity. }
  destruct (s_parent s) as [p|]; [|exact E].
  destruct (unhook_server_sc (c <| c_servers ::= del_srv n |>) p s) as (_ & _ & H3 & _). rewrite H3. exact E.
Qed.
Lemma detach_dim c n : c_dim (detach_server c n) = c_dim c.
Proof.
  unfold detach_server. destruct (get_srv n (c_servers c)) as [s|]; [|reflexivity].
  destruct (s_parent s) as [p|]; [|reflexivity].
  destruct (unhook_server_sc (c <| c_servers ::= del_srv n |>) p s) as (H1 & _). rewrite H1. reflexivity.
Qed.
Lemma add_server_apps c s : c_apps (add_server c s) = c_apps c.
Proof.
  unfold add_server. destruct (s_parent s) as [p|]; [|reflexivity].
  destruct (attach_common_sc (c <| c_servers ::= (fun l => l ++ [s]) |>) p (s_name s) (s_traits s) (s_counters s) [s_label s] (s_free s))
    as (_ & _ & _ & H4 & _). rewrite H4. reflexivity.
Qed.
Lemma add_server_there c s : get_srv (s_name s) (c_servers (add_server c s)) <> None.
Proof.
  assert (E : get_srv (s_name s) (c_servers (c <| c_servers ::= (fun l => l ++ [s]) |>)) <> None).
  { cbn [c_servers set]. rewrite get_srv_snoc. destruct (get_srv (s_name s) (c_servers c)); [discriminate|].
    rewrite Z.eqb_refl. discriminate. }
  unfold add_server. destruct (s_parent s) as [p|]; [|exact E].
  destruct (attach_common_sc (c <| c_servers ::= (fun l => l ++ [s]) |>) p (s_name s) (s_traits s) (s_counters s) [s_label s] (s_free s))
    as (_ & _ & H3 & _). rewrite H3. exact E.
Qed.


(** ** Cell.remove_app on the other records and on the servers' names *)
Lemma get_del_app_other n y l : y <> n -> get_app y (del_app n l) = get_app y l.
Proof.
  intros Hne. induction l as [|x t IH]; cbn; [reflexivity|].
  destruct (Z.eqb_spec (a_name x) n) as [E|E].
  - destruct (Z.eqb_spec (a_name x) y); [congruence|reflexivity].
  - cbn. rewrite IH. reflexivity.
Qed.
Lemma upd_alloc_apps c l p f : c_apps (upd_alloc c l p f) = c_apps c.
Proof. unfold upd_alloc, ensure_part. destruct (aget l (c_parts c)); reflexivity. Qed.
Lemma upd_alloc_servers c l p f : c_servers (upd_alloc c l p f) = c_servers c.
Proof. unfold upd_alloc, ensure_part. destruct (aget l (c_parts c)); reflexivity. Qed.
Lemma release_servers c n : c_servers (release_identity c n) = c_servers c.
Proof.
  unfold release_identity. destruct (get_app n (c_apps c)) as [a|]; [|reflexivity].
  destruct (group_of c a) as [[g grp]|]; [|reflexivity]. destruct (a_identity a); reflexivity.
Qed.
Lemma remove_app_other c n y : y <> n -> app_of (remove_app c n) y = app_of c y.
Proof.
  intros Hne. unfold remove_app. destruct (get_app n (c_apps c)) as [a|]; [|reflexivity].
  set (c1 := match a_server a with Some sn => if is_member c sn then srv_remove c sn n else c | None => c end).
  assert (H1 : app_of c1 y = app_of c y).
  { subst c1. destruct (a_server a) as [sn|]; [|reflexivity]. destruct (is_member c sn); [apply srv_remove_app; exact Hne|reflexivity]. }
  set (c2 := match a_alloc a with Some (l0, p0) => upd_alloc c1 l0 p0 (alloc_del_app n) | None => c1 end).
  assert (H2 : app_of c2 y = app_of c1 y).
  { subst c2. destruct (a_alloc a) as [[l0 p0]|]; [|reflexivity]. unfold app_of. rewrite upd_alloc_apps. reflexivity. }
  unfold app_of. cbn [c_apps set]. rewrite get_del_app_other by exact Hne.
  change (app_of (release_identity c2 n) y = app_of c y). rewrite release_app by exact Hne. congruence.
Qed.
Lemma remove_app_srv_exists c n k : get_srv k (c_servers c) <> None -> get_srv k (c_servers (remove_app c n)) <> None.
Proof.
  intros Hex. unfold remove_app. destruct (get_app n (c_apps c)) as [a|]; [|exact Hex].
  set (c1 := match a_server a with Some sn => if is_member c sn then srv_remove c sn n else c | None => c end).
  assert (H1 : get_srv k (c_servers c1) <> None).
  { subst c1. destruct (a_server a) as [sn|]; [|exact Hex]. destruct (is_member c sn); [|exact Hex].
    destruct (get_srv k (c_servers c)) as [s|] eqn:Es; [|contradiction].
    destruct (psteps_srv_exists _ _ _ _ (srv_remove_ps c sn n) Es) as (s' & Hs'). rewrite Hs'. discriminate. }
  cbn [c_servers set]. rewrite release_servers. destruct (a_alloc a) as [[l0 p0]|]; [rewrite upd_alloc_servers|]; exact H1.
Qed.

(** ** the restores of a reload, one recorded instance after the other *)
Definition pend (name : Z) (c : cell) (xs : list Z) : Prop :=
  get_srv name (c_servers c) <> None /\
  forall x, In x xs -> forall a, app_of c x = Some a -> a_server a = None /\ has_id a.

Definition reload_restore (name : Z) (vb : Z -> bool) (ex : Z -> Z) (x : Z) : op := ORestore name x (vb x) (ex x) None.

Lemma restore_op_other c sn x vb ex y : y <> x -> app_of (restore_op c sn x vb ex None) y = app_of c y.
Proof.
  intros Hne. unfold restore_op. destruct (get_app x (c_apps c)) as [a|]; [|reflexivity].
  pose proof (restore_put_other c sn x vb ex y Hne) as H1.
  destruct (restore_put c sn x vb ex) as [c1 ok]. cbn [fst] in H1.
  destruct ok; [cbn [force_identity]; exact H1|]. destruct (a_once a); [rewrite remove_app_other by exact Hne|]; exact H1.
Qed.
Lemma restore_op_srv_exists c sn x vb ex k : get_srv k (c_servers c) <> None ->
  get_srv k (c_servers (restore_op c sn x vb ex None)) <> None.
Proof.
  intros Hex. unfold restore_op. destruct (get_app x (c_apps c)) as [a|]; [|exact Hex].
  assert (H1 : get_srv k (c_servers (fst (restore_put c sn x vb ex))) <> None).
  { destruct (get_srv k (c_servers c)) as [s|] eqn:Es; [|contradiction].
    destruct (psteps_srv_exists _ _ _ _ (restore_put_ps c sn x vb ex) Es) as (s' & Hs'). rewrite Hs'. discriminate. }
  destruct (restore_put c sn x vb ex) as [c1 ok]. cbn [fst] in H1.
  destruct ok; [cbn [force_identity]; exact H1|]. destruct (a_once a); [apply remove_app_srv_exists|]; exact H1.
Qed.

Lemma pend_step name vb ex c x xs : ~ In x xs -> pend name c (x :: xs) ->
  pend name (step c (reload_restore name vb ex x)) xs.
Proof.
  intros Hni [Hex Hp]. unfold reload_restore. cbn [step]. split; [apply restore_op_srv_exists; exact Hex|].
  intros y Hy a Ha. assert (Hne : y <> x) by (intros ->; contradiction).
  rewrite restore_op_other in Ha by exact Hne. apply (Hp y (or_intror Hy) a Ha).
Qed.

Lemma pend_wf name vb ex c x xs : pend name c (x :: xs) -> wf_op_all c (reload_restore name vb ex x).
Proof.
  intros [Hex Hp]. unfold reload_restore. split; [split; [exact Hex|]|].
  - intros a Ha. apply (Hp x (or_introl eq_refl) a Ha).
  - cbn [wf_op_id]. intros a Ha. apply (Hp x (or_introl eq_refl) a Ha).
Qed.

Theorem restores_wf name vb ex xs : NoDup xs -> forall c, Good c -> pend name c xs ->
  wf_ops_all c (map (reload_restore name vb ex) xs).
Proof.
  induction 1 as [|x xs Hni Hnd IH]; intros c HG HP; cbn [map wf_ops_all]; [exact I|].
  pose proof (pend_wf name vb ex c x xs HP) as W. split; [exact W|].
  apply IH; [apply Good_step; assumption|apply pend_step; assumption].
Qed.

Lemma srv_remove_all_ps c sn : psteps c (srv_remove_all c sn).
Proof.
  unfold srv_remove_all. destruct (get_srv sn (c_servers c)) as [s|]; [|apply ps_refl].
  generalize (s_apps s) as l. intros l. revert c. induction l as [|x r IH]; intros c; cbn [fold_left]; [apply ps_refl|].
  eapply ps_trans; [apply srv_remove_ps|apply IH].
Qed.

(** ** Loader.reload_server as a whole *)
Definition reload_ops (name parent : Z) (cap : vec) (label traits vu : Z) (vb : Z -> bool) (ex : Z -> Z) (xs : list Z)
  : list op :=
  ORemoveServer name false :: OAddServer name parent cap label traits vu :: map (reload_restore name vb ex) xs.

Theorem reload_wf c name parent cap label traits vu vb ex xs :
  Good c -> get_srv name (c_servers c) <> None ->
  length cap = c_dim c -> nonneg cap -> NoDup xs ->
  (* the recorded placements of the server are those of instances the model holds there *)
  (forall x a, In x xs -> app_of c x = Some a -> a_server a = Some name) ->
  wf_ops_all c (reload_ops name parent cap label traits vu vb ex xs).
Proof.
  intros HG Hex Hlen Hnn Hnd Hrec. unfold reload_ops. cbn [wf_ops_all].
  split; [split; exact I|].
  assert (HG1 : Good (step c (ORemoveServer name false))) by (apply Good_step; [split; exact I|exact HG]).
  set (c1 := step c (ORemoveServer name false)) in *.
  assert (E1 : c_apps c1 = c_apps (srv_remove_all c name)) by (subst c1; cbn [step]; apply detach_apps).
  destruct HG as (HA & HI & HW & HR).
  assert (Hnone : forall m a', app_of c1 m = Some a' -> a_server a' <> Some name).
  { intros m a' H. unfold app_of in H. rewrite E1 in H. eapply srv_remove_all_none; eassumption. }
  assert (Hgone : get_srv name (c_servers c1) = None).
  { subst c1. cbn [step]. apply detach_gone. apply (ac_srv_names _ (Acct_srv_remove_all c name HA)). }
  assert (Hdim : c_dim c1 = c_dim c).
  { subst c1. cbn [step]. rewrite detach_dim.
    destruct (psteps_static _ _ (srv_remove_all_ps c name)) as (_ & _ & H3 & _). exact H3. }
  assert (W2 : wf_op_all c1 (OAddServer name parent cap label traits vu)).
  { split; [|exact I]. cbn [wf_op]. split; [exact Hgone|]. split; [congruence|]. split; [exact Hnn|].
    intros m a Ha. apply (Hnone m a Ha). }
  split; [exact W2|].
  assert (HG2 : Good (step c1 (OAddServer name parent cap label traits vu))) by (apply Good_step; assumption).
  apply restores_wf; [exact Hnd|exact HG2|].
  cbn [step]. split.
  - apply (add_server_there c1 (new_server c1 name parent cap label traits vu)).
  - intros x Hx a2 Ha2. unfold app_of in Ha2. rewrite add_server_apps in Ha2. change (app_of c1 x = Some a2) in Ha2.
    pose proof Ha2 as Ha2'. unfold app_of in Ha2'. rewrite E1 in Ha2'.
    destruct (srv_remove_all_rec c name x a2 Ha2') as (a & Ha & Gg & Gi & Gs).
    pose proof (Hrec x a Hx Ha) as Hsv. split.
    + destruct Gs as [Gs|Gs]; [|exact Gs]. exfalso. apply (Hnone x a2 Ha2). congruence.
    + assert (Hh : has_id a) by (apply (HR x a Ha); rewrite Hsv; discriminate).
      destruct Hh as [Hh|Hh]; [left|right]; congruence.
Qed.
