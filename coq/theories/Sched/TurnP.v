(** Per-turn specification of the placement loop: what one iteration of _find_placements does to the placer itself
    and to every other instance. Basis of the cycle-level theorems of C03 (assignments), C05 (end of cycle) and C08. *)
From Coq Require Import ZArith QArith List Bool Lia Relations.
From RecordUpdate Require Import RecordSet.
From TM Require Import Sched.Vec Sched.Types Sched.Queue Sched.Tree Sched.Cycle Sched.Steps Sched.MapsP Sched.FrameP
                       Sched.InvAcct.
Import ListNotations.
Open Scope Z_scope.

Definition app_of (c : cell) (x : Z) : option app := get_app x (c_apps c).

(** the record of an instance after Server.remove *)
Definition removed (a : app) : app :=
  a <| a_server := None |> <| a_evicted := true |> <| a_unschedule := false |> <| a_expiry := None |>.

(** ** effect of the primitives on one instance *)
Lemma app_of_sc c c' x : same_core c c' -> app_of c' x = app_of c x.
Proof. intros (_ & _ & _ & H4 & _). unfold app_of. rewrite H4. reflexivity. Qed.

Lemma srv_remove_app c sn v x : x <> v -> app_of (srv_remove c sn v) x = app_of c x.
Proof. intros H. destruct (srv_remove_frame c sn v) as [_ Hf]. apply Hf. exact H. Qed.

Lemma srv_remove_self c sn v s a :
  get_srv sn (c_servers c) = Some s -> app_of c v = Some a -> In v (s_apps s) ->
  app_of (srv_remove c sn v) v = Some (removed a).
Proof.
  intros Hs Ha Hin. unfold srv_remove, app_of in *. rewrite Hs, Ha.
  apply zmem_In in Hin. rewrite Hin. cbn [negb].
  pose proof (same_core_trans _ _ _ (bump_from_sc (prim_remove c sn v a) (s_parent s) [(a_aff a, 1)] (-1))
                (adjust_up_from_sc _ (s_parent s) (vadd (s_free s) (a_demand a)))) as (_ & _ & _ & H4 & _).
  rewrite H4. unfold prim_remove. cbn [c_upd_app c_upd_srv c_apps set].
  set (fa := fun x : app => x <| a_server := None |> <| a_evicted := true |> <| a_unschedule := false |>
                              <| a_expiry := None |>).
  apply (get_upd_app_same v fa _ a (fun x => eq_refl) Ha).
Qed.

Lemma srv_put_app c sn p c' x : srv_put c sn p = Some c' -> x <> p -> app_of c' x = app_of c x.
Proof. intros H Hne. destruct (srv_put_frame _ _ _ _ H) as [_ Hf]. apply Hf. exact Hne. Qed.

Lemma release_app c y x : x <> y -> app_of (release_identity c y) x = app_of c x.
Proof.
  intros Hne. unfold release_identity, app_of. destruct (get_app y (c_apps c)) as [a|]; [|reflexivity].
  destruct (group_of c a) as [[g grp]|]; [|reflexivity]. destruct (a_identity a); [|reflexivity].
  cbn [c_upd_app c_apps set]. apply get_upd_app_other; [reflexivity|exact Hne].
Qed.
Lemma acquire_app c y ch x : x <> y -> app_of (fst (acquire_identity c y ch)) x = app_of c x.
Proof.
  intros Hne. unfold acquire_identity, app_of. destruct (get_app y (c_apps c)) as [a|]; [|reflexivity].
  destruct (group_of c a) as [[g grp]|]; [|reflexivity]. destruct (a_identity a); [reflexivity|].
  destruct (g_avail grp); [reflexivity|]. cbn [fst c_upd_app c_apps set]. apply get_upd_app_other; [reflexivity|exact Hne].
Qed.
Lemma upd_app_other c y f x : (forall z, a_name (f z) = a_name z) -> x <> y -> app_of (c_upd_app y f c) x = app_of c x.
Proof. intros Hf Hne. unfold app_of. cbn [c_upd_app c_apps set]. apply get_upd_app_other; assumption. Qed.
Lemma srv_restore_app c sn y ex x : x <> y -> app_of (fst (srv_restore c sn y ex)) x = app_of c x.
Proof.
  intros Hne. unfold srv_restore. destruct (get_app y (c_apps c)) as [a|]; [|reflexivity].
  destruct (srv_put_lease c sn y 0) as [c'|] eqn:E; cbn [fst].
  - rewrite upd_app_other by (auto). destruct (srv_put_lease_frame _ _ _ _ _ E) as [_ Hf]. apply Hf. exact Hne.
  - apply upd_app_other; auto.
Qed.
Lemma srv_renew_app c sn y x : x <> y -> app_of (fst (srv_renew c sn y)) x = app_of c x.
Proof.
  intros Hne. unfold srv_renew. destruct (get_srv sn (c_servers c)); [|reflexivity].
  destruct (get_app y (c_apps c)) as [a|]; [|reflexivity]. destruct (check_lifetime c a (a_lease a) s); [|reflexivity].
  cbn [fst]. apply upd_app_other; auto.
Qed.
Lemma cell_put_app c y x : x <> y -> app_of (fst (cell_put c y)) x = app_of c x.
Proof. intros Hne. unfold cell_put. apply bucket_put_others. exact Hne. Qed.

(** servers keep their state through everything a cycle does *)
Definition states_kept (c c' : cell) : Prop :=
  forall n s', get_srv n (c_servers c') = Some s' -> exists s, get_srv n (c_servers c) = Some s /\ s_state s' = s_state s.

(** ** the eviction scan, seen from one instance *)
Lemma evict_scan_spec victims placer : forall c ev x,
  Acct c -> x <> placer ->
  (app_of (fst (evict_scan victims placer c ev)) x = app_of c x /\
   aget x (snd (evict_scan victims placer c ev)) = aget x ev) \/
  (In x (before_placer victims placer) /\
   exists a sn s, app_of c x = Some a /\ a_server a = Some sn /\ get_srv sn (c_servers c) = Some s /\ s_state s = Up /\
                  app_of (fst (evict_scan victims placer c ev)) x = Some (removed a) /\
                  aget x (snd (evict_scan victims placer c ev)) = Some (sn, a_expiry a)).
Proof.
  induction victims as [|v r IH]; intros c ev x HA Hxp; cbn [evict_scan before_placer]; [left; split; reflexivity|].
  destruct (Z.eqb_spec v placer) as [->|Hvp]; [left; split; reflexivity|].
  destruct (get_app v (c_apps c)) as [va|] eqn:Eva.
  2:{ destruct (IH c ev x HA Hxp) as [H|(Hin & H)]; [left; exact H|right; split; [right; exact Hin|exact H]]. }
  destruct (a_server va) as [sn|] eqn:Esv.
  2:{ destruct (IH c ev x HA Hxp) as [H|(Hin & H)]; [left; exact H|right; split; [right; exact Hin|exact H]]. }
  destruct (get_srv sn (c_servers c)) as [s|] eqn:Es.
  2:{ destruct (IH c ev x HA Hxp) as [H|(Hin & H)]; [left; exact H|right; split; [right; exact Hin|exact H]]. }
  destruct (s_state s) eqn:Est.
  2:{ destruct (IH c ev x HA Hxp) as [H|(Hin & H)]; [left; exact H|right; split; [right; exact Hin|exact H]]. }
  2:{ destruct (IH c ev x HA Hxp) as [H|(Hin & H)]; [left; exact H|right; split; [right; exact Hin|exact H]]. }
  (* v is evicted *)
  set (c1 := srv_remove c sn v). set (ev1 := aset v (sn, a_expiry va) ev).
  assert (HA1 : Acct c1) by (apply Acct_srv_remove; exact HA).
  assert (Hlisted : In v (s_apps s)) by (eapply (ac_placed _ HA); eassumption).
  destruct (Z.eq_dec x v) as [->|Hxv].
  - (* x is this victim *)
    assert (Hx1 : app_of c1 v = Some (removed va)) by (eapply srv_remove_self; eassumption).
    assert (Hev1 : aget v ev1 = Some (sn, a_expiry va)) by apply ag_as_same.
    right. split; [left; reflexivity|]. exists va, sn, s. repeat split; try assumption.
    + destruct (srv_put c1 sn placer) as [c2|] eqn:Ep; cbn [fst].
      * rewrite (srv_put_app _ _ _ _ _ Ep Hxp). exact Hx1.
      * destruct (IH c1 ev1 v HA1 Hxp) as [[H _]|(_ & a' & sn' & s' & Ha' & Hsv' & _)]; [rewrite H; exact Hx1|].
        rewrite Hx1 in Ha'. inversion Ha'; subst a'. cbn in Hsv'. discriminate.
    + destruct (srv_put c1 sn placer) as [c2|] eqn:Ep; cbn [snd]; [exact Hev1|].
      destruct (IH c1 ev1 v HA1 Hxp) as [[_ H]|(_ & a' & sn' & s' & Ha' & Hsv' & _)]; [rewrite H; exact Hev1|].
      rewrite Hx1 in Ha'. inversion Ha'; subst a'. cbn in Hsv'. discriminate.
  - (* another instance is evicted *)
    assert (Hx1 : app_of c1 x = app_of c x) by (apply srv_remove_app; exact Hxv).
    assert (Hev1 : aget x ev1 = aget x ev) by (apply ag_as_other; exact Hxv).
    destruct (srv_put c1 sn placer) as [c2|] eqn:Ep.
    + left. cbn [fst snd]. split; [rewrite (srv_put_app _ _ _ _ _ Ep Hxp); exact Hx1|exact Hev1].
    + destruct (IH c1 ev1 x HA1 Hxp) as [[H1 H2]|(Hin & a & sn' & s' & Ha & Hsv & Hs' & Hst & Hr1 & Hr2)].
      * left. split; [rewrite H1; exact Hx1|rewrite H2; exact Hev1].
      * right. split; [right; exact Hin|]. rewrite Hx1 in Ha.
        destruct (srv_remove_state _ _ _ _ _ Hs') as (s0 & Hs0 & Hst0).
        exists a, sn', s0. repeat split; try assumption. congruence.
Qed.

(** server states never change inside a cycle *)
Lemma pstep_states_kept c c' : pstep c c' -> states_kept c c'.
Proof.
  intros Hs. destruct Hs; intros k s' Hg.
  - destruct H as (_ & _ & H3 & _). rewrite H3 in Hg. exists s'. auto.
  - unfold prim_put in Hg. cbn [c_upd_app c_upd_srv c_servers set] in Hg.
    set (fs := fun x : server => x <| s_free := vsub (s_free x) (a_demand a) |>
                                    <| s_apps ::= (fun l => l ++ [aname]) |> <| s_counters ::= cadd (a_aff a) 1 |>) in Hg.
    destruct (Z.eq_dec k sname) as [->|Hne].
    + rewrite (get_upd_srv_same sname fs _ s (fun x => eq_refl) H) in Hg. inversion Hg; subst. exists s. auto.
    + rewrite get_upd_srv_other in Hg; [exists s'; auto|reflexivity|exact Hne].
  - unfold prim_remove in Hg. cbn [c_upd_app c_upd_srv c_servers set] in Hg.
    set (fs := fun x : server => x <| s_free := vadd (s_free x) (a_demand a) |> <| s_apps ::= zremove aname |>
                                    <| s_counters ::= cadd (a_aff a) (-1) |>) in Hg.
    destruct (Z.eq_dec k sname) as [->|Hne].
    + rewrite (get_upd_srv_same sname fs _ s (fun x => eq_refl) H) in Hg. inversion Hg; subst. exists s. auto.
    + rewrite get_upd_srv_other in Hg; [exists s'; auto|reflexivity|exact Hne].
  - exists s'. auto.
  - exists s'. auto.
  - assert (E : c_servers (release_identity c aname) = c_servers c).
    { unfold release_identity. destruct (get_app aname (c_apps c)) as [x|]; [|reflexivity].
      destruct (group_of c x) as [[g grp]|]; [|reflexivity]. destruct (a_identity x); reflexivity. }
    rewrite E in Hg. exists s'. auto.
  - assert (E : c_servers (fst (acquire_identity c aname ch)) = c_servers c).
    { unfold acquire_identity. destruct (get_app aname (c_apps c)) as [x|]; [|reflexivity].
      destruct (group_of c x) as [[g grp]|]; [|reflexivity]. destruct (a_identity x); [reflexivity|].
      destruct (g_avail grp); reflexivity. }
    rewrite E in Hg. exists s'. auto.
  - exists s'. auto.
Qed.
Lemma psteps_states_kept c c' : psteps c c' -> states_kept c c'.
Proof.
  induction 1 as [c c' H|c|a b c' H1 IH1 H2 IH2].
  - apply pstep_states_kept. exact H.
  - intros n s' Hg. exists s'. auto.
  - intros n s' Hg. destruct (IH2 _ _ Hg) as (s1 & Hs1 & E1). destruct (IH1 _ _ Hs1) as (s0 & Hs0 & E0).
    exists s0. split; [exact Hs0|congruence].
Qed.

(** ** one iteration of the loop, seen from another instance *)
Definition other_unchanged (x : Z) (st st' : loopst) : Prop :=
  app_of (l_cell st') x = app_of (l_cell st) x /\ aget x (l_evicted st') = aget x (l_evicted st).
Definition other_evicted (rq : list Z) (y x : Z) (st st' : loopst) : Prop :=
  In x (before_placer rq y) /\
  exists a sn s, app_of (l_cell st) x = Some a /\ a_server a = Some sn /\
                 get_srv sn (c_servers (l_cell st)) = Some s /\ s_state s = Up /\
                 app_of (l_cell st') x = Some (removed a) /\ aget x (l_evicted st') = Some (sn, a_expiry a).

Theorem place_one_other rq st y x : Acct (l_cell st) -> x <> y ->
  other_unchanged x st (place_one rq st y) \/ other_evicted rq y x st (place_one rq st y).
Proof.
  intros HA Hxy. unfold other_unchanged, other_evicted, place_one.
  destruct (get_app y (c_apps (l_cell st))) as [a|]; [|left; split; reflexivity].
  destruct (a_blacklisted a); [left; split; reflexivity|].
  destruct (Z.eqb (a_rank a) UNPLACED_RANK).
  { left. destruct (a_server a); cbn [l_cell l_evicted set]; (split; [|reflexivity]).
    - rewrite release_app, srv_remove_app by exact Hxy. reflexivity.
    - rewrite release_app by exact Hxy. reflexivity. }
  set (cr := if a_renew a
             then match a_server a with
                  | Some n => let '(cr, ok) := srv_renew (l_cell st) n y in
                              if ok then (cr, None) else (srv_remove cr n y, Some (n, a_expiry a))
                  | None => (l_cell st, None)
                  end
             else (l_cell st, None)).
  assert (Hcr : app_of (fst cr) x = app_of (l_cell st) x /\ psteps (l_cell st) (fst cr)).
  { subst cr. destruct (a_renew a); [|split; [reflexivity|apply ps_refl]].
    destruct (a_server a) as [n|]; [|split; [reflexivity|apply ps_refl]].
    pose proof (srv_renew_app (l_cell st) n y x Hxy) as Hr. pose proof (srv_renew_ps (l_cell st) n y) as Hp.
    destruct (srv_renew (l_cell st) n y) as [c0 ok]. cbn [fst] in Hr, Hp.
    destruct ok; cbn [fst]; [split; assumption|].
    split; [rewrite srv_remove_app by exact Hxy; exact Hr|eapply ps_trans; [exact Hp|apply srv_remove_ps]]. }
  destruct cr as [c1 restore]. cbn [fst] in Hcr. destruct Hcr as [Hx1 Hp1].
  set (c2 := c_upd_app y (fun z => z <| a_renew := false |>) c1).
  assert (Hx2 : app_of c2 x = app_of (l_cell st) x) by (subst c2; rewrite upd_app_other by auto; exact Hx1).
  assert (Hp2 : psteps (l_cell st) c2) by (eapply ps_trans; [exact Hp1|apply ps_one, PS_soft, soft_renew]).
  destruct (get_app y (c_apps c2)) as [a2|]; [|left; split; reflexivity].
  destruct (a_server a2); [left; cbn [l_cell l_evicted set]; split; [exact Hx2|reflexivity]|].
  pose proof (acquire_app c2 y (aget y (l_choices st)) x Hxy) as Hacq.
  pose proof (PS_acquire c2 y (aget y (l_choices st))) as Hpacq.
  destruct (acquire_identity c2 y (aget y (l_choices st))) as [c3 got]. cbn [fst] in Hacq, Hpacq.
  assert (Hx3 : app_of c3 x = app_of (l_cell st) x) by (rewrite Hacq; exact Hx2).
  assert (Hp3 : psteps (l_cell st) c3) by (eapply ps_trans; [exact Hp2|apply ps_one; exact Hpacq]).
  destruct got; cbn [negb]; [|left; cbn [l_cell l_evicted set]; split; [exact Hx3|reflexivity]].
  set (r4 := match aget y (l_evicted st) with
             | Some (sn, ex) =>
                 let '(cr, ok) := srv_restore c3 sn y ex in
                 if ok then (c_upd_app y (fun z => z <| a_evicted := false |>) cr, true, adel y (l_evicted st))
                 else (cr, false, adel y (l_evicted st))
             | None => (c3, false, l_evicted st)
             end).
  assert (H4 : app_of (fst (fst r4)) x = app_of c3 x /\ psteps c3 (fst (fst r4)) /\ aget x (snd r4) = aget x (l_evicted st)).
  { subst r4. destruct (aget y (l_evicted st)) as [[sn ex]|]; [|repeat split; try reflexivity; apply ps_refl].
    pose proof (srv_restore_app c3 sn y ex x Hxy) as Hr. pose proof (srv_restore_ps c3 sn y ex) as Hp.
    destruct (srv_restore c3 sn y ex) as [c0 ok]. cbn [fst] in Hr, Hp.
    destruct ok; cbn [fst snd].
    - split; [rewrite upd_app_other by auto; exact Hr|]. split; [eapply ps_trans; [exact Hp|apply ps_one, PS_soft, soft_evicted]|].
      apply ag_adel_other. exact Hxy.
    - split; [exact Hr|]. split; [exact Hp|apply ag_adel_other; exact Hxy]. }
  destruct r4 as [[c4 restored] ev1]. cbn [fst snd] in H4. destruct H4 as (Hx4 & Hp4 & Hev1).
  assert (Hx4' : app_of c4 x = app_of (l_cell st) x) by (rewrite Hx4; exact Hx3).
  assert (Hp4' : psteps (l_cell st) c4) by (eapply ps_trans; eassumption).
  destruct restored; [left; cbn [l_cell l_evicted set]; split; assumption|]. unfold place_tail.
  destruct (get_app y (c_apps c4)) as [a4|]; [|left; split; reflexivity].
  destruct (a_once a4 && a_evicted a4).
  { left. cbn [l_cell l_evicted set]. split; [rewrite release_app by exact Hxy; exact Hx4'|exact Hev1]. }
  destruct (negb (tr_feasible (l_tracker st) a4)).
  { left. cbn [l_cell l_evicted set]. split; [rewrite release_app by exact Hxy; exact Hx4'|exact Hev1]. }
  pose proof (cell_put_app c4 y x Hxy) as Hx5. pose proof (cell_put_ps c4 y) as Hp5.
  destruct (cell_put c4 y) as [c5 ok]. cbn [fst] in Hx5, Hp5.
  assert (Hx5' : app_of c5 x = app_of (l_cell st) x) by (rewrite Hx5; exact Hx4').
  assert (Hp5' : psteps (l_cell st) c5) by (eapply ps_trans; eassumption).
  assert (HA5 : Acct c5) by (eapply Acct_psteps; eassumption).
  (* the scan *)
  assert (Hscan : (app_of (fst (if ok then (c5, ev1) else evict_scan rq y c5 ev1)) x = app_of (l_cell st) x /\
                   aget x (snd (if ok then (c5, ev1) else evict_scan rq y c5 ev1)) = aget x (l_evicted st)) \/
                  (In x (before_placer rq y) /\
                   exists a0 sn s, app_of (l_cell st) x = Some a0 /\ a_server a0 = Some sn /\
                     get_srv sn (c_servers (l_cell st)) = Some s /\ s_state s = Up /\
                     app_of (fst (if ok then (c5, ev1) else evict_scan rq y c5 ev1)) x = Some (removed a0) /\
                     aget x (snd (if ok then (c5, ev1) else evict_scan rq y c5 ev1)) = Some (sn, a_expiry a0))).
  { destruct ok; [left; cbn [fst snd]; split; assumption|].
    destruct (evict_scan_spec rq y c5 ev1 x HA5 Hxy) as [[H1 H2]|(Hin & a0 & sn & s5 & Ha0 & Hsv0 & Hs5 & Hst5 & Hr1 & Hr2)].
    - left. split; [rewrite H1; exact Hx5'|rewrite H2; exact Hev1].
    - right. split; [exact Hin|]. rewrite Hx5' in Ha0.
      destruct (psteps_states_kept _ _ Hp5' _ _ Hs5) as (s0 & Hs0 & Hst0).
      exists a0, sn, s0. repeat split; try assumption. congruence. }
  destruct (if ok then (c5, ev1) else evict_scan rq y c5 ev1) as [c6 ev2]. cbn [fst snd] in Hscan.
  (* what follows the scan touches only y *)
  assert (Hpost : forall c7, app_of c7 x = app_of c6 x ->
            (app_of c7 x = app_of (l_cell st) x /\ aget x ev2 = aget x (l_evicted st)) \/
            (In x (before_placer rq y) /\
             exists a0 sn s, app_of (l_cell st) x = Some a0 /\ a_server a0 = Some sn /\
               get_srv sn (c_servers (l_cell st)) = Some s /\ s_state s = Up /\
               app_of c7 x = Some (removed a0) /\ aget x ev2 = Some (sn, a_expiry a0))).
  { intros c7 H7. destruct Hscan as [[H1 H2]|(Hin & a0 & sn & s0 & Ha0 & Hsv0 & Hs0 & Hst0 & Hr1 & Hr2)].
    - left. split; [rewrite H7; exact H1|exact H2].
    - right. split; [exact Hin|]. exists a0, sn, s0. repeat split; try assumption. rewrite H7. exact Hr1. }
  destruct (match get_app y (c_apps c6) with
            | Some a6 => match a_server a6 with Some _ => true | None => false end
            | None => false
            end).
  { cbn [l_cell l_evicted set]. destruct (Hpost c6 eq_refl) as [H|H]; [left; exact H|right; exact H]. }
  destruct restore as [[n ex]|].
  - pose proof (srv_restore_app c6 n y ex x Hxy) as H7. destruct (srv_restore c6 n y ex) as [c7 ok7]. cbn [fst] in H7.
    destruct ok7; [|unfold give_up]; cbn [l_cell l_evicted set].
    + assert (H7' : app_of (c_upd_app y (fun z => z <| a_renew := true |>) c7) x = app_of c6 x)
        by (rewrite upd_app_other by auto; exact H7).
      destruct (Hpost _ H7') as [H|H]; [left; exact H|right; exact H].
    + assert (H7' : app_of (release_identity c7 y) x = app_of c6 x) by (rewrite release_app by exact Hxy; exact H7).
      destruct (Hpost _ H7') as [H|H]; [left; exact H|right; exact H].
  - unfold give_up. cbn [l_cell l_evicted set].
    assert (H7' : app_of (release_identity c6 y) x = app_of c6 x) by (apply release_app; exact Hxy).
    destruct (Hpost _ H7') as [H|H]; [left; exact H|right; exact H].
Qed.

(** ** what a successful Server.put does to the placer *)
Definition placed_rec (c : cell) (a : app) (sn lease : Z) : app :=
  (match a_expiry a with
   | None => a <| a_expiry := Some (c_now c + lease) |>
   | Some _ => a
   end) <| a_server := Some sn |>.

Lemma srv_put_lease_self c sn x l c' :
  srv_put_lease c sn x l = Some c' ->
  exists s a, get_srv sn (c_servers c) = Some s /\ app_of c x = Some a /\ put_guard c s a l = true /\
              app_of c' x = Some (placed_rec c a sn l).
Proof.
  unfold srv_put_lease, app_of. destruct (get_srv sn (c_servers c)) as [s|] eqn:Es; [|discriminate].
  destruct (get_app x (c_apps c)) as [a|] eqn:Ea; [|discriminate].
  destruct (put_guard c s a l) eqn:Eg; [|discriminate]. intros H; inversion H; subst; clear H.
  exists s, a. repeat split; try assumption.
  pose proof (same_core_trans _ _ _ (bump_from_sc (prim_put c sn x a l) (s_parent s) [(a_aff a, 1)] 1)
                (adjust_down_from_sc _ (s_parent s) (Some (s_free s)))) as (_ & _ & _ & H4 & _).
  rewrite H4. unfold prim_put. cbn [c_upd_app c_upd_srv c_apps set].
  set (fa := fun z : app => (match a_expiry z with
                             | None => z <| a_expiry := Some (c_now c + l) |>
                             | Some _ => z
                             end) <| a_server := Some sn |>).
  assert (Hfa : forall z, a_name (fa z) = a_name z) by (intros z; unfold fa; destruct (a_expiry z); reflexivity).
  exact (get_upd_app_same x fa _ a Hfa Ea).
Qed.

Lemma srv_put_self c sn x c' :
  srv_put c sn x = Some c' ->
  exists s a, get_srv sn (c_servers c) = Some s /\ app_of c x = Some a /\ put_guard c s a (a_lease a) = true /\
              app_of c' x = Some (placed_rec c a sn (a_lease a)).
Proof.
  unfold srv_put. destruct (get_app x (c_apps c)) as [a0|] eqn:E0; [|discriminate]. intros H.
  destruct (srv_put_lease_self _ _ _ _ _ H) as (s & a & Hs & Ha & Hg & Hr).
  unfold app_of in Ha. rewrite E0 in Ha. inversion Ha; subst a0. exists s, a. auto.
Qed.

(** the static description of a server, and of the cell, does not change inside a cycle *)
Definition srv_static (s s' : server) : Prop :=
  s_name s' = s_name s /\ s_state s' = s_state s /\ s_label s' = s_label s /\ s_traits s' = s_traits s /\
  s_valid_until s' = s_valid_until s /\ s_since s' = s_since s /\ s_cap s' = s_cap s.
Definition static_kept (c c' : cell) : Prop :=
  c_now c' = c_now c /\ c_parts c' = c_parts c /\ c_dim c' = c_dim c /\
  forall n s', get_srv n (c_servers c') = Some s' -> exists s, get_srv n (c_servers c) = Some s /\ srv_static s s'.

Lemma static_kept_refl c : static_kept c c.
Proof. repeat split; auto. intros n s' H. exists s'. repeat split; auto. Qed.
Lemma static_kept_trans a b c : static_kept a b -> static_kept b c -> static_kept a c.
Proof.
  intros (H1 & H2 & H3 & H4) (G1 & G2 & G3 & G4). repeat split; try congruence.
  intros n s' Hg. destruct (G4 _ _ Hg) as (s1 & Hs1 & E1). destruct (H4 _ _ Hs1) as (s0 & Hs0 & E0).
  exists s0. split; [exact Hs0|]. unfold srv_static in *. intuition congruence.
Qed.
Lemma pstep_static c c' : pstep c c' -> static_kept c c'.
Proof.
  intros Hs. destruct Hs.
  - destruct H as (H1 & _ & H3 & _ & H5 & _ & H7). repeat split; try assumption.
    intros k s' Hg. rewrite H3 in Hg. exists s'. repeat split; auto.
  - unfold prim_put. repeat split; cbn [c_upd_app c_upd_srv c_servers c_now c_parts c_dim set]; try reflexivity.
    intros k s' Hg.
    set (fs := fun x : server => x <| s_free := vsub (s_free x) (a_demand a) |>
                                    <| s_apps ::= (fun l => l ++ [aname]) |> <| s_counters ::= cadd (a_aff a) 1 |>) in Hg.
    destruct (Z.eq_dec k sname) as [->|Hne].
    + rewrite (get_upd_srv_same sname fs _ s (fun x => eq_refl) H) in Hg. inversion Hg; subst. exists s. repeat split; auto.
    + rewrite get_upd_srv_other in Hg; [exists s'; repeat split; auto|reflexivity|exact Hne].
  - unfold prim_remove. repeat split; cbn [c_upd_app c_upd_srv c_servers c_now c_parts c_dim set]; try reflexivity.
    intros k s' Hg.
    set (fs := fun x : server => x <| s_free := vadd (s_free x) (a_demand a) |> <| s_apps ::= zremove aname |>
                                    <| s_counters ::= cadd (a_aff a) (-1) |>) in Hg.
    destruct (Z.eq_dec k sname) as [->|Hne].
    + rewrite (get_upd_srv_same sname fs _ s (fun x => eq_refl) H) in Hg. inversion Hg; subst. exists s. repeat split; auto.
    + rewrite get_upd_srv_other in Hg; [exists s'; repeat split; auto|reflexivity|exact Hne].
  - repeat split; try reflexivity. intros k s' Hg. exists s'. repeat split; auto.
  - repeat split; try reflexivity. intros k s' Hg. exists s'. repeat split; auto.
  - assert (E : c_servers (release_identity c aname) = c_servers c /\ c_now (release_identity c aname) = c_now c /\
                c_parts (release_identity c aname) = c_parts c /\ c_dim (release_identity c aname) = c_dim c).
    { unfold release_identity. destruct (get_app aname (c_apps c)) as [x|]; [|auto].
      destruct (group_of c x) as [[g grp]|]; [|auto]. destruct (a_identity x); auto. }
    destruct E as (E1 & E2 & E3 & E4). repeat split; try assumption.
    intros k s' Hg. rewrite E1 in Hg. exists s'. repeat split; auto.
  - assert (E : c_servers (fst (acquire_identity c aname ch)) = c_servers c /\
                c_now (fst (acquire_identity c aname ch)) = c_now c /\
                c_parts (fst (acquire_identity c aname ch)) = c_parts c /\
                c_dim (fst (acquire_identity c aname ch)) = c_dim c).
    { unfold acquire_identity. destruct (get_app aname (c_apps c)) as [x|]; [|auto].
      destruct (group_of c x) as [[g grp]|]; [|auto]. destruct (a_identity x); [auto|]. destruct (g_avail grp); auto. }
    destruct E as (E1 & E2 & E3 & E4). repeat split; try assumption.
    intros k s' Hg. rewrite E1 in Hg. exists s'. repeat split; auto.
  - repeat split; try reflexivity. intros k s' Hg. exists s'. repeat split; auto.
Qed.
Lemma psteps_static c c' : psteps c c' -> static_kept c c'.
Proof.
  induction 1; [apply pstep_static; assumption|apply static_kept_refl|eapply static_kept_trans; eassumption].
Qed.

(** ** outcome of a fresh placement attempt (Bucket.put from the top) *)
Definition attempt_spec (x : Z) (c c' : cell) (ok : bool) : Prop :=
  if ok then exists c1 n s, same_core c c1 /\ get_srv n (c_servers c1) = Some s /\ s_state s = Up /\
                            srv_put c1 n x = Some c'
  else same_core c c'.

Lemma attempt_spec_sc x c0 c c' ok : same_core c0 c -> attempt_spec x c c' ok -> attempt_spec x c0 c' ok.
Proof.
  intros H0 H. unfold attempt_spec in *. destruct ok.
  - destruct H as (c1 & n & s & H1 & H2 & H3 & H4). exists c1, n, s.
    split; [eapply same_core_trans; eassumption|]. split; [exact H2|]. split; [exact H3|exact H4].
  - eapply same_core_trans; eassumption.
Qed.

Lemma try_children_result put_bkt b aff x p0 :
  (forall c n, attempt_spec x c (fst (put_bkt c n)) (snd (put_bkt c n))) ->
  forall l c, attempt_spec x c (fst (try_children put_bkt b aff x p0 l c)) (snd (try_children put_bkt b aff x p0 l c)).
Proof.
  intros Hp. induction l as [|[p n] r IHl]; intros c; cbn [try_children].
  - unfold attempt_spec. cbn [fst snd]. apply set_cursor_sc.
  - set (c1 := set_cursor c b aff (S p)).
    assert (H1 : same_core c c1) by apply set_cursor_sc.
    destruct (get_srv n (c_servers c1)) as [s|] eqn:Es.
    + destruct (s_state s) eqn:Est.
      * destruct (srv_put c1 n x) as [c2|] eqn:Ep.
        -- unfold attempt_spec. cbn [fst snd]. exists c1, n, s. auto.
        -- eapply attempt_spec_sc; [exact H1|apply IHl].
      * eapply attempt_spec_sc; [exact H1|apply IHl].
      * eapply attempt_spec_sc; [exact H1|apply IHl].
    + specialize (Hp c1 n). destruct (put_bkt c1 n) as [c2 ok]. cbn [fst snd] in Hp.
      destruct ok.
      * cbn [fst snd]. eapply attempt_spec_sc; [exact H1|exact Hp].
      * unfold attempt_spec in Hp. eapply attempt_spec_sc; [exact (same_core_trans _ _ _ H1 Hp)|apply IHl].
Qed.

Theorem bucket_put_result fuel : forall c b x,
  attempt_spec x c (fst (bucket_put fuel c b x)) (snd (bucket_put fuel c b x)).
Proof.
  induction fuel as [|f IH]; intros c b x; cbn [bucket_put]; [unfold attempt_spec; cbn [fst snd]; apply same_core_refl|].
  destruct (get_bkt b (c_buckets c)) as [bk|]; [|unfold attempt_spec; cbn [fst snd]; apply same_core_refl].
  destruct (get_app x (c_apps c)) as [a|]; [|unfold attempt_spec; cbn [fst snd]; apply same_core_refl].
  destruct (check_constraints c a (b_labels bk) (bkt_traits bk) (b_counters bk) (b_level bk) (b_free bk)); [|unfold attempt_spec; cbn [fst snd]; apply same_core_refl].
  destruct (live_positions (b_children bk) (cursor_of bk (a_aff a))) as [|[p0 n0] rest].
  - unfold attempt_spec. cbn [fst snd]. apply set_cursor_sc.
  - apply try_children_result. intros c' n. apply IH.
Qed.

(** ** the eviction scan, seen from the placer *)
Definition scan_placer_spec (x : Z) (c c' : cell) : Prop :=
  app_of c' x = app_of c x \/
  exists c1 sn s, psteps c c1 /\ app_of c1 x = app_of c x /\ get_srv sn (c_servers c1) = Some s /\ s_state s = Up /\
                  srv_put c1 sn x = Some c'.

Theorem evict_scan_placer victims x : forall c ev, scan_placer_spec x c (fst (evict_scan victims x c ev)).
Proof.
  induction victims as [|v r IH]; intros c ev; cbn [evict_scan]; [left; reflexivity|].
  destruct (Z.eqb_spec v x) as [->|Hvx]; [left; reflexivity|].
  destruct (get_app v (c_apps c)) as [va|]; [|apply IH].
  destruct (a_server va) as [sn|]; [|apply IH].
  destruct (get_srv sn (c_servers c)) as [s|] eqn:Es; [|apply IH].
  destruct (s_state s) eqn:Est; try apply IH.
  set (c1 := srv_remove c sn v).
  assert (Hx1 : app_of c1 x = app_of c x) by (apply srv_remove_app; congruence).
  assert (Hp1 : psteps c c1) by apply srv_remove_ps.
  destruct (srv_put c1 sn x) as [c2|] eqn:Ep.
  - cbn [fst]. right.
    (* the server is still up after the removal *)
    destruct (srv_put_self _ _ _ _ Ep) as (s1 & a1 & Hs1 & _).
    destruct (srv_remove_state _ _ _ _ _ Hs1) as (s0 & Hs0 & Hst0). rewrite Es in Hs0. inversion Hs0; subst s0.
    exists c1, sn, s1. repeat split; try assumption. congruence.
  - destruct (IH c1 (aset v (sn, a_expiry va) ev)) as [H|(c3 & sn3 & s3 & Hp3 & Hx3 & Hs3 & Hst3 & Hput3)].
    + left. rewrite H. exact Hx1.
    + right. exists c3, sn3, s3. repeat split; try assumption; [eapply ps_trans; eassumption|congruence].
Qed.

(** ** the placer's own record through its turn *)
(* everything but the placement fields (server, expiry, evicted, unschedule, renew, rank) *)
Definition dyn_eq (a a' : app) : Prop :=
  a_name a' = a_name a /\ a_prio a' = a_prio a /\ a_demand a' = a_demand a /\ a_aff a' = a_aff a /\
  a_limits a' = a_limits a /\ a_traits a' = a_traits a /\ a_lease a' = a_lease a /\ a_drt a' = a_drt a /\
  a_group a' = a_group a /\ a_once a' = a_once a /\ a_order a' = a_order a /\ a_alloc a' = a_alloc a /\
  a_blacklisted a' = a_blacklisted a /\ a_identity a' = a_identity a.
(* the same, identity excepted *)
Definition stat_eq (a a' : app) : Prop :=
  a_name a' = a_name a /\ a_prio a' = a_prio a /\ a_demand a' = a_demand a /\ a_aff a' = a_aff a /\
  a_limits a' = a_limits a /\ a_traits a' = a_traits a /\ a_lease a' = a_lease a /\ a_drt a' = a_drt a /\
  a_group a' = a_group a /\ a_once a' = a_once a /\ a_order a' = a_order a /\ a_alloc a' = a_alloc a /\
  a_blacklisted a' = a_blacklisted a.

Lemma dyn_eq_refl a : dyn_eq a a. Proof. repeat split. Qed.
Lemma dyn_eq_trans a b c : dyn_eq a b -> dyn_eq b c -> dyn_eq a c.
Proof. unfold dyn_eq. intuition congruence. Qed.
Lemma dyn_stat a a' : dyn_eq a a' -> stat_eq a a'.
Proof. unfold dyn_eq, stat_eq. intuition. Qed.
Lemma stat_eq_refl a : stat_eq a a. Proof. repeat split. Qed.
Lemma stat_eq_trans a b c : stat_eq a b -> stat_eq b c -> stat_eq a c.
Proof. unfold stat_eq. intuition congruence. Qed.

Lemma removed_dyn a : dyn_eq a (removed a).
Proof. repeat split. Qed.
Lemma placed_rec_dyn c a sn l : dyn_eq a (placed_rec c a sn l) /\ a_server (placed_rec c a sn l) = Some sn.
Proof. unfold placed_rec. destruct (a_expiry a); split; repeat split. Qed.

Lemma upd_app_self c x f a : (forall z, a_name (f z) = a_name z) -> app_of c x = Some a ->
  app_of (c_upd_app x f c) x = Some (f a).
Proof. intros Hf Ha. unfold app_of in *. cbn [c_upd_app c_apps set]. apply get_upd_app_same; assumption. Qed.

(** release *)
Lemma release_self c x a : app_of c x = Some a ->
  exists a', app_of (release_identity c x) x = Some a' /\ stat_eq a a' /\ a_server a' = a_server a /\
             (a_identity a' = None \/ (group_of c a = None /\ a_identity a' = a_identity a)).
Proof.
  intros Ha. unfold release_identity. unfold app_of in Ha. rewrite Ha.
  destruct (group_of c a) as [[g grp]|] eqn:Eg.
  - destruct (a_identity a) as [i|] eqn:Ei.
    + exists (a <| a_identity := None |>). split; [|split; [repeat split|split; [reflexivity|left; reflexivity]]].
      unfold app_of. cbn [c_upd_app c_apps set]. apply get_upd_app_same; [reflexivity|exact Ha].
    + exists a. split; [exact Ha|]. split; [apply stat_eq_refl|]. split; [reflexivity|left; exact Ei].
  - exists a. split; [exact Ha|]. split; [apply stat_eq_refl|]. split; [reflexivity|right; split; reflexivity].
Qed.

(** acquire *)
Lemma acquire_self c x ch a : app_of c x = Some a ->
  let r := acquire_identity c x ch in
  (snd r = false /\ fst r = c /\ a_identity a = None /\ group_of c a <> None) \/
  (snd r = true /\ exists a', app_of (fst r) x = Some a' /\ stat_eq a a' /\ a_server a' = a_server a /\
                              a_expiry a' = a_expiry a /\ a_evicted a' = a_evicted a /\
                              (group_of c a = None \/ a_identity a' <> None)).
Proof.
  intros Ha. unfold acquire_identity. unfold app_of in Ha. rewrite Ha.
  destruct (group_of c a) as [[g grp]|] eqn:Eg.
  - destruct (a_identity a) as [i|] eqn:Ei.
    + right. cbn [fst snd]. split; [reflexivity|]. exists a. split; [exact Ha|]. split; [apply stat_eq_refl|].
      repeat split. right. congruence.
    + destruct (g_avail grp) as [|first rest].
      * left. cbn [fst snd]. repeat split; congruence.
      * right. cbn [fst snd]. split; [reflexivity|].
        set (i := match ch with Some ch0 => if zmem ch0 (first :: rest) then ch0 else first | None => first end).
        exists (a <| a_identity := Some i |>). split.
        -- unfold app_of. cbn [c_upd_app c_apps set]. apply get_upd_app_same; [reflexivity|exact Ha].
        -- split; [repeat split|]. repeat split. right. cbn. discriminate.
  - right. cbn [fst snd]. split; [reflexivity|]. exists a. split; [exact Ha|]. split; [apply stat_eq_refl|].
    repeat split. left. reflexivity.
Qed.

(** restore *)
Lemma srv_restore_self c sn x ex a : app_of c x = Some a ->
  let r := srv_restore c sn x ex in
  exists a', app_of (fst r) x = Some a' /\ dyn_eq a a' /\
             (if snd r then a_server a' = Some sn else a_server a' = a_server a).
Proof.
  intros Ha. unfold srv_restore. unfold app_of in Ha. rewrite Ha.
  destruct (srv_put_lease c sn x 0) as [c'|] eqn:E; cbn [fst snd].
  - destruct (srv_put_lease_self _ _ _ _ _ E) as (s & a0 & Hs & Ha0 & Hg & Hr).
    unfold app_of in Ha0. rewrite Ha in Ha0. inversion Ha0; subst a0.
    eexists. split; [apply upd_app_self; [reflexivity|exact Hr]|].
    destruct (placed_rec_dyn c a sn 0) as [Hd Hsv]. split; [|exact Hsv].
    eapply dyn_eq_trans; [exact Hd|]. repeat split.
  - eexists. split; [apply upd_app_self; [reflexivity|exact Ha]|]. split; [repeat split|reflexivity].
Qed.

(** a fresh attempt *)
Lemma attempt_self x c c' ok a : attempt_spec x c c' ok -> app_of c x = Some a ->
  if ok then exists c1 n s a', same_core c c1 /\ get_srv n (c_servers c1) = Some s /\ s_state s = Up /\
                               put_guard c1 s a (a_lease a) = true /\
                               app_of c' x = Some a' /\ dyn_eq a a' /\ a_server a' = Some n
  else app_of c' x = Some a.
Proof.
  intros H Ha. unfold attempt_spec in H. destruct ok.
  - destruct H as (c1 & n & s & Hsc & Hs & Hst & Hput).
    destruct (srv_put_self _ _ _ _ Hput) as (s1 & a1 & Hs1 & Ha1 & Hg & Hr).
    rewrite (app_of_sc _ _ _ Hsc), Ha in Ha1. inversion Ha1; subst a1. rewrite Hs in Hs1. inversion Hs1; subst s1.
    destruct (placed_rec_dyn c1 a n (a_lease a)) as [Hd Hsv].
    exists c1, n, s, (placed_rec c1 a n (a_lease a)).
    split; [exact Hsc|]. split; [exact Hs|]. split; [exact Hst|]. split; [exact Hg|]. split; [exact Hr|]. split; [exact Hd|exact Hsv].
  - rewrite (app_of_sc _ _ _ H). exact Ha.
Qed.

Lemma scan_placer_self x c c' a : scan_placer_spec x c c' -> app_of c x = Some a ->
  app_of c' x = Some a \/
  exists c1 n s a', psteps c c1 /\ get_srv n (c_servers c1) = Some s /\ s_state s = Up /\
                    put_guard c1 s a (a_lease a) = true /\ app_of c' x = Some a' /\ dyn_eq a a' /\ a_server a' = Some n.
Proof.
  intros [H|(c1 & n & s & Hp & Hx & Hs & Hst & Hput)] Ha; [left; congruence|]. right.
  destruct (srv_put_self _ _ _ _ Hput) as (s1 & a1 & Hs1 & Ha1 & Hg & Hr).
  rewrite Hx, Ha in Ha1. inversion Ha1; subst a1. rewrite Hs in Hs1. inversion Hs1; subst s1.
  destruct (placed_rec_dyn c1 a n (a_lease a)) as [Hd Hsv].
  exists c1, n, s, (placed_rec c1 a n (a_lease a)).
  split; [exact Hp|]. split; [exact Hs|]. split; [exact Hst|]. split; [exact Hg|]. split; [exact Hr|]. split; [exact Hd|exact Hsv].
Qed.

(** ** what a new placement guarantees, stated on the state at the start of the turn *)
Definition guard_facts (c : cell) (s : server) (a : app) : Prop :=
  (forall l, app_label a = Some l -> l = s_label s) /\
  (app_traits c a = 0 \/ has_traits (s_traits s) (app_traits c a) = true) /\
  (a_lease a = 0 \/ c_now c + a_lease a < s_valid_until s).

Lemma app_traits_static c c' a a' : c_parts c' = c_parts c -> stat_eq a a' -> app_traits c' a' = app_traits c a.
Proof.
  intros Hp Hs. unfold app_traits, app_alloc. destruct Hs as (_ & _ & _ & _ & _ & Ht & _ & _ & _ & _ & _ & Hal & _).
  rewrite Hal, Ht, Hp. reflexivity.
Qed.

Lemma guard_transfer c0 c1 s1 a0 a1 l :
  static_kept c0 c1 -> get_srv (s_name s1) (c_servers c1) = Some s1 -> s_state s1 = Up -> stat_eq a0 a1 ->
  l = a_lease a1 -> put_guard c1 s1 a1 l = true ->
  exists s0, get_srv (s_name s1) (c_servers c0) = Some s0 /\ s_state s0 = Up /\ guard_facts c0 s0 a0.
Proof.
  intros (Hnow & Hparts & _ & Hsrv) Hg Hst Hs -> Hgd.
  destruct (Hsrv _ _ Hg) as (s0 & Hs0 & (Hn & Hstt & Hlab & Htr & Hvu & _)).
  exists s0. split; [exact Hs0|]. split; [congruence|].
  destruct (put_guard_spec _ _ _ _ Hgd) as (G1 & G2 & G3 & _).
  pose proof (app_traits_static c0 c1 a0 a1 Hparts Hs) as Et.
  destruct Hs as (_ & _ & _ & _ & _ & _ & Hle & _ & _ & _ & _ & Hal & _).
  repeat split.
  - intros lb Hlb. rewrite <- Hlab. apply G1. unfold app_label in *. rewrite Hal. exact Hlb.
  - rewrite <- Et, <- Htr. exact G2.
  - rewrite <- Hle, <- Hnow, <- Hvu. exact G3.
Qed.

Definition has_id (a : app) : Prop := a_group a = None \/ a_identity a <> None.
Definition no_id (a : app) : Prop := a_group a = None \/ a_identity a = None.

From TM Require Import Sched.InvIdent.

Lemma group_none_iff c a n : Ident c -> app_of c n = Some a -> (group_of c a = None <-> a_group a = None).
Proof.
  intros HI Ha. unfold group_of. destruct (a_group a) as [g|] eqn:Eg; [|tauto].
  destruct (id_group_exists _ HI _ _ _ Ha Eg) as (grp & Hgrp). rewrite Hgrp. split; discriminate.
Qed.

(** the five ways an instance can come out of its own turn *)
Definition own_result (st : loopst) (x : Z) (a a' : app) : Prop :=
  stat_eq a a' /\
  ( (a_server a' = a_server a /\ a_identity a' = a_identity a /\ (a_blacklisted a = true \/ a_server a <> None))
  \/ (a_server a' = None /\ no_id a')
  \/ (exists sn ex, aget x (l_evicted st) = Some (sn, ex) /\ a_server a' = Some sn /\ has_id a')
  \/ (exists n s, a_server a' = Some n /\
                  get_srv n (c_servers (l_cell st)) = Some s /\ s_state s = Up /\
                  guard_facts (l_cell st) s a /\ has_id a')
  \/ (a_server a' = a_server a /\ a_server a <> None /\ a_renew a = true /\ has_id a') ).

Lemma has_id_dyn a a' : dyn_eq a a' -> has_id a -> has_id a'.
Proof.
  intros (_ & _ & _ & _ & _ & _ & _ & _ & Hg & _ & _ & _ & _ & Hi) [H|H]; [left|right]; congruence.
Qed.

(** the tail of the turn of a pending instance that holds an identity (or needs none) *)
Lemma place_tail_own rq st x a c4 a4 ev1 restore :
  psteps (l_cell st) c4 -> Ident c4 -> app_of c4 x = Some a4 -> stat_eq a a4 -> a_server a4 = None -> has_id a4 ->
  exists a', app_of (l_cell (place_tail rq st x c4 ev1 restore)) x = Some a' /\ stat_eq a a' /\
    ( (a_server a' = None /\ no_id a')
    \/ (exists n s, a_server a' = Some n /\ get_srv n (c_servers (l_cell st)) = Some s /\ s_state s = Up /\
                    guard_facts (l_cell st) s a /\ has_id a')
    \/ (exists n ex, restore = Some (n, ex) /\ a_server a' = Some n /\ has_id a') ).
Proof.
  intros Hp4 HI4 Ha4 Hst4 Hsv4 Hhas4. unfold place_tail.
  assert (Ha4' : get_app x (c_apps c4) = Some a4) by exact Ha4. rewrite Ha4'.
  assert (Hrel : forall c, psteps (l_cell st) c -> Ident c -> forall b, app_of c x = Some b -> stat_eq a b -> a_server b = None ->
            exists a', app_of (release_identity c x) x = Some a' /\ stat_eq a a' /\ a_server a' = None /\ no_id a').
  { intros c Hp HIc b Hb Hsb Hsvb. destruct (release_self _ _ _ Hb) as (a' & Ha' & Hs' & Hsv' & Hid').
    exists a'. split; [exact Ha'|]. split; [eapply stat_eq_trans; eassumption|]. split; [congruence|].
    destruct Hid' as [Hn|[Hg Hn]]; [right; exact Hn|]. left.
    destruct Hs' as (_ & _ & _ & _ & _ & _ & _ & _ & Hgr & _). rewrite Hgr.
    apply (proj1 (group_none_iff _ _ _ HIc Hb)). exact Hg. }
  destruct (a_once a4 && a_evicted a4).
  { cbn [l_cell set]. destruct (Hrel c4 Hp4 HI4 a4 Ha4 Hst4 Hsv4) as (a' & H1 & H2 & H3 & H4).
    exists a'. split; [exact H1|]. split; [exact H2|]. left. auto. }
  destruct (negb (tr_feasible (l_tracker st) a4)).
  { cbn [l_cell set]. destruct (Hrel c4 Hp4 HI4 a4 Ha4 Hst4 Hsv4) as (a' & H1 & H2 & H3 & H4).
    exists a'. split; [exact H1|]. split; [exact H2|]. left. auto. }
  (* a placement found somewhere gives the fourth shape *)
  assert (Hplaced : forall cput (n : Z) (s1 : server) (a5 : app) cfin,
            psteps (l_cell st) cput -> get_srv n (c_servers cput) = Some s1 -> s_state s1 = Up ->
            put_guard cput s1 a4 (a_lease a4) = true -> app_of cfin x = Some a5 -> dyn_eq a4 a5 -> a_server a5 = Some n ->
            exists a', app_of cfin x = Some a' /\ stat_eq a a' /\
              ( (a_server a' = None /\ no_id a')
              \/ (exists n s, a_server a' = Some n /\ get_srv n (c_servers (l_cell st)) = Some s /\ s_state s = Up /\
                              guard_facts (l_cell st) s a /\ has_id a')
              \/ (exists n ex, restore = Some (n, ex) /\ a_server a' = Some n /\ has_id a') )).
  { intros cput n s1 a5 cfin Hpp Hs1 Hup Hg H5 Hd5 Hsv5.
    exists a5. split; [exact H5|]. split; [eapply stat_eq_trans; [exact Hst4|apply dyn_stat; exact Hd5]|]. right. left.
    pose proof (get_srv_name _ _ _ Hs1) as Hn1. rewrite <- Hn1 in Hs1.
    destruct (guard_transfer (l_cell st) cput s1 a a4 (a_lease a4) (psteps_static _ _ Hpp) Hs1 Hup Hst4 eq_refl Hg)
      as (s0 & Hs0 & Hup0 & Hgf).
    rewrite Hn1 in Hs0. exists n, s0. repeat split; try assumption; try (apply Hgf).
    eapply has_id_dyn; eassumption. }
  pose proof (bucket_put_result (S (depth_fuel c4)) c4 (c_root c4) x) as Hatt. fold (cell_put c4 x) in Hatt.
  pose proof (cell_put_ps c4 x) as Hp5.
  destruct (cell_put c4 x) as [c5 ok]. cbn [fst snd] in Hatt, Hp5.
  pose proof (attempt_self _ _ _ _ _ Hatt Ha4) as Hself.
  destruct ok.
  - (* placed by Bucket.put *)
    destruct Hself as (c1 & n & s1 & a5 & Hsc & Hs1 & Hup & Hg & H5 & Hd5 & Hsv5).
    assert (E5 : get_app x (c_apps c5) = Some a5) by exact H5. rewrite E5, Hsv5. cbn [l_cell set].
    apply (Hplaced c1 n s1 a5 c5); try assumption. eapply ps_trans; [exact Hp4|apply ps_sc; exact Hsc].
  - (* eviction scan *)
    pose proof (evict_scan_placer rq x c5 ev1) as Hscan.
    pose proof (evict_scan_ps rq x c5 ev1) as Hp6.
    destruct (evict_scan rq x c5 ev1) as [c6 ev2]. cbn [fst] in Hscan, Hp6.
    destruct (scan_placer_self _ _ _ _ Hscan Hself) as [H6|(c1 & n & s1 & a6 & Hpp & Hs1 & Hup & Hg & H6 & Hd6 & Hsv6)].
    + (* nothing worked: the identity goes back *)
      assert (E6 : get_app x (c_apps c6) = Some a4) by exact H6. rewrite E6, Hsv4.
      assert (Hp6' : psteps (l_cell st) c6) by (eapply ps_trans; [exact Hp4|eapply ps_trans; eassumption]).
      assert (HI6 : Ident c6) by (eapply Ident_psteps; [eapply ps_trans; [exact Hp5|exact Hp6]|exact HI4]).
      destruct restore as [[rn rex]|].
      * (* back to the server of the failed renewal, if it still takes the instance *)
        destruct (srv_restore_self c6 rn x rex a4 H6) as (a7 & Ha7 & Hd7 & Hsv7).
        pose proof (srv_restore_ps c6 rn x rex) as Hp7.
        destruct (srv_restore c6 rn x rex) as [c7 ok7]. cbn [fst snd] in *.
        destruct ok7.
        -- cbn [l_cell set]. eexists. split; [apply upd_app_self; [reflexivity|exact Ha7]|].
           split; [eapply stat_eq_trans; [exact Hst4|]; eapply stat_eq_trans; [apply dyn_stat; exact Hd7|repeat split]|].
           right. right. exists rn, rex. split; [reflexivity|]. split; [exact Hsv7|].
           pose proof (has_id_dyn _ _ Hd7 Hhas4) as [Hg|Hn]; [left; exact Hg|right; exact Hn].
        -- unfold give_up. cbn [l_cell set].
           destruct (Hrel c7 (ps_trans _ _ _ Hp6' Hp7) (Ident_psteps _ _ Hp7 HI6) a7 Ha7
                          (stat_eq_trans _ _ _ Hst4 (dyn_stat _ _ Hd7)) (eq_trans Hsv7 Hsv4)) as (a' & H1 & H2 & H3 & H4).
           exists a'. split; [exact H1|]. split; [exact H2|]. left. auto.
      * unfold give_up. cbn [l_cell set].
        destruct (Hrel c6 Hp6' HI6 a4 H6 Hst4 Hsv4) as (a' & H1 & H2 & H3 & H4).
        exists a'. split; [exact H1|]. split; [exact H2|]. left. auto.
    + assert (E6 : get_app x (c_apps c6) = Some a6) by exact H6. rewrite E6, Hsv6. cbn [l_cell set].
      apply (Hplaced c1 n s1 a6 c6); try assumption.
      eapply ps_trans; [exact Hp4|]. eapply ps_trans; [exact Hp5|exact Hpp].
Qed.

Theorem place_one_own rq st x a :
  Acct (l_cell st) -> Ident (l_cell st) -> app_of (l_cell st) x = Some a ->
  (forall n, a_server a = Some n -> exists s, get_srv n (c_servers (l_cell st)) = Some s) ->
  exists a', app_of (l_cell (place_one rq st x)) x = Some a' /\ own_result st x a a'.
Proof.
  intros HA HI Ha Hmem. unfold own_result, place_one.
  assert (Ha' : get_app x (c_apps (l_cell st)) = Some a) by exact Ha. rewrite Ha'.
  destruct (a_blacklisted a) eqn:Ebl.
  { exists a. split; [exact Ha|]. split; [apply stat_eq_refl|]. left. auto. }
  destruct (Z.eqb (a_rank a) UNPLACED_RANK).
  { (* over the cap: removed and released *)
    destruct (a_server a) as [n|] eqn:Esv; cbn [l_cell set].
    - destruct (Hmem n eq_refl) as (s & Es).
      assert (Hin : In x (s_apps s)) by (eapply (ac_placed _ HA); eassumption).
      pose proof (srv_remove_self _ _ _ _ _ Es Ha Hin) as Hr.
      destruct (release_self _ _ _ Hr) as (a2 & Ha2 & Hs2 & Hsv2 & Hid2).
      exists a2. split; [exact Ha2|]. split; [eapply stat_eq_trans; [apply dyn_stat, removed_dyn|exact Hs2]|].
      right. left. split; [rewrite Hsv2; reflexivity|].
      destruct Hid2 as [Hn|[Hg Hn]]; [right; exact Hn|].
      left. assert (HI1 : Ident (srv_remove (l_cell st) n x)) by (eapply Ident_psteps; [apply srv_remove_ps|exact HI]).
      destruct Hs2 as (_ & _ & _ & _ & _ & _ & _ & _ & Hgr & _). rewrite Hgr.
      apply (proj1 (group_none_iff _ _ _ HI1 Hr)). exact Hg.
    - destruct (release_self _ _ _ Ha) as (a2 & Ha2 & Hs2 & Hsv2 & Hid2).
      exists a2. split; [exact Ha2|]. split; [exact Hs2|]. right. left. split; [rewrite Hsv2; exact Esv|].
      destruct Hid2 as [Hn|[Hg Hn]]; [right; exact Hn|].
      left. destruct Hs2 as (_ & _ & _ & _ & _ & _ & _ & _ & Hgr & _). rewrite Hgr.
      apply (proj1 (group_none_iff _ _ _ HI Ha)). exact Hg. }
  (* the renewal: either nothing happens to the placement, or the instance leaves its server for this turn *)
  set (cr := if a_renew a
             then match a_server a with
                  | Some n => let '(cr, ok) := srv_renew (l_cell st) n x in
                              if ok then (cr, None) else (srv_remove cr n x, Some (n, a_expiry a))
                  | None => (l_cell st, None)
                  end
             else (l_cell st, None)).
  assert (Hcr : psteps (l_cell st) (fst cr) /\ exists a1, app_of (fst cr) x = Some a1 /\ dyn_eq a a1 /\
            ( (snd cr = None /\ a_server a1 = a_server a) \/
              (exists n, snd cr = Some (n, a_expiry a) /\ a_server a = Some n /\ a_renew a = true /\ a_server a1 = None) )).
  { subst cr. destruct (a_renew a) eqn:Hren.
    2:{ cbn [fst snd]. split; [apply ps_refl|]. exists a. split; [exact Ha|]. split; [apply dyn_eq_refl|left; auto]. }
    destruct (a_server a) as [n|] eqn:Esv.
    2:{ cbn [fst snd]. split; [apply ps_refl|]. exists a. split; [exact Ha|]. split; [apply dyn_eq_refl|left; auto]. }
    destruct (Hmem n eq_refl) as (s & Es).
    pose proof (srv_renew_ps (l_cell st) n x) as Hp.
    unfold srv_renew in *. rewrite Es, Ha' in *.
    destruct (check_lifetime (l_cell st) a (a_lease a) s); cbn [fst snd] in *.
    - split; [exact Hp|]. eexists. split; [apply upd_app_self; [reflexivity|exact Ha]|]. split; [repeat split|].
      left. split; [reflexivity|]. cbn. exact Esv.
    - assert (Hin : In x (s_apps s)) by (eapply (ac_placed _ HA); eassumption).
      split; [apply srv_remove_ps|]. exists (removed a). split; [exact (srv_remove_self _ _ _ _ _ Es Ha Hin)|].
      split; [apply removed_dyn|]. right. exists n. auto. }
  destruct cr as [c1 restore]. cbn [fst snd] in Hcr. destruct Hcr as (Hp1 & a1 & Ha1 & Hd1 & Hwhich).
  set (c2 := c_upd_app x (fun z => z <| a_renew := false |>) c1).
  set (a2 := a1 <| a_renew := false |>).
  assert (Ha2 : app_of c2 x = Some a2) by (apply upd_app_self; [reflexivity|exact Ha1]).
  assert (Hd2 : dyn_eq a a2) by (eapply dyn_eq_trans; [exact Hd1|repeat split]).
  assert (Hp2 : psteps (l_cell st) c2) by (eapply ps_trans; [exact Hp1|apply ps_one, PS_soft, soft_renew]).
  assert (Ha2' : get_app x (c_apps c2) = Some a2) by exact Ha2. rewrite Ha2'.
  destruct (a_server a2) as [n0|] eqn:Esv2.
  { (* still placed: stays *)
    exists a2. cbn [l_cell set]. split; [exact Ha2|]. split; [apply dyn_stat; exact Hd2|]. left.
    assert (E1 : a_server a1 = Some n0) by exact Esv2.
    destruct Hwhich as [[_ E]|(n & _ & _ & _ & E)]; [|congruence].
    split; [congruence|]. split; [destruct Hd2 as (_ & _ & _ & _ & _ & _ & _ & _ & _ & _ & _ & _ & _ & Hi); exact Hi|].
    right. congruence. }
  assert (Esv1 : a_server a1 = None) by exact Esv2.
  assert (HI2 : Ident c2) by (eapply Ident_psteps; eassumption).
  destruct (acquire_self c2 x (aget x (l_choices st)) a2 Ha2)
    as [(Hgot & Hc3 & Hidn & Hgrp)|(Hgot & a3 & Ha3 & Hs3 & Hsv3 & Hex3 & Hev3 & Hid3)].
  { (* no identity to be had *)
    destruct (acquire_identity c2 x (aget x (l_choices st))) as [c3 got]. cbn [fst snd] in *. subst got c3. cbn [negb l_cell set].
    exists a2. split; [exact Ha2|]. split; [apply dyn_stat; exact Hd2|]. right. left.
    split; [exact Esv2|right; exact Hidn]. }
  pose proof (PS_acquire c2 x (aget x (l_choices st))) as Hpacq.
  destruct (acquire_identity c2 x (aget x (l_choices st))) as [c3 got]. cbn [fst snd] in *. subst got. cbn [negb].
  assert (Hp3 : psteps (l_cell st) c3) by (eapply ps_trans; [exact Hp2|apply ps_one; exact Hpacq]).
  assert (HI3 : Ident c3) by (eapply Ident_psteps; eassumption).
  assert (Hst3 : stat_eq a a3) by (eapply stat_eq_trans; [apply dyn_stat; exact Hd2|exact Hs3]).
  assert (Hsv3' : a_server a3 = None) by congruence.
  assert (Hhas3 : has_id a3).
  { destruct Hid3 as [Hg|Hn]; [left|right; exact Hn].
    destruct Hs3 as (_ & _ & _ & _ & _ & _ & _ & _ & Hgr & _). rewrite Hgr.
    apply (proj1 (group_none_iff _ _ _ HI2 Ha2)). exact Hg. }
  (* the tail: shapes two, four and five *)
  assert (Htail : forall c4 a4 ev1, psteps (l_cell st) c4 -> Ident c4 -> app_of c4 x = Some a4 -> stat_eq a a4 ->
            a_server a4 = None -> has_id a4 ->
            exists a', app_of (l_cell (place_tail rq st x c4 ev1 restore)) x = Some a' /\ stat_eq a a' /\
              ((a_server a' = a_server a /\ a_identity a' = a_identity a /\ (false = true \/ a_server a <> None)) \/
               (a_server a' = None /\ no_id a') \/
               (exists sn ex, aget x (l_evicted st) = Some (sn, ex) /\ a_server a' = Some sn /\ has_id a') \/
               (exists n s, a_server a' = Some n /\ get_srv n (c_servers (l_cell st)) = Some s /\
                            s_state s = Up /\ guard_facts (l_cell st) s a /\ has_id a') \/
               (a_server a' = a_server a /\ a_server a <> None /\ a_renew a = true /\ has_id a'))).
  { intros c4 a4 ev1 Hp4 HI4 Ha4 Hst4 Hsv4 Hhas4.
    destruct (place_tail_own rq st x a c4 a4 ev1 restore Hp4 HI4 Ha4 Hst4 Hsv4 Hhas4)
      as (a' & H1 & H2 & [H3|[(n & s & H3 & H4 & H5 & H6 & H7)|(n & ex & H3 & H4 & H5)]]).
    - exists a'. split; [exact H1|]. split; [exact H2|]. right. left. exact H3.
    - exists a'. split; [exact H1|]. split; [exact H2|]. right. right. right. left. exists n, s. auto 10.
    - exists a'. split; [exact H1|]. split; [exact H2|]. right. right. right. right.
      destruct Hwhich as [[E _]|(n1 & E & Esn & Ern & _)]; [congruence|].
      rewrite E in H3. inversion H3; subst n1. split; [congruence|]. split; [congruence|]. split; [exact Ern|exact H5]. }
  destruct (aget x (l_evicted st)) as [[sn ex]|] eqn:Eev.
  - destruct (srv_restore_self c3 sn x ex a3 Ha3) as (a4 & Ha4 & Hd4 & Hsv4).
    pose proof (srv_restore_ps c3 sn x ex) as Hp4.
    destruct (srv_restore c3 sn x ex) as [c4 ok4]. cbn [fst snd] in *.
    destruct ok4.
    + (* restored *)
      cbn [l_cell set]. eexists. split; [apply upd_app_self; [reflexivity|exact Ha4]|].
      split; [eapply stat_eq_trans; [exact Hst3|]; eapply stat_eq_trans; [apply dyn_stat; exact Hd4|repeat split]|].
      right. right. left. exists sn, ex. split; [reflexivity|]. split; [exact Hsv4|].
      pose proof (has_id_dyn _ _ Hd4 Hhas3) as [Hg|Hn]; [left; exact Hg|right; exact Hn].
    + (* restore failed: goes on as a pending instance *)
      apply (Htail c4 a4).
      * eapply ps_trans; eassumption.
      * eapply Ident_psteps; eassumption.
      * exact Ha4.
      * eapply stat_eq_trans; [exact Hst3|apply dyn_stat; exact Hd4].
      * congruence.
      * eapply has_id_dyn; eassumption.
  - apply (Htail c3 a3); assumption.
Qed.

(** ** the whole loop *)
Lemma before_placer_app l1 y l2 : ~ In y l1 -> before_placer (l1 ++ y :: l2) y = l1.
Proof.
  induction l1 as [|v r IH]; cbn; intros Hn.
  - rewrite Z.eqb_refl. reflexivity.
  - destruct (Z.eqb_spec v y) as [->|Hne]; [exfalso; apply Hn; left; reflexivity|].
    f_equal. apply IH. intros H. apply Hn. right. exact H.
Qed.
Lemma before_placer_rev pre y post : NoDup (pre ++ y :: post) -> before_placer (rev (pre ++ y :: post)) y = rev post.
Proof.
  intros Hnd. rewrite rev_app_distr. cbn [rev]. rewrite <- app_assoc. cbn [List.app].
  apply before_placer_app. intros Hin. apply in_rev in Hin.
  apply NoDup_remove_2 in Hnd. apply Hnd. apply in_or_app. right. exact Hin.
Qed.

(** every instance that names a server names a server of the cell *)
Definition Mem (c : cell) : Prop :=
  forall x a n, app_of c x = Some a -> a_server a = Some n -> exists s, get_srv n (c_servers c) = Some s.

Lemma Mem_pstep c c' : pstep c c' -> Mem c -> Mem c'.
Proof.
  intros Hs HM. pose proof (pstep_static _ _ Hs) as (_ & _ & _ & Hsk).
  assert (Hsrv : forall n, (exists s, get_srv n (c_servers c) = Some s) -> exists s', get_srv n (c_servers c') = Some s').
  { intros n (s & Hg). destruct Hs; cbn [c_upd_app c_servers set]; try (exists s; exact Hg).
    - destruct H as (_ & _ & H3 & _). rewrite H3. exists s. exact Hg.
    - unfold prim_put. cbn [c_upd_app c_upd_srv c_servers set].
      set (fs := fun x : server => x <| s_free := vsub (s_free x) (a_demand a) |>
                                      <| s_apps ::= (fun l => l ++ [aname]) |> <| s_counters ::= cadd (a_aff a) 1 |>).
      destruct (Z.eq_dec n sname) as [->|Hne].
      + rewrite (get_upd_srv_same sname fs _ s0 (fun x => eq_refl) H). eexists; reflexivity.
      + rewrite get_upd_srv_other; [exists s; exact Hg|reflexivity|exact Hne].
    - unfold prim_remove. cbn [c_upd_app c_upd_srv c_servers set].
      set (fs := fun x : server => x <| s_free := vadd (s_free x) (a_demand a) |> <| s_apps ::= zremove aname |>
                                      <| s_counters ::= cadd (a_aff a) (-1) |>).
      destruct (Z.eq_dec n sname) as [->|Hne].
      + rewrite (get_upd_srv_same sname fs _ s0 (fun x => eq_refl) H). eexists; reflexivity.
      + rewrite get_upd_srv_other; [exists s; exact Hg|reflexivity|exact Hne].
    - assert (E : c_servers (release_identity c aname) = c_servers c).
      { unfold release_identity. destruct (get_app aname (c_apps c)) as [x|]; [|reflexivity].
        destruct (group_of c x) as [[g grp]|]; [|reflexivity]. destruct (a_identity x); reflexivity. }
      rewrite E. exists s. exact Hg.
    - assert (E : c_servers (fst (acquire_identity c aname ch)) = c_servers c).
      { unfold acquire_identity. destruct (get_app aname (c_apps c)) as [x|]; [|reflexivity].
        destruct (group_of c x) as [[g grp]|]; [|reflexivity]. destruct (a_identity x); [reflexivity|].
        destruct (g_avail grp); reflexivity. }
      rewrite E. exists s. exact Hg. }
  intros x a' n Ha' Hsv'.
  (* where does the server name of x come from? either it was there before, or it is the target of a put *)
  destruct Hs.
  - apply Hsrv. rewrite (app_of_sc _ _ _ H) in Ha'. eapply HM; eassumption.
  - destruct (Z.eq_dec x aname) as [->|Hne].
    + apply Hsrv. assert (n = sname).
      { unfold prim_put, app_of in Ha'. cbn [c_upd_app c_upd_srv c_apps set] in Ha'.
        set (fa := fun z : app => (match a_expiry z with
                                   | None => z <| a_expiry := Some (c_now c + lease) |>
                                   | Some _ => z
                                   end) <| a_server := Some sname |>) in Ha'.
        assert (Hfa : forall z, a_name (fa z) = a_name z) by (intros z; unfold fa; destruct (a_expiry z); reflexivity).
        rewrite (get_upd_app_same aname fa _ a Hfa H0) in Ha'. inversion Ha'; subst a'. unfold fa in Hsv'.
        destruct (a_expiry a); cbn in Hsv'; congruence. }
      subst n. exists s. exact H.
    + apply Hsrv. destruct (prim_put_frame c sname aname a lease) as [_ Hf]. unfold app_of in Ha'. rewrite (Hf x Hne) in Ha'.
      eapply HM; eassumption.
  - destruct (Z.eq_dec x aname) as [->|Hne].
    + exfalso. unfold prim_remove, app_of in Ha'. cbn [c_upd_app c_upd_srv c_apps set] in Ha'.
      set (fa := fun z : app => z <| a_server := None |> <| a_evicted := true |> <| a_unschedule := false |>
                                  <| a_expiry := None |>) in Ha'.
      rewrite (get_upd_app_same aname fa _ a (fun z => eq_refl) H0) in Ha'. inversion Ha'; subst a'. cbn in Hsv'. discriminate.
    + apply Hsrv. destruct (prim_remove_frame c sname aname a) as [_ Hf]. unfold app_of in Ha'. rewrite (Hf x Hne) in Ha'.
      eapply HM; eassumption.
  - apply Hsrv. destruct (Z.eq_dec x aname) as [->|Hne].
    + unfold app_of in Ha'. cbn [c_upd_app c_apps set] in Ha'.
      destruct (get_app aname (c_apps c)) as [a0|] eqn:E0.
      * rewrite (get_upd_app_same aname f _ a0 (fun z => proj1 (H z)) E0) in Ha'. inversion Ha'; subst a'.
        destruct (H a0) as (_ & _ & _ & _ & _ & _ & _ & _ & _ & _ & _ & _ & Hsv0 & _). rewrite Hsv0 in Hsv'.
        eapply HM; [exact E0|exact Hsv'].
      * rewrite (get_upd_app_none _ _ _ E0) in Ha'. congruence.
    + rewrite upd_app_other in Ha'; [eapply HM; eassumption|intros z; apply (proj1 (H z))|exact Hne].
  - apply Hsrv. destruct (Z.eq_dec x aname) as [->|Hne].
    + exfalso. unfold app_of in Ha'. cbn [c_upd_app c_apps set] in Ha'.
      set (fu := fun x0 : app => x0 <| a_server := None |> <| a_evicted := true |>) in Ha'.
      rewrite (get_upd_app_same aname fu _ a (fun z => eq_refl) H) in Ha'. inversion Ha'; subst a'. cbn in Hsv'. discriminate.
    + rewrite upd_app_other in Ha'; [eapply HM; eassumption|reflexivity|exact Hne].
  - apply Hsrv. destruct (Z.eq_dec x aname) as [->|Hne].
    + destruct (app_of c aname) as [a0|] eqn:E0.
      * destruct (release_self _ _ _ E0) as (a1 & Ha1 & _ & Hsv1 & _). rewrite Ha1 in Ha'. inversion Ha'; subst a'.
        rewrite Hsv1 in Hsv'. eapply HM; eassumption.
      * unfold release_identity in Ha'. unfold app_of in E0. rewrite E0 in Ha'. unfold app_of in Ha'. congruence.
    + rewrite release_app in Ha' by exact Hne. eapply HM; eassumption.
  - apply Hsrv. destruct (Z.eq_dec x aname) as [->|Hne].
    + destruct (app_of c aname) as [a0|] eqn:E0.
      * destruct (acquire_self c aname ch a0 E0) as [(_ & Hc & _)|(_ & a1 & Ha1 & _ & Hsv1 & _)].
        -- rewrite Hc in Ha'. rewrite E0 in Ha'. inversion Ha'; subst a'. eapply HM; eassumption.
        -- rewrite Ha1 in Ha'. inversion Ha'; subst a'. rewrite Hsv1 in Hsv'. eapply HM; eassumption.
      * unfold acquire_identity in Ha'. unfold app_of in E0. rewrite E0 in Ha'. cbn [fst] in Ha'. unfold app_of in Ha'. congruence.
    + rewrite acquire_app in Ha' by exact Hne. eapply HM; eassumption.
  - apply Hsrv. destruct (Z.eq_dec x aname) as [->|Hne].
    + unfold app_of in Ha'. cbn [c_upd_app c_apps set] in Ha'.
      set (fu := fun x0 : app => x0 <| a_identity := None |>) in Ha'.
      rewrite (get_upd_app_same aname fu _ a (fun z => eq_refl) H) in Ha'. inversion Ha'; subst a'. cbn in Hsv'.
      eapply HM; [exact H|exact Hsv'].
    + rewrite upd_app_other in Ha'; [eapply HM; eassumption|reflexivity|exact Hne].
Qed.
Lemma Mem_psteps c c' : psteps c c' -> Mem c -> Mem c'.
Proof. induction 1; [apply Mem_pstep; assumption|tauto|tauto]. Qed.

Record pre_ok (c : cell) (x : Z) (a : app) : Prop := {
  po_app : app_of c x = Some a;
  po_id : a_server a <> None -> has_id a;
  po_bl : a_blacklisted a = true -> a_server a = None /\ no_id a
}.

Definition fin_ok (c : cell) (a a' : app) : Prop :=
  stat_eq a a' /\
  (a_server a' = None -> no_id a') /\ (a_server a' <> None -> has_id a') /\
  (forall n, a_server a' = Some n -> a_server a <> Some n ->
     exists s, get_srv n (c_servers c) = Some s /\ s_state s = Up /\ guard_facts c s a).

Lemma guard_facts_back c st_c s a a1 n :
  static_kept c st_c -> get_srv n (c_servers st_c) = Some s -> s_state s = Up -> stat_eq a a1 -> guard_facts st_c s a1 ->
  exists s0, get_srv n (c_servers c) = Some s0 /\ s_state s0 = Up /\ guard_facts c s0 a.
Proof.
  intros (Hnow & Hparts & _ & Hsrv) Hg Hup Hs (G1 & G2 & G3).
  destruct (Hsrv _ _ Hg) as (s0 & Hs0 & (Hn & Hstt & Hlab & Htr & Hvu & _)).
  exists s0. split; [exact Hs0|]. split; [congruence|].
  pose proof (app_traits_static c st_c a a1 Hparts Hs) as Et.
  destruct Hs as (_ & _ & _ & _ & _ & _ & Hle & _ & _ & _ & _ & Hal & _).
  repeat split.
  - intros lb Hlb. rewrite <- Hlab. apply G1. unfold app_label in *. rewrite Hal. exact Hlb.
  - rewrite <- Et, <- Htr. exact G2.
  - rewrite <- Hle, <- Hnow, <- Hvu. exact G3.
Qed.

Lemma no_id_stat a a' : stat_eq a a' -> a_identity a' = a_identity a -> no_id a -> no_id a'.
Proof. intros (_ & _ & _ & _ & _ & _ & _ & _ & Hg & _) Hi [H|H]; [left|right]; congruence. Qed.
Lemma has_id_stat a a' : stat_eq a a' -> a_identity a' = a_identity a -> has_id a -> has_id a'.
Proof. intros (_ & _ & _ & _ & _ & _ & _ & _ & Hg & _) Hi [H|H]; [left|right]; congruence. Qed.

(** state of the loop after the prefix [pre], with [post] still to come *)
Record loop_inv (c : cell) (st : loopst) (pre post : list Z) : Prop := {
  li_steps : psteps c (l_cell st);
  li_acct : Acct (l_cell st);
  li_ident : Ident (l_cell st);
  li_mem : Mem (l_cell st);
  li_done : forall x a, In x pre -> pre_ok c x a -> exists a', app_of (l_cell st) x = Some a' /\ fin_ok c a a';
  li_todo : forall x a, In x post -> pre_ok c x a ->
      (app_of (l_cell st) x = Some a /\ aget x (l_evicted st) = None) \/
      (exists sn, a_server a = Some sn /\ app_of (l_cell st) x = Some (removed a) /\
                  aget x (l_evicted st) = Some (sn, a_expiry a));
  li_out : forall x, ~ In x (pre ++ post) -> app_of (l_cell st) x = app_of c x
}.

Lemma loop_step c q pre y post st :
  q = pre ++ y :: post -> NoDup q -> loop_inv c st pre (y :: post) ->
  loop_inv c (place_one (rev q) st y) (pre ++ [y]) post.
Proof.
  intros Hq Hnd [J1 J2 J3 J4 J5 J6 J7].
  pose proof (place_one_ps (rev q) st y) as Hps.
  assert (Hbp : before_placer (rev q) y = rev post) by (rewrite Hq; apply before_placer_rev; rewrite <- Hq; exact Hnd).
  assert (Hy_pre : ~ In y pre) by (rewrite Hq in Hnd; apply NoDup_remove_2 in Hnd; intros H; apply Hnd; apply in_or_app; left; exact H).
  assert (Hy_post : ~ In y post) by (rewrite Hq in Hnd; apply NoDup_remove_2 in Hnd; intros H; apply Hnd; apply in_or_app; right; exact H).
  assert (Hdisj : forall x, In x pre -> ~ In x post).
  { intros x Hx Hx'. rewrite Hq in Hnd. clear -Hnd Hx Hx'. induction pre as [|p r IH]; [destruct Hx|].
    cbn in Hnd. inversion Hnd as [|? ? Hni Hr]; subst. destruct Hx as [->|Hx]; [|apply IH; assumption].
    apply Hni. apply in_or_app. right. right. exact Hx'. }
  constructor.
  - eapply ps_trans; eassumption.
  - eapply Acct_psteps; eassumption.
  - eapply Ident_psteps; eassumption.
  - eapply Mem_psteps; eassumption.
  - (* finished instances *)
    intros x a Hin Hpo. apply in_app_or in Hin as [Hin|[<-|[]]].
    + (* earlier ones are not touched any more *)
      destruct (J5 x a Hin Hpo) as (a' & Ha' & Hfin). exists a'. split; [|exact Hfin].
      assert (Hxy : x <> y) by (intros ->; contradiction).
      destruct (place_one_other (rev q) st y x J2 Hxy) as [[H _]|(Hbad & _)]; [rewrite H; exact Ha'|].
      rewrite Hbp in Hbad. apply in_rev in Hbad. exfalso. eapply Hdisj; eassumption.
    + (* the instance whose turn it is *)
      destruct (J6 y a (or_introl eq_refl) Hpo) as [[Hcur Hev]|(sn & Hsv & Hcur & Hev)].
      * destruct (place_one_own (rev q) st y a J2 J3 Hcur) as (a' & Ha' & Hst & Hres).
        { intros n Hn. eapply J4; eassumption. }
        exists a'. split; [exact Ha'|]. split; [exact Hst|].
        destruct Hres as [(Hs & Hi & Hwhy)|[(Hs & Hn)|[(sn & ex & Hev' & _)|[(n & s & Hs & Hg & Hup & Hgf & Hh)|(Hs & Hne & _ & Hh)]]]].
        -- split; [|split].
           ++ intros H0. rewrite Hs in H0. destruct Hwhy as [Hbl|Hne]; [|contradiction].
              eapply no_id_stat; [exact Hst|exact Hi|]. apply (po_bl _ _ _ Hpo Hbl).
           ++ intros H0. rewrite Hs in H0. eapply has_id_stat; [exact Hst|exact Hi|]. apply (po_id _ _ _ Hpo H0).
           ++ intros n H1 H2. rewrite Hs in H1. contradiction.
        -- split; [intros _; exact Hn|]. split; [intros H0; rewrite Hs in H0; contradiction|].
           intros n H1. rewrite Hs in H1. discriminate.
        -- rewrite Hev in Hev'. discriminate.
        -- split; [intros H0; rewrite Hs in H0; discriminate|]. split; [intros _; exact Hh|].
           intros n' H1 _. rewrite Hs in H1. inversion H1; subst n'.
           eapply guard_facts_back; [apply psteps_static; exact J1|exact Hg|exact Hup|apply stat_eq_refl|exact Hgf].
        -- split; [intros H0; rewrite Hs in H0; contradiction|]. split; [intros _; exact Hh|].
           intros n H1 H2. rewrite Hs in H1. contradiction.
      * destruct (place_one_own (rev q) st y (removed a) J2 J3 Hcur) as (a' & Ha' & Hst & Hres).
        { intros n Hn. cbn in Hn. discriminate. }
        assert (Hst' : stat_eq a a') by (eapply stat_eq_trans; [apply dyn_stat, removed_dyn|exact Hst]).
        exists a'. split; [exact Ha'|]. split; [exact Hst'|].
        destruct Hres as [(Hs & Hi & Hwhy)|[(Hs & Hn)|[(sn' & ex' & Hev' & Hs & Hh)|[(n & s & Hs & Hg & Hup & Hgf & Hh)|(_ & Hne & _)]]]].
        -- exfalso. destruct Hwhy as [Hbl|Hne]; [|apply Hne; reflexivity].
           cbn in Hbl. destruct (po_bl _ _ _ Hpo Hbl) as [H0 _]. congruence.
        -- split; [intros _; exact Hn|]. split; [intros H0; rewrite Hs in H0; contradiction|].
           intros n H1. rewrite Hs in H1. discriminate.
        -- rewrite Hev in Hev'. inversion Hev'; subst sn' ex'.
           split; [intros H0; rewrite Hs in H0; discriminate|]. split; [intros _; exact Hh|].
           intros n H1 H2. rewrite Hs in H1. inversion H1; subst n. contradiction.
        -- split; [intros H0; rewrite Hs in H0; discriminate|]. split; [intros _; exact Hh|].
           intros n' H1 _. rewrite Hs in H1. inversion H1; subst n'.
           eapply guard_facts_back; [apply psteps_static; exact J1|exact Hg|exact Hup|apply dyn_stat, removed_dyn|exact Hgf].
        -- exfalso. apply Hne. reflexivity.
  - (* instances still to come *)
    intros x a Hin Hpo.
    assert (Hxy : x <> y) by (intros ->; contradiction).
    destruct (J6 x a (or_intror Hin) Hpo) as [[Hcur Hev]|(sn & Hsv & Hcur & Hev)].
    + destruct (place_one_other (rev q) st y x J2 Hxy) as [[H1 H2]|(_ & a0 & sn & s & Ha0 & Hsv0 & _ & _ & Hr1 & Hr2)].
      * left. split; [rewrite H1; exact Hcur|rewrite H2; exact Hev].
      * rewrite Hcur in Ha0. inversion Ha0; subst a0. right. exists sn. auto.
    + destruct (place_one_other (rev q) st y x J2 Hxy) as [[H1 H2]|(_ & a0 & sn0 & s & Ha0 & Hsv0 & _)].
      * right. exists sn. split; [exact Hsv|]. split; [rewrite H1; exact Hcur|rewrite H2; exact Hev].
      * rewrite Hcur in Ha0. inversion Ha0; subst a0. cbn in Hsv0. discriminate.
  - (* instances outside the queue *)
    intros x Hx. assert (Hxq : ~ In x q) by (rewrite Hq; intros H; apply Hx; rewrite <- app_assoc; exact H).
    assert (Hxy : x <> y) by (intros ->; apply Hxq; rewrite Hq; apply in_or_app; right; left; reflexivity).
    destruct (place_one_other (rev q) st y x J2 Hxy) as [[H _]|(Hbad & _)].
    + rewrite H. apply J7. rewrite <- Hq. exact Hxq.
    + exfalso. rewrite Hbp in Hbad. apply in_rev in Hbad. apply Hxq. rewrite Hq. apply in_or_app. right. right. exact Hbad.
Qed.

Theorem find_placements_final c q ch :
  NoDup q -> Acct c -> Ident c -> Mem c ->
  forall x a, In x q -> pre_ok c x a ->
  exists a', app_of (find_placements c q ch) x = Some a' /\ fin_ok c a a'.
Proof.
  intros Hnd HA HI HM. unfold find_placements.
  assert (G : forall post pre st, q = pre ++ post -> loop_inv c st pre post ->
              loop_inv c (fold_left (place_one (rev q)) post st) q []).
  { induction post as [|y post IH]; intros pre st Hq HJ; cbn [fold_left].
    - rewrite app_nil_r in Hq. subst pre. exact HJ.
    - apply (IH (pre ++ [y])); [rewrite <- app_assoc; exact Hq|]. eapply loop_step; eassumption. }
  assert (H0 : loop_inv c (mkLoop c [] [] ch) [] q).
  { constructor; cbn [l_cell l_evicted]; try assumption; [apply ps_refl|intros x a []| |reflexivity].
    intros x a _ Hpo. left. split; [apply (po_app _ _ _ Hpo)|reflexivity]. }
  pose proof (G q [] _ eq_refl H0) as HJ.
  intros x a Hin Hpo. exact (li_done _ _ _ _ HJ x a Hin Hpo).
Qed.

Theorem find_placements_frame c q ch x :
  NoDup q -> Acct c -> Ident c -> Mem c -> ~ In x q -> app_of (find_placements c q ch) x = app_of c x.
Proof.
  intros Hnd HA HI HM Hx. unfold find_placements.
  assert (G : forall post pre st, q = pre ++ post -> loop_inv c st pre post ->
              loop_inv c (fold_left (place_one (rev q)) post st) q []).
  { induction post as [|y post IH]; intros pre st Hq HJ; cbn [fold_left].
    - rewrite app_nil_r in Hq. subst pre. exact HJ.
    - apply (IH (pre ++ [y])); [rewrite <- app_assoc; exact Hq|]. eapply loop_step; eassumption. }
  assert (H0 : loop_inv c (mkLoop c [] [] ch) [] q).
  { constructor; cbn [l_cell l_evicted]; try assumption; [apply ps_refl|intros y a []| |reflexivity].
    intros y a _ Hpo. left. split; [apply (po_app _ _ _ Hpo)|reflexivity]. }
  pose proof (G q [] _ eq_refl H0) as HJ. apply (li_out _ _ _ _ HJ). rewrite app_nil_r. exact Hx.
Qed.

(** ** the phases before the queue: what they can do to one instance *)
Definition touched (a a' : app) : Prop :=
  stat_eq a a' /\ a_renew a' = a_renew a /\
  ( (a_server a' = a_server a /\ a_identity a' = a_identity a)
  \/ (a_server a' = None /\ (a_identity a' = None \/ a_identity a' = a_identity a)) ).

Lemma touched_refl a : touched a a.
Proof. split; [apply stat_eq_refl|]. split; [reflexivity|left; auto]. Qed.
Lemma touched_trans a b c : touched a b -> touched b c -> touched a c.
Proof.
  intros (H1 & H2 & H3) (G1 & G2 & G3). split; [eapply stat_eq_trans; eassumption|]. split; [congruence|].
  destruct H3 as [[S1 I1]|[S1 I1]]; destruct G3 as [[S2 I2]|[S2 I2]].
  - left. split; congruence.
  - right. split; [exact S2|]. destruct I2 as [I2|I2]; [left; exact I2|right; congruence].
  - right. split; [congruence|]. destruct I1 as [I1|I1]; [left; congruence|right; congruence].
  - right. split; [exact S2|]. destruct I2 as [I2|I2]; [left; exact I2|]. destruct I1 as [I1|I1]; [left; congruence|right; congruence].
Qed.

Definition all_touched (c c' : cell) : Prop :=
  forall x a, app_of c x = Some a -> exists a', app_of c' x = Some a' /\ touched a a'.
Lemma all_touched_refl c : all_touched c c.
Proof. intros x a H. exists a. split; [exact H|apply touched_refl]. Qed.
Lemma all_touched_trans a b c : all_touched a b -> all_touched b c -> all_touched a c.
Proof.
  intros H1 H2 x r Hr. destruct (H1 _ _ Hr) as (r1 & Hr1 & T1). destruct (H2 _ _ Hr1) as (r2 & Hr2 & T2).
  exists r2. split; [exact Hr2|eapply touched_trans; eassumption].
Qed.

Lemma at_srv_remove c sn v : Acct c -> all_touched c (srv_remove c sn v).
Proof.
  intros HA x a Ha. destruct (Z.eq_dec x v) as [->|Hne].
  - unfold srv_remove. destruct (get_srv sn (c_servers c)) as [s|] eqn:Es; [|exists a; split; [exact Ha|apply touched_refl]].
    assert (Ha' : get_app v (c_apps c) = Some a) by exact Ha. rewrite Ha'.
    destruct (zmem v (s_apps s)) eqn:Em; cbn [negb]; [|exists a; split; [exact Ha|apply touched_refl]].
    apply zmem_In in Em. pose proof (srv_remove_self _ _ _ _ _ Es Ha Em) as Hr.
    unfold srv_remove in Hr. rewrite Es, Ha' in Hr. apply zmem_In in Em. rewrite Em in Hr. cbn [negb] in Hr.
    exists (removed a). split; [exact Hr|]. split; [apply dyn_stat, removed_dyn|]. split; [reflexivity|right; split; [reflexivity|right; reflexivity]].
  - exists a. split; [rewrite srv_remove_app by exact Hne; exact Ha|apply touched_refl].
Qed.

(** release of an instance that names no server *)
Lemma at_release c v : (forall a, app_of c v = Some a -> a_server a = None) -> all_touched c (release_identity c v).
Proof.
  intros Hnone x a Ha. destruct (Z.eq_dec x v) as [->|Hne].
  - destruct (release_self _ _ _ Ha) as (a' & Ha' & Hs & Hsv & Hid). exists a'. split; [exact Ha'|].
    split; [exact Hs|]. split.
    + unfold release_identity in Ha'. assert (E : get_app v (c_apps c) = Some a) by exact Ha. rewrite E in Ha'.
      destruct (group_of c a) as [[g grp]|]; [|unfold app_of in Ha'; rewrite E in Ha'; inversion Ha'; reflexivity].
      destruct (a_identity a); [|unfold app_of in Ha'; rewrite E in Ha'; inversion Ha'; reflexivity].
      unfold app_of in Ha'. cbn [c_upd_app c_apps set] in Ha'.
      set (fi := fun z : app => z <| a_identity := None |>) in Ha'.
      rewrite (get_upd_app_same v fi _ a (fun z => eq_refl) E) in Ha'. inversion Ha'. reflexivity.
    + right. split; [rewrite Hsv; apply Hnone; exact Ha|]. destruct Hid as [H|[_ H]]; [left; exact H|right; exact H].
  - exists a. split; [rewrite release_app by exact Hne; exact Ha|apply touched_refl].
Qed.

Lemma srv_remove_then_none c sn v a :
  Acct c -> app_of c v = Some a -> a_server a = Some sn -> (exists s, get_srv sn (c_servers c) = Some s) ->
  forall a1, app_of (srv_remove c sn v) v = Some a1 -> a_server a1 = None.
Proof.
  intros HA Ha Hsv (s & Hs) a1 H1.
  assert (Hin : In v (s_apps s)) by (eapply (ac_placed _ HA); eassumption).
  rewrite (srv_remove_self _ _ _ _ _ Hs Ha Hin) in H1. inversion H1. reflexivity.
Qed.

Lemma all_touched_fold {A} (g : cell -> A -> cell) (Inv : cell -> Prop) (l : list A) :
  (forall c e, Inv c -> all_touched c (g c e) /\ Inv (g c e)) ->
  forall c, Inv c -> all_touched c (fold_left g l c) /\ Inv (fold_left g l c).
Proof.
  intros Hg. induction l as [|e r IH]; intros c Hc; cbn [fold_left]; [split; [apply all_touched_refl|exact Hc]|].
  destruct (Hg c e Hc) as [H1 H2]. destruct (IH _ H2) as [H3 H4]. split; [eapply all_touched_trans; eassumption|exact H4].
Qed.

Definition AM (c : cell) : Prop := Acct c /\ Mem c.

(** phase 1 *)
Lemma at_unplace c v : all_touched c (c_upd_app v (fun z => z <| a_server := None |> <| a_evicted := true |>) c).
Proof.
  intros x a Ha. destruct (Z.eq_dec x v) as [->|Hne].
  - eexists. split; [apply upd_app_self; [reflexivity|exact Ha]|]. split; [repeat split|]. split; [reflexivity|].
    right. split; [reflexivity|right; reflexivity].
  - exists a. split; [rewrite upd_app_other by auto; exact Ha|apply touched_refl].
Qed.

Lemma at_phase1_step c a0 :
  Acct c -> all_touched c (match get_app (a_name a0) (c_apps c) with
                           | Some a => match a_server a with
                                       | Some n => if is_member c n then c
                                                   else release_identity (c_upd_app (a_name a) (fun z => z <| a_server := None |> <| a_evicted := true |>) c) (a_name a)
                                       | None => c
                                       end
                           | None => c
                           end).
Proof.
  intros HA. destruct (get_app (a_name a0) (c_apps c)) as [a|] eqn:Ea; [|apply all_touched_refl].
  destruct (a_server a) as [n|]; [|apply all_touched_refl]. destruct (is_member c n); [apply all_touched_refl|].
  eapply all_touched_trans; [apply at_unplace|]. apply at_release.
  intros b Hb. pose proof (get_app_name _ _ _ Ea) as Hn.
  set (fu := fun z : app => z <| a_server := None |> <| a_evicted := true |>) in *.
  assert (Ea' : app_of c (a_name a) = Some a) by (unfold app_of; rewrite Hn; exact Ea).
  rewrite (upd_app_self c (a_name a) fu a (fun z => eq_refl) Ea') in Hb.
  inversion Hb. reflexivity.
Qed.

Lemma at_phase1 c : Acct c -> all_touched c (fix_invalid_placements c) /\ Acct (fix_invalid_placements c).
Proof.
  intros HA. unfold fix_invalid_placements.
  apply (all_touched_fold _ Acct); [|exact HA]. intros c0 a0 H0. split; [apply at_phase1_step; exact H0|].
  assert (Hps : psteps c0 (match get_app (a_name a0) (c_apps c0) with
                           | Some a => match a_server a with
                                       | Some n => if is_member c0 n then c0
                                                   else release_identity (c_upd_app (a_name a) (fun z => z <| a_server := None |> <| a_evicted := true |>) c0) (a_name a)
                                       | None => c0
                                       end
                           | None => c0
                           end)).
  { destruct (get_app (a_name a0) (c_apps c0)) as [a|] eqn:Ea; [|apply ps_refl].
    destruct (a_server a) as [n|] eqn:Es; [|apply ps_refl]. unfold is_member.
    destruct (get_srv n (c_servers c0)) eqn:En; [apply ps_refl|].
    pose proof (get_app_name _ _ _ Ea) as Hn. rewrite Hn.
    eapply ps_trans; [apply ps_one; eapply PS_unplace; eassumption|apply ps_one, PS_release]. }
  eapply Acct_psteps; eassumption.
Qed.

Definition mem_rec (c : cell) (x : Z) : Prop :=
  forall a n, app_of c x = Some a -> a_server a = Some n -> exists s, get_srv n (c_servers c) = Some s.

Definition phase1_step (c : cell) (a0 : app) : cell :=
  match get_app (a_name a0) (c_apps c) with
  | Some a => match a_server a with
              | Some n => if is_member c n then c
                          else release_identity (c_upd_app (a_name a) (fun z => z <| a_server := None |> <| a_evicted := true |>) c) (a_name a)
              | None => c
              end
  | None => c
  end.

Lemma release_servers c v : c_servers (release_identity c v) = c_servers c.
Proof.
  unfold release_identity. destruct (get_app v (c_apps c)) as [x|]; [|reflexivity].
  destruct (group_of c x) as [[g grp]|]; [|reflexivity]. destruct (a_identity x); reflexivity.
Qed.

Lemma phase1_step_servers c a0 : c_servers (phase1_step c a0) = c_servers c.
Proof.
  unfold phase1_step. destruct (get_app (a_name a0) (c_apps c)) as [a|]; [|reflexivity].
  destruct (a_server a); [|reflexivity]. destruct (is_member c z); [reflexivity|]. rewrite release_servers. reflexivity.
Qed.
Lemma phase1_step_other c a0 x : x <> a_name a0 -> app_of (phase1_step c a0) x = app_of c x.
Proof.
  intros Hne. unfold phase1_step. destruct (get_app (a_name a0) (c_apps c)) as [a|] eqn:Ea; [|reflexivity].
  pose proof (get_app_name _ _ _ Ea) as Hn.
  destruct (a_server a); [|reflexivity]. destruct (is_member c z); [reflexivity|].
  rewrite release_app by congruence. apply upd_app_other; [reflexivity|congruence].
Qed.
Lemma phase1_step_own c a0 : mem_rec (phase1_step c a0) (a_name a0).
Proof.
  intros a' n Ha' Hsv. rewrite phase1_step_servers. unfold phase1_step in Ha'.
  destruct (get_app (a_name a0) (c_apps c)) as [a|] eqn:Ea.
  - pose proof (get_app_name _ _ _ Ea) as Hn.
    destruct (a_server a) as [m|] eqn:Esv.
    + unfold is_member in Ha'. destruct (get_srv m (c_servers c)) as [s|] eqn:Em.
      * unfold app_of in Ha'. rewrite Ea in Ha'. inversion Ha'; subst a'. rewrite Esv in Hsv. inversion Hsv; subst. eauto.
      * exfalso. rewrite Hn in Ha'.
        set (fu := fun z : app => z <| a_server := None |> <| a_evicted := true |>) in Ha'.
        assert (E1 : app_of (c_upd_app (a_name a0) fu c) (a_name a0) = Some (fu a))
          by (apply upd_app_self; [reflexivity|exact Ea]).
        destruct (release_self _ _ _ E1) as (a2 & Ha2 & _ & Hsv2 & _). rewrite Ha2 in Ha'. inversion Ha'; subst a'.
        rewrite Hsv2 in Hsv. cbn in Hsv. discriminate.
    + unfold app_of in Ha'. rewrite Ea in Ha'. inversion Ha'; subst a'. congruence.
  - unfold app_of in Ha'. congruence.
Qed.

Lemma phase1_mem c : Mem (fix_invalid_placements c).
Proof.
  unfold fix_invalid_placements. fold phase1_step.
  assert (G : forall l acc, (forall x, ~ In x (map a_name l) -> mem_rec acc x \/ app_of acc x = None) ->
              map a_name (c_apps acc) = map a_name (c_apps acc) ->
              forall x, mem_rec (fold_left phase1_step l acc) x \/ app_of (fold_left phase1_step l acc) x = None).
  { induction l as [|a0 r IH]; intros acc Hdone _ x; cbn [fold_left].
    - apply Hdone. intros [].
    - apply IH; [|reflexivity]. intros y Hy.
      destruct (Z.eq_dec y (a_name a0)) as [->|Hne].
      + left. apply phase1_step_own.
      + destruct (Hdone y) as [H|H].
        * intros [E|Hin]; [congruence|contradiction].
        * left. intros a n Ha Hsv. rewrite phase1_step_servers. rewrite phase1_step_other in Ha by exact Hne. eapply H; eassumption.
        * right. rewrite phase1_step_other by exact Hne. exact H. }
  intros x a n Ha Hsv.
  destruct (G (c_apps c) c) with (x := x) as [H|H].
  - intros y Hy. right. unfold app_of. destruct (get_app y (c_apps c)) eqn:E; [|reflexivity].
    exfalso. apply Hy. rewrite <- (get_app_name _ _ _ E). apply in_map. eapply get_app_In; exact E.
  - reflexivity.
  - eapply H; eassumption.
  - congruence.
Qed.

Lemma srv_remove_app_none c sn v : app_of c v = None -> app_of (srv_remove c sn v) v = None.
Proof.
  intros H. unfold srv_remove. destruct (get_srv sn (c_servers c)); [|exact H].
  assert (E : get_app v (c_apps c) = None) by exact H. rewrite E. exact H.
Qed.

(** remove-and-release of an instance that can only be on that server *)
Lemma at_remove_release c sn v :
  AM c -> (forall a, app_of c v = Some a -> a_server a = None \/ a_server a = Some sn) ->
  all_touched c (release_identity (srv_remove c sn v) v) /\ AM (release_identity (srv_remove c sn v) v).
Proof.
  intros [HA HM] Hcond.
  assert (Hps : psteps c (release_identity (srv_remove c sn v) v))
    by (eapply ps_trans; [apply srv_remove_ps|apply ps_one, PS_release]).
  split; [|split; [eapply Acct_psteps; eassumption|eapply Mem_psteps; eassumption]].
  eapply all_touched_trans; [apply at_srv_remove; exact HA|]. apply at_release.
  intros a1 Ha1. destruct (app_of c v) as [a|] eqn:Ea.
  - destruct (Hcond a eq_refl) as [Hn|Hs].
    + destruct (at_srv_remove c sn v HA v a Ea) as (a2 & Ha2 & (_ & _ & [[S _]|[S _]])); rewrite Ha1 in Ha2; inversion Ha2; subst a2; congruence.
    + eapply srv_remove_then_none; [exact HA|exact Ea|exact Hs|eapply HM; eassumption|exact Ha1].
  - exfalso. rewrite srv_remove_app_none in Ha1; congruence.
Qed.

Lemma release_self_none c v : app_of c v = None -> app_of (release_identity c v) v = None.
Proof.
  intros H. unfold release_identity. assert (E : get_app v (c_apps c) = None) by exact H. rewrite E. exact H.
Qed.

(** phase 2 *)
Lemma at_inner_fold sn : forall l c,
  AM c -> (forall n a, In n l -> app_of c n = Some a -> a_server a = None \/ a_server a = Some sn) ->
  all_touched c (fold_left (fun acc2 n => release_identity (srv_remove acc2 sn n) n) l c) /\
  AM (fold_left (fun acc2 n => release_identity (srv_remove acc2 sn n) n) l c).
Proof.
  induction l as [|n r IH]; intros c HAM Hcond; cbn [fold_left]; [split; [apply all_touched_refl|exact HAM]|].
  destruct (at_remove_release c sn n HAM (fun a Ha => Hcond n a (or_introl eq_refl) Ha)) as [H1 H2].
  destruct (IH _ H2) as [H3 H4].
  - intros m a Hin Ha. destruct (Z.eq_dec m n) as [->|Hne].
    + (* processed already: names no server any more *)
      destruct (app_of c n) as [a0|] eqn:E0.
      * destruct (H1 n a0 E0) as (a1 & Ha1 & (_ & _ & Hform)). rewrite Ha in Ha1. inversion Ha1; subst a1.
        destruct Hform as [[S _]|[S _]]; [rewrite S; apply (Hcond n a0 (or_introl eq_refl) E0)|left; exact S].
      * exfalso. rewrite release_self_none in Ha; [congruence|]. apply srv_remove_app_none. exact E0.
    + rewrite release_app, srv_remove_app in Ha by exact Hne. eapply Hcond; [right; exact Hin|exact Ha].
  - split; [eapply all_touched_trans; eassumption|exact H4].
Qed.

Lemma at_phase2 c : AM c -> all_touched c (handle_inactive_servers c) /\ AM (handle_inactive_servers c).
Proof.
  intros HAM. unfold handle_inactive_servers.
  apply (all_touched_fold _ AM); [|exact HAM]. intros c0 s0 [HA0 HM0].
  destruct (get_srv (s_name s0) (c_servers c0)) as [s|] eqn:Es; [|split; [apply all_touched_refl|split; assumption]].
  pose proof (get_srv_name _ _ _ Es) as Hn. rewrite <- Hn in Es.
  apply at_inner_fold; [split; assumption|].
  intros n a Hin Ha. right.
  assert (Hl : In n (s_apps s)).
  { unfold to_be_moved in Hin. destruct (s_state s); [destruct Hin| |]; apply filter_In in Hin; tauto. }
  destruct (ac_listed _ HA0 _ _ _ Es Hl) as (a1 & Ha1 & Hsv1).
  unfold app_of in Ha. rewrite Ha in Ha1. inversion Ha1; subst a1. exact Hsv1.
Qed.

(** phase 3 *)
Lemma at_phase3 c : AM c -> all_touched c (handle_blacklisted c) /\ AM (handle_blacklisted c).
Proof.
  intros HAM. unfold handle_blacklisted.
  apply (all_touched_fold _ AM); [|exact HAM]. intros c0 a0 HAM0.
  destruct (get_app (a_name a0) (c_apps c0)) as [a|] eqn:Ea; [|split; [apply all_touched_refl|exact HAM0]].
  pose proof (get_app_name _ _ _ Ea) as Hn.
  destruct (a_blacklisted a); [|split; [apply all_touched_refl|exact HAM0]].
  destruct (a_server a) as [n|] eqn:Esv.
  - apply at_remove_release; [exact HAM0|]. intros b Hb. right.
    unfold app_of in Hb. rewrite Hn, Ea in Hb. inversion Hb; subst b. exact Esv.
  - split.
    + apply at_release. intros b Hb. unfold app_of in Hb. rewrite Hn, Ea in Hb. inversion Hb; subst b. exact Esv.
    + destruct HAM0 as [HA0 HM0]. assert (Hps : psteps c0 (release_identity c0 (a_name a))) by (apply ps_one, PS_release).
      split; [eapply Acct_psteps; eassumption|eapply Mem_psteps; eassumption].
Qed.

(** phase 4 *)
Lemma at_phase4 c : AM c -> all_touched c (fix_invalid_identities c) /\ AM (fix_invalid_identities c).
Proof.
  intros HAM. unfold fix_invalid_identities.
  apply (all_touched_fold _ AM); [|exact HAM]. intros c0 a0 [HA0 HM0].
  destruct (get_app (a_name a0) (c_apps c0)) as [a|] eqn:Ea; [|split; [apply all_touched_refl|split; assumption]].
  pose proof (get_app_name _ _ _ Ea) as Hn.
  destruct (a_identity a) as [i|] eqn:Ei; [|split; [apply all_touched_refl|split; assumption]].
  destruct (group_of c0 a) as [[g grp]|] eqn:Eg; [|split; [apply all_touched_refl|split; assumption]].
  destruct (Z.geb i (g_count grp)) eqn:Ege; [|split; [apply all_touched_refl|split; assumption]].
  set (fi := fun z : app => z <| a_identity := None |>).
  set (c1 := c_upd_app (a_name a) fi c0).
  assert (Ea0 : app_of c0 (a_name a) = Some a) by (unfold app_of; rewrite Hn; exact Ea).
  assert (Hp1 : psteps c0 c1) by (apply ps_one; eapply PS_forget; [rewrite Hn; exact Ea|exact Ei|exact Eg|exact Ege]).
  assert (HA1 : Acct c1) by (eapply Acct_psteps; eassumption).
  assert (HM1 : Mem c1) by (eapply Mem_psteps; eassumption).
  assert (Ea1 : app_of c1 (a_name a) = Some (fi a)) by (apply upd_app_self; [reflexivity|exact Ea0]).
  destruct (a_server a) as [n|] eqn:Esv.
  - assert (Hps : psteps c0 (srv_remove c1 n (a_name a))) by (eapply ps_trans; [exact Hp1|apply srv_remove_ps]).
    split; [|split; [eapply Acct_psteps; eassumption|eapply Mem_psteps; eassumption]].
    intros x b Hb. destruct (Z.eq_dec x (a_name a)) as [->|Hne].
    + rewrite Ea0 in Hb. inversion Hb; subst b.
      destruct (HM1 _ _ n Ea1 Esv) as (s & Hs).
      assert (Hin : In (a_name a) (s_apps s)) by (eapply (ac_placed _ HA1); [exact Ea1|exact Esv|exact Hs]).
      exists (removed (fi a)). split; [eapply srv_remove_self; eassumption|].
      split; [repeat split|]. split; [reflexivity|right; split; [reflexivity|left; reflexivity]].
    + exists b. split; [|apply touched_refl]. rewrite srv_remove_app by exact Hne. subst c1. rewrite upd_app_other; [exact Hb|reflexivity|exact Hne].
  - split; [|split; assumption].
    intros x b Hb. destruct (Z.eq_dec x (a_name a)) as [->|Hne].
    + rewrite Ea0 in Hb. inversion Hb; subst b. exists (fi a). split; [exact Ea1|].
      split; [repeat split|]. split; [reflexivity|right; split; [exact Esv|left; reflexivity]].
    + exists b. split; [|apply touched_refl]. subst c1. rewrite upd_app_other; [exact Hb|reflexivity|exact Hne].
Qed.

(** ** blacklisted instances after phase 3 *)
Definition bl_rec (a : app) : Prop := a_blacklisted a = true -> a_server a = None /\ no_id a.
Definition id_rec (a : app) : Prop := a_server a <> None -> has_id a.

Lemma bl_rec_touched a a' : touched a a' -> bl_rec a -> bl_rec a'.
Proof.
  intros (Hs & _ & Hf) Hb Hbl. pose proof Hs as (_ & _ & _ & _ & _ & _ & _ & _ & Hg & _ & _ & _ & Hblk).
  rewrite Hblk in Hbl. destruct (Hb Hbl) as [H1 H2].
  destruct Hf as [[S I]|[S I]].
  - split; [congruence|]. destruct H2 as [H2|H2]; [left|right]; congruence.
  - split; [exact S|]. destruct I as [I|I]; [right; exact I|]. destruct H2 as [H2|H2]; [left|right]; congruence.
Qed.
Lemma id_rec_touched a a' : touched a a' -> id_rec a -> id_rec a'.
Proof.
  intros (Hs & _ & Hf) Hi Hne. pose proof Hs as (_ & _ & _ & _ & _ & _ & _ & _ & Hg & _).
  destruct Hf as [[S I]|[S _]]; [|contradiction].
  rewrite S in Hne. destruct (Hi Hne) as [H|H]; [left|right]; congruence.
Qed.

Definition AMI (c : cell) : Prop := Acct c /\ Mem c /\ Ident c.

Definition phase3_step (c : cell) (a0 : app) : cell :=
  match get_app (a_name a0) (c_apps c) with
  | Some a =>
      match a_blacklisted a, a_server a with
      | true, Some n => release_identity (srv_remove c n (a_name a)) (a_name a)
      | true, None => release_identity c (a_name a)
      | _, _ => c
      end
  | None => c
  end.

Lemma phase3_step_ps c a0 : psteps c (phase3_step c a0).
Proof.
  unfold phase3_step. destruct (get_app (a_name a0) (c_apps c)) as [a|]; [|apply ps_refl].
  destruct (a_blacklisted a); [|apply ps_refl].
  destruct (a_server a); [eapply ps_trans; [apply srv_remove_ps|apply ps_one, PS_release]|apply ps_one, PS_release].
Qed.
Lemma phase3_step_other c a0 x : x <> a_name a0 -> app_of (phase3_step c a0) x = app_of c x.
Proof.
  intros Hne. unfold phase3_step. destruct (get_app (a_name a0) (c_apps c)) as [a|] eqn:Ea; [|reflexivity].
  pose proof (get_app_name _ _ _ Ea) as Hn.
  destruct (a_blacklisted a); [|reflexivity].
  destruct (a_server a); [rewrite release_app, srv_remove_app by congruence; reflexivity|rewrite release_app by congruence; reflexivity].
Qed.
Lemma phase3_step_own c a0 : AMI c -> forall a', app_of (phase3_step c a0) (a_name a0) = Some a' -> bl_rec a'.
Proof.
  intros (HA & HM & HI) a' Ha'. unfold phase3_step in Ha'.
  destruct (get_app (a_name a0) (c_apps c)) as [a|] eqn:Ea; [|unfold app_of in Ha'; congruence].
  pose proof (get_app_name _ _ _ Ea) as Hn. assert (Ea0 : app_of c (a_name a) = Some a) by (unfold app_of; rewrite Hn; exact Ea).
  destruct (a_blacklisted a) eqn:Ebl.
  2:{ unfold app_of in Ha'. rewrite Ea in Ha'. inversion Ha'; subst a'. intros H. congruence. }
  intros _. rewrite <- Hn in Ha'.
  assert (Hrel : forall c1 b, Ident c1 -> app_of c1 (a_name a) = Some b -> a_server b = None ->
                 forall b', app_of (release_identity c1 (a_name a)) (a_name a) = Some b' -> a_server b' = None /\ no_id b').
  { intros c1 b HI1 Hb Hsb b' Hb'. destruct (release_self _ _ _ Hb) as (b2 & Hb2 & Hs2 & Hsv2 & Hid2).
    rewrite Hb' in Hb2. inversion Hb2; subst b2. split; [congruence|].
    destruct Hid2 as [H|[Hg H]]; [right; exact H|]. left.
    destruct Hs2 as (_ & _ & _ & _ & _ & _ & _ & _ & Hgr & _). rewrite Hgr. apply (proj1 (group_none_iff _ _ _ HI1 Hb)). exact Hg. }
  destruct (a_server a) as [n|] eqn:Esv.
  - destruct (HM _ _ n Ea0 Esv) as (s & Hs).
    assert (Hin : In (a_name a) (s_apps s)) by (eapply (ac_placed _ HA); eassumption).
    pose proof (srv_remove_self _ _ _ _ _ Hs Ea0 Hin) as Hr.
    eapply Hrel; [eapply Ident_psteps; [apply srv_remove_ps|exact HI]|exact Hr|reflexivity|exact Ha'].
  - eapply Hrel; [exact HI|exact Ea0|exact Esv|exact Ha'].
Qed.

Lemma phase3_bl c : AMI c -> forall x a, app_of (handle_blacklisted c) x = Some a -> bl_rec a.
Proof.
  intros H0. unfold handle_blacklisted. fold phase3_step.
  assert (G : forall l acc, AMI acc -> (forall x a, ~ In x (map a_name l) -> app_of acc x = Some a -> bl_rec a) ->
              forall x a, app_of (fold_left phase3_step l acc) x = Some a -> bl_rec a).
  { induction l as [|a0 r IH]; intros acc Hacc Hdone x a Ha; cbn [fold_left] in Ha.
    - eapply Hdone; [intros []|exact Ha].
    - assert (Hacc' : AMI (phase3_step acc a0)).
      { destruct Hacc as (HA & HM & HI). pose proof (phase3_step_ps acc a0) as Hp.
        split; [eapply Acct_psteps; eassumption|]. split; [eapply Mem_psteps; eassumption|eapply Ident_psteps; eassumption]. }
      eapply (IH _ Hacc'); [|exact Ha]. intros y b Hy Hb.
      destruct (Z.eq_dec y (a_name a0)) as [->|Hne].
      + exact (phase3_step_own acc a0 Hacc b Hb).
      + rewrite phase3_step_other in Hb by exact Hne. eapply Hdone; [|exact Hb]. intros [E|Hin]; [congruence|contradiction]. }
  intros x a Ha. eapply (G (c_apps c) c H0); [|exact Ha].
  intros y b Hy Hb. exfalso. apply Hy. unfold app_of in Hb. rewrite <- (get_app_name _ _ _ Hb). apply in_map. eapply get_app_In; exact Hb.
Qed.

(** primitive transitions never create or drop instance records *)
Lemma pstep_names cA cB : pstep cA cB -> map a_name (c_apps cB) = map a_name (c_apps cA).
Proof.
  intros Hs. destruct Hs.
  - destruct H as (_ & _ & _ & H4 & _). rewrite H4. reflexivity.
  - unfold prim_put. cbn [c_upd_app c_upd_srv c_apps set]. apply upd_app_names. intros z. destruct (a_expiry z); reflexivity.
  - unfold prim_remove. cbn [c_upd_app c_upd_srv c_apps set]. apply upd_app_names. reflexivity.
  - cbn [c_upd_app c_apps set]. apply upd_app_names. intros z. apply (proj1 (H z)).
  - cbn [c_upd_app c_apps set]. apply upd_app_names. reflexivity.
  - unfold release_identity. destruct (get_app aname (c_apps c)) as [z|]; [|reflexivity].
    destruct (group_of c z) as [[g grp]|]; [|reflexivity]. destruct (a_identity z); [|reflexivity].
    cbn [c_upd_app c_apps set]. apply upd_app_names. reflexivity.
  - unfold acquire_identity. destruct (get_app aname (c_apps c)) as [z|]; [|reflexivity].
    destruct (group_of c z) as [[g grp]|]; [|reflexivity]. destruct (a_identity z); [reflexivity|].
    destruct (g_avail grp); [reflexivity|]. cbn [fst c_upd_app c_apps set]. apply upd_app_names. reflexivity.
  - cbn [c_upd_app c_apps set]. apply upd_app_names. reflexivity.
Qed.
Lemma psteps_names cA cB : psteps cA cB -> map a_name (c_apps cB) = map a_name (c_apps cA).
Proof. induction 1 as [cA cB Hs|cA|cA cB cC H1 IH1 H2 IH2]; [apply pstep_names; exact Hs|reflexivity|congruence]. Qed.
Lemma names_none c c' x : map a_name (c_apps c') = map a_name (c_apps c) -> app_of c x = None -> app_of c' x = None.
Proof.
  intros Hn Hy. destruct (app_of c' x) as [b|] eqn:Eb; [|reflexivity]. exfalso.
  unfold app_of in Hy, Eb. apply get_app_none_notin in Hy. apply Hy. rewrite <- Hn.
  rewrite <- (get_app_name _ _ _ Eb). apply in_map. eapply get_app_In; exact Eb.
Qed.
Lemma psteps_none c c' x : psteps c c' -> app_of c x = None -> app_of c' x = None.
Proof. intros Hp. apply names_none. apply psteps_names. exact Hp. Qed.

(** ** summary of the four phases *)
Theorem pre_phases_spec c : Acct c -> Ident c ->
  AMI (pre_phases c) /\ all_touched c (pre_phases c) /\ psteps c (pre_phases c) /\
  (forall x a, app_of (pre_phases c) x = Some a -> bl_rec a).
Proof.
  intros HA HI. unfold pre_phases.
  destruct (at_phase1 c HA) as [T1 A1]. pose proof (phase1_mem c) as M1.
  pose proof (fix_invalid_placements_ps c) as P1.
  assert (I1 : Ident (fix_invalid_placements c)) by (eapply Ident_psteps; eassumption).
  set (c1 := fix_invalid_placements c) in *.
  destruct (at_phase2 c1 (conj A1 M1)) as [T2 [A2 M2]]. pose proof (handle_inactive_servers_ps c1) as P2.
  assert (I2 : Ident (handle_inactive_servers c1)) by (eapply Ident_psteps; eassumption).
  set (c2 := handle_inactive_servers c1) in *.
  destruct (at_phase3 c2 (conj A2 M2)) as [T3 [A3 M3]]. pose proof (handle_blacklisted_ps c2) as P3.
  assert (I3 : Ident (handle_blacklisted c2)) by (eapply Ident_psteps; eassumption).
  pose proof (phase3_bl c2 (conj A2 (conj M2 I2))) as B3.
  set (c3 := handle_blacklisted c2) in *.
  destruct (at_phase4 c3 (conj A3 M3)) as [T4 [A4 M4]]. pose proof (fix_invalid_identities_ps c3) as P4.
  assert (I4 : Ident (fix_invalid_identities c3)) by (eapply Ident_psteps; eassumption).
  split; [split; [exact A4|split; [exact M4|exact I4]]|].
  split; [eapply all_touched_trans; [exact T1|]; eapply all_touched_trans; [exact T2|]; eapply all_touched_trans; eassumption|].
  split; [eapply ps_trans; [exact P1|]; eapply ps_trans; [exact P2|]; eapply ps_trans; eassumption|].
  intros x a Ha.
  (* x's record in c3 exists (names never disappear) and is blacklist-clean; phase 4 only touches *)
  destruct (app_of c3 x) as [a3|] eqn:E3.
  - destruct (T4 x a3 E3) as (a4 & Ha4 & Ht). rewrite Ha in Ha4. inversion Ha4; subst a4.
    eapply bl_rec_touched; [exact Ht|]. eapply B3; exact E3.
  - exfalso. (* an instance cannot appear during phase 4 *)
    assert (Hnames : forall cA cB, psteps cA cB -> forall y, app_of cA y = None -> app_of cB y = None).
    { clear. intros cA cB Hp. induction Hp as [cA cB Hs|cA|cA cB cC H1 IH1 H2 IH2];
        [|intros y Hy; exact Hy|intros y Hy; apply IH2, IH1; exact Hy]. intros y Hy.
      destruct (app_of cB y) as [b|] eqn:Eb; [|reflexivity]. exfalso.
      (* names of the instance list are the same on both sides of a primitive transition *)
      assert (Hn : map a_name (c_apps cB) = map a_name (c_apps cA)).
      { destruct Hs.
        - destruct H as (_ & _ & _ & H4 & _). rewrite H4. reflexivity.
        - unfold prim_put. cbn [c_upd_app c_upd_srv c_apps set]. apply upd_app_names. intros z. destruct (a_expiry z); reflexivity.
        - unfold prim_remove. cbn [c_upd_app c_upd_srv c_apps set]. apply upd_app_names. reflexivity.
        - cbn [c_upd_app c_apps set]. apply upd_app_names. intros z. apply (proj1 (H z)).
        - cbn [c_upd_app c_apps set]. apply upd_app_names. reflexivity.
        - unfold release_identity. destruct (get_app aname (c_apps c)) as [z|]; [|reflexivity].
          destruct (group_of c z) as [[g grp]|]; [|reflexivity]. destruct (a_identity z); [|reflexivity].
          cbn [c_upd_app c_apps set]. apply upd_app_names. reflexivity.
        - unfold acquire_identity. destruct (get_app aname (c_apps c)) as [z|]; [|reflexivity].
          destruct (group_of c z) as [[g grp]|]; [|reflexivity]. destruct (a_identity z); [reflexivity|].
          destruct (g_avail grp); [reflexivity|]. cbn [fst c_upd_app c_apps set]. apply upd_app_names. reflexivity.
        - cbn [c_upd_app c_apps set]. apply upd_app_names. reflexivity. }
      unfold app_of in Hy, Eb. apply get_app_none_notin in Hy. apply Hy. rewrite <- Hn.
      rewrite <- (get_app_name _ _ _ Eb). apply in_map. eapply get_app_In; exact Eb. }
    rewrite (Hnames _ _ P4 x E3) in Ha. discriminate.
Qed.
