(** C02 at the level of one turn of the placement loop: a pending instance that some up server fits is placed. *)
From Coq Require Import ZArith QArith List Bool Lia Relations.
From RecordUpdate Require Import RecordSet.
From TM Require Import Sched.Vec Sched.Types Sched.Queue Sched.Tree Sched.Cycle Sched.Steps Sched.MapsP Sched.FrameP
                       Sched.InvAcct Sched.InvIdent Sched.TurnP Sched.PutComplete Sched.InvAgg.
Import ListNotations.
Open Scope Z_scope.

(** what the walk reads of the cell besides servers and buckets *)
Definition walk_eq (c c' : cell) : Prop :=
  c_servers c' = c_servers c /\ c_buckets c' = c_buckets c /\ c_parts c' = c_parts c /\ c_now c' = c_now c /\
  c_root c' = c_root c.
Lemma walk_eq_trans a b c : walk_eq a b -> walk_eq b c -> walk_eq a c.
Proof. unfold walk_eq. intuition congruence. Qed.
Lemma walk_eq_upd_app c n f : walk_eq c (c_upd_app n f c).
Proof. repeat split. Qed.
Lemma walk_eq_acquire c x ch : walk_eq c (fst (acquire_identity c x ch)).
Proof.
  unfold acquire_identity. destruct (get_app x (c_apps c)) as [z|]; [|repeat split].
  destruct (group_of c z) as [[g grp]|]; [|repeat split]. destruct (a_identity z); [repeat split|].
  destruct (g_avail grp); repeat split.
Qed.

Lemma TreeWf_ext_walk c c' : walk_eq c c' -> TreeWf c -> TreeWf c'.
Proof. intros (Hs & Hb & _). apply TreeWf_ext; assumption. Qed.
Lemma anc_ext c c' : c_buckets c' = c_buckets c -> forall st b, anc c st b -> anc c' st b.
Proof. intros Hb st b H. induction H; [apply anc_here|eapply anc_up]; try rewrite Hb; eassumption. Qed.
Lemma AggSound_ext c c' : walk_eq c c' -> AggSound c -> AggSound c'.
Proof.
  intros (Hs & Hb & _) H n s b Hg Hup Hanc. rewrite Hs in Hg. apply (H n s b Hg Hup). eapply anc_ext; [|exact Hanc]. congruence.
Qed.
Lemma down_path_ext c c' : walk_eq c c' -> forall rest n sn, down_path c n rest sn -> down_path c' n rest sn.
Proof.
  intros (Hs & Hb & _). induction rest as [|m r IH]; intros n sn; cbn [down_path]; rewrite ?Hb, ?Hs; [tauto|].
  intros (H1 & H2 & H3). split; [exact H1|]. split; [exact H2|apply IH; exact H3].
Qed.
Lemma put_guard_stat c c' s a a' l : walk_eq c c' -> stat_eq a a' -> a_server a' = a_server a ->
  put_guard c' s a' l = put_guard c s a l.
Proof.
  intros (_ & _ & Hp & Hn & _) (E1 & _ & E3 & E4 & E5 & E6 & _ & _ & _ & _ & _ & E12 & _) Hsv.
  unfold put_guard, check_lifetime, check_constraints, app_label, app_traits, app_alloc, aff_limit.
  rewrite E1, Hsv, Hn, E12, E6, Hp, E4, E5, E3. reflexivity.
Qed.

Theorem place_one_places rq st x a s rest :
  TreeWf (l_cell st) -> AggSound (l_cell st) ->
  app_of (l_cell st) x = Some a -> a_server a = None -> a_blacklisted a = false -> a_rank a <> UNPLACED_RANK ->
  snd (acquire_identity (c_upd_app x (fun z => z <| a_renew := false |>) (l_cell st)) x (aget x (l_choices st))) = true ->
  aget x (l_evicted st) = None -> a_once a && a_evicted a = false ->
  (forall a', stat_eq a a' -> tr_feasible (l_tracker st) a' = true) ->
  get_srv (s_name s) (c_servers (l_cell st)) = Some s -> s_state s = Up ->
  put_guard (l_cell st) s a (a_lease a) = true ->
  down_path (l_cell st) (c_root (l_cell st)) rest (s_name s) ->
  (forall m b, In m (c_root (l_cell st) :: rest) -> get_bkt m (c_buckets (l_cell st)) = Some b ->
               under_limit (cget (a_aff a) (b_counters b)) (aff_limit a (b_level b)) = true) ->
  exists a', app_of (l_cell (place_one rq st x)) x = Some a' /\ a_server a' <> None.
Proof.
  intros HW HS Ha Hsv Hbl Hrank Hacq Hev Honce Hfeas Hs Hup Hg Hpath Hroom. unfold place_one.
  assert (Ha' : get_app x (c_apps (l_cell st)) = Some a) by exact Ha. rewrite Ha', Hbl.
  destruct (Z.eqb_spec (a_rank a) UNPLACED_RANK) as [E|_]; [contradiction|].
  assert (Hcr : (if a_renew a then match a_server a with
                                   | Some n => let '(cr, ok) := srv_renew (l_cell st) n x in
                                               if ok then (cr, None) else (srv_remove cr n x, Some (n, a_expiry a))
                                   | None => (l_cell st, None)
                                   end else (l_cell st, None)) = (l_cell st, @None (Z * option Z))).
  { rewrite Hsv. destruct (a_renew a); reflexivity. }
  rewrite Hcr. clear Hcr.
  set (c2 := c_upd_app x (fun z => z <| a_renew := false |>) (l_cell st)) in *.
  set (a2 := a <| a_renew := false |>).
  assert (Ha2 : app_of c2 x = Some a2) by (apply upd_app_self; [reflexivity|exact Ha]).
  assert (Ha2' : get_app x (c_apps c2) = Some a2) by exact Ha2. rewrite Ha2'.
  change (a_server a2) with (a_server a). rewrite Hsv.
  pose proof (walk_eq_acquire c2 x (aget x (l_choices st))) as Hw3.
  destruct (acquire_self c2 x (aget x (l_choices st)) a2 Ha2)
    as [(Hgot & _)|(_ & a3 & Ha3 & Hs3 & Hsv3 & _ & Hev3 & _)]; [congruence|].
  destruct (acquire_identity c2 x (aget x (l_choices st))) as [c3 got]. cbn [fst snd] in *. subst got. cbn [negb].
  rewrite Hev. unfold place_tail.
  assert (Ha3' : get_app x (c_apps c3) = Some a3) by exact Ha3. rewrite Ha3'.
  assert (Hst3 : stat_eq a a3) by (eapply stat_eq_trans; [|exact Hs3]; repeat split).
  assert (Honce3 : a_once a3 && a_evicted a3 = false).
  { destruct Hst3 as (_ & _ & _ & _ & _ & _ & _ & _ & _ & Ho & _). rewrite Ho, Hev3. exact Honce. }
  rewrite Honce3, (Hfeas a3 Hst3). cbn [negb].
  assert (Hw : walk_eq (l_cell st) c3) by (eapply walk_eq_trans; [apply walk_eq_upd_app|exact Hw3]).
  assert (Hsv3' : a_server a3 = a_server a) by (rewrite Hsv3; reflexivity).
  assert (Hok : snd (cell_put c3 x) = true).
  { destruct Hw as (Ws & Wb & Wp & Wn & Wr).
    assert (Hw' : walk_eq (l_cell st) c3) by (repeat split; assumption).
    apply (cell_put_complete c3 x a3 s rest).
    - apply (TreeWf_ext_walk _ _ Hw' HW).
    - eapply AggSound_ext; eassumption.
    - exact Ha3'.
    - rewrite Ws. exact Hs.
    - exact Hup.
    - assert (El : a_lease a3 = a_lease a) by (destruct Hst3 as (_ & _ & _ & _ & _ & _ & El & _); exact El).
      rewrite El, (put_guard_stat (l_cell st) c3 s a a3 _ Hw' Hst3 Hsv3'). exact Hg.
    - rewrite Wr. eapply down_path_ext; eassumption.
    - intros m b Hin Hb. rewrite Wr in Hin. rewrite Wb in Hb.
      destruct Hst3 as (_ & _ & _ & E4 & E5 & _). unfold aff_limit. rewrite E4, E5. exact (Hroom m b Hin Hb). }
  pose proof (bucket_put_result (S (depth_fuel c3)) c3 (c_root c3) x) as Hatt. fold (cell_put c3 x) in Hatt.
  destruct (cell_put c3 x) as [c5 ok]. cbn [fst snd] in *. subst ok.
  destruct (attempt_self _ _ _ _ _ Hatt Ha3) as (c1 & n & s1 & a5 & _ & _ & _ & _ & H5 & _ & Hsv5).
  assert (E5 : get_app x (c_apps c5) = Some a5) by exact H5. rewrite E5, Hsv5. cbn [l_cell set].
  exists a5. split; [exact H5|congruence].
Qed.
