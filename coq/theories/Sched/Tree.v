(** Node / Bucket / Server operations of treadmill.scheduler on the flat cell:
    upward propagation follows parent names with fuel (the depth is bounded by the number of buckets),
    Bucket.put walks down with fuel. Model file: no proofs. *)
From Coq Require Import ZArith QArith List Bool.
From TM Require Import Sched.Vec Sched.Types Sched.Queue.
Import ListNotations.
Open Scope Z_scope.

Definition depth_fuel (c : cell) : nat := S (length (c_buckets c)).

(** ** traits *)
Definition bkt_traits (b : bucket) : Z :=
  fold_left (fun acc kv => Z.lor acc (snd kv)) (b_child_traits b) (b_self_traits b).
Definition has_traits (have want : Z) : bool := Z.eqb (Z.land have want) want.

(** after [bname]'s combined traits changed: refresh the entry in each ancestor *)
Fixpoint propagate_traits (fuel : nat) (c : cell) (bname : Z) : cell :=
  match fuel with
  | O => c
  | S f =>
      match get_bkt bname (c_buckets c) with
      | None => c
      | Some b =>
          match b_parent b with
          | None => c
          | Some p =>
              let c' := c_upd_bkt p (fun pb => pb <| b_child_traits ::= (fun m => aset bname (bkt_traits b) (adel bname m)) |>) c in
              propagate_traits f c' p
          end
      end
  end.

(** ** labels: add_labels *)
Definition union_labels (have add : list Z) : list Z := fold_left (fun acc l => zadd_set l acc) add have.
Fixpoint add_labels (fuel : nat) (c : cell) (bname : Z) (labels : list Z) : cell :=
  match fuel with
  | O => c
  | S f =>
      match get_bkt bname (c_buckets c) with
      | None => c
      | Some b =>
          let ls := union_labels (b_labels b) labels in
          let c' := c_upd_bkt bname (fun x => x <| b_labels := ls |>) c in
          match b_parent b with None => c' | Some p => add_labels f c' p ls end
      end
  end.

(** ** affinity counters: increment_affinity / decrement_affinity on a bucket and its ancestors *)
Fixpoint bump_affinity (fuel : nat) (c : cell) (bname : Z) (ds : list (Z * Z)) (sign : Z) : cell :=
  match fuel with
  | O => c
  | S f =>
      match get_bkt bname (c_buckets c) with
      | None => c
      | Some b =>
          let c' := c_upd_bkt bname (fun x => x <| b_counters ::= cadd_all ds sign |>) c in
          match b_parent b with None => c' | Some p => bump_affinity f c' p ds sign end
      end
  end.
Definition bump_from (c : cell) (parent : option Z) (ds : list (Z * Z)) (sign : Z) : cell :=
  match parent with None => c | Some p => bump_affinity (depth_fuel c) c p ds sign end.

(** ** capacity aggregates *)
Definition child_free_state (c : cell) (n : Z) : option (vec * sstate) :=
  match get_srv n (c_servers c) with
  | Some s => Some (s_free s, s_state s)
  | None => match get_bkt n (c_buckets c) with Some b => Some (b_free b, Up) | None => None end
  end.

Fixpoint live_children (ch : list (option Z)) : list Z :=
  match ch with [] => [] | Some n :: r => n :: live_children r | None :: r => live_children r end.

Fixpoint adjust_up (fuel : nat) (c : cell) (bname : Z) (newcap : vec) : cell :=
  match fuel with
  | O => c
  | S f =>
      match get_bkt bname (c_buckets c) with
      | None => c
      | Some b =>
          let fr := vmax (b_free b) newcap in
          let c' := c_upd_bkt bname (fun x => x <| b_free := fr |>) c in
          match b_parent b with None => c' | Some p => adjust_up f c' p fr end
      end
  end.
Definition adjust_up_from (c : cell) (parent : option Z) (newcap : vec) : cell :=
  match parent with None => c | Some p => adjust_up (depth_fuel c) c p newcap end.

Definition max_up_children (c : cell) (kids : list Z) : vec :=
  fold_left (fun acc n => match child_free_state c n with
                          | Some (fr, Up) => vmax acc fr
                          | _ => acc
                          end) kids (vzero (c_dim c)).

Fixpoint adjust_down (fuel : nat) (c : cell) (bname : Z) (prev : option vec) : cell :=
  match fuel with
  | O => c
  | S f =>
      match get_bkt bname (c_buckets c) with
      | None => c
      | Some b =>
          let kids := live_children (b_children b) in
          match kids with
          | [] =>
              let c' := c_upd_bkt bname (fun x => x <| b_free := vzero (c_dim c) |>) c in
              match b_parent b with None => c' | Some p => adjust_down f c' p None end
          | _ =>
              let skip := match prev with Some pv => all_lt pv (b_free b) | None => false end in
              if skip then c
              else
                let nf := max_up_children c kids in
                if any_lt nf (b_free b) then
                  let c' := c_upd_bkt bname (fun x => x <| b_free := nf |>) c in
                  match b_parent b with None => c' | Some p => adjust_down f c' p (Some (b_free b)) end
                else c
          end
      end
  end.
Definition adjust_down_from (c : cell) (parent : option Z) (prev : option vec) : cell :=
  match parent with None => c | Some p => adjust_down (depth_fuel c) c p prev end.

(** ** application view used by the node checks *)
Definition app_alloc (c : cell) (a : app) : option alloc :=
  match a_alloc a with
  | None => None
  | Some (label, path) => match aget label (c_parts c) with Some top => alloc_at top path | None => None end
  end.
Definition app_label (a : app) : option Z := match a_alloc a with Some (l, _) => Some l | None => None end.
Definition app_traits (c : cell) (a : app) : Z :=
  match app_alloc c a with Some al => Z.lor (a_traits a) (al_traits al) | None => a_traits a end.

(** Node.check_app_constraints, for a node with the given labels, traits, counters, level, free *)
Definition check_constraints (c : cell) (a : app) (labels : list Z) (traits : Z) (counters : list (Z * Z))
           (level : Z) (free : vec) : bool :=
  (match app_label a with Some l => zmem l labels | None => true end)
  && (let t := app_traits c a in Z.eqb t 0 || has_traits traits t)
  && under_limit (cget (a_aff a) counters) (aff_limit a level)
  && negb (any_gt (a_demand a) free).

Definition check_lifetime (c : cell) (a : app) (lease : Z) (s : server) : bool :=
  Z.eqb lease 0 || Z.ltb (c_now c + lease) (s_valid_until s).

(** ** Server.put (lease given explicitly so that restore can pass 0).
    The server/app part of the effect is the atomic primitive [prim_put]; everything after it only touches buckets. *)
Definition prim_put (c : cell) (sname aname : Z) (a : app) (lease : Z) : cell :=
  c_upd_app aname (fun x => (match a_expiry x with
                             | None => x <| a_expiry := Some (c_now c + lease) |>
                             | Some _ => x
                             end) <| a_server := Some sname |>)
    (c_upd_srv sname (fun x => x <| s_free := vsub (s_free x) (a_demand a) |>
                                 <| s_apps ::= (fun l => l ++ [aname]) |>
                                 <| s_counters ::= cadd (a_aff a) 1 |>) c).

(* Server.put asserts that the instance is not already on the server; the model refuses instead of failing an
   assertion, and also refuses an instance that still names a server (never the case at a call site). *)
Definition put_guard (c : cell) (s : server) (a : app) (lease : Z) : bool :=
  negb (zmem (a_name a) (s_apps s))
  && (match a_server a with None => true | Some _ => false end)
  && check_lifetime c a lease s
  && check_constraints c a [s_label s] (s_traits s) (s_counters s) LEVEL_SERVER (s_free s).

Definition srv_put_lease (c : cell) (sname aname : Z) (lease : Z) : option cell :=
  match get_srv sname (c_servers c), get_app aname (c_apps c) with
  | Some s, Some a =>
      if put_guard c s a lease
      then
        let c1 := prim_put c sname aname a lease in
        let c2 := bump_from c1 (s_parent s) [(a_aff a, 1)] 1 in
        Some (adjust_down_from c2 (s_parent s) (Some (s_free s)))
      else None
  | _, _ => None
  end.
Definition srv_put (c : cell) (sname aname : Z) : option cell :=
  match get_app aname (c_apps c) with
  | Some a => srv_put_lease c sname aname (a_lease a)
  | None => None
  end.

(** Server.restore(app, placement_expiry): returns the new cell and rc; the expiry is assigned even when rc is False *)
Definition srv_restore (c : cell) (sname aname : Z) (expiry : option Z) : cell * bool :=
  match get_app aname (c_apps c) with
  | None => (c, false)
  | Some a =>
      let ex := match expiry with Some e => Some e | None => a_expiry a end in
      match srv_put_lease c sname aname 0 with
      | Some c' => (c_upd_app aname (fun x => x <| a_expiry := ex |>) c', true)
      | None => (c_upd_app aname (fun x => x <| a_expiry := ex |>) c, false)
      end
  end.

(** Server.renew *)
Definition srv_renew (c : cell) (sname aname : Z) : cell * bool :=
  match get_srv sname (c_servers c), get_app aname (c_apps c) with
  | Some s, Some a =>
      if check_lifetime c a (a_lease a) s
      then (c_upd_app aname (fun x => x <| a_expiry := Some (c_now c + a_lease a) |>) c, true)
      else (c, false)
  | _, _ => (c, false)
  end.

(** Server.remove: atomic server/app primitive, then bucket-only propagation *)
Definition prim_remove (c : cell) (sname aname : Z) (a : app) : cell :=
  c_upd_app aname (fun x => x <| a_server := None |> <| a_evicted := true |>
                              <| a_unschedule := false |> <| a_expiry := None |>)
    (c_upd_srv sname (fun x => x <| s_free := vadd (s_free x) (a_demand a) |> <| s_apps ::= zremove aname |>
                                 <| s_counters ::= cadd (a_aff a) (-1) |>) c).

Definition srv_remove (c : cell) (sname aname : Z) : cell :=
  match get_srv sname (c_servers c), get_app aname (c_apps c) with
  | Some s, Some a =>
      if negb (zmem aname (s_apps s)) then c else    (* Server.remove asserts membership *)
      let c1 := prim_remove c sname aname a in
      let c2 := bump_from c1 (s_parent s) [(a_aff a, 1)] (-1) in
      adjust_up_from c2 (s_parent s) (vadd (s_free s) (a_demand a))
  | _, _ => c
  end.

Definition srv_remove_all (c : cell) (sname : Z) : cell :=
  match get_srv sname (c_servers c) with
  | Some s => fold_left (fun acc n => srv_remove acc sname n) (s_apps s) c
  | None => c
  end.

(** Server.set_state *)
Definition srv_set_state (c : cell) (sname : Z) (st : sstate) (since : Z) : cell :=
  match get_srv sname (c_servers c) with
  | Some s =>
      if sstate_eqb (s_state s) st then c
      else
        let c1 := c_upd_srv sname (fun x => x <| s_state := st |> <| s_since := since |>) c in
        match st with
        | Up => adjust_up_from c1 (s_parent s) (s_free s)
        | _ => adjust_down_from c1 (s_parent s) (Some (s_free s))
        end
  | None => c
  end.

(** ** topology: Bucket.add_node / remove_node *)
Definition attach_common (c : cell) (pname child : Z) (child_traits : Z) (child_counters : list (Z * Z))
           (child_labels : list Z) (child_free : vec) : cell :=
  let c1 := c_upd_bkt pname (fun b => b <| b_children ::= (fun l => l ++ [Some child]) |>
                                        <| b_child_traits ::= aset child child_traits |>) c in
  let c2 := propagate_traits (depth_fuel c1) c1 pname in
  let c3 := bump_affinity (depth_fuel c2) c2 pname child_counters 1 in
  let c4 := add_labels (depth_fuel c3) c3 pname child_labels in
  adjust_up (depth_fuel c4) c4 pname child_free.

Definition add_bucket (c : cell) (name level : Z) (parent : option Z) : cell :=
  let b := mkBucket name parent level [] (vzero (c_dim c)) 0 [] [] [] [] in
  let c1 := c <| c_buckets ::= (fun l => l ++ [b]) |> in
  match parent with
  | None => c1
  | Some p => attach_common c1 p name 0 [] [] (vzero (c_dim c))
  end.

Definition add_server (c : cell) (s : server) : cell :=
  let c1 := c <| c_servers ::= (fun l => l ++ [s]) |> in
  match s_parent s with
  | None => c1
  | Some p => attach_common c1 p (s_name s) (s_traits s) (s_counters s) [s_label s] (s_free s)
  end.

Definition hole_child (child : Z) (l : list (option Z)) : list (option Z) :=
  map (fun o => match o with Some n => if Z.eqb n child then None else Some n | None => None end) l.

(** the bucket part of parent.remove_node(server) *)
Definition unhook_server (c : cell) (p : Z) (s : server) : cell :=
  let c1 := c_upd_bkt p (fun b => b <| b_children ::= hole_child (s_name s) |>
                                    <| b_child_traits ::= adel (s_name s) |>) c in
  let c2 := propagate_traits (depth_fuel c1) c1 p in
  let c3 := bump_affinity (depth_fuel c2) c2 p (s_counters s) (-1) in
  adjust_down (depth_fuel c3) c3 p (Some (s_free s)).

(** parent.remove_node(server): the server leaves the tree (and the model's server map) *)
Definition detach_server (c : cell) (sname : Z) : cell :=
  match get_srv sname (c_servers c) with
  | None => c
  | Some s =>
      let c0 := c <| c_servers ::= del_srv sname |> in
      match s_parent s with
      | None => c0
      | Some p => unhook_server c0 p s
      end
  end.

(** old_parent.remove_node(server); new_parent.add_node(server): the server keeps its instances *)
Definition move_server (c : cell) (sname newparent : Z) : cell :=
  match get_srv sname (c_servers c) with
  | None => c
  | Some s =>
      let c0 := match s_parent s with None => c | Some p => unhook_server c p s end in
      let c1 := c_upd_srv sname (fun x => x <| s_parent := Some newparent |>) c0 in
      attach_common c1 newparent sname (s_traits s) (s_counters s) [s_label s] (s_free s)
  end.

(** ** Node.size(label): (integer part, number of eps summands) *)
Fixpoint node_size (fuel : nat) (c : cell) (n : Z) (label : Z) : vec * nat :=
  match fuel with
  | O => (vzero (c_dim c), 1%nat)
  | S f =>
      match get_srv n (c_servers c) with
      | Some s => if Z.eqb (s_label s) label then (s_cap s, 0%nat) else (vzero (c_dim c), 1%nat)
      | None =>
          match get_bkt n (c_buckets c) with
          | None => (vzero (c_dim c), 1%nat)
          | Some b =>
              let kids := live_children (b_children b) in
              match kids with
              | [] => (vzero (c_dim c), 1%nat)
              | _ =>
                  if zmem label (b_labels b) then
                    fold_left (fun acc k => let '(v, e) := node_size f c k label in
                                            (vadd (fst acc) v, (snd acc + e)%nat))
                              kids (vzero (c_dim c), 0%nat)
                  else (vzero (c_dim c), 1%nat)
              end
          end
      end
  end.
Definition cell_size (c : cell) (label : Z) : vec * nat := node_size (S (depth_fuel c)) c (c_root c) label.

(** ** SpreadStrategy + Bucket.put *)
Definition cursor_of (b : bucket) (aff : Z) : nat :=
  match aget aff (b_cursors b) with Some i => i | None => 0%nat end.
Definition set_cursor (c : cell) (bname aff : Z) (i : nat) : cell :=
  c_upd_bkt bname (fun b => b <| b_cursors ::= aset aff i |>) c.

(** positions in visiting order: idx', idx'+1, ..., n-1, 0, ..., idx'-1 (idx' = 0 when the cursor sits at n) *)
Definition rotated_positions (n idx : nat) : list nat :=
  let i := if Nat.eqb idx n then 0%nat else idx in
  seq i (n - i) ++ seq 0 i.
Definition live_positions (ch : list (option Z)) (idx : nat) : list (nat * Z) :=
  flat_map (fun p => match nth_error ch p with Some (Some n) => [(p, n)] | _ => [] end)
           (rotated_positions (length ch) idx).
(** where suggested_node leaves the cursor when every child is None *)
Definition cursor_after_empty_scan (n idx : nat) : nat :=
  if Nat.eqb n 0 then idx else if Nat.eqb idx 0 || Nat.eqb idx n then n else idx.

(** the walk over the live children in cursor order; [put_bkt] is Bucket.put of a child bucket *)
Fixpoint try_children (put_bkt : cell -> Z -> cell * bool) (bname aff aname : Z) (p0 : nat)
         (l : list (nat * Z)) (c : cell) : cell * bool :=
  match l with
  | [] => (set_cursor c bname aff (S p0), false)
  | (p, n) :: r =>
      let c1 := set_cursor c bname aff (S p) in
      match get_srv n (c_servers c1) with
      | Some s =>
          match s_state s with
          | Up => match srv_put c1 n aname with
                  | Some c2 => (c2, true)
                  | None => try_children put_bkt bname aff aname p0 r c1
                  end
          | _ => try_children put_bkt bname aff aname p0 r c1
          end
      | None =>
          let '(c2, ok) := put_bkt c1 n in
          if ok then (c2, true) else try_children put_bkt bname aff aname p0 r c2
      end
  end.

Fixpoint bucket_put (fuel : nat) (c : cell) (bname aname : Z) : cell * bool :=
  match fuel with
  | O => (c, false)
  | S f =>
      match get_bkt bname (c_buckets c), get_app aname (c_apps c) with
      | Some b, Some a =>
          if check_constraints c a (b_labels b) (bkt_traits b) (b_counters b) (b_level b) (b_free b) then
            let idx := cursor_of b (a_aff a) in
            let order := live_positions (b_children b) idx in
            match order with
            | [] => (set_cursor c bname (a_aff a) (cursor_after_empty_scan (length (b_children b)) idx), false)
            | (p0, _) :: _ =>
                try_children (fun c' n => bucket_put f c' n aname) bname (a_aff a) aname p0 order c
            end
          else (c, false)
      | _, _ => (c, false)
      end
  end.
Definition cell_put (c : cell) (aname : Z) : cell * bool := bucket_put (S (depth_fuel c)) c (c_root c) aname.
