(** The side conditions of the all-histories theorems, evaluated on a concrete history: which of the hypotheses
    [wf_ops_all] (C03 C05 C07 C08), [wf_ops_aff] (C04 C07), [wf_ops_agg] (C02), [wf_ops_cnt] (C04 bucket counters)
    a generated history satisfies. Used by the harness to report how many of the histories it plays are covered by the
    theorems as stated (a history outside the side conditions is still compared with the model). *)
From Coq Require Import ZArith List Bool.
From TM Require Import Sched.Types Sched.Events Sched.InvAcct Sched.InvAff Sched.Reach Sched.InvAgg Sched.InvCount.
Import ListNotations.
Open Scope Z_scope.

Definition b2z (b : bool) : Z := if b then 1 else 0.
Definition sidecond_case (x : nat * Z * Z * list op) : list Z :=
  let '(dim, root, level, ops) := x in
  let c := init_cell dim root level in
  [b2z (wf_ops_allb c ops); b2z (wf_ops_affb c ops); b2z (InvAgg.wf_ops_aggb c ops); b2z (InvCount.wf_ops_cntb c ops)].

Lemma sidecond_sound dim root level ops :
  sidecond_case (dim, root, level, ops) = [1; 1; 1; 1] ->
  wf_ops_all (init_cell dim root level) ops /\ wf_ops_aff (init_cell dim root level) ops /\
  InvAgg.wf_ops_agg (init_cell dim root level) ops /\ InvCount.wf_ops_cnt (init_cell dim root level) ops.
Proof.
  unfold sidecond_case, b2z. intros H.
  destruct (wf_ops_allb _ ops) eqn:E1; [|discriminate]. destruct (wf_ops_affb _ ops) eqn:E2; [|discriminate].
  destruct (InvAgg.wf_ops_aggb _ ops) eqn:E3; [|discriminate]. destruct (InvCount.wf_ops_cntb _ ops) eqn:E4; [|discriminate].
  split; [apply wf_ops_allb_sound; exact E1|]. split; [apply wf_ops_affb_sound; exact E2|].
  split; [apply InvAgg.wf_ops_aggb_sound; exact E3|apply InvCount.wf_ops_cntb_sound; exact E4].
Qed.
